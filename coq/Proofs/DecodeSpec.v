(* Proofs/DecodeSpec.v -- property C07, the evaluation of the constructor call:
   for every non-truncated date form, time form and zone form of the generated
   tables the parser's result on the rendered text is given EXPLICITLY as a
   function of the assigned field texts (x_date, x_tod, x_zone), and it is
   returned exactly when that point is a valid time point of the calendar mode
   (Spec/Instant.valid_tp); otherwise the parser refuses with its bad-input
   error.  Also: a date alone (no "T"), and dump_as_parsed. *)
From Coq Require Import ZArith QArith Qround Lqa List Bool String Ascii Lia.
From Iso Require Import Proofs.Tac Spec.Cal Spec.Instant Model.Num Model.Helpers Model.Duration Model.TimePoint
  Model.Forms Model.Parse Model.Dump Spec.FormText Proofs.MatchSpec gen.Grammar Model.DriverText
  Proofs.HelpersSpec Proofs.ConvSpec Proofs.TickSpec Proofs.AddSpec Proofs.ZoneSpec Proofs.CmpSpec Proofs.ConstructSpec
  Proofs.RoundTripSpec.
Import ListNotations.
Close Scope Q_scope.
Close Scope Z_scope.
Local Open Scope string_scope.

(* ------------------------------------------------------------------ *)
(* 0. the definitions Props/C07Ext.v states its theorems with          *)
(* ------------------------------------------------------------------ *)

(* the text assigned to group k, when the token list has such a group *)
Definition fget (k : string) (ts : list ptok) (a : env) : option string :=
  if binds k ts then Some (fld k a) else None.
(* ... as a number; 0 when the form has no such group *)
Definition fnum (k : string) (ts : list ptok) (a : env) : option Z := option_map dnum (fget k ts a).
Definition fval (k : string) (ts : list ptok) (a : env) : Z := od (fnum k ts a).
(* ... with the start-of-period default 1 *)
Definition fval1 (k : string) (ts : list ptok) (a : env) : Z :=
  match fnum k ts a with Some v => v | None => 1%Z end.
Definition signed (sg : option string) (v : Z) : Z :=
  match sg with Some s => if String.eqb s "-" then (- v)%Z else v | None => v end.

(* the year the digits denote: year-of-century + 100 century + 10000 expanded
   digits, negated when the sign group reads "-" *)
Definition x_year (dt : list ptok) (ad : env) : Z :=
  signed (fget "year_sign" dt ad)
         (fval "year_of_century" dt ad + 100 * fval "century" dt ad + 10000 * fval "expanded_year" dt ad)%Z.

(* the date in the representation of the form: ordinal when it has a
   day-of-year group, week when it has a week group, calendar otherwise; an
   omitted month, day of month or day of week is 1 *)
Definition x_date (dt : list ptok) (ad : env) : date :=
  let y := x_year dt ad in
  if binds "day_of_year" dt then Ord y (fval "day_of_year" dt ad)
  else if binds "week_of_year" dt then Wk y (fval "week_of_year" dt ad) (fval1 "day_of_week" dt ad)
  else Cal y (fval1 "month_of_year" dt ad) (fval1 "day_of_month" dt ad).

(* the time of day: the decimal fraction 0.digits is added to the last unit
   given and the units below it are absent (hour-only / hour-minute forms);
   without a fraction omitted minutes and seconds are 0 *)
Definition x_tod (tt : list ptok) (atm : env) : tod :=
  let h := qz (fval "hour_of_day" tt atm) in
  let m := qz (fval "minute_of_hour" tt atm) in
  let s := qz (fval "second_of_minute" tt atm) in
  match fget "hour_of_day_decimal" tt atm, fget "minute_of_hour_decimal" tt atm, fget "second_of_minute_decimal" tt atm with
  | Some f, _, _ => HH (qadd h (frac_of f))
  | None, Some f, _ => HM h (qadd m (frac_of f))
  | None, None, Some f => HMS h m (qadd s (frac_of f))
  | None, None, None => HMS h m s
  end.

(* the zone: the written offset (sign applied to hours and minutes, "Z" is
   +00:00), or what the configuration dictates when none is written: the
   assumed offset; UTC when told to default to unknown; the local offset *)
Definition x_zone (cfg : pcfg) (zo : option form) (az : env) : zone :=
  match zo with
  | None =>
    match c_assumed cfg with
    | Some (h, m) => mkZone h m
    | None => if c_unknown cfg then mkZone 0 0 else mkZone (fst (c_local cfg)) (snd (c_local cfg))
    end
  | Some fz =>
    let zt := f_parse fz in
    if binds "time_zone_utc" zt then mkZone 0 0
    else mkZone (signed (fget "time_zone_sign" zt az) (fval "time_zone_hour" zt az))
                (signed (fget "time_zone_sign" zt az) (fval "time_zone_minute" zt az))
  end.

Definition x_ned (cfg : pcfg) (dt : list ptok) : Z := if binds "expanded_year" dt then c_ned cfg else 0%Z.

(* a model time point as the parser's result record: not truncated, no
   truncated property, ned expanded year digits, dump format fmt *)
Definition ptp_of (q : tp) (ned : Z) (fmt : string) : ptp :=
  mkPtp (Some (date_year (tdate q))) (d_month (tdate q)) (d_dom (tdate q)) (d_doy (tdate q))
        (d_week (tdate q)) (d_dow (tdate q)) (tod_h (ttod q)) (tod_m (ttod q)) (tod_s (ttod q))
        (Some (tzone q)) false "" ned fmt.

(* ------------------------------------------------------------------ *)
(* 1. bindings of a rendered form, by group name                       *)
(* ------------------------------------------------------------------ *)
Definition no_grp (k : string) (ts : list ptok) : bool :=
  forallb (fun t => match t with PGrp nm _ => negb (String.eqb k nm) | _ => true end) ts.

Lemma lookup_bindings : forall k ts a, no_grp k ts = true -> lookup_env k (bindings ts a) = fget k ts a.
Proof.
  unfold fget. induction ts as [|t ts IH]; intros a N; [reflexivity|].
  cbn [no_grp forallb] in N. apply andb_true_iff in N. destruct N as [N1 N2]. fold (no_grp k ts) in N2.
  specialize (IH a N2).
  destruct t as [l|nm n|nm|nm|nm l|nm]; cbn [bindings binds existsb tok_name lookup_env orb];
    fold (binds k ts); try exact IH;
    try (destruct (String.eqb k nm) eqn:E; cbn [orb]; [apply String.eqb_eq in E; subst nm; reflexivity|exact IH]).
  apply negb_true_iff in N1. rewrite N1. cbn [orb]. exact IH.
Qed.

Lemma num_keys_no_grp : forall keys ts k, num_keys_ok keys ts = true -> In k keys -> no_grp k ts = true.
Proof.
  intros keys ts k N K. unfold num_keys_ok in N. unfold no_grp. rewrite forallb_forall in *.
  intros t I. specialize (N t I). destruct t as [l|nm n|nm|nm|nm l|nm]; try reflexivity.
  destruct (String.eqb k nm) eqn:E; [|reflexivity]. apply String.eqb_eq in E. subst nm.
  rewrite (In_mem _ _ K) in N. discriminate.
Qed.

Lemma nz_bindings : forall keys ts a k, num_keys_ok keys ts = true -> In k keys ->
  nz (bindings ts a) k = fnum k ts a.
Proof. intros. unfold nz, fnum. rewrite lookup_bindings by (eapply num_keys_no_grp; eassumption). reflexivity. Qed.
Lemma nq_bindings : forall keys ts a k, num_keys_ok keys ts = true -> In k keys ->
  nq (bindings ts a) k = option_map (fun s => qz (dnum s)) (fget k ts a).
Proof. intros. unfold nq. rewrite lookup_bindings by (eapply num_keys_no_grp; eassumption). reflexivity. Qed.
Lemma ndec_bindings : forall keys ts a k, num_keys_ok keys ts = true -> In k keys ->
  ndec (bindings ts a) k = option_map frac_of (fget k ts a).
Proof. intros. unfold ndec. rewrite lookup_bindings by (eapply num_keys_no_grp; eassumption). reflexivity. Qed.

(* a bound numeric key holds a non-empty digit string *)
Lemma fget_digits : forall keys ts a k s, num_keys_ok keys ts = true -> wf_assign ts a = true -> In k keys ->
  fget k ts a = Some s -> digits_plus s = true.
Proof.
  intros keys ts a k s N W K F. rewrite <- lookup_bindings in F by (eapply num_keys_no_grp; eassumption).
  eapply (bindings_digit_env keys ts a N W); eassumption.
Qed.

(* ------------------------------------------------------------------ *)
(* 2. decimal fractions 0.digits lie in [0, 1)                         *)
(* ------------------------------------------------------------------ *)
Lemma digit1 : forall c, is_digit c = true -> (0 <= dnum (String c "") <= 9)%Z.
Proof.
  intros c H. destruct c as [b0 b1 b2 b3 b4 b5 b6 b7].
  destruct b0, b1, b2, b3, b4, b5, b6, b7; cbv in H; try discriminate H; vm_compute; split; discriminate.
Qed.
Lemma dnum_lt : forall s, all_digits s = true -> (0 <= dnum s < 10 ^ Z.of_nat (String.length s))%Z.
Proof.
  induction s as [|c s IH]; intros A.
  - vm_compute. split; [discriminate|reflexivity].
  - simpl in A. apply andb_true_iff in A. destruct A as [A1 A2]. specialize (IH A2).
    change (String c s) with (String c "" ++ s).
    rewrite dnum_app by (try assumption; simpl; rewrite A1; reflexivity).
    pose proof (digit1 c A1) as D. cbn [append String.length].
    rewrite Nat2Z.inj_succ, Z.pow_succ_r by lia. nia.
Qed.

Lemma frac_of_range : forall s, digits_plus s = true -> qleb 0 (frac_of s) && qltb (frac_of s) 1 = true.
Proof.
  intros s D. pose proof (frac_of_scaled s 0 D) as F.
  unfold digits_plus in D. apply andb_true_iff in D. destruct D as [_ A]. pose proof (dnum_lt s A) as R.
  rewrite Nat.add_0_r, Z.mul_1_r in F.
  set (P := (10 ^ Z.of_nat (String.length s))%Z) in *.
  assert (PP : (0 < P)%Z) by (unfold P; apply Z.pow_pos_nonneg; lia).
  assert (QP : (0 < inject_Z P)%Q) by (change 0%Q with (inject_Z 0); apply lt_inj; exact PP).
  assert (L : (inject_Z 0 <= inject_Z (dnum s))%Q) by (apply le_inj; lia).
  assert (U : (inject_Z (dnum s) < inject_Z P)%Q) by (apply lt_inj; lia).
  change (inject_Z 0) with 0%Q in L.
  apply andb_true_iff. split; [apply qleb_iff|apply qltb_iff].
  - destruct (Qlt_le_dec (frac_of s) 0) as [Lt|Ge]; [|exact Ge]. exfalso.
    assert ((frac_of s * inject_Z P < 0)%Q); [|lra].
    setoid_replace 0%Q with (0 * inject_Z P)%Q by ring. apply Qmult_lt_compat_r; assumption.
  - destruct (Qlt_le_dec (frac_of s) 1) as [Lt|Ge]; [exact Lt|]. exfalso.
    assert ((1 * inject_Z P <= frac_of s * inject_Z P)%Q) by (apply Qmult_le_compat_r; [exact Ge|lra]). lra.
Qed.

(* ------------------------------------------------------------------ *)
(* 3. the shapes of the non-truncated forms (checked on the tables)    *)
(* ------------------------------------------------------------------ *)
Definition date_full_shape (ts : list ptok) : bool :=
  let b := fun k => binds k ts in
  negb (b "truncated") && b "century" && negb (b "year_of_decade") &&
  no_grp "year_sign" ts && num_keys_ok DATE_KEYS ts &&
  (if b "day_of_year" then negb (b "month_of_year") && negb (b "day_of_month") && negb (b "week_of_year") && negb (b "day_of_week")
   else if b "week_of_year" then negb (b "month_of_year") && negb (b "day_of_month")
   else negb (b "day_of_week")).
Definition time_full_shape (ts : list ptok) : bool :=
  let b := fun k => binds k ts in
  negb (b "truncated") && b "hour_of_day" && num_keys_ok TIME_KEYS ts &&
  (if b "hour_of_day_decimal"
   then negb (b "minute_of_hour") && negb (b "second_of_minute") && negb (b "minute_of_hour_decimal") && negb (b "second_of_minute_decimal")
   else if b "minute_of_hour_decimal" then b "minute_of_hour" && negb (b "second_of_minute") && negb (b "second_of_minute_decimal")
   else if b "second_of_minute_decimal" then b "minute_of_hour" && b "second_of_minute"
   else implb (b "second_of_minute") (b "minute_of_hour")).
Definition zone_shape (ts : list ptok) : bool :=
  num_keys_ok ZONE_KEYS ts && no_grp "time_zone_sign" ts && (binds "time_zone_utc" ts || binds "time_zone_hour" ts).

Definition not_trunc (f : form) : bool := negb (String.eqb (f_type f) "truncated").
Theorem tables_full_shapes :
  forallb (fun f => negb (not_trunc f) || date_full_shape (f_parse f)) (DATE_FORMS_2 ++ DATE_FORMS_3)%list = true /\
  forallb (fun f => negb (not_trunc f) || date_full_shape (f_parse f) || binds "expanded_year" (f_parse f)) DATE_FORMS_0 = true /\
  forallb (fun f => negb (not_trunc f) || time_full_shape (f_parse f)) TIME_FORMS = true /\
  forallb (fun f => zone_shape (f_parse f)) ZONE_FORMS = true.
Proof. vm_compute. repeat split; reflexivity. Qed.

(* ------------------------------------------------------------------ *)
(* 4. the constructor on the bindings of full forms                    *)
(* ------------------------------------------------------------------ *)
Definition zone_of_args (zn : option (Z * option Z)) : zone :=
  match zn with None => mkZone 0 0 | Some (h, mo) => mkZone h (od mo) end.
Lemma zone_stage_eq : forall zn,
  zone_stage zn = if valid_zone (zone_of_args zn) then POk (Some (zone_of_args zn)) else PErr EBadInput.
Proof.
  intros [[a zmo]|]; [|reflexivity]. unfold zone_stage, zone_of_args, od. cbv zeta.
  set (b := match zmo with Some x => x | None => 0%Z end). clearbody b.
  unfold valid_zone. cbn [zh zm].
  destruct (negb ((-99 <=? a) && (a <=? 99))%Z) eqn:E3.
  - assert (X : ((-99 <=? a) && (a <=? 99) && (-59 <=? b) && (b <=? 59) &&
                 (if 0 <? a then 0 <=? b else if a <? 0 then b <=? 0 else true))%Z = false)
      by (destruct (0 <? a)%Z eqn:E1; destruct (a <? 0)%Z eqn:E2; lia).
    rewrite X. reflexivity.
  - match goal with |- context [if negb ?c then _ else _] => destruct (negb c) eqn:E4 end.
    + assert (X : ((-99 <=? a) && (a <=? 99) && (-59 <=? b) && (b <=? 59) &&
                   (if 0 <? a then 0 <=? b else if a <? 0 then b <=? 0 else true))%Z = false)
        by (destruct (0 <? a)%Z eqn:E1; destruct (a <? 0)%Z eqn:E2; lia).
      rewrite X. reflexivity.
    + assert (X : ((-99 <=? a) && (a <=? 99) && (-59 <=? b) && (b <=? 59) &&
                   (if 0 <? a then 0 <=? b else if a <? 0 then b <=? 0 else true))%Z = true)
        by (destruct (0 <? a)%Z eqn:E1; destruct (a <? 0)%Z eqn:E2; lia).
      rewrite X. reflexivity.
Qed.

(* valid_tod on the three shapes is the constructor's bound check *)
Lemma qz_int : forall z, qis_int (qz z) = true.
Proof. intros. apply qis_int_iff. apply isint_Z. Qed.
Lemma tod_ok_valid : forall t,
  (match t with HMS h m _ => qis_int h = true /\ qis_int m = true | HM h _ => qis_int h = true | HH _ => True end) ->
  tod_fields_ok (tod_h t) (tod_m t) (tod_s t) = valid_tod t.
Proof.
  intros t I. destruct (valid_tod t) eqn:V.
  - apply (tod_fields_ok_valid t t V). destruct t; cbn [tod_eq]; repeat split; reflexivity.
  - destruct (tod_fields_ok (tod_h t) (tod_m t) (tod_s t)) eqn:F; [|reflexivity]. exfalso.
    destruct t as [h m s|h m|h]; unfold tod_h, tod_m, tod_s in F; cbn [tod_hour] in F.
    + destruct I as [Ih Im]. rewrite (valid_hms h m s Ih Im F) in V. discriminate.
    + rewrite (valid_hm h m I F) in V. discriminate.
    + rewrite (valid_hh h F) in V. discriminate.
Qed.

Lemma date_chk_week0 : forall md y mo d dw, date_chk md y mo d None (Some 0%Z) dw = false.
Proof.
  intros. unfold date_chk. cbn [in_rng]. change (1 <=? 0)%Z with false. cbn [andb].
  rewrite !andb_false_r. reflexivity.
Qed.
Lemma valid_week0 : forall md y dw, valid_week md y 0 dw = false.
Proof. intros. unfold valid_week. change (1 <=? 0)%Z with false. reflexivity. Qed.

(* the date/zone/bounds stage of the constructor on the numbers of a full date form *)
Lemma tail_full : forall md dt ad h m s zn tprop ned fmt, date_full_shape dt = true ->
  tail md (x_year dt ad) (fnum "month_of_year" dt ad) (fnum "day_of_month" dt ad) (fnum "day_of_year" dt ad)
       (fnum "week_of_year" dt ad) (fnum "day_of_week" dt ad) h m s zn tprop ned fmt =
  let d := x_date dt ad in
  if valid_zone (zone_of_args zn) && (valid_date md d && tod_fields_ok h m s)
  then POk (mkPtp (Some (x_year dt ad)) (d_month d) (d_dom d) (d_doy d) (d_week d) (d_dow d) h m s
                  (Some (zone_of_args zn)) false tprop ned fmt)
  else PErr EBadInput.
Proof.
  intros md dt ad h m s zn tprop ned fmt S. unfold date_full_shape in S. cbv zeta in S.
  apply andb_true_iff in S. destruct S as [S Sh]. clear S.
  unfold tail. rewrite zone_stage_eq. destruct (valid_zone (zone_of_args zn)); cbn [andb]; [|reflexivity].
  unfold x_date, fval, fval1, fnum, fget. cbv zeta.
  destruct (binds "day_of_year" dt) eqn:B1; destruct (binds "week_of_year" dt) eqn:B2;
    destruct (binds "month_of_year" dt) eqn:B3; destruct (binds "day_of_month" dt) eqn:B4;
    destruct (binds "day_of_week" dt) eqn:B5; cbn [negb andb] in Sh; try discriminate Sh; clear Sh;
    cbn [option_map od];
    unfold conflict, date_dfl; cbn [truthy is_some orb andb negb d_month d_dom d_doy d_week d_dow valid_date];
    rewrite ?andb_false_r, ?orb_false_r; cbn [orb andb negb].
  - (* ordinal *) rewrite check_bounds_eq, date_chk_ord. reflexivity.
  - (* week, with day *)
    set (w := dnum (fld "week_of_year" ad)). set (dw := dnum (fld "day_of_week" ad)).
    destruct (negb (w =? 0)%Z || negb (dw =? 0)%Z) eqn:E; cbn [negb].
    + rewrite check_bounds_eq, date_chk_week. reflexivity.
    + assert (w = 0%Z) as -> by lia. rewrite check_bounds_eq, date_chk_week0, valid_week0. reflexivity.
  - (* week, day omitted *)
    set (w := dnum (fld "week_of_year" ad)).
    destruct (negb (w =? 0)%Z) eqn:E; cbn [negb].
    + rewrite check_bounds_eq, date_chk_week. reflexivity.
    + assert (w = 0%Z) as -> by lia. rewrite check_bounds_eq, date_chk_week0, valid_week0. reflexivity.
  - rewrite check_bounds_eq, date_chk_cal. reflexivity.
  - rewrite check_bounds_eq, date_chk_cal. reflexivity.
  - rewrite check_bounds_eq, date_chk_cal. reflexivity.
  - rewrite check_bounds_eq, date_chk_cal. reflexivity.
Qed.

(* the decimal and default stages on the numbers of a full time form *)
Lemma time_full : forall tt atm, time_full_shape tt = true -> wf_assign tt atm = true ->
  let t := bindings tt atm in
  let x := x_tod tt atm in
  exists h1 m1 s1,
    dec_h (nq t "hour_of_day") (ndec t "hour_of_day_decimal") (nq t "minute_of_hour") (nq t "second_of_minute") = POk h1 /\
    dec_m (nq t "minute_of_hour") (ndec t "minute_of_hour_decimal") (nq t "second_of_minute") = POk m1 /\
    dec_s (nq t "second_of_minute") (ndec t "second_of_minute_decimal") = POk s1 /\
    dfl_h h1 = tod_h x /\ dfl_m (ndec t "hour_of_day_decimal") m1 = tod_m x /\
    dfl_s (ndec t "hour_of_day_decimal") (ndec t "minute_of_hour_decimal") s1 = tod_s x /\
    tod_fields_ok (tod_h x) (tod_m x) (tod_s x) = valid_tod x.
Proof.
  intros tt atm S W. cbv zeta. unfold time_full_shape in S. cbv zeta in S.
  apply andb_true_iff in S. destruct S as [S Sh]. apply andb_true_iff in S. destruct S as [S K].
  apply andb_true_iff in S. destruct S as [_ Bh].
  rewrite !(nq_bindings TIME_KEYS) by (try assumption; in_keys).
  rewrite !(ndec_bindings TIME_KEYS) by (try assumption; in_keys).
  assert (FR : forall k, In k TIME_KEYS -> binds k tt = true ->
               qleb 0 (frac_of (fld k atm)) && qltb (frac_of (fld k atm)) 1 = true).
  { intros k I B. apply frac_of_range. apply (fget_digits TIME_KEYS tt atm k); try assumption.
    unfold fget. rewrite B. reflexivity. }
  pose proof (FR "hour_of_day_decimal" ltac:(in_keys)) as F1.
  pose proof (FR "minute_of_hour_decimal" ltac:(in_keys)) as F2.
  pose proof (FR "second_of_minute_decimal" ltac:(in_keys)) as F3. clear FR.
  unfold x_tod, fval, fnum, fget. rewrite Bh.
  destruct (binds "hour_of_day_decimal" tt) eqn:B1; destruct (binds "minute_of_hour" tt) eqn:B2;
    destruct (binds "second_of_minute" tt) eqn:B3; destruct (binds "minute_of_hour_decimal" tt) eqn:B4;
    destruct (binds "second_of_minute_decimal" tt) eqn:B5; cbn [negb andb implb] in Sh; try discriminate Sh; clear Sh;
    cbn [option_map od dec_h dec_m dec_s];
    rewrite ?(F1 eq_refl), ?(F2 eq_refl), ?(F3 eq_refl); cbn [negb];
    do 3 eexists; (split; [reflexivity|]); (split; [reflexivity|]); (split; [reflexivity|]);
    (split; [reflexivity|]); (split; [reflexivity|]); (split; [reflexivity|]);
    apply tod_ok_valid; repeat split; apply qz_int.
Qed.

(* no time part at all: midnight, to the second *)
Lemma time_full_gen : forall tt atm, (time_full_shape tt = true /\ wf_assign tt atm = true) \/ tt = [] ->
  let t := bindings tt atm in
  let x := x_tod tt atm in
  binds "truncated" tt = false /\
  exists h1 m1 s1,
    dec_h (nq t "hour_of_day") (ndec t "hour_of_day_decimal") (nq t "minute_of_hour") (nq t "second_of_minute") = POk h1 /\
    dec_m (nq t "minute_of_hour") (ndec t "minute_of_hour_decimal") (nq t "second_of_minute") = POk m1 /\
    dec_s (nq t "second_of_minute") (ndec t "second_of_minute_decimal") = POk s1 /\
    dfl_h h1 = tod_h x /\ dfl_m (ndec t "hour_of_day_decimal") m1 = tod_m x /\
    dfl_s (ndec t "hour_of_day_decimal") (ndec t "minute_of_hour_decimal") s1 = tod_s x /\
    tod_fields_ok (tod_h x) (tod_m x) (tod_s x) = valid_tod x.
Proof.
  intros tt atm [[S W]| ->].
  - split; [|apply time_full; assumption].
    unfold time_full_shape in S. cbv zeta in S. apply andb_true_iff in S. destruct S as [S _].
    apply andb_true_iff in S. destruct S as [S _]. apply andb_true_iff in S. destruct S as [S _].
    apply negb_true_iff in S. exact S.
  - split; [reflexivity|]. exists None, None, None. repeat split; reflexivity.
Qed.

Lemma x_date_year : forall dt ad, date_year (x_date dt ad) = x_year dt ad.
Proof. intros. unfold x_date. cbv zeta. destruct (binds "day_of_year" dt); [reflexivity|]. destruct (binds "week_of_year" dt); reflexivity. Qed.

(* THE CONSTRUCTOR CALL EVALUATED: on the bindings of a full date form and a
   full time form the parser's constructor call returns the explicit point,
   exactly when it is a valid time point *)
Theorem point_num_full_gen : forall md cfg dt tt ad atm zn fmt,
  date_full_shape dt = true -> wf_assign dt ad = true ->
  (time_full_shape tt = true /\ wf_assign tt atm = true) \/ tt = [] ->
  point_num md cfg (bindings dt ad) (bindings tt atm) zn fmt false =
  let q := mkTp (x_date dt ad) (x_tod tt atm) (zone_of_args zn) in
  if valid_tp md q then POk (ptp_of q (x_ned cfg dt) fmt) else PErr EBadInput.
Proof.
  intros md cfg dt tt ad atm zn fmt Sd Wd TS.
  pose proof Sd as Sd'. unfold date_full_shape in Sd'. cbv zeta in Sd'.
  apply andb_true_iff in Sd'. destruct Sd' as [S _]. apply andb_true_iff in S. destruct S as [S Kd].
  apply andb_true_iff in S. destruct S as [S Ns]. apply andb_true_iff in S. destruct S as [S Bd].
  apply andb_true_iff in S. destruct S as [Bt Bc].
  apply negb_true_iff in Bt. apply negb_true_iff in Bd.
  destruct (time_full_gen tt atm TS) as (Tt & h1 & m1 & s1 & Hh & Hm & Hs & Dh & Dm & Ds & TV). cbv zeta in *.
  rewrite point_num_eq.
  assert (PT : pn_trunc (bindings dt ad) = false).
  { unfold pn_trunc. rewrite !has_key_bindings, Bt, Bc. reflexivity. }
  assert (PY : pn_year (bindings dt ad) = Some (x_year dt ad)).
  { unfold pn_year, pn_year_present. rewrite PT. cbn [negb orb].
    rewrite !(nz_bindings DATE_KEYS) by (try assumption; in_keys).
    rewrite lookup_bindings by assumption. unfold x_year, signed, fval.
    assert (E : fnum "year_of_decade" dt ad = None) by (unfold fnum, fget; rewrite Bd; reflexivity).
    rewrite E. cbn [od]. destruct (fget "year_sign" dt ad) as [s|]; [destruct (String.eqb s "-")|]; f_equal; lia. }
  assert (PP : pn_tprop (bindings dt ad) = "").
  { unfold pn_tprop. rewrite !has_key_bindings, Bt, Bc, Bd. reflexivity. }
  assert (PN : pn_ned cfg (bindings dt ad) = x_ned cfg dt).
  { unfold pn_ned, x_ned. rewrite lookup_bindings by (apply (num_keys_no_grp DATE_KEYS); [assumption|in_keys]).
    destruct (fget "expanded_year" dt ad) as [s|] eqn:F.
    - pose proof (fget_digits DATE_KEYS dt ad "expanded_year" s Kd Wd ltac:(in_keys) F) as D.
      unfold fget in F. destruct (binds "expanded_year" dt); [|discriminate].
      unfold digits_plus in D. apply andb_true_iff in D. destruct D as [D _]. apply negb_true_iff in D.
      rewrite D. reflexivity.
    - unfold fget in F. destruct (binds "expanded_year" dt); [discriminate|reflexivity]. }
  rewrite PT, PY, PP, PN, has_key_bindings, Tt. cbn [orb].
  rewrite !(nz_bindings DATE_KEYS) by (try assumption; in_keys).
  rewrite construct_eq.
  rewrite Hh, Hm, Hs. cbn [pbind]. rewrite tail_full by assumption. cbv zeta.
  rewrite Dh, Dm, Ds, TV. unfold valid_tp, ptp_of. cbn [tdate ttod tzone].
  rewrite x_date_year.
  destruct (valid_date md (x_date dt ad)), (valid_tod (x_tod tt atm)), (valid_zone (zone_of_args zn)); reflexivity.
Qed.

Theorem point_num_full : forall md cfg dt tt ad atm zn fmt,
  date_full_shape dt = true -> time_full_shape tt = true ->
  wf_assign dt ad = true -> wf_assign tt atm = true ->
  point_num md cfg (bindings dt ad) (bindings tt atm) zn fmt false =
  let q := mkTp (x_date dt ad) (x_tod tt atm) (zone_of_args zn) in
  if valid_tp md q then POk (ptp_of q (x_ned cfg dt) fmt) else PErr EBadInput.
Proof. intros. apply point_num_full_gen; auto. Qed.

(* the zone arguments of the constructor call *)
Definition zo_shape (zo : option form) : bool :=
  match zo with Some fz => zone_shape (f_parse fz) | None => true end.
Lemma zone_num_full : forall cfg zo az, zo_shape zo = true ->
  exists zn, zone_num cfg (zo_bind zo az) = POk zn /\ zone_of_args zn = x_zone cfg zo az.
Proof.
  intros cfg zo az S. destruct zo as [fz|]; cbn [zo_shape zo_bind x_zone] in *.
  - unfold zone_shape in S. apply andb_true_iff in S. destruct S as [S B]. apply andb_true_iff in S. destruct S as [K Ns].
    set (zt := f_parse fz) in *. unfold zone_num.
    destruct (bindings zt az) as [|b0 l] eqn:E.
    + exfalso. pose proof (has_key_bindings "time_zone_utc" zt az) as H1.
      pose proof (has_key_bindings "time_zone_hour" zt az) as H2. rewrite E in H1, H2. cbn in H1, H2.
      rewrite <- H1, <- H2 in B. discriminate.
    + rewrite <- E. rewrite has_key_bindings.
      destruct (binds "time_zone_utc" zt) eqn:U.
      * eexists. split; reflexivity.
      * cbn [orb] in B.
        rewrite !(nz_bindings ZONE_KEYS) by (try assumption; in_keys).
        rewrite lookup_bindings by assumption.
        assert (EH : fnum "time_zone_hour" zt az = Some (fval "time_zone_hour" zt az))
          by (unfold fval, fnum, fget; rewrite B; reflexivity).
        rewrite EH. cbv zeta.
        eexists. split; [reflexivity|]. unfold zone_of_args. f_equal.
        -- unfold signed.
           destruct (fget "time_zone_sign" zt az) as [s|]; [destruct (String.eqb s "-")|]; reflexivity.
        -- unfold signed, fval. destruct (fnum "time_zone_minute" zt az) as [v|]; cbn [option_map od];
             (destruct (fget "time_zone_sign" zt az) as [s|]; [destruct (String.eqb s "-")|]); reflexivity.
  - unfold zone_num. destruct (c_assumed cfg) as [[h m]|]; [eexists; split; reflexivity|].
    destruct (c_unknown cfg); eexists; split; reflexivity.
Qed.

(* ------------------------------------------------------------------ *)
(* 5. END TO END over the tables: date "T" time zone                   *)
(* ------------------------------------------------------------------ *)
Lemma time_search_type : forall tfs cfg bf bt f, In f (time_search tfs cfg bf bt) -> mem (f_type f) bt = false.
Proof.
  intros tfs cfg bf bt f H. unfold time_search in H. apply in_flat_map in H. destruct H as [fk [_ H]].
  destruct (mem fk bf); [destruct H|].
  apply in_flat_map in H. destruct H as [tk [_ H]]. destruct (mem tk bt) eqn:M; [destruct H|].
  apply filter_In in H. destruct H as [_ E]. apply andb_true_iff in E. destruct E as [_ E].
  apply String.eqb_eq in E. rewrite E. exact M.
Qed.

Lemma date_shape_tables : forall ned f, In ned [0; 2; 3]%Z -> In f (date_forms_of ned) -> not_trunc f = true ->
  (ned = 0%Z -> binds "expanded_year" (f_parse f) = false) -> date_full_shape (f_parse f) = true.
Proof.
  intros ned f N I T EX. destruct tables_full_shapes as (S23 & S0 & _ & _).
  rewrite forallb_forall in S23, S0. unfold date_forms_of in I.
  destruct N as [<-|[<-|[<-|[]]]]; cbn [Z.eqb Pos.eqb] in I.
  - specialize (S0 f I). rewrite T, (EX eq_refl) in S0. cbn [negb orb] in S0. rewrite orb_false_r in S0. exact S0.
  - specialize (S23 f ltac:(apply in_or_app; left; exact I)). rewrite T in S23. exact S23.
  - specialize (S23 f ltac:(apply in_or_app; right; exact I)). rewrite T in S23. exact S23.
Qed.
Lemma time_shape_tables : forall f, In f TIME_FORMS -> not_trunc f = true -> time_full_shape (f_parse f) = true.
Proof.
  intros f I T. destruct tables_full_shapes as (_ & _ & ST & _). rewrite forallb_forall in ST.
  specialize (ST f I). rewrite T in ST. exact ST.
Qed.
Lemma zone_shape_choices : forall cfg bf ft zo, In zo (zone_choices cfg bf ft) -> zo_shape zo = true.
Proof.
  intros cfg bf ft zo I. destruct zo as [fz|]; [|reflexivity]. cbn [zo_shape].
  unfold zone_choices in I. apply in_app_or in I. destruct I as [I|I].
  - destruct (String.eqb (f_type ft) "truncated"); [destruct I|]. destruct I as [I|[]]. discriminate.
  - apply in_map_iff in I. destruct I as [x [E I]]. inversion E; subst x.
    apply zone_search_In in I. destruct I as [I _].
    destruct tables_full_shapes as (_ & _ & _ & SZ). rewrite forallb_forall in SZ. apply SZ. exact I.
Qed.

Theorem decode_full : forall md cfg fd gd ft zo ad atm az asp,
  In (c_ned cfg) [0; 2; 3]%Z ->
  let dfs := date_forms_of (c_ned cfg) in
  In fd (date_search dfs cfg ["reduced"]) -> f_type fd = "complete" ->
  hit (date_search dfs cfg ["reduced"]) fd = Some gd ->
  let bf := bad_formats_of (f_format gd) (f_type gd) in
  In ft (time_search TIME_FORMS cfg bf ["truncated"]) ->
  In zo (zone_choices cfg bf ft) ->
  (c_ned cfg = 0%Z -> binds "expanded_year" (f_parse fd) = false) ->
  wf_assign (f_parse fd) ad = true -> wf_assign (f_parse ft) atm = true -> zo_wf zo az = true ->
  let q := mkTp (x_date (f_parse fd) ad) (x_tod (f_parse ft) atm) (x_zone cfg zo az) in
  parse_text md cfg (render_toks (f_parse fd) ad ++ "T" ++ render_toks (f_parse ft) atm ++ zo_text zo az) asp =
  if valid_tp md q
  then POk (ptp_of q (x_ned cfg (f_parse fd)) (if asp then f_expr fd ++ "T" ++ f_expr ft ++ zo_expr zo else ""))
  else PErr EBadInput.
Proof.
  intros md cfg fd gd ft zo ad atm az asp N dfs ID TY H bf IT IZ EX Wd Wt Wz q.
  assert (NT : not_trunc fd = true) by (unfold not_trunc; rewrite TY; reflexivity).
  assert (Sd : date_full_shape (f_parse fd) = true).
  { apply (date_shape_tables (c_ned cfg)); try assumption. apply (date_search_In _ _ _ _ ID). }
  assert (St : time_full_shape (f_parse ft) = true).
  { apply time_shape_tables; [apply (time_search_In _ _ _ _ _ IT)|].
    apply time_search_type in IT. unfold not_trunc. unfold mem in IT. cbn [existsb] in IT.
    rewrite orb_false_r in IT. rewrite IT. reflexivity. }
  assert (TT : trunc_types fd = ["truncated"]).
  { unfold trunc_types. unfold date_full_shape in Sd. cbv zeta in Sd.
    destruct (binds "truncated" (f_parse fd)); [discriminate Sd|reflexivity]. }
  rewrite (decode_tables md cfg fd gd ft zo ad atm az asp N ID H); try assumption.
  2:{ rewrite TT. exact IT. }
  destruct (zone_num_full cfg zo az (zone_shape_choices _ _ _ _ IZ)) as (zn & ZN & ZA).
  rewrite ZN. cbn [pbind]. rewrite point_num_full by assumption. cbv zeta. rewrite ZA. reflexivity.
Qed.

(* ------------------------------------------------------------------ *)
(* 6. a date alone (no "T")                                            *)
(* ------------------------------------------------------------------ *)
Theorem tables_date_chars :
  forallb (fun f => no_char "T" (f_parse f) && ascii_toks (f_parse f) && simple (f_parse f))
          (DATE_FORMS_0 ++ DATE_FORMS_2 ++ DATE_FORMS_3)%list = true.
Proof. vm_compute. reflexivity. Qed.
Lemma date_forms_chars : forall ned f, In f (date_forms_of ned) ->
  no_char "T" (f_parse f) = true /\ ascii_toks (f_parse f) = true /\ simple (f_parse f) = true.
Proof.
  intros ned f I. pose proof tables_date_chars as T. rewrite forallb_forall in T.
  assert (J : In f (DATE_FORMS_0 ++ DATE_FORMS_2 ++ DATE_FORMS_3)%list).
  { unfold date_forms_of in I. destruct (ned =? 0)%Z; [apply in_or_app; left; exact I|].
    apply in_or_app; right. apply in_or_app. destruct (ned =? 3)%Z; [right|left]; exact I. }
  specialize (T f J). apply andb_true_iff in T. destruct T as [T C]. apply andb_true_iff in T. tauto.
Qed.

Lemma found_dates : forall cfg bad fd, In (c_ned cfg) [0; 2; 3]%Z -> In bad [[]; ["reduced"]] ->
  In fd (date_search (date_forms_of (c_ned cfg)) cfg bad) ->
  mem (f_expr fd) (date_exceptions (c_ned cfg) (c_trunc cfg) bad) = false ->
  found (date_search (date_forms_of (c_ned cfg)) cfg bad) fd = true.
Proof.
  intros cfg bad fd N B I E. rewrite date_search_cfg in *.
  pose proof reachable_dates as R. rewrite forallb_forall in R.
  specialize (R (c_ned cfg, c_trunc cfg, c_basic cfg, bad)).
  assert (J : In (c_ned cfg, c_trunc cfg, c_basic cfg, bad) date_cfgs).
  { unfold date_cfgs. apply in_flat_map. exists (c_ned cfg). split; [exact N|].
    apply in_flat_map. exists (c_trunc cfg). split; [destruct (c_trunc cfg); simpl; auto|].
    apply in_flat_map. exists (c_basic cfg). split; [destruct (c_basic cfg); simpl; auto|].
    apply in_map. exact B. }
  specialize (R J). cbv beta iota zeta in R. rewrite forallb_forall in R. specialize (R fd I).
  rewrite E, orb_false_r in R. exact R.
Qed.

Lemma parse_text_date_only : forall md cfg fd ad asp,
  In (c_ned cfg) [0; 2; 3]%Z ->
  let dfs := date_forms_of (c_ned cfg) in
  In fd (date_search dfs cfg []) ->
  mem (f_expr fd) (date_exceptions (c_ned cfg) (c_trunc cfg) []) = false ->
  num_keys_ok DATE_KEYS (f_parse fd) = true -> wf_assign (f_parse fd) ad = true ->
  parse_text md cfg (render_toks (f_parse fd) ad) asp =
  (zn <-- zone_num cfg [] ;;;
   point_num md cfg (bindings (f_parse fd) ad) [] zn (if asp then f_expr fd else "") false).
Proof.
  intros md cfg fd ad asp N dfs I E K W.
  destruct (date_forms_chars (c_ned cfg) fd (proj1 (date_search_In _ _ _ _ I))) as (NT & AS & SI).
  unfold parse_text. rewrite (render_ascii _ _ AS W). cbn [negb]. fold dfs.
  rewrite (get_info_date_only dfs TIME_FORMS ZONE_FORMS cfg fd ad SI NT
             (found_dates cfg [] fd N ltac:(simpl; auto) I E) W).
  rewrite <- zone_num_ok by (intros k s _ L; discriminate).
  destruct (process_zone cfg []) as [z|x]; [|reflexivity]. cbn [pbind i_expr].
  rewrite create_timepoint_num; [reflexivity| |]; cbn [i_date i_time].
  - apply bindings_digit_env; assumption.
  - intros k s _ L. discriminate.
Qed.

Theorem decode_date_full : forall md cfg fd ad asp,
  In (c_ned cfg) [0; 2; 3]%Z ->
  let dfs := date_forms_of (c_ned cfg) in
  In fd (date_search dfs cfg []) -> f_type fd = "complete" \/ f_type fd = "reduced" ->
  mem (f_expr fd) (date_exceptions (c_ned cfg) (c_trunc cfg) []) = false ->
  (c_ned cfg = 0%Z -> binds "expanded_year" (f_parse fd) = false) ->
  wf_assign (f_parse fd) ad = true ->
  let q := mkTp (x_date (f_parse fd) ad) (HMS 0 0 0) (x_zone cfg None []) in
  parse_text md cfg (render_toks (f_parse fd) ad) asp =
  if valid_tp md q then POk (ptp_of q (x_ned cfg (f_parse fd)) (if asp then f_expr fd else "")) else PErr EBadInput.
Proof.
  intros md cfg fd ad asp N dfs I TY E EX W q.
  assert (NT : not_trunc fd = true) by (unfold not_trunc; destruct TY as [-> | ->]; reflexivity).
  assert (Sd : date_full_shape (f_parse fd) = true).
  { apply (date_shape_tables (c_ned cfg)); try assumption. apply (date_search_In _ _ _ _ I). }
  assert (K : num_keys_ok DATE_KEYS (f_parse fd) = true).
  { unfold date_full_shape in Sd. cbv zeta in Sd. apply andb_true_iff in Sd. destruct Sd as [S _].
    apply andb_true_iff in S. destruct S as [_ S]. exact S. }
  rewrite (parse_text_date_only md cfg fd ad asp N I E K W).
  destruct (zone_num_full cfg None [] eq_refl) as (zn & ZN & ZA). cbn [zo_bind] in ZN.
  rewrite ZN. cbn [pbind].
  change (@nil (string * string)) with (bindings [] []).
  rewrite point_num_full_gen by (auto). cbv zeta. rewrite ZA. reflexivity.
Qed.
