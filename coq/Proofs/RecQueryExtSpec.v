(* Proofs/RecQueryExtSpec.v -- the recurrence queries beyond forward exact
   series (property C13, second part):
   (1) every step by a non-negative, non-zero interval -- months and years
       included -- moves strictly later (strictly earlier when subtracted);
   (2) get_is_valid, r[i], get_next / get_prev against iteration itself, for
       any recurrence whose steps advance by at least some L > 0;
   (3) the reverse series of the duration/end notation (end, end-d, ...) in
       closed form. *)
From Coq Require Import QArith Qround Qabs Lqa ZifyNat.
From Iso Require Import Proofs.Tac Spec.Cal Spec.Instant Spec.Series Spec.Months Model.Num Model.Helpers
  Model.Duration Model.TimePoint Model.Recurrence Proofs.HelpersSpec Proofs.ConvSpec Proofs.DurSpec
  Proofs.TickSpec Proofs.AddSpec Proofs.MonthSpec Proofs.CmpSpec Proofs.SubSpec Proofs.RecSpec
  Proofs.RecQuerySpec.
Open Scope Z_scope.

(* ====================================================================== *)
(* 1. one step by a nominal interval                                       *)
(* ====================================================================== *)

(* same bodies as in Props/C13Ext.v *)
Definition step_dur (d : dur) : Prop :=
  0 <= dur_years d /\ 0 <= dur_months d /\ (0 <= dur_len d)%Q /\
  (0 < dur_years d \/ 0 < dur_months d \/ (0 < dur_len d)%Q).

Definition min_step (d : dur) : Q :=
  if is_exact d then dur_len d else (dur_len d + 86400)%Q.

Lemma inst_parts md d1 t z :
  (instant md (mkTp d1 t z) == inject_Z 86400 * inject_Z (date_dn md d1) + tod_secs t - inject_Z (zone_secs z))%Q.
Proof. unfold instant, qz. cbn [tdate ttod tzone]. rewrite inject_Z_mult. reflexivity. Qed.

Lemma inst_dn_lt md d1 d2 t z : date_dn md d1 < date_dn md d2 ->
  (instant md (mkTp d1 t z) + 86400 <= instant md (mkTp d2 t z))%Q.
Proof.
  intros H. rewrite !inst_parts. change (inject_Z 86400) with 86400%Q.
  assert (K : (inject_Z (date_dn md d1) + 1 <= inject_Z (date_dn md d2))%Q) by (apply inj_succ_le; exact H).
  lra.
Qed.

Lemma inst_eta md p : instant md p = instant md (mkTp (tdate p) (ttod p) (tzone p)).
Proof. destruct p; reflexivity. Qed.

(* ---------- months ---------- *)
Lemma month_shift_dn md n y m d y' m' d' : n <> 0 -> valid_cal md y m d = true ->
  month_shift md n (y, m, d) = (y', m', d') ->
  (0 < n -> dn_cal md y m d < dn_cal md y' m' d') /\
  (n < 0 -> dn_cal md y' m' d' < dn_cal md y m d).
Proof.
  intros Hn V E. pose proof (shift_valid md n _ _ _ _ _ _ Hn V E) as V'.
  assert (Hm : 1 <= m <= 12) by (unfold valid_cal in V; lia).
  destruct (month_shift_reached md n y m d y' m' d' Hn Hm E) as (R & Hm' & _).
  split; intros S.
  - apply dn_cal_lex; [exact V|exact V'|]. lia.
  - apply dn_cal_lex; [exact V'|exact V|]. lia.
Qed.

Lemma add_months_later md p n : n <> 0 -> valid_tp md p = true ->
  exists r, add_months md p n = Some r /\ valid_tp md r = true /\
    rep_kind (tdate r) = rep_kind (tdate p) /\ tod_kind (ttod r) = tod_kind (ttod p) /\
    tzone r = tzone p /\
    (0 < n -> (instant md p + 86400 <= instant md r)%Q) /\
    (n < 0 -> (instant md r + 86400 <= instant md p)%Q).
Proof.
  intros Hn V.
  destruct (add_months_any md p n Hn V) as (y & m & d & r & E & A & K1 & K2 & K3 & N & S).
  exists r. split; [exact A|]. split; [apply normal_valid; exact N|].
  repeat (split; [assumption|]).
  destruct (AddSpec.valid_tp_parts md p V) as (Vd & _ & _).
  destruct (MonthSpec.get_calendar_date_spec md _ Vd) as (y0 & m0 & d0 & E0 & Vc & Dc).
  rewrite E in E0. injection E0 as <- <- <-.
  destruct (month_shift md n (y, m, d)) as [[y' m'] d'] eqn:Es.
  destruct S as [I _].
  destruct (month_shift_dn md n y m d y' m' d' Hn Vc Es) as [Lt Gt].
  assert (Ip : (instant md p == instant md (mkTp (Cal y m d) (ttod p) (tzone p)))%Q).
  { rewrite (inst_eta md p), !inst_parts. cbn [date_dn]. rewrite Dc. reflexivity. }
  split; intros Sg.
  - rewrite I, Ip. apply inst_dn_lt. cbn [date_dn]. apply Lt. exact Sg.
  - rewrite I, Ip. apply inst_dn_lt. cbn [date_dn]. apply Gt. exact Sg.
Qed.

(* ---------- years ---------- *)
Lemma wys_lt md a b : a < b -> wys md a + 7 * weeks_in md a <= wys md b.
Proof.
  intros H. rewrite <- wys_succ. apply wys_mono. lia.
Qed.

Lemma add_years_dn md dt n : valid_date md dt = true ->
  valid_date md (add_years md dt n) = true /\ rep_kind (add_years md dt n) = rep_kind dt /\
  (0 < n -> date_dn md dt < date_dn md (add_years md dt n)) /\
  (n < 0 -> date_dn md (add_years md dt n) < date_dn md dt).
Proof.
  intros V. destruct (add_years_spec md n) as (A1 & A2 & A3 & A4).
  destruct (A4 dt V) as [V' K]. split; [exact V'|]. split; [exact K|].
  destruct dt as [y m d | y doy | y w d]; cbn [valid_date] in V.
  - assert (Hm : 1 <= m <= 12) by (unfold valid_cal in V; lia).
    rewrite (A1 y m d Hm) in V' |- *. cbn [valid_date date_dn] in V' |- *.
    split; intros S; apply dn_cal_lex; try assumption; lia.
  - rewrite A2 in V' |- *. cbn [valid_date date_dn] in V' |- *.
    split; intros S; apply dn_ord_lex; try assumption; lia.
  - rewrite A3 in V' |- *. cbn [valid_date date_dn] in V' |- *.
    pose proof (week_range md _ _ _ V) as (W1 & W2 & _).
    pose proof (week_range md _ _ _ V') as (W1' & _ & _).
    unfold dn_week. split; intros S.
    + pose proof (wys_lt md y (y + n) ltac:(lia)). lia.
    + pose proof (wys_lt md (y + n) y ltac:(lia)). lia.
Qed.

(* ---------- the whole sum ---------- *)
Lemma tp_add_units_signed md p ys mos ds h mi s : valid_tp md p = true ->
  exists q, tp_add md p (DU ys mos ds h mi s) = Some q /\ valid_tp md q = true /\
    rep_kind (tdate q) = rep_kind (tdate p) /\ tod_kind (ttod q) = tod_kind (ttod p) /\
    tzone q = tzone p /\
    let len := dur_len (DU 0 0 ds h mi s) in
    (ys = 0 -> mos = 0 -> (instant md q == instant md p + len)%Q) /\
    (0 <= ys -> 0 <= mos -> (instant md p + len <= instant md q)%Q /\
        (0 < ys \/ 0 < mos -> (instant md p + len + 86400 <= instant md q)%Q)) /\
    (ys <= 0 -> mos <= 0 -> (instant md q <= instant md p + len)%Q /\
        (ys < 0 \/ mos < 0 -> (instant md q + 86400 <= instant md p + len)%Q)).
Proof.
  intros V. cbv zeta. rewrite tp_add_order.
  destruct (tp_add_units_spec md p ds h mi s V) as (p4 & E4 & I4 & K4 & T4 & Z4 & V4).
  rewrite E4.
  set (len := dur_len (DU 0 0 ds h mi s)) in *.
  (* months *)
  assert (M : exists p5, (if mos =? 0 then Some p4 else add_months md p4 mos) = Some p5 /\
     valid_tp md p5 = true /\ rep_kind (tdate p5) = rep_kind (tdate p) /\
     tod_kind (ttod p5) = tod_kind (ttod p) /\ tzone p5 = tzone p /\
     (mos = 0 -> (instant md p5 == instant md p + len)%Q) /\
     (0 < mos -> (instant md p + len + 86400 <= instant md p5)%Q) /\
     (mos < 0 -> (instant md p5 + 86400 <= instant md p + len)%Q)).
  { destruct (mos =? 0) eqn:Em.
    - exists p4. split; [reflexivity|]. repeat (split; [assumption|]).
      split; [intros _; exact I4|]. split; intros; lia.
    - destruct (add_months_later md p4 mos ltac:(lia) V4) as (r & E & Vr & K & T & Z & Lt & Gt).
      exists r. split; [exact E|]. split; [exact Vr|].
      split; [congruence|]. split; [congruence|]. split; [congruence|].
      split; [intros; lia|]. split; intros Sg.
      + specialize (Lt Sg). rewrite <- I4. exact Lt.
      + specialize (Gt Sg). rewrite <- I4. exact Gt. }
  destruct M as (p5 & -> & V5 & K5 & T5 & Z5 & M0 & Mp & Mn).
  (* years *)
  assert (Y : exists q, (if ys =? 0 then p5 else with_date p5 (add_years md (tdate p5) ys)) = q /\
     valid_tp md q = true /\ rep_kind (tdate q) = rep_kind (tdate p) /\
     tod_kind (ttod q) = tod_kind (ttod p) /\ tzone q = tzone p /\
     (ys = 0 -> (instant md q == instant md p5)%Q) /\
     (0 < ys -> (instant md p5 + 86400 <= instant md q)%Q) /\
     (ys < 0 -> (instant md q + 86400 <= instant md p5)%Q)).
  { destruct (ys =? 0) eqn:Ey.
    - exists p5. split; [reflexivity|]. repeat (split; [assumption|]).
      split; [intros _; reflexivity|]. split; intros; lia.
    - eexists. split; [reflexivity|].
      destruct (AddSpec.valid_tp_parts md p5 V5) as (Vd & Vt & Vz).
      destruct (add_years_dn md (tdate p5) ys Vd) as (AV & AK & Lt & Gt).
      unfold with_date. cbn [tdate ttod tzone].
      split; [unfold valid_tp; cbn [tdate ttod tzone]; rewrite AV, Vt, Vz; reflexivity|].
      split; [congruence|]. split; [exact T5|]. split; [exact Z5|].
      split; [intros; lia|]. rewrite (inst_eta md p5). split; intros Sg.
      + apply inst_dn_lt. apply Lt. exact Sg.
      + apply inst_dn_lt. apply Gt. exact Sg. }
  destruct Y as (q & -> & Vq & Kq & Tq & Zq & Y0 & Yp & Yn).
  exists q. split; [reflexivity|]. repeat (split; [assumption|]).
  split; [|split].
  - intros -> ->. rewrite (Y0 eq_refl), (M0 eq_refl). reflexivity.
  - intros Hy Hm.
    assert (A : (instant md p + len <= instant md p5)%Q).
    { destruct (Z.eq_dec mos 0) as [->|N]; [rewrite (M0 eq_refl); lra|].
      specialize (Mp ltac:(lia)). lra. }
    assert (B : (instant md p5 <= instant md q)%Q).
    { destruct (Z.eq_dec ys 0) as [->|N]; [rewrite (Y0 eq_refl); lra|].
      specialize (Yp ltac:(lia)). lra. }
    split; [lra|]. intros [S|S].
    + specialize (Yp S). lra.
    + specialize (Mp S). lra.
  - intros Hy Hm.
    assert (A : (instant md p5 <= instant md p + len)%Q).
    { destruct (Z.eq_dec mos 0) as [->|N]; [rewrite (M0 eq_refl); lra|].
      specialize (Mn ltac:(lia)). lra. }
    assert (B : (instant md q <= instant md p5)%Q).
    { destruct (Z.eq_dec ys 0) as [->|N]; [rewrite (Y0 eq_refl); lra|].
      specialize (Yn ltac:(lia)). lra. }
    split; [lra|]. intros [S|S].
    + specialize (Yn S). lra.
    + specialize (Mn S). lra.
Qed.

(* ---------- one step of a recurrence ---------- *)
Lemma step_dur_exact_pos d : step_dur d -> is_exact d = true -> exact_pos d.
Proof.
  intros (Hy & Hm & L0 & S) E. split; [exact E|].
  rewrite is_exact_ym in E. destruct S as [S|[S|S]]; [lia|lia|exact S].
Qed.

Lemma exact_pos_step_dur d : exact_pos d -> step_dur d.
Proof.
  intros [E L]. rewrite is_exact_ym in E. unfold step_dur.
  replace (dur_years d) with 0 by lia. replace (dur_months d) with 0 by lia.
  split; [lia|]. split; [lia|]. split; [lra|]. right. right. exact L.
Qed.

Lemma min_step_pos d : step_dur d -> (0 < min_step d)%Q.
Proof.
  intros H. unfold min_step. destruct (is_exact d) eqn:E.
  - apply (step_dur_exact_pos d H E).
  - destruct H as (_ & _ & L0 & _). lra.
Qed.

Lemma min_step_exact d : is_exact d = true -> min_step d = dur_len d.
Proof. intros E. unfold min_step. rewrite E. reflexivity. Qed.

Lemma step_later md p d : valid_tp md p = true -> step_dur d ->
  exists q, tp_add md p d = Some q /\ valid_tp md q = true /\ same_shape q p /\
    (instant md p + min_step d <= instant md q)%Q /\
    (is_exact d = true -> (instant md q == instant md p + dur_len d)%Q).
Proof.
  intros V H. destruct (is_exact d) eqn:E.
  - destruct (tp_add_exact_spec md p d V E) as (q & A & I & K1 & K2 & K3 & Vq).
    exists q. split; [exact A|]. split; [exact Vq|]. split; [repeat split; assumption|].
    rewrite (min_step_exact d E). split; [lra|intros _; exact I].
  - destruct d as [w | ys mos ds h mi s]; [discriminate E|].
    destruct H as (Hy & Hm & L0 & S). cbn [dur_years dur_months] in Hy, Hm, S.
    destruct (tp_add_units_signed md p ys mos ds h mi s V) as (q & A & Vq & K1 & K2 & K3 & _ & P & _).
    cbv zeta in P. destruct (P Hy Hm) as [_ P2].
    exists q. split; [exact A|]. split; [exact Vq|]. split; [repeat split; assumption|].
    split; [|discriminate].
    unfold min_step. rewrite E.
    change (dur_len (DU ys mos ds h mi s)) with (dur_len (DU 0 0 ds h mi s)).
    assert (N : 0 < ys \/ 0 < mos).
    { cbn [is_exact] in E. lia. }
    specialize (P2 N). lra.
Qed.

Lemma step_earlier md p d : valid_tp md p = true -> step_dur d ->
  exists q, tp_sub_dur md p d = Some q /\ valid_tp md q = true /\ same_shape q p /\
    (instant md q + min_step d <= instant md p)%Q /\
    (is_exact d = true -> (instant md q == instant md p - dur_len d)%Q).
Proof.
  intros V H. rewrite tp_sub_dur_def. destruct (is_exact d) eqn:E.
  - destruct (tp_add_exact_spec md p (dur_mul d (-1)) V (is_exact_mul d (-1) E))
      as (q & A & I & K1 & K2 & K3 & Vq).
    rewrite (dur_len_neg d E) in I.
    exists q. split; [exact A|]. split; [exact Vq|]. split; [repeat split; assumption|].
    rewrite (min_step_exact d E). split; [lra|intros _; rewrite I; ring].
  - destruct d as [w | ys mos ds h mi s]; [discriminate E|].
    destruct H as (Hy & Hm & L0 & S). cbn [dur_years dur_months] in Hy, Hm, S.
    cbn [dur_mul].
    destruct (tp_add_units_signed md p (ys * -1) (mos * -1) (ds * -1) (qmul h (qz (-1)))
                (qmul mi (qz (-1))) (qmul s (qz (-1))) V) as (q & A & Vq & K1 & K2 & K3 & _ & _ & P).
    cbv zeta in P. destruct (P ltac:(lia) ltac:(lia)) as [_ P2].
    exists q. split; [exact A|]. split; [exact Vq|]. split; [repeat split; assumption|].
    split; [|discriminate].
    unfold min_step. rewrite E.
    pose proof (dur_len_neg (DU 0 0 ds h mi s) eq_refl) as Ln.
    change (dur_len (dur_mul (DU 0 0 ds h mi s) (-1))) with
      (dur_len (DU 0 0 (ds * -1) (qmul h (qz (-1))) (qmul mi (qz (-1))) (qmul s (qz (-1))))) in Ln.
    change (dur_len (DU ys mos ds h mi s)) with (dur_len (DU 0 0 ds h mi s)).
    assert (N : ys * -1 < 0 \/ mos * -1 < 0).
    { cbn [is_exact] in E. lia. }
    specialize (P2 N). lra.
Qed.

(* ====================================================================== *)
(* 2. queries against iteration, for any recurrence whose steps advance    *)
(* ====================================================================== *)

(* the direction and the first point of iteration *)
Definition dirb (r : recur) : bool := match r_start r with Some _ => true | None => false end.
Definition anchor (r : recur) : option tp :=
  match r_start r with None => r_end r | Some _ => r_start r end.

(* every step from a valid point exists, is valid, written alike and at least L further *)
Definition advances (md : mode) (d : dur) (fwd : bool) (L : Q) : Prop :=
  (0 < L)%Q /\ forall t, valid_tp md t = true ->
    exists q, (if fwd then tp_add md t d else tp_sub_dur md t d) = Some q /\
      valid_tp md q = true /\ same_shape q t /\
      (if fwd then (instant md t + L <= instant md q)%Q else (instant md q + L <= instant md t)%Q).

Definition gen_ok (md : mode) (r : recur) (a : tp) (d : dur) (L : Q) : Prop :=
  anchor r = Some a /\ valid_tp md a = true /\ r_dur r = Some d /\
  zopt_eqb (r_reps r) 1 = false /\ dur_falsy (Some d) = false /\
  opt_valid md (r_start r) /\ opt_valid md (r_end r) /\ advances md d (dirb r) L.

Lemma step_dur_advances md d fwd : step_dur d -> advances md d fwd (min_step d).
Proof.
  intros H. split; [apply min_step_pos; exact H|]. intros t V. destruct fwd.
  - destruct (step_later md t d V H) as (q & A & Vq & S & I & _). exists q. auto.
  - destruct (step_earlier md t d V H) as (q & A & Vq & S & I & _). exists q. auto.
Qed.

Lemma step_dur_bool d : step_dur d -> dur_bool d = true.
Proof.
  intros (Hy & Hm & L0 & S). destruct (dur_bool d) eqn:B; [reflexivity|exfalso].
  pose proof (dur_bool_false_len d B) as Z.
  destruct d as [w | y mo dd h mi s]; cbn [dur_years dur_months dur_bool] in *.
  - destruct S as [S|[S|S]]; [lia|lia|lra].
  - apply negb_false_iff in B.
    apply andb_prop in B. destruct B as [B _]. apply andb_prop in B. destruct B as [B _].
    apply andb_prop in B. destruct B as [B _]. apply andb_prop in B. destruct B as [B _].
    apply andb_prop in B. destruct B as [By Bm].
    destruct S as [S|[S|S]]; [lia|lia|lra].
Qed.

Lemma step_dur_falsy d : step_dur d -> dur_falsy (Some d) = false.
Proof. intros H. unfold dur_falsy. rewrite (step_dur_bool d H). reflexivity. Qed.

(* ---------- unfolding the two entry points ---------- *)
Lemma iter_take_gen md r a d L k : gen_ok md r a d L ->
  iter_take md r k = iter_from md r (dirb r) k (Some a).
Proof.
  intros (A & _ & D & R & F & _). rewrite iter_take_unfold, R, D, F. cbn [orb].
  unfold anchor in A. rewrite A. reflexivity.
Qed.

Lemma get_is_valid_unfold md r t fuel :
  get_is_valid md r t fuel =
  match in_bounds md r (Some t) with
  | Some false => Some false
  | None => None
  | Some true =>
    if zopt_eqb (r_reps r) 1 || dur_falsy (r_dur r) then
      match anchor r, in_bounds md r (anchor r) with
      | Some x, Some true => tp_eqb md x t
      | _, _ => Some false
      end
    else valid_scan md r (dirb r) t fuel (anchor r)
  end.
Proof.
  unfold get_is_valid, anchor, dirb. destruct (r_start r); [reflexivity|].
  destruct (r_end r); reflexivity.
Qed.

(* ---------- one step ---------- *)
Lemma step_gen md r a d L t : gen_ok md r a d L -> valid_tp md t = true ->
  exists q, valid_tp md q = true /\ same_shape q t /\
    (if dirb r then (instant md t + L <= instant md q)%Q else (instant md q + L <= instant md t)%Q) /\
    exists b, in_bounds md r (Some q) = Some b /\
      (b = true <->
       match r_start r with Some s => (instant md s <= instant md q)%Q | None => True end /\
       match r_end r with Some e => (instant md q <= instant md e)%Q | None => True end) /\
      step_point md r (dirb r) (Some t) = (if b then Some q else None).
Proof.
  intros (_ & _ & D & R & _ & Vs & Ve & _ & Adv) Vt.
  destruct (Adv t Vt) as (q & E & Vq & S & I).
  exists q. split; [exact Vq|]. split; [exact S|]. split; [exact I|].
  destruct (in_bounds_char md r q Vq Vs Ve) as (b & B & Hb).
  exists b. split; [exact B|]. split; [exact Hb|].
  rewrite (step_point_unfold md r (dirb r) t d R D), E, B. destruct b; reflexivity.
Qed.

(* ---------- iterated points: valid, written like the first, monotone ---------- *)
Lemma iter_from_split md r fwd k p i q :
  nth_error (iter_from md r fwd k (Some p)) i = Some q ->
  in_bounds md r (Some p) = Some true /\
  ((i = 0%nat /\ q = p) \/
   exists k' i', k = S k' /\ i = S i' /\
     nth_error (iter_from md r fwd k' (step_point md r fwd (Some p))) i' = Some q).
Proof.
  intros H. destruct (iter_from md r fwd k (Some p)) as [|x l] eqn:E; [destruct i; discriminate H|].
  apply iter_from_head in E. destruct E as (Ep & B & k' & -> & ->). injection Ep as <-.
  split; [exact B|]. destruct i as [|i]; cbn [nth_error] in H.
  - left. injection H as <-. split; reflexivity.
  - right. exists k', i. repeat split. exact H.
Qed.

Lemma iter_from_gen md r a d L : gen_ok md r a d L -> forall k p i q,
  valid_tp md p = true ->
  nth_error (iter_from md r (dirb r) k (Some p)) i = Some q ->
  valid_tp md q = true /\ same_shape q p /\
  (if dirb r then (instant md p + inject_Z (Z.of_nat i) * L <= instant md q)%Q
   else (instant md q + inject_Z (Z.of_nat i) * L <= instant md p)%Q).
Proof.
  intros W k. induction k as [|k IH]; intros p i q Vp H; [destruct i; discriminate H|].
  apply iter_from_split in H. destruct H as (B & [[-> ->] | (k' & i' & Ek & -> & H)]).
  - split; [exact Vp|]. split; [apply same_shape_refl|].
    change (inject_Z (Z.of_nat 0)) with 0%Q. destruct (dirb r); lra.
  - injection Ek as <-.
    destruct (step_gen md r a d L p W Vp) as (p' & Vp' & S' & I' & b & _ & _ & St).
    rewrite St in H. destruct b; [|rewrite iter_from_None in H; destruct i'; discriminate H].
    destruct (IH p' i' q Vp' H) as (Vq & Sq & Iq).
    split; [exact Vq|]. split; [apply (same_shape_trans _ _ _ Sq S')|].
    pose proof (inj_succ_mul i' L) as E. destruct (dirb r); lra.
Qed.

Lemma gen_L_pos md r a d L : gen_ok md r a d L -> (0 < L)%Q.
Proof. intros (_ & _ & _ & _ & _ & _ & _ & P & _). exact P. Qed.

Lemma iter_from_gen_le md r a d L k p i q : gen_ok md r a d L -> valid_tp md p = true ->
  nth_error (iter_from md r (dirb r) k (Some p)) i = Some q ->
  (if dirb r then (instant md p <= instant md q)%Q else (instant md q <= instant md p)%Q).
Proof.
  intros W Vp H. destruct (iter_from_gen md r a d L W k p i q Vp H) as (_ & _ & I).
  pose proof (gen_L_pos _ _ _ _ _ W) as LP.
  pose proof (qmul_nonneg (Z.of_nat i) L ltac:(lia) LP). destruct (dirb r); lra.
Qed.

(* consecutive points *)
Lemma iter_take_increasing md r a d L k i p q : gen_ok md r a d L ->
  nth_error (iter_take md r k) i = Some p -> nth_error (iter_take md r k) (S i) = Some q ->
  valid_tp md p = true /\ valid_tp md q = true /\ same_shape q p /\
  (if dirb r then (instant md p + L <= instant md q)%Q else (instant md q + L <= instant md p)%Q).
Proof.
  intros W H1 H2. rewrite (iter_take_gen md r a d L k W) in H1, H2.
  pose proof W as (_ & Va & _).
  destruct (iter_from_gen md r a d L W k a i p Va H1) as (Vp & _ & _).
  pose proof (iter_from_consecutive _ _ _ _ _ _ _ _ H1 H2) as St.
  destruct (step_gen md r a d L p W Vp) as (p' & Vp' & S' & I' & b & _ & _ & St').
  rewrite St' in St. destruct b; [|discriminate St]. injection St as <-.
  repeat split; try assumption; apply S'.
Qed.

(* ---------- get_is_valid ---------- *)
(* bounds depend on the instant only *)
Lemma in_bounds_instant md r p t : opt_valid md (r_start r) -> opt_valid md (r_end r) ->
  valid_tp md p = true -> valid_tp md t = true -> (instant md p == instant md t)%Q ->
  in_bounds md r (Some p) = Some true -> in_bounds md r (Some t) = Some true.
Proof.
  intros Vs Ve Vp Vt I B.
  destruct (in_bounds_char md r p Vp Vs Ve) as (b & E & H). rewrite B in E. injection E as <-.
  destruct H as [H _]. specialize (H eq_refl).
  apply in_bounds_true_intro; try assumption.
  - destruct (r_start r); [|exact Logic.I]. rewrite <- I. apply H.
  - destruct (r_end r); [|exact Logic.I]. rewrite <- I. apply H.
Qed.

Definition hits (md : mode) (r : recur) (fwd : bool) (p : option tp) (t : tp) : Prop :=
  exists k i q, nth_error (iter_from md r fwd k p) i = Some q /\ (instant md q == instant md t)%Q.

Lemma hits_None md r fwd t : ~ hits md r fwd None t.
Proof. intros (k & i & q & H & _). rewrite iter_from_None in H. destruct i; discriminate H. Qed.

Lemma hits_step md r fwd p t : in_bounds md r (Some p) = Some true ->
  ~ (instant md p == instant md t)%Q ->
  (hits md r fwd (Some p) t <-> hits md r fwd (step_point md r fwd (Some p)) t).
Proof.
  intros B NE. split.
  - intros (k & i & q & H & I). apply iter_from_split in H.
    destruct H as (_ & [[-> ->] | (k' & i' & -> & -> & H)]); [contradiction|].
    exists k', i', q. split; assumption.
  - intros (k & i & q & H & I). exists (S k), (S i), q. split; [|exact I].
    rewrite (iter_from_in md r fwd k p B). exact H.
Qed.

Lemma valid_scan_gen md r a d L t : gen_ok md r a d L -> valid_tp md t = true ->
  forall fuel p b, valid_tp md p = true ->
  valid_scan md r (dirb r) t fuel (Some p) = Some b ->
  (b = true <-> hits md r (dirb r) (Some p) t).
Proof.
  intros W Vt. induction fuel as [|f IH]; intros p b Vp H; [discriminate H|].
  cbn [valid_scan] in H.
  destruct (in_bounds md r (Some p)) as [[|]|] eqn:B; [| |discriminate H].
  2:{ injection H as <-. split; [discriminate|]. intros (k & i & q & Hq & _).
      rewrite iter_from_out in Hq by (rewrite B; discriminate). destruct i; discriminate Hq. }
  (* the recursive call *)
  assert (REC : valid_scan md r (dirb r) t f (step_point md r (dirb r) (Some p)) = Some b ->
                ~ (instant md p == instant md t)%Q ->
                (b = true <-> hits md r (dirb r) (Some p) t)).
  { intros H' NE. rewrite (hits_step md r (dirb r) p t B NE).
    destruct (step_gen md r a d L p W Vp) as (p' & Vp' & _ & _ & b' & _ & _ & St).
    rewrite St in H' |- *. destruct b'.
    - apply (IH p' b Vp' H').
    - apply valid_scan_None in H'. subst b. split; [discriminate|].
      intros K. exfalso. exact (hits_None _ _ _ _ K). }
  (* a point on the far side of the probe ends the search *)
  assert (FAR : (if dirb r then (instant md t < instant md p)%Q else (instant md p < instant md t)%Q) ->
                ~ hits md r (dirb r) (Some p) t).
  { intros Far (k & i & q & Hq & Iq).
    pose proof (iter_from_gen_le md r a d L k p i q W Vp Hq) as Le.
    destruct (dirb r); lra. }
  rewrite (tp_cmp_spec md p t Vp Vt) in H.
  destruct (instant md p ?= instant md t)%Q eqn:C.
  - rewrite <- Qeq_alt in C. injection H as <-. split; [|reflexivity]. intros _.
    exists 1%nat, 0%nat, p. split; [|exact C]. rewrite (iter_from_in md r _ 0 p B). reflexivity.
  - rewrite <- Qlt_alt in C. unfold dirb in *. destruct (r_start r) as [s|] eqn:S.
    + assert (T : match r_end r with None => cmp_op 3 Lt | Some _ => false end = false)
        by (destruct (r_end r); reflexivity).
      rewrite T in H. apply REC; [exact H|]. intros K. lra.
    + change (cmp_op 1 Lt) with true in H. cbv beta iota in H. injection H as <-.
      split; [discriminate|]. intros K. exfalso. exact (FAR C K).
  - rewrite <- Qgt_alt in C. unfold dirb in *. destruct (r_start r) as [s|] eqn:S.
    + destruct (r_end r) as [e|] eqn:En.
      * apply REC; [exact H|]. intros K. lra.
      * change (cmp_op 3 Gt) with true in H. cbv beta iota in H. injection H as <-.
        split; [discriminate|]. intros K. exfalso. exact (FAR C K).
    + change (cmp_op 1 Gt) with false in H. cbv beta iota in H.
      destruct W as (A & _). unfold anchor in A. rewrite S in A. rewrite A in H.
      apply REC; [exact H|]. intros K. lra.
Qed.

Lemma get_is_valid_gen md r a d L t fuel b : gen_ok md r a d L -> valid_tp md t = true ->
  get_is_valid md r t fuel = Some b ->
  (b = true <-> exists k i q, nth_error (iter_take md r k) i = Some q /\
                              (instant md q == instant md t)%Q).
Proof.
  intros W Vt H.
  assert (EQ : (exists k i q, nth_error (iter_take md r k) i = Some q /\ (instant md q == instant md t)%Q) <->
               hits md r (dirb r) (Some a) t).
  { unfold hits. split; intros (k & i & q & Hq & Iq); exists k, i, q;
      [rewrite <- (iter_take_gen md r a d L k W) | rewrite (iter_take_gen md r a d L k W)];
      split; assumption. }
  rewrite EQ. clear EQ.
  pose proof W as (A & Va & D & R & F & Vs & Ve & _).
  rewrite get_is_valid_unfold in H.
  destruct (in_bounds md r (Some t)) as [[|]|] eqn:B; [| |discriminate H].
  - rewrite R, D, F, A in H. cbn [orb] in H.
    apply (valid_scan_gen md r a d L t W Vt fuel a b Va H).
  - injection H as <-. split; [discriminate|]. intros (k & i & q & Hq & Iq). exfalso.
    destruct (iter_from_gen md r a d L W k a i q Va Hq) as (Vq & _).
    pose proof (iter_from_in_bounds _ _ _ _ _ _ _ Hq) as Bq.
    rewrite (in_bounds_instant md r q t Vs Ve Vq Vt Iq Bq) in B. discriminate B.
Qed.

(* how far the scan has to go *)
Definition scan_dist (md : mode) (r : recur) (t p : tp) : Q :=
  if dirb r then (match r_end r with Some e => instant md e | None => instant md t end) - instant md p
  else instant md p - instant md t.

Lemma fuel_pos (f : nat) L x : (0 < L)%Q -> (0 <= x)%Q -> (inject_Z (Z.of_nat f) * L > x)%Q -> (0 < f)%nat.
Proof.
  intros HL Hx H. destruct f; [|lia]. exfalso. change (inject_Z (Z.of_nat 0)) with 0%Q in H. lra.
Qed.

Lemma valid_scan_total_gen md r a d L t : gen_ok md r a d L -> valid_tp md t = true ->
  forall fuel p, valid_tp md p = true -> (0 < fuel)%nat ->
  (inject_Z (Z.of_nat fuel) * L > scan_dist md r t p + L)%Q ->
  exists b, valid_scan md r (dirb r) t fuel (Some p) = Some b.
Proof.
  intros W Vt. pose proof (gen_L_pos _ _ _ _ _ W) as LP.
  pose proof W as (A & Va & D & R & F & Vs & Ve & _).
  induction fuel as [|f IH]; intros p Vp F0 FL; [lia|].
  cbn [valid_scan].
  destruct (in_bounds_char md r p Vp Vs Ve) as (b0 & B & Hb). rewrite B.
  destruct b0; [|exists false; reflexivity].
  destruct Hb as [Hb _]. destruct (Hb eq_refl) as [Bs Be]. clear Hb.
  (* the recursive call, when the point is still short of the target *)
  assert (REC : (0 <= scan_dist md r t p)%Q ->
                exists b, valid_scan md r (dirb r) t f (step_point md r (dirb r) (Some p)) = Some b).
  { intros Near. rewrite inj_succ_mul in FL.
    assert (Fp : (0 < f)%nat) by (apply (fuel_pos f L (scan_dist md r t p)); [exact LP|exact Near|lra]).
    destruct (step_gen md r a d L p W Vp) as (p' & Vp' & _ & I' & b' & _ & _ & St).
    rewrite St. destruct b'; [|exists false; apply valid_scan_None_total; exact Fp].
    apply (IH p' Vp' Fp). unfold scan_dist in *. destruct (dirb r); lra. }
  rewrite (tp_cmp_spec md p t Vp Vt).
  destruct (instant md p ?= instant md t)%Q eqn:C; [exists true; reflexivity| |].
  - rewrite <- Qlt_alt in C. unfold scan_dist, dirb in *. destruct (r_start r) as [s|] eqn:S.
    + assert (T : match r_end r with None => cmp_op 3 Lt | Some _ => false end = false)
        by (destruct (r_end r); reflexivity).
      rewrite T. apply REC. destruct (r_end r); lra.
    + exists false. reflexivity.
  - rewrite <- Qgt_alt in C. unfold scan_dist, dirb in *. destruct (r_start r) as [s|] eqn:S.
    + destruct (r_end r) as [e|] eqn:En; [|exists false; reflexivity].
      apply REC. lra.
    + change (cmp_op 1 Gt) with false. cbv beta iota.
      unfold anchor in A. rewrite S in A. rewrite A. apply REC. lra.
Qed.

Lemma get_is_valid_total_gen md r a d L t fuel : gen_ok md r a d L -> valid_tp md t = true ->
  (0 < fuel)%nat -> (inject_Z (Z.of_nat fuel) * L > scan_dist md r t a + L)%Q ->
  exists b, get_is_valid md r t fuel = Some b.
Proof.
  intros W Vt F0 FL. pose proof W as (A & Va & D & R & F & Vs & Ve & _).
  rewrite get_is_valid_unfold.
  destruct (in_bounds_char md r t Vt Vs Ve) as (b0 & B & _). rewrite B.
  destruct b0; [|exists false; reflexivity].
  rewrite R, D, F, A. cbn [orb].
  apply (valid_scan_total_gen md r a d L t W Vt fuel a Va F0 FL).
Qed.

(* ---------- r[i]: the i-th iterated point, however many are taken ---------- *)
Lemma iter_from_stable md r fwd : forall i k p, (i < k)%nat ->
  nth_error (iter_from md r fwd k p) i = nth_error (iter_from md r fwd (S i) p) i.
Proof.
  induction i as [|i IH]; intros k p Hk; (destruct k as [|k]; [lia|]).
  - cbn [iter_from]. destruct p as [t|]; [|reflexivity].
    destruct (in_bounds md r (Some t)) as [[|]|]; reflexivity.
  - cbn [iter_from]. destruct p as [t|]; [|reflexivity].
    destruct (in_bounds md r (Some t)) as [[|]|]; try reflexivity.
    cbn [nth_error]. apply IH. lia.
Qed.

Lemma iter_take_stable md r i k : (i < k)%nat ->
  nth_error (iter_take md r k) i = nth_error (iter_take md r (S i)) i.
Proof.
  intros Hk. rewrite !iter_take_unfold.
  destruct (zopt_eqb (r_reps r) 1 || dur_falsy (r_dur r)).
  - destruct k; [lia|]. reflexivity.
  - apply iter_from_stable. exact Hk.
Qed.

Lemma getitem_iter md r i k : 0 <= i -> (Z.to_nat i < k)%nat ->
  rec_getitem md r i = nth_error (iter_take md r k) (Z.to_nat i).
Proof.
  intros Hi Hk. unfold rec_getitem. destruct (i <? 0) eqn:N; [lia|].
  symmetry. apply iter_take_stable. exact Hk.
Qed.

Lemma getitem_neg md r i : i < 0 -> rec_getitem md r i = None.
Proof. intros Hi. unfold rec_getitem. destruct (i <? 0) eqn:N; [reflexivity|lia]. Qed.

Lemma iter_from_length md r fwd : forall k p, (length (iter_from md r fwd k p) <= k)%nat.
Proof.
  induction k as [|k IH]; intros p; [cbn; lia|]. cbn [iter_from].
  destruct p as [t|]; [|cbn; lia]. destruct (in_bounds md r (Some t)) as [[|]|]; cbn [length]; try lia.
  specialize (IH (step_point md r fwd (Some t))). lia.
Qed.

Lemma iter_take_length md r k : (length (iter_take md r k) <= k)%nat.
Proof.
  rewrite iter_take_unfold. destruct (zopt_eqb (r_reps r) 1 || dur_falsy (r_dur r)).
  - destruct k; [cbn; lia|].
    destruct (match r_start r with None => r_end r | Some _ => r_start r end) as [t|]; [|cbn; lia].
    destruct (in_bounds md r (Some t)) as [[|]|]; cbn; lia.
  - apply iter_from_length.
Qed.

Lemma nth_some_lt {A} (l : list A) i x : nth_error l i = Some x -> (i < length l)%nat.
Proof. intros H. apply nth_error_Some. rewrite H. discriminate. Qed.

(* ---------- get_next / get_prev of the i-th point is the (i+1)-th ---------- *)
Lemma iter_from_next md r fwd : forall i k p0 p,
  nth_error (iter_from md r fwd k p0) i = Some p ->
  nth_error (iter_from md r fwd (S (S i)) p0) (S i) = step_point md r fwd (Some p).
Proof.
  induction i as [|i IH]; intros k p0 p H.
  - destruct p0 as [t|]; [|rewrite iter_from_None in H; discriminate H].
    apply iter_from_split in H. destruct H as (B & [[_ ->] | (k' & i' & _ & Ei & _)]); [|discriminate Ei].
    rewrite (iter_from_in md r fwd 1 t B). cbn [nth_error].
    destruct (step_point md r fwd (Some t)) as [q|] eqn:St; [|reflexivity].
    destruct (step_point_Some_inv md r fwd _ q St) as (_ & _ & _ & _ & _ & _ & Bq).
    rewrite (iter_from_in md r fwd 0 q Bq). reflexivity.
  - destruct p0 as [t|]; [|rewrite iter_from_None in H; discriminate H].
    apply iter_from_split in H. destruct H as (B & [[Ei _] | (k' & i' & _ & Ei & H)]); [discriminate Ei|].
    injection Ei as <-.
    rewrite (iter_from_in md r fwd (S (S i)) t B). cbn [nth_error].
    apply (IH k' _ p H).
Qed.

Lemma next_is_iter md r k i p : (r_dur r = None \/ dur_falsy (r_dur r) = false) ->
  nth_error (iter_take md r k) i = Some p ->
  step_point md r (dirb r) (Some p) = nth_error (iter_take md r (S (S i))) (S i).
Proof.
  intros Hd H. rewrite iter_take_unfold in H. rewrite iter_take_unfold.
  destruct (zopt_eqb (r_reps r) 1) eqn:R; cbn [orb] in *.
  - unfold step_point. rewrite R.
    destruct (match r_start r with None => r_end r | Some _ => r_start r end) as [t|]; [|destruct i; reflexivity].
    destruct (in_bounds md r (Some t)) as [[|]|]; destruct i; reflexivity.
  - destruct Hd as [Hd|Hd].
    + rewrite Hd in *. cbn [dur_falsy] in *. unfold step_point. rewrite R, Hd.
      destruct (match r_start r with None => r_end r | Some _ => r_start r end) as [t|]; [|destruct i; reflexivity].
      destruct (in_bounds md r (Some t)) as [[|]|]; destruct i; reflexivity.
    + rewrite Hd in *. symmetry. fold (dirb r) in *. apply (iter_from_next md r (dirb r) i k _ p H).
Qed.

(* ====================================================================== *)
(* 3. any non-negative, non-zero interval (property C13, nominal part)     *)
(* ====================================================================== *)

(* same body as in Props/C13Ext.v: an anchor (the start; the end when there is
   no start), an interval that steps, valid ends; nothing is assumed about
   where the stored end of a bounded series lies (finding F4) *)
Definition wf_any (md : mode) (r : recur) (a : tp) (d : dur) : Prop :=
  r_dur r = Some d /\ step_dur d /\ valid_tp md a = true /\
  match r_start r, r_end r, r_reps r with
  | Some s, None, None => a = s
  | Some s, Some e, Some n => a = s /\ 2 <= n /\ valid_tp md e = true /\ (instant md s <= instant md e)%Q
  | None, Some e, None => a = e
  | _, _, _ => False
  end.

Lemma wf_any_gen md r a d : wf_any md r a d -> gen_ok md r a d (min_step d).
Proof.
  intros (D & S & Va & M). unfold gen_ok, anchor, opt_valid.
  assert (Adv := step_dur_advances md d (dirb r) S).
  assert (Fa := step_dur_falsy d S).
  split; [|split; [exact Va|split; [exact D|split; [|split; [exact Fa|split; [|split; [|exact Adv]]]]]]];
    destruct (r_start r) as [s|], (r_end r) as [e|], (r_reps r) as [n|]; try contradiction;
    cbn [zopt_eqb]; try exact Logic.I; try reflexivity; try (subst a; reflexivity).
  - destruct M as (-> & _). reflexivity.
  - lia.
  - destruct M as (-> & _). exact Va.
  - subst a. exact Va.
  - apply M.
  - subst a. exact Va.
Qed.

Lemma wf_any_dirb md r a d : wf_any md r a d ->
  dirb r = match r_start r with Some _ => true | None => false end.
Proof. reflexivity. Qed.

Lemma iter_increasing_any md r a d k i p q : wf_any md r a d ->
  nth_error (iter_take md r k) i = Some p -> nth_error (iter_take md r k) (S i) = Some q ->
  valid_tp md p = true /\ valid_tp md q = true /\ (0 < min_step d)%Q /\
  match r_start r with
  | Some _ => (instant md p + min_step d <= instant md q)%Q
  | None => (instant md q + min_step d <= instant md p)%Q
  end.
Proof.
  intros W H1 H2. pose proof (wf_any_gen md r a d W) as G.
  destruct (iter_take_increasing md r a d _ k i p q G H1 H2) as (Vp & Vq & _ & I).
  split; [exact Vp|]. split; [exact Vq|]. split; [apply (gen_L_pos _ _ _ _ _ G)|].
  unfold dirb in I. destruct (r_start r); exact I.
Qed.

Lemma get_is_valid_any md r a d t fuel b : wf_any md r a d -> valid_tp md t = true ->
  get_is_valid md r t fuel = Some b ->
  (b = true <-> exists k i p, nth_error (iter_take md r k) i = Some p /\
                              (instant md p == instant md t)%Q).
Proof. intros W. apply (get_is_valid_gen md r a d (min_step d)). apply wf_any_gen. exact W. Qed.

Definition any_dist (md : mode) (r : recur) (a t : tp) : Q :=
  match r_start r with
  | Some _ => (match r_end r with Some e => instant md e | None => instant md t end) - instant md a
  | None => instant md a - instant md t
  end.

Lemma get_is_valid_total_any md r a d t fuel : wf_any md r a d -> valid_tp md t = true ->
  (0 < fuel)%nat -> (inject_Z (Z.of_nat fuel) * min_step d > any_dist md r a t + min_step d)%Q ->
  exists b, get_is_valid md r t fuel = Some b.
Proof.
  intros W Vt F0 FL. apply (get_is_valid_total_gen md r a d (min_step d) t fuel (wf_any_gen _ _ _ _ W) Vt F0).
  unfold scan_dist, dirb. unfold any_dist in FL. destruct (r_start r); exact FL.
Qed.

Lemma next_iter_any md r k i p : (r_dur r = None \/ dur_falsy (r_dur r) = false) ->
  nth_error (iter_take md r k) i = Some p ->
  match r_start r with Some _ => get_next md r (Some p) | None => get_prev md r (Some p) end =
  nth_error (iter_take md r (S (S i))) (S i).
Proof.
  intros Hd H. rewrite <- (next_is_iter md r k i p Hd H). unfold dirb, get_next, get_prev.
  destruct (r_start r); reflexivity.
Qed.

Lemma wf_any_dur md r a d : wf_any md r a d -> r_dur r = None \/ dur_falsy (r_dur r) = false.
Proof. intros (D & S & _). right. rewrite D. apply step_dur_falsy. exact S. Qed.

(* a bounded series whose stored end is its last iterated point *)
Lemma next_iter_bounded md r a d n e l : wf_any md r a d ->
  r_start r = Some a -> r_reps r = Some n -> r_end r = Some e ->
  nth_error (iter_take md r (Z.to_nat n)) (Z.to_nat (n - 1)) = Some l ->
  (instant md l == instant md e)%Q ->
  forall k i p, nth_error (iter_take md r k) i = Some p ->
    Z.of_nat i <= n - 1 /\
    (Z.of_nat i < n - 1 -> exists q, get_next md r (Some p) = Some q /\
        nth_error (iter_take md r (Z.to_nat n)) (S i) = Some q /\
        (instant md p < instant md q)%Q) /\
    (Z.of_nat i = n - 1 -> get_next md r (Some p) = None).
Proof.
  intros W Sa Rn En Hl Il k i p Hp.
  pose proof (wf_any_gen md r a d W) as G. pose proof (wf_any_dur md r a d W) as Hd.
  pose proof (gen_L_pos _ _ _ _ _ G) as LP.
  assert (Hn : 2 <= n).
  { destruct W as (_ & _ & _ & M). rewrite Sa, En, Rn in M. apply M. }
  set (N' := Z.to_nat (n - 1)) in *.
  assert (EN : Z.to_nat n = S N') by (unfold N'; lia).
  rewrite EN in *.
  assert (Dir : dirb r = true) by (unfold dirb; rewrite Sa; reflexivity).
  (* the point after the last is out of bounds *)
  assert (Vl : valid_tp md l = true).
  { rewrite (iter_take_gen md r a d _ _ G) in Hl. pose proof G as (_ & Va & _).
    apply (iter_from_gen md r a d _ G _ a _ l Va Hl). }
  assert (F1 : step_point md r true (Some l) = None).
  { destruct (step_gen md r a d _ l G Vl) as (q & _ & _ & I & b & _ & Hb & St).
    rewrite Dir in St, I. rewrite St. destruct b; [|reflexivity].
    destruct Hb as [Hb _]. destruct (Hb eq_refl) as [_ K]. rewrite En in K. lra. }
  assert (F2 : nth_error (iter_take md r (S (S N'))) (S N') = None).
  { rewrite <- (next_is_iter md r _ _ l Hd Hl), Dir. exact F1. }
  pose proof (nth_some_lt _ _ _ Hp) as Li. pose proof (iter_take_length md r k) as Lk.
  assert (Le : (i <= N')%nat).
  { destruct (le_lt_dec i N') as [K|K]; [exact K|exfalso].
    destruct (nth_error (iter_take md r k) (S N')) as [x|] eqn:Ex.
    - rewrite (iter_take_stable md r (S N') k ltac:(lia)) in Ex. rewrite F2 in Ex. discriminate Ex.
    - apply nth_error_None in Ex. lia. }
  split; [lia|]. split.
  - intros Lt. assert (Lt' : (S i <= N')%nat) by lia.
    pose proof (nth_some_lt _ _ _ Hl) as Ll.
    destruct (nth_error (iter_take md r (S N')) (S i)) as [q|] eqn:Eq;
      [|apply nth_error_None in Eq; lia].
    exists q.
    assert (E2 : nth_error (iter_take md r (S (S i))) (S i) = Some q).
    { rewrite <- (iter_take_stable md r (S i) (S N') ltac:(lia)). exact Eq. }
    assert (E1 : nth_error (iter_take md r (S (S i))) i = Some p).
    { rewrite (iter_take_stable md r i (S (S i)) ltac:(lia)).
      rewrite <- (iter_take_stable md r i k ltac:(lia)). exact Hp. }
    split.
    + unfold get_next. rewrite <- Dir, (next_is_iter md r k i p Hd Hp). exact E2.
    + split; [reflexivity|].
      destruct (iter_take_increasing md r a d _ _ i p q G E1 E2) as (_ & _ & _ & I).
      rewrite Dir in I. lra.
  - intros Ei. assert (i = N') by lia. subst i.
    assert (p = l).
    { rewrite (iter_take_stable md r N' k ltac:(lia)) in Hp. rewrite Hl in Hp. injection Hp as <-. reflexivity. }
    subst p. exact F1.
Qed.

(* ---------- what the constructor produces ---------- *)
Lemma days_in_year_nonneg md : 0 <= DAYS_IN_YEAR md.
Proof. destruct md; vm_compute; discriminate. Qed.

Lemma step_dur_not_lt md d : step_dur d -> dur_ltb md d dzero = false.
Proof.
  intros (Hy & Hm & L0 & _). destruct (dur_ltb md d dzero) eqn:E; [exfalso|reflexivity].
  destruct (dur_order_spec md d dzero) as (H & _). apply H in E.
  unfold rough_len in E. rewrite dur_len_dzero in E.
  change (dur_years dzero) with 0 in E. change (dur_months dzero) with 0 in E.
  change (inject_Z ((0 * DAYS_IN_YEAR md + 0 * 30) * 86400)) with 0%Q in E.
  pose proof (days_in_year_nonneg md) as Dy.
  assert (K : (0 <= inject_Z ((dur_years d * DAYS_IN_YEAR md + dur_months d * 30) * 86400))%Q).
  { change 0%Q with (inject_Z 0). rewrite <- Zle_Qle. nia. }
  lra.
Qed.

Lemma step_dur_not_zero d : step_dur d -> dur_eqb d dzero = false.
Proof.
  intros H. destruct (is_exact d) eqn:E.
  - apply dur_eqb_dzero_false; [exact E|]. apply (step_dur_exact_pos d H E).
  - destruct d as [w | y mo ds h mi s]; [discriminate E|].
    unfold dur_eqb. rewrite E. unfold dzero. cbn [to_days get_is_in_weeks negb andb].
    cbn [is_exact] in E. rewrite E. reflexivity.
Qed.

Lemma step_dur_mul d k : step_dur d -> 0 < k -> step_dur (dur_mul d k).
Proof.
  intros (Hy & Hm & L0 & S) Hk. unfold step_dur.
  rewrite dur_mul_years, dur_mul_months, dur_mul_len.
  assert (Kq : (0 < inject_Z k)%Q) by (change 0%Q with (inject_Z 0); rewrite <- Zlt_Qlt; exact Hk).
  split; [nia|]. split; [nia|]. split; [nra|].
  destruct S as [S|[S|S]]; [left; nia|right; left; nia|right; right; nra].
Qed.

Lemma rec_make_any md reps s e d r : step_dur d -> opt_valid md s -> opt_valid md e ->
  rec_make md reps s (Some d) e = Ok r -> reps <> Some 1 ->
  exists a, wf_any md r a d /\ r_reps r = reps /\
    match s, e with
    | Some s0, None => r_start r = Some s0 /\ a = s0
    | None, Some e0 => r_end r = Some e0 /\ (reps = None -> r_start r = None /\ a = e0)
    | _, _ => False
    end.
Proof.
  intros S Vs Ve H N1. unfold rec_make in H.
  destruct (match reps with Some n => n <=? 0 | None => false end) eqn:G; [discriminate H|].
  rewrite (step_dur_not_lt md d S), (step_dur_not_zero d S), orb_false_r in H.
  assert (R1 : zopt_eqb reps 1 = false).
  { destruct reps as [n|]; [|reflexivity]. cbn [zopt_eqb]. destruct (n =? 1) eqn:E; [|reflexivity].
    exfalso. apply N1. f_equal. lia. }
  rewrite R1 in H.
  destruct s as [s0|], e as [e0|]; try discriminate H; cbn [opt_valid] in Vs, Ve.
  - destruct reps as [n|].
    + assert (Hn : 2 <= n) by (cbn [zopt_eqb] in R1; lia).
      pose proof (step_dur_mul d (n - 1) S ltac:(lia)) as Sm.
      destruct (step_later md s0 (dur_mul d (n - 1)) Vs Sm) as (e' & E & V' & _ & I' & _). rewrite E in H.
      pose proof (min_step_pos _ Sm) as Mp.
      injection H as <-. exists s0. split; [|split; [reflexivity|split; reflexivity]].
      unfold wf_any. cbn [r_dur r_start r_end r_reps].
      split; [reflexivity|]. split; [exact S|]. split; [exact Vs|].
      repeat split; try assumption; lra.
    + injection H as <-. exists s0. unfold wf_any. cbn [r_dur r_start r_end r_reps].
      repeat split; try assumption; try reflexivity; apply S.
  - destruct reps as [n|].
    + assert (Hn : 2 <= n) by (cbn [zopt_eqb] in R1; lia).
      pose proof (step_dur_mul d (n - 1) S ltac:(lia)) as Sm.
      destruct (step_earlier md e0 (dur_mul d (n - 1)) Ve Sm) as (s' & E & V' & _ & I' & _).
      pose proof (min_step_pos _ Sm) as Mp.
      rewrite E in H. injection H as <-. exists s'. split; [|split; [reflexivity|split; [reflexivity|discriminate]]].
      unfold wf_any. cbn [r_dur r_start r_end r_reps].
      split; [reflexivity|]. split; [exact S|]. split; [exact V'|].
      repeat split; try assumption; lra.
    + injection H as <-. exists e0. unfold wf_any. cbn [r_dur r_start r_end r_reps].
      repeat split; try assumption; try reflexivity; apply S.
Qed.

(* every component non-negative, one positive: a stepping interval *)
Definition nonneg_units (d : dur) : Prop :=
  match d with
  | DW w => 0 < w
  | DU y mo ds h mi s =>
    0 <= y /\ 0 <= mo /\ 0 <= ds /\ (0 <= h)%Q /\ (0 <= mi)%Q /\ (0 <= s)%Q /\
    (0 < y \/ 0 < mo \/ 0 < ds \/ (0 < h)%Q \/ (0 < mi)%Q \/ (0 < s)%Q)
  end.

Lemma nonneg_units_step d : nonneg_units d -> step_dur d.
Proof.
  destruct d as [w | y mo ds h mi s]; unfold step_dur; cbn [nonneg_units dur_years dur_months].
  - intros Hw. rewrite dur_len_DW'.
    assert (K : (0 < inject_Z w)%Q) by (change 0%Q with (inject_Z 0); rewrite <- Zlt_Qlt; exact Hw).
    split; [lia|]. split; [lia|]. split; [lra|]. right. right. lra.
  - intros (Hy & Hm & Hd & Hh & Hi & Hs & P). rewrite dur_len_DU'.
    assert (K : (0 <= inject_Z ds)%Q) by (change 0%Q with (inject_Z 0); rewrite <- Zle_Qle; exact Hd).
    split; [exact Hy|]. split; [exact Hm|]. split; [lra|].
    destruct P as [P|[P|[P|[P|[P|P]]]]]; [left; exact P|right; left; exact P|right; right..]; try lra.
    assert (K' : (1 <= inject_Z ds)%Q) by (change 1%Q with (inject_Z 1); rewrite <- Zle_Qle; lia).
    lra.
Qed.

(* ====================================================================== *)
(* 4. the reverse series of the duration/end notation, in closed form      *)
(* ====================================================================== *)

(* same body as wf_rev in Props/C13Ext.v and bwd_ok in RecSpec.v *)
Definition wf_rev (md : mode) (r : recur) (e : tp) (d : dur) : Prop :=
  r_start r = None /\ r_end r = Some e /\ r_dur r = Some d /\ r_reps r = None /\
  valid_tp md e = true /\ exact_pos d.

Lemma wf_rev_bwd md r e d : wf_rev md r e d -> bwd_ok md r e d.
Proof. intros H. exact H. Qed.

Lemma wf_rev_any md r e d : wf_rev md r e d -> wf_any md r e d.
Proof.
  intros (S & En & D & R & Ve & P). unfold wf_any. rewrite S, En, D, R.
  split; [reflexivity|]. split; [apply exact_pos_step_dur; exact P|]. split; [exact Ve|reflexivity].
Qed.

Lemma wf_rev_make md e d : valid_tp md e = true -> exact_pos d ->
  exists r, rec_make md None None (Some d) (Some e) = Ok r /\ wf_rev md r e d.
Proof.
  intros Ve P. eexists. split; [apply (rec_make_fmt4_unbounded md e d P)|].
  repeat split; try assumption; apply P.
Qed.

Lemma neg_mul_inj i L : (inject_Z (-1 * Z.of_nat i) * L == - (inject_Z (Z.of_nat i) * L))%Q.
Proof.
  replace (-1 * Z.of_nat i) with (- Z.of_nat i) by lia. rewrite inject_Z_opp. ring.
Qed.

Lemma get_is_valid_rev md r e d t fuel b : wf_rev md r e d -> valid_tp md t = true ->
  get_is_valid md r t fuel = Some b ->
  (b = true <-> exists i, 0 <= i /\ (instant md t == instant md e - inject_Z i * dur_len d)%Q).
Proof.
  intros W Vt H.
  rewrite (get_is_valid_any md r e d t fuel b (wf_rev_any _ _ _ _ W) Vt H).
  apply wf_rev_bwd in W. split.
  - intros (k & i & p & Hp & Ip). destruct (bwd_ok_series md r e d k W) as [_ HS].
    destruct (HS i p Hp) as (I & _). exists (Z.of_nat i). split; [lia|].
    rewrite <- Ip, I, neg_mul_inj. ring.
  - intros (i & Hi & Ii).
    destruct (bwd_ok_nth md r e d (S (Z.to_nat i)) (Z.to_nat i) W ltac:(lia)) as (p & Hp & Ip & _).
    exists (S (Z.to_nat i)), (Z.to_nat i), p. split; [exact Hp|].
    rewrite Ip, Ii, Z2Nat.id by lia. reflexivity.
Qed.

Lemma get_is_valid_rev_total md r e d t fuel : wf_rev md r e d -> valid_tp md t = true ->
  (inject_Z (Z.of_nat fuel) * dur_len d > instant md e - instant md t + dur_len d)%Q ->
  exists b, get_is_valid md r t fuel = Some b.
Proof.
  intros W Vt FL. pose proof W as (S & En & D & R & Ve & [Ex L]).
  destruct (Qlt_le_dec (instant md e) (instant md t)) as [K|K].
  - rewrite get_is_valid_unfold.
    destruct (in_bounds_bwd md r e d t (wf_rev_bwd _ _ _ _ W) Vt) as (b0 & B & Hb). rewrite B.
    destruct b0; [|exists false; reflexivity].
    exfalso. assert (instant md t <= instant md e)%Q by (apply Hb; reflexivity). lra.
  - assert (F0 : (0 < fuel)%nat).
    { apply (fuel_pos fuel (dur_len d) (instant md e - instant md t + dur_len d)); [exact L|lra|exact FL]. }
    apply (get_is_valid_total_any md r e d t fuel (wf_rev_any _ _ _ _ W) Vt F0).
    unfold any_dist. rewrite S, (min_step_exact d Ex). exact FL.
Qed.

Lemma getitem_rev md r e d i : wf_rev md r e d ->
  (0 <= i -> exists p, rec_getitem md r i = Some p /\
      (instant md p == instant md e - inject_Z i * dur_len d)%Q /\ valid_tp md p = true /\
      nth_error (iter_take md r (S (Z.to_nat i))) (Z.to_nat i) = Some p) /\
  (i < 0 -> rec_getitem md r i = None).
Proof.
  intros W. split; [|apply getitem_neg]. intros Hi. apply wf_rev_bwd in W.
  destruct (bwd_ok_nth md r e d (S (Z.to_nat i)) (Z.to_nat i) W ltac:(lia)) as (p & Hp & Ip & Vp & _).
  exists p. rewrite Z2Nat.id in Ip by lia.
  split; [|split; [exact Ip|split; [exact Vp|exact Hp]]].
  unfold rec_getitem. destruct (i <? 0) eqn:N; [lia|exact Hp].
Qed.

(* get_prev / get_next of any valid point, on a reverse series *)
Lemma next_prev_rev md r e d t : wf_rev md r e d -> valid_tp md t = true ->
  (match get_prev md r (Some t) with
   | Some q => (instant md q == instant md t - dur_len d)%Q /\ valid_tp md q = true /\
               (instant md q <= instant md e)%Q
   | None => (instant md e < instant md t - dur_len d)%Q
   end) /\
  (match get_next md r (Some t) with
   | Some q => (instant md q == instant md t + dur_len d)%Q /\ valid_tp md q = true /\
               (instant md q <= instant md e)%Q
   | None => (instant md e < instant md t + dur_len d)%Q
   end).
Proof.
  intros W Vt. apply wf_rev_bwd in W. pose proof W as (S & En & D & _ & _ & [Ex L]).
  split.
  - destruct (step_point_spec md r false t d (bwd_ok_start _ _ _ _ W) (bwd_ok_end _ _ _ _ W)
                (bwd_ok_reps _ _ _ _ W) D Ex Vt) as (t' & _ & I' & _ & _ & _ & V' & b & _ & Hb & St).
    unfold get_prev. rewrite St. rewrite S, En in Hb. destruct b.
    + split; [rewrite I'; ring|]. split; [exact V'|]. apply Hb. reflexivity.
    + destruct (Qlt_le_dec (instant md e) (instant md t - dur_len d)) as [K|K]; [exact K|].
      exfalso. assert (false = true); [|discriminate]. apply Hb. split; [exact Logic.I|lra].
  - destruct (step_point_spec md r true t d (bwd_ok_start _ _ _ _ W) (bwd_ok_end _ _ _ _ W)
                (bwd_ok_reps _ _ _ _ W) D Ex Vt) as (t' & _ & I' & _ & _ & _ & V' & b & _ & Hb & St).
    unfold get_next. rewrite St. rewrite S, En in Hb. destruct b.
    + split; [exact I'|]. split; [exact V'|]. apply Hb. reflexivity.
    + destruct (Qlt_le_dec (instant md e) (instant md t + dur_len d)) as [K|K]; [exact K|].
      exfalso. assert (false = true); [|discriminate]. apply Hb. split; [exact Logic.I|lra].
Qed.

(* ... and of the member number i (counted from the end, in the order of iteration) *)
Lemma next_prev_rev_member md r e d t i : wf_rev md r e d -> valid_tp md t = true -> 0 <= i ->
  (instant md t == instant md e - inject_Z i * dur_len d)%Q ->
  (exists q, get_prev md r (Some t) = Some q /\ valid_tp md q = true /\
     (instant md q == instant md e - inject_Z (i + 1) * dur_len d)%Q) /\
  (0 < i -> exists q, get_next md r (Some t) = Some q /\ valid_tp md q = true /\
     (instant md q == instant md e - inject_Z (i - 1) * dur_len d)%Q) /\
  (i = 0 -> get_next md r (Some t) = None).
Proof.
  intros W Vt Hi It. destruct (next_prev_rev md r e d t W Vt) as [P N].
  pose proof W as (_ & _ & _ & _ & _ & [_ L]).
  pose proof (qmul_nonneg i (dur_len d) Hi L) as Nn.
  split; [|split].
  - destruct (get_prev md r (Some t)) as [q|].
    + destruct P as (I & V & _). exists q. split; [reflexivity|]. split; [exact V|].
      rewrite I, It, inj_plus1_mul. ring.
    + exfalso. lra.
  - intros Hp. destruct (get_next md r (Some t)) as [q|].
    + destruct N as (I & V & _). exists q. split; [reflexivity|]. split; [exact V|].
      rewrite I, It. replace i with ((i - 1) + 1) at 1 by lia. rewrite inj_plus1_mul. ring.
    + exfalso. replace i with ((i - 1) + 1) in It by lia. rewrite inj_plus1_mul in It.
      pose proof (qmul_nonneg (i - 1) (dur_len d) ltac:(lia) L). lra.
  - intros ->. destruct (get_next md r (Some t)) as [q|]; [|reflexivity].
    exfalso. destruct N as (I & _ & Le). change (inject_Z 0) with 0%Q in It. lra.
Qed.

(* ====================================================================== *)
(* 5. statements in the form of Props/C13Ext.v                             *)
(* ====================================================================== *)
Lemma step_both md p d : valid_tp md p = true -> step_dur d ->
  (0 < min_step d)%Q /\
  (exists q, tp_add md p d = Some q /\ valid_tp md q = true /\ same_shape q p /\
     (instant md p + min_step d <= instant md q)%Q) /\
  (exists q, tp_sub_dur md p d = Some q /\ valid_tp md q = true /\ same_shape q p /\
     (instant md q + min_step d <= instant md p)%Q).
Proof.
  intros V H. split; [apply min_step_pos; exact H|]. split.
  - destruct (step_later md p d V H) as (q & A & B & C & D & _). exists q. auto.
  - destruct (step_earlier md p d V H) as (q & A & B & C & D & _). exists q. auto.
Qed.

Lemma getitem_iter_both md r i :
  (forall k, 0 <= i -> (Z.to_nat i < k)%nat ->
     rec_getitem md r i = nth_error (iter_take md r k) (Z.to_nat i)) /\
  (i < 0 -> rec_getitem md r i = None).
Proof. split; [intros k; apply getitem_iter|apply getitem_neg]. Qed.

(* ====================================================================== *)
(* 6. get_first_after by scanning (month/year intervals)                   *)
(* ====================================================================== *)
Definition later_min (md : mode) (l : nat -> list tp) (t : tp) (res : option tp) : Prop :=
  match res with
  | Some q => (exists k i, nth_error (l k) i = Some q) /\ (instant md t < instant md q)%Q /\
              forall k i p, nth_error (l k) i = Some p -> (instant md t < instant md p)%Q ->
                            (instant md q <= instant md p)%Q
  | None => forall k i p, nth_error (l k) i = Some p -> (instant md p <= instant md t)%Q
  end.

Lemma first_after_scan_None md r t f res : first_after_scan md r t f None = Some res -> res = None.
Proof. destruct f; cbn [first_after_scan]; intros H; [discriminate H|]. injection H as <-. reflexivity. Qed.

Lemma first_after_scan_gen md r a d L t : gen_ok md r a d L -> dirb r = true -> valid_tp md t = true ->
  forall fuel c res, valid_tp md c = true -> in_bounds md r (Some c) = Some true ->
  first_after_scan md r t fuel (Some c) = Some res ->
  later_min md (fun k => iter_from md r true k (Some c)) t res.
Proof.
  intros W Dir Vt. induction fuel as [|f IH]; intros c res Vc B H; [discriminate H|].
  cbn [first_after_scan] in H.
  destruct (tp_leb_spec md c t Vc Vt) as (b & E & Hb). rewrite E in H. destruct b.
  - assert (Le : (instant md c <= instant md t)%Q) by (apply Hb; reflexivity).
    unfold get_next in H.
    destruct (step_gen md r a d L c W Vc) as (c' & Vc' & _ & _ & b' & B' & _ & St).
    rewrite Dir in St. rewrite St in H. destruct b'.
    + specialize (IH c' res Vc' B' H). destruct res as [q|]; cbn [later_min] in *.
      * destruct IH as ((k & i & Hq) & Lt & Min). split; [|split; [exact Lt|]].
        -- exists (S k), (S i). rewrite (iter_from_in md r true k c B), St. exact Hq.
        -- intros k0 i0 p Hp Lp. apply iter_from_split in Hp.
           destruct Hp as (_ & [[_ ->] | (k' & i' & _ & _ & Hp)]); [lra|].
           rewrite St in Hp. apply (Min k' i' p Hp Lp).
      * intros k0 i0 p Hp. apply iter_from_split in Hp.
        destruct Hp as (_ & [[_ ->] | (k' & i' & _ & _ & Hp)]); [exact Le|].
        rewrite St in Hp. apply (IH k' i' p Hp).
    + apply first_after_scan_None in H. subst res. cbn [later_min].
      intros k0 i0 p Hp. apply iter_from_split in Hp.
      destruct Hp as (_ & [[_ ->] | (k' & i' & _ & _ & Hp)]); [exact Le|].
      rewrite St, iter_from_None in Hp. destruct i'; discriminate Hp.
  - injection H as <-. cbn [later_min].
    assert (Lt : (instant md t < instant md c)%Q).
    { destruct (Qlt_le_dec (instant md t) (instant md c)) as [K|K]; [exact K|].
      apply Hb in K. discriminate K. }
    split; [|split; [exact Lt|]].
    + exists 1%nat, 0%nat. rewrite (iter_from_in md r true 0 c B). reflexivity.
    + intros k0 i0 p Hp _. pose proof (iter_from_gen_le md r a d L k0 c i0 p W Vc) as K.
      rewrite Dir in K. apply K. exact Hp.
Qed.

Lemma first_after_scan_total md r a d L t : gen_ok md r a d L -> dirb r = true -> valid_tp md t = true ->
  forall fuel c, valid_tp md c = true -> (0 < fuel)%nat ->
  (inject_Z (Z.of_nat fuel) * L > instant md t - instant md c + L)%Q ->
  exists res, first_after_scan md r t fuel (Some c) = Some res.
Proof.
  intros W Dir Vt. pose proof (gen_L_pos _ _ _ _ _ W) as LP.
  induction fuel as [|f IH]; intros c Vc F0 FL; [lia|].
  cbn [first_after_scan].
  destruct (tp_leb_spec md c t Vc Vt) as (b & E & Hb). rewrite E. destruct b; [|eexists; reflexivity].
  assert (Le : (instant md c <= instant md t)%Q) by (apply Hb; reflexivity).
  rewrite inj_succ_mul in FL.
  assert (Fp : (0 < f)%nat) by (apply (fuel_pos f L (instant md t - instant md c)); [exact LP|lra|lra]).
  unfold get_next.
  destruct (step_gen md r a d L c W Vc) as (c' & Vc' & _ & I' & b' & _ & _ & St).
  rewrite Dir in St, I'. rewrite St. destruct b'.
  - apply (IH c' Vc' Fp). lra.
  - destruct f; [lia|]. eexists. reflexivity.
Qed.

(* same body as in Props/C13Ext.v *)
Definition later_min_iter (md : mode) (r : recur) (t : tp) (res : option tp) : Prop :=
  match res with
  | Some q => (exists k i, nth_error (iter_take md r k) i = Some q) /\ (instant md t < instant md q)%Q /\
              forall k i p, nth_error (iter_take md r k) i = Some p -> (instant md t < instant md p)%Q ->
                            (instant md q <= instant md p)%Q
  | None => forall k i p, nth_error (iter_take md r k) i = Some p -> (instant md p <= instant md t)%Q
  end.

Lemma wf_any_anchor_in md r a d : wf_any md r a d -> in_bounds md r (Some a) = Some true.
Proof.
  intros W. pose proof (wf_any_gen md r a d W) as (_ & Va & _ & _ & _ & Vs & Ve & _).
  destruct W as (_ & _ & _ & M). apply (in_bounds_true_intro md r a Va Vs Ve).
  - destruct (r_start r) as [s|]; [|exact Logic.I]. destruct (r_end r), (r_reps r); try contradiction.
    + destruct M as (-> & _). lra.
    + subst a. lra.
  - destruct (r_start r) as [s|], (r_end r) as [e|], (r_reps r); try contradiction; try exact Logic.I.
    + destruct M as (-> & _ & _ & Le). exact Le.
    + subst a. lra.
Qed.

Lemma first_after_any md r a d t fuel res : wf_any md r a d -> r_start r = Some a ->
  is_exact d = false -> valid_tp md t = true ->
  get_first_after md r t fuel = Some res ->
  later_min_iter md r t res /\ ((instant md t < instant md a)%Q -> res = Some a).
Proof.
  intros W Sa Ex Vt H. pose proof (wf_any_gen md r a d W) as G.
  pose proof G as (_ & Va & D & _ & _ & Vs & Ve & _).
  assert (Dir : dirb r = true) by (unfold dirb; rewrite Sa; reflexivity).
  pose proof (wf_any_anchor_in md r a d W) as Ba.
  assert (TR : forall res', later_min md (fun k => iter_from md r true k (Some a)) t res' ->
                            later_min_iter md r t res').
  { intros res' K. unfold later_min_iter, later_min in *.
    assert (E : forall k, iter_take md r k = iter_from md r true k (Some a)).
    { intros k. rewrite (iter_take_gen md r a d _ k G), Dir. reflexivity. }
    destruct res' as [q|].
    - destruct K as ((k & i & Hq) & Lt & Min). split; [exists k, i; rewrite E; exact Hq|].
      split; [exact Lt|]. intros k0 i0 p Hp. rewrite E in Hp. apply (Min k0 i0 p Hp).
    - intros k0 i0 p Hp. rewrite E in Hp. apply (K k0 i0 p Hp). }
  unfold get_first_after in H. rewrite Sa in H.
  destruct (in_bounds_char md r t Vt Vs Ve) as (b0 & B & Hb). rewrite B in H. rewrite Sa in Hb.
  destruct b0.
  - rewrite D, Ex in H. destruct Hb as [Hb _]. destruct (Hb eq_refl) as [Ls _].
    split; [|intros K; exfalso; lra].
    apply TR. apply (first_after_scan_gen md r a d _ t G Dir Vt fuel a res Va Ba H).
  - destruct (tp_ltb_spec md t a Vt Va) as (c & Ec & Hc). rewrite Ec in H. destruct c.
    + injection H as <-. assert (Lt : (instant md t < instant md a)%Q) by (apply Hc; reflexivity).
      split; [|intros _; reflexivity]. apply TR. cbn [later_min].
      split; [exists 1%nat, 0%nat; rewrite (iter_from_in md r true 0 a Ba); reflexivity|].
      split; [exact Lt|]. intros k0 i0 p Hp _.
      pose proof (iter_from_gen_le md r a d _ k0 a i0 p G Va) as K. rewrite Dir in K. apply K. exact Hp.
    + injection H as <-.
      assert (Ls : (instant md a <= instant md t)%Q).
      { destruct (Qlt_le_dec (instant md t) (instant md a)) as [K|K]; [|exact K].
        apply Hc in K. discriminate K. }
      split; [|intros K; exfalso; lra]. apply TR. cbn [later_min].
      intros k0 i0 p Hp. rewrite <- Dir in Hp.
      destruct (iter_from_gen md r a d _ G k0 a i0 p Va Hp) as (Vp & _).
      pose proof (iter_from_in_bounds _ _ _ _ _ _ _ Hp) as Bp.
      destruct (in_bounds_char md r p Vp Vs Ve) as (bp & Ebp & Hbp). rewrite Bp in Ebp. injection Ebp as <-.
      destruct Hbp as [Hbp _]. destruct (Hbp eq_refl) as [_ Pe].
      destruct (r_end r) as [e|].
      * destruct (Qlt_le_dec (instant md e) (instant md t)) as [K|K]; [lra|].
        exfalso. assert (false = true); [|discriminate]. apply Hb. split; assumption.
      * exfalso. assert (false = true); [|discriminate]. apply Hb. split; [exact Ls|exact Logic.I].
Qed.

Lemma first_after_total_any md r a d t fuel : wf_any md r a d -> r_start r = Some a ->
  is_exact d = false -> valid_tp md t = true -> (0 < fuel)%nat ->
  (inject_Z (Z.of_nat fuel) * min_step d > instant md t - instant md a + min_step d)%Q ->
  exists res, get_first_after md r t fuel = Some res.
Proof.
  intros W Sa Ex Vt F0 FL. pose proof (wf_any_gen md r a d W) as G.
  pose proof G as (_ & Va & D & _ & _ & Vs & Ve & _).
  assert (Dir : dirb r = true) by (unfold dirb; rewrite Sa; reflexivity).
  unfold get_first_after. rewrite Sa.
  destruct (in_bounds_char md r t Vt Vs Ve) as (b0 & B & _). rewrite B. destruct b0.
  - rewrite D, Ex. apply (first_after_scan_total md r a d _ t G Dir Vt fuel a Va F0 FL).
  - destruct (tp_ltb_spec md t a Vt Va) as (c & Ec & _). rewrite Ec. destruct c; eexists; reflexivity.
Qed.

(* ====================================================================== *)
(* 7. get_first_after has no answer on a reverse series                    *)
(* ====================================================================== *)
(* the code compares with / subtracts the absent start point: TypeError on the
   real package for exact intervals and for probes later than the end (and a
   plain None for month/year intervals, although a later member exists); the
   model's get_first_after gives its "raised" value whatever the fuel *)
Lemma first_after_no_start md r t fuel : r_start r = None -> get_first_after md r t fuel = None.
Proof. intros S. unfold get_first_after. rewrite S. reflexivity. Qed.

Lemma first_after_rev_refuted :
  exists md r e d t, wf_rev md r e d /\ valid_tp md t = true /\
    (instant md t < instant md e)%Q /\ get_is_valid md r e 5 = Some true /\
    forall fuel, get_first_after md r t fuel = None.
Proof.
  exists G, (mkRec None None (Some (DU 0 0 0 6 0 0)) (Some (mkTp (Cal 2002 5 5) (HMS 1 0 0) (mkZone 0 0))) None 4),
    (mkTp (Cal 2002 5 5) (HMS 1 0 0) (mkZone 0 0)), (DU 0 0 0 6 0 0),
    (mkTp (Cal 2002 5 4) (HMS 13 0 0) (mkZone 0 0)).
  split; [repeat split; vm_compute; reflexivity|].
  split; [vm_compute; reflexivity|]. split; [vm_compute; reflexivity|].
  split; [vm_compute; reflexivity|]. intros fuel. apply first_after_no_start. reflexivity.
Qed.
