(* Proofs/AddSpec.v -- TimePoint.__add__(Duration) for exact durations: each of
   the four carries moves the instant by exactly its component and leaves a
   normalised point; subtraction is addition of the negated duration. *)
From Coq Require Import QArith Qround Qabs Lqa.
From Iso Require Import Proofs.Tac Spec.Cal Spec.Instant Model.Num Model.Helpers Model.Duration
  Model.TimePoint Proofs.HelpersSpec Proofs.ConvSpec Proofs.TickSpec.
Open Scope Z_scope.
Open Scope Q_scope.

(* ---------- the components added to the time of day ---------- *)
Lemma add_seconds_spec t s :
  tod_secs (add_seconds t s) == tod_secs t + s /\ tod_kind (add_seconds t s) = tod_kind t.
Proof.
  destruct t; cbn [add_seconds tod_secs tod_kind]; (split; [|reflexivity]);
    rewrite ?qadd_eq, ?qdivz_eq; qlit; field.
Qed.
Lemma add_minutes_spec t x :
  tod_secs (add_minutes t x) == tod_secs t + x * 60 /\ tod_kind (add_minutes t x) = tod_kind t.
Proof.
  destruct t; cbn [add_minutes tod_secs tod_kind]; (split; [|reflexivity]);
    rewrite ?qadd_eq, ?qdivz_eq; qlit; field.
Qed.
Lemma add_hours_spec t x :
  tod_secs (add_hours t x) == tod_secs t + x * 3600 /\ tod_kind (add_hours t x) = tod_kind t.
Proof.
  destruct t; cbn [add_hours tod_secs tod_kind]; (split; [|reflexivity]);
    rewrite ?qadd_eq, ?qdivz_eq; qlit; field.
Qed.

(* ---------- one carry ---------- *)
Definition rel (md : mode) (p r : tp) (x : Q) : Prop :=
  valid_tp md r = true /\ instant md r == instant md p + x /\
  rep_kind (tdate r) = rep_kind (tdate p) /\ tod_kind (ttod r) = tod_kind (ttod p) /\
  tzone r = tzone p.

Lemma valid_tp_parts md p : valid_tp md p = true ->
  valid_date md (tdate p) = true /\ valid_tod (ttod p) = true /\ valid_zone (tzone p) = true.
Proof. unfold valid_tp. intros H. apply andb_prop in H. destruct H as [H H3]. apply andb_prop in H. tauto. Qed.

Lemma valid_month md d : valid_date md d = true ->
  match d with Cal _ m _ => (1 <= m <= 12)%Z | _ => True end.
Proof. destruct d; cbn [valid_date]; trivial. unfold valid_cal. lia. Qed.

Lemma normal_valid md p : normal_tp md p = true -> valid_tp md p = true.
Proof.
  unfold normal_tp, valid_tp, normal_tod. intros H.
  apply andb_prop in H. destruct H as [H H3]. apply andb_prop in H. destruct H as [H1 H2].
  apply andb_prop in H2. destruct H2 as [H2 _]. rewrite H1, H2, H3. reflexivity.
Qed.

Lemma tick_stage md p q x : valid_tp md p = true ->
  match tdate q with Cal _ m _ => (1 <= m <= 12)%Z | _ => True end ->
  instant md q == instant md p + x ->
  rep_kind (tdate q) = rep_kind (tdate p) -> tod_kind (ttod q) = tod_kind (ttod p) ->
  tzone q = tzone p ->
  rel md p (tick_over md q) x /\ normal_tp md (tick_over md q) = true.
Proof.
  intros V M I K1 K2 Z.
  destruct (tick_over_spec md q M) as (T1 & T2 & T3 & T4 & T5 & T6).
  destruct (valid_tp_parts md p V) as (_ & _ & VZ).
  assert (N : normal_tp md (tick_over md q) = true).
  { unfold normal_tp. rewrite T2, T3, T6, Z, VZ. reflexivity. }
  split; [|exact N]. unfold rel. split; [apply normal_valid; exact N|].
  split; [rewrite T1; exact I|]. repeat split; congruence.
Qed.

Lemma time_stage md p t' x : valid_tp md p = true ->
  tod_secs t' == tod_secs (ttod p) + x -> tod_kind t' = tod_kind (ttod p) ->
  rel md p (tick_over md (with_tod p t')) x /\ normal_tp md (tick_over md (with_tod p t')) = true.
Proof.
  intros V S K. apply tick_stage; try assumption; try reflexivity.
  - cbn [with_tod tdate]. apply (valid_month md). apply (valid_tp_parts md p V).
  - unfold instant, with_tod; cbn [tdate ttod tzone]. rewrite S. ring.
Qed.

Lemma date_stage md p n : valid_tp md p = true ->
  rel md p (tick_over md (with_date p (add_days_raw (tdate p) n))) (inject_Z (n * 86400)) /\
  normal_tp md (tick_over md (with_date p (add_days_raw (tdate p) n))) = true.
Proof.
  intros V. apply tick_stage; try assumption; try reflexivity.
  - cbn [with_date tdate]. pose proof (valid_month md _ (proj1 (valid_tp_parts md p V))) as M.
    destruct (tdate p); cbn [add_days_raw]; exact M.
  - unfold instant, with_date; cbn [tdate ttod tzone]. rewrite add_days_raw_dn. unfold qz.
    replace (86400 * (date_dn md (tdate p) + n))%Z with (86400 * date_dn md (tdate p) + n * 86400)%Z by lia.
    rewrite inject_Z_plus. ring.
  - cbn [with_date tdate]. apply add_days_raw_kind.
Qed.

Lemma rel_refl md p x : valid_tp md p = true -> x == 0 -> rel md p p x.
Proof. intros V E. unfold rel. repeat split; try assumption. rewrite E. ring. Qed.

Lemma rel_trans md p q r x y : rel md p q x -> rel md q r y -> rel md p r (x + y).
Proof.
  unfold rel. intros (A1 & A2 & A3 & A4 & A5) (B1 & B2 & B3 & B4 & B5).
  split; [exact B1|]. split; [rewrite B2, A2; ring|]. repeat split; congruence.
Qed.

(* a guarded carry: skipped when its component tests as zero *)
Lemma guarded_stage md p (b : bool) r x :
  valid_tp md p = true -> (b = true -> x == 0) ->
  rel md p r x /\ normal_tp md r = true ->
  let r' := if b then p else r in
  rel md p r' x /\ (normal_tp md p = true \/ b = false -> normal_tp md r' = true).
Proof.
  intros V Hb [R N]. destruct b; cbn zeta.
  - split; [apply rel_refl; auto|]. intros [H|H]; [exact H|discriminate].
  - split; [exact R|]. intros _; exact N.
Qed.

Lemma qeqb_zero x : qeqb x 0 = true -> x == 0.
Proof. unfold qeqb. apply Qeq_bool_iff. Qed.

(* ---------- the four carries of an exact duration ---------- *)
Definition add4 (md : mode) (p : tp) (ds : Z) (h mi s : Q) : tp :=
  let p1 := if qeqb s 0 then p else tick_over md (with_tod p (add_seconds (ttod p) s)) in
  let p2 := if qeqb mi 0 then p1 else tick_over md (with_tod p1 (add_minutes (ttod p1) mi)) in
  let p3 := if qeqb h 0 then p2 else tick_over md (with_tod p2 (add_hours (ttod p2) h)) in
  if (ds =? 0)%Z then p3 else tick_over md (with_date p3 (add_days_raw (tdate p3) ds)).

Lemma tp_add_add4 md p ds h mi s : tp_add md p (DU 0 0 ds h mi s) = Some (add4 md p ds h mi s).
Proof. reflexivity. Qed.

Lemma add4_spec md p ds h mi s : valid_tp md p = true ->
  rel md p (add4 md p ds h mi s) (inject_Z (ds * 86400) + h * 3600 + mi * 60 + s) /\
  (dur_bool (DU 0 0 ds h mi s) = true -> normal_tp md (add4 md p ds h mi s) = true).
Proof.
  intros V. unfold add4.
  destruct (guarded_stage md p (qeqb s 0) _ s V (qeqb_zero s)
              (time_stage md p _ s V (proj1 (add_seconds_spec _ s)) (proj2 (add_seconds_spec _ s))))
    as [R1 N1].
  set (p1 := if qeqb s 0 then p else _) in *.
  assert (V1 : valid_tp md p1 = true) by apply R1.
  destruct (guarded_stage md p1 (qeqb mi 0) _ (mi * 60) V1
              (fun H => ltac:(rewrite (qeqb_zero mi H); ring))
              (time_stage md p1 _ _ V1 (proj1 (add_minutes_spec _ mi)) (proj2 (add_minutes_spec _ mi))))
    as [R2 N2].
  set (p2 := if qeqb mi 0 then p1 else _) in *.
  assert (V2 : valid_tp md p2 = true) by apply R2.
  destruct (guarded_stage md p2 (qeqb h 0) _ (h * 3600) V2
              (fun H => ltac:(rewrite (qeqb_zero h H); ring))
              (time_stage md p2 _ _ V2 (proj1 (add_hours_spec _ h)) (proj2 (add_hours_spec _ h))))
    as [R3 N3].
  set (p3 := if qeqb h 0 then p2 else _) in *.
  assert (V3 : valid_tp md p3 = true) by apply R3.
  assert (Hd : (ds =? 0)%Z = true -> inject_Z (ds * 86400) == 0).
  { intros H. assert (ds = 0)%Z by lia. subst ds. reflexivity. }
  destruct (guarded_stage md p3 (ds =? 0)%Z _ _ V3 Hd (date_stage md p3 ds V3)) as [R4 N4].
  set (p4 := if (ds =? 0)%Z then p3 else _) in *.
  split.
  - pose proof (rel_trans _ _ _ _ _ _ (rel_trans _ _ _ _ _ _ (rel_trans _ _ _ _ _ _ R1 R2) R3) R4) as R.
    destruct R as (A1 & A2 & A3). split; [exact A1|]. split; [rewrite A2; ring | exact A3].
  - unfold dur_bool. change (0 =? 0)%Z with true. cbn [andb]. intros B.
    apply negb_true_iff in B.
    destruct (qeqb s 0) eqn:Es.
    + destruct (qeqb mi 0) eqn:Emi.
      * destruct (qeqb h 0) eqn:Eh.
        -- destruct (ds =? 0)%Z eqn:Eds; [discriminate B|]. apply N4; right; reflexivity.
        -- apply N4; left. apply N3; right; reflexivity.
      * apply N4; left. apply N3; left. apply N2; right; reflexivity.
    + apply N4; left. apply N3; left. apply N2; left. apply N1; right; reflexivity.
Qed.

(* ---------- the statements of property C01 ---------- *)
Lemma exact_cases d : is_exact d = true ->
  (exists w, d = DW w) \/ (exists ds h mi s, d = DU 0 0 ds h mi s).
Proof.
  destruct d as [w | y mo ds h mi s]; cbn [is_exact]; intros H.
  - left; eauto.
  - right. assert (y = 0 /\ mo = 0)%Z as [-> ->] by lia. eauto 6.
Qed.

Lemma tp_add_weeks md p w : tp_add md p (DW w) = tp_add md p (DU 0 0 (w * 7) 0 0 0).
Proof. reflexivity. Qed.

Lemma dur_len_weeks w : dur_len (DW w) == dur_len (DU 0 0 (w * 7) 0 0 0).
Proof.
  unfold dur_len, non_nominal_seconds. rewrite Qred_correct. qlit.
  replace (w * 7 * 86400)%Z with (w * 7 * 86400 + 0)%Z at 1 by lia. ring_simplify.
  replace (w * 7 * 86400 + 0)%Z with (w * 7 * 86400)%Z by lia. reflexivity.
Qed.

Lemma dur_len_units ds h mi s :
  dur_len (DU 0 0 ds h mi s) == inject_Z (ds * 86400) + h * 3600 + mi * 60 + s.
Proof. unfold dur_len, non_nominal_seconds. rewrite Qred_correct. qlit. reflexivity. Qed.

Lemma tp_add_units_spec md p ds h mi s : valid_tp md p = true ->
  exists r, tp_add md p (DU 0 0 ds h mi s) = Some r /\
            instant md r == instant md p + dur_len (DU 0 0 ds h mi s) /\
            rep_kind (tdate r) = rep_kind (tdate p) /\
            tod_kind (ttod r) = tod_kind (ttod p) /\
            tzone r = tzone p /\
            valid_tp md r = true.
Proof.
  intros V. exists (add4 md p ds h mi s). split; [apply tp_add_add4|].
  destruct (add4_spec md p ds h mi s V) as [(A1 & A2 & A3 & A4 & A5) _].
  rewrite dur_len_units. repeat split; assumption.
Qed.

Lemma tp_add_exact_spec : forall md p d,
  valid_tp md p = true -> is_exact d = true ->
  exists r, tp_add md p d = Some r /\
            (instant md r == instant md p + dur_len d)%Q /\
            rep_kind (tdate r) = rep_kind (tdate p) /\
            tod_kind (ttod r) = tod_kind (ttod p) /\
            tzone r = tzone p /\
            valid_tp md r = true.
Proof.
  intros md p d V E. destruct (exact_cases d E) as [[w ->] | (ds & h & mi & s & ->)].
  - destruct (tp_add_units_spec md p (w * 7) 0 0 0 V) as (r & A1 & A2 & A3).
    exists r. rewrite tp_add_weeks. split; [exact A1|]. split; [|exact A3].
    rewrite dur_len_weeks. exact A2.
  - apply tp_add_units_spec; exact V.
Qed.

Lemma tp_add_exact_normal : forall md p d r,
  valid_tp md p = true -> is_exact d = true -> dur_bool d = true ->
  tp_add md p d = Some r -> normal_tp md r = true.
Proof.
  intros md p d r V E B. destruct (exact_cases d E) as [[w ->] | (ds & h & mi & s & ->)].
  - rewrite tp_add_weeks, tp_add_add4. intros H; injection H as <-.
    apply (add4_spec md p _ _ _ _ V). cbn [dur_bool] in B |- *.
    change (0 =? 0)%Z with true. change (qeqb 0 0) with true. cbn [andb].
    destruct (w =? 0)%Z eqn:Ew; [discriminate B|]. destruct (w * 7 =? 0)%Z eqn:E7; [lia|reflexivity].
  - rewrite tp_add_add4. intros H; injection H as <-. apply (add4_spec md p _ _ _ _ V). exact B.
Qed.

Lemma tp_add_zero : forall md p d, is_exact d = true -> dur_bool d = false -> tp_add md p d = Some p.
Proof.
  intros md p d E B. destruct (exact_cases d E) as [[w ->] | (ds & h & mi & s & ->)].
  - cbn [dur_bool] in B. assert (w = 0)%Z by (destruct (w =? 0)%Z eqn:?; [lia|discriminate B]). subst w.
    reflexivity.
  - cbn [dur_bool] in B. apply negb_false_iff in B.
    change (0 =? 0)%Z with true in B. cbn [andb] in B.
    apply andb_prop in B. destruct B as [B Bs]. apply andb_prop in B. destruct B as [B Bmi].
    apply andb_prop in B. destruct B as [Bd Bh].
    rewrite tp_add_add4. unfold add4. rewrite Bs, Bmi, Bh, Bd. reflexivity.
Qed.

Lemma tp_sub_dur_def : forall md p d, tp_sub_dur md p d = tp_add md p (dur_mul d (-1)).
Proof. reflexivity. Qed.

Lemma dur_len_neg : forall d, is_exact d = true -> (dur_len (dur_mul d (-1)) == - dur_len d)%Q.
Proof.
  intros d _. destruct d as [w | y mo ds h mi s]; unfold dur_len; cbn [dur_mul non_nominal_seconds].
  - unfold qz. rewrite <- inject_Z_opp. replace (w * -1 * 7 * 86400)%Z with (- (w * 7 * 86400))%Z by lia.
    reflexivity.
  - rewrite !Qred_correct, !qmul_eq. unfold qz.
    replace (ds * -1 * 86400)%Z with (- (ds * 86400))%Z by lia. rewrite inject_Z_opp.
    change (inject_Z (-1)) with (-1#1). ring.
Qed.

Open Scope Z_scope.
