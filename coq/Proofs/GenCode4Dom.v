(* Proofs/GenCode4Dom.v -- TimePoint._tick_over_day_of_month (gen/GenCode4.v, translated
   from data.py) walks day by day over iter_months_days; the model's tick_dom walks
   month by month.  Both end on the valid calendar date with the same day number. *)
From Coq Require Import QArith Lia String.
From Iso Require Import Proofs.Tac Spec.Cal Model.Num Model.Helpers Model.Duration Model.TimePoint
  gen.CalTables gen.GenCode gen.GenCode2 gen.GenCode4
  Proofs.TablesOk Proofs.GenCodeOk Proofs.GenCode2Ok Proofs.HelpersSpec Proofs.ConvSpec Proofs.TickSpec Proofs.GenCode4Base.
Open Scope Z_scope.

(* the code's and the model's equality tests, whichever way round they are written *)
Ltac eqb_cases :=
  repeat match goal with |- context [Z.eqb ?a ?b] => destruct (Z.eqb_spec a b) end;
  first [reflexivity | exfalso; lia].

Definition set_cal (o : pyTimePoint) (y m d : Z) : pyTimePoint :=
  set_day_of_month (set_month_of_year (set_year o (Some y)) (Some m)) (Some d).

(* ---------- the (month, day) enumeration of a year ---------- *)
Definition YD (md : mode) (y : Z) : list (Z * Z) := days_from 1 (year_months md y).

Lemma gen_zzzF_eq md y m : 1 <= m <= 12 ->
  py_iter_months_days__zzzF (idx_months md) (idx_months_leap md) y m 1 =
  skipn (Z.to_nat (cum_months (year_months md y) (m - 1))) (YD md y).
Proof.
  intros Hm. unfold py_iter_months_days__zzzF, YD. cbv zeta. rewrite gen_get_is_leap_year_eq.
  unfold year_months. destruct (get_is_leap_year y); destruct md; cases12 m; vm_compute; reflexivity.
Qed.

Lemma gen_zzzT_eq md y m : 1 <= m <= 12 ->
  py_iter_months_days__zzzT (idx_months md) (idx_months_leap md) y m 1 =
  rev (firstn (Z.to_nat (cum_months (year_months md y) (m - 1)) + 1) (YD md y)).
Proof.
  intros Hm. unfold py_iter_months_days__zzzT, YD. cbv zeta. rewrite gen_get_is_leap_year_eq.
  unfold year_months. destruct (get_is_leap_year y); destruct md; cases12 m; vm_compute; reflexivity.
Qed.

Lemma YD_length md y : Z.of_nat (length (YD md y)) = ylen md y.
Proof. unfold YD. rewrite year_days_length. apply get_days_in_year_spec. Qed.

(* the k-th day of year y is a valid date with the expected day number *)
Lemma YD_nth md y k : 1 <= k <= ylen md y -> exists m' d',
  nth_error (YD md y) (Z.to_nat (k - 1)) = Some (m', d') /\
  valid_cal md y m' d' = true /\ dn_cal md y m' d' = dby md y + k - 1.
Proof.
  intros Hk. destruct (proj1 (cal_from_ord_spec md y k)) as (m' & d' & E & V & D).
  { unfold valid_ord. lia. }
  exists m', d'. split; [|split; [exact V | rewrite D; unfold dn_ord; lia]].
  unfold YD. rewrite (nth_days_walk _ (year_months_nonneg md y)) by lia.
  unfold cal_from_ord in E. replace (k <? 1) with false in E by lia.
  destruct (walk_months (year_months md y) 1 k) as [[a b]|]; [|discriminate].
  injection E as -> ->. reflexivity.
Qed.

Lemma nth_error_rev {A} (l : list A) j : (j < length l)%nat ->
  nth_error (rev l) j = nth_error l (length l - 1 - j).
Proof.
  intros Hj. destruct l as [|a l]; [cbn in Hj; lia|].
  rewrite (nth_error_nth' (rev (a :: l)) a) by (rewrite rev_length; exact Hj).
  rewrite (nth_error_nth' (a :: l) a) by lia.
  rewrite rev_nth by exact Hj. f_equal. f_equal. lia.
Qed.

Lemma nth_error_firstn_lt {A} (l : list A) n j : (j < n)%nat -> nth_error (firstn n l) j = nth_error l j.
Proof.
  revert l j. induction n as [|n IH]; intros l j Hj; [lia|].
  destruct l as [|a l]; [destruct j; reflexivity|]. destruct j as [|j]; [reflexivity|].
  cbn [firstn nth_error]. apply IH. lia.
Qed.

(* ---------- counting search loops whose test reads the loop state ---------- *)
Section ForCountInv.
  Context {E S R : Type} (body : S -> E -> exc (flow S R)) (Inv : S -> Prop) (cnt : S -> Z) (d k : Z)
          (upd : S -> E -> S) (hit : S -> E -> flow S R).
  Hypothesis Hd : d <> 0.
  Hypothesis Hbody : forall s x, Inv s ->
    body s x = Ok (if cnt s + d =? k then hit s x else Next (upd s x)).
  Hypothesis Hupd : forall s x, Inv s -> Inv (upd s x) /\ cnt (upd s x) = cnt s + d.
  Hypothesis Hhit : forall s x, match hit s x with Next _ => False | _ => True end.

  Lemma for_count_hit : forall l s j x, Inv s -> nth_error l j = Some x ->
    cnt s + d * (Z.of_nat j + 1) = k ->
    exists s', for_flow l body s = Ok (hit s' x) /\ Inv s' /\ cnt s' + d = k.
  Proof using All.
    induction l as [|a l IH]; intros s j x Hi Hn Hk; [destruct j; discriminate|].
    rewrite for_flow_cons, Hbody by exact Hi. destruct j as [|j].
    - cbn in Hn. injection Hn as ->. replace (cnt s + d =? k) with true by lia.
      cbn [ebind]. exists s. split; [|split; [exact Hi | lia]].
      specialize (Hhit s x). destruct (hit s x); [tauto | reflexivity | reflexivity].
    - replace (cnt s + d =? k) with false by nia. cbn [ebind].
      destruct (Hupd s a Hi) as [Hi' Hc]. apply (IH _ j x Hi' Hn). rewrite Hc. lia.
  Qed.

  Lemma for_count_miss : forall l s, Inv s ->
    (forall j, (j < length l)%nat -> cnt s + d * (Z.of_nat j + 1) <> k) ->
    exists s', for_flow l body s = Ok (Next s') /\ Inv s' /\ cnt s' = cnt s + d * Z.of_nat (length l).
  Proof using All.
    induction l as [|a l IH]; intros s Hi Hm.
    - exists s. split; [reflexivity | split; [exact Hi | cbn [length]; lia]].
    - rewrite for_flow_cons, Hbody by exact Hi.
      assert (cnt s + d =? k = false) as ->.
      { specialize (Hm 0%nat ltac:(cbn; lia)). lia. }
      cbn [ebind]. destruct (Hupd s a Hi) as [Hi' Hc].
      destruct (IH (upd s a) Hi') as (s' & Ef & I' & C').
      { intros j Hj. rewrite Hc. specialize (Hm (Datatypes.S j) ltac:(cbn [length]; lia)). lia. }
      exists s'. split; [exact Ef | split; [exact I'|]]. rewrite C', Hc. cbn [length]. lia.
  Qed.
End ForCountInv.

(* ---------- the year-by-year `while` loops ---------- *)
Section FwdWhile.
  Context (md : mode) (o : pyTimePoint) (d : Z)
    (cond : option Z * Z * pyTimePoint -> exc bool)
    (body : option Z * Z * pyTimePoint -> exc (flow (option Z * Z * pyTimePoint) pyTimePoint)).
  Hypothesis Hcond : forall Y n, cond (Some Y, n, o) = Ok (negb (n =? d)).
  Hypothesis Hhit : forall Y n, n < d -> d - n <= ylen md (Y + 1) -> exists m' d',
    body (Some Y, n, o) = Ok (Retn (set_cal o (Y + 1) m' d')) /\
    valid_cal md (Y + 1) m' d' = true /\ dn_cal md (Y + 1) m' d' = dby md (Y + 1) + (d - n) - 1.
  Hypothesis Hmiss : forall Y n, n < d -> ylen md (Y + 1) < d - n ->
    body (Some Y, n, o) = Ok (Next (Some (Y + 1), n + ylen md (Y + 1), o)).

  Lemma fwd_while : forall fuel Y n, n < d -> (Z.to_nat ((d - n) / 360 + 1) <= fuel)%nat ->
    exists y' m' d', while_flow fuel cond body (Some Y, n, o) = Ok (Retn (set_cal o y' m' d')) /\
      valid_cal md y' m' d' = true /\ dn_cal md y' m' d' = dby md (Y + 1) + (d - n) - 1.
  Proof using All.
    induction fuel as [|fuel IH]; intros Y n Hn Hf; [lia|].
    cbn [while_flow]. rewrite Hcond. replace (n =? d) with false by lia. cbn [negb ebind].
    pose proof (ylen_bounds md (Y + 1)) as HL.
    destruct (Z_le_gt_dec (d - n) (ylen md (Y + 1))) as [Hle | Hgt].
    - destruct (Hhit Y n Hn Hle) as (m' & d' & E & V & D). rewrite E. cbn [ebind].
      exists (Y + 1), m', d'. repeat split; assumption.
    - rewrite (Hmiss Y n Hn ltac:(lia)). cbn [ebind].
      destruct (IH (Y + 1) (n + ylen md (Y + 1)) ltac:(lia) ltac:(lia)) as (y' & m' & d' & E & V & D).
      exists y', m', d'. split; [exact E | split; [exact V|]]. rewrite D, (dby_succ md (Y + 1)). lia.
  Qed.
End FwdWhile.

Section BwdWhile.
  Context (md : mode) (d : Z)
    (cond : option Z * option Z * option Z * Z -> exc bool)
    (body : option Z * option Z * option Z * Z ->
            exc (flow (option Z * option Z * option Z * Z) Empty_set)).
  Hypothesis Hcond : forall Y mo da n, cond (Y, mo, da, n) = Ok (negb (n =? d)).
  Hypothesis Hhit : forall Y mo da n, d < n -> n - d <= ylen md (Y - 1) -> exists m' d',
    body (Some Y, mo, da, n) = Ok (Next (Some (Y - 1), Some m', Some d', d)) /\
    valid_cal md (Y - 1) m' d' = true /\ dn_cal md (Y - 1) m' d' = dby md Y - (n - d).
  Hypothesis Hmiss : forall Y mo da n, d < n -> ylen md (Y - 1) < n - d -> exists mo' da',
    body (Some Y, mo, da, n) = Ok (Next (Some (Y - 1), mo', da', n - ylen md (Y - 1))).

  Lemma bwd_while : forall fuel Y mo da n, d < n -> (Z.to_nat ((n - d) / 360 + 1) <= fuel)%nat ->
    exists y' m' d', while_flow fuel cond body (Some Y, mo, da, n) = Ok (Next (Some y', Some m', Some d', d)) /\
      valid_cal md y' m' d' = true /\ dn_cal md y' m' d' = dby md Y - (n - d).
  Proof using All.
    induction fuel as [|fuel IH]; intros Y mo da n Hn Hf; [lia|].
    cbn [while_flow]. rewrite Hcond. replace (n =? d) with false by lia. cbn [negb ebind].
    pose proof (ylen_bounds md (Y - 1)) as HL.
    pose proof (dby_succ md (Y - 1)) as HS. replace (Y - 1 + 1) with Y in HS by lia.
    destruct (Z_le_gt_dec (n - d) (ylen md (Y - 1))) as [Hle | Hgt].
    - destruct (Hhit Y mo da n Hn Hle) as (m' & d' & E & V & D). rewrite E. cbn [ebind].
      exists (Y - 1), m', d'. split; [|split; assumption].
      destruct fuel; cbn [while_flow]; rewrite Hcond, Z.eqb_refl; reflexivity.
    - destruct (Hmiss Y mo da n Hn ltac:(lia)) as (mo' & da' & E). rewrite E. cbn [ebind].
      destruct (IH (Y - 1) mo' da' (n - ylen md (Y - 1)) ltac:(lia) ltac:(lia)) as (y' & m' & d' & E' & V & D).
      exists y', m', d'. split; [exact E' | split; [exact V|]]. rewrite D. lia.
  Qed.
End BwdWhile.

(* ---------- the model ---------- *)
Lemma tick_dom_eq md y m d y' m' d' : 1 <= m <= 12 ->
  valid_cal md y' m' d' = true -> dn_cal md y' m' d' = dn_cal md y m d ->
  tick_dom md (y, m, d) = (y', m', d').
Proof.
  intros Hm V D. destruct (tick_dom md (y, m, d)) as [[a b] c] eqn:E.
  destruct (tick_dom_spec md y m d Hm a b c E) as [V' D'].
  apply (dn_cal_inj md); [exact V' | exact V | congruence].
Qed.

Lemma months_getitem md m : 1 <= m <= 12 ->
  py_getitem (DAYS_IN_MONTHS md) (m - 1) = Ok (znth (DAYS_IN_MONTHS md) (m - 1)) /\
  py_getitem (DAYS_IN_MONTHS_LEAP md) (m - 1) = Ok (znth (DAYS_IN_MONTHS_LEAP md) (m - 1)).
Proof.
  intros Hm. unfold py_getitem, znth.
  assert (L : length (DAYS_IN_MONTHS md) = 12%nat /\ length (DAYS_IN_MONTHS_LEAP md) = 12%nat)
    by (destruct md; split; reflexivity).
  destruct L as [-> ->]. change (Z.of_nat 12) with 12.
  replace ((0 <=? m - 1) && (m - 1 <? 12)) with true by lia. split; reflexivity.
Qed.

(* ---------- the object state ---------- *)
Lemma set_cal_same o y m d :
  s_year o = Some y -> s_month_of_year o = Some m -> s_day_of_month o = Some d -> set_cal o y m d = o.
Proof. destruct o; cbn; intros -> -> ->; reflexivity. Qed.

Lemma set_cal_month_day o y m d : s_year o = Some y ->
  set_day_of_month (set_month_of_year o (Some m)) (Some d) = set_cal o y m d.
Proof. destruct o; cbn; intros ->; reflexivity. Qed.

Lemma cum_prev_bounds md y m : 1 <= m <= 12 ->
  0 <= cum md y (m - 1) /\ cum md y (m - 1) + mlen md y m <= ylen md y /\ 28 <= mlen md y m <= 31.
Proof.
  intros Hm. pose proof (cum_step md y m Hm). pose proof (cum_mono md y m 12 ltac:(lia)).
  pose proof (cum_mono md y 0 (m - 1) ltac:(lia)). rewrite cum_0, cum_12 in *.
  pose proof (mlen_bounds md y m Hm). lia.
Qed.

Lemma if_ok {A} (b : bool) (x z : A) : (if b then Ok x else Ok z) = Ok (if b then x else z).
Proof. destruct b; reflexivity. Qed.

(* ---------- the method ---------- *)
Lemma gen4_tick_over_day_of_month md o y m d fuel :
  s_year o = Some y -> s_month_of_year o = Some m -> s_day_of_month o = Some d ->
  1 <= m <= 12 -> (Z.to_nat (Z.abs d / 28 + 2) <= fuel)%nat ->
  py_TimePoint__tick_over_day_of_month fuel (cal_of md) o =
  Ok (let '(y', m', d') := tick_dom md (y, m, d) in set_cal o y' m' d').
Proof.
  intros Hy Hmo Hd Hm Hf.
  unfold py_TimePoint__tick_over_day_of_month. code4_helpers. cal4 md. rewrite Hd, Hy, Hmo.
  cbn [need ebind].
  pose proof (cum_prev_bounds md y m Hm) as (Hc0 & Hc1 & Hml).
  pose proof (YD_length md y) as HLy.
  destruct (d <? 1) eqn:Ed.
  - rewrite gen_zzzT_eq, cum_months_spec by lia.
    set (c := cum md y (m - 1)) in *.
    assert (HL : length (firstn (Z.to_nat c + 1) (YD md y)) = (Z.to_nat c + 1)%nat).
    { rewrite firstn_length. lia. }
    destruct (Z_le_gt_dec 1 (c + d)) as [Hin | Hout].
    + destruct (YD_nth md y (c + d) ltac:(lia)) as (m' & d' & Hn & V & D).
      match goal with |- context [for_flow ?ll ?bb ?ss] =>
        destruct (for_count_hit bb (fun s => snd s = o) fst (-1) d
                    (fun s x => (fst s - 1, snd s))
                    (fun s x => Brk (fst s - 1, set_day_of_month (set_month_of_year (snd s) (Some (fst x))) (Some (snd x)))))
          with (l := ll) (s := ss) (j := Z.to_nat (1 - d)) (x := (m', d')) as (s' & E & I & C) end.
      * lia.
      * intros [n o'] [a b] I; cbn [fst snd] in *; subst o'. rewrite Hd. unfold opt_eqb.
        eqb_cases.
      * intros [n o'] x I. cbn [fst snd] in *. split; [exact I | lia].
      * intros; exact Logic.I.
      * reflexivity.
      * rewrite nth_error_rev by lia. rewrite HL. rewrite nth_error_firstn_lt by lia.
        rewrite <- Hn. f_equal. lia.
      * cbn [fst]. lia.
      * rewrite E. cbn [ebind]. destruct s' as [n' o']. cbn [fst snd] in *. subst o'.
        rewrite (tick_dom_eq md y m d y m' d' Hm V) by (rewrite D; unfold dn_cal; lia).
        rewrite (set_cal_month_day o y) by exact Hy. reflexivity.
    + match goal with |- context [for_flow ?ll ?bb ?ss] =>
        destruct (for_count_miss bb (fun s => snd s = o) fst (-1) d
                    (fun s x => (fst s - 1, snd s))
                    (fun s x => Brk (fst s - 1, set_day_of_month (set_month_of_year (snd s) (Some (fst x))) (Some (snd x)))))
          with (l := ll) (s := ss) as (s' & E & I & C) end.
      * lia.
      * intros [n o'] [a b] I; cbn [fst snd] in *; subst o'. rewrite Hd. unfold opt_eqb.
        eqb_cases.
      * intros [n o'] x I. cbn [fst snd] in *. split; [exact I | lia].
      * intros; exact Logic.I.
      * reflexivity.
      * intros j Hj. rewrite rev_length, HL in Hj. cbn [fst]. lia.
      * rewrite E. cbn [ebind]. destruct s' as [n' o']. cbn [fst snd] in *. subst o'.
        rewrite rev_length, HL in C. rewrite Hy.
        match goal with |- context [while_flow fuel ?cc ?bb ?ss] =>
          destruct (bwd_while md d cc bb) with (fuel := fuel) (Y := y) (mo := @None Z) (da := @None Z) (n := n')
            as (y' & m' & d' & E' & V & D) end.
        -- intros Y mo da n. cbv beta iota. rewrite Hd. reflexivity.
        -- intros Y mo da n Hn Hle. cbv beta iota. cbn [need ebind].
           rewrite gen_iter_months_days_rev_eq. fold (YD md (Y - 1)).
           pose proof (YD_length md (Y - 1)) as HLY.
           destruct (YD_nth md (Y - 1) (ylen md (Y - 1) - (n - d) + 1) ltac:(lia)) as (m' & d' & Hnth & V & D).
           exists m', d'.
           match goal with |- context [for_flow ?ll ?bb ?ss] =>
             destruct (for_count_hit bb (fun _ => True) (fun s => fst (fst s)) (-1) d
                    (fun s x => (fst (fst s) - 1, Some (fst x), Some (snd x)))
                    (fun s x => Brk (fst (fst s) - 1, Some (fst x), Some (snd x))))
             with (l := ll) (s := ss) (j := Z.to_nat (n - d - 1)) (x := (m', d')) as (s' & E' & _ & C') end.
           ++ lia.
           ++ intros [[k mo'] da'] [a b] _. cbn [fst snd]. rewrite Hd. unfold opt_eqb.
              eqb_cases.
           ++ intros [[k mo'] da'] x _. cbn [fst snd]. split; [exact Logic.I | lia].
           ++ intros; exact Logic.I.
           ++ exact Logic.I.
           ++ rewrite nth_error_rev by lia. rewrite <- Hnth. f_equal. lia.
           ++ cbn [fst]. lia.
           ++ rewrite E'. cbn [ebind fst snd]. split; [|split; [exact V|]].
              ** replace (fst (fst s') - 1) with d by lia. reflexivity.
              ** rewrite D. pose proof (dby_succ md (Y - 1)) as HS.
                 replace (Y - 1 + 1) with Y in HS by lia. lia.
        -- intros Y mo da n Hn Hgt. cbv beta iota. cbn [need ebind].
           rewrite gen_iter_months_days_rev_eq. fold (YD md (Y - 1)).
           pose proof (YD_length md (Y - 1)) as HLY.
           match goal with |- context [for_flow ?ll ?bb ?ss] =>
             destruct (for_count_miss bb (fun _ => True) (fun s => fst (fst s)) (-1) d
                    (fun s x => (fst (fst s) - 1, Some (fst x), Some (snd x)))
                    (fun s x => Brk (fst (fst s) - 1, Some (fst x), Some (snd x))))
             with (l := ll) (s := ss) as (s' & E' & _ & C') end.
           ++ lia.
           ++ intros [[k mo'] da'] [a b] _. cbn [fst snd]. rewrite Hd. unfold opt_eqb.
              eqb_cases.
           ++ intros [[k mo'] da'] x _. cbn [fst snd]. split; [exact Logic.I | lia].
           ++ intros; exact Logic.I.
           ++ exact Logic.I.
           ++ intros j Hj. rewrite rev_length in Hj. cbn [fst]. lia.
           ++ rewrite E'. cbn [ebind]. destruct s' as [[k mo'] da']. cbn [fst snd] in C'.
              rewrite rev_length in C'. exists mo', da'. do 3 f_equal. lia.
        -- lia.
        -- lia.
        -- rewrite E'. cbn [ebind].
           rewrite (tick_dom_eq md y m d y' m' d' Hm V) by (rewrite D; unfold dn_cal; lia).
           reflexivity.
  - unfold py_mod_Z. change (12 =? 0) with false. cbv iota. cbn [ebind].
    rewrite Z.mod_small by lia.
    destruct (months_getitem md m Hm) as [G1 G2]. rewrite G1, G2. cbn [ebind].
    rewrite if_ok, gen_get_is_leap_year_eq. cbn [ebind].
    assert (HG : (if get_is_leap_year y then znth (DAYS_IN_MONTHS_LEAP md) (m - 1)
                  else znth (DAYS_IN_MONTHS md) (m - 1)) = mlen md y m).
    { rewrite <- get_days_in_month_spec by exact Hm. unfold get_days_in_month, year_months.
      destruct (get_is_leap_year y); reflexivity. }
    rewrite HG. clear HG G1 G2.
    destruct (mlen md y m <? d) eqn:Emax.
    + rewrite gen_zzzF_eq, cum_months_spec by lia.
      set (c := cum md y (m - 1)) in *.
      destruct (Z_le_gt_dec (c + d) (ylen md y)) as [Hin | Hout].
      * destruct (YD_nth md y (c + d) ltac:(lia)) as (m' & d' & Hn & V & D).
        match goal with |- context [for_flow ?ll ?bb ?ss] =>
          destruct (for_count_hit bb (fun s => snd s = o) fst 1 d
                      (fun s x => (fst s + 1, snd s))
                      (fun s x => Brk (fst s + 1, set_day_of_month (set_month_of_year (snd s) (Some (fst x))) (Some (snd x)))))
            with (l := ll) (s := ss) (j := Z.to_nat (d - 1)) (x := (m', d')) as (s' & E & I & C) end.
        -- lia.
        -- intros [n o'] [a b] I; cbn [fst snd] in *; subst o'. rewrite Hd. unfold opt_eqb.
           eqb_cases.
        -- intros [n o'] x I. cbn [fst snd] in *. split; [exact I | lia].
        -- intros; exact Logic.I.
        -- reflexivity.
        -- rewrite nth_error_skipn_add. rewrite <- Hn. f_equal. lia.
        -- cbn [fst]. lia.
        -- rewrite E. cbn [ebind]. destruct s' as [n' o']. cbn [fst snd] in *. subst o'.
           rewrite (tick_dom_eq md y m d y m' d' Hm V) by (rewrite D; unfold dn_cal; lia).
           rewrite (set_cal_month_day o y) by exact Hy. reflexivity.
      * assert (HLs : Z.of_nat (length (skipn (Z.to_nat c) (YD md y))) = ylen md y - c).
        { rewrite skipn_length. lia. }
        match goal with |- context [for_flow ?ll ?bb ?ss] =>
          destruct (for_count_miss bb (fun s => snd s = o) fst 1 d
                      (fun s x => (fst s + 1, snd s))
                      (fun s x => Brk (fst s + 1, set_day_of_month (set_month_of_year (snd s) (Some (fst x))) (Some (snd x)))))
            with (l := ll) (s := ss) as (s' & E & I & C) end.
        -- lia.
        -- intros [n o'] [a b] I; cbn [fst snd] in *; subst o'. rewrite Hd. unfold opt_eqb.
           eqb_cases.
        -- intros [n o'] x I. cbn [fst snd] in *. split; [exact I | lia].
        -- intros; exact Logic.I.
        -- reflexivity.
        -- intros j Hj. cbn [fst]. lia.
        -- rewrite E. cbn [ebind]. destruct s' as [n' o']. cbn [fst snd] in *. subst o'.
           rewrite Hy.
           match goal with |- context [while_flow fuel ?cc ?bb ?ss] =>
             destruct (fwd_while md o d cc bb) with (fuel := fuel) (Y := y) (n := n')
               as (y' & m' & d' & E' & V & D) end.
           ++ intros Y n. cbv beta iota. rewrite Hd. reflexivity.
           ++ intros Y n Hn Hle. cbv beta iota. cbn [need ebind].
              rewrite gen_iter_months_days_eq. fold (YD md (Y + 1)).
              pose proof (YD_length md (Y + 1)) as HLY.
              destruct (YD_nth md (Y + 1) (d - n) ltac:(lia)) as (m' & d' & Hnth & V & D).
              exists m', d'.
              match goal with |- context [for_flow ?ll ?bb ?ss] =>
                destruct (for_count_hit bb (fun s => snd s = o) fst 1 d
                      (fun s x => (fst s + 1, snd s))
                      (fun s x => Retn (set_day_of_month (set_month_of_year (set_year (snd s) (Some (Y + 1))) (Some (fst x))) (Some (snd x)))))
                with (l := ll) (s := ss) (j := Z.to_nat (d - n - 1)) (x := (m', d')) as (s' & E' & I' & C') end.
              ** lia.
              ** intros [k o'] [a b] I'; cbn [fst snd] in *; subst o'. rewrite Hd. unfold opt_eqb.
                 eqb_cases.
              ** intros [k o'] x I'. cbn [fst snd] in *. split; [exact I' | lia].
              ** intros; exact Logic.I.
              ** reflexivity.
              ** rewrite <- Hnth. f_equal; lia.
              ** cbn [fst]. lia.
              ** rewrite E'. cbn [ebind]. destruct s' as [k o']. cbn [fst snd] in *. subst o'.
                 split; [reflexivity | split; [exact V | rewrite D; lia]].
           ++ intros Y n Hn Hgt. cbv beta iota. cbn [need ebind].
              rewrite gen_iter_months_days_eq. fold (YD md (Y + 1)).
              pose proof (YD_length md (Y + 1)) as HLY.
              match goal with |- context [for_flow ?ll ?bb ?ss] =>
                destruct (for_count_miss bb (fun s => snd s = o) fst 1 d
                      (fun s x => (fst s + 1, snd s))
                      (fun s x => Retn (set_day_of_month (set_month_of_year (set_year (snd s) (Some (Y + 1))) (Some (fst x))) (Some (snd x)))))
                with (l := ll) (s := ss) as (s' & E' & I' & C') end.
              ** lia.
              ** intros [k o'] [a b] I'; cbn [fst snd] in *; subst o'. rewrite Hd. unfold opt_eqb.
                 eqb_cases.
              ** intros [k o'] x I'. cbn [fst snd] in *. split; [exact I' | lia].
              ** intros; exact Logic.I.
              ** reflexivity.
              ** intros j Hj. cbn [fst]. lia.
              ** rewrite E'. cbn [ebind]. destruct s' as [k o']. cbn [fst snd] in *. subst o'.
                 replace k with (n + ylen md (Y + 1)) by lia. reflexivity.
           ++ lia.
           ++ lia.
           ++ rewrite E'. cbn [ebind].
              rewrite (tick_dom_eq md y m d y' m' d' Hm V)
                by (rewrite D, (dby_succ md y); unfold dn_cal; lia).
              reflexivity.
    + rewrite (tick_dom_eq md y m d y m d Hm) by (unfold valid_cal; lia || reflexivity).
      rewrite set_cal_same by assumption. reflexivity.
Qed.

Lemma gen4_tick_over_day_of_month_eq md o y m d fuel y' m' d' :
  s_year o = Some y -> s_month_of_year o = Some m -> s_day_of_month o = Some d ->
  1 <= m <= 12 -> (Z.to_nat (Z.abs d / 28 + 2) <= fuel)%nat ->
  tick_dom md (y, m, d) = (y', m', d') ->
  py_TimePoint__tick_over_day_of_month fuel (cal_of md) o = Ok (set_cal o y' m' d').
Proof.
  intros Hy Hmo Hd Hm Hf E.
  rewrite (gen4_tick_over_day_of_month md o y m d fuel Hy Hmo Hd Hm Hf), E. reflexivity.
Qed.

(* the result is the valid calendar date with the day number of (y, m, d) *)
Lemma gen4_tick_over_day_of_month_spec md o y m d fuel :
  s_year o = Some y -> s_month_of_year o = Some m -> s_day_of_month o = Some d ->
  1 <= m <= 12 -> (Z.to_nat (Z.abs d / 28 + 2) <= fuel)%nat ->
  exists y' m' d', py_TimePoint__tick_over_day_of_month fuel (cal_of md) o = Ok (set_cal o y' m' d') /\
    valid_cal md y' m' d' = true /\ dn_cal md y' m' d' = dn_cal md y m d.
Proof.
  intros Hy Hmo Hd Hm Hf. destruct (tick_dom md (y, m, d)) as [[y' m'] d'] eqn:E.
  exists y', m', d'. split; [exact (gen4_tick_over_day_of_month_eq md o y m d fuel y' m' d' Hy Hmo Hd Hm Hf E)|].
  exact (tick_dom_spec md y m d Hm y' m' d' E).
Qed.

Print Assumptions gen4_tick_over_day_of_month.
Print Assumptions gen4_tick_over_day_of_month_eq.
Print Assumptions gen4_tick_over_day_of_month_spec.
