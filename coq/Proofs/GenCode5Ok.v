(* Proofs/GenCode5Ok.v -- the method bodies of class TimeRecurrence that the
   translator read from data.py on this run (gen/GenCode5.v), with the abstract
   TimePoint / Duration operations instantiated by the model's functions
   (`mops md`), compute the hand-written model functions of Model/Recurrence.v
   and Model/RecText.v on every object state `rep r`.

   The proofs are semantic: unfold the generated code and the model function,
   case analysis on the option fields and on the results of the operations;
   loops by induction on the fuel.  They do not depend on local names, on how
   the Python code spells its conditionals, or on the order of independent
   statements. *)
From Coq Require Import ZArith QArith Qround List Bool String Lia.
From Iso Require Import Proofs.Tac Spec.Cal Spec.Instant Model.Num Model.Helpers Model.Duration
  Model.TimePoint Model.Recurrence Model.Dump Model.DurText Model.DriverText Model.RecText
  gen.GenCode5 Proofs.CmpSpec Proofs.RecSpec.
Import ListNotations.
Open Scope Z_scope.

Lemma gen_code5_accepted : translator_ok_code5 = true.
Proof. reflexivity. Qed.

(* ---------- the instantiation of the abstract operations ---------- *)
(* an operation of the model that has no answer = the Python operation raised *)
Definition lift {A : Type} (o : option A) : exc A :=
  match o with Some a => Ret a | None => Raise (OpError 0) end.
Definition of_dres (d : dres) : exc string :=
  match d with
  | DOk s => Ret s
  | DOverflow => Raise (OpError 1)
  | DUnmodelled => Raise (OpError 2)
  | DBounds | DSyntax | DErr | DBadInput => Raise ValueError
  end.
Definition of_tres (t : tres string) : exc string :=
  match t with
  | TOk s => Ret s
  | TUnmodelled => Raise (OpError 2)
  | TValueError | TSyntax | TBadInput => Raise ValueError
  end.
Definition tp_geb md a b : option bool :=
  match tp_cmp md a b with Some c => Some (cmp_op 4 c) | None => None end.

(* one definition per abstract operation: the model function it is instantiated with *)
Definition m_P_add (md : mode) := fun p d => lift (tp_add md p d).
Definition m_P_sub_dur (md : mode) := fun p d => lift (tp_sub_dur md p d).
Definition m_P_sub (md : mode) := fun a b => lift (tp_sub md a b).
Definition m_P_eq (md : mode) := fun a b => lift (tp_eqb md a b).
Definition m_P_lt (md : mode) := fun a b => lift (tp_ltb md a b).
Definition m_P_le (md : mode) := fun a b => lift (tp_leb md a b).
Definition m_P_gt (md : mode) := fun a b => lift (tp_gtb md a b).
Definition m_P_ge (md : mode) := fun a b => lift (tp_geb md a b).
Definition m_P_hash (md : mode) := fun p => lift (tp_hash_key md p).
Definition m_P_str (md : mode) := fun p => of_dres (do_str md 0 p).
Definition m_D_mul (md : mode) := fun (d : dur) (n : Z) => Ret (dur_mul d n).
Definition m_D_rmul (md : mode) := fun (d : dur) (n : Z) => Ret (dur_mul d n).
Definition m_D_sub (md : mode) := fun a b => Ret (dur_sub a b).
Definition m_D_eq (md : mode) := fun a b => Ret (dur_eqb a b).
Definition m_D_lt (md : mode) := fun a b => Ret (dur_ltb md a b).
Definition m_D_bool (md : mode) := fun d => Ret (dur_bool d).
Definition m_D_is_exact (md : mode) := fun d => Ret (is_exact d).
Definition m_D_get_seconds (md : mode) := fun d => Ret (get_seconds md d).
Definition m_D_of_years (md : mode) := fun n => Ret (dur_make n 0 0 0 0 0 0).
Definition m_D_of_seconds (md : mode) := fun n => Ret (dur_make 0 0 0 0 0 0 (qz n)).
Definition m_D_hash (md : mode) := fun d => Ret (dur_hash_key d).
Definition m_D_str (md : mode) := fun d => of_tres (dur_str d).
Definition m_Z_str (md : mode) := fun n => of_tres (int_str n).
Definition mops (md : mode) : rec_ops tp dur tp_key dur_key :=
  mkOps tp dur tp_key dur_key
    (m_P_add md)
    (m_P_sub_dur md)
    (m_P_sub md)
    (m_P_eq md)
    (m_P_lt md)
    (m_P_le md)
    (m_P_gt md)
    (m_P_ge md)
    (m_P_hash md)
    (m_P_str md)
    (m_D_mul md)
    (m_D_rmul md)
    (m_D_sub md)
    (m_D_eq md)
    (m_D_lt md)
    (m_D_bool md)
    (m_D_is_exact md)
    (m_D_get_seconds md)
    (m_D_of_years md)
    (m_D_of_seconds md)
    (m_D_hash md)
    (m_D_str md)
    (m_Z_str md).

(* project the instantiated operations (mops itself stays folded) *)
Ltac ops_unfold :=
  repeat match goal with
  | |- context [P_add (mops ?md)] => change (P_add (mops md)) with (m_P_add md)
  | |- context [P_sub_dur (mops ?md)] => change (P_sub_dur (mops md)) with (m_P_sub_dur md)
  | |- context [P_sub (mops ?md)] => change (P_sub (mops md)) with (m_P_sub md)
  | |- context [P_eq (mops ?md)] => change (P_eq (mops md)) with (m_P_eq md)
  | |- context [P_lt (mops ?md)] => change (P_lt (mops md)) with (m_P_lt md)
  | |- context [P_le (mops ?md)] => change (P_le (mops md)) with (m_P_le md)
  | |- context [P_gt (mops ?md)] => change (P_gt (mops md)) with (m_P_gt md)
  | |- context [P_ge (mops ?md)] => change (P_ge (mops md)) with (m_P_ge md)
  | |- context [P_hash (mops ?md)] => change (P_hash (mops md)) with (m_P_hash md)
  | |- context [P_str (mops ?md)] => change (P_str (mops md)) with (m_P_str md)
  | |- context [D_mul (mops ?md)] => change (D_mul (mops md)) with (m_D_mul md)
  | |- context [D_rmul (mops ?md)] => change (D_rmul (mops md)) with (m_D_rmul md)
  | |- context [D_sub (mops ?md)] => change (D_sub (mops md)) with (m_D_sub md)
  | |- context [D_eq (mops ?md)] => change (D_eq (mops md)) with (m_D_eq md)
  | |- context [D_lt (mops ?md)] => change (D_lt (mops md)) with (m_D_lt md)
  | |- context [D_bool (mops ?md)] => change (D_bool (mops md)) with (m_D_bool md)
  | |- context [D_is_exact (mops ?md)] => change (D_is_exact (mops md)) with (m_D_is_exact md)
  | |- context [D_get_seconds (mops ?md)] => change (D_get_seconds (mops md)) with (m_D_get_seconds md)
  | |- context [D_of_years (mops ?md)] => change (D_of_years (mops md)) with (m_D_of_years md)
  | |- context [D_of_seconds (mops ?md)] => change (D_of_seconds (mops md)) with (m_D_of_seconds md)
  | |- context [D_hash (mops ?md)] => change (D_hash (mops md)) with (m_D_hash md)
  | |- context [D_str (mops ?md)] => change (D_str (mops md)) with (m_D_str md)
  | |- context [Z_str (mops ?md)] => change (Z_str (mops md)) with (m_Z_str md)
  end;
  cbv beta delta [m_P_add m_P_sub_dur m_P_sub m_P_eq m_P_lt m_P_le m_P_gt m_P_ge m_P_hash m_P_str m_D_mul m_D_rmul m_D_sub m_D_eq m_D_lt m_D_bool m_D_is_exact m_D_get_seconds m_D_of_years m_D_of_seconds m_D_hash m_D_str m_Z_str].

(* ---------- object state <-> model value ---------- *)
Definition rep (r : recur) : pyRec tp dur :=
  mkRec5 (r_reps r) (r_start r) (r_dur r) (r_end r)
         (if r_fmt r =? 1 then Val (r_second r) else Unset) (Some (r_fmt r)) None None.

Definition abs5 (o : pyRec tp dur) : option recur :=
  match s_format_number o, s_min_point o, s_max_point o with
  | Some f, None, None =>
    Some (mkRec (s_repetitions o) (s_start_point o) (s_duration o) (s_end_point o)
                (match s_second_point o with Val v => v | Unset => None end) f)
  | _, _, _ => None
  end.

(* the records rec_make produces: format 1, 3 or 4; _second_point only in format 1 *)
Definition wf_rec (r : recur) : Prop :=
  (r_fmt r = 1 \/ r_fmt r = 3 \/ r_fmt r = 4) /\ (r_fmt r <> 1 -> r_second r = None).

Lemma abs5_rep r : wf_rec r -> abs5 (rep r) = Some r.
Proof.
  intros [_ H]. destruct r as [reps s d e sec f]. unfold rep, abs5. cbn.
  destruct (f =? 1) eqn:E; [reflexivity|]. cbn in H. rewrite H by lia. reflexivity.
Qed.

Lemma rec_make_wf md reps s d e r : rec_make md reps s d e = Ok r -> wf_rec r.
Proof.
  unfold rec_make, wf_rec. intros H.
  repeat match type of H with
  | Ok _ = Ok _ => injection H as <-; cbn; split; [lia | intros; try reflexivity; try lia]
  | Err = Ok _ => discriminate H
  | context [match ?x with _ => _ end] => destruct x
  end.
Qed.

(* ---------- how results are compared ---------- *)
(* a constructor-like method: returns the state of the model's record, or raises where the model says Err *)
Definition sim_res {A B : Type} (R : A -> B -> Prop) (m : exc A) (x : res B) : Prop :=
  match m, x with
  | Ret a, Ok b => R a b
  | Raise _, Err => True
  | _, _ => False
  end.
(* a query: the model's None stands for "the code raised" *)
Definition sim_opt {A : Type} (m : exc A) (x : option A) : Prop :=
  match m, x with
  | Ret a, Some b => a = b
  | Raise _, None => True
  | _, _ => False
  end.
(* the model folds an exception into the default answer dflt *)
Definition conflate {A : Type} (dflt : A) (m : exc A) (x : A) : Prop :=
  match m with Ret a => a = x | Raise _ => x = dflt | NoFuel => False end.
(* a fuelled scan whose steps the model folds: returns -> the model's Some; fuel ran out -> None;
   the code raised -> the model says None, or (an exception of a step folded) Some dflt *)
Definition scan_rel {A : Type} (dflt : A) (m : exc A) (x : option A) : Prop :=
  match m with
  | Ret a => x = Some a
  | NoFuel => x = None
  | Raise _ => x = None \/ x = Some dflt
  end.

(* ---------- tactics ---------- *)
Ltac run := code5_unfold; ops_unfold; code5_unfold; cbv beta iota delta [lift].
Ltac expose_cmp := unfold tp_eqb, tp_ltb, tp_gtb, tp_leb, tp_geb in *.
(* case analysis on whatever the code / the model branches on, innermost scrutinee first *)
Ltac strict_sub x :=
  match goal with |- context [match ?y with _ => _ end] =>
    lazymatch x with y => fail | context [y] => idtac end end.
Ltac crunch_step :=
  match goal with
  | |- context [match ?x with _ => _ end] =>
      tryif strict_sub x then fail else (first [is_var x; destruct x | destruct x eqn:?])
  end.
Ltac crunch := repeat (crunch_step; cbn [negb andb orb cmp_op CompOpp option_map]; try discriminate).
(* integer equality tests with the literal on the left (`1 == x`): literal to the right, as the model writes them *)
Ltac zeqb_norm :=
  repeat match goal with
  | |- context [Z.eqb (Zpos ?p) ?x] =>
    lazymatch x with Zpos _ => fail | Z0 => fail | Zneg _ => fail | _ => rewrite (Z.eqb_sym (Zpos p) x) end
  | |- context [Z.eqb Z0 ?x] =>
    lazymatch x with Zpos _ => fail | Z0 => fail | Zneg _ => fail | _ => rewrite (Z.eqb_sym Z0 x) end
  end.
(* what is left after the case analysis: trivial, or contradictory / equal by integer arithmetic *)
Ltac fin :=
  try exact Logic.I; try reflexivity; try congruence;
  try (exfalso; lia);
  try (repeat match goal with H : (_ =? _) = true |- _ => apply Z.eqb_eq in H; subst end;
       first [reflexivity | congruence]).

(* ---------- priority 1: _get_is_in_bounds ---------- *)
Lemma gen5_in_bounds md r p :
  py__get_is_in_bounds (mops md) (rep r) p = lift (in_bounds md r p).
Proof.
  destruct r as [reps s d e sec f]. unfold py__get_is_in_bounds, in_bounds, rep.
  cbn [r_start r_end r_reps r_dur r_second r_fmt]. run. expose_cmp.
  destruct p as [t|]; [|reflexivity]. cbn [negb].
  destruct s as [s|], e as [e|]; cbn [negb];
    repeat match goal with |- context [tp_cmp md ?a ?b] => destruct (tp_cmp md a b) as [[| |]|] end;
    reflexivity.
Qed.

(* the fields of a state `rep r`, without unfolding `rep` elsewhere *)
Ltac fields r :=
  change (s_repetitions (rep r)) with (r_reps r) in *;
  change (s_start_point (rep r)) with (r_start r) in *;
  change (s_duration (rep r)) with (r_dur r) in *;
  change (s_end_point (rep r)) with (r_end r) in *;
  change (s_second_point (rep r)) with (if r_fmt r =? 1 then Val (r_second r) else Unset) in *;
  change (s_format_number (rep r)) with (Some (r_fmt r)) in *;
  change (s_min_point (rep r)) with (@None tp) in *;
  change (s_max_point (rep r)) with (@None tp) in *.
Ltac pre := code5_prelude_unfold; ops_unfold; code5_prelude_unfold; cbv beta iota delta [lift]; zeqb_norm.
(* after `unfold` of the method at hand: unfold its helper callees (not the methods that have a lemma) *)
Ltac open_code r := fields r; repeat (progress (code5_helpers_unfold; fields r)); pre.

(* ---------- priority 2: get_next / get_prev ---------- *)
Lemma gen5_step md r (fwd : bool) p :
  conflate None (if fwd then py_get_next (mops md) (rep r) p else py_get_prev (mops md) (rep r) p)
           (step_point md r fwd p).
Proof.
  unfold step_point, zopt_eqb.
  destruct fwd; [unfold py_get_next | unfold py_get_prev]; open_code r;
    repeat (first [rewrite gen5_in_bounds | rewrite in_bounds_None | crunch_step];
            cbv beta iota delta [lift ebind]; cbn [orb negb]);
    cbn [conflate]; try reflexivity; try congruence.
Qed.

(* ---------- priority 1: __init__ ---------- *)
(* the one law of the point comparison that __init__ relies on: `end < start` (the code)
   against the three-way comparison of start with end (the model) *)
Definition cmp_law (md : mode) (a b : option tp) : Prop :=
  forall s e, a = Some s -> b = Some e -> tp_cmp md e s = option_map CompOpp (tp_cmp md s e).

Lemma cmp_law_valid md a b : opt_valid md a -> opt_valid md b -> cmp_law md a b.
Proof.
  intros Va Vb s e -> ->. cbn in Va, Vb.
  rewrite (tp_cmp_spec md s e Va Vb), (tp_cmp_spec md e s Vb Va). cbn [option_map].
  rewrite Qcompare_antisym. reflexivity.
Qed.

Ltac run_all := code5_unfold; ops_unfold; code5_unfold; cbv beta iota delta [lift]; zeqb_norm.

Lemma gen5_init md reps s d e : cmp_law md s e ->
  sim_res (fun o r => o = rep r) (py___init__ (mops md) reps s d e None None) (rec_make md reps s d e).
Proof.
  intros L. unfold py___init__, rec_make, zopt_eqb. run_all.
  change (dur_make 0 0 0 0 0 0 0) with dzero.
  destruct reps as [n|], s as [s|], d as [d|], e as [e|]; cbn [negb andb orb];
    expose_cmp; try rewrite (L _ _ eq_refl eq_refl);
    crunch; cbn [sim_res]; fin.
Qed.

Lemma gen5_get_next md r p : conflate None (py_get_next (mops md) (rep r) p) (get_next md r p).
Proof. exact (gen5_step md r true p). Qed.
Lemma gen5_get_prev md r p : conflate None (py_get_prev (mops md) (rep r) p) (get_prev md r p).
Proof. exact (gen5_step md r false p). Qed.

(* ---------- priority 2: __iter__ ---------- *)
(* the canonical form of the generator: which point it starts from, in which direction it steps,
   the single-point case, and the loop (bounds test, yield, step) under fuel f *)
Definition stepx md r (fwd : bool) (p : option tp) : exc (option tp) :=
  if fwd then py_get_next (mops md) (rep r) p else py_get_prev (mops md) (rep r) p.

Fixpoint canon_loop md r (fwd : bool) (f : nat) (p : option tp) : trace (option tp) unit :=
  match f with
  | O => TMore
  | S f' =>
    match p with
    | None => TRet tt
    | Some _ =>
      match in_bounds md r p with
      | None => TRaise (OpError 0)
      | Some false => TRet tt
      | Some true => TYield p (tlift (stepx md r fwd p) (fun q => canon_loop md r fwd f' q))
      end
    end
  end.

Definition iter_start (r : recur) : option tp * bool :=
  match r_start r with None => (r_end r, false) | Some _ => (r_start r, true) end.
Definition iter_single (r : recur) : bool := zopt_eqb (r_reps r) 1 || dur_falsy (r_dur r).
(* (with no fuel at all, whether the single-point case ends in TRet or TMore depends on whether the
   source still reaches its loop there; the canonical form is stated for f <> 0) *)
Definition canon_iter md r (f : nat) : trace (option tp) unit :=
  let '(p, fwd) := iter_start r in
  if iter_single r then
    match in_bounds md r p with
    | None => TRaise (OpError 0)
    | Some true => TYield p (TRet tt)
    | Some false => TRet tt
    end
  else canon_loop md r fwd f p.

(* the generated loop (whatever its step function looks like) is the canonical loop *)
Ltac iter_loop md r fwd :=
  match goal with
  | |- context [tbind (gen_while ?st _ _) ?k] =>
    let LOOP := fresh "LOOP" in
    assert (LOOP : forall f p, tbind (gen_while st f p) k = canon_loop md r fwd f p);
    [ let f := fresh "f" in let IH := fresh "IH" in
      induction f as [|f IH]; intros p; [reflexivity|];
      cbn [gen_while canon_loop];
      repeat (first [ rewrite gen5_in_bounds | rewrite IH | rewrite in_bounds_None
                    | progress cbn [tbind tlift lift stepx negb is_none] | crunch_step ]);
      try reflexivity; try congruence
    | rewrite ?LOOP ]
  end.

Lemma gen5_iter_canon md r f : f <> O -> py___iter__ (mops md) (rep r) f = canon_iter md r f.
Proof.
  intros Hf. destruct f as [|f]; [congruence|clear Hf].
  unfold py___iter__, canon_iter, iter_start, iter_single, zopt_eqb, dur_falsy. open_code r.
  assert (CN : forall fw f0, canon_loop md r fw (S f0) None = TRet tt) by reflexivity.
  destruct (r_start r) as [s|] eqn:Es; cbn [negb];
    [iter_loop md r true | iter_loop md r false];
    rewrite ?CN, ?gen5_in_bounds;
    repeat (first [rewrite in_bounds_None | crunch_step]; cbv beta iota delta [lift]; cbn [negb orb]);
    try reflexivity; try congruence.
Qed.

(* the values a generator yields before it ends (or the fuel runs out) *)
Fixpoint tr_yields {Y X : Type} (t : trace Y X) : list Y :=
  match t with TYield y k => y :: tr_yields k | _ => [] end.

Lemma canon_loop_take md r fwd : forall k f p, (k <= f)%nat ->
  firstn k (tr_yields (canon_loop md r fwd f p)) = map Some (iter_from md r fwd k p).
Proof.
  induction k as [|k IH]; intros f p Hk; [reflexivity|].
  destruct f as [|f]; [lia|]. cbn [canon_loop iter_from].
  destruct p as [t|]; [|reflexivity].
  destruct (in_bounds md r (Some t)) as [[|]|]; try reflexivity.
  cbn [tr_yields firstn map]. f_equal.
  pose proof (gen5_step md r fwd (Some t)) as G. fold (stepx md r fwd (Some t)) in G.
  destruct (stepx md r fwd (Some t)) as [q|ex|]; cbn [conflate tlift] in *.
  - subst q. apply IH. lia.
  - rewrite G, iter_from_None. cbn [tr_yields]. destruct k; reflexivity.
  - contradiction.
Qed.

(* __iter__: the first k values the generator yields, for every k and every fuel >= k *)
Lemma gen5_iter md r k f : (k <= f)%nat ->
  firstn k (tr_yields (py___iter__ (mops md) (rep r) f)) = map Some (iter_take md r k).
Proof.
  intros Hk. destruct f as [|f].
  { assert (k = O) by lia. subst k. unfold iter_take. destruct (r_start r), (zopt_eqb _ _ || _); reflexivity. }
  rewrite gen5_iter_canon by congruence. unfold canon_iter, iter_take, iter_start, iter_single.
  destruct (r_start r) as [s|] eqn:Es;
    (destruct (zopt_eqb (r_reps r) 1 || dur_falsy (r_dur r)); [|apply canon_loop_take; exact Hk]).
  - destruct (in_bounds md r (Some s)) as [[|]|]; cbn [tr_yields];
      destruct k; cbn [firstn map]; rewrite ?firstn_nil; reflexivity.
  - destruct (r_end r) as [e|]; [|rewrite in_bounds_None];
      try destruct (in_bounds md r (Some e)) as [[|]|]; cbn [tr_yields];
      destruct k; cbn [firstn map]; rewrite ?firstn_nil; reflexivity.
Qed.

(* ---------- priority 2: __getitem__ ---------- *)
(* the n-th yielded value; Ret None = the generator finished before *)
Fixpoint tr_nth {Y X : Type} (t : trace Y X) (n : nat) : exc (option Y) :=
  match t with
  | TRet _ => Ret None
  | TRaise e => Raise e
  | TMore => NoFuel
  | TYield y k => match n with O => Ret (Some y) | S n' => tr_nth k n' end
  end.

(* `for i, y in enumerate(gen): if idx == i: return y` picks the idx-th yielded value *)
Lemma for_trace_nth {Y : Type} (idx : Z) (body : Z -> Y -> exc (option Y)) :
  (forall j y, body j y = Ret (if idx =? j then Some y else None)) ->
  forall (t : trace Y unit) i0, 0 <= i0 <= idx -> for_trace t i0 body = tr_nth t (Z.to_nat (idx - i0)).
Proof.
  intros HB. induction t as [x|y k IH|e|]; intros i0 Hi; cbn [for_trace tr_nth]; try reflexivity.
  rewrite HB. cbv beta iota delta [ebind]. destruct (idx =? i0) eqn:E.
  - assert (idx = i0) by lia. subst. rewrite Z.sub_diag. reflexivity.
  - rewrite IH by lia. replace (Z.to_nat (idx - i0)) with (S (Z.to_nat (idx - (i0 + 1)))) by lia.
    reflexivity.
Qed.

Definition nth_rel (m : exc (option (option tp))) (x : option tp) : Prop :=
  match m with
  | Ret (Some y) => y <> None /\ x = y
  | Ret None => x = None
  | Raise _ => x = None
  | NoFuel => False
  end.

Lemma nth_error_nil_tp (n : nat) : nth_error (@nil tp) n = None.
Proof. destruct n; reflexivity. Qed.

Lemma canon_loop_nth md r fwd : forall n f p, (n < f)%nat ->
  nth_rel (tr_nth (canon_loop md r fwd f p) n) (nth_error (iter_from md r fwd (S n) p) n).
Proof.
  induction n as [|n IH]; intros f p Hf; (destruct f as [|f]; [lia|]); cbn [canon_loop];
    (destruct p as [t|]; [rewrite ?iter_from_None; cbn [tr_nth nth_rel]; try apply nth_error_nil_tp|
                          rewrite iter_from_None; apply nth_error_nil_tp]);
    (destruct (in_bounds md r (Some t)) as [[|]|] eqn:EB;
     [rewrite (iter_from_in _ _ _ _ _ EB)
     | rewrite iter_from_out by congruence; apply nth_error_nil_tp
     | rewrite iter_from_out by congruence; apply nth_error_nil_tp]); cbn [tr_nth nth_error].
  - split; [discriminate|reflexivity].
  - pose proof (gen5_step md r fwd (Some t)) as G. fold (stepx md r fwd (Some t)) in G.
    destruct (stepx md r fwd (Some t)) as [q|ex|]; cbn [conflate tlift] in *.
    + subst q. apply IH. lia.
    + rewrite G, iter_from_None. cbn [tr_nth nth_rel]. apply nth_error_nil_tp.
    + contradiction.
Qed.

Lemma canon_iter_nth md r n f : (n < f)%nat ->
  nth_rel (tr_nth (canon_iter md r f) n) (nth_error (iter_take md r (S n)) n).
Proof.
  intros Hf. unfold canon_iter, iter_take, iter_start, iter_single.
  destruct (r_start r) as [s|] eqn:Es;
    (destruct (zopt_eqb (r_reps r) 1 || dur_falsy (r_dur r)); [|apply canon_loop_nth; exact Hf]).
  - destruct (in_bounds md r (Some s)) as [[|]|]; cbn [tr_nth nth_rel]; try apply nth_error_nil_tp.
    destruct n; cbn [nth_error nth_rel]; [split; [discriminate|reflexivity] | apply nth_error_nil_tp].
  - destruct (r_end r) as [e|]; [|rewrite in_bounds_None; cbn [tr_nth nth_rel]; apply nth_error_nil_tp].
    destruct (in_bounds md r (Some e)) as [[|]|]; cbn [tr_nth nth_rel]; try apply nth_error_nil_tp.
    destruct n; cbn [nth_error nth_rel]; [split; [discriminate|reflexivity] | apply nth_error_nil_tp].
Qed.

(* __getitem__: the point (never None), or IndexError / an exception of the iteration where the model has None *)
Definition getitem_rel (m : exc (option tp)) (x : option tp) : Prop :=
  match m with Ret q => q <> None /\ x = q | Raise _ => x = None | NoFuel => False end.

Lemma gen5_getitem md r i f : (Z.to_nat i < f)%nat ->
  getitem_rel (py___getitem__ (mops md) (rep r) i f) (rec_getitem md r i).
Proof.
  intros Hf. unfold py___getitem__, rec_getitem. open_code r. cbn [orb].
  destruct (i <? 0) eqn:Ei; [reflexivity|].
  rewrite (for_trace_nth i) by first [lia | intros; crunch; first [reflexivity | lia]].
  rewrite gen5_iter_canon by lia. rewrite Z.sub_0_r.
  pose proof (canon_iter_nth md r (Z.to_nat i) f Hf) as N.
  destruct (tr_nth (canon_iter md r f) (Z.to_nat i)) as [[y|]|ex|]; cbn [nth_rel getitem_rel] in *; assumption.
Qed.

(* ---------- priority 3: get_is_valid ---------- *)
(* one round of the scan of get_is_valid on a yielded point x: Some b = `return b`, None = next point *)
Definition valid_body md (r : recur) (t x : tp) : exc (option bool) :=
  match tp_cmp md x t with
  | None => Raise (OpError 0)
  | Some Eq => Ret (Some true)
  | Some c =>
    if match r_start r with None => cmp_op 1 c | Some _ => false end then Ret (Some false)
    else if match r_end r with None => cmp_op 3 c | Some _ => false end then Ret (Some false)
    else Ret None
  end.

Definition scan_rel0 (m : exc (option bool)) (x : option bool) : Prop :=
  match m with
  | Ret (Some b) => x = Some b
  | Ret None => x = Some false
  | NoFuel => x = None
  | Raise _ => x = None \/ x = Some false
  end.

Lemma valid_scan_None md r fwd t f : valid_scan md r fwd t f None = None \/ valid_scan md r fwd t f None = Some false.
Proof. destruct f; [left|right]; reflexivity. Qed.

Lemma canon_loop_valid md r fwd t (body : Z -> option tp -> exc (option bool)) :
  (forall j x, body j (Some x) = valid_body md r t x) ->
  forall f p i, scan_rel0 (for_trace (canon_loop md r fwd f p) i body) (valid_scan md r fwd t f p).
Proof.
  intros HB. induction f as [|f IH]; intros p i; [reflexivity|]. cbn [canon_loop valid_scan].
  destruct p as [x|]; [|reflexivity].
  destruct (in_bounds md r (Some x)) as [[|]|]; cbn [for_trace scan_rel0]; auto.
  rewrite HB. unfold valid_body.
  destruct (tp_cmp md x t) as [c|]; cbn [ebind scan_rel0]; auto.
  assert (K : scan_rel0 (for_trace (tlift (stepx md r fwd (Some x)) (fun q => canon_loop md r fwd f q)) (i + 1) body)
                        (valid_scan md r fwd t f (step_point md r fwd (Some x)))).
  { pose proof (gen5_step md r fwd (Some x)) as G. fold (stepx md r fwd (Some x)) in G.
    destruct (stepx md r fwd (Some x)) as [q|ex|]; cbn [conflate tlift] in *.
    - subst q. apply IH.
    - rewrite G. cbn [for_trace scan_rel0]. apply valid_scan_None.
    - contradiction. }
  destruct c; cbn [ebind scan_rel0]; try reflexivity;
    repeat (crunch_step; cbn [ebind scan_rel0 cmp_op]); try reflexivity; try exact K.
Qed.

Lemma gen5_get_is_valid md r t f : f <> O ->
  scan_rel false (py_get_is_valid (mops md) (rep r) t f) (get_is_valid md r t f).
Proof.
  intros Hf. unfold py_get_is_valid, get_is_valid. open_code r. rewrite gen5_in_bounds.
  destruct (in_bounds md r (Some t)) as [[|]|]; cbv beta iota delta [lift ebind]; cbn [negb scan_rel]; auto.
  rewrite gen5_iter_canon by exact Hf.
  match goal with |- context [for_trace _ 0 ?b] => set (body := b) end.
  assert (HB : forall j x, body j (Some x) = valid_body md r t x).
  { intros j x. unfold body, valid_body. expose_cmp.
    repeat (crunch_step; cbv beta iota delta [lift ebind]; cbn [cmp_op negb]); try reflexivity; try congruence. }
  unfold canon_iter, iter_start, iter_single.
  assert (FIN : forall p fwd, scan_rel false
            match for_trace (canon_loop md r fwd f p) 0 body with
            | Ret (Some x_) => Ret x_ | Ret None => Ret false | Raise e => Raise e | NoFuel => NoFuel end
            (valid_scan md r fwd t f p)).
  { intros p fwd. pose proof (canon_loop_valid md r fwd t body HB f p 0) as K.
    destruct (for_trace (canon_loop md r fwd f p) 0 body) as [[b|]|ex|]; cbn [scan_rel0 scan_rel] in *; exact K. }
  assert (ONE : forall x, in_bounds md r (Some x) = Some true -> scan_rel false
            match for_trace (TYield (Some x) (TRet tt)) 0 body with
            | Ret (Some x_) => Ret x_ | Ret None => Ret false | Raise e => Raise e | NoFuel => NoFuel end
            (tp_eqb md x t)).
  { intros x _. cbn [for_trace]. rewrite HB. unfold valid_body, tp_eqb.
    destruct (tp_cmp md x t) as [[| |]|]; cbn [ebind scan_rel cmp_op]; auto;
      repeat (crunch_step; cbn [ebind scan_rel for_trace]); auto. }
  destruct (r_start r) as [s|] eqn:Es;
    (destruct (zopt_eqb (r_reps r) 1 || dur_falsy (r_dur r)); [|apply FIN]).
  - destruct (in_bounds md r (Some s)) as [[|]|] eqn:EB; [apply ONE; exact EB | reflexivity | cbn; auto].
  - destruct (r_end r) as [e|]; [|rewrite in_bounds_None; reflexivity].
    destruct (in_bounds md r (Some e)) as [[|]|] eqn:EB; [apply ONE; exact EB | reflexivity | cbn; auto].
Qed.

(* ---------- priority 3: get_first_after ---------- *)
Definition loop_rel (m : exc (option tp + option tp)) (x : option (option tp)) : Prop :=
  match m with
  | Ret (inl c) => x = Some c
  | Ret (inr v) => x = Some v
  | NoFuel => x = None
  | Raise _ => x = None \/ x = Some None
  end.

Lemma first_after_scan_None md r t f :
  first_after_scan md r t f None = None \/ first_after_scan md r t f None = Some None.
Proof. destruct f; [left|right]; reflexivity. Qed.

(* a call of get_next in the goal: what the model's (folding) get_next says about it *)
Ltac next_case md r :=
  match goal with
  | |- context [py_get_next (mops md) (rep r) ?p] =>
    let G := fresh "G" in let q := fresh "q" in
    pose proof (gen5_step md r true p) as G; cbv beta iota in G;
    destruct (py_get_next (mops md) (rep r) p) as [q|?|]; cbn [conflate] in G;
    [subst q | rewrite ?G | contradiction]
  end.

Lemma Qfloor_since x l qf : Qfloor (Qred (x - qz qf * l)) = Qfloor (x - l * inject_Z qf).
Proof. apply Qfloor_comp. rewrite Qred_correct. unfold qz. ring. Qed.

Lemma gen5_get_first_after md r t f : r_start r <> None ->
  scan_rel None (py_get_first_after (mops md) (rep r) t f) (get_first_after md r t f).
Proof.
  intros Hs. unfold py_get_first_after, get_first_after. open_code r.
  match goal with
  | |- context [py_while ?st _ _] =>
    assert (LOOP : forall n cur, loop_rel (py_while st n cur) (first_after_scan md r t n cur))
  end.
  { clear Hs. induction n as [|n IH]; intros cur; [exact eq_refl|]. cbn [py_while first_after_scan].
    cbv beta iota delta [ebind lift]. unfold get_next in *.
    repeat (first [apply IH | next_case md r | crunch_step];
            cbv beta iota delta [ebind lift]; cbn [negb orb andb]);
      cbn [loop_rel]; auto using first_after_scan_None. }
  destruct (r_start r) as [s|] eqn:Es; [clear Hs|congruence].
  rewrite gen5_in_bounds.
  destruct (in_bounds md r (Some t)) as [[|]|]; cbv beta iota delta [lift]; cbn [scan_rel]; auto.
  - (* in bounds *)
    match goal with
    | |- context [py_while ?st _ _] =>
      assert (SCAN : scan_rel None
                match py_while st f (Some s) with
                | Ret (inl v) => Ret v | Ret (inr x_) => Ret x_ | Raise e => Raise e | NoFuel => NoFuel end
                (first_after_scan md r t f (Some s)));
      [ pose proof (LOOP f (Some s)) as K;
        destruct (py_while st f (Some s)) as [[c|v]|ex|]; cbn [loop_rel scan_rel] in *; exact K |]
    end.
    destruct (r_dur r) as [d|]; cbn [negb]; [|exact SCAN].
    destruct (is_exact d); [|exact SCAN]. clear SCAN LOOP.
    destruct (tp_sub md t s) as [delta|]; cbn [scan_rel]; auto.
    unfold py_divmod_Q, qeqb.
    destruct (Qeq_bool (get_seconds md d) 0); cbn [scan_rel]; auto.
    rewrite Qfloor_since.
    match goal with |- context [tp_add md t ?dd] => destruct (tp_add md t dd) as [nx|] end;
      [|rewrite in_bounds_None; cbn [scan_rel]; auto].
    rewrite gen5_in_bounds. destruct (in_bounds md r (Some nx)) as [[|]|]; cbn [lift scan_rel]; auto.
  - (* out of bounds: before the start? *)
    destruct (tp_ltb md t s) as [[|]|]; cbn [scan_rel]; auto.
Qed.

(* ---------- priority 4: __add__ / __sub__ ---------- *)
Lemma sim_res_eta {A B : Type} (R : A -> B -> Prop) (m : exc A) (x : res B) :
  sim_res R m x ->
  sim_res R (match m with Ret a => Ret a | Raise e => Raise e | NoFuel => NoFuel end) x.
Proof. destruct m; exact (fun H => H). Qed.

Lemma tp_props_eqb_refl x : tp_props_eqb x x = true.
Proof.
  destruct x as [[y m d|y d|y w d] [h mi s|h mi|h] [a b]]; unfold tp_props_eqb, qeqb;
    cbn [tdate ttod tzone zh zm]; rewrite ?Z.eqb_refl, ?Qeq_bool_refl; reflexivity.
Qed.
Lemma tp_cmp_refl md x : tp_cmp md x x = Some Eq.
Proof. unfold tp_cmp. rewrite tp_props_eqb_refl. reflexivity. Qed.

Lemma cmp_law_none_r md a : cmp_law md a None.
Proof. intros s e _ E. discriminate E. Qed.
Lemma cmp_law_none_l md b : cmp_law md None b.
Proof. intros s e E. discriminate E. Qed.
Lemma cmp_law_same md x : cmp_law md (Some x) (Some x).
Proof. intros s e E1 E2. injection E1 as <-. injection E2 as <-. rewrite tp_cmp_refl. reflexivity. Qed.

(* the shifted start and second point of a format-1 recurrence must satisfy the comparison law
   (they do whenever they are valid points: cmp_law_valid) *)
Definition add_law md (r : recur) (d : dur) : Prop :=
  r_fmt r = 1 -> forall s' e', opt_add md (r_start r) d = Some s' -> opt_add md (r_second r) d = Some e' ->
  cmp_law md s' e'.

(* case analysis that leaves the constructor call and the model's constructor alone *)
Ltac crunch_step_no_init :=
  match goal with
  | |- context [match ?x with _ => _ end] =>
      lazymatch x with py___init__ _ _ _ _ _ _ _ => fail | rec_make _ _ _ _ _ => fail | _ => idtac end;
      tryif strict_sub x then fail else (first [is_var x; destruct x | destruct x eqn:?])
  end.

Lemma gen5_add md r d : (r_fmt r = 1 \/ r_fmt r = 3 \/ r_fmt r = 4) -> add_law md r d ->
  sim_res (fun o r' => o = rep r') (py___add__ (mops md) (rep r) d) (rec_add md r d).
Proof.
  intros Hf L. unfold py___add__, rec_add. unfold add_law in L. unfold opt_add in *. open_code r.
  destruct Hf as [F|[F|F]]; rewrite F in *; cbn [Z.eqb Pos.eqb]; [specialize (L eq_refl)|clear L|clear L];
    repeat (crunch_step_no_init; cbv beta iota delta [lift]; cbn [negb sim_res]); try exact Logic.I;
    apply sim_res_eta, gen5_init;
    first [apply cmp_law_none_r | apply cmp_law_none_l | apply cmp_law_same | apply L; reflexivity].
Qed.

Lemma gen5_sub md r d : (r_fmt r = 1 \/ r_fmt r = 3 \/ r_fmt r = 4) -> add_law md r (dur_mul d (-1)) ->
  sim_res (fun o r' => o = rep r') (py___sub__ (mops md) (rep r) d) (rec_sub md r d).
Proof.
  intros Hf L. unfold py___sub__, rec_sub. open_code r. apply sim_res_eta, gen5_add; assumption.
Qed.

(* ---------- priority 4: __eq__ ---------- *)
Lemma gen5_eq md a b : conflate false (py___eq__ (mops md) (rep a) (rep b)) (rec_eqb md a b).
Proof.
  unfold py___eq__, rec_eqb, opt_z_eqb, opt_tp_eqb, opt_dur_eqb.
  fields a; fields b; repeat (progress (code5_helpers_unfold; fields a; fields b)); pre. expose_cmp.
  repeat (crunch_step; cbv beta iota delta [lift]; cbn [negb andb conflate]);
    try reflexivity; try congruence;
    repeat match goal with
    | H : negb ?x = true |- _ => apply negb_true_iff in H
    | H : negb ?x = false |- _ => apply negb_false_iff in H
    end;
    repeat match goal with H : ?x = ?v |- context [?x] => rewrite H end;
    cbn [andb]; rewrite ?andb_false_r; try reflexivity; try congruence.
Qed.

(* ---------- priority 4: the tuple __hash__ hashes ---------- *)
Definition hash_rel (m : exc (option Z * option tp_key * option tp_key * option dur_key * option tp_key * option tp_key))
           (x : option rec_key) : Prop :=
  match m with
  | Ret (reps, ks, ke, kd, kmin, kmax) => x = Some (mkRecKey reps ks ke kd kmin kmax)
  | Raise _ => x = None
  | NoFuel => False
  end.

Lemma gen5_hash md r : hash_rel (py___hash__ (mops md) (rep r)) (rec_hash_key md r).
Proof.
  unfold py___hash__, rec_hash_key, opt_tp_key. open_code r.
  repeat (crunch_step; cbv beta iota delta [lift]; cbn [hash_rel option_map]); try reflexivity; try congruence.
Qed.

(* ---------- priority 4: __str__ ---------- *)
(* OpError 2 = the text model of str(point) / str(duration) has no answer: no claim *)
Definition str_rel (m : exc string) (x : rtext) : Prop :=
  match m with
  | Ret s => x = RtOk s
  | Raise (OpError 1) => x = RtOverflow
  | Raise (OpError 2) => True
  | Raise ValueError => x = RtValue
  | _ => False
  end.

Lemma sapp_assoc5 (a b c : string) : ((a ++ b) ++ c = a ++ (b ++ c))%string.
Proof. induction a as [|ch a IH]; cbn; [reflexivity|]. rewrite IH. reflexivity. Qed.

Lemma gen5_str md r : str_rel (py___str__ (mops md) (rep r)) (rec_str md r).
Proof.
  unfold py___str__, rec_str, rec_prefix, duration_text, duration_text_unused, opt_point_text, rt_of_tres.
  open_code r. unfold of_tres, of_dres.
  repeat (crunch_step; cbv beta iota delta [lift rt_bind]; cbn [negb str_rel]);
    try exact Logic.I; try discriminate;
    rewrite ?sapp_assoc5; try reflexivity; try congruence.
Qed.

(* get_first_after on a recurrence without a start point (format 4, unbounded): outside the model's
   get_first_after (which answers None there).  The code never returns a point: it raises TypeError
   (None operand) or, for an in-bounds point and a nominal interval, returns None. *)
Lemma gen5_get_first_after_nostart md r t f : r_start r = None ->
  match py_get_first_after (mops md) (rep r) t f with Ret q => q = None | _ => True end /\
  get_first_after md r t f = None.
Proof.
  intros Es. split; [|unfold get_first_after; rewrite Es; reflexivity].
  unfold py_get_first_after. open_code r. rewrite Es, gen5_in_bounds.
  destruct (in_bounds md r (Some t)) as [[|]|]; cbv beta iota delta [lift]; auto.
  destruct (r_dur r) as [d|]; cbn [negb]; try destruct (is_exact d); auto;
    destruct f; cbn [py_while]; cbv beta iota delta [ebind]; cbn [negb]; auto.
Qed.

(* ---------- corollaries on valid points ---------- *)
Lemma gen5_init_valid md reps s d e : opt_valid md s -> opt_valid md e ->
  sim_res (fun o r => o = rep r) (py___init__ (mops md) reps s d e None None) (rec_make md reps s d e).
Proof. intros Vs Ve. apply gen5_init, cmp_law_valid; assumption. Qed.

Lemma add_law_valid md r d :
  (forall s', opt_add md (r_start r) d = Some s' -> opt_valid md s') ->
  (forall e', opt_add md (r_second r) d = Some e' -> opt_valid md e') -> add_law md r d.
Proof. intros Hs He _ s' e' E1 E2. apply cmp_law_valid; [apply Hs|apply He]; assumption. Qed.

(* the states __init__ produces are exactly the `rep` of what rec_make produces, and those denote a recur *)
Lemma gen5_state r : wf_rec r -> abs5 (rep r) = Some r.
Proof. exact (abs5_rep r). Qed.

(* ---------- printers and scenario for the closed Example of Props/C12Code.v ---------- *)
Local Open Scope string_scope.
Definition sh_exn (e : pyexn) : string :=
  match e with
  | TypeError => "TypeError" | ValueError => "ValueError" | AttributeError => "AttributeError"
  | IndexError => "IndexError" | ZeroDivisionError => "ZeroDivisionError"
  | UnboundLocalError => "UnboundLocalError" | BadInputError => "BadInputError" | OpError _ => "OpError"
  end.
Definition sh_exc {A : Type} (f : A -> string) (m : exc A) : string :=
  match m with Ret a => f a | Raise e => "raise " ++ sh_exn e | NoFuel => "nofuel" end.
Definition sh_o {A : Type} (f : A -> string) (o : option A) : string :=
  match o with Some a => f a | None => "None" end.
Definition sh_p (md : mode) (p : tp) : string := match do_str md 0 p with DOk s => s | _ => "?" end.
Definition sh_d (d : dur) : string := match dur_str d with TOk s => s | _ => "?" end.
Definition sh_b (b : bool) : string := if b then "True" else "False".
Definition sh_state (md : mode) (o : pyRec tp dur) : string :=
  String.concat "|" [sh_o show_Z (s_repetitions o); sh_o (sh_p md) (s_start_point o); sh_o sh_d (s_duration o);
                     sh_o (sh_p md) (s_end_point o);
                     match s_second_point o with Unset => "unset" | Val v => sh_o (sh_p md) v end;
                     sh_o show_Z (s_format_number o)].
Definition sh_pk (k : tp_key) : string :=
  let '(y, m, d, (h, mi, s)) := k in String.concat " " [show_Z y; show_Z m; show_Z d; show_Q h; show_Q mi; show_Q s].
Definition sh_dk (k : dur_key) : string :=
  let '(y, m, s) := k in String.concat " " [show_Z y; show_Z m; show_Q s].
Definition sh_hash (t : option Z * option tp_key * option tp_key * option dur_key * option tp_key * option tp_key)
  : string :=
  let '(a, b, c, d, e, f) := t in
  String.concat ";" [sh_o show_Z a; sh_o sh_pk b; sh_o sh_pk c; sh_o sh_dk d; sh_o sh_pk e; sh_o sh_pk f].
Definition sh_yields (md : mode) (k : nat) (t : trace (option tp) unit) : string :=
  String.concat "," (map (sh_o (sh_p md)) (firstn k (tr_yields t))).
(* run a method on the state a constructor call returns *)
Definition on_rec (m : exc (pyRec tp dur)) (f : pyRec tp dur -> string) : string :=
  match m with Ret o => f o | Raise e => "raise " ++ sh_exn e | NoFuel => "nofuel" end.

Definition ex_pt (y m d : Z) (h : Q) : tp := mkTp (Cal y m d) (HMS h 0 0) (mkZone 0 0).
Definition ex_init md reps s d e := py___init__ (mops md) reps s d e None None.
Definition ex_p0 := ex_pt 2000 1 1 0.
Definition ex_d1 := DU 0 0 1 0 0 0.
Definition ex_dm := DU 0 1 0 0 0 0.
Definition ex_r3 := ex_init G (Some 3) (Some ex_p0) (Some ex_d1) None.          (* R3/2000-01-01T00Z/P1D *)
Definition ex_ru := ex_init G None (Some ex_p0) (Some ex_dm) None.              (* R/2000-01-01T00Z/P1M *)
Definition ex_r4 := ex_init G (Some 3) None (Some ex_dm) (Some (ex_pt 2000 3 31 0)).  (* R3/P1M/2000-03-31T00Z *)
Definition ex_r1 := ex_init G (Some 3) (Some ex_p0) None (Some (ex_pt 2000 1 2 0)).   (* R3/2000-01-01T00Z/2000-01-02T00Z *)
Definition ex_rs := ex_init G None None (Some ex_dm) (Some (ex_pt 2000 3 31 0)).      (* R/P1M/2000-03-31T00Z *)

Definition ex_results : list string :=
  [ (* __init__ *)
    sh_exc (sh_state G) ex_r3; sh_exc (sh_state G) ex_r1; sh_exc (sh_state G) ex_r4; sh_exc (sh_state G) ex_ru;
    sh_exc (sh_state G) (ex_init G (Some 0) (Some ex_p0) (Some ex_d1) None);
    sh_exc (sh_state G) (ex_init G (Some 2) (Some ex_p0) (Some (DU 0 0 (-1) 0 0 0)) None);
    sh_exc (sh_state G) (ex_init G None None None None);
    sh_exc (sh_state G) (ex_init G (Some 5) (Some ex_p0) (Some dzero) None);
    sh_exc (sh_state G) (ex_init G None (Some (ex_pt 2000 1 2 0)) None (Some ex_p0));
    sh_exc (sh_state G) (ex_init G (Some 4) (Some ex_p0) None (Some ex_p0));
    sh_exc (sh_state D360) (ex_init D360 (Some 3) (Some (ex_pt 2000 2 30 0)) (Some ex_dm) None);
    (* __iter__ *)
    on_rec ex_r3 (fun o => sh_yields G 5 (py___iter__ (mops G) o 5));
    on_rec ex_ru (fun o => sh_yields G 4 (py___iter__ (mops G) o 4));
    on_rec ex_r4 (fun o => sh_yields G 5 (py___iter__ (mops G) o 5));
    on_rec ex_r1 (fun o => sh_yields G 5 (py___iter__ (mops G) o 5));
    (* __getitem__ *)
    on_rec ex_r3 (fun o => sh_exc (sh_o (sh_p G)) (py___getitem__ (mops G) o 2 10));
    on_rec ex_r3 (fun o => sh_exc (sh_o (sh_p G)) (py___getitem__ (mops G) o 3 10));
    on_rec ex_r3 (fun o => sh_exc (sh_o (sh_p G)) (py___getitem__ (mops G) o (-1) 10));
    on_rec ex_ru (fun o => sh_exc (sh_o (sh_p G)) (py___getitem__ (mops G) o 13 20));
    (* get_next / get_prev / _get_is_in_bounds *)
    on_rec ex_r3 (fun o => sh_exc (sh_o (sh_p G)) (py_get_next (mops G) o (Some (ex_pt 2000 1 2 0))));
    on_rec ex_r3 (fun o => sh_exc (sh_o (sh_p G)) (py_get_next (mops G) o (Some (ex_pt 2000 1 3 0))));
    on_rec ex_r3 (fun o => sh_exc (sh_o (sh_p G)) (py_get_prev (mops G) o (Some ex_p0)));
    on_rec ex_r3 (fun o => sh_exc (sh_o (sh_p G)) (py_get_prev (mops G) o None));
    on_rec ex_r3 (fun o => sh_exc sh_b (py__get_is_in_bounds (mops G) o (Some (ex_pt 2000 1 3 0))));
    on_rec ex_r3 (fun o => sh_exc sh_b (py__get_is_in_bounds (mops G) o (Some (ex_pt 2000 1 3 1))));
    on_rec ex_r3 (fun o => sh_exc sh_b (py__get_is_in_bounds (mops G) o None));
    (* get_is_valid *)
    on_rec ex_r3 (fun o => sh_exc sh_b (py_get_is_valid (mops G) o (ex_pt 2000 1 2 0) 10));
    on_rec ex_r3 (fun o => sh_exc sh_b (py_get_is_valid (mops G) o (ex_pt 2000 1 2 12) 10));
    on_rec ex_ru (fun o => sh_exc sh_b (py_get_is_valid (mops G) o (ex_pt 2001 5 1 0) 30));
    on_rec ex_ru (fun o => sh_exc sh_b (py_get_is_valid (mops G) o (ex_pt 2001 5 2 0) 30));
    on_rec ex_r4 (fun o => sh_exc sh_b (py_get_is_valid (mops G) o (ex_pt 2000 2 29 0) 10));
    on_rec ex_rs (fun o => sh_exc sh_b (py_get_is_valid (mops G) o (ex_pt 1999 12 29 0) 10));
    (* get_first_after *)
    on_rec ex_r3 (fun o => sh_exc (sh_o (sh_p G)) (py_get_first_after (mops G) o (ex_pt 2000 1 2 12) 10));
    on_rec ex_r3 (fun o => sh_exc (sh_o (sh_p G)) (py_get_first_after (mops G) o (ex_pt 1999 12 31 0) 10));
    on_rec ex_r3 (fun o => sh_exc (sh_o (sh_p G)) (py_get_first_after (mops G) o (ex_pt 2000 1 3 0) 10));
    on_rec ex_ru (fun o => sh_exc (sh_o (sh_p G)) (py_get_first_after (mops G) o (ex_pt 2000 1 15 0) 10));
    on_rec ex_rs (fun o => sh_exc (sh_o (sh_p G)) (py_get_first_after (mops G) o (ex_pt 2000 1 15 0) 10));
    on_rec ex_rs (fun o => sh_exc (sh_o (sh_p G)) (py_get_first_after (mops G) o (ex_pt 2000 4 15 0) 10));
    (* __add__ / __sub__ / __eq__ / __hash__ / __str__ *)
    on_rec ex_r3 (fun o => sh_exc (sh_state G) (py___add__ (mops G) o (DU 0 0 0 12 0 0)));
    on_rec ex_r1 (fun o => sh_exc (sh_state G) (py___add__ (mops G) o ex_dm));
    on_rec ex_r4 (fun o => sh_exc (sh_state G) (py___sub__ (mops G) o ex_d1));
    on_rec (ex_init G (Some 1) None (Some ex_d1) (Some ex_p0)) (fun o => sh_exc (sh_state G) (py___add__ (mops G) o ex_d1));
    on_rec ex_r3 (fun o => sh_exc sh_b (py___eq__ (mops G) o o));
    on_rec ex_r3 (fun o => on_rec ex_r1 (fun o' => sh_exc sh_b (py___eq__ (mops G) o o')));
    on_rec ex_r3 (fun o => on_rec ex_r4 (fun o' => sh_exc sh_b (py___eq__ (mops G) o o')));
    on_rec ex_r3 (fun o => sh_exc sh_hash (py___hash__ (mops G) o));
    on_rec ex_rs (fun o => sh_exc sh_hash (py___hash__ (mops G) o));
    on_rec ex_r3 (fun o => sh_exc (fun s => s) (py___str__ (mops G) o));
    on_rec ex_r1 (fun o => sh_exc (fun s => s) (py___str__ (mops G) o));
    on_rec ex_r4 (fun o => sh_exc (fun s => s) (py___str__ (mops G) o));
    on_rec ex_rs (fun o => sh_exc (fun s => s) (py___str__ (mops G) o));
    on_rec (ex_init G (Some 5) (Some ex_p0) (Some dzero) None) (fun o => sh_exc (fun s => s) (py___str__ (mops G) o)) ].
(* (evaluated in Props/C12Code.v against the values the real package returns) *)
