(* Proofs/TruncExtCal.v -- calendar facts behind the extended C20 theorems
   (Proofs/TruncExtSpec.v): the designator fields of a day number as functions
   of the day number alone, and for every designator value the constructor of a
   truncated point accepts, how far ahead the next day carrying it lies:
   weekday <= 6 days, day of month (incl. 29-31) <= 61 days, day of year (incl.
   366) <= 2927 days, week number (incl. 53; 52 in the 360-day calendar) <= 423
   weeks.  No model code in here. *)
From Coq Require Import List.
From Iso Require Import Proofs.Tac Spec.Cal Spec.NextMatch Model.Helpers Proofs.HelpersSpec Proofs.ConvSpec
  Proofs.NextMatchSpec.
Open Scope Z_scope.

(* ---------- the designator fields of a day number ---------- *)
Definition dowf (md : mode) (n : Z) : Z := let '(_, _, d) := week_of_dn md n in d.
Definition wkf (md : mode) (n : Z) : Z := let '(_, w, _) := week_of_dn md n in w.
Definition domf (md : mode) (n : Z) : Z := let '(_, _, d) := cal_of_dn md n in d.
Definition doyf (md : mode) (n : Z) : Z := snd (ord_of_dn md n).

Lemma day_matches_fields md s n :
  day_matches md s n = opt_match (ds_dow s) (dowf md n) && opt_match (ds_dom s) (domf md n) &&
                       opt_match (ds_doy s) (doyf md n) && opt_match (ds_week s) (wkf md n).
Proof.
  unfold day_matches, dowf, domf, doyf, wkf.
  destruct (cal_of_dn md n) as [[? ?] ?]. destruct (ord_of_dn md n) as [? ?].
  destruct (week_of_dn md n) as [[? ?] ?]. reflexivity.
Qed.

Lemma week_fields md wy w d : valid_week md wy w d = true ->
  wkf md (dn_week md wy w d) = w /\ dowf md (dn_week md wy w d) = d.
Proof.
  intros V. unfold wkf, dowf. pose proof (week_of_dn_spec md (dn_week md wy w d)) as H.
  destruct (week_of_dn md _) as [[a b] c]. destruct H as [V' E].
  pose proof (dn_week_inj md _ _ _ _ _ _ V' V E) as I. injection I as -> -> ->. auto.
Qed.
Lemma cal_field md y m d : valid_cal md y m d = true -> domf md (dn_cal md y m d) = d.
Proof.
  intros V. unfold domf. pose proof (cal_of_dn_spec md (dn_cal md y m d)) as H.
  destruct (cal_of_dn md _) as [[a b] c]. destruct H as [V' E].
  pose proof (dn_cal_inj md _ _ _ _ _ _ V' V E) as I. injection I as -> -> ->. reflexivity.
Qed.
Lemma ord_field md y d : valid_ord md y d = true -> doyf md (dn_ord md y d) = d.
Proof.
  intros V. unfold doyf. pose proof (ord_of_dn_spec md (dn_ord md y d)) as H.
  destruct (ord_of_dn md _) as [a b]. destruct H as [V' E].
  pose proof (dn_ord_inj md _ _ _ _ V' V E) as I. injection I as -> ->. reflexivity.
Qed.

(* ---------- weekday ---------- *)
Lemma dowf_weekday md n : dowf md n = weekday md n.
Proof.
  unfold dowf. pose proof (week_of_dn_spec md n) as H. destruct (week_of_dn md n) as [[a b] c].
  destruct H as [V E]. rewrite <- E. symmetry. apply week_date_weekday. apply (week_range _ _ _ _ V).
Qed.
Lemma dowf_eq md a b : dowf md a = dowf md b -> (b - a) mod 7 = 0.
Proof. rewrite !dowf_weekday. unfold weekday. generalize (ref_monday md). intros r. lia. Qed.
Lemma dowf_shift md n j : dowf md (n + 7 * j) = dowf md n.
Proof. rewrite !dowf_weekday. unfold weekday. generalize (ref_monday md). intros r. lia. Qed.
Lemma next_dow md n d : 1 <= d <= 7 -> exists J0, 0 <= J0 <= 6 /\ dowf md (n + J0) = d.
Proof.
  intros Hd. exists ((d - weekday md n) mod 7). rewrite dowf_weekday. unfold weekday.
  generalize (ref_monday md). intros r. lia.
Qed.

(* ---------- week number ---------- *)
Definition wmax (md : mode) : Z := match md with D360 => 52 | _ => 53 end.

Lemma wys_span md a k : 0 <= k -> exists S, wys md (a + k) = wys md a + 7 * S /\ 51 * k <= S <= 53 * k.
Proof.
  intros Hk. pattern k. apply natlike_ind; [| |exact Hk].
  - exists 0. rewrite Z.add_0_r. lia.
  - intros x Hx (S & E & B). exists (S + weeks_in md (a + x)).
    replace (a + Z.succ x) with (a + x + 1) by lia.
    destruct (weeks_in_spec md (a + x)) as [W WB]. rewrite W, E. lia.
Qed.

(* week w of the k-th week-year after the one of a given day, same weekday *)
Lemma week_target md wy w0 d0 k w : valid_week md wy w0 d0 = true -> 0 <= k ->
  1 <= w <= weeks_in md (wy + k) -> (k = 0 -> w0 <= w) ->
  exists J0, 0 <= J0 <= 53 * k + w - w0 /\ wkf md (dn_week md wy w0 d0 + 7 * J0) = w.
Proof.
  intros V Hk Hw H0. destruct (week_range _ _ _ _ V) as (R1 & R2 & _).
  destruct (wys_span md wy k Hk) as (S & E & B).
  assert (V' : valid_week md (wy + k) w d0 = true) by (unfold valid_week; lia).
  exists (S + w - w0). split.
  - destruct (Z.eq_dec k 0) as [->|N]; [specialize (H0 eq_refl); lia|].
    pose proof (weeks_in_spec md wy) as [W1 WB].
    destruct (wys_span md (wy + 1) (k - 1) ltac:(lia)) as (S' & E' & B').
    replace (wy + 1 + (k - 1)) with (wy + k) in E' by lia. lia.
  - replace (dn_week md wy w0 d0 + 7 * (S + w - w0)) with (dn_week md (wy + k) w d0)
      by (unfold dn_week; rewrite E; lia).
    apply (week_fields md _ _ _ V').
Qed.

Lemma weeks_in_shift md r q : weeks_in md (r + 2800 * q) = weeks_in md r.
Proof.
  unfold weeks_in. rewrite !wys_eq.
  assert (D : forall a, dby md (a + 2800 * q) =
                        dby md a + 7 * (match md with G => 146097 | D360 => 144000 | D365 => 146000 | D366 => 146400 end * q))
    by (intros a; destruct md; cbn [dby]; lia).
  replace (r + 2800 * q + 1) with (r + 1 + 2800 * q) by lia. rewrite !D.
  generalize (dby md r) (dby md (r + 1)) (dby md 2000)
             (match md with G => 146097 | D360 => 144000 | D365 => 146000 | D366 => 146400 end * q).
  intros a b c e. lia.
Qed.

(* a year with the greatest week count begins within eight years: by periodicity
   (2800 years in every calendar) and evaluation over one period *)
Definition long_chk (md : mode) : bool :=
  forallb (fun r => existsb (fun k => weeks_in md (Z.of_nat r + Z.of_nat k) =? wmax md) (seq 0 8)) (seq 0 2800).
Lemma long_chk_ok md : long_chk md = true.
Proof. destruct md; vm_compute; reflexivity. Qed.

Lemma long_within md y : exists k, 0 <= k <= 7 /\ weeks_in md (y + k) = wmax md.
Proof.
  pose proof (long_chk_ok md) as C. unfold long_chk in C. rewrite forallb_forall in C.
  specialize (C (Z.to_nat (y mod 2800))).
  assert (I : In (Z.to_nat (y mod 2800)) (seq 0 2800)) by (apply in_seq; lia).
  specialize (C I). apply existsb_exists in C. destruct C as (k & Ik & E). apply in_seq in Ik.
  exists (Z.of_nat k). split; [lia|].
  rewrite Z2Nat.id in E by lia.
  replace (y + Z.of_nat k) with (y mod 2800 + Z.of_nat k + 2800 * (y / 2800)) by lia.
  rewrite weeks_in_shift. lia.
Qed.

Lemma weeks_min md y : md <> D360 -> 52 <= weeks_in md y.
Proof.
  intros N. unfold weeks_in. rewrite !wys_eq, dby_succ.
  assert (HM : 365 <= ylen md y <= 366).
  { destruct md; cbn [ylen]; try (exfalso; apply N; reflexivity); try destruct (is_leap y); lia. }
  generalize (dby md y) (ylen md y) (dby md 2000) HM. intros; lia.
Qed.
Lemma weeks_max360 y : weeks_in D360 y <= 52.
Proof. unfold weeks_in. rewrite !wys_eq, dby_succ. cbn [ylen]. generalize (dby D360 y) (dby D360 2000). intros; lia. Qed.

Lemma next_week md w n : 1 <= w <= wmax md ->
  exists J0, 0 <= J0 <= 423 /\ wkf md (n + 7 * J0) = w.
Proof.
  intros Hw. pose proof (week_of_dn_spec md n) as H. destruct (week_of_dn md n) as [[wy w0] d0].
  destruct H as [V E]. rewrite <- E. destruct (week_range _ _ _ _ V) as (R1 & R2 & _).
  pose proof (weeks_in_spec md wy) as [_ B0]. pose proof (weeks_in_spec md (wy + 1)) as [_ B1].
  assert (WX : wmax md <= 53) by (destruct md; cbn [wmax]; lia).
  destruct (Z_le_dec w0 w) as [L0|L0]; [destruct (Z_le_dec w (weeks_in md wy)) as [L1|L1]|].
  - (* this week-year *)
    destruct (week_target md wy w0 d0 0 w V ltac:(lia) ltac:(rewrite Z.add_0_r; lia) ltac:(auto)) as (J & BJ & F).
    exists J. split; [lia | exact F].
  - (* this week-year is too short for w: w is the greatest week number *)
    assert (Wm : w = wmax md).
    { pose proof (weeks_min md wy) as WM. destruct md; cbn [wmax] in *; try lia; specialize (WM ltac:(discriminate)); lia. }
    destruct (long_within md wy) as (k & Hk & Lk).
    destruct (week_target md wy w0 d0 k w V ltac:(lia) ltac:(lia) ltac:(intros ->; rewrite Z.add_0_r in Lk; lia)) as (J & BJ & F).
    exists J. split; [lia | exact F].
  - (* w0 > w: a later week-year *)
    destruct (Z_le_dec w (weeks_in md (wy + 1))) as [L1|L1].
    + destruct (week_target md wy w0 d0 1 w V ltac:(lia) ltac:(lia) ltac:(intros; lia)) as (J & BJ & F).
      exists J. split; [lia | exact F].
    + assert (Wm : w = wmax md).
      { pose proof (weeks_min md (wy + 1)) as WM. destruct md; cbn [wmax] in *; try lia; specialize (WM ltac:(discriminate)); lia. }
      assert (w0 <= w).
      { destruct md; cbn [wmax] in *; try lia. pose proof (weeks_max360 wy). lia. }
      lia.
Qed.

(* ---------- day of year ---------- *)
Definition dmax (md : mode) : Z := match md with D360 => 360 | D365 => 365 | _ => 366 end.

Lemma dby_span md y k : 0 <= k -> dby md y + 360 * k <= dby md (y + k) <= dby md y + 366 * k.
Proof. intros Hk. destruct md; cbn [dby]; lia. Qed.

Lemma doy_target md y dd k d : valid_ord md y dd = true -> 0 <= k ->
  1 <= d <= ylen md (y + k) -> (k = 0 -> dd <= d) ->
  exists J0, 0 <= J0 <= 366 * k + d - dd /\ doyf md (dn_ord md y dd + J0) = d.
Proof.
  intros V Hk Hd H0. destruct (ord_range _ _ _ V) as (R1 & _).
  assert (V' : valid_ord md (y + k) d = true) by (unfold valid_ord; lia).
  pose proof (dby_span md y k Hk) as SP.
  exists (dby md (y + k) - dby md y + d - dd). split.
  - destruct (Z.eq_dec k 0) as [->|N]; [specialize (H0 eq_refl); rewrite Z.add_0_r; lia|].
    pose proof (dby_span md y 1 ltac:(lia)) as S1. pose proof (dby_mono md (y + 1) (y + k) ltac:(lia)).
    rewrite dby_succ in *. lia.
  - replace (dn_ord md y dd + (dby md (y + k) - dby md y + d - dd)) with (dn_ord md (y + k) d)
      by (unfold dn_ord; lia).
    apply (ord_field md _ _ V').
Qed.

Lemma is_leap_shift r q : is_leap (r + 400 * q) = is_leap r.
Proof. unfold is_leap. f_equal; [|f_equal; [f_equal|]]; lia. Qed.
Definition leap_chk : bool :=
  forallb (fun r => existsb (fun k => is_leap (Z.of_nat r + Z.of_nat k)) (seq 0 8)) (seq 0 400).
Lemma leap_chk_ok : leap_chk = true.
Proof. vm_compute. reflexivity. Qed.
Lemma leap_within y : exists k, 0 <= k <= 7 /\ is_leap (y + k) = true.
Proof.
  pose proof leap_chk_ok as C. unfold leap_chk in C. rewrite forallb_forall in C.
  specialize (C (Z.to_nat (y mod 400))).
  assert (I : In (Z.to_nat (y mod 400)) (seq 0 400)) by (apply in_seq; lia).
  specialize (C I). apply existsb_exists in C. destruct C as (k & Ik & E). apply in_seq in Ik.
  exists (Z.of_nat k). split; [lia|].
  rewrite Z2Nat.id in E by lia.
  replace (y + Z.of_nat k) with (y mod 400 + Z.of_nat k + 400 * (y / 400)) by lia.
  rewrite is_leap_shift. exact E.
Qed.

Lemma next_doy md d n : 1 <= d <= dmax md ->
  exists J0, 0 <= J0 <= 2927 /\ doyf md (n + J0) = d.
Proof.
  intros Hd. pose proof (ord_of_dn_spec md n) as H. destruct (ord_of_dn md n) as [y dd].
  destruct H as [V E]. rewrite <- E. destruct (ord_range _ _ _ V) as (R1 & _).
  pose proof (ylen_bounds md y) as B0. pose proof (ylen_bounds md (y + 1)) as B1.
  destruct (Z_le_dec dd d) as [L0|L0]; [destruct (Z_le_dec d (ylen md y)) as [L1|L1]|].
  - destruct (doy_target md y dd 0 d V ltac:(lia) ltac:(rewrite Z.add_0_r; lia) ltac:(auto)) as (J & BJ & F).
    exists J. split; [lia | exact F].
  - (* d = 366 in a common year of the Gregorian calendar *)
    assert (md = G /\ d = 366) as [-> ->]
      by (destruct md; cbn [dmax ylen] in *; try lia; destruct (is_leap y), (is_leap (y + 1)); split; try reflexivity; lia).
    destruct (leap_within y) as (k & Hk & Lk).
    destruct (doy_target G y dd k 366 V ltac:(lia) ltac:(cbn [ylen]; rewrite Lk; lia) ltac:(intros ->; rewrite Z.add_0_r in Lk; cbn [ylen] in L1; rewrite Lk in L1; lia)) as (J & BJ & F).
    exists J. split; [lia | exact F].
  - destruct (Z_le_dec d (ylen md (y + 1))) as [L1|L1].
    + destruct (doy_target md y dd 1 d V ltac:(lia) ltac:(lia) ltac:(intros; lia)) as (J & BJ & F).
      exists J. split; [lia | exact F].
    + assert (md = G /\ d = 366) as [-> ->]
      by (destruct md; cbn [dmax ylen] in *; try lia; destruct (is_leap y), (is_leap (y + 1)); split; try reflexivity; lia).
      cbn [ylen] in *. destruct (is_leap y); lia.
Qed.

(* ---------- day of month ---------- *)
Definition mmax (md : mode) : Z := match md with D360 => 30 | _ => 31 end.
Definition next_ym (y m : Z) : Z * Z := if m <? 12 then (y, m + 1) else (y + 1, 1).

Lemma fom_next md y m : 1 <= m <= 12 ->
  dn_cal md (fst (next_ym y m)) (snd (next_ym y m)) 1 = dn_cal md y m 1 + mlen md y m /\
  1 <= snd (next_ym y m) <= 12.
Proof.
  intros Hm. unfold next_ym. destruct (m <? 12) eqn:E; cbn [fst snd].
  - split; [|lia]. unfold dn_cal. replace (m + 1 - 1) with m by lia. rewrite (cum_step md y m Hm). lia.
  - assert (m = 12) by lia. subst m. split; [|lia].
    rewrite jan_dn, dby_succ, <- cum_12, (cum_step md y 12 ltac:(lia)). unfold dn_cal. lia.
Qed.

(* of two consecutive months one has 31 days (30 in the 360-day calendar) *)
Lemma mlen_pair md y m : 1 <= m <= 12 ->
  mlen md y m = mmax md \/ mlen md (fst (next_ym y m)) (snd (next_ym y m)) = mmax md.
Proof.
  intros Hm. unfold mlen, months, next_ym.
  cases12 m; cbn [Z.ltb Z.compare Pos.compare Pos.compare_cont fst snd Z.add Pos.add Z.sub Z.opp Z.pos_sub Z.to_nat
                  Pos.to_nat Pos.iter_op Nat.add Pos.succ Pos.pred_double];
    destruct md; destruct (is_leap y); try destruct (is_leap (y + 1)); cbn; auto.
Qed.

Lemma next_dom md d n : 1 <= d <= mmax md ->
  exists J0, 0 <= J0 <= 61 /\ domf md (n + J0) = d.
Proof.
  intros Hd. pose proof (cal_of_dn_spec md n) as H. destruct (cal_of_dn md n) as [[y m] dd].
  destruct H as [V E]. rewrite <- E. destruct (cal_range _ _ _ _ V) as (Hm & R1 & _).
  destruct (fom_next md y m Hm) as [F1 M1].
  set (y1 := fst (next_ym y m)) in *. set (m1 := snd (next_ym y m)) in *.
  destruct (fom_next md y1 m1 M1) as [F2 M2].
  set (y2 := fst (next_ym y1 m1)) in *. set (m2 := snd (next_ym y1 m1)) in *.
  pose proof (mlen_pair md y m Hm) as P0. fold y1 m1 in P0.
  pose proof (mlen_pair md y1 m1 M1) as P1. fold y2 m2 in P1.
  pose proof (mlen_bounds md y m Hm) as B0. pose proof (mlen_bounds md y1 m1 M1) as B1.
  pose proof (mlen_bounds md y2 m2 M2) as B2.
  assert (BM : forall yy mm, 1 <= mm <= 12 -> mlen md yy mm <= mmax md).
  { intros yy mm Hmm. destruct md; cbn [mmax]; try apply (mlen_bounds _ yy mm Hmm).
    rewrite (proj1 (mode_lengths yy) mm Hmm). lia. }
  pose proof (BM y m Hm) as C0. pose proof (BM y1 m1 M1) as C1. pose proof (BM y2 m2 M2) as C2.
  assert (T : forall yy mm, 1 <= mm <= 12 -> d <= mlen md yy mm ->
              domf md (dn_cal md yy mm 1 + (d - 1)) = d).
  { intros yy mm Hmm L. replace (dn_cal md yy mm 1 + (d - 1)) with (dn_cal md yy mm d) by (unfold dn_cal; lia).
    apply cal_field. unfold valid_cal. lia. }
  assert (N0 : dn_cal md y m dd = dn_cal md y m 1 + (dd - 1)) by (unfold dn_cal; lia).
  destruct (Z_le_dec dd d) as [L0|L0]; [destruct (Z_le_dec d (mlen md y m)) as [L1|L1]|].
  - exists (d - dd). split; [lia|]. rewrite N0.
    replace (dn_cal md y m 1 + (dd - 1) + (d - dd)) with (dn_cal md y m 1 + (d - 1)) by lia. apply T; assumption.
  - (* the month is too short: the next one has the day *)
    assert (d <= mlen md y1 m1) by lia.
    exists (mlen md y m - dd + d). split; [lia|]. rewrite N0.
    replace (dn_cal md y m 1 + (dd - 1) + (mlen md y m - dd + d)) with (dn_cal md y1 m1 1 + (d - 1)) by lia.
    apply T; assumption.
  - destruct (Z_le_dec d (mlen md y1 m1)) as [L1|L1].
    + exists (mlen md y m - dd + d). split; [lia|]. rewrite N0.
      replace (dn_cal md y m 1 + (dd - 1) + (mlen md y m - dd + d)) with (dn_cal md y1 m1 1 + (d - 1)) by lia.
      apply T; assumption.
    + assert (d <= mlen md y2 m2) by lia.
      exists (mlen md y m - dd + mlen md y1 m1 + d). split; [lia|]. rewrite N0.
      replace (dn_cal md y m 1 + (dd - 1) + (mlen md y m - dd + mlen md y1 m1 + d))
        with (dn_cal md y2 m2 1 + (d - 1)) by lia.
      apply T; assumption.
Qed.

(* ---------- least witness of a bounded search ---------- *)
Lemma least_witness (P : Z -> bool) J0 : 0 <= J0 -> P J0 = true ->
  exists J, 0 <= J <= J0 /\ P J = true /\ forall i, 0 <= i < J -> P i = false.
Proof.
  intros H0 HP.
  assert (S : forall n : nat, (forall i, 0 <= i < Z.of_nat n -> P i = false) \/
                              exists J, 0 <= J < Z.of_nat n /\ P J = true /\ forall i, 0 <= i < J -> P i = false).
  { induction n as [|n IH].
    - left. intros i Hi. lia.
    - destruct IH as [IH | (J & A & B & C)].
      + destruct (P (Z.of_nat n)) eqn:E.
        * right. exists (Z.of_nat n). split; [lia|]. split; [exact E|exact IH].
        * left. intros i Hi. destruct (Z.eq_dec i (Z.of_nat n)) as [->|N]; [exact E | apply IH; lia].
      + right. exists J. split; [lia|]. auto. }
  destruct (S (Z.to_nat (J0 + 1))) as [A | (J & A & B & C)].
  - rewrite A in HP by lia. discriminate HP.
  - exists J. split; [lia|]. auto.
Qed.
