(* Proofs/DurTextSpec.v -- C10: durations survive a round trip through text.
   Definitions the statements use (render, single_signed, printable,
   dur_equiv), the reflection lemmas tying Model/DurText.v to the regenerated
   gen/DurGrammar.v, and the proofs. *)
From Coq Require Import ZArith NArith QArith Qround Qabs List Bool String Ascii Lia Lqa.
From Coq Require Import DecimalString DecimalZ DecimalPos.
From Iso Require Import Proofs.Tac Model.Num Model.Duration Model.DurText gen.DurGrammar.
Import ListNotations.
Open Scope string_scope.
Open Scope Z_scope.

(* ------------------------------------------------------------------ *)
(* A. the model was written for the patterns the package compiles now  *)
(* ------------------------------------------------------------------ *)
Lemma durtext_translator_ok : translator_ok_durtext = true.
Proof. vm_compute. reflexivity. Qed.

Lemma durtext_grammar_tied :
  DURATION_PATTERNS_X = EXPECTED_DURATION_PATTERNS_X /\
  DURATION_FLAGS = EXPECTED_DURATION_FLAGS /\
  ALT_DATE_REGEXES = EXPECTED_ALT_DATE_REGEXES /\
  ALT_TIME_REGEXES = EXPECTED_ALT_TIME_REGEXES /\
  ALT_DATE_ALPHABET = EXPECTED_ALT_DATE_ALPHABET /\
  ALT_TIME_ALPHABET = EXPECTED_ALT_TIME_ALPHABET /\
  ALT_ZONE_ALPHABET = EXPECTED_ALT_ZONE_ALPHABET.
Proof. repeat split; vm_compute; reflexivity. Qed.

(* ------------------------------------------------------------------ *)
(* B. strings, digits                                                  *)
(* ------------------------------------------------------------------ *)
Lemma sapp_assoc : forall a b c : string, (a ++ b) ++ c = a ++ (b ++ c).
Proof. induction a; intros; cbn; [reflexivity | now rewrite IHa]. Qed.
Lemma sapp_nil_r : forall a : string, a ++ "" = a.
Proof. induction a; cbn; [reflexivity | now rewrite IHa]. Qed.
Lemma slen_app : forall a b, slen (a ++ b) = (slen a + slen b)%nat.
Proof. unfold slen. induction a; intros; cbn; [reflexivity | now rewrite IHa]. Qed.

Lemma str_all_app : forall p a b, str_all p (a ++ b) = str_all p a && str_all p b.
Proof. induction a; intros; cbn; [reflexivity | rewrite IHa; now rewrite andb_assoc]. Qed.
Lemma str_all_impl : forall (p q : ascii -> bool) s,
  (forall c, p c = true -> q c = true) -> str_all p s = true -> str_all q s = true.
Proof.
  induction s; intros H; cbn; [reflexivity |].
  intros E. apply andb_true_iff in E. destruct E as [E1 E2].
  rewrite (H _ E1), (IHs H E2). reflexivity.
Qed.

Lemma is_digit_ascii7 : forall c, is_digit c = true -> is_ascii7 c = true.
Proof. unfold is_digit, is_ascii7. cbv zeta. intros. lia. Qed.
Lemma is_digit_neq : forall c k, is_digit c = true -> is_digit k = false -> Ascii.eqb c k = false.
Proof.
  intros c k H1 H2. destruct (Ascii.eqb c k) eqn:E; [|reflexivity].
  apply Ascii.eqb_eq in E. subst. congruence.
Qed.

Lemma digit_char_ok : forall q, 0 <= q <= 9 ->
  is_digit (digit_char q) = true /\ digit_val (digit_char q) = q.
Proof.
  intros q H.
  assert (q = 0 \/ q = 1 \/ q = 2 \/ q = 3 \/ q = 4 \/ q = 5 \/ q = 6 \/ q = 7 \/ q = 8 \/ q = 9) by lia.
  repeat (destruct H0 as [H0 | H0]; [subst; split; reflexivity |]). subst; split; reflexivity.
Qed.

(* value of a digit string: accumulator form and closed form *)
Lemma dec_acc_lin : forall s a, dec_acc s a = a * 10 ^ Z.of_nat (slen s) + dec_acc s 0.
Proof.
  induction s; intros; cbn [dec_acc slen String.length].
  - change (10 ^ Z.of_nat 0) with 1. lia.
  - rewrite IHs. rewrite (IHs (0 * 10 + digit_val a)).
    unfold slen. rewrite Nat2Z.inj_succ, Z.pow_succ_r by lia. ring.
Qed.
Lemma dec_acc_app : forall a b z, dec_acc (a ++ b) z = dec_acc b (dec_acc a z).
Proof. induction a; intros; cbn [dec_acc String.append]; [reflexivity | apply IHa]. Qed.
Lemma dec_val_app : forall a b, dec_val (a ++ b) = dec_val a * 10 ^ Z.of_nat (slen b) + dec_val b.
Proof. unfold dec_val. intros. rewrite dec_acc_app. apply dec_acc_lin. Qed.
Lemma dec_val_cons : forall c s, dec_val (String c s) = digit_val c * 10 ^ Z.of_nat (slen s) + dec_val s.
Proof. intros. unfold dec_val. cbn [dec_acc]. rewrite dec_acc_lin. f_equal. Qed.

(* show_Z: the standard decimal printer *)
Lemma nilempty_digits : forall u, all_digits (NilEmpty.string_of_uint u) = true.
Proof. induction u; cbn; auto. Qed.
Lemma nilempty_acc : forall u acc,
  dec_acc (NilEmpty.string_of_uint u) (Zpos acc) = Zpos (Pos.of_uint_acc u acc).
Proof.
  induction u; intros acc; cbn [NilEmpty.string_of_uint dec_acc Pos.of_uint_acc]; [reflexivity | ..];
  rewrite <- IHu; f_equal;
  match goal with |- context [digit_val ?c] =>
    let v := eval vm_compute in (digit_val c) in change (digit_val c) with v end; lia.
Qed.

Lemma nilempty_val : forall u, dec_acc (NilEmpty.string_of_uint u) 0 = Z.of_N (Pos.of_uint u).
Proof.
  induction u; cbn [NilEmpty.string_of_uint dec_acc Pos.of_uint]; [reflexivity | ..];
  match goal with |- context [digit_val ?c] =>
    let v := eval vm_compute in (digit_val c) in change (digit_val c) with v end;
  change (0 * 10 + 0) with 0; try exact IHu;
  match goal with |- dec_acc _ (0 * 10 + ?k) = _ => change (0 * 10 + k) with (Zpos (Z.to_pos k)) end;
  rewrite nilempty_acc; reflexivity.
Qed.

Lemma show_Z_nonneg : forall z, 0 <= z ->
  all_digits (show_Z z) = true /\ str_nonempty (show_Z z) = true /\ dec_val (show_Z z) = z.
Proof.
  intros z Hz. unfold show_Z.
  assert (Hv : Z.of_int (Z.to_int z) = z) by apply DecimalZ.of_to.
  destruct z as [|p|p]; [| |lia].
  - repeat split; reflexivity.
  - cbn [Z.to_int NilZero.string_of_int] in *.
    pose proof (Unsigned.to_uint_nonnil p) as Hn.
    assert (E : NilZero.string_of_uint (Pos.to_uint p) = NilEmpty.string_of_uint (Pos.to_uint p)).
    { unfold NilZero.string_of_uint. destruct (Pos.to_uint p); [congruence | reflexivity ..]. }
    rewrite E. split; [apply nilempty_digits | split].
    + destruct (Pos.to_uint p); [congruence | reflexivity ..].
    + unfold dec_val. rewrite nilempty_val. exact Hv.
Qed.

Lemma show_Z_neg : forall z, z < 0 -> show_Z z = String "-" (show_Z (- z)).
Proof. intros z Hz. destruct z; try lia. reflexivity. Qed.

(* ------------------------------------------------------------------ *)
(* C. the deterministic date groups                                    *)
(* ------------------------------------------------------------------ *)
(* s is empty or starts with a non-digit *)
Definition nondigit_head (s : string) : Prop :=
  match s with EmptyString => True | String c _ => is_digit c = false end.

Lemma span_digits_app : forall ds r, all_digits ds = true -> nondigit_head r ->
  span_digits (ds ++ r) = (ds, r).
Proof.
  induction ds; intros r Hd Hr; cbn [String.append].
  - destruct r; cbn [span_digits]; [reflexivity |]. cbn in Hr. rewrite Hr. reflexivity.
  - cbn in Hd. apply andb_true_iff in Hd. destruct Hd as [H1 H2].
    cbn [span_digits]. rewrite H1. rewrite (IHds r H2 Hr). reflexivity.
Qed.
Lemma span_digits_all : forall ds, all_digits ds = true -> span_digits ds = (ds, "").
Proof. intros. rewrite <- (sapp_nil_r ds) at 1. apply span_digits_app; [assumption | exact I]. Qed.

Lemma take_unit_hit : forall c ds r, all_digits ds = true -> str_nonempty ds = true ->
  is_digit c = false -> take_unit c (ds ++ String c r) = (Some ds, r).
Proof.
  intros c ds r Hd Hn Hc. unfold take_unit.
  rewrite span_digits_app by (auto; exact Hc). rewrite Hn. cbn [uncons].
  rewrite Ascii.eqb_refl. reflexivity.
Qed.
(* digits followed by another designator, or no digits at all *)
Lemma take_unit_other : forall c a ds r, all_digits ds = true -> is_digit a = false ->
  Ascii.eqb a c = false -> take_unit c (ds ++ String a r) = (None, ds ++ String a r).
Proof.
  intros c a ds r Hd Ha Hac. unfold take_unit.
  rewrite span_digits_app by (auto; exact Ha). cbn [uncons]. rewrite Hac.
  destruct (str_nonempty ds); reflexivity.
Qed.
Lemma take_unit_nodigit : forall c s, nondigit_head s -> take_unit c s = (None, s).
Proof.
  intros c s H. unfold take_unit. destruct s; cbn [span_digits]; [reflexivity |].
  cbn in H. rewrite H. reflexivity.
Qed.

(* rendering of optional groups, difference-list style *)
Definition opt_unit (o : option string) (c : ascii) (rest : string) : string :=
  match o with Some ds => ds ++ String c rest | None => rest end.
Definition ok_digits (o : option string) : Prop :=
  match o with Some ds => all_digits ds = true /\ str_nonempty ds = true | None => True end.

Lemma match_date_render : forall oy omo od tail,
  ok_digits oy -> ok_digits omo -> ok_digits od -> nondigit_head tail ->
  match_date (opt_unit oy "Y" (opt_unit omo "M" (opt_unit od "D" tail))) = (oy, omo, od, tail).
Proof.
  intros oy omo od tail Hy Hm Hd Ht. unfold match_date.
  destruct oy as [y|], omo as [mo|], od as [d|]; cbn [opt_unit ok_digits] in *;
  repeat match goal with H : _ /\ _ |- _ => destruct H end;
  repeat first
    [ rewrite take_unit_hit by (auto; reflexivity)
    | rewrite take_unit_other by (auto; reflexivity)
    | rewrite take_unit_nodigit by assumption ];
  reflexivity.
Qed.

(* ------------------------------------------------------------------ *)
(* D. the greedy, backtracking time groups                             *)
(* ------------------------------------------------------------------ *)
Definition no_char (c : ascii) (s : string) : bool := str_all (fun a => negb (Ascii.eqb a c)) s.
(* what a printed or well-formed time value is made of *)
Definition plain_char (a : ascii) : bool := is_digit a || Ascii.eqb a "," || Ascii.eqb a ".".
Definition plain (s : string) : bool := str_all plain_char s.

Lemma last_split_none : forall A c s (k : string -> option A), no_char c s = true -> last_split c s k = None.
Proof.
  induction s; intros k H; cbn [last_split]; [reflexivity |].
  cbn in H. apply andb_true_iff in H. destruct H as [H1 H2].
  destruct (Ascii.eqb a NL); [reflexivity |]. rewrite (IHs k H2).
  apply negb_true_iff in H1. rewrite H1. reflexivity.
Qed.

Lemma last_split_hit : forall A c content rest (k : string -> option A),
  Ascii.eqb c NL = false ->
  no_char c content = true -> no_char NL content = true -> no_char c rest = true ->
  last_split c (content ++ String c rest) k =
  match k rest with Some x => Some (content, x) | None => None end.
Proof.
  induction content; intros rest k H0 H1 H2 H3; cbn [String.append last_split].
  - rewrite H0. rewrite last_split_none by assumption. rewrite Ascii.eqb_refl. reflexivity.
  - cbn in H1, H2. apply andb_true_iff in H1. apply andb_true_iff in H2.
    destruct H1 as [A1 A2], H2 as [B1 B2].
    apply negb_true_iff in A1. apply negb_true_iff in B1.
    rewrite B1. rewrite (IHcontent rest k H0 A2 B2 H3).
    destruct (k rest); [reflexivity |]. rewrite A1. reflexivity.
Qed.

(* a time value as matched by a group: starts with a digit, plain characters *)
Definition ok_plain (o : option string) : Prop :=
  match o with
  | Some (String d r) => is_digit d = true /\ plain r = true
  | Some EmptyString => False
  | None => True
  end.

Lemma plain_no_char : forall c s, plain_char c = false -> plain s = true -> no_char c s = true.
Proof.
  intros c s Hc. unfold plain, no_char. induction s; cbn [str_all]; [reflexivity |]. intros H.
  apply andb_true_iff in H. destruct H as [H1 H2]. rewrite (IHs H2), andb_true_r.
  apply negb_true_iff. destruct (Ascii.eqb a c) eqn:E; [|reflexivity].
  apply Ascii.eqb_eq in E. subst. congruence.
Qed.
Lemma no_char_opt_unit : forall c o u rest, ok_plain o -> plain_char c = false ->
  Ascii.eqb u c = false -> no_char c rest = true -> no_char c (opt_unit o u rest) = true.
Proof.
  intros c o u rest Ho Hc Hu Hr. destruct o as [[|d r]|]; cbn [opt_unit ok_plain] in *; [contradiction | | assumption].
  destruct Ho as [Hd Hp]. unfold no_char. cbn [String.append str_all].
  rewrite str_all_app. cbn [str_all]. fold (no_char c r). fold (no_char c rest).
  rewrite (plain_no_char c r Hc Hp), Hu, Hr.
  assert (E : Ascii.eqb d c = false).
  { destruct (Ascii.eqb d c) eqn:E; [|reflexivity]. apply Ascii.eqb_eq in E. subst.
    unfold plain_char in Hc. rewrite Hd in Hc. discriminate. }
  rewrite E. reflexivity.
Qed.

Lemma opt_group_render : forall A c o rest (k : string -> option A) x,
  ok_plain o -> plain_char c = false -> Ascii.eqb c NL = false ->
  no_char c rest = true -> k rest = Some x ->
  opt_group c (opt_unit o c rest) k = Some (o, x).
Proof.
  intros A c o rest k x Ho Hc Hnl Hr Hk.
  destruct o as [[|d r]|]; cbn [opt_unit ok_plain] in *; [contradiction | |].
  - destruct Ho as [Hd Hp]. cbn [String.append]. unfold opt_group. rewrite Hd.
    rewrite last_split_hit; auto.
    + rewrite Hk. reflexivity.
    + apply plain_no_char; assumption.
    + apply plain_no_char; [reflexivity | assumption].
  - unfold opt_group. rewrite Hk.
    destruct rest as [|d r]; [reflexivity |].
    destruct (is_digit d); [|reflexivity].
    cbn in Hr. apply andb_true_iff in Hr. destruct Hr as [_ Hr].
    rewrite last_split_none by exact Hr. reflexivity.
Qed.

Definition render_time (oh omi os : option string) : string :=
  opt_unit oh "H" (opt_unit omi "M" (opt_unit os "S" "")).

Lemma match_time_render : forall oh omi os, ok_plain oh -> ok_plain omi -> ok_plain os ->
  match_time (render_time oh omi os) = Some (oh, omi, os).
Proof.
  intros oh omi os Hh Hm Hs. unfold match_time, render_time.
  set (k3 := fun r3 : string => if at_end r3 then Some tt else None).
  set (k2 := fun r2 : string => opt_group "S" r2 k3).
  set (k1 := fun r1 : string => opt_group "M" r1 k2).
  assert (E3 : k2 (opt_unit os "S" "") = Some (os, tt)).
  { unfold k2. apply opt_group_render; auto; reflexivity. }
  assert (E2 : k1 (opt_unit omi "M" (opt_unit os "S" "")) = Some (omi, (os, tt))).
  { unfold k1. apply opt_group_render; auto; try reflexivity.
    apply no_char_opt_unit; auto; reflexivity. }
  assert (E1 : opt_group "H" (opt_unit oh "H" (opt_unit omi "M" (opt_unit os "S" ""))) k1
               = Some (oh, (omi, (os, tt)))).
  { apply opt_group_render; auto; try reflexivity.
    apply no_char_opt_unit; auto; try reflexivity.
    apply no_char_opt_unit; auto; reflexivity. }
  rewrite E1. reflexivity.
Qed.

(* ------------------------------------------------------------------ *)
(* E. conversions of the matched groups                                *)
(* ------------------------------------------------------------------ *)
(* a well-formed time value: digits, or digits <comma|point> digits *)
Inductive dnum := DInt (i : string) | DDec (i : string) (comma : bool) (f : string).
Definition dnum_text (n : dnum) : string :=
  match n with
  | DInt i => i
  | DDec i comma f => i ++ String (if comma then "," else ".")%char f
  end.
(* digits only, a non-empty integer part, within the exact float domain *)
Definition dnum_ok (n : dnum) : bool :=
  match n with
  | DInt i => all_digits i && str_nonempty i && float_safe i ""
  | DDec i _ f => all_digits i && str_nonempty i && all_digits f && float_safe i f
  end.
Definition dnum_val (n : dnum) : Q :=
  match n with DInt i => dval i "" | DDec i _ f => dval i f end.

Lemma comma_to_point_digits : forall s, all_digits s = true -> comma_to_point s = s.
Proof.
  induction s; cbn [comma_to_point]; [reflexivity |]. intros H. cbn in H.
  apply andb_true_iff in H. destruct H as [H1 H2].
  rewrite (is_digit_neq a "," H1) by reflexivity. now rewrite IHs.
Qed.
Lemma comma_to_point_app : forall a b, comma_to_point (a ++ b) = comma_to_point a ++ comma_to_point b.
Proof. induction a; intros; cbn [comma_to_point String.append]; [reflexivity | now rewrite IHa]. Qed.

Lemma conv_float_dnum : forall n, dnum_ok n = true -> conv_float (dnum_text n) = TOk (dnum_val n).
Proof.
  intros [i | i comma f] H; cbn [dnum_ok dnum_text dnum_val] in *.
  - apply andb_true_iff in H. destruct H as [H H3]. apply andb_true_iff in H. destruct H as [H1 H2].
    unfold conv_float. rewrite comma_to_point_digits by assumption.
    rewrite span_digits_all by assumption. rewrite H2, H3. reflexivity.
  - apply andb_true_iff in H. destruct H as [H H4]. apply andb_true_iff in H. destruct H as [H H3].
    apply andb_true_iff in H. destruct H as [H1 H2].
    unfold conv_float. rewrite comma_to_point_app. cbn [comma_to_point].
    rewrite !comma_to_point_digits by assumption.
    assert (E : (if Ascii.eqb (if comma then ","%char else "."%char) "," then "."%char
                 else if comma then ","%char else "."%char) = "."%char) by (destruct comma; reflexivity).
    rewrite E. rewrite span_digits_app by (auto; reflexivity). rewrite H2.
    rewrite Ascii.eqb_refl. rewrite span_digits_all by assumption.
    cbn [str_nonempty]. rewrite H4. reflexivity.
Qed.

Lemma all_digits_plain : forall s, all_digits s = true -> plain s = true.
Proof.
  intros s. apply str_all_impl. intros c H. unfold plain_char. rewrite H. reflexivity.
Qed.
Lemma ok_plain_dnum : forall n, dnum_ok n = true -> ok_plain (Some (dnum_text n)).
Proof.
  intros [i | i comma f] H; cbn [dnum_ok dnum_text ok_plain] in *.
  - apply andb_true_iff in H. destruct H as [H _]. apply andb_true_iff in H. destruct H as [H1 H2].
    destruct i as [|d r]; [discriminate |]. cbn in H1. apply andb_true_iff in H1. destruct H1.
    split; [assumption | now apply all_digits_plain].
  - apply andb_true_iff in H. destruct H as [H _]. apply andb_true_iff in H. destruct H as [H H3].
    apply andb_true_iff in H. destruct H as [H1 H2].
    destruct i as [|d r]; [discriminate |]. cbn in H1. apply andb_true_iff in H1. destruct H1 as [Hd Hr].
    cbn [String.append]. split; [assumption |].
    unfold plain. rewrite str_all_app. cbn [str_all].
    fold (plain r). fold (plain f). rewrite !all_digits_plain by assumption.
    destruct comma; reflexivity.
Qed.

Lemma plain_char_ascii7 : forall c, plain_char c = true -> is_ascii7 c = true.
Proof.
  intros c H. unfold plain_char in H. apply orb_true_iff in H. destruct H as [H | H].
  - apply orb_true_iff in H. destruct H as [H | H]; [now apply is_digit_ascii7 |].
    apply Ascii.eqb_eq in H. subst. reflexivity.
  - apply Ascii.eqb_eq in H. subst. reflexivity.
Qed.

(* ------------------------------------------------------------------ *)
(* F. designator faithfulness: parse (render c) = make c               *)
(* ------------------------------------------------------------------ *)
Definition omap {A B} (f : A -> B) (o : option A) : option B :=
  match o with Some a => Some (f a) | None => None end.
Definition sgz (neg : bool) : Z := if neg then -1 else 1.
Definition oval (o : option string) : Z := match o with Some ds => dec_val ds | None => 0 end.
Definition onum_val (o : option dnum) : Q := match o with Some n => dnum_val n | None => 0%Q end.
(* a \d+ group: digits, non-empty, within CPython's int <-> str limit *)
Definition int_ok (o : option string) : bool :=
  match o with
  | Some ds => all_digits ds && str_nonempty ds && (slen ds <=? INT_MAX_STR_DIGITS)%nat
  | None => true
  end.
Definition num_ok (o : option dnum) : bool := match o with Some n => dnum_ok n | None => true end.
Definition is_some {A} (o : option A) : bool := match o with Some _ => true | None => false end.

(* [-]P[nY][nM][nD][T[nH][nM][nS]] *)
Definition render (neg : bool) (oy omo od : option string) (t : bool) (oh omi os : option dnum) : string :=
  (if neg then "-" else "") ++
  String "P" (opt_unit oy "Y" (opt_unit omo "M" (opt_unit od "D"
    (if t then String "T" (render_time (omap dnum_text oh) (omap dnum_text omi) (omap dnum_text os))
     else "")))).
(* [-]PnW *)
Definition render_weeks (neg : bool) (ds : string) : string :=
  (if neg then "-" else "") ++ String "P" (ds ++ "W").

Lemma at_end_cons : forall c r, Ascii.eqb c NL = false -> at_end (String c r) = false.
Proof. intros c r H. destruct r; cbn [at_end]; [exact H | reflexivity]. Qed.

Lemma int_ok_inv : forall o, int_ok o = true -> ok_digits o /\ conv_oint o = TOk (oval o).
Proof.
  intros [ds|] H; cbn [int_ok ok_digits conv_oint oval] in *; [|split; [exact I | reflexivity]].
  apply andb_true_iff in H. destruct H as [H H3]. apply andb_true_iff in H. destruct H as [H1 H2].
  split; [split; assumption |]. unfold conv_int. rewrite H3. reflexivity.
Qed.
Lemma num_ok_inv : forall o, num_ok o = true ->
  ok_plain (omap dnum_text o) /\ conv_ofloat (omap dnum_text o) = TOk (onum_val o).
Proof.
  intros [n|] H; cbn [num_ok omap conv_ofloat onum_val] in *; [|split; [exact I | reflexivity]].
  split; [now apply ok_plain_dnum | now apply conv_float_dnum].
Qed.

Lemma ascii7_opt_unit : forall (p : ascii -> bool) o c rest,
  (forall ds, o = Some ds -> str_all p ds = true) -> p c = true -> str_all p rest = true ->
  str_all p (opt_unit o c rest) = true.
Proof.
  intros p [ds|] c rest H Hc Hr; cbn [opt_unit]; [|assumption].
  rewrite str_all_app. cbn [str_all]. rewrite (H ds eq_refl), Hc, Hr. reflexivity.
Qed.
Lemma ok_digits_ascii7 : forall o ds, ok_digits o -> o = Some ds -> str_all is_ascii7 ds = true.
Proof.
  intros o ds H E. subst. destruct H as [H _].
  revert H. apply str_all_impl. apply is_digit_ascii7.
Qed.
Lemma ok_plain_ascii7 : forall o s, ok_plain o -> o = Some s -> str_all is_ascii7 s = true.
Proof.
  intros o s H E. subst. destruct s as [|d r]; cbn [ok_plain] in H; [contradiction |].
  destruct H as [Hd Hp]. cbn [str_all]. rewrite (is_digit_ascii7 d Hd).
  revert Hp. apply str_all_impl. apply plain_char_ascii7.
Qed.

Lemma convert_ok : forall sg oy omo od oh omi os ow,
  int_ok oy = true -> int_ok omo = true -> int_ok od = true -> int_ok ow = true ->
  num_ok oh = true -> num_ok omi = true -> num_ok os = true ->
  convert sg (mkGroups oy omo od (omap dnum_text oh) (omap dnum_text omi) (omap dnum_text os) ow) =
  TOk (dur_make (oval oy * sg) (oval omo * sg) (oval ow * sg) (oval od * sg)
                (qmul (onum_val oh) (qz sg)) (qmul (onum_val omi) (qz sg)) (qmul (onum_val os) (qz sg))).
Proof.
  intros sg oy omo od oh omi os ow Hy Hmo Hd Hw Hh Hmi Hs.
  unfold convert. cbn [g_years g_months g_days g_hours g_minutes g_seconds g_weeks].
  destruct (int_ok_inv _ Hy) as [_ Ey]. destruct (int_ok_inv _ Hmo) as [_ Emo].
  destruct (int_ok_inv _ Hd) as [_ Ed]. destruct (int_ok_inv _ Hw) as [_ Ew].
  destruct (num_ok_inv _ Hh) as [_ Eh]. destruct (num_ok_inv _ Hmi) as [_ Emi].
  destruct (num_ok_inv _ Hs) as [_ Es].
  rewrite Ey, Emo, Ed, Ew, Eh, Emi, Es. reflexivity.
Qed.

Lemma dur_parse_P : forall (neg : bool) body,
  str_all is_ascii7 body = true ->
  dur_parse ((if neg then "-"%string else ""%string) ++ String "P" body)%string =
  match re1 (String "P" body) with
  | Some g => convert (sgz neg) g
  | None =>
    match re2 (String "P" body) with
    | Some g => convert (sgz neg) g
    | None =>
      match re3 (String "P" body) with
      | Some g => convert (sgz neg) g
      | None => if neg then TSyntax else alt_parse body
      end
    end
  end.
Proof.
  intros neg body Hb. unfold dur_parse.
  destruct neg; cbn [String.append str_all uncons sgz].
  - change (is_ascii7 "-") with true. change (is_ascii7 "P") with true.
    rewrite Hb. cbn [andb negb]. change (Ascii.eqb "-" "-") with true. cbv iota.
    change (Ascii.eqb "P" "P") with true. cbv iota. reflexivity.
  - change (is_ascii7 "P") with true. rewrite Hb. cbn [andb negb].
    change (Ascii.eqb "P" "-") with false. cbv iota.
    change (Ascii.eqb "P" "P") with true. cbv iota. reflexivity.
Qed.

Theorem parse_render : forall neg oy omo od t oh omi os,
  int_ok oy = true -> int_ok omo = true -> int_ok od = true ->
  num_ok oh = true -> num_ok omi = true -> num_ok os = true ->
  (t = false -> oh = None /\ omi = None /\ os = None) ->
  dur_parse (render neg oy omo od t oh omi os) =
  TOk (dur_make (oval oy * sgz neg) (oval omo * sgz neg) 0 (oval od * sgz neg)
                (qmul (onum_val oh) (qz (sgz neg))) (qmul (onum_val omi) (qz (sgz neg)))
                (qmul (onum_val os) (qz (sgz neg)))).
Proof.
  intros neg oy omo od t oh omi os Hy Hmo Hd Hh Hmi Hs Ht.
  destruct (int_ok_inv _ Hy) as [Oy _]. destruct (int_ok_inv _ Hmo) as [Omo _].
  destruct (int_ok_inv _ Hd) as [Od _].
  destruct (num_ok_inv _ Hh) as [Ph _]. destruct (num_ok_inv _ Hmi) as [Pmi _].
  destruct (num_ok_inv _ Hs) as [Ps _].
  unfold render.
  set (time := render_time (omap dnum_text oh) (omap dnum_text omi) (omap dnum_text os)).
  set (tail := if t then String "T" time else "").
  set (body := opt_unit oy "Y" (opt_unit omo "M" (opt_unit od "D" tail))).
  assert (Hbody : str_all is_ascii7 body = true).
  { unfold body. repeat (apply ascii7_opt_unit; [eauto using ok_digits_ascii7 | reflexivity |]).
    unfold tail. destruct t; [|reflexivity]. cbn [str_all]. unfold time, render_time.
    repeat (apply ascii7_opt_unit; [eauto using ok_plain_ascii7 | reflexivity |]). reflexivity. }
  assert (Hdate : match_date body = (oy, omo, od, tail)).
  { unfold body. apply match_date_render; auto. unfold tail. destruct t; [reflexivity | exact I]. }
  assert (Hzero : 0 * sgz neg = 0) by (destruct neg; reflexivity).
  rewrite dur_parse_P by assumption.
  unfold re1, re2. cbn [uncons]. change (Ascii.eqb "P" "P") with true. cbv iota.
  rewrite Hdate. unfold tail. destruct t.
  - rewrite at_end_cons by reflexivity.
    cbn [uncons]. change (Ascii.eqb "T" "T") with true. cbv iota.
    unfold time. rewrite match_time_render by assumption.
    rewrite (convert_ok (sgz neg) oy omo od oh omi os None) by auto.
    cbn [oval]. rewrite Hzero. reflexivity.
  - destruct (Ht eq_refl) as [E1 [E2 E3]]. subst oh omi os.
    cbn [at_end].
    pose proof (convert_ok (sgz neg) oy omo od None None None None Hy Hmo Hd eq_refl eq_refl eq_refl eq_refl) as C.
    cbn [omap] in C. rewrite C.
    cbn [oval]. rewrite Hzero. reflexivity.
Qed.

Theorem parse_render_weeks : forall neg ds,
  int_ok (Some ds) = true ->
  dur_parse (render_weeks neg ds) = TOk (dur_make 0 0 (dec_val ds * sgz neg) 0 0 0 0).
Proof.
  intros neg ds H. pose proof (int_ok_inv _ H) as [[Hd Hn] _].
  unfold render_weeks.
  assert (Hb : str_all is_ascii7 (ds ++ "W") = true).
  { rewrite str_all_app. cbn [str_all]. change (is_ascii7 "W") with true.
    rewrite (str_all_impl _ _ _ is_digit_ascii7 Hd). reflexivity. }
  rewrite dur_parse_P by assumption.
  assert (Hdate : match_date (ds ++ "W") = (None, None, None, ds ++ "W")).
  { unfold match_date. rewrite !take_unit_other by (auto; reflexivity). reflexivity. }
  unfold re1, re2, re3. cbn [uncons]. change (Ascii.eqb "P" "P") with true. cbv iota.
  rewrite Hdate.
  destruct ds as [|d r]; [discriminate |]. cbn in Hd. apply andb_true_iff in Hd. destruct Hd as [Hd1 Hd2].
  cbn [String.append]. rewrite at_end_cons by (apply is_digit_neq; [assumption | reflexivity]).
  cbn [uncons]. rewrite (is_digit_neq d "T" Hd1) by reflexivity.
  change (String d (r ++ "W")) with (String d r ++ "W").
  rewrite span_digits_app by (cbn; try rewrite Hd1, Hd2; reflexivity).
  cbn [str_nonempty uncons]. change (Ascii.eqb "W" "W") with true. cbv iota. cbn [at_end].
  pose proof (convert_ok (sgz neg) None None None None None None (Some (String d r)) eq_refl eq_refl eq_refl H eq_refl eq_refl eq_refl) as C.
  cbn [omap] in C. rewrite C.
  cbn [oval onum_val].
  assert (Hzero : 0 * sgz neg = 0) by (destruct neg; reflexivity).
  rewrite Hzero.
  assert (Q0 : qmul 0 (qz (sgz neg)) = 0%Q) by (destruct neg; reflexivity).
  rewrite Q0. reflexivity.
Qed.

(* ------------------------------------------------------------------ *)
(* G. the printer: Duration.__str__ writes a well-formed designator     *)
(*    string whose values are the components                           *)
(* ------------------------------------------------------------------ *)
Lemma pow10_pos : forall k : nat, 0 < 10 ^ Z.of_nat k.
Proof. intros. apply Z.pow_pos_nonneg; lia. Qed.

Lemma dval_int : forall n, 0 <= n -> (dval (show_Z n) "" == inject_Z n)%Q.
Proof.
  intros n Hn. destruct (show_Z_nonneg n Hn) as [_ [_ Hv]].
  unfold dval. rewrite Qred_correct. rewrite Hv.
  change (Z.of_nat (slen "")) with 0. change (10 ^ 0) with 1. change (dec_val "") with 0.
  unfold Qeq, inject_Z. cbn [Qnum Qden Z.to_pos]. lia.
Qed.

Lemma fdig_spec : forall fuel r den f, 0 <= r < den -> fdig fuel r den = Some f ->
  all_digits f = true /\ dec_val f * den = r * 10 ^ Z.of_nat (slen f).
Proof.
  induction fuel; intros r den f Hr; cbn [fdig]; destruct (r =? 0) eqn:E0.
  - intros H. inversion H. subst. split; [reflexivity |]. assert (r = 0) by lia. subst. reflexivity.
  - discriminate.
  - intros H. inversion H. subst. split; [reflexivity |]. assert (r = 0) by lia. subst. reflexivity.
  - destruct (fdig fuel ((r * 10) mod den) den) as [s|] eqn:Es; [|discriminate].
    intros H. inversion H. subst f. clear H.
    assert (Hr' : 0 <= (r * 10) mod den < den) by (apply Z.mod_pos_bound; lia).
    destruct (IHfuel _ _ _ Hr' Es) as [Hd Hv].
    assert (Hq : 0 <= (r * 10) / den <= 9).
    { split; [apply Z.div_pos; lia |].
      assert ((r * 10) / den < 10); [|lia]. apply Z.div_lt_upper_bound; lia. }
    destruct (digit_char_ok _ Hq) as [Hc1 Hc2].
    split; [cbn [all_digits str_all]; rewrite Hc1; exact Hd |].
    rewrite dec_val_cons, Hc2. cbn [slen String.length]. fold (slen s).
    rewrite Nat2Z.inj_succ, Z.pow_succ_r by lia.
    pose proof (Z.div_mod (r * 10) den ltac:(lia)) as Hdm.
    set (P := 10 ^ Z.of_nat (slen s)) in *. set (q := r * 10 / den) in *. set (r' := (r * 10) mod den) in *.
    replace (r * (10 * P)) with ((r * 10) * P) by ring. rewrite Hdm.
    replace ((q * P + dec_val s) * den) with (den * q * P + dec_val s * den) by ring.
    rewrite Hv. ring.
Qed.

(* value of the printed decimal of a positive non-integer fraction *)
Lemma frac_str_spec : forall x s, 0 < Qnum x -> frac_str x = TOk s ->
  exists i f, s = i ++ String "," f /\ dnum_ok (DDec i true f) = true /\ (dval i f == x)%Q.
Proof.
  intros x s Hx. unfold frac_str.
  destruct (Qle_bool (1 # 10000) x); [|discriminate].
  set (n := Qnum x). set (d := Zpos (Qden x)).
  destruct (fdig FDIG_FUEL (n mod d) d) as [f|] eqn:Ef; [|discriminate].
  destruct (float_safe (show_Z (n / d)) f) eqn:Es; [|discriminate].
  intros H. inversion H. clear H.
  assert (Hd : 0 < d) by (unfold d; lia).
  assert (Hr : 0 <= n mod d < d) by (apply Z.mod_pos_bound; lia).
  destruct (fdig_spec _ _ _ _ Hr Ef) as [Hfd Hfv].
  assert (Hip : 0 <= n / d) by (apply Z.div_pos; unfold n; lia).
  destruct (show_Z_nonneg _ Hip) as [Hi1 [Hi2 Hi3]].
  exists (show_Z (n / d)), f. split; [reflexivity | split].
  - cbn [dnum_ok]. rewrite Hi1, Hi2, Hfd, Es. reflexivity.
  - unfold dval. rewrite Qred_correct. rewrite Hi3.
    pose proof (pow10_pos (slen f)) as Hp.
    unfold Qeq. cbn [Qnum Qden]. rewrite Z2Pos.id by assumption.
    fold n. fold d.
    pose proof (Z.div_mod n d ltac:(lia)) as Hdm.
    set (P := 10 ^ Z.of_nat (slen f)) in *.
    replace ((n / d * P + dec_val f) * d) with (d * (n / d) * P + dec_val f * d) by ring.
    rewrite Hfv. rewrite Hdm at 3. ring.
Qed.

Definition opt_text (o : option string) (c : ascii) : string :=
  match o with Some ds => ds ++ String c "" | None => "" end.
Lemma opt_text_unit : forall o c rest, opt_text o c ++ rest = opt_unit o c rest.
Proof. intros [ds|] c rest; cbn [opt_text opt_unit String.append]; [|reflexivity]. rewrite sapp_assoc. reflexivity. Qed.

Lemma z_unit_spec : forall z c s, 0 <= z -> z_unit z (String c "") = TOk s ->
  exists o, int_ok o = true /\ oval o = z /\ s = opt_text o c.
Proof.
  intros z c s Hz. unfold z_unit. destruct (z =? 0) eqn:E.
  - intros H. injection H as Hs. subst s. exists None. cbn. repeat split; lia.
  - unfold int_str, tmap, tbind. rewrite Z.abs_eq by lia.
    destruct (slen (show_Z z) <=? INT_MAX_STR_DIGITS)%nat eqn:El; [|discriminate].
    intros H. injection H as Hs. subst s. destruct (show_Z_nonneg z Hz) as [H1 [H2 H3]].
    exists (Some (show_Z z)). cbn [int_ok oval opt_text]. rewrite H1, H2, El. repeat split; auto.
Qed.

Lemma Qred_sign : forall x, Z.sgn (Qnum (Qred x)) = Z.sgn (Qnum x).
Proof.
  intros x. pose proof (Qred_correct x) as H. unfold Qeq in H.
  assert (S1 : Z.sgn (Qnum (Qred x) * Zpos (Qden x)) = Z.sgn (Qnum (Qred x))).
  { rewrite Z.sgn_mul. cbn [Z.sgn]. lia. }
  assert (S2 : Z.sgn (Qnum x * Zpos (Qden (Qred x))) = Z.sgn (Qnum x)).
  { rewrite Z.sgn_mul. cbn [Z.sgn]. lia. }
  congruence.
Qed.

Lemma q_unit_spec : forall x c s, 0 <= Qnum x -> q_unit x (String c "") = TOk s ->
  exists o, num_ok o = true /\ (onum_val o == x)%Q /\ s = opt_text (omap dnum_text o) c.
Proof.
  intros x c s Hx. unfold q_unit.
  pose proof (Qred_correct x) as Hred. pose proof (Qred_sign x) as Hsg.
  set (r := Qred x) in *.
  destruct (Qeq_bool r 0) eqn:E0.
  - intros H. injection H as Hs. subst s. exists None. cbn. split; [reflexivity | split; [|reflexivity]].
    apply Qeq_bool_eq in E0. rewrite <- Hred. symmetry. exact E0.
  - assert (Hpos : 0 < Qnum r).
    { assert (Qnum r <> 0).
      { intros C. apply Qeq_bool_neq in E0. apply E0. unfold Qeq. cbn. lia. }
      assert (0 <= Qnum r); [|lia]. destruct (Qnum r), (Qnum x); cbn in Hsg; lia. }
    destruct (Zpos (Qden r) =? 1) eqn:E1.
    + rewrite Z.abs_eq by lia.
      destruct (float_safe (show_Z (Qnum r)) "") eqn:Es; [|discriminate].
      intros H. injection H as Hs. subst s.
      destruct (show_Z_nonneg (Qnum r) ltac:(lia)) as [H1 [H2 H3]].
      exists (Some (DInt (show_Z (Qnum r)))). cbn [num_ok dnum_ok onum_val dnum_val omap dnum_text opt_text].
      rewrite H1, H2, Es. split; [reflexivity | split; [|reflexivity]].
      rewrite dval_int by lia. rewrite <- Hred. unfold Qeq, inject_Z. cbn [Qnum Qden]. lia.
    + assert (Hlt : (0 <? Qnum r) = true) by lia. rewrite Hlt.
      unfold tmap, tbind. destruct (frac_str r) as [t| | | |] eqn:Ef; try discriminate.
      intros H. injection H as Hs. subst s.
      destruct (frac_str_spec r t Hpos Ef) as [i [f [Et [Hok Hv]]]].
      exists (Some (DDec i true f)). cbn [num_ok onum_val dnum_val omap dnum_text opt_text].
      split; [exact Hok | split].
      * rewrite Hv. exact Hred.
      * subst t. reflexivity.
Qed.

(* component-wise identity: same form, equal ints, equal rationals *)
Definition dur_equiv (a b : dur) : Prop :=
  match a, b with
  | DW x, DW y => x = y
  | DU y1 m1 d1 h1 i1 s1, DU y2 m2 d2 h2 i2 s2 =>
    y1 = y2 /\ m1 = m2 /\ d1 = d2 /\ (h1 == h2)%Q /\ (i1 == i2)%Q /\ (s1 == s2)%Q
  | _, _ => False
  end.

Definition nonneg_dur (x : dur) : bool :=
  match x with
  | DW w => 0 <=? w
  | DU y mo d h mi s =>
    (0 <=? y) && (0 <=? mo) && (0 <=? d) && (0 <=? Qnum h) && (0 <=? Qnum mi) && (0 <=? Qnum s)
  end.
(* "the non-zero components share one sign" *)
Definition single_signed (x : dur) : bool := nonneg_dur x || fully_negative x.
(* the domain of the model's printer: ints within CPython's 4300 digit limit,
   hours/minutes/seconds finite decimals of at most 15 significant digits and
   not below 1e-4 (see Model/DurText.v) *)
Definition printable (x : dur) : bool := match dur_str x with TOk _ => true | _ => false end.

Lemma qmul_one : forall v, (qmul v (qz 1) == v)%Q.
Proof. intros. unfold qmul, qz. rewrite Qred_correct. change (inject_Z 1) with 1%Q. ring. Qed.
Lemma qmul_mone : forall v, (qmul v (qz (-1)) == - v)%Q.
Proof. intros. unfold qmul, qz. rewrite Qred_correct. change (inject_Z (-1)) with (-1 # 1)%Q. ring. Qed.

(* the scaled duration: what the sign factor makes of the printed absolute values *)
Definition dur_scale (x : dur) (k : Z) : dur :=
  match x with
  | DW w => DW (w * k)
  | DU y mo d h mi s => DU (y * k) (mo * k) (d * k) (h * inject_Z k)%Q (mi * inject_Z k)%Q (s * inject_Z k)%Q
  end.

Lemma body_parse : forall (neg : bool) x text,
  nonneg_dur x = true -> dur_bool x = true -> dur_str_body x = TOk text ->
  exists d', dur_parse ((if neg then "-"%string else ""%string) ++ text)%string = TOk d' /\
             dur_equiv d' (dur_scale x (sgz neg)).
Proof.
  intros neg [w | y mo d h mi s] text Hnn Hb; cbn [dur_str_body nonneg_dur dur_bool] in *.
  - (* weeks *)
    unfold tmap, tbind, int_str. assert (Hw : 0 <= w) by lia. rewrite Z.abs_eq by lia.
    destruct (slen (show_Z w) <=? INT_MAX_STR_DIGITS)%nat eqn:El; [|discriminate].
    intros H. injection H as Hs. subst text.
    destruct (show_Z_nonneg w Hw) as [H1 [H2 H3]].
    assert (Hok : int_ok (Some (show_Z w)) = true) by (cbn [int_ok]; rewrite H1, H2, El; reflexivity).
    pose proof (parse_render_weeks neg (show_Z w) Hok) as P. unfold render_weeks in P.
    cbn [String.append] in *. rewrite P. rewrite H3.
    eexists. split; [reflexivity |].
    unfold dur_make. cbn [dur_scale].
    assert (Hne : (w * sgz neg =? 0) = false) by (destruct neg; cbn [sgz]; lia).
    rewrite Hne. cbn [negb andb Z.eqb qeqb]. change (Qeq_bool 0 0) with true. cbn [andb].
    change (qeqb 0 0) with true. cbn [andb dur_equiv]. generalize (w * sgz neg). intros X. lia.
  - (* units *)
    assert (Hall : 0 <= y /\ 0 <= mo /\ 0 <= d /\ 0 <= Qnum h /\ 0 <= Qnum mi /\ 0 <= Qnum s) by lia.
    destruct Hall as [Ny [Nmo [Nd [Nh [Nmi Ns]]]]].
    unfold tbind.
    destruct (z_unit y "Y") as [ys| | | |] eqn:Ey; try discriminate.
    destruct (z_unit mo "M") as [mos| | | |] eqn:Emo; try discriminate.
    destruct (z_unit d "D") as [ds| | | |] eqn:Ed; try discriminate.
    destruct (q_unit h "H") as [hs| | | |] eqn:Eh; try discriminate.
    destruct (q_unit mi "M") as [mis| | | |] eqn:Emi; try discriminate.
    destruct (q_unit s "S") as [ss| | | |] eqn:Es; try discriminate.
    intros H'. injection H' as Ht. subst text.
    destruct (z_unit_spec _ _ _ Ny Ey) as [oy [Ky [Vy Ty]]].
    destruct (z_unit_spec _ _ _ Nmo Emo) as [omo [Kmo [Vmo Tmo]]].
    destruct (z_unit_spec _ _ _ Nd Ed) as [od [Kd [Vd Td]]].
    destruct (q_unit_spec _ _ _ Nh Eh) as [oh [Kh [Vh Th]]].
    destruct (q_unit_spec _ _ _ Nmi Emi) as [omi [Kmi [Vmi Tmi]]].
    destruct (q_unit_spec _ _ _ Ns Es) as [os [Ks [Vs Ts]]].
    subst ys mos ds hs mis ss.
    set (time := (opt_text (omap dnum_text oh) "H" ++ opt_text (omap dnum_text omi) "M" ++
                  opt_text (omap dnum_text os) "S")%string).
    assert (Etime : time = render_time (omap dnum_text oh) (omap dnum_text omi) (omap dnum_text os)).
    { unfold time, render_time. rewrite !opt_text_unit.
      rewrite <- (opt_text_unit (omap dnum_text os) "S" ""). rewrite sapp_nil_r. reflexivity. }
    set (t := str_nonempty time).
    assert (Htnone : t = false -> oh = None /\ omi = None /\ os = None).
    { unfold t. rewrite Etime. unfold render_time.
      destruct (num_ok_inv _ Kh) as [Ph _]. destruct (num_ok_inv _ Kmi) as [Pmi _].
      destruct (num_ok_inv _ Ks) as [Ps _].
      destruct oh as [nh|]; cbn [omap opt_unit] in *.
      { destruct (dnum_text nh); [contradiction | discriminate]. }
      destruct omi as [nmi|]; cbn [omap opt_unit] in *.
      { destruct (dnum_text nmi); [contradiction | discriminate]. }
      destruct os as [ns|]; cbn [omap opt_unit] in *.
      { destruct (dnum_text ns); [contradiction | discriminate]. }
      auto. }
    assert (Etext : String "P" (opt_text oy "Y" ++ opt_text omo "M" ++ opt_text od "D" ++
                      (if t then String "T" time else ""))%string
                     = String "P" (opt_unit oy "Y" (opt_unit omo "M" (opt_unit od "D"
                         (if t then String "T" (render_time (omap dnum_text oh) (omap dnum_text omi) (omap dnum_text os))
                          else ""%string))))).
    { rewrite !opt_text_unit. rewrite <- Etime. destruct t; reflexivity. }
    fold t. rewrite Etext.
    pose proof (parse_render neg oy omo od t oh omi os Ky Kmo Kd Kh Kmi Ks Htnone) as P.
    unfold render in P. rewrite P.
    eexists. split; [reflexivity |].
    unfold dur_make. cbn [Z.eqb negb andb]. cbn [dur_scale dur_equiv].
    rewrite Vy, Vmo, Vd.
    repeat split; try lia.
    + unfold qmul. rewrite Qred_correct. rewrite Vh. reflexivity.
    + unfold qmul. rewrite Qred_correct. rewrite Vmi. reflexivity.
    + unfold qmul. rewrite Qred_correct. rewrite Vs. reflexivity.
Qed.

(* ------------------------------------------------------------------ *)
(* H. equivalence, ==, and the printer respect each other              *)
(* ------------------------------------------------------------------ *)
Lemma dur_equiv_eqb : forall a b, dur_equiv a b -> dur_eqb a b = true.
Proof.
  intros [w1 | y1 m1 d1 h1 i1 s1] [w2 | y2 m2 d2 h2 i2 s2] H; cbn [dur_equiv] in H; try contradiction.
  - subst. unfold dur_eqb. cbn [is_exact non_nominal_seconds]. unfold qeqb. apply Qeq_bool_refl.
  - destruct H as [E1 [E2 [E3 [Eh [Ei Es]]]]]. subst y2 m2 d2.
    assert (Q : qeqb (non_nominal_seconds (DU y1 m1 d1 h1 i1 s1)) (non_nominal_seconds (DU y1 m1 d1 h2 i2 s2)) = true).
    { unfold qeqb. apply Qeq_eq_bool. cbn [non_nominal_seconds]. rewrite !Qred_correct.
      rewrite Eh, Ei, Es. reflexivity. }
    unfold dur_eqb. cbn [is_exact to_days get_is_in_weeks].
    destruct ((y1 =? 0) && (m1 =? 0)); [exact Q |].
    rewrite Q, !Z.eqb_refl. reflexivity.
Qed.

Lemma qsgn_red : forall h h', Qred h = Qred h' -> qsgn h = qsgn h'.
Proof. intros h h' E. unfold qsgn. rewrite <- (Qred_sign h), <- (Qred_sign h'), E. reflexivity. Qed.
Lemma qeqb0_red : forall h h', Qred h = Qred h' -> qeqb h 0 = qeqb h' 0.
Proof.
  intros h h' E. apply Qred_eq_iff in E. unfold qeqb.
  apply Qeqb_comp; [exact E | reflexivity].
Qed.
Lemma q_unit_red : forall h h' u, Qred h = Qred h' -> q_unit h u = q_unit h' u.
Proof. intros h h' u E. unfold q_unit. rewrite E. reflexivity. Qed.
Lemma qabs_red : forall h h', Qred h = Qred h' -> Qred (Qabs h) = Qred (Qabs h').
Proof. intros h h' E. apply Qred_eq_iff in E. apply Qred_complete. rewrite E. reflexivity. Qed.

Lemma dur_str_equiv : forall a b, dur_equiv a b -> dur_str a = dur_str b.
Proof.
  intros [w1 | y1 m1 d1 h1 i1 s1] [w2 | y2 m2 d2 h2 i2 s2] H; cbn [dur_equiv] in H; try contradiction.
  - subst. reflexivity.
  - destruct H as [E1 [E2 [E3 [Eh [Ei Es]]]]]. subst y2 m2 d2.
    apply Qred_complete in Eh, Ei, Es.
    unfold dur_str. cbn [dur_bool fully_negative dur_abs dur_str_body].
    rewrite (qeqb0_red _ _ Eh), (qeqb0_red _ _ Ei), (qeqb0_red _ _ Es).
    rewrite (qsgn_red _ _ Eh), (qsgn_red _ _ Ei), (qsgn_red _ _ Es).
    rewrite (qabs_red _ _ Eh), (qabs_red _ _ Ei), (qabs_red _ _ Es).
    rewrite (q_unit_red _ _ "H" Eh), (q_unit_red _ _ "M" Ei), (q_unit_red _ _ "S" Es).
    reflexivity.
Qed.

Lemma dur_equiv_trans : forall a b c, dur_equiv a b -> dur_equiv b c -> dur_equiv a c.
Proof.
  intros [w1 | y1 m1 d1 h1 i1 s1] [w2 | y2 m2 d2 h2 i2 s2] [w3 | y3 m3 d3 h3 i3 s3] H1 H2;
  cbn [dur_equiv] in *; try contradiction; [congruence |].
  destruct H1 as [? [? [? [A1 [A2 A3]]]]], H2 as [? [? [? [B1 [B2 B3]]]]].
  repeat split; try congruence; [rewrite A1 | rewrite A2 | rewrite A3]; assumption.
Qed.

(* ------------------------------------------------------------------ *)
(* I. the round trip                                                   *)
(* ------------------------------------------------------------------ *)
Lemma nonneg_not_fully_negative : forall x, nonneg_dur x = true -> fully_negative x = false.
Proof.
  intros [w | y mo d h mi s] H; cbn [nonneg_dur fully_negative] in *; [lia |].
  apply andb_false_iff. right. cbn [existsb]. unfold qsgn. lia.
Qed.

Lemma scale_one_equiv : forall x, dur_equiv (dur_scale x 1) x.
Proof.
  intros [w | y mo d h mi s]; cbn [dur_scale dur_equiv]; [lia |].
  repeat split; try lia; change (inject_Z 1) with 1%Q; ring.
Qed.

Lemma Qnum_nonpos_le : forall h, Qnum h <= 0 -> (h <= 0)%Q.
Proof. intros h H. unfold Qle. cbn. lia. Qed.

Lemma abs_scale_equiv : forall x, fully_negative x = true -> dur_equiv (dur_scale (dur_abs x) (-1)) x.
Proof.
  intros [w | y mo d h mi s] H; cbn [fully_negative dur_abs dur_scale dur_equiv] in *; [lia |].
  apply andb_true_iff in H. destruct H as [H _]. cbn [forallb] in H. unfold qsgn in H.
  assert (A : y <= 0 /\ mo <= 0 /\ d <= 0 /\ Qnum h <= 0 /\ Qnum mi <= 0 /\ Qnum s <= 0) by lia.
  destruct A as [A1 [A2 [A3 [A4 [A5 A6]]]]].
  repeat split; try lia; rewrite Qred_correct, Qabs_neg by (now apply Qnum_nonpos_le);
  change (inject_Z (-1)) with (-1 # 1)%Q; ring.
Qed.

Lemma abs_nonneg : forall x, nonneg_dur (dur_abs x) = true.
Proof.
  intros [w | y mo d h mi s]; cbn [dur_abs nonneg_dur]; [lia |].
  assert (K : forall q, 0 <= Qnum (Qred (Qabs q))).
  { intros q. pose proof (Qred_sign (Qabs q)) as S.
    assert (0 <= Qnum (Qabs q)) by (destruct q as [n dd]; cbn; lia). lia. }
  pose proof (K h). pose proof (K mi). pose proof (K s). lia.
Qed.

Lemma abs_bool : forall x, dur_bool (dur_abs x) = dur_bool x.
Proof.
  intros [w | y mo d h mi s]; cbn [dur_abs dur_bool]; [f_equal; lia |].
  assert (K : forall q, qeqb (Qred (Qabs q)) 0 = qeqb q 0).
  { intros q. unfold qeqb. destruct (Qeq_bool q 0) eqn:E.
    - apply Qeq_bool_eq in E. apply Qeq_eq_bool. rewrite Qred_correct, E. reflexivity.
    - destruct (Qeq_bool (Qred (Qabs q)) 0) eqn:E'; [|reflexivity].
      apply Qeq_bool_eq in E'. rewrite Qred_correct in E'.
      apply Qeq_bool_neq in E. exfalso. apply E.
      destruct q as [n dd]. unfold Qeq in *. cbn in *. lia. }
  rewrite !K.
  assert (A1 : (Z.abs y =? 0) = (y =? 0)) by lia.
  assert (A2 : (Z.abs mo =? 0) = (mo =? 0)) by lia.
  assert (A3 : (Z.abs d =? 0) = (d =? 0)) by lia.
  rewrite A1, A2, A3. reflexivity.
Qed.

Theorem roundtrip_full : forall x s,
  single_signed x = true -> dur_str x = TOk s ->
  exists x', dur_parse s = TOk x' /\ dur_eqb x' x = true /\ dur_str x' = TOk s /\
             (dur_bool x = true -> dur_equiv x' x).
Proof.
  intros x s Hss. unfold dur_str at 1.
  destruct (dur_bool x) eqn:Hb; cbn [negb].
  - destruct (fully_negative x) eqn:Hfn.
    + (* "-" ++ str (abs x) *)
      unfold tmap, tbind. destruct (dur_str_body (dur_abs x)) as [t| | | |] eqn:Eb; try discriminate.
      intros H. injection H as Hs. subst s.
      assert (Hb' : dur_bool (dur_abs x) = true) by (rewrite abs_bool; exact Hb).
      destruct (body_parse true _ _ (abs_nonneg x) Hb' Eb) as [x' [P E]].
      exists x'. assert (Ex : dur_equiv x' x) by (eapply dur_equiv_trans; [exact E | now apply abs_scale_equiv]).
      split; [exact P | split; [now apply dur_equiv_eqb | split; [|auto]]].
      rewrite (dur_str_equiv _ _ Ex). unfold dur_str. rewrite Hb, Hfn. cbn [negb].
      unfold tmap, tbind. rewrite Eb. reflexivity.
    + unfold single_signed in Hss. rewrite Hfn, orb_false_r in Hss.
      intros Eb.
      destruct (body_parse false _ _ Hss Hb Eb) as [x' [P E]].
      exists x'. assert (Ex : dur_equiv x' x) by (eapply dur_equiv_trans; [exact E | apply scale_one_equiv]).
      split; [exact P | split; [now apply dur_equiv_eqb | split; [|auto]]].
      rewrite (dur_str_equiv _ _ Ex). unfold dur_str. rewrite Hb, Hfn. cbn [negb]. exact Eb.
  - intros H. injection H as Hs. subst s.
    exists (DU 0 0 0 0 0 0). split; [vm_compute; reflexivity | split; [|split; [vm_compute; reflexivity | discriminate]]].
    destruct x as [w | y mo d h mi se]; cbn [dur_bool] in Hb.
    + assert (w = 0) by lia. subst. reflexivity.
    + apply negb_false_iff in Hb. repeat (apply andb_true_iff in Hb; destruct Hb as [Hb ?]).
      assert (y = 0 /\ mo = 0 /\ d = 0) by lia. destruct H4 as [? [? ?]]. subst.
      unfold qeqb in *. apply Qeq_bool_eq in H, H0, H1.
      unfold dur_eqb. cbn [is_exact Z.eqb andb non_nominal_seconds]. unfold qeqb. apply Qeq_eq_bool.
      rewrite !Qred_correct. rewrite H, H0, H1. reflexivity.
Qed.

Theorem C10_roundtrip_lemma : forall x, single_signed x = true -> printable x = true ->
  exists s x', dur_str x = TOk s /\ dur_parse s = TOk x' /\ dur_eqb x' x = true.
Proof.
  intros x Hs Hp. unfold printable in Hp. destruct (dur_str x) as [s| | | |] eqn:E; try discriminate.
  destruct (roundtrip_full x s Hs E) as [x' [P [Q _]]]. exists s, x'. auto.
Qed.
Theorem C10_fixpoint_lemma : forall x, single_signed x = true -> printable x = true ->
  exists s x', dur_str x = TOk s /\ dur_parse s = TOk x' /\ dur_str x' = TOk s.
Proof.
  intros x Hs Hp. unfold printable in Hp. destruct (dur_str x) as [s| | | |] eqn:E; try discriminate.
  destruct (roundtrip_full x s Hs E) as [x' [P [_ [Q _]]]]. exists s, x'. auto.
Qed.
Theorem C10_components_lemma : forall x, single_signed x = true -> printable x = true -> dur_bool x = true ->
  exists s x', dur_str x = TOk s /\ dur_parse s = TOk x' /\ dur_equiv x' x.
Proof.
  intros x Hs Hp Hb. unfold printable in Hp. destruct (dur_str x) as [s| | | |] eqn:E; try discriminate.
  destruct (roundtrip_full x s Hs E) as [x' [P [_ [_ Q]]]]. exists s, x'. auto.
Qed.

(* ------------------------------------------------------------------ *)
(* J. the date-time-like spelling                                      *)
(* ------------------------------------------------------------------ *)
Definition field_ok (n : nat) (s : string) : bool := all_digits s && (slen s =? n)%nat.
(* P[YYYY]-[MM]-[DD]T[hh]:[mm]:[ss] and P[YYYY][MM][DD]T[hh][mm][ss] *)
Definition alt_cal (ext : bool) (Y M D h mi s : string) : string :=
  if ext then String "P" (Y ++ String "-" (M ++ String "-" (D ++ String "T" (h ++ String ":" (mi ++ String ":" s)))))
  else String "P" ((Y ++ M ++ D) ++ String "T" (h ++ mi ++ s)).
(* P[YYYY]-[DDD]T[hh]:[mm]:[ss] and P[YYYY][DDD]T[hh][mm][ss] *)
Definition alt_ord (ext : bool) (Y DDD h mi s : string) : string :=
  if ext then String "P" (Y ++ String "-" (DDD ++ String "T" (h ++ String ":" (mi ++ String ":" s))))
  else String "P" ((Y ++ DDD) ++ String "T" (h ++ mi ++ s)).

Lemma field_inv : forall n s, field_ok n s = true -> all_digits s = true /\ slen s = n.
Proof. unfold field_ok. intros n s H. apply andb_true_iff in H. destruct H as [H1 H2]. apply Nat.eqb_eq in H2. auto. Qed.
Lemma field_head : forall n s, field_ok (S n) s = true ->
  exists c r, s = String c r /\ is_digit c = true /\ all_digits r = true.
Proof.
  intros n s H. apply field_inv in H. destruct H as [H1 H2]. destruct s as [|c r]; [discriminate |].
  cbn in H1. apply andb_true_iff in H1. destruct H1. eauto.
Qed.
Lemma digits_ascii7 : forall s, all_digits s = true -> str_all is_ascii7 s = true.
Proof. intros s. apply str_all_impl. apply is_digit_ascii7. Qed.

Lemma alt_time_ext_ok : forall h mi s, field_ok 2 h = true -> field_ok 2 mi = true -> field_ok 2 s = true ->
  alt_time_ext (h ++ String ":" (mi ++ String ":" s)) = Some (h, mi, s).
Proof.
  intros h mi s Hh Hmi Hs. apply field_inv in Hh, Hmi, Hs.
  destruct Hh as [A1 A2], Hmi as [B1 B2], Hs as [C1 C2].
  unfold alt_time_ext. rewrite span_digits_app by (auto; reflexivity).
  cbn [uncons]. change (Ascii.eqb ":" ":") with true. cbv iota.
  rewrite span_digits_app by (auto; reflexivity).
  cbn [uncons]. change (Ascii.eqb ":" ":") with true. cbv iota.
  rewrite span_digits_all by assumption. cbn [str_nonempty]. rewrite A2, B2, C2. reflexivity.
Qed.

Lemma stake_app : forall a b, stake (slen a) (a ++ b) = a.
Proof. induction a; intros; cbn; [destruct b; reflexivity | now rewrite IHa]. Qed.
Lemma sdrop_app : forall a b, sdrop (slen a) (a ++ b) = b.
Proof. induction a; intros; cbn; [destruct b; reflexivity | apply IHa]. Qed.
Lemma stake_all : forall a, stake (slen a) a = a.
Proof. intros. rewrite <- (sapp_nil_r a) at 2. apply stake_app. Qed.

Lemma all_digits_app : forall a b, all_digits (a ++ b) = all_digits a && all_digits b.
Proof. intros. apply str_all_app. Qed.

Lemma alt_time_basic_ok : forall h mi s, field_ok 2 h = true -> field_ok 2 mi = true -> field_ok 2 s = true ->
  alt_time_basic (h ++ mi ++ s) = Some (h, mi, s).
Proof.
  intros h mi s Hh Hmi Hs. apply field_inv in Hh, Hmi, Hs.
  destruct Hh as [A1 A2], Hmi as [B1 B2], Hs as [C1 C2].
  unfold alt_time_basic. rewrite span_digits_all by (rewrite !all_digits_app, A1, B1, C1; reflexivity).
  cbn [str_nonempty]. rewrite !slen_app, A2, B2, C2. cbn [Nat.add Nat.eqb].
  destruct h as [|h1 [|h2 [|? ?]]]; try discriminate A2.
  destruct mi as [|m1 [|m2 [|? ?]]]; try discriminate B2.
  destruct s as [|s1 [|s2 [|? ?]]]; try discriminate C2.
  reflexivity.
Qed.

Definition alt_value (Y M D h mi s : string) : dur :=
  dur_make (dec_val Y) (dec_val M) 0 (dec_val D) (qz (dec_val h)) (qz (dec_val mi)) (qz (dec_val s)).

(* the three designator regexes do not match a string that starts P<digits><x>
   with x none of Y M D T W *)
Lemma regexes_miss : forall a x r,
  all_digits a = true -> str_nonempty a = true -> is_digit x = false ->
  Ascii.eqb x "Y" = false -> Ascii.eqb x "M" = false -> Ascii.eqb x "D" = false ->
  Ascii.eqb x "W" = false ->
  re1 (String "P" (a ++ String x r)) = None /\ re2 (String "P" (a ++ String x r)) = None /\
  re3 (String "P" (a ++ String x r)) = None.
Proof.
  intros a x r Ha Hn Hx HY HM HD HW.
  assert (Hdate : match_date (a ++ String x r) = (None, None, None, a ++ String x r)).
  { unfold match_date. rewrite !take_unit_other by auto. reflexivity. }
  unfold re1, re2, re3. cbn [uncons]. change (Ascii.eqb "P" "P") with true. cbv iota. rewrite Hdate.
  destruct a as [|c a']; [discriminate |]. cbn in Ha. apply andb_true_iff in Ha. destruct Ha as [Hc Ha'].
  cbn [String.append]. rewrite at_end_cons by (apply is_digit_neq; [assumption | reflexivity]).
  cbn [uncons]. rewrite (is_digit_neq c "T" Hc) by reflexivity.
  change (String c (a' ++ String x r)) with (String c a' ++ String x r).
  rewrite span_digits_app by (cbn; try rewrite Hc, Ha'; auto).
  cbn [str_nonempty uncons]. rewrite HW. auto.
Qed.

Lemma uncons_digits : forall k n m r, field_ok (S n) m = true -> is_digit k = false -> uncons k (m ++ r) = None.
Proof.
  intros k n m r H Hk. destruct (field_head _ _ H) as [c [m' [E [Hc _]]]]. subst m.
  cbn [String.append uncons]. rewrite (is_digit_neq c k Hc Hk). reflexivity.
Qed.

Lemma dval_int' : forall i, (dval i "" == inject_Z (dec_val i))%Q.
Proof.
  intros i. unfold dval. rewrite Qred_correct.
  change (Z.of_nat (slen "")) with 0. change (10 ^ 0) with 1. change (dec_val "") with 0.
  unfold Qeq, inject_Z. cbn [Qnum Qden Z.to_pos]. lia.
Qed.

Lemma field_int_ok : forall n s, field_ok (S n) s = true -> (S n <=? INT_MAX_STR_DIGITS)%nat = true ->
  int_ok (Some s) = true.
Proof.
  intros n s H Hn. destruct (field_head _ _ H) as [c [r [E _]]]. apply field_inv in H. destruct H as [H1 H2].
  cbn [int_ok]. rewrite H1, H2, Hn. subst s. reflexivity.
Qed.
Lemma field2_num_ok : forall s, field_ok 2 s = true -> num_ok (Some (DInt s)) = true.
Proof.
  intros s H. apply field_inv in H. destruct H as [H1 H2].
  destruct s as [|a [|b [|? ?]]]; try discriminate H2.
  cbn [num_ok dnum_ok]. rewrite H1. cbn [str_nonempty andb].
  unfold float_safe. cbn [rstrip0 String.append lstrip0].
  destruct (Ascii.eqb a "0"), (Ascii.eqb b "0"); reflexivity.
Qed.

Lemma alt_vs_designators : forall Y oM D h mi s n,
  field_ok 4 Y = true -> (match oM with Some M => field_ok 2 M = true | None => True end) ->
  field_ok (S n) D = true -> (S n <=? INT_MAX_STR_DIGITS)%nat = true ->
  field_ok 2 h = true -> field_ok 2 mi = true -> field_ok 2 s = true ->
  exists d2,
    dur_parse (render false (Some Y) oM (Some D) true (Some (DInt h)) (Some (DInt mi)) (Some (DInt s))) = TOk d2 /\
    dur_equiv (alt_value Y (match oM with Some M => M | None => "0" end) D h mi s) d2.
Proof.
  intros Y oM D h mi s n HY HM HD Hn Hh Hmi Hs.
  assert (KM : int_ok oM = true).
  { destruct oM as [M|]; [|reflexivity]. apply (field_int_ok 1); [assumption | reflexivity]. }
  rewrite parse_render;
    [| apply (field_int_ok 3); [assumption | reflexivity] | exact KM | apply (field_int_ok n); assumption
     | now apply field2_num_ok | now apply field2_num_ok | now apply field2_num_ok | discriminate].
  eexists. split; [reflexivity |].
  unfold alt_value, dur_make. cbn [Z.eqb negb andb sgz oval onum_val dnum_val dur_equiv].
  repeat split; try lia.
  - destruct oM; cbn [oval]; [lia | reflexivity].
  - rewrite qmul_one, dval_int'. reflexivity.
  - rewrite qmul_one, dval_int'. reflexivity.
  - rewrite qmul_one, dval_int'. reflexivity.
Qed.

Ltac ascii7_tac :=
  repeat first [ rewrite str_all_app | progress cbn [str_all] | rewrite digits_ascii7 by assumption ];
  reflexivity.

Theorem alt_calendar_spelling : forall ext Y M D h mi s,
  field_ok 4 Y = true -> field_ok 2 M = true -> field_ok 2 D = true ->
  field_ok 2 h = true -> field_ok 2 mi = true -> field_ok 2 s = true ->
  dur_parse (alt_cal ext Y M D h mi s) = TOk (alt_value Y M D h mi s) /\
  exists d2,
    dur_parse (render false (Some Y) (Some M) (Some D) true (Some (DInt h)) (Some (DInt mi)) (Some (DInt s))) = TOk d2 /\
    dur_equiv (alt_value Y M D h mi s) d2 /\ dur_eqb (alt_value Y M D h mi s) d2 = true.
Proof.
  intros ext Y M D h mi s HY HM HD Hh Hmi Hs.
  split.
  2:{ destruct (alt_vs_designators Y (Some M) D h mi s 1 HY HM HD eq_refl Hh Hmi Hs) as [d2 [P E]].
      exists d2. split; [exact P | split; [exact E | now apply dur_equiv_eqb]]. }
  pose proof (field_inv _ _ HY) as [AY LY]. pose proof (field_inv _ _ HM) as [AM LM].
  pose proof (field_inv _ _ HD) as [AD LD]. pose proof (field_inv _ _ Hh) as [Ah Lh].
  pose proof (field_inv _ _ Hmi) as [Ami Lmi]. pose proof (field_inv _ _ Hs) as [As Ls].
  destruct ext; unfold alt_cal.
  - (* extended *)
    set (t := (h ++ String ":" (mi ++ String ":" s))%string).
    set (r3 := (D ++ String "T" t)%string). set (r1 := (M ++ String "-" r3)%string).
    set (body := (Y ++ String "-" r1)%string).
    assert (Hb : str_all is_ascii7 body = true).
    { unfold body, r1, r3, t. ascii7_tac. }
    change (String "P" body) with ((if false then "-"%string else ""%string) ++ String "P" body)%string.
    rewrite dur_parse_P by exact Hb.
    assert (NY : str_nonempty Y = true) by (destruct Y; [discriminate LY | reflexivity]).
    destruct (regexes_miss Y "-" r1 AY NY eq_refl eq_refl eq_refl eq_refl eq_refl) as [R1 [R2 R3]].
    fold body in R1, R2, R3. rewrite R1, R2, R3.
    unfold alt_parse, alt_forms, body. rewrite span_digits_app by (auto; reflexivity).
    cbn [uncons]. change (Ascii.eqb "-" "-") with true. cbv iota. rewrite LY. cbn [Nat.eqb].
    unfold alt_extended, r1. rewrite (uncons_digits "W" 1 M _ HM eq_refl).
    rewrite span_digits_app by (auto; reflexivity).
    cbn [uncons]. change (Ascii.eqb "-" "T") with false. change (Ascii.eqb "-" "-") with true. cbv iota.
    unfold r3. rewrite span_digits_app by (auto; reflexivity).
    cbn [uncons]. change (Ascii.eqb "T" "T") with true. cbv iota.
    unfold t. rewrite alt_time_ext_ok by assumption. rewrite LM, LD. cbn [Nat.eqb andb].
    reflexivity.
  - (* basic *)
    set (t := (h ++ mi ++ s)%string). set (a := (Y ++ M ++ D)%string).
    assert (Aa : all_digits a = true) by (unfold a; rewrite !all_digits_app, AY, AM, AD; reflexivity).
    assert (At : all_digits t = true) by (unfold t; rewrite !all_digits_app, Ah, Ami, As; reflexivity).
    assert (Hb : str_all is_ascii7 (a ++ String "T" t) = true).
    { ascii7_tac. }
    change (String "P" (a ++ String "T" t)) with
      ((if false then "-"%string else ""%string) ++ String "P" (a ++ String "T" t))%string.
    rewrite dur_parse_P by exact Hb.
    assert (Na : str_nonempty a = true) by (unfold a; destruct Y; [discriminate LY | reflexivity]).
    destruct (regexes_miss a "T" t Aa Na eq_refl eq_refl eq_refl eq_refl eq_refl) as [R1 [R2 R3]].
    rewrite R1, R2, R3.
    unfold alt_parse, alt_forms. rewrite span_digits_app by (auto; reflexivity).
    cbn [uncons]. change (Ascii.eqb "T" "-") with false. cbv iota.
    unfold alt_basic. cbn [uncons]. change (Ascii.eqb "T" "T") with true. cbv iota.
    unfold t. rewrite alt_time_basic_ok by assumption.
    unfold a. rewrite !slen_app, LY, LM, LD. cbn [Nat.add Nat.eqb].
    destruct Y as [|y1 [|y2 [|y3 [|y4 [|? ?]]]]]; try discriminate LY.
    destruct M as [|m1 [|m2 [|? ?]]]; try discriminate LM.
    destruct D as [|d1 [|d2 [|? ?]]]; try discriminate LD.
    reflexivity.
Qed.

Theorem alt_ordinal_spelling : forall ext Y DDD h mi s,
  field_ok 4 Y = true -> field_ok 3 DDD = true ->
  field_ok 2 h = true -> field_ok 2 mi = true -> field_ok 2 s = true ->
  dur_parse (alt_ord ext Y DDD h mi s) = TOk (alt_value Y "0" DDD h mi s) /\
  exists d2,
    dur_parse (render false (Some Y) None (Some DDD) true (Some (DInt h)) (Some (DInt mi)) (Some (DInt s))) = TOk d2 /\
    dur_equiv (alt_value Y "0" DDD h mi s) d2 /\ dur_eqb (alt_value Y "0" DDD h mi s) d2 = true.
Proof.
  intros ext Y D h mi s HY HD Hh Hmi Hs.
  split.
  2:{ destruct (alt_vs_designators Y None D h mi s 2 HY I HD eq_refl Hh Hmi Hs) as [d2 [P E]].
      exists d2. split; [exact P | split; [exact E | now apply dur_equiv_eqb]]. }
  pose proof (field_inv _ _ HY) as [AY LY].
  pose proof (field_inv _ _ HD) as [AD LD]. pose proof (field_inv _ _ Hh) as [Ah Lh].
  pose proof (field_inv _ _ Hmi) as [Ami Lmi]. pose proof (field_inv _ _ Hs) as [As Ls].
  destruct ext; unfold alt_ord.
  - set (t := (h ++ String ":" (mi ++ String ":" s))%string).
    set (r1 := (D ++ String "T" t)%string).
    set (body := (Y ++ String "-" r1)%string).
    assert (Hb : str_all is_ascii7 body = true).
    { unfold body, r1, t. ascii7_tac. }
    change (String "P" body) with ((if false then "-"%string else ""%string) ++ String "P" body)%string.
    rewrite dur_parse_P by exact Hb.
    assert (NY : str_nonempty Y = true) by (destruct Y; [discriminate LY | reflexivity]).
    destruct (regexes_miss Y "-" r1 AY NY eq_refl eq_refl eq_refl eq_refl eq_refl) as [R1 [R2 R3]].
    fold body in R1, R2, R3. rewrite R1, R2, R3.
    unfold alt_parse, alt_forms, body. rewrite span_digits_app by (auto; reflexivity).
    cbn [uncons]. change (Ascii.eqb "-" "-") with true. cbv iota. rewrite LY. cbn [Nat.eqb].
    unfold alt_extended, r1. rewrite (uncons_digits "W" 2 D _ HD eq_refl).
    rewrite span_digits_app by (auto; reflexivity).
    cbn [uncons]. change (Ascii.eqb "T" "T") with true. cbv iota.
    unfold t. rewrite alt_time_ext_ok by assumption. rewrite LD. cbn [Nat.eqb].
    reflexivity.
  - set (t := (h ++ mi ++ s)%string). set (a := (Y ++ D)%string).
    assert (Aa : all_digits a = true) by (unfold a; rewrite !all_digits_app, AY, AD; reflexivity).
    assert (Hb : str_all is_ascii7 (a ++ String "T" t) = true).
    { unfold t. ascii7_tac. }
    change (String "P" (a ++ String "T" t)) with
      ((if false then "-"%string else ""%string) ++ String "P" (a ++ String "T" t))%string.
    rewrite dur_parse_P by exact Hb.
    assert (Na : str_nonempty a = true) by (unfold a; destruct Y; [discriminate LY | reflexivity]).
    destruct (regexes_miss a "T" t Aa Na eq_refl eq_refl eq_refl eq_refl eq_refl) as [R1 [R2 R3]].
    rewrite R1, R2, R3.
    unfold alt_parse, alt_forms. rewrite span_digits_app by (auto; reflexivity).
    cbn [uncons]. change (Ascii.eqb "T" "-") with false. cbv iota.
    unfold alt_basic. cbn [uncons]. change (Ascii.eqb "T" "T") with true. cbv iota.
    unfold t. rewrite alt_time_basic_ok by assumption.
    unfold a. rewrite !slen_app, LY, LD. cbn [Nat.add Nat.eqb].
    destruct Y as [|y1 [|y2 [|y3 [|y4 [|? ?]]]]]; try discriminate LY.
    destruct D as [|d1 [|d2 [|d3 [|? ?]]]]; try discriminate LD.
    reflexivity.
Qed.

(* ------------------------------------------------------------------ *)
(* K. an explicit part of the printable domain: integer components     *)
(* ------------------------------------------------------------------ *)
From Coq Require Import DecimalFacts DecimalN.

Lemma to_uint_head : forall p u, Pos.to_uint p <> Decimal.D0 u.
Proof.
  intros p u E.
  assert (F : Pos.to_uint p = Decimal.unorm (Pos.to_uint p)).
  { change (Pos.to_uint p) with (N.to_uint (N.pos p)) at 1.
    rewrite <- (DecimalN.Unsigned.of_to (N.pos p)) at 1. rewrite DecimalN.Unsigned.to_of. reflexivity. }
  destruct (Decimal.uint_eq_dec (Decimal.nzhead (Pos.to_uint p)) Decimal.Nil) as [Hn | Hn].
  - apply unorm_0 in Hn. rewrite Hn in F. exact (Unsigned.to_uint_nonzero p F).
  - rewrite (unorm_nzhead _ Hn) in F. rewrite E in F at 1. symmetry in F. exact (nzhead_nonzero _ _ F).
Qed.

Lemma dec_val_nonneg : forall s, all_digits s = true -> 0 <= dec_val s.
Proof.
  intros s. unfold dec_val. assert (G : forall a, 0 <= a -> all_digits s = true -> 0 <= dec_acc s a).
  { induction s; intros a0 Ha H; cbn [dec_acc]; [assumption |].
    cbn in H. apply andb_true_iff in H. destruct H as [H1 H2]. apply IHs; [|assumption].
    unfold is_digit in H1. cbv zeta in H1. unfold digit_val. lia. }
  apply G. lia.
Qed.

Lemma digits_len_bound : forall c r n, is_digit c = true -> all_digits r = true -> 1 <= digit_val c ->
  dec_val (String c r) < 10 ^ Z.of_nat n -> (slen (String c r) <= n)%nat.
Proof.
  intros c r n Hc Hr H1 Hlt. rewrite dec_val_cons in Hlt.
  pose proof (dec_val_nonneg r Hr) as Hnn. pose proof (pow10_pos (slen r)) as Hp.
  assert (10 ^ Z.of_nat (slen r) < 10 ^ Z.of_nat n) by nia.
  apply Z.pow_lt_mono_r_iff in H; try lia. cbn [slen String.length]. fold (slen r). lia.
Qed.

Lemma show_Z_len : forall z n, 0 <= z < 10 ^ Z.of_nat n -> (1 <= n)%nat -> (slen (show_Z z) <= n)%nat.
Proof.
  intros z n Hz Hn. destruct (show_Z_nonneg z ltac:(lia)) as [H1 [H2 H3]].
  destruct z as [|p|p]; [cbn; lia | | lia].
  unfold show_Z in *. cbn [Z.to_int NilZero.string_of_int] in *.
  pose proof (to_uint_head p) as Hh. pose proof (Unsigned.to_uint_nonnil p) as Hnil.
  destruct (Pos.to_uint p) as [|u|u|u|u|u|u|u|u|u|u] eqn:Eu; try congruence;
    try (exfalso; eapply Hh; reflexivity);
    cbn [NilZero.string_of_uint NilEmpty.string_of_uint] in *;
    (apply digits_len_bound; [reflexivity | apply nilempty_digits | vm_compute; discriminate | rewrite H3; lia]).
Qed.

Lemma lstrip0_len : forall s, (slen (lstrip0 s) <= slen s)%nat.
Proof.
  unfold slen. induction s; cbn [lstrip0 String.length]; [lia |].
  destruct (Ascii.eqb a "0"); cbn [String.length]; lia.
Qed.

Lemma Qred_inject : forall n, Qred (inject_Z n) = inject_Z n.
Proof.
  intros. unfold Qred, inject_Z.
  pose proof (Z.ggcd_gcd n 1) as G. pose proof (Z.ggcd_correct_divisors n 1) as D.
  destruct (Z.ggcd n 1) as [g [a b]]. cbn [fst snd] in *. rewrite Z.gcd_1_r in G. subst g.
  destruct D as [D1 D2]. rewrite Z.mul_1_l in D1, D2. subst a. subst b. reflexivity.
Qed.

Definition is_ok {A} (r : tres A) : bool := match r with TOk _ => true | _ => false end.

Lemma z_unit_defined : forall z u, Z.abs z < 10 ^ 4300 -> is_ok (z_unit z u) = true.
Proof.
  intros z u H. unfold z_unit. destruct (z =? 0); [reflexivity |].
  unfold tmap, tbind, int_str.
  assert (L : (slen (show_Z (Z.abs z)) <= 4300)%nat).
  { apply show_Z_len; [|apply Nat.lt_0_succ]. change (Z.of_nat 4300) with 4300.
    split; [apply Z.abs_nonneg | exact H]. }
  apply Nat.leb_le in L. unfold INT_MAX_STR_DIGITS. rewrite L. reflexivity.
Qed.
Lemma q_unit_int_defined : forall z u, Z.abs z < 10 ^ 15 -> is_ok (q_unit (inject_Z z) u) = true.
Proof.
  intros z u H. unfold q_unit. rewrite Qred_inject.
  destruct (Qeq_bool (inject_Z z) 0); [reflexivity |]. cbn [inject_Z Qden Qnum Z.eqb Pos.eqb].
  assert (L : (slen (show_Z (Z.abs z)) <= 15)%nat).
  { apply show_Z_len; [|lia]. change (Z.of_nat 15) with 15. lia. }
  assert (F : float_safe (show_Z (Z.abs z)) "" = true).
  { unfold float_safe. cbn [rstrip0]. rewrite sapp_nil_r.
    pose proof (lstrip0_len (show_Z (Z.abs z))). apply andb_true_iff. split; [apply Nat.leb_le; lia | reflexivity]. }
  rewrite F. reflexivity.
Qed.

Lemma body_int_defined : forall y mo d h mi s,
  Z.abs y < 10 ^ 4300 -> Z.abs mo < 10 ^ 4300 -> Z.abs d < 10 ^ 4300 ->
  Z.abs h < 10 ^ 15 -> Z.abs mi < 10 ^ 15 -> Z.abs s < 10 ^ 15 ->
  is_ok (dur_str_body (DU y mo d (inject_Z h) (inject_Z mi) (inject_Z s))) = true.
Proof.
  intros y mo d h mi s Hy Hmo Hd Hh Hmi Hs. cbn [dur_str_body]. unfold tbind.
  pose proof (z_unit_defined y "Y" Hy). pose proof (z_unit_defined mo "M" Hmo).
  pose proof (z_unit_defined d "D" Hd). pose proof (q_unit_int_defined h "H" Hh).
  pose proof (q_unit_int_defined mi "M" Hmi). pose proof (q_unit_int_defined s "S" Hs).
  destruct (z_unit y "Y"); try discriminate. destruct (z_unit mo "M"); try discriminate.
  destruct (z_unit d "D"); try discriminate. destruct (q_unit (inject_Z h) "H"); try discriminate.
  destruct (q_unit (inject_Z mi) "M"); try discriminate. destruct (q_unit (inject_Z s) "S"); try discriminate.
  reflexivity.
Qed.

(* every duration with integer components of at most 4300 digits (years,
   months, days, weeks) and 15 digits (hours, minutes, seconds) is printable *)
Theorem printable_int_units : forall y mo d h mi s,
  Z.abs y < 10 ^ 4300 -> Z.abs mo < 10 ^ 4300 -> Z.abs d < 10 ^ 4300 ->
  Z.abs h < 10 ^ 15 -> Z.abs mi < 10 ^ 15 -> Z.abs s < 10 ^ 15 ->
  printable (DU y mo d (inject_Z h) (inject_Z mi) (inject_Z s)) = true.
Proof.
  intros y mo d h mi s Hy Hmo Hd Hh Hmi Hs. unfold printable, dur_str.
  destruct (negb (dur_bool _)); [reflexivity |].
  destruct (fully_negative _).
  - cbn [dur_abs]. unfold tmap, tbind.
    assert (A : forall q, Qred (Qabs (inject_Z q)) = inject_Z (Z.abs q)).
    { intros q. change (Qabs (inject_Z q)) with (inject_Z (Z.abs q)). apply Qred_inject. }
    rewrite !A.
    pose proof (body_int_defined (Z.abs y) (Z.abs mo) (Z.abs d) (Z.abs h) (Z.abs mi) (Z.abs s)) as B.
    rewrite !Z.abs_involutive in B. specialize (B Hy Hmo Hd Hh Hmi Hs).
    destruct (dur_str_body _); try discriminate. reflexivity.
  - pose proof (body_int_defined y mo d h mi s Hy Hmo Hd Hh Hmi Hs) as B.
    destruct (dur_str_body _); try discriminate. reflexivity.
Qed.
Theorem printable_weeks : forall w, Z.abs w < 10 ^ 4300 -> printable (DW w) = true.
Proof.
  intros w H. unfold printable, dur_str. destruct (negb (dur_bool _)); [reflexivity |].
  assert (L : forall z, Z.abs z < 10 ^ 4300 -> is_ok (dur_str_body (DW z)) = true).
  { intros z Hz. cbn [dur_str_body]. unfold tmap, tbind, int_str.
    assert (L : (slen (show_Z (Z.abs z)) <= 4300)%nat).
    { apply show_Z_len; [|apply Nat.lt_0_succ]. change (Z.of_nat 4300) with 4300.
      split; [apply Z.abs_nonneg | exact Hz]. }
    apply Nat.leb_le in L. unfold INT_MAX_STR_DIGITS. rewrite L. reflexivity. }
  destruct (fully_negative _).
  - cbn [dur_abs]. unfold tmap, tbind. pose proof (L (Z.abs w)) as B. rewrite Z.abs_involutive in B.
    specialize (B H). destruct (dur_str_body _); try discriminate. reflexivity.
  - pose proof (L w H) as B. destruct (dur_str_body _); try discriminate. reflexivity.
Qed.

(* the integer-component case in closed form *)
Theorem roundtrip_int_units : forall y mo d h mi s,
  let x := DU y mo d (inject_Z h) (inject_Z mi) (inject_Z s) in
  Z.abs y < 10 ^ 4300 -> Z.abs mo < 10 ^ 4300 -> Z.abs d < 10 ^ 4300 ->
  Z.abs h < 10 ^ 15 -> Z.abs mi < 10 ^ 15 -> Z.abs s < 10 ^ 15 ->
  single_signed x = true ->
  exists t x', dur_str x = TOk t /\ dur_parse t = TOk x' /\ dur_eqb x' x = true /\ dur_str x' = TOk t.
Proof.
  intros y mo d h mi s x Hy Hmo Hd Hh Hmi Hs Hss.
  pose proof (printable_int_units y mo d h mi s Hy Hmo Hd Hh Hmi Hs) as P. fold x in P.
  unfold printable in P. destruct (dur_str x) as [t| | | |] eqn:E; try discriminate.
  destruct (roundtrip_full x t Hss E) as [x' [A [B [C _]]]]. exists t, x'. auto.
Qed.
Theorem roundtrip_weeks : forall w, Z.abs w < 10 ^ 4300 ->
  exists t x', dur_str (DW w) = TOk t /\ dur_parse t = TOk x' /\ dur_eqb x' (DW w) = true /\ dur_str x' = TOk t.
Proof.
  intros w H. pose proof (printable_weeks w H) as P.
  unfold printable in P. destruct (dur_str (DW w)) as [t| | | |] eqn:E; try discriminate.
  assert (Hss : single_signed (DW w) = true) by (unfold single_signed; cbn; lia).
  destruct (roundtrip_full (DW w) t Hss E) as [x' [A [B [C _]]]]. exists t, x'. auto.
Qed.
