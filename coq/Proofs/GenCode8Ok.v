(* Proofs/GenCode8Ok.v -- the method bodies of class TimePointParser, as translated
   into gen/GenCode8.v on every run, equal the hand-written model of
   Model/Parse.v.  See notes/GENCODE8_REPORT.md. *)
From Coq Require Import ZArith QArith Qround List Bool String Ascii Lia.
From Iso Require Import Spec.Cal Model.Num Model.Helpers Model.Duration Model.TimePoint Model.Forms
  Model.Parse Spec.FormText Proofs.MatchSpec gen.Grammar Model.DriverText gen.GenCode8.
Import ListNotations.
Local Open Scope string_scope.

Lemma gen_code8_accepted : translator_ok_code8 = true.
Proof. reflexivity. Qed.

(* ------------------------------------------------------------------ *)
(* 1. the instantiation                                                 *)
(* ------------------------------------------------------------------ *)
(* a regex-map entry [compiled pattern, expression text] *)
Definition entry (f : form) : pyval := VList [VRegex (f_parse f); VStr (f_expr f)].
Fixpoint nodup_str (l : list string) : list string :=
  match l with [] => [] | x :: r => x :: filter (fun y => negb (String.eqb y x)) (nodup_str r) end.
(* the type keys of a table for a format key, in order of first appearance *)
Definition type_keys_of (forms : list form) (fk : string) : list string :=
  nodup_str (map f_type (filter (fun f => String.eqb (f_format f) fk) forms)).
Definition sel (forms : list form) (fk tk : string) : list form :=
  filter (fun f => String.eqb (f_format f) fk && String.eqb (f_type f) tk) forms.
Definition type_map (forms : list form) (fk : string) : pyval :=
  VDict (map (fun tk => (tk, VList (map entry (sel forms fk tk)))) (type_keys_of forms fk)).
(* self._date_regex_map / self._time_regex_map as _generate_regexes leaves them *)
Definition regex_map2 (cfg : pcfg) (forms : list form) : pyval :=
  VDict (map (fun fk => (fk, type_map forms fk)) (formats_of cfg)).
(* self._time_zone_regex_map *)
Definition regex_map1 (cfg : pcfg) (forms : list form) : pyval :=
  VDict (map (fun fk => (fk, VList (map entry (filter (fun f => String.eqb (f_format f) fk) forms)))) (formats_of cfg)).

Definition ostr_val (o : option string) : pyval := match o with Some s => VStr s | None => VNone end.
(* the parser object for a model configuration; dfmt = its dump_format attribute *)
Definition self_of (cfg : pcfg) (dfs tfs zfs : list form) (dfmt : option string) : pyParser :=
  mkParser (VInt (c_ned cfg)) (VBool (c_trunc cfg)) (VBool (c_basic cfg))
           (match c_assumed cfg with Some (h, m) => VTuple [VInt h; VInt m] | None => VNone end)
           (VBool (c_unknown cfg)) (ostr_val dfmt)
           (regex_map2 cfg dfs) (regex_map2 cfg tfs) (regex_map1 cfg zfs).

(* keyword arguments of the TimePoint constructor, read with the types of
   GenCode7's entry point *)
Definition kwZ (k : string) (d : dict) : exc (option Z) :=
  match dict_get k d with
  | None | Some VNone => Ok None
  | Some (VInt z) => Ok (Some z)
  | Some (VFloat q) => if qis_int q then Ok (Some (Qfloor q)) else Raise BadInputError   (* _int_caster *)
  | Some _ => Raise NotTranslated end.
Definition kwQ (k : string) (d : dict) : exc (option Q) :=
  match dict_get k d with
  | None | Some VNone => Ok None
  | Some (VInt z) => Ok (Some (qz z))
  | Some (VFloat q) => Ok (Some q)
  | Some _ => Raise NotTranslated end.
Definition kwB (k : string) (d : dict) : exc bool :=
  match dict_get k d with None => Ok false | Some (VBool b) => Ok b | Some _ => Raise NotTranslated end.
Definition kwS (k : string) (d : dict) : exc string :=
  match dict_get k d with None | Some VNone => Ok "" | Some (VStr s) => Ok s | Some _ => Raise NotTranslated end.
Definition CTOR_KEYS : list string :=
  ["year"; "month_of_year"; "day_of_month"; "day_of_year"; "week_of_year"; "day_of_week";
   "hour_of_day"; "hour_of_day_decimal"; "minute_of_hour"; "minute_of_hour_decimal";
   "second_of_minute"; "second_of_minute_decimal"; "time_zone_hour"; "time_zone_minute";
   "truncated"; "truncated_property"; "num_expanded_year_digits"; "dump_format";
   "truncated_dump_format"; "is_duration"].
Definition exn_of_perr (e : perr) : pyexn :=
  match e with ESyntax => ISO8601SyntaxError | EBadInput => BadInputError | EValue => ValueError
             | EUnmodelled => NotTranslated end.
Definition zn_args (zh zm : option Z) : option (Z * option Z) :=
  match zh, zm with
  | None, None => None | Some h, m => Some (h, m) | None, Some m => Some (0%Z, Some m) end.
(* data.TimePoint( **kw ): the model's construct (phase 7 proves the real
   constructor equal to it) *)
Definition tp_ctor (md : mode) (kw : pyval) : exc pyval :=
  match kw with
  | VDict d =>
    if negb (forallb (fun kv => mem (fst kv) CTOR_KEYS) d) then Raise TypeError   (* unexpected keyword *)
    else
      year <- kwZ "year" d ;; month <- kwZ "month_of_year" d ;; dom <- kwZ "day_of_month" d ;;
      doy <- kwZ "day_of_year" d ;; week <- kwZ "week_of_year" d ;; dow <- kwZ "day_of_week" d ;;
      hour <- kwQ "hour_of_day" d ;; hdec <- kwQ "hour_of_day_decimal" d ;;
      mi <- kwQ "minute_of_hour" d ;; mdec <- kwQ "minute_of_hour_decimal" d ;;
      sec <- kwQ "second_of_minute" d ;; sdec <- kwQ "second_of_minute_decimal" d ;;
      zh <- kwZ "time_zone_hour" d ;; zm <- kwZ "time_zone_minute" d ;;
      tr <- kwB "truncated" d ;; tprop <- kwS "truncated_property" d ;;
      ned <- kwZ "num_expanded_year_digits" d ;; fmt <- kwS "dump_format" d ;;
      _ <- kwS "truncated_dump_format" d ;; dur <- kwB "is_duration" d ;;
      match construct md year month dom doy week dow hour hdec mi mdec sec sdec (zn_args zh zm)
                      tr tprop (match ned with Some n => n | None => 0%Z end) fmt dur with
      | POk p => Ok (VPoint p)
      | PErr e => Raise (exn_of_perr e) end
  | _ => Raise TypeError end.

Definition mops (md : mode) (cfg : pcfg) : parser_ops :=
  mkOps (Ok (VTuple [VInt (fst (c_local cfg)); VInt (snd (c_local cfg))])) (tp_ctor md).

(* how an outcome of the code reads as an outcome of the model *)
Definition perr_of (e : pyexn) : perr :=
  match e with
  | ISO8601SyntaxError => ESyntax | BadInputError => EBadInput
  | ValueError | TypeError | KeyError => EValue
  | _ => EUnmodelled end.

(* ------------------------------------------------------------------ *)
(* 2. dictionaries                                                      *)
(* ------------------------------------------------------------------ *)
(* what groupdict() returns for the bindings e *)
Definition zenv (e : env) : dict := map (fun kv => (fst kv, VStr (snd kv))) e.
(* date bindings: the model writes the Boolean True of get_info's
   {"truncated": True} as the text "True" *)
Definition dval (k s : string) : pyval :=
  if String.eqb k "truncated" && String.eqb s "True" then VBool true else VStr s.
Definition denv (e : env) : dict := map (fun kv => (fst kv, dval (fst kv) (snd kv))) e.

Lemma dict_get_zenv : forall k e, dict_get k (zenv e) = option_map VStr (lookup_env k e).
Proof. induction e as [|[a b] e IH]; [reflexivity|]. cbn [zenv map dict_get lookup_env fst snd].
  destruct (String.eqb k a); [reflexivity|exact IH]. Qed.
Lemma dict_get_denv : forall k e, dict_get k (denv e) = option_map (dval k) (lookup_env k e).
Proof. induction e as [|[a b] e IH]; [reflexivity|]. cbn [denv map dict_get lookup_env fst snd].
  destruct (String.eqb k a) eqn:E; [|exact IH]. apply String.eqb_eq in E. subst a. reflexivity. Qed.
Lemma dict_get_set : forall k k' v d, dict_get k (dict_set k' v d) = if String.eqb k k' then Some v else dict_get k d.
Proof.
  induction d as [|[a b] d IH]; cbn [dict_set dict_get].
  - reflexivity.
  - destruct (String.eqb k' a) eqn:E.
    + apply String.eqb_eq in E. subst a. cbn [dict_get]. destruct (String.eqb k k'); reflexivity.
    + cbn [dict_get]. rewrite IH. destruct (String.eqb k a) eqn:F; [|reflexivity].
      apply String.eqb_eq in F. subst a. destruct (String.eqb k k') eqn:G; [|reflexivity].
      apply String.eqb_eq in G. subst k'. rewrite String.eqb_refl in E. discriminate.
Qed.
Lemma dict_get_del : forall k k' d, dict_get k (dict_del k' d) = if String.eqb k k' then None else dict_get k d.
Proof.
  induction d as [|[a b] d IH]; cbn [dict_del dict_get].
  - destruct (String.eqb k k'); reflexivity.
  - destruct (String.eqb k' a) eqn:E.
    + apply String.eqb_eq in E. subst a. rewrite IH. destruct (String.eqb k k'); reflexivity.
    + cbn [dict_get]. rewrite IH. destruct (String.eqb k a) eqn:F; [|reflexivity].
      apply String.eqb_eq in F. subst a. destruct (String.eqb k k') eqn:G; [|reflexivity].
      apply String.eqb_eq in G. subst k'. rewrite String.eqb_refl in E. discriminate.
Qed.

(* the canonical zone dictionary of a model zinfo *)
Definition zv (v : string + Z) : pyval := match v with inl s => VStr s | inr z => VInt z end.
Definition zdict (z : zinfo) : dict :=
  match z with
  | ZNone => []
  | ZUtc => [("time_zone_utc", VStr "Z")]
  | ZVal h m => ("time_zone_hour", zv h) :: match m with Some x => [("time_zone_minute", zv x)] | None => [] end
  end.
(* the binding lists the zone regexes produce *)
Definition zone_env_ok (e : env) : Prop :=
  e = [] \/ e = [("time_zone_utc", "Z")] \/
  (exists sg h, e = [("time_zone_sign", sg); ("time_zone_hour", h)]) \/
  (exists sg h m, e = [("time_zone_sign", sg); ("time_zone_hour", h); ("time_zone_minute", m)]).

Arguments read_Z : simpl never.
Arguments pmatch : simpl never.

Ltac ev :=
  repeat (cbn [bind py_truthy py_is_none negb py_get py_pop py_eq py_in py_getitem py_setitem py_update
               py_unpack2 py_unpack3 seq_of py_int py_neg py_add py_mul py_int_str dict_get dict_has dict_set dict_del
               dict_update fold_left fst snd num_of is_intlike is_container andb orb
               List.length Nat.eqb String.eqb Ascii.eqb Bool.eqb zenv map zdict zv
               op_get_local_time_zone op_TimePoint mops self_of
               f_assumed_time_zone f_default_to_unknown_time_zone f_num_expanded_year_digits f_allow_truncated
               f_allow_only_basic f_dump_format f__date_regex_map f__time_regex_map f__time_zone_regex_map]).

(* ------------------------------------------------------------------ *)
(* 3. process_time_zone_info = process_zone                             *)
(* ------------------------------------------------------------------ *)
Definition zone_rel (c : exc pyval) (m : pres zinfo) : Prop :=
  match m with
  | POk z => c = Ok (VDict (zdict z))
  | PErr x => exists e, c = Raise e /\ perr_of e = x end.

Lemma gen8_process : forall md cfg dfs tfs zfs dfmt e, zone_env_ok e ->
  zone_rel (py_process_time_zone_info (mops md cfg) (self_of cfg dfs tfs zfs dfmt) (VDict (zenv e))) (process_zone cfg e).
Proof.
  intros md cfg dfs tfs zfs dfmt e [E|[E|[(sg & h & E)|(sg & h & m & E)]]]; subst e;
    unfold py_process_time_zone_info, process_zone, zone_rel, has_key; cbv zeta beta; ev.
  - destruct (c_assumed cfg) as [[ah am]|]; ev; [reflexivity|].
    destruct (c_unknown cfg); ev; reflexivity.
  - reflexivity.
  - cbn [lookup_env String.eqb Ascii.eqb Bool.eqb neg_field].
    destruct (String.eqb sg "-"); ev; unfold py_int_str.
    + destruct (read_Z h) as [z|]; ev; [reflexivity|]. eexists; split; reflexivity.
    + reflexivity.
  - cbn [lookup_env String.eqb Ascii.eqb Bool.eqb neg_field].
    destruct (String.eqb sg "-"); ev; unfold py_int_str.
    + destruct (read_Z h) as [z|]; ev.
      * unfold py_int_str. destruct (read_Z m) as [z'|]; ev; [reflexivity|]. eexists; split; reflexivity.
      * destruct (read_Z m); eexists; split; reflexivity.
    + reflexivity.
Qed.

(* the default argument (None) is the empty dictionary *)
Lemma gen8_process_none : forall md cfg dfs tfs zfs dfmt,
  py_process_time_zone_info (mops md cfg) (self_of cfg dfs tfs zfs dfmt) VNone =
  py_process_time_zone_info (mops md cfg) (self_of cfg dfs tfs zfs dfmt) (VDict []).
Proof. intros. unfold py_process_time_zone_info. cbv zeta beta. ev. reflexivity. Qed.

(* ------------------------------------------------------------------ *)
(* 4. the searches: get_date_info / get_time_info / get_time_zone_info  *)
(* ------------------------------------------------------------------ *)
Definition strs (l : list string) : pyval := VList (map VStr l).
Definition TK3 : list string := ["complete"; "reduced"; "truncated"].
(* the type keys of both formats, in the order the model searches them *)
Definition types_ok (forms : list form) : Prop :=
  type_keys_of forms "basic" = TK3 /\ type_keys_of forms "extended" = TK3.

Lemma first_match_app : forall a b s,
  first_match (a ++ b) s = match first_match a s with Some x => Some x | None => first_match b s end.
Proof. induction a as [|f a IH]; intros b s; [reflexivity|]. cbn [app first_match].
  destruct (pmatch (f_parse f) s []); [reflexivity|apply IH]. Qed.

(* the innermost loop `for regex, expr in regex_list` with a return at the
   first match, whatever the loop body looks like *)
Lemma inner_search : forall (s : string) (mk : string -> env -> pyval) (body : pyval -> dict -> exc lctl),
  (forall f st, match pmatch (f_parse f) s [] with
                | Some e => body (entry f) st = Ok (LReturn (mk (f_expr f) e))
                | None => exists st', body (entry f) st = Ok (LNext st') end) ->
  forall L st, match first_match L s with
               | Some (f, e) => py_for (map entry L) body st = Ok (LRet (mk (f_expr f) e))
               | None => exists st', py_for (map entry L) body st = Ok (LDone st') end.
Proof.
  intros s mk body HB. induction L as [|f L IH]; intros st; cbn [first_match map py_for].
  - eexists; reflexivity.
  - specialize (HB f st). destruct (pmatch (f_parse f) s []) as [e|].
    + rewrite HB. reflexivity.
    + destruct HB as [st' HB]. rewrite HB. apply IH.
Qed.

Definition found_val (mk : string -> env -> pyval) (r : option (form * env)) : exc pyval :=
  match r with Some (f, e) => Ok (mk (f_expr f) e) | None => Raise ISO8601SyntaxError end.

Ltac ev_search :=
  repeat (cbn [bind py_truthy py_is_none negb py_items py_iter py_unpack2 seq_of py_in in_list py_eq
               py_getitem py_remove remove_first py_re_match py_groupdict
               dict_get dict_has fst snd num_of is_intlike is_container andb orb map strs entry
               List.length Nat.eqb String.eqb Ascii.eqb Bool.eqb regex_map2 regex_map1 type_map TK3 formats_of
               mem existsb filter flat_map app self_of py_for c_basic c_trunc sget
               f_allow_truncated f__date_regex_map f__time_regex_map f__time_zone_regex_map]).

(* apply inner_search to the innermost loop of the goal and split on its outcome *)
Ltac inner_step s mk :=
  lazymatch goal with
  | |- context [py_for (map entry ?L) ?B ?st] =>
    let HB := fresh "HB" in
    assert (HB : forall f stx, match pmatch (f_parse f) s [] with
                               | Some e => B (entry f) stx = Ok (LReturn (mk (f_expr f) e))
                               | None => exists st', B (entry f) stx = Ok (LNext st') end);
    [ let f := fresh "f" in let stx := fresh "stx" in intros f stx; cbv beta; ev_search; destruct (pmatch (f_parse f) s []) as [e0|]; ev_search;
      [reflexivity|eexists; reflexivity]
    | let H := fresh "H" in
      pose proof (inner_search s mk B HB L st) as H; clear HB;
      rewrite ?first_match_app;
      let FM := fresh "FM" in
      destruct (first_match L s) as [[f0 e0]|] eqn:FM;
      [ rewrite H; clear H; ev_search; try reflexivity
      | let st' := fresh "st" in destruct H as [st' H]; rewrite H; clear H; ev_search ] ]
  end.

Definition mk_time (ex : string) (e : env) : pyval := VTuple [VStr ex; VDict (zenv e)].
Definition mk_date (fk tk : string) (ex : string) (e : env) : pyval :=
  VTuple [VTuple [VStr fk; VStr tk; VStr ex]; VDict (zenv e)].

(* bad_formats / bad_types as get_info passes them *)
Definition bf_used (bf : list string) : Prop := bf = [] \/ bf = ["basic"] \/ bf = ["extended"].
Definition bt_used (bt : list string) : Prop := bt = [] \/ bt = ["truncated"].

Lemma gen8_get_time_zone_info : forall md cfg dfs tfs zfs dfmt s bf, bf_used bf ->
  py_get_time_zone_info (mops md cfg) (self_of cfg dfs tfs zfs dfmt) (VStr s) (strs bf) =
  found_val mk_time (get_zone_info zfs cfg s bf).
Proof.
  intros md cfg dfs tfs zfs dfmt s bf HB.
  unfold py_get_time_zone_info, py_get_time_zone_info__L1, get_zone_info, found_val, formats_of. cbv zeta beta.
  destruct cfg as [ned tr ba asm unk loc].
  destruct HB as [E|[E|E]]; subst bf; destruct ba; ev_search; rewrite ?app_nil_r;
    try reflexivity;
    repeat (inner_step s mk_time);
    try reflexivity.
Qed.

Lemma gen8_get_time_info : forall md cfg dfs tfs zfs dfmt s bf bt, types_ok tfs -> bf_used bf -> bt_used bt ->
  py_get_time_info (mops md cfg) (self_of cfg dfs tfs zfs dfmt) (VStr s) (strs bf) (strs bt) =
  found_val mk_time (get_time_info tfs cfg s bf bt).
Proof.
  intros md cfg dfs tfs zfs dfmt s bf bt [T1 T2] HF HT.
  unfold py_get_time_info, py_get_time_info__L1, get_time_info, found_val, formats_of, self_of, regex_map2, type_map. cbv zeta beta.
  destruct cfg as [ned tr ba asm unk loc].
  destruct HF as [E|[E|E]]; subst bf; destruct HT as [E|E]; subst bt; destruct ba; ev_search;
    rewrite ?T1, ?T2; ev_search; unfold sel; rewrite ?app_nil_r; rewrite ?first_match_app;
    try reflexivity;
    repeat (inner_step s mk_time);
    try reflexivity.
Qed.

(* bad_types as get_info passes them: None (or the empty list) and ["reduced"] *)
Lemma gen8_get_date_info : forall md cfg dfs tfs zfs dfmt s (reduced_bad : bool), types_ok dfs ->
  py_get_date_info (mops md cfg) (self_of cfg dfs tfs zfs dfmt) (VStr s)
                   (if reduced_bad then strs ["reduced"] else VNone) =
  match get_date_info dfs cfg s (if reduced_bad then ["reduced"] else []) with
  | Some (f, e) => Ok (mk_date (f_format f) (f_type f) (f_expr f) e)
  | None => Raise ISO8601SyntaxError end.
Proof.
  intros md cfg dfs tfs zfs dfmt s rb [T1 T2].
  unfold py_get_date_info, py_get_date_info__L1, get_date_info, formats_of, self_of, regex_map2, type_map. cbv zeta beta.
  destruct cfg as [ned tr ba asm unk loc].
  destruct rb; destruct tr; destruct ba; ev_search;
    rewrite ?T1, ?T2; ev_search; unfold sel; rewrite ?app_nil_r; rewrite ?first_match_app;
    try reflexivity;
    repeat (first [ inner_step s (mk_date "basic" "complete") | inner_step s (mk_date "basic" "truncated")
                  | inner_step s (mk_date "basic" "reduced") | inner_step s (mk_date "extended" "complete")
                  | inner_step s (mk_date "extended" "truncated") | inner_step s (mk_date "extended" "reduced") ]);
    try reflexivity.
  all: match goal with FM : first_match (filter _ _) _ = Some (?f, _) |- _ =>
         apply first_match_In in FM; apply filter_In in FM; destruct FM as [_ FM];
         apply andb_true_iff in FM; destruct FM as [F1 F2];
         apply String.eqb_eq in F1; apply String.eqb_eq in F2; rewrite F1, F2; reflexivity end.
Qed.

(* ------------------------------------------------------------------ *)
(* 5. _create_timepoint_from_info up to its first loop: the year        *)
(*    arithmetic, the sign and the truncated properties                 *)
(* ------------------------------------------------------------------ *)
(* the model's quantities (the lets of create_timepoint / MatchSpec.point_num) *)
Definition m_trunc0 (d : env) : bool := has_key "truncated" d.
Definition m_tprop0 (d : env) : string :=
  if m_trunc0 d then (if has_key "year_of_century" d then "year_of_century"
                      else if has_key "year_of_decade" d then "year_of_decade" else "")
  else if negb (has_key "century" d) && has_key "year_of_century" d then "year_of_century" else "".
Definition m_trunc1 (d : env) : bool :=
  m_trunc0 d || (negb (m_trunc0 d) && negb (has_key "century" d) && has_key "year_of_century" d).
Definition m_year_present (d : env) : bool :=
  negb (m_trunc1 d) || has_key "year_of_decade" d || has_key "century" d || has_key "year_of_century" d ||
  has_key "expanded_year" d || has_key "year_sign" d.
Definition m_yr (d : env) : option Z :=
  if m_year_present d then
    let y := (od (nz d "year_of_decade") + od (nz d "year_of_century") +
              100 * od (nz d "century") + 10000 * od (nz d "expanded_year"))%Z in
    let neg := match lookup_env "year_sign" d with Some s => String.eqb s "-" | None => false end in
    Some (if neg then (- y)%Z else y)
  else None.
Definition m_tprop (d : env) : string :=
  if has_key "year_of_decade" d && m_year_present d then "year_of_decade" else m_tprop0 d.
Definition m_ned (cfg : pcfg) (d : env) : Z :=
  match lookup_env "expanded_year" d with Some s => if String.eqb s "" then 0%Z else c_ned cfg | None => 0%Z end.

(* they are the model's: point_num is the constructor call on them *)
Lemma point_num_parts : forall md cfg d t zn fmt dur,
  point_num md cfg d t zn fmt dur =
  construct md (m_yr d) (nz d "month_of_year") (nz d "day_of_month") (nz d "day_of_year")
            (nz d "week_of_year") (nz d "day_of_week")
            (nq t "hour_of_day") (ndec t "hour_of_day_decimal")
            (nq t "minute_of_hour") (ndec t "minute_of_hour_decimal")
            (nq t "second_of_minute") (ndec t "second_of_minute_decimal")
            zn (m_trunc1 d || has_key "truncated" t) (m_tprop d) (m_ned cfg d) fmt dur.
Proof. reflexivity. Qed.

Definition YEAR_KEYS : list string :=
  ["year"; "year_of_decade"; "year_of_century"; "century"; "expanded_year"; "year_sign"; "truncated";
   "num_expanded_year_digits"].
Definition tprop_val (s : string) : pyval := if String.eqb s "" then VNone else VStr s.
Definition truthy_opt (o : option pyval) : bool := match o with Some v => py_truthy v | None => false end.

(* the state in which the first loop (int() of every value) is entered *)
Definition cut_state (cfg : pcfg) (de : env) (D' : dict) : Prop :=
  dict_get "year" D' = option_map VInt (m_yr de) /\
  truthy_opt (dict_get "truncated" D') = m_trunc1 de /\
  dict_get "num_expanded_year_digits" D' = (if (m_ned cfg de =? 0)%Z then None else Some (VInt (m_ned cfg de))) /\
  dict_get "year_of_century" D' = (if m_year_present de then None else dict_get "year_of_century" (denv de)) /\
  dict_get "century" D' = (if m_year_present de then None else dict_get "century" (denv de)) /\
  dict_get "expanded_year" D' = (if m_year_present de then None else dict_get "expanded_year" (denv de)) /\
  dict_get "year_sign" D' = (if m_year_present de then None else dict_get "year_sign" (denv de)) /\
  dict_get "year_of_decade" D' = (if m_year_present de then None else dict_get "year_of_decade" (denv de)) /\
  (forall k, mem k YEAR_KEYS = false -> dict_get k D' = dict_get k (denv de)).

Ltac evc :=
  repeat (progress cbn [bind py_truthy py_is_none negb py_get py_pop py_eq py_in py_getitem py_setitem py_update
               py_unpack2 py_unpack3 seq_of py_int py_neg py_add py_mul dict_has
               fst snd num_of is_intlike is_container andb orb py_for py_iter sget dict_get
               List.length Nat.eqb String.eqb Ascii.eqb Bool.eqb option_map dval
               op_get_local_time_zone op_TimePoint mops self_of
               f_assumed_time_zone f_default_to_unknown_time_zone f_num_expanded_year_digits f_allow_truncated
               f_allow_only_basic f_dump_format f__date_regex_map f__time_regex_map f__time_zone_regex_map]
          || rewrite dict_get_set || rewrite dict_get_del || rewrite dict_get_denv || unfold py_int_str).

(* ------------------------------------------------------------------ *)
(* 6. the generated tables satisfy the hypotheses; running the code     *)
(* ------------------------------------------------------------------ *)
Lemma tables_types_ok :
  types_ok DATE_FORMS_0 /\ types_ok DATE_FORMS_2 /\ types_ok DATE_FORMS_3 /\ types_ok TIME_FORMS.
Proof. unfold types_ok. vm_compute. repeat split; reflexivity. Qed.

(* an outcome of the translated parse as an outcome of the model *)
Definition res_of (c : exc pyval) : pres ptp :=
  match c with Ok (VPoint p) => POk p | Ok _ => PErr EUnmodelled | Raise e => PErr (perr_of e) end.
Definition code_parser (cfg : pcfg) : pyParser :=
  self_of cfg (date_forms_of (c_ned cfg)) TIME_FORMS ZONE_FORMS None.
(* TimePointParser(..).parse(text, dump_as_parsed=asp), printed as the line protocol prints it *)
Definition run_parse (md : mode) (cfg : pcfg) (text : string) (asp : bool) : string :=
  sh_pres sh_ptp (res_of (py_parse (mops md cfg) (code_parser cfg) (VStr text) VNone (VBool asp) (VBool false))).

(* ------------------------------------------------------------------ *)
(* 7. _create_timepoint_from_info from its first loop on (segments L1, L2) *)
(* ------------------------------------------------------------------ *)
Local Open Scope list_scope.

(* ---------------- A. dictionaries, continued ---------------- *)
Definition keys (d : dict) : list string := map fst d.
Definition mapv (f : string -> pyval -> pyval) (d : dict) : dict := map (fun kv => (fst kv, f (fst kv) (snd kv))) d.

Lemma dict_get_app : forall k a b, dict_get k (a ++ b) = match dict_get k a with Some v => Some v | None => dict_get k b end.
Proof. induction a as [|[x y] a IH]; intros b; [reflexivity|]. cbn [app dict_get]. destruct (String.eqb k x); [reflexivity|apply IH]. Qed.
Lemma dict_get_mapv : forall f k d, dict_get k (mapv f d) = option_map (f k) (dict_get k d).
Proof. induction d as [|[x y] d IH]; [reflexivity|]. cbn [mapv map dict_get fst snd].
  destruct (String.eqb k x) eqn:E; [|exact IH]. apply String.eqb_eq in E. subst x. reflexivity. Qed.
Lemma dict_get_notin : forall k d, ~ In k (keys d) -> dict_get k d = None.
Proof. induction d as [|[x y] d IH]; intros H; [reflexivity|]. cbn [dict_get]. cbn [keys map fst In] in H.
  destruct (String.eqb k x) eqn:E. { apply String.eqb_eq in E. subst x. exfalso. apply H. left. reflexivity. }
  apply IH. intros I. apply H. right. exact I. Qed.
Lemma dict_get_in : forall k d, In k (keys d) -> dict_get k d <> None.
Proof. induction d as [|[x y] d IH]; intros H; [destruct H|]. cbn [dict_get]. cbn [keys map fst In] in H.
  destruct (String.eqb k x) eqn:E; [discriminate|]. apply IH. destruct H as [H|H]; [|exact H].
  subst x. rewrite String.eqb_refl in E. discriminate. Qed.
Lemma keys_mapv : forall f d, keys (mapv f d) = keys d.
Proof. intros. unfold keys, mapv. rewrite map_map. reflexivity. Qed.

Lemma dict_set_app_notin : forall k v a b, ~ In k (keys a) -> dict_set k v (a ++ b) = a ++ dict_set k v b.
Proof. induction a as [|[x y] a IH]; intros b H; [reflexivity|]. cbn [app dict_set]. cbn [keys map fst In] in H.
  destruct (String.eqb k x) eqn:E. { apply String.eqb_eq in E. subst x. exfalso. apply H. left. reflexivity. }
  f_equal. apply IH. intros I. apply H. right. exact I. Qed.

Lemma keys_set : forall k v d, keys (dict_set k v d) = if dict_has k d then keys d else keys d ++ [k].
Proof. unfold keys, dict_has. induction d as [|[x y] d IH]; [reflexivity|]. cbn [dict_set dict_get].
  destruct (String.eqb k x) eqn:E; [reflexivity|]. cbn [map fst]. rewrite IH.
  destruct (dict_get k d); reflexivity. Qed.
Lemma keys_del_in : forall k x d, In x (keys (dict_del k d)) -> In x (keys d) /\ x <> k.
Proof. induction d as [|[a b] d IH]; intros H; [destruct H|]. cbn [dict_del] in H.
  destruct (String.eqb k a) eqn:E.
  - destruct (IH H) as [I N]. split; [right; exact I|exact N].
  - cbn [keys map fst In] in *. destruct H as [H|H].
    + subst x. split; [left; reflexivity|]. intros C. subst a. rewrite String.eqb_refl in E. discriminate.
    + destruct (IH H) as [I N]. split; [right; exact I|exact N]. Qed.
Lemma NoDup_del : forall k d, NoDup (keys d) -> NoDup (keys (dict_del k d)).
Proof. induction d as [|[a b] d IH]; intros H; [constructor|]. cbn [dict_del]. inversion H; subst.
  destruct (String.eqb k a); [apply IH; assumption|]. cbn [keys map fst]. constructor; [|apply IH; assumption].
  intros I. apply keys_del_in in I. destruct I as [I _]. contradiction. Qed.
Lemma NoDup_snoc : forall (x : string) l, NoDup l -> ~ In x l -> NoDup (l ++ [x]).
Proof. induction l as [|a l IH]; intros H N; cbn [app]. { constructor; [intros []|constructor]. }
  inversion H; subst. constructor.
  - intros I. apply in_app_iff in I. destruct I as [I|[I|[]]]; [contradiction|]. subst a. apply N. left. reflexivity.
  - apply IH; [assumption|]. intros I. apply N. right. exact I. Qed.
Lemma NoDup_set : forall k v d, NoDup (keys d) -> NoDup (keys (dict_set k v d)).
Proof. intros k v d H. rewrite keys_set. unfold dict_has. destruct (dict_get k d) eqn:E; [exact H|].
  apply NoDup_snoc; [exact H|]. intros I. apply dict_get_in in I. contradiction. Qed.

(* d.update(b) for b without repeated keys *)
Lemma dict_get_update : forall k b a, NoDup (keys b) ->
  dict_get k (dict_update a b) = match dict_get k b with Some v => Some v | None => dict_get k a end.
Proof. unfold dict_update. induction b as [|[x y] b IH]; intros a H; [reflexivity|].
  cbn [fold_left fst snd dict_get]. inversion H; subst. rewrite IH by assumption. rewrite dict_get_set.
  destruct (String.eqb k x) eqn:E; [|reflexivity]. apply String.eqb_eq in E. subst x.
  rewrite (dict_get_notin k b) by assumption. reflexivity. Qed.

(* key sets, by lookups *)
Definition keysP (K : list string) (d : dict) : Prop := forall k, dict_get k d <> None -> mem k K = true.
Lemma keysP_forallb : forall K d, keysP K d -> forallb (fun kv => mem (fst kv) K) d = true.
Proof. intros K d H. apply forallb_forall. intros [k v] I. cbn [fst]. apply H. apply dict_get_in.
  unfold keys. apply in_map_iff. exists (k, v). split; [reflexivity|exact I]. Qed.

(* ---------------- B. loops over the items of a dictionary ---------------- *)
Definition item (kv : string * pyval) : pyval := VTuple [VStr (fst kv); snd kv].
Lemma py_items_dict : forall d, py_items (VDict d) = Ok (VList (map item d)).
Proof. reflexivity. Qed.

(* a loop whose body performs  state[name] := g state[name] key value  and goes on *)
Lemma py_for_fold : forall (name : string) (P : string -> pyval -> Prop) (g : dict -> string -> pyval -> dict) body,
  (forall k v d st, P k v -> sget name st = VDict d ->
     exists st', body (item (k, v)) st = Ok (LNext st') /\ sget name st' = VDict (g d k v)) ->
  forall L rest d st, Forall (fun kv => P (fst kv) (snd kv)) L -> sget name st = VDict d ->
    exists st', py_for (map item L ++ rest) body st = py_for rest body st' /\
                sget name st' = VDict (fold_left (fun d kv => g d (fst kv) (snd kv)) L d).
Proof.
  intros name P g body HB. induction L as [|[k v] L IH]; intros rest d st HP HS.
  - exists st. split; [reflexivity|exact HS].
  - inversion HP; subst. cbn [fst snd] in *. destruct (HB k v d st H1 HS) as (st1 & E1 & S1).
    destruct (IH rest (g d k v) st1 H2 S1) as (st2 & E2 & S2). exists st2. split; [|exact S2].
    cbn [map app py_for]. rewrite E1. exact E2.
Qed.

(* a fold whose step rewrites the entry of its own key is a map over the values *)
Lemma fold_own_mapv : forall (g : dict -> string -> pyval -> dict) (f : string -> pyval -> pyval) (Q : string -> pyval -> Prop),
  (forall done k v rest, Q k v -> ~ In k (keys done) -> g (done ++ (k, v) :: rest) k v = done ++ (k, f k v) :: rest) ->
  forall todo done tail, NoDup (keys (done ++ todo)) -> Forall (fun kv => Q (fst kv) (snd kv)) todo ->
  fold_left (fun d kv => g d (fst kv) (snd kv)) todo (done ++ todo ++ tail) = done ++ mapv f todo ++ tail.
Proof.
  intros g f Q HG. induction todo as [|[k v] todo IH]; intros done tail H HQ; [reflexivity|].
  cbn [fold_left fst snd mapv map]. inversion HQ; subst. cbn [fst snd] in *.
  assert (N : ~ In k (keys done)).
  { unfold keys in *. rewrite map_app in H. cbn [map fst] in H. apply NoDup_remove_2 in H.
    intros I. apply H. apply in_app_iff. left. exact I. }
  cbn [app]. rewrite HG by assumption.
  change (done ++ (k, f k v) :: todo ++ tail) with (done ++ [(k, f k v)] ++ todo ++ tail).
  rewrite app_assoc. rewrite IH.
  - rewrite <- app_assoc. reflexivity.
  - unfold keys in *. rewrite <- app_assoc. rewrite !map_app in *. exact H.
  - assumption.
Qed.
Lemma dict_set_own : forall done k v x rest, ~ In k (keys done) ->
  dict_set k x (done ++ (k, v) :: rest) = done ++ (k, x) :: rest.
Proof. intros. rewrite dict_set_app_notin by assumption. cbn [dict_set]. rewrite String.eqb_refl. reflexivity. Qed.

(* ---------------- C. segment L1: int() of every date value ---------------- *)
Definition iconv (v : pyval) : pyval := match py_int v with Ok x => x | Raise _ => v end.

Definition istep (d : dict) (k : string) (v : pyval) : dict :=
  match py_int v with Ok x => dict_set k x d | Raise _ => d end.
Lemma istep_own : forall done k v rest, True -> ~ In k (keys done) ->
  istep (done ++ (k, v) :: rest) k v = done ++ (k, iconv v) :: rest.
Proof. intros done k v rest _ N. unfold istep, iconv. destruct (py_int v); [apply dict_set_own; exact N|reflexivity]. Qed.

Lemma gen8_L1 : forall ops self D' fmtv dur yp TI tfv TP, NoDup (keys D') ->
  py__create_timepoint_from_info__L1 ops self (VDict D') fmtv (VDict []) dur yp TI tfv TP =
  py__create_timepoint_from_info__L2 ops self (VDict (mapv (fun _ => iconv) D')) fmtv
    (VDict (dict_update [] (mapv (fun _ => iconv) D'))) dur yp TI tfv TP.
Proof.
  intros ops self D' fmtv dur yp TI tfv TP ND.
  unfold py__create_timepoint_from_info__L1.
  cbn [py_items py_iter bind].
  change (map (fun kv : string * pyval => VTuple [VStr (fst kv); snd kv]) D') with (map item D').
  rewrite <- (app_nil_r (map item D')).
  match goal with |- context [py_for _ ?B ?st] =>
    assert (HB : forall k v d st0, True -> sget "date_info" st0 = VDict d ->
              exists st', B (item (k, v)) st0 = Ok (LNext st') /\
                          sget "date_info" st' = VDict (istep d k v));
    [ | destruct (py_for_fold "date_info" (fun _ _ => True) istep B HB D' [] D' st) as (st' & E & S);
        [ apply Forall_forall; intros; exact I | reflexivity | ] ]
  end.
  - intros k v d st0 _ HS. cbv beta. rewrite HS. unfold istep.
    destruct v as [|b|z|q|s|l|l|dd|ts|e|p]; cbn; try (eexists; split; reflexivity).
    unfold py_int_str. destruct (read_Z s); cbn; eexists; split; reflexivity.
  - rewrite E. cbn [py_for bind]. cbv zeta. rewrite S.
    pose proof (fold_own_mapv istep (fun _ => iconv) (fun _ _ => True) istep_own D' [] []) as F.
    cbn [app] in F. rewrite !app_nil_r in F. rewrite F; [|exact ND|apply Forall_forall; intros; exact I].
    cbn [py_update bind]. reflexivity.
Qed.

(* ---------------- D. segment L2, part a: the code up to the constructor call ---------------- *)
Definition tval (k : string) (v : pyval) : exc pyval :=
  if ends_with "_decimal" k then py_add (VStr "0.") v else Ok v.
Definition tfl (v : pyval) : pyval := match py_float v with Ok x => x | Raise _ => v end.
Definition isZ (v : pyval) : bool := match v with VStr s => String.eqb s "Z" | _ => false end.
Definition tstep (d : dict) (k : string) (v : pyval) : dict :=
  match tval k v with
  | Raise _ => d
  | Ok v1 => if String.eqb k "time_zone_utc" && isZ (tfl v1)
             then dict_set "time_zone_minute" (VInt 0) (dict_set "time_zone_hour" (VInt 0) (dict_del k d))
             else dict_set k (tfl v1) d end.
Definition tP (k : string) (v : pyval) : Prop := ends_with "_decimal" k = false \/ exists s, v = VStr s.

Definition opt_set (k : string) (v : pyval) (d : dict) : dict := if py_is_none v then d else dict_set k v d.
Definition trset (d : dict) : dict :=
  match dict_get "truncated" d with
  | Some v => if py_truthy v then dict_set "truncated" (VBool true) (dict_del "truncated" d) else dict_del "truncated" d
  | None => d end.
Definition eff_fmt (fmtv sdf : pyval) : pyval :=
  if py_is_none fmtv then (if py_truthy sdf then sdf else fmtv) else fmtv.
Definition fin_dict (sdf fmtv tfv TP dur : pyval) (info2 : dict) : dict :=
  dict_set "is_duration" dur
    (opt_set "truncated_dump_format" tfv (opt_set "dump_format" (eff_fmt fmtv sdf)
       (opt_set "truncated_property" TP (trset info2)))).

Lemma float_catch : forall v e, py_float v = Raise e -> (false || exn_isa e TypeError || exn_isa e ValueError) = true.
Proof.
  intros v e. destruct v; cbn; try (intros H; inversion H; reflexivity).
  unfold py_float_str. destruct (str_prefix "0." s); [destruct (all_digits8 s0)|destruct (read_Z s)];
    intros H; inversion H; reflexivity.
Qed.

Definition tconv (k : string) (v : pyval) : pyval := match tval k v with Ok v1 => tfl v1 | Raise _ => v end.
Definition UTC : string := "time_zone_utc".
Definition tQ (k : string) (v : pyval) : Prop := (exists s, v = VStr s) /\ String.eqb k "time_zone_utc" = false.
Lemma tstep_own : forall done k v rest, tQ k v -> ~ In k (keys done) ->
  tstep (done ++ (k, v) :: rest) k v = done ++ (k, tconv k v) :: rest.
Proof. intros done k v rest [[s E] K] N. subst v. unfold tstep, tconv, tval.
  destruct (ends_with "_decimal" k); cbn [py_add]; rewrite K; cbn [andb]; apply dict_set_own; exact N. Qed.
(* the time dictionary after the float() loop *)
Definition TIf (te : env) (z : zinfo) : dict :=
  fold_left (fun d kv => tstep d (fst kv) (snd kv)) (zdict z) (mapv tconv (zenv te) ++ zdict z).

Lemma keys_zenv : forall e, keys (zenv e) = map fst e.
Proof. intros. unfold keys, zenv. rewrite map_map. reflexivity. Qed.

Lemma zone_items : forall (B : pyval -> dict -> exc lctl),
  (forall k v d st0, tP k v -> (String.eqb k "time_zone_utc" = false \/ dict_has k d = true) ->
     sget "time_info" st0 = VDict d ->
     exists st', B (item (k, v)) st0 = Ok (LNext st') /\ sget "time_info" st' = VDict (tstep d k v)) ->
  forall te z st', lookup_env "time_zone_utc" te = None ->
  sget "time_info" st' = VDict (mapv tconv (zenv te) ++ zdict z) ->
  exists st2, py_for (map item (zdict z)) B st' = Ok (LDone st2) /\ sget "time_info" st2 = VDict (TIf te z).
Proof.
  intros B HB te z st' NU S. unfold TIf.
  set (A := mapv tconv (zenv te)) in *.
  destruct z as [| |h [m|]]; cbn [zdict map py_for fold_left fst snd] in *.
  - exists st'. split; [reflexivity|exact S].
  - destruct (HB "time_zone_utc" (VStr "Z") (A ++ [("time_zone_utc", VStr "Z")]) st') as (st2 & E2 & S2); [left; reflexivity| |exact S|].
    + right. unfold dict_has, A. rewrite dict_get_app, dict_get_mapv, dict_get_zenv, NU. reflexivity.
    + rewrite E2. exists st2. split; [reflexivity|exact S2].
  - destruct (HB "time_zone_hour" (zv h) (A ++ [("time_zone_hour", zv h); ("time_zone_minute", zv m)]) st') as (st2 & E2 & S2); [left; reflexivity|left; reflexivity|exact S|].
    rewrite E2.
    destruct (HB "time_zone_minute" (zv m) (tstep (A ++ [("time_zone_hour", zv h); ("time_zone_minute", zv m)]) "time_zone_hour" (zv h)) st2) as (st3 & E3 & S3); [left; reflexivity|left; reflexivity|exact S2|].
    rewrite E3. exists st3. split; [reflexivity|exact S3].
  - destruct (HB "time_zone_hour" (zv h) (A ++ [("time_zone_hour", zv h)]) st') as (st2 & E2 & S2); [left; reflexivity|left; reflexivity|exact S|].
    rewrite E2. exists st2. split; [reflexivity|exact S2].
Qed.

Lemma gen8_L2a : forall ops self Dany fmtv I dur yp te z tfv TP,
  NoDup (map fst te) -> lookup_env "time_zone_utc" te = None ->
  dict_has "is_duration" (opt_set "truncated_dump_format" tfv (opt_set "dump_format" (eff_fmt fmtv (f_dump_format self))
       (opt_set "truncated_property" TP (trset (dict_update I (TIf te z)))))) = false ->
  py__create_timepoint_from_info__L2 ops self Dany fmtv (VDict I) dur yp (VDict (zenv te ++ zdict z)) tfv TP =
  op_TimePoint ops (VDict (fin_dict (f_dump_format self) fmtv tfv TP dur (dict_update I (TIf te z)))).
Proof.
  intros ops self Dany fmtv I dur yp te z tfv TP ND NU HD.
  assert (HQ : Forall (fun kv => tQ (fst kv) (snd kv)) (zenv te)).
  { apply Forall_forall. intros [k v] IN. unfold zenv in IN. apply in_map_iff in IN. destruct IN as ([a b] & E0 & IN).
  cbn [fst snd] in E0. injection E0 as E1 E2. subst k v. cbn [fst snd]. split; [eexists; reflexivity|].
  destruct (String.eqb a "time_zone_utc") eqn:EK; [|reflexivity]. apply String.eqb_eq in EK. subst a. exfalso.
  assert (X : lookup_env "time_zone_utc" te <> None).
  { clear - IN. induction te as [|[x y] te IH]; [destruct IN|]. cbn [lookup_env]. destruct (String.eqb "time_zone_utc" x) eqn:F; [discriminate|].
    apply IH. destruct IN as [IN|IN]; [|exact IN]. inversion IN; subst. rewrite String.eqb_refl in F. discriminate. }
  contradiction. }
  unfold py__create_timepoint_from_info__L2.
  cbn [py_items py_iter py_list bind].
  change (map (fun kv : string * pyval => VTuple [VStr (fst kv); snd kv]) (zenv te ++ zdict z)) with (map item (zenv te ++ zdict z)).
  rewrite map_app.
  match goal with |- context [py_for _ ?B ?st] =>
    assert (HB : forall k v d st0, tP k v -> (String.eqb k "time_zone_utc" = false \/ dict_has k d = true) ->
              sget "time_info" st0 = VDict d ->
              exists st', B (item (k, v)) st0 = Ok (LNext st') /\
                          sget "time_info" st' = VDict (tstep d k v));
    [ | assert (HB' : forall k v d st0, tQ k v -> sget "time_info" st0 = VDict d ->
              exists st', B (item (k, v)) st0 = Ok (LNext st') /\ sget "time_info" st' = VDict (tstep d k v));
        [ intros k v d st0 [[s0 E0] K0] HS0; apply HB; [right; exists s0; exact E0|left; exact K0|exact HS0]
        | destruct (py_for_fold "time_info" tQ tstep B HB' (zenv te) (map item (zdict z)) (zenv te ++ zdict z) st) as (st' & E & S);
          [ exact HQ | reflexivity | ] ] ]
  end.
  - intros k v d st0 HPkv HK HS. cbv beta zeta. rewrite HS. unfold tstep, tval.
    cbn [item fst snd py_unpack2 seq_of bind py_endswith py_truthy].
    assert (POP : String.eqb k "time_zone_utc" = true -> exists x, dict_get k d = Some x).
    { intros K. destruct HK as [HK|HK]; [congruence|]. unfold dict_has in HK. destruct (dict_get k d); [eexists; reflexivity|discriminate]. }
    destruct (ends_with "_decimal" k) eqn:ED.
    + destruct HPkv as [C|[s C]]; [congruence|]. subst v. cbn [py_add bind].
      unfold tfl. destruct (py_float (VStr ("0." ++ s))) as [x|e] eqn:EF; cbn [py_try bind sget dict_get String.eqb Ascii.eqb Bool.eqb].
      * cbn [py_eq num_of bind py_truthy]. destruct (String.eqb k "time_zone_utc") eqn:EK; cbn [andb].
        { destruct (POP eq_refl) as [x0 PX]. destruct x; cbn; try destruct (String.eqb s0 "Z"); cbn; rewrite ?PX; cbn; eexists; split; reflexivity. }
        { cbn. eexists; split; reflexivity. }
      * rewrite (float_catch _ _ EF). cbn [py_eq num_of bind py_truthy isZ].
        destruct (String.eqb k "time_zone_utc") eqn:EK; cbn [andb].
        { destruct (POP eq_refl) as [x0 PX]. cbn. destruct (String.eqb ("0." ++ s) "Z"); cbn; rewrite ?PX; cbn; eexists; split; reflexivity. }
        { cbn. eexists; split; reflexivity. }
    + unfold tfl. destruct (py_float v) as [x|e] eqn:EF; cbn [py_try bind sget dict_get String.eqb Ascii.eqb Bool.eqb].
      * cbn [py_eq num_of bind py_truthy]. destruct (String.eqb k "time_zone_utc") eqn:EK; cbn [andb].
        { destruct (POP eq_refl) as [x0 PX]. destruct x; cbn; try destruct (String.eqb s "Z"); cbn; rewrite ?PX; cbn; eexists; split; reflexivity. }
        { cbn. eexists; split; reflexivity. }
      * rewrite (float_catch _ _ EF). cbn [py_eq num_of bind py_truthy isZ].
        destruct (String.eqb k "time_zone_utc") eqn:EK; cbn [andb].
        { destruct (POP eq_refl) as [x0 PX]. destruct v; cbn; try destruct (String.eqb s "Z"); cbn; rewrite ?PX; cbn; eexists; split; reflexivity. }
        { cbn. eexists; split; reflexivity. }
  - rewrite E. clear E.
    pose proof (fold_own_mapv tstep tconv tQ tstep_own (zenv te) [] (zdict z)) as F. cbn [app] in F.
    rewrite F in S; [| rewrite keys_zenv; exact ND | exact HQ ]. clear F.
    destruct (zone_items _ HB te z st' NU S) as (st2 & E2 & S2). rewrite E2. clear E2 S HB HB' HQ.
    cbn [bind]. cbv zeta. rewrite S2. clear S2.
    cbn [py_update bind py_pop].
    set (info2 := dict_update I (TIf te z)) in *.
    unfold fin_dict, trset in *.
    assert (TN : forall v, py_truthy v = true -> py_is_none v = false) by (intros v; destruct v; cbn; congruence).
    destruct (dict_get "truncated" info2) as [tv|] eqn:ET; cbn [bind py_truthy];
      [destruct (py_truthy tv); cbn [bind py_setitem]|];
      unfold opt_set, eff_fmt in *;
      destruct (py_is_none TP); destruct (py_is_none fmtv) eqn:EF;
      destruct (py_truthy (f_dump_format self)) eqn:ESD; try rewrite (TN _ ESD) in *;
      destruct (py_is_none tfv);
      repeat (rewrite EF in * );
      cbn [negb bind py_setitem py_truthy py_is_none py_update dict_update fold_left fst snd py_kwargs kw_merge];
      rewrite ?EF, ?ESD; cbn [negb bind py_setitem py_truthy py_is_none py_update dict_update fold_left fst snd py_kwargs kw_merge];
      rewrite ?EF, ?ESD, ?(TN _ ESD); cbn [negb bind py_setitem py_truthy py_is_none py_update dict_update fold_left fst snd py_kwargs kw_merge];
      rewrite ?HD; cbn [bind];
      match goal with |- bind ?m _ = _ => destruct m; reflexivity end.
Qed.

(* ---------------- E. segment L2, part b: the keyword dictionary against the model ---------------- *)
Lemma dict_get_opt_set : forall k k' v d,
  dict_get k (opt_set k' v d) = if String.eqb k k' then (if py_is_none v then dict_get k d else Some v) else dict_get k d.
Proof. intros. unfold opt_set. destruct (py_is_none v); [destruct (String.eqb k k'); reflexivity|apply dict_get_set]. Qed.
Lemma dict_get_trset : forall k d,
  dict_get k (trset d) = if String.eqb k "truncated"
                         then match dict_get "truncated" d with Some v => if py_truthy v then Some (VBool true) else None | None => None end
                         else dict_get k d.
Proof. intros. unfold trset. destruct (String.eqb k "truncated") eqn:E.
  - apply String.eqb_eq in E. subst k. destruct (dict_get "truncated" d) as [v|] eqn:G; [|exact G].
    destruct (py_truthy v); [rewrite dict_get_set|rewrite dict_get_del]; reflexivity.
  - destruct (dict_get "truncated" d) as [v|]; [|reflexivity].
    destruct (py_truthy v); rewrite ?dict_get_set, dict_get_del, E; reflexivity. Qed.

Lemma tstep_utc : forall d, tstep d "time_zone_utc" (VStr "Z") =
  dict_set "time_zone_minute" (VInt 0) (dict_set "time_zone_hour" (VInt 0) (dict_del "time_zone_utc" d)).
Proof. reflexivity. Qed.
Lemma tstep_hour : forall d v, tstep d "time_zone_hour" v = dict_set "time_zone_hour" (tfl v) d.
Proof. reflexivity. Qed.
Lemma tstep_minute : forall d v, tstep d "time_zone_minute" v = dict_set "time_zone_minute" (tfl v) d.
Proof. reflexivity. Qed.

Definition ZONE3 : list string := ["time_zone_hour"; "time_zone_minute"; "time_zone_utc"].
Definition zlook (z : zinfo) (k : string) : option pyval :=
  if String.eqb k "time_zone_hour" then
    match z with ZNone => None | ZUtc => Some (VInt 0) | ZVal h _ => Some (tfl (zv h)) end
  else if String.eqb k "time_zone_minute" then
    match z with ZNone => None | ZUtc => Some (VInt 0) | ZVal _ m => option_map (fun x => tfl (zv x)) m end
  else None.
Definition tlook (te : env) (k : string) : option pyval := option_map (fun s => tconv k (VStr s)) (lookup_env k te).

Lemma lookup_none_notin : forall k e, lookup_env k e = None -> ~ In k (map fst e).
Proof. induction e as [|[a b] e IH]; intros H I; [destruct I|]. cbn [lookup_env] in H. cbn [map fst In] in I.
  destruct (String.eqb k a) eqn:E; [discriminate|]. destruct I as [I|I]; [subst a; rewrite String.eqb_refl in E; discriminate|].
  exact (IH H I). Qed.

Lemma TIf_look : forall te z k,
  lookup_env "time_zone_hour" te = None -> lookup_env "time_zone_minute" te = None -> lookup_env "time_zone_utc" te = None ->
  dict_get k (TIf te z) = if mem k ZONE3 then zlook z k else tlook te k.
Proof.
  intros te z k H1 H2 H3. unfold TIf, tlook, zlook.
  assert (A : forall x, dict_get x (mapv tconv (zenv te)) = option_map (fun s => tconv x (VStr s)) (lookup_env x te)).
  { intros x. rewrite dict_get_mapv, dict_get_zenv. destruct (lookup_env x te); reflexivity. }
  destruct z as [| |h [m|]]; cbn [zdict fold_left fst snd]; rewrite ?tstep_utc, ?tstep_hour, ?tstep_minute;
    rewrite ?dict_get_set, ?dict_get_del, ?dict_get_app, ?A; cbn [dict_get mem existsb ZONE3 orb option_map];
    destruct (String.eqb k "time_zone_hour") eqn:E1; try (apply String.eqb_eq in E1; subst k; rewrite ?H1; reflexivity);
    destruct (String.eqb k "time_zone_minute") eqn:E2; try (apply String.eqb_eq in E2; subst k; rewrite ?H2; reflexivity);
    destruct (String.eqb k "time_zone_utc") eqn:E3; try (apply String.eqb_eq in E3; subst k; rewrite ?H3; reflexivity);
    cbn [orb]; destruct (lookup_env k te); reflexivity.
Qed.

Lemma NoDup_app_disj : forall (a b : list string), NoDup a -> NoDup b -> (forall x, In x a -> ~ In x b) -> NoDup (a ++ b).
Proof. induction a as [|x a IH]; intros b Ha Hb D; [exact Hb|]. cbn [app]. inversion Ha; subst. constructor.
  - intros I. apply in_app_iff in I. destruct I as [I|I]; [contradiction|]. exact (D x (or_introl eq_refl) I).
  - apply IH; [assumption|assumption|]. intros y I. apply D. right. exact I. Qed.

Lemma TIf_nodup : forall te z, NoDup (map fst te) ->
  lookup_env "time_zone_hour" te = None -> lookup_env "time_zone_minute" te = None -> lookup_env "time_zone_utc" te = None ->
  NoDup (keys (TIf te z)).
Proof.
  intros te z ND H1 H2 H3. unfold TIf.
  assert (B : NoDup (keys (mapv tconv (zenv te) ++ zdict z))).
  { unfold keys. rewrite map_app. apply NoDup_app_disj.
    - fold (keys (mapv tconv (zenv te))). rewrite keys_mapv, keys_zenv. exact ND.
    - destruct z as [| |h [m|]]; cbn; repeat constructor; cbn; intuition discriminate.
    - fold (keys (mapv tconv (zenv te))). rewrite keys_mapv, keys_zenv. intros x I J.
      apply lookup_none_notin in H1. apply lookup_none_notin in H2. apply lookup_none_notin in H3.
      destruct z as [| |h [m|]]; cbn in J; intuition (subst; contradiction). }
  destruct z as [| |h [m|]]; cbn [zdict fold_left fst snd] in *; rewrite ?tstep_utc, ?tstep_hour, ?tstep_minute;
    repeat first [apply NoDup_set | apply NoDup_del]; exact B.
Qed.


Lemma all_digits8_eq : forall s, all_digits8 s = all_digits s.
Proof. induction s as [|c s IH]; [reflexivity|]. cbn [all_digits8 all_digits]. rewrite IH. reflexivity. Qed.
Lemma digits_no_prefix : forall s, all_digits s = true -> str_prefix "0." s = None.
Proof.
  intros [|c [|d r]] H; cbn [str_prefix]; try reflexivity.
  - destruct (Ascii.eqb "0" c); reflexivity.
  - destruct (Ascii.eqb "0" c); [|reflexivity]. cbn [all_digits] in H.
    apply andb_true_iff in H. destruct H as [_ H]. apply andb_true_iff in H. destruct H as [H _].
    destruct (Ascii.eqb "." d) eqn:E; [|reflexivity]. apply Ascii.eqb_eq in E. subst d. discriminate H.
Qed.
Lemma tfl_digits : forall s, digits_plus s = true -> tfl (VStr s) = VFloat (qz (dnum s)).
Proof. intros s H. unfold tfl. cbn [py_float]. unfold py_float_str.
  assert (A : all_digits s = true) by (unfold digits_plus in H; apply andb_true_iff in H; apply H).
  rewrite (digits_no_prefix s A), (read_Z_digits s H). reflexivity. Qed.
Lemma tfl_dec : forall s, digits_plus s = true -> tfl (VStr ("0." ++ s)%string) = VFloat (frac_of s).
Proof. intros s H. unfold tfl. cbn [py_float]. unfold py_float_str. cbn [str_prefix String.append Ascii.eqb Bool.eqb].
  assert (A : all_digits s = true) by (unfold digits_plus in H; apply andb_true_iff in H; apply H).
  rewrite all_digits8_eq, A. unfold frac8, frac_of. rewrite (read_Z_digits s H). reflexivity. Qed.
Lemma qis_int_qz : forall n, qis_int (qz n) = true.
Proof. intros n. unfold qis_int, qz. rewrite Qfloor_Z. apply Qeq_bool_iff. reflexivity. Qed.
Lemma Qfloor_qz : forall n, Qfloor (qz n) = n.
Proof. intros n. unfold qz. apply Qfloor_Z. Qed.

Definition TIME_IN : list string := TIME_KEYS ++ ["truncated"].
Definition DATE_OUT : list string :=
  ["year"; "month_of_year"; "day_of_month"; "day_of_year"; "week_of_year"; "day_of_week"; "truncated";
   "num_expanded_year_digits"].
(* the literal a "truncated" group of a time form captures: not a number, not empty *)
Definition trunc_time_ok (te : env) : Prop :=
  forall s, lookup_env "truncated" te = Some s -> tfl (VStr s) = VStr s /\ String.eqb s "" = false.
Definition zfield_ok (v : string + Z) : Prop := match v with inl s => digits_plus s = true | inr _ => True end.
Definition zdigits (z : zinfo) : Prop :=
  match z with ZVal h m => zfield_ok h /\ match m with Some x => zfield_ok x | None => True end | _ => True end.
Definition zval (v : string + Z) : Z := match v with inl s => dnum s | inr z => z end.
Definition zn_val (z : zinfo) : option (Z * option Z) :=
  match z with ZNone => None | ZUtc => Some (0, Some 0)%Z | ZVal h m => Some (zval h, option_map zval m) end.
Lemma zn_of_digits : forall z, zdigits z -> zn_of z = POk (zn_val z).
Proof.
  intros [| |h m] H; try reflexivity. destruct H as [Hh Hm]. cbn [zn_of zn_val].
  assert (F : forall v, zfield_ok v -> zfield v = POk (zval v)).
  { intros [s|n] Hv; [|reflexivity]. cbn [zfield zval]. unfold digits_to_Z. rewrite (read_Z_digits s Hv). reflexivity. }
  rewrite (F h Hh). cbn [pbind]. destruct m as [x|]; [|reflexivity]. rewrite (F x Hm). reflexivity.
Qed.
Lemma tfl_zv : forall v, zfield_ok v -> tfl (zv v) = VFloat (qz (zval v)).
Proof. intros [s|n] H; [apply tfl_digits; exact H|reflexivity]. Qed.
Definition fmt_eff (fmt dfmt : option string) : string :=
  match fmt with Some s => s | None => match dfmt with Some s => s | None => "" end end.

Theorem gen8_L2 : forall md cfg dfs tfs zfs dfmt Dany fmt I dur yp te z tfmt tp
    (yr mo dom doy wk dow nedo : option Z) (trI : bool),
  keysP DATE_OUT I ->
  dict_get "year" I = option_map VInt yr -> dict_get "month_of_year" I = option_map VInt mo ->
  dict_get "day_of_month" I = option_map VInt dom -> dict_get "day_of_year" I = option_map VInt doy ->
  dict_get "week_of_year" I = option_map VInt wk -> dict_get "day_of_week" I = option_map VInt dow ->
  dict_get "num_expanded_year_digits" I = option_map VInt nedo ->
  truthy_opt (dict_get "truncated" I) = trI ->
  NoDup (map fst te) -> (forall k, lookup_env k te <> None -> mem k TIME_IN = true) ->
  digit_env TIME_KEYS te -> trunc_time_ok te -> zdigits z ->
  res_of (py__create_timepoint_from_info__L2 (mops md cfg) (self_of cfg dfs tfs zfs dfmt) Dany (ostr_val fmt)
            (VDict I) (VBool dur) yp (VDict (zenv te ++ zdict z)) (ostr_val tfmt) (tprop_val tp)) =
  construct md yr mo dom doy wk dow
    (nq te "hour_of_day") (ndec te "hour_of_day_decimal") (nq te "minute_of_hour") (ndec te "minute_of_hour_decimal")
    (nq te "second_of_minute") (ndec te "second_of_minute_decimal")
    (zn_val z) (trI || has_key "truncated" te) tp (od nedo) (fmt_eff fmt dfmt) dur.
Proof.
  intros md cfg dfs tfs zfs dfmt Dany fmt I dur yp te z tfmt tp yr mo dom doy wk dow nedo trI
         KI Hy Hmo Hdom Hdoy Hwk Hdow Hned Htr ND KT DG TT ZD.
  assert (TEN : forall k, mem k TIME_IN = false -> lookup_env k te = None).
  { intros k M. destruct (lookup_env k te) eqn:L; [|reflexivity]. rewrite KT in M; [discriminate|]. rewrite L. discriminate. }
  assert (IN : forall k, mem k DATE_OUT = false -> dict_get k I = None).
  { intros k M. destruct (dict_get k I) eqn:L; [|reflexivity]. rewrite KI in M; [discriminate|]. rewrite L. discriminate. }
  assert (H1 : lookup_env "time_zone_hour" te = None) by (apply TEN; reflexivity).
  assert (H2 : lookup_env "time_zone_minute" te = None) by (apply TEN; reflexivity).
  assert (H3 : lookup_env "time_zone_utc" te = None) by (apply TEN; reflexivity).
  assert (TN : NoDup (keys (TIf te z))) by (apply TIf_nodup; assumption).
  set (sdf := f_dump_format (self_of cfg dfs tfs zfs dfmt)).
  (* one lookup of the keyword dictionary *)
  assert (LK : forall k, dict_get k (fin_dict sdf (ostr_val fmt) (ostr_val tfmt) (tprop_val tp) (VBool dur) (dict_update I (TIf te z))) =
     if String.eqb k "is_duration" then Some (VBool dur)
     else if String.eqb k "truncated_dump_format" then match tfmt with Some s => Some (VStr s) | None => None end
     else if String.eqb k "dump_format" then (if String.eqb (fmt_eff fmt dfmt) "" then match fmt with Some s => Some (VStr s) | None => None end else Some (VStr (fmt_eff fmt dfmt)))
     else if String.eqb k "truncated_property" then (if String.eqb tp "" then None else Some (VStr tp))
     else if String.eqb k "truncated" then (if trI || has_key "truncated" te then Some (VBool true) else None)
     else match (if mem k ZONE3 then zlook z k else tlook te k) with Some v => Some v | None => dict_get k I end).
  { intros k. unfold fin_dict. rewrite dict_get_set.
    destruct (String.eqb k "is_duration") eqn:E1; [reflexivity|].
    rewrite dict_get_opt_set. destruct (String.eqb k "truncated_dump_format") eqn:E2.
    { apply String.eqb_eq in E2. subst k. destruct tfmt as [s|]; cbn [ostr_val py_is_none]; [reflexivity|].
      rewrite dict_get_opt_set. cbn [String.eqb Ascii.eqb Bool.eqb]. rewrite dict_get_opt_set. cbn [String.eqb Ascii.eqb Bool.eqb].
      rewrite dict_get_trset. cbn [String.eqb Ascii.eqb Bool.eqb]. rewrite dict_get_update by exact TN.
      rewrite TIf_look by assumption. cbn [mem existsb ZONE3 String.eqb Ascii.eqb Bool.eqb orb]. unfold tlook.
      rewrite TEN by reflexivity. cbn [option_map]. apply IN. reflexivity. }
    rewrite dict_get_opt_set. destruct (String.eqb k "dump_format") eqn:E3.
    { apply String.eqb_eq in E3. subst k. unfold eff_fmt, sdf, fmt_eff. cbn [self_of f_dump_format].
      assert (X : dict_get "dump_format" (opt_set "truncated_property" (tprop_val tp) (trset (dict_update I (TIf te z)))) = None).
      { rewrite dict_get_opt_set. cbn [String.eqb Ascii.eqb Bool.eqb].
        rewrite dict_get_trset. cbn [String.eqb Ascii.eqb Bool.eqb]. rewrite dict_get_update by exact TN.
        rewrite TIf_look by assumption. cbn [mem existsb ZONE3 String.eqb Ascii.eqb Bool.eqb orb]. unfold tlook.
        rewrite TEN by reflexivity. cbn [option_map]. apply IN. reflexivity. }
      destruct fmt as [s|]; cbn [ostr_val py_is_none py_truthy].
      - destruct (String.eqb s ""); reflexivity.
      - destruct dfmt as [s|]; cbn [ostr_val py_is_none py_truthy]; [|rewrite X; reflexivity].
        destruct (String.eqb s "") eqn:ES; cbn [negb py_is_none]; [rewrite X; reflexivity|reflexivity]. }
    rewrite dict_get_opt_set. destruct (String.eqb k "truncated_property") eqn:E4.
    { apply String.eqb_eq in E4. subst k. unfold tprop_val. destruct (String.eqb tp ""); cbn [py_is_none]; [|reflexivity].
      rewrite dict_get_trset. cbn [String.eqb Ascii.eqb Bool.eqb]. rewrite dict_get_update by exact TN.
      rewrite TIf_look by assumption. cbn [mem existsb ZONE3 String.eqb Ascii.eqb Bool.eqb orb]. unfold tlook.
      rewrite TEN by reflexivity. cbn [option_map]. apply IN. reflexivity. }
    rewrite dict_get_trset. destruct (String.eqb k "truncated") eqn:E5.
    { rewrite dict_get_update by exact TN. rewrite TIf_look by assumption.
      cbn [mem existsb ZONE3 String.eqb Ascii.eqb Bool.eqb orb]. unfold tlook, has_key.
      destruct (lookup_env "truncated" te) as [s|] eqn:L; cbn [option_map].
      - destruct (TT s L) as [T1 T2]. unfold tconv, tval.
        change (ends_with "_decimal" "truncated") with false. cbv iota. rewrite T1. cbn [py_truthy]. rewrite T2.
        rewrite orb_true_r. reflexivity.
      - rewrite orb_false_r. subst trI. unfold truthy_opt. destruct (dict_get "truncated" I) as [v|]; [|reflexivity].
        destruct (py_truthy v); reflexivity. }
    rewrite dict_get_update by exact TN. rewrite TIf_look by assumption. reflexivity. }
  rewrite gen8_L2a; [ | exact ND | exact H3 | ].
  2:{ unfold dict_has. rewrite !dict_get_opt_set. cbn [String.eqb Ascii.eqb Bool.eqb].
      rewrite dict_get_trset. cbn [String.eqb Ascii.eqb Bool.eqb]. rewrite dict_get_update by exact TN.
      rewrite TIf_look by assumption. cbn [mem existsb ZONE3 String.eqb Ascii.eqb Bool.eqb orb]. unfold tlook.
      rewrite TEN by reflexivity. cbn [option_map]. rewrite IN by reflexivity. reflexivity. }
  fold sdf. set (FIN := fin_dict _ _ _ _ _ _) in *.
  cbn [op_TimePoint mops]. unfold tp_ctor.
  assert (KF : forallb (fun kv => mem (fst kv) CTOR_KEYS) FIN = true).
  { apply keysP_forallb. intros k NE. rewrite LK in NE.
    repeat match type of NE with
    | context [String.eqb k ?lit] => let E := fresh "E" in destruct (String.eqb k lit) eqn:E;
        [apply String.eqb_eq in E; subst k; reflexivity|]
    end.
    destruct (mem k ZONE3) eqn:MZ.
    - unfold ZONE3, mem in MZ. cbn [existsb] in MZ.
      repeat match type of MZ with
      | context [String.eqb k ?lit] => let E := fresh "E" in destruct (String.eqb k lit) eqn:E;
          [apply String.eqb_eq in E; subst k;
           first [reflexivity | exfalso; apply NE; cbn [zlook String.eqb Ascii.eqb Bool.eqb]; apply IN; reflexivity]|]
      end. cbn [orb] in MZ. discriminate.
    - unfold tlook in NE. destruct (lookup_env k te) eqn:L; cbn [option_map] in NE.
      + assert (M : mem k TIME_IN = true) by (apply KT; rewrite L; discriminate).
        unfold TIME_IN, TIME_KEYS, mem in M. cbn [existsb app] in M.
        repeat match type of M with
        | context [String.eqb k ?lit] => let E := fresh "E" in destruct (String.eqb k lit) eqn:E;
            [apply String.eqb_eq in E; subst k; reflexivity|]
        end. cbn [orb] in M. discriminate.
      + assert (M : mem k DATE_OUT = true) by (apply KI; exact NE).
        unfold DATE_OUT, mem in M. cbn [existsb] in M.
        repeat match type of M with
        | context [String.eqb k ?lit] => let E := fresh "E" in destruct (String.eqb k lit) eqn:E;
            [apply String.eqb_eq in E; subst k; reflexivity|]
        end. cbn [orb] in M. discriminate. }
  rewrite KF. cbn [negb].
  (* the arguments *)
  assert (AZ : forall k o, mem k DATE_OUT = true -> mem k TIME_IN = false -> mem k ZONE3 = false ->
             String.eqb k "truncated" = false -> dict_get k I = option_map VInt o -> kwZ k FIN = Ok o).
  { intros k o M1 M2 M3 M4 HI. unfold kwZ, FIN. rewrite LK.
    assert (N : forall lit, mem lit DATE_OUT = false -> String.eqb k lit = false).
    { intros lit ML. destruct (String.eqb k lit) eqn:E; [|reflexivity]. apply String.eqb_eq in E. subst lit. congruence. }
    rewrite !N by reflexivity. rewrite M4, M3. unfold tlook. rewrite TEN by exact M2. cbn [option_map]. rewrite HI.
    destruct o; reflexivity. }
  rewrite (AZ "year" yr), (AZ "month_of_year" mo), (AZ "day_of_month" dom), (AZ "day_of_year" doy),
          (AZ "week_of_year" wk), (AZ "day_of_week" dow) by (reflexivity || assumption).
  cbn [bind].
  assert (AQ : forall k, mem k ["hour_of_day"; "minute_of_hour"; "second_of_minute"] = true -> kwQ k FIN = Ok (nq te k)).
  { intros k M. unfold kwQ, FIN, nq. rewrite LK.
    assert (K : In k TIME_KEYS /\ mem k DATE_OUT = false /\ mem k ZONE3 = false /\ ends_with "_decimal" k = false /\
                String.eqb k "is_duration" = false /\ String.eqb k "truncated_dump_format" = false /\ String.eqb k "dump_format" = false /\
                String.eqb k "truncated_property" = false /\ String.eqb k "truncated" = false).
    { unfold mem in M. cbn [existsb] in M.
      repeat match type of M with
      | context [String.eqb k ?lit] => let E := fresh "E" in destruct (String.eqb k lit) eqn:E;
          [apply String.eqb_eq in E; subst k; cbn; intuition|]
      end. cbn [orb] in M. discriminate. }
    destruct K as (K0 & K1 & K2 & K3 & K4 & K5 & K6 & K7 & K8). rewrite K4, K5, K6, K7, K8, K2. unfold tlook.
    destruct (lookup_env k te) as [s|] eqn:L; cbn [option_map].
    - unfold tconv, tval. rewrite K3. rewrite tfl_digits by (eapply DG; eassumption). reflexivity.
    - rewrite IN by exact K1. reflexivity. }
  assert (AD : forall k, mem k ["hour_of_day_decimal"; "minute_of_hour_decimal"; "second_of_minute_decimal"] = true -> kwQ k FIN = Ok (ndec te k)).
  { intros k M. unfold kwQ, FIN, ndec. rewrite LK.
    assert (K : In k TIME_KEYS /\ mem k DATE_OUT = false /\ mem k ZONE3 = false /\ ends_with "_decimal" k = true /\
                String.eqb k "is_duration" = false /\ String.eqb k "truncated_dump_format" = false /\ String.eqb k "dump_format" = false /\
                String.eqb k "truncated_property" = false /\ String.eqb k "truncated" = false).
    { unfold mem in M. cbn [existsb] in M.
      repeat match type of M with
      | context [String.eqb k ?lit] => let E := fresh "E" in destruct (String.eqb k lit) eqn:E;
          [apply String.eqb_eq in E; subst k; cbn; intuition|]
      end. cbn [orb] in M. discriminate. }
    destruct K as (K0 & K1 & K2 & K3 & K4 & K5 & K6 & K7 & K8). rewrite K4, K5, K6, K7, K8, K2. unfold tlook.
    destruct (lookup_env k te) as [s|] eqn:L; cbn [option_map].
    - unfold tconv, tval. rewrite K3. cbn [py_add]. rewrite tfl_dec by (eapply DG; eassumption). reflexivity.
    - rewrite IN by exact K1. reflexivity. }
  rewrite (AQ "hour_of_day"), (AQ "minute_of_hour"), (AQ "second_of_minute"), (AD "hour_of_day_decimal"),
          (AD "minute_of_hour_decimal"), (AD "second_of_minute_decimal") by reflexivity. cbn [bind].
  assert (ZH : kwZ "time_zone_hour" FIN = Ok (match zn_val z with Some (h, _) => Some h | None => None end) /\
               kwZ "time_zone_minute" FIN = Ok (match zn_val z with Some (_, m) => m | None => None end)).
  { unfold kwZ, FIN. rewrite !LK. cbn [String.eqb Ascii.eqb Bool.eqb mem existsb ZONE3 orb zlook].
    rewrite !IN by reflexivity.
    destruct z as [| |h [m|]]; cbn [zn_val option_map zdigits] in *.
    - split; reflexivity.
    - split; reflexivity.
    - destruct ZD as [Zh Zm]. rewrite (tfl_zv h Zh), (tfl_zv m Zm). rewrite !qis_int_qz, !Qfloor_qz. split; reflexivity.
    - destruct ZD as [Zh _]. rewrite (tfl_zv h Zh). rewrite !qis_int_qz, !Qfloor_qz. split; reflexivity. }
  destruct ZH as [ZH ZM]. rewrite ZH, ZM. cbn [bind].
  assert (TR : kwB "truncated" FIN = Ok (trI || has_key "truncated" te)).
  { unfold kwB, FIN. rewrite LK. cbn [String.eqb Ascii.eqb Bool.eqb]. destruct (trI || has_key "truncated" te); reflexivity. }
  assert (TPR : kwS "truncated_property" FIN = Ok tp).
  { unfold kwS, FIN. rewrite LK. cbn [String.eqb Ascii.eqb Bool.eqb]. destruct (String.eqb tp "") eqn:E; [|reflexivity].
    apply String.eqb_eq in E. subst tp. reflexivity. }
  assert (NED : kwZ "num_expanded_year_digits" FIN = Ok nedo).
  { apply AZ; try reflexivity. exact Hned. }
  assert (FM : kwS "dump_format" FIN = Ok (fmt_eff fmt dfmt)).
  { unfold kwS, FIN. rewrite LK. cbn [String.eqb Ascii.eqb Bool.eqb]. destruct (String.eqb (fmt_eff fmt dfmt) "") eqn:E; [|reflexivity].
    apply String.eqb_eq in E. rewrite E. destruct fmt as [s|]; [|reflexivity]. cbn [fmt_eff] in E. subst s. reflexivity. }
  assert (TDF : exists x, kwS "truncated_dump_format" FIN = Ok x).
  { unfold kwS, FIN. rewrite LK. cbn [String.eqb Ascii.eqb Bool.eqb]. destruct tfmt; eexists; reflexivity. }
  assert (DU : kwB "is_duration" FIN = Ok dur).
  { unfold kwB, FIN. rewrite LK. reflexivity. }
  destruct TDF as [x TDF]. rewrite TR, TPR, NED, FM, TDF, DU. cbn [bind].
  assert (ZA : zn_args match zn_val z with Some (h, _) => Some h | None => None end
                       match zn_val z with Some (_, m) => m | None => None end = zn_val z).
  { destruct z as [| |h [m|]]; reflexivity. }
  rewrite ZA. unfold od.
  destruct (construct md yr mo dom doy wk dow (nq te "hour_of_day") (ndec te "hour_of_day_decimal")
              (nq te "minute_of_hour") (ndec te "minute_of_hour_decimal") (nq te "second_of_minute")
              (ndec te "second_of_minute_decimal") (zn_val z) (trI || has_key "truncated" te) tp
              match nedo with Some v => v | None => 0%Z end (fmt_eff fmt dfmt) dur) as [p|e]; [reflexivity|].
  destruct e; reflexivity.
Qed.

(* ---------------- F. L1 + L2: from the state at the first loop to the model's constructor call ---------------- *)
Definition ival (o : option pyval) : option (option Z) :=
  match o with
  | None => Some None
  | Some (VInt z) => Some (Some z)
  | Some (VStr s) => if digits_plus s then Some (Some (dnum s)) else None
  | Some _ => None end.
Lemma ival_iconv : forall o n, ival o = Some n -> option_map iconv o = option_map VInt n.
Proof.
  intros [v|] n H; cbn [ival] in H; [|inversion H; reflexivity].
  destruct v; try discriminate H.
  - inversion H. reflexivity.
  - destruct (digits_plus s) eqn:D; [|discriminate]. inversion H. cbn [option_map]. unfold iconv. cbn [py_int].
    unfold py_int_str. rewrite (read_Z_digits s D). reflexivity.
Qed.
(* a "truncated" entry of the date dictionary: the Boolean of get_info, or a captured literal that is not a number *)
Definition dtrunc_ok (o : option pyval) : Prop :=
  match o with None => True | Some (VBool _) => True | Some (VStr s) => read_Z s = None | Some _ => False end.
Lemma dtrunc_truthy : forall o, dtrunc_ok o -> truthy_opt (option_map iconv o) = truthy_opt o.
Proof. intros [v|] H; [|reflexivity]. destruct v; try contradiction.
  - destruct b; reflexivity.
  - cbn [dtrunc_ok] in H. cbn [option_map]. unfold iconv. cbn [py_int]. unfold py_int_str. rewrite H. reflexivity. Qed.

Theorem gen8_create_tail : forall md cfg dfs tfs zfs dfmt fmt D' dur yp te z tfmt tp
    (yr mo dom doy wk dow nedo : option Z),
  NoDup (keys D') -> keysP DATE_OUT D' ->
  ival (dict_get "year" D') = Some yr -> ival (dict_get "month_of_year" D') = Some mo ->
  ival (dict_get "day_of_month" D') = Some dom -> ival (dict_get "day_of_year" D') = Some doy ->
  ival (dict_get "week_of_year" D') = Some wk -> ival (dict_get "day_of_week" D') = Some dow ->
  ival (dict_get "num_expanded_year_digits" D') = Some nedo -> dtrunc_ok (dict_get "truncated" D') ->
  NoDup (map fst te) -> (forall k, lookup_env k te <> None -> mem k TIME_IN = true) ->
  digit_env TIME_KEYS te -> trunc_time_ok te -> zdigits z ->
  res_of (py__create_timepoint_from_info__L1 (mops md cfg) (self_of cfg dfs tfs zfs dfmt) (VDict D') (ostr_val fmt)
            (VDict []) (VBool dur) yp (VDict (zenv te ++ zdict z)) (ostr_val tfmt) (tprop_val tp)) =
  construct md yr mo dom doy wk dow
    (nq te "hour_of_day") (ndec te "hour_of_day_decimal") (nq te "minute_of_hour") (ndec te "minute_of_hour_decimal")
    (nq te "second_of_minute") (ndec te "second_of_minute_decimal")
    (zn_val z) (truthy_opt (dict_get "truncated" D') || has_key "truncated" te) tp (od nedo) (fmt_eff fmt dfmt) dur.
Proof.
  intros md cfg dfs tfs zfs dfmt fmt D' dur yp te z tfmt tp yr mo dom doy wk dow nedo
         ND KD Hy Hmo Hdom Hdoy Hwk Hdow Hned Htr NT KT DG TT ZD.
  rewrite gen8_L1 by exact ND.
  assert (LI : forall k, dict_get k (dict_update [] (mapv (fun _ => iconv) D')) = option_map iconv (dict_get k D')).
  { intros k. rewrite dict_get_update by (rewrite keys_mapv; exact ND). rewrite dict_get_mapv.
    destruct (dict_get k D'); reflexivity. }
  apply gen8_L2; try assumption; rewrite ?LI; try (apply ival_iconv; assumption).
  - intros k NE. rewrite LI in NE. apply KD. destruct (dict_get k D'); [discriminate|exact NE].
  - apply dtrunc_truthy. exact Htr.
Qed.
