(* Proofs/GenCode8Ok.v -- the method bodies of class TimePointParser, as translated
   into gen/GenCode8.v on every run, equal the hand-written model of
   Model/Parse.v.  See notes/GENCODE8_REPORT.md. *)
From Coq Require Import ZArith QArith Qround List Bool String Ascii Lia.
From Iso Require Import Spec.Cal Model.Num Model.Helpers Model.Duration Model.TimePoint Model.Forms
  Model.Parse Spec.FormText Proofs.MatchSpec gen.Grammar Model.DriverText gen.GenCode8.
Import ListNotations.
Local Open Scope string_scope.

Lemma gen_code8_accepted : translator_ok_code8 = true.
Proof. reflexivity. Qed.

(* ------------------------------------------------------------------ *)
(* 1. the instantiation                                                 *)
(* ------------------------------------------------------------------ *)
(* a regex-map entry [compiled pattern, expression text] *)
Definition entry (f : form) : pyval := VList [VRegex (f_parse f); VStr (f_expr f)].
Fixpoint nodup_str (l : list string) : list string :=
  match l with [] => [] | x :: r => x :: filter (fun y => negb (String.eqb y x)) (nodup_str r) end.
(* the type keys of a table for a format key, in order of first appearance *)
Definition type_keys_of (forms : list form) (fk : string) : list string :=
  nodup_str (map f_type (filter (fun f => String.eqb (f_format f) fk) forms)).
Definition sel (forms : list form) (fk tk : string) : list form :=
  filter (fun f => String.eqb (f_format f) fk && String.eqb (f_type f) tk) forms.
Definition type_map (forms : list form) (fk : string) : pyval :=
  VDict (map (fun tk => (tk, VList (map entry (sel forms fk tk)))) (type_keys_of forms fk)).
(* self._date_regex_map / self._time_regex_map as _generate_regexes leaves them *)
Definition regex_map2 (cfg : pcfg) (forms : list form) : pyval :=
  VDict (map (fun fk => (fk, type_map forms fk)) (formats_of cfg)).
(* self._time_zone_regex_map *)
Definition regex_map1 (cfg : pcfg) (forms : list form) : pyval :=
  VDict (map (fun fk => (fk, VList (map entry (filter (fun f => String.eqb (f_format f) fk) forms)))) (formats_of cfg)).

Definition ostr_val (o : option string) : pyval := match o with Some s => VStr s | None => VNone end.
(* the parser object for a model configuration; dfmt = its dump_format attribute *)
Definition self_of (cfg : pcfg) (dfs tfs zfs : list form) (dfmt : option string) : pyParser :=
  mkParser (VInt (c_ned cfg)) (VBool (c_trunc cfg)) (VBool (c_basic cfg))
           (match c_assumed cfg with Some (h, m) => VTuple [VInt h; VInt m] | None => VNone end)
           (VBool (c_unknown cfg)) (ostr_val dfmt)
           (regex_map2 cfg dfs) (regex_map2 cfg tfs) (regex_map1 cfg zfs).

(* keyword arguments of the TimePoint constructor, read with the types of
   GenCode7's entry point *)
Definition kwZ (k : string) (d : dict) : exc (option Z) :=
  match dict_get k d with
  | None | Some VNone => Ok None
  | Some (VInt z) => Ok (Some z)
  | Some (VFloat q) => if qis_int q then Ok (Some (Qfloor q)) else Raise BadInputError   (* _int_caster *)
  | Some _ => Raise NotTranslated end.
Definition kwQ (k : string) (d : dict) : exc (option Q) :=
  match dict_get k d with
  | None | Some VNone => Ok None
  | Some (VInt z) => Ok (Some (qz z))
  | Some (VFloat q) => Ok (Some q)
  | Some _ => Raise NotTranslated end.
Definition kwB (k : string) (d : dict) : exc bool :=
  match dict_get k d with None => Ok false | Some (VBool b) => Ok b | Some _ => Raise NotTranslated end.
Definition kwS (k : string) (d : dict) : exc string :=
  match dict_get k d with None | Some VNone => Ok "" | Some (VStr s) => Ok s | Some _ => Raise NotTranslated end.
Definition CTOR_KEYS : list string :=
  ["year"; "month_of_year"; "day_of_month"; "day_of_year"; "week_of_year"; "day_of_week";
   "hour_of_day"; "hour_of_day_decimal"; "minute_of_hour"; "minute_of_hour_decimal";
   "second_of_minute"; "second_of_minute_decimal"; "time_zone_hour"; "time_zone_minute";
   "truncated"; "truncated_property"; "num_expanded_year_digits"; "dump_format";
   "truncated_dump_format"; "is_duration"].
Definition zn_args (zh zm : option Z) : option (Z * option Z) :=
  match zh, zm with
  | None, None => None | Some h, m => Some (h, m) | None, Some m => Some (0%Z, Some m) end.
(* data.TimePoint( **kw ): the model's construct (phase 7 proves the real
   constructor equal to it) *)
Definition tp_ctor (md : mode) (kw : pyval) : exc pyval :=
  match kw with
  | VDict d =>
    if negb (forallb (fun kv => mem (fst kv) CTOR_KEYS) d) then Raise TypeError   (* unexpected keyword *)
    else
      year <- kwZ "year" d ;; month <- kwZ "month_of_year" d ;; dom <- kwZ "day_of_month" d ;;
      doy <- kwZ "day_of_year" d ;; week <- kwZ "week_of_year" d ;; dow <- kwZ "day_of_week" d ;;
      hour <- kwQ "hour_of_day" d ;; hdec <- kwQ "hour_of_day_decimal" d ;;
      mi <- kwQ "minute_of_hour" d ;; mdec <- kwQ "minute_of_hour_decimal" d ;;
      sec <- kwQ "second_of_minute" d ;; sdec <- kwQ "second_of_minute_decimal" d ;;
      zh <- kwZ "time_zone_hour" d ;; zm <- kwZ "time_zone_minute" d ;;
      tr <- kwB "truncated" d ;; tprop <- kwS "truncated_property" d ;;
      ned <- kwZ "num_expanded_year_digits" d ;; fmt <- kwS "dump_format" d ;;
      _ <- kwS "truncated_dump_format" d ;; dur <- kwB "is_duration" d ;;
      match construct md year month dom doy week dow hour hdec mi mdec sec sdec (zn_args zh zm)
                      tr tprop (match ned with Some n => n | None => 0%Z end) fmt dur with
      | POk p => Ok (VPoint p)
      | PErr EBadInput => Raise BadInputError
      | PErr _ => Raise NotTranslated end
  | _ => Raise TypeError end.

Definition mops (md : mode) (cfg : pcfg) : parser_ops :=
  mkOps (Ok (VTuple [VInt (fst (c_local cfg)); VInt (snd (c_local cfg))])) (tp_ctor md).

(* how an outcome of the code reads as an outcome of the model *)
Definition perr_of (e : pyexn) : perr :=
  match e with
  | ISO8601SyntaxError => ESyntax | BadInputError => EBadInput
  | ValueError | TypeError | KeyError => EValue
  | _ => EUnmodelled end.

(* ------------------------------------------------------------------ *)
(* 2. dictionaries                                                      *)
(* ------------------------------------------------------------------ *)
(* what groupdict() returns for the bindings e *)
Definition zenv (e : env) : dict := map (fun kv => (fst kv, VStr (snd kv))) e.
(* date bindings: the model writes the Boolean True of get_info's
   {"truncated": True} as the text "True" *)
Definition dval (k s : string) : pyval :=
  if String.eqb k "truncated" && String.eqb s "True" then VBool true else VStr s.
Definition denv (e : env) : dict := map (fun kv => (fst kv, dval (fst kv) (snd kv))) e.

Lemma dict_get_zenv : forall k e, dict_get k (zenv e) = option_map VStr (lookup_env k e).
Proof. induction e as [|[a b] e IH]; [reflexivity|]. cbn [zenv map dict_get lookup_env fst snd].
  destruct (String.eqb k a); [reflexivity|exact IH]. Qed.
Lemma dict_get_denv : forall k e, dict_get k (denv e) = option_map (dval k) (lookup_env k e).
Proof. induction e as [|[a b] e IH]; [reflexivity|]. cbn [denv map dict_get lookup_env fst snd].
  destruct (String.eqb k a) eqn:E; [|exact IH]. apply String.eqb_eq in E. subst a. reflexivity. Qed.
Lemma dict_get_set : forall k k' v d, dict_get k (dict_set k' v d) = if String.eqb k k' then Some v else dict_get k d.
Proof.
  induction d as [|[a b] d IH]; cbn [dict_set dict_get].
  - reflexivity.
  - destruct (String.eqb k' a) eqn:E.
    + apply String.eqb_eq in E. subst a. cbn [dict_get]. destruct (String.eqb k k'); reflexivity.
    + cbn [dict_get]. rewrite IH. destruct (String.eqb k a) eqn:F; [|reflexivity].
      apply String.eqb_eq in F. subst a. destruct (String.eqb k k') eqn:G; [|reflexivity].
      apply String.eqb_eq in G. subst k'. rewrite String.eqb_refl in E. discriminate.
Qed.
Lemma dict_get_del : forall k k' d, dict_get k (dict_del k' d) = if String.eqb k k' then None else dict_get k d.
Proof.
  induction d as [|[a b] d IH]; cbn [dict_del dict_get].
  - destruct (String.eqb k k'); reflexivity.
  - destruct (String.eqb k' a) eqn:E.
    + apply String.eqb_eq in E. subst a. rewrite IH. destruct (String.eqb k k'); reflexivity.
    + cbn [dict_get]. rewrite IH. destruct (String.eqb k a) eqn:F; [|reflexivity].
      apply String.eqb_eq in F. subst a. destruct (String.eqb k k') eqn:G; [|reflexivity].
      apply String.eqb_eq in G. subst k'. rewrite String.eqb_refl in E. discriminate.
Qed.

(* the canonical zone dictionary of a model zinfo *)
Definition zv (v : string + Z) : pyval := match v with inl s => VStr s | inr z => VInt z end.
Definition zdict (z : zinfo) : dict :=
  match z with
  | ZNone => []
  | ZUtc => [("time_zone_utc", VStr "Z")]
  | ZVal h m => ("time_zone_hour", zv h) :: match m with Some x => [("time_zone_minute", zv x)] | None => [] end
  end.
(* the binding lists the zone regexes produce *)
Definition zone_env_ok (e : env) : Prop :=
  e = [] \/ e = [("time_zone_utc", "Z")] \/
  (exists sg h, e = [("time_zone_sign", sg); ("time_zone_hour", h)]) \/
  (exists sg h m, e = [("time_zone_sign", sg); ("time_zone_hour", h); ("time_zone_minute", m)]).

Arguments read_Z : simpl never.
Arguments pmatch : simpl never.

Ltac ev :=
  repeat (cbn [bind py_truthy py_is_none negb py_get py_pop py_eq py_in py_getitem py_setitem py_update
               py_unpack2 py_unpack3 seq_of py_int py_neg py_add py_mul py_int_str dict_get dict_has dict_set dict_del
               dict_update fold_left fst snd num_of is_intlike is_container andb orb
               List.length Nat.eqb String.eqb Ascii.eqb Bool.eqb zenv map zdict zv
               op_get_local_time_zone op_TimePoint mops self_of
               f_assumed_time_zone f_default_to_unknown_time_zone f_num_expanded_year_digits f_allow_truncated
               f_allow_only_basic f_dump_format f__date_regex_map f__time_regex_map f__time_zone_regex_map]).

(* ------------------------------------------------------------------ *)
(* 3. process_time_zone_info = process_zone                             *)
(* ------------------------------------------------------------------ *)
Definition zone_rel (c : exc pyval) (m : pres zinfo) : Prop :=
  match m with
  | POk z => c = Ok (VDict (zdict z))
  | PErr x => exists e, c = Raise e /\ perr_of e = x end.

Lemma gen8_process : forall md cfg dfs tfs zfs dfmt e, zone_env_ok e ->
  zone_rel (py_process_time_zone_info (mops md cfg) (self_of cfg dfs tfs zfs dfmt) (VDict (zenv e))) (process_zone cfg e).
Proof.
  intros md cfg dfs tfs zfs dfmt e [E|[E|[(sg & h & E)|(sg & h & m & E)]]]; subst e;
    unfold py_process_time_zone_info, process_zone, zone_rel, has_key; cbv zeta beta; ev.
  - destruct (c_assumed cfg) as [[ah am]|]; ev; [reflexivity|].
    destruct (c_unknown cfg); ev; reflexivity.
  - reflexivity.
  - cbn [lookup_env String.eqb Ascii.eqb Bool.eqb neg_field].
    destruct (String.eqb sg "-"); ev; unfold py_int_str.
    + destruct (read_Z h) as [z|]; ev; [reflexivity|]. eexists; split; reflexivity.
    + reflexivity.
  - cbn [lookup_env String.eqb Ascii.eqb Bool.eqb neg_field].
    destruct (String.eqb sg "-"); ev; unfold py_int_str.
    + destruct (read_Z h) as [z|]; ev.
      * unfold py_int_str. destruct (read_Z m) as [z'|]; ev; [reflexivity|]. eexists; split; reflexivity.
      * destruct (read_Z m); eexists; split; reflexivity.
    + reflexivity.
Qed.

(* the default argument (None) is the empty dictionary *)
Lemma gen8_process_none : forall md cfg dfs tfs zfs dfmt,
  py_process_time_zone_info (mops md cfg) (self_of cfg dfs tfs zfs dfmt) VNone =
  py_process_time_zone_info (mops md cfg) (self_of cfg dfs tfs zfs dfmt) (VDict []).
Proof. intros. unfold py_process_time_zone_info. cbv zeta beta. ev. reflexivity. Qed.

(* ------------------------------------------------------------------ *)
(* 4. the searches: get_date_info / get_time_info / get_time_zone_info  *)
(* ------------------------------------------------------------------ *)
Definition strs (l : list string) : pyval := VList (map VStr l).
Definition TK3 : list string := ["complete"; "reduced"; "truncated"].
(* the type keys of both formats, in the order the model searches them *)
Definition types_ok (forms : list form) : Prop :=
  type_keys_of forms "basic" = TK3 /\ type_keys_of forms "extended" = TK3.

Lemma first_match_app : forall a b s,
  first_match (a ++ b) s = match first_match a s with Some x => Some x | None => first_match b s end.
Proof. induction a as [|f a IH]; intros b s; [reflexivity|]. cbn [app first_match].
  destruct (pmatch (f_parse f) s []); [reflexivity|apply IH]. Qed.

(* the innermost loop `for regex, expr in regex_list` with a return at the
   first match, whatever the loop body looks like *)
Lemma inner_search : forall (s : string) (mk : string -> env -> pyval) (body : pyval -> dict -> exc lctl),
  (forall f st, match pmatch (f_parse f) s [] with
                | Some e => body (entry f) st = Ok (LReturn (mk (f_expr f) e))
                | None => exists st', body (entry f) st = Ok (LNext st') end) ->
  forall L st, match first_match L s with
               | Some (f, e) => py_for (map entry L) body st = Ok (LRet (mk (f_expr f) e))
               | None => exists st', py_for (map entry L) body st = Ok (LDone st') end.
Proof.
  intros s mk body HB. induction L as [|f L IH]; intros st; cbn [first_match map py_for].
  - eexists; reflexivity.
  - specialize (HB f st). destruct (pmatch (f_parse f) s []) as [e|].
    + rewrite HB. reflexivity.
    + destruct HB as [st' HB]. rewrite HB. apply IH.
Qed.

Definition found_val (mk : string -> env -> pyval) (r : option (form * env)) : exc pyval :=
  match r with Some (f, e) => Ok (mk (f_expr f) e) | None => Raise ISO8601SyntaxError end.

Ltac ev_search :=
  repeat (cbn [bind py_truthy py_is_none negb py_items py_iter py_unpack2 seq_of py_in in_list py_eq
               py_getitem py_remove remove_first py_re_match py_groupdict
               dict_get dict_has fst snd num_of is_intlike is_container andb orb map strs entry
               List.length Nat.eqb String.eqb Ascii.eqb Bool.eqb regex_map2 regex_map1 type_map TK3 formats_of
               mem existsb filter flat_map app self_of py_for c_basic c_trunc sget
               f_allow_truncated f__date_regex_map f__time_regex_map f__time_zone_regex_map]).

(* apply inner_search to the innermost loop of the goal and split on its outcome *)
Ltac inner_step s mk :=
  lazymatch goal with
  | |- context [py_for (map entry ?L) ?B ?st] =>
    let HB := fresh "HB" in
    assert (HB : forall f stx, match pmatch (f_parse f) s [] with
                               | Some e => B (entry f) stx = Ok (LReturn (mk (f_expr f) e))
                               | None => exists st', B (entry f) stx = Ok (LNext st') end);
    [ let f := fresh "f" in let stx := fresh "stx" in intros f stx; cbv beta; ev_search; destruct (pmatch (f_parse f) s []) as [e0|]; ev_search;
      [reflexivity|eexists; reflexivity]
    | let H := fresh "H" in
      pose proof (inner_search s mk B HB L st) as H; clear HB;
      rewrite ?first_match_app;
      let FM := fresh "FM" in
      destruct (first_match L s) as [[f0 e0]|] eqn:FM;
      [ rewrite H; clear H; ev_search; try reflexivity
      | let st' := fresh "st" in destruct H as [st' H]; rewrite H; clear H; ev_search ] ]
  end.

Definition mk_time (ex : string) (e : env) : pyval := VTuple [VStr ex; VDict (zenv e)].
Definition mk_date (fk tk : string) (ex : string) (e : env) : pyval :=
  VTuple [VTuple [VStr fk; VStr tk; VStr ex]; VDict (zenv e)].

(* bad_formats / bad_types as get_info passes them *)
Definition bf_used (bf : list string) : Prop := bf = [] \/ bf = ["basic"] \/ bf = ["extended"].
Definition bt_used (bt : list string) : Prop := bt = [] \/ bt = ["truncated"].

Lemma gen8_get_time_zone_info : forall md cfg dfs tfs zfs dfmt s bf, bf_used bf ->
  py_get_time_zone_info (mops md cfg) (self_of cfg dfs tfs zfs dfmt) (VStr s) (strs bf) =
  found_val mk_time (get_zone_info zfs cfg s bf).
Proof.
  intros md cfg dfs tfs zfs dfmt s bf HB.
  unfold py_get_time_zone_info, py_get_time_zone_info__L1, get_zone_info, found_val, formats_of. cbv zeta beta.
  destruct cfg as [ned tr ba asm unk loc].
  destruct HB as [E|[E|E]]; subst bf; destruct ba; ev_search; rewrite ?app_nil_r;
    try reflexivity;
    repeat (inner_step s mk_time);
    try reflexivity.
Qed.

Lemma gen8_get_time_info : forall md cfg dfs tfs zfs dfmt s bf bt, types_ok tfs -> bf_used bf -> bt_used bt ->
  py_get_time_info (mops md cfg) (self_of cfg dfs tfs zfs dfmt) (VStr s) (strs bf) (strs bt) =
  found_val mk_time (get_time_info tfs cfg s bf bt).
Proof.
  intros md cfg dfs tfs zfs dfmt s bf bt [T1 T2] HF HT.
  unfold py_get_time_info, py_get_time_info__L1, get_time_info, found_val, formats_of, self_of, regex_map2, type_map. cbv zeta beta.
  destruct cfg as [ned tr ba asm unk loc].
  destruct HF as [E|[E|E]]; subst bf; destruct HT as [E|E]; subst bt; destruct ba; ev_search;
    rewrite ?T1, ?T2; ev_search; unfold sel; rewrite ?app_nil_r; rewrite ?first_match_app;
    try reflexivity;
    repeat (inner_step s mk_time);
    try reflexivity.
Qed.

(* bad_types as get_info passes them: None (or the empty list) and ["reduced"] *)
Lemma gen8_get_date_info : forall md cfg dfs tfs zfs dfmt s (reduced_bad : bool), types_ok dfs ->
  py_get_date_info (mops md cfg) (self_of cfg dfs tfs zfs dfmt) (VStr s)
                   (if reduced_bad then strs ["reduced"] else VNone) =
  match get_date_info dfs cfg s (if reduced_bad then ["reduced"] else []) with
  | Some (f, e) => Ok (mk_date (f_format f) (f_type f) (f_expr f) e)
  | None => Raise ISO8601SyntaxError end.
Proof.
  intros md cfg dfs tfs zfs dfmt s rb [T1 T2].
  unfold py_get_date_info, py_get_date_info__L1, get_date_info, formats_of, self_of, regex_map2, type_map. cbv zeta beta.
  destruct cfg as [ned tr ba asm unk loc].
  destruct rb; destruct tr; destruct ba; ev_search;
    rewrite ?T1, ?T2; ev_search; unfold sel; rewrite ?app_nil_r; rewrite ?first_match_app;
    try reflexivity;
    repeat (first [ inner_step s (mk_date "basic" "complete") | inner_step s (mk_date "basic" "truncated")
                  | inner_step s (mk_date "basic" "reduced") | inner_step s (mk_date "extended" "complete")
                  | inner_step s (mk_date "extended" "truncated") | inner_step s (mk_date "extended" "reduced") ]);
    try reflexivity.
  all: match goal with FM : first_match (filter _ _) _ = Some (?f, _) |- _ =>
         apply first_match_In in FM; apply filter_In in FM; destruct FM as [_ FM];
         apply andb_true_iff in FM; destruct FM as [F1 F2];
         apply String.eqb_eq in F1; apply String.eqb_eq in F2; rewrite F1, F2; reflexivity end.
Qed.

(* ------------------------------------------------------------------ *)
(* 5. _create_timepoint_from_info up to its first loop: the year        *)
(*    arithmetic, the sign and the truncated properties                 *)
(* ------------------------------------------------------------------ *)
(* the model's quantities (the lets of create_timepoint / MatchSpec.point_num) *)
Definition m_trunc0 (d : env) : bool := has_key "truncated" d.
Definition m_tprop0 (d : env) : string :=
  if m_trunc0 d then (if has_key "year_of_century" d then "year_of_century"
                      else if has_key "year_of_decade" d then "year_of_decade" else "")
  else if negb (has_key "century" d) && has_key "year_of_century" d then "year_of_century" else "".
Definition m_trunc1 (d : env) : bool :=
  m_trunc0 d || (negb (m_trunc0 d) && negb (has_key "century" d) && has_key "year_of_century" d).
Definition m_year_present (d : env) : bool :=
  negb (m_trunc1 d) || has_key "year_of_decade" d || has_key "century" d || has_key "year_of_century" d ||
  has_key "expanded_year" d || has_key "year_sign" d.
Definition m_yr (d : env) : option Z :=
  if m_year_present d then
    let y := (od (nz d "year_of_decade") + od (nz d "year_of_century") +
              100 * od (nz d "century") + 10000 * od (nz d "expanded_year"))%Z in
    let neg := match lookup_env "year_sign" d with Some s => String.eqb s "-" | None => false end in
    Some (if neg then (- y)%Z else y)
  else None.
Definition m_tprop (d : env) : string :=
  if has_key "year_of_decade" d && m_year_present d then "year_of_decade" else m_tprop0 d.
Definition m_ned (cfg : pcfg) (d : env) : Z :=
  match lookup_env "expanded_year" d with Some s => if String.eqb s "" then 0%Z else c_ned cfg | None => 0%Z end.

(* they are the model's: point_num is the constructor call on them *)
Lemma point_num_parts : forall md cfg d t zn fmt dur,
  point_num md cfg d t zn fmt dur =
  construct md (m_yr d) (nz d "month_of_year") (nz d "day_of_month") (nz d "day_of_year")
            (nz d "week_of_year") (nz d "day_of_week")
            (nq t "hour_of_day") (ndec t "hour_of_day_decimal")
            (nq t "minute_of_hour") (ndec t "minute_of_hour_decimal")
            (nq t "second_of_minute") (ndec t "second_of_minute_decimal")
            zn (m_trunc1 d || has_key "truncated" t) (m_tprop d) (m_ned cfg d) fmt dur.
Proof. reflexivity. Qed.

Definition YEAR_KEYS : list string :=
  ["year"; "year_of_decade"; "year_of_century"; "century"; "expanded_year"; "year_sign"; "truncated";
   "num_expanded_year_digits"].
Definition tprop_val (s : string) : pyval := if String.eqb s "" then VNone else VStr s.
Definition truthy_opt (o : option pyval) : bool := match o with Some v => py_truthy v | None => false end.

(* the state in which the first loop (int() of every value) is entered *)
Definition cut_state (cfg : pcfg) (de : env) (D' : dict) : Prop :=
  dict_get "year" D' = option_map VInt (m_yr de) /\
  truthy_opt (dict_get "truncated" D') = m_trunc1 de /\
  dict_get "num_expanded_year_digits" D' = (if (m_ned cfg de =? 0)%Z then None else Some (VInt (m_ned cfg de))) /\
  dict_get "year_of_century" D' = (if m_year_present de then None else dict_get "year_of_century" (denv de)) /\
  dict_get "century" D' = (if m_year_present de then None else dict_get "century" (denv de)) /\
  dict_get "expanded_year" D' = (if m_year_present de then None else dict_get "expanded_year" (denv de)) /\
  dict_get "year_sign" D' = (if m_year_present de then None else dict_get "year_sign" (denv de)) /\
  dict_get "year_of_decade" D' = (if m_year_present de then None else dict_get "year_of_decade" (denv de)) /\
  (forall k, mem k YEAR_KEYS = false -> dict_get k D' = dict_get k (denv de)).

Ltac evc :=
  repeat (progress cbn [bind py_truthy py_is_none negb py_get py_pop py_eq py_in py_getitem py_setitem py_update
               py_unpack2 py_unpack3 seq_of py_int py_neg py_add py_mul dict_has
               fst snd num_of is_intlike is_container andb orb py_for py_iter sget dict_get
               List.length Nat.eqb String.eqb Ascii.eqb Bool.eqb option_map dval
               op_get_local_time_zone op_TimePoint mops self_of
               f_assumed_time_zone f_default_to_unknown_time_zone f_num_expanded_year_digits f_allow_truncated
               f_allow_only_basic f_dump_format f__date_regex_map f__time_regex_map f__time_zone_regex_map]
          || rewrite dict_get_set || rewrite dict_get_del || rewrite dict_get_denv || unfold py_int_str).

(* ------------------------------------------------------------------ *)
(* 6. the generated tables satisfy the hypotheses; running the code     *)
(* ------------------------------------------------------------------ *)
Lemma tables_types_ok :
  types_ok DATE_FORMS_0 /\ types_ok DATE_FORMS_2 /\ types_ok DATE_FORMS_3 /\ types_ok TIME_FORMS.
Proof. unfold types_ok. vm_compute. repeat split; reflexivity. Qed.

(* an outcome of the translated parse as an outcome of the model *)
Definition res_of (c : exc pyval) : pres ptp :=
  match c with Ok (VPoint p) => POk p | Ok _ => PErr EUnmodelled | Raise e => PErr (perr_of e) end.
Definition code_parser (cfg : pcfg) : pyParser :=
  self_of cfg (date_forms_of (c_ned cfg)) TIME_FORMS ZONE_FORMS None.
(* TimePointParser(..).parse(text, dump_as_parsed=asp), printed as the line protocol prints it *)
Definition run_parse (md : mode) (cfg : pcfg) (text : string) (asp : bool) : string :=
  sh_pres sh_ptp (res_of (py_parse (mops md cfg) (code_parser cfg) (VStr text) VNone (VBool asp) (VBool false))).
