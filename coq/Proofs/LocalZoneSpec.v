(* Proofs/LocalZoneSpec.v -- C18: the offset split and its text forms. *)
From Coq Require Import String.
From Iso Require Import Proofs.Tac Spec.ZoneText Model.LocalZone.

Lemma split_offset_spec o :
  let '(h, m) := split_offset (60 * o) in
  60 * h + m = o /\ -59 <= m <= 59 /\
  (0 <= o -> 0 <= h /\ 0 <= m) /\ (o < 0 -> h <= 0 /\ m <= 0).
Proof.
  unfold split_offset.
  destruct (60 * o <? 0) eqn:E.
  - change (-1 * 60) with (-60). repeat split; lia.
  - change (1 * 60) with 60. repeat split; lia.
Qed.

Lemma utc_offset_select tz alt dl isdst :
  utc_offset_seconds tz alt dl isdst = if (isdst =? 1) && negb (dl =? 0) then - alt else - tz.
Proof. reflexivity. Qed.

(* finite reflection: every offset pair in the legal box, in every mode *)
Definition zrange (lo : Z) (n : nat) : list Z := map (fun i => lo + Z.of_nat i) (seq 0 n).
Lemma zrange_in lo n x : lo <= x < lo + Z.of_nat n -> In x (zrange lo n).
Proof.
  intros H. unfold zrange. apply in_map_iff. exists (Z.to_nat (x - lo)). split; [lia|].
  apply in_seq. lia.
Qed.

Definition sign_ok (h m : Z) : bool :=
  if 0 <? h then 0 <=? m else if h <? 0 then m <=? 0 else true.

Definition fmt_ok (mode : tzfmt) (h m : Z) : bool :=
  negb (sign_ok h m) ||
  match read_offset (format_offset mode (h, m)) with
  | Some (h', m') => (h' =? h) && (m' =? m)
  | None => false
  end.

Definition all_fmt_ok : bool :=
  forallb (fun h => forallb (fun m =>
     fmt_ok TzNormal h m && fmt_ok TzExtended h m && fmt_ok TzReduced h m)
     (zrange (-59) 119)) (zrange (-99) 199).

Lemma all_fmt_ok_true : all_fmt_ok = true.
Proof. vm_compute. reflexivity. Qed.

Lemma format_offset_spec mode h m :
  -99 <= h <= 99 -> -59 <= m <= 59 -> sign_ok h m = true ->
  read_offset (format_offset mode (h, m)) = Some (h, m).
Proof.
  intros Hh Hm Hs.
  pose proof all_fmt_ok_true as A. unfold all_fmt_ok in A.
  assert (Ih : In h (zrange (-99) 199)) by (apply zrange_in; change (Z.of_nat 199) with 199; lia).
  assert (Im : In m (zrange (-59) 119)) by (apply zrange_in; change (Z.of_nat 119) with 119; lia).
  rewrite forallb_forall in A. specialize (A h Ih).
  rewrite forallb_forall in A. specialize (A m Im).
  apply andb_prop in A; destruct A as [A Ar]. apply andb_prop in A; destruct A as [An Ae].
  assert (K : forall md, fmt_ok md h m = true -> read_offset (format_offset md (h, m)) = Some (h, m)).
  { intros md F. unfold fmt_ok in F. rewrite Hs in F. cbn [negb orb] in F.
    destruct (read_offset (format_offset md (h, m))) as [[h' m']|]; [|discriminate].
    apply andb_prop in F; destruct F as [F1 F2].
    assert (h' = h) by lia. assert (m' = m) by lia. subst. reflexivity. }
  destruct mode; auto.
Qed.

Lemma format_offset_zero mode : format_offset mode (0, 0) = "Z"%string.
Proof. destruct mode; reflexivity. Qed.

Lemma format_reduced_falls_back h m : m <> 0 ->
  format_offset TzReduced (h, m) = format_offset TzNormal (h, m).
Proof.
  intros Hm. unfold format_offset.
  destruct (h =? 0) eqn:?, (m =? 0) eqn:?; cbn [andb]; try lia; reflexivity.
Qed.
