(* Proofs/GenCode4Stmt.v -- the statements proved about gen/GenCode4.v, as Props, so
   that the parts (Proofs/GenCode4Dom.v, GenCode4Tick.v, GenCode4Conv.v,
   GenCode4Add.v, GenCode4Zone.v) can be developed against each other and are
   assembled in Proofs/GenCode4Ok.v.  Definitions only, no proofs. *)
From Coq Require Import QArith Qround String.
From Iso Require Import Proofs.Tac Spec.Cal Model.Num Model.Helpers Model.Duration Model.TimePoint
  gen.GenCode4 Proofs.GenCode4Base.
From Iso Require gen.GenCode3 Proofs.GenCode3Ok.
Open Scope Z_scope.

(* the month of a calendar date is in range (true of everything __init__ accepts
   and kept by every arithmetic step); nothing is asked of the day *)
Definition month_ok (p : tp) : Prop :=
  match tdate p with Cal _ m _ => 1 <= m <= 12 | _ => True end.

Definition set_cal (o : pyTimePoint) (y m d : Z) : pyTimePoint :=
  set_day_of_month (set_month_of_year (set_year o (Some y)) (Some m)) (Some d).

(* ---------- fuel: the largest of the model's own loop bounds ---------- *)
Definition tick_bound (md : mode) (p : tp) : Z :=
  let '(_, nd) := tick_time (ttod p) in
  match add_days_raw (tdate p) nd with
  | Cal y m d => Z.abs d / 28 + 2
  | Ord y doy =>
    let c1 := loop (fun c => snd c <? 1) (fun c => (fst c - 1, snd c + get_days_in_year md (fst c - 1)))
                   (Z.abs doy / 360 + 2) (y, doy) in
    Z.max (Z.abs doy / 360 + 2) (Z.abs (snd c1) / 360 + 2)
  | Wk y w dd =>
    let w1 := w + (dd - 1) / 7 in
    let c1 := loop (fun c => snd c <? 1) (fun c => (fst c - 1, snd c + get_weeks_in_year md (fst c - 1)))
                   (Z.abs w1 / 51 + 2) (y, w1) in
    Z.max (Z.abs w1 / 51 + 2) (Z.abs (snd c1) / 51 + 2)
  end.

Definition add_months_bound (md : mode) (p : tp) (n : Z) : Z :=
  if n =? 0 then 0
  else match get_calendar_date md (tdate p) with
       | None => 0
       | Some c =>
         let '(y, m, d) := Pos.iter (month_step md n) c (Z.to_pos (Z.abs n)) in
         tick_bound md (with_date p (Cal y m d))
       end.

(* mirrors tp_add: the maximum over the tick_over / add_months calls it makes *)
Definition tp_add_bound (md : mode) (p : tp) (x : dur) : Z :=
  match to_days x with
  | DW _ => 0
  | DU ys mos ds h mi s =>
    let t1 := with_tod p (add_seconds (ttod p) s) in
    let b1 := if qeqb s 0 then 0 else tick_bound md t1 in
    let p1 := if qeqb s 0 then p else tick_over md t1 in
    let t2 := with_tod p1 (add_minutes (ttod p1) mi) in
    let b2 := if qeqb mi 0 then 0 else tick_bound md t2 in
    let p2 := if qeqb mi 0 then p1 else tick_over md t2 in
    let t3 := with_tod p2 (add_hours (ttod p2) h) in
    let b3 := if qeqb h 0 then 0 else tick_bound md t3 in
    let p3 := if qeqb h 0 then p2 else tick_over md t3 in
    let t4 := with_date p3 (add_days_raw (tdate p3) ds) in
    let b4 := if ds =? 0 then 0 else tick_bound md t4 in
    let p4 := if ds =? 0 then p3 else tick_over md t4 in
    let b5 := if mos =? 0 then 0 else add_months_bound md p4 mos in
    Z.max b1 (Z.max b2 (Z.max b3 (Z.max b4 b5)))
  end.

(* ---------- _tick_over_day_of_month, _tick_over ---------- *)
Definition DomOk : Prop := forall md o y m d fuel,
  s_year o = Some y -> s_month_of_year o = Some m -> s_day_of_month o = Some d ->
  1 <= m <= 12 -> (Z.to_nat (Z.abs d / 28 + 2) <= fuel)%nat ->
  py_TimePoint__tick_over_day_of_month fuel (cal_of md) o =
  Ok (let '(y', m', d') := tick_dom md (y, m, d) in set_cal o y' m' d').

Definition TickOk : Prop := forall md fl p p' fuel,
  tp_equiv p' p -> month_ok p -> (Z.to_nat (tick_bound md p) <= fuel)%nat ->
  returns_tp fl (py_TimePoint__tick_over fuel (cal_of md) (rep fl p')) (tick_over md p).

(* ---------- _copy and the conversions (exact: no rational arithmetic) ---------- *)
Definition CopyOk : Prop := forall fuel cal o, py_TimePoint__copy fuel cal o = Ok o.

Definition opt3 (r : Z * Z * Z) : option (option Z * option Z * option Z) :=
  let '(a, b, c) := r in Some (Some a, Some b, Some c).
Definition opt2 (r : Z * Z) : option (option Z * option Z) :=
  let '(a, b) := r in Some (Some a, Some b).

(* model None <-> the code raises ValueError (the "Bad ... date" errors of the helpers) *)
Definition GetCalOk : Prop := forall md fl p fuel,
  py_TimePoint_get_calendar_date fuel (cal_of md) (rep fl p) =
  match get_calendar_date md (tdate p) with Some r => Ok (opt3 r) | None => Raise ValueError end.
Definition GetOrdOk : Prop := forall md fl p fuel,
  py_TimePoint_get_ordinal_date fuel (cal_of md) (rep fl p) =
  match get_ordinal_date md (tdate p) with Some r => Ok (opt2 r) | None => Raise ValueError end.
Definition GetWeekOk : Prop := forall md fl p fuel,
  py_TimePoint_get_week_date fuel (cal_of md) (rep fl p) =
  match get_week_date md (tdate p) with Some r => Ok (opt3 r) | None => Raise ValueError end.

Definition ToCalOk : Prop := forall md fl p fuel,
  py_TimePoint_to_calendar_date fuel (cal_of md) (rep fl p) =
  match to_calendar_date md (tdate p) with Some d => Ok (rep fl (with_date p d)) | None => Raise ValueError end.
Definition ToOrdOk : Prop := forall md fl p fuel,
  py_TimePoint_to_ordinal_date fuel (cal_of md) (rep fl p) =
  match to_ordinal_date md (tdate p) with Some d => Ok (rep fl (with_date p d)) | None => Raise ValueError end.
Definition ToWeekOk : Prop := forall md fl p fuel,
  py_TimePoint_to_week_date fuel (cal_of md) (rep fl p) =
  match to_week_date md (tdate p) with Some d => Ok (rep fl (with_date p d)) | None => Raise ValueError end.

(* ---------- add_months, __add__ / __sub__ with a Duration ---------- *)
Definition AddMonthsOk : Prop := forall md fl p p' n fuel q,
  tp_equiv p' p -> month_ok p -> add_months md p n = Some q ->
  (Z.to_nat (add_months_bound md p n) <= fuel)%nat ->
  returns_tp fl (py_TimePoint_add_months fuel (cal_of md) (rep fl p') n) q.

(* a Duration object that denotes the model duration x (up to the representation of rationals) *)
Definition dur_denotes (od : GenCode3.pyDuration) (x : dur) : Prop :=
  exists x', od = GenCode3Ok.rep x' /\ GenCode3Ok.dur_equiv x' x.

Definition AddOk : Prop := forall md fl p p' od x fuel q,
  tp_equiv p' p -> dur_denotes od x -> month_ok p -> tp_add md p x = Some q ->
  (Z.to_nat (tp_add_bound md p x) <= fuel)%nat ->
  returns_tp fl (py_TimePoint___add____Duration fuel (cal_of md) (rep fl p') od) q.

Definition SubDurOk : Prop := forall md fl p p' od x fuel q,
  tp_equiv p' p -> dur_denotes od x -> month_ok p -> tp_sub_dur md p x = Some q ->
  (Z.to_nat (tp_add_bound md p (dur_mul x (-1))) <= fuel)%nat ->
  returns_tp fl (py_TimePoint___sub____Duration fuel (cal_of md) (rep fl p') od) q.

(* ---------- zones ---------- *)
Definition ToZoneOk : Prop := forall md fl p p' z fuel q,
  tp_equiv p' p -> month_ok p -> to_time_zone md p z = Some q ->
  (Z.to_nat (tp_add_bound md p (zone_diff z (tzone p))) <= fuel)%nat ->
  returns_tp fl (py_TimePoint_to_time_zone fuel (cal_of md) (rep fl p') (rep_zone z)) q.

Definition ToUtcOk : Prop := forall md fl p p' fuel q,
  tp_equiv p' p -> month_ok p -> to_utc md p = Some q ->
  (Z.to_nat (tp_add_bound md p (zone_diff zone_utc (tzone p))) <= fuel)%nat ->
  returns_tp fl (py_TimePoint_to_utc fuel (cal_of md) (rep fl p')) q.

Definition NormalisedOk : Prop := forall md fl p p' fuel,
  tp_equiv p' p -> month_ok p ->
  (Z.to_nat (if qeqb (tod_hour (ttod p)) 24 then tick_bound md p else 0) <= fuel)%nat ->
  returns_tp fl (py_TimePoint__normalised fuel (cal_of md) (rep fl p')) (normalised md p).
