(* Proofs/MonthSpec.v -- month and year arithmetic: the clamping loop of
   add_months is the iterated single-month shift of Spec/Months.v, add_years
   clamps to the end of the period reached, and a mixed duration is applied
   exact part first, then months, then years. *)
From Coq Require Import QArith Qround Qabs Lqa.
From Iso Require Import Proofs.Tac Spec.Cal Spec.Instant Spec.Months Model.Num Model.Helpers Model.Duration
  Model.TimePoint Proofs.HelpersSpec Proofs.ConvSpec Proofs.TickSpec Proofs.AddSpec.
Open Scope Z_scope.

(* ---------- the clamp ---------- *)
Lemma min_if (mx d : Z) : (if mx <? d then mx else d) = Z.min d mx.
Proof. destruct (mx <? d) eqn:E; lia. Qed.

Lemma clamp_dom_spec md y m d : 1 <= m <= 12 -> clamp_dom md y m d = Z.min d (mlen md y m).
Proof.
  intros Hm. unfold clamp_dom. cbv zeta.
  replace ((m - 1) mod 12) with (m - 1) by lia.
  change (znth (year_months md y) (m - 1)) with (get_days_in_month md m y).
  rewrite get_days_in_month_spec by exact Hm. apply min_if.
Qed.

(* ---------- one step: model = spec ---------- *)
Lemma month_step_spec md n y m d : 1 <= m <= 12 ->
  month_step md n (y, m, d) = month_shift1 md n (y, m, d).
Proof.
  intros Hm. unfold month_step, month_shift1.
  destruct (0 <? n).
  - destruct (12 <? m + 1) eqn:E1; destruct (m =? 12) eqn:E2; try lia.
    + assert (m = 12) by lia; subst m. change (12 + 1 - 12) with 1.
      rewrite clamp_dom_spec by lia. reflexivity.
    + rewrite clamp_dom_spec by lia. reflexivity.
  - destruct (m - 1 <? 1) eqn:E1; destruct (m =? 1) eqn:E2; try lia.
    + assert (m = 1) by lia; subst m. change (1 - 1 + 12) with 12.
      rewrite clamp_dom_spec by lia. reflexivity.
    + rewrite clamp_dom_spec by lia. reflexivity.
Qed.

(* what p single steps in the direction of n reach *)
Lemma shift_iter md n p : forall y m d, 1 <= m <= 12 ->
  let '(y', m', d') := Pos.iter (month_shift1 md n) (y, m, d) p in
  12 * y' + m' = 12 * y + m + (if 0 <? n then Z.pos p else - Z.pos p) /\
  1 <= m' <= 12 /\ d' <= d /\ d' <= mlen md y' m' /\ (1 <= d -> 1 <= d') /\
  (p = 1%positive -> d' = Z.min d (mlen md y' m')).
Proof.
  induction p using Pos.peano_ind; intros y m d Hm.
  - cbn [Pos.iter]. unfold month_shift1.
    destruct (0 <? n).
    + destruct (m =? 12) eqn:E.
      * pose proof (mlen_bounds md (y + 1) 1 ltac:(lia)). repeat split; lia.
      * pose proof (mlen_bounds md y (m + 1) ltac:(lia)). repeat split; lia.
    + destruct (m =? 1) eqn:E.
      * pose proof (mlen_bounds md (y - 1) 12 ltac:(lia)). repeat split; lia.
      * pose proof (mlen_bounds md y (m - 1) ltac:(lia)). repeat split; lia.
  - rewrite Pos.iter_succ. specialize (IHp y m d Hm).
    destruct (Pos.iter (month_shift1 md n) (y, m, d) p) as [[a b] c].
    destruct IHp as (I1 & I2 & I3 & I4 & I5 & _).
    unfold month_shift1. rewrite Pos2Z.inj_succ.
    destruct (0 <? n).
    + destruct (b =? 12) eqn:E.
      * pose proof (mlen_bounds md (a + 1) 1 ltac:(lia)). repeat split; lia.
      * pose proof (mlen_bounds md a (b + 1) ltac:(lia)). repeat split; lia.
    + destruct (b =? 1) eqn:E.
      * pose proof (mlen_bounds md (a - 1) 12 ltac:(lia)). repeat split; lia.
      * pose proof (mlen_bounds md a (b - 1) ltac:(lia)). repeat split; lia.
Qed.

Lemma month_shift_reached : forall md n y m d y' m' d', n <> 0 -> 1 <= m <= 12 ->
  month_shift md n (y, m, d) = (y', m', d') ->
  12 * y' + m' = 12 * y + m + n /\ 1 <= m' <= 12 /\ d' <= d /\
  (1 <= d <= mlen md y m -> 1 <= d' <= mlen md y' m') /\
  (d <= mlen md y' m' -> Z.abs n = 1 -> d' = d).
Proof.
  intros md n y m d y' m' d' Hn Hm E. unfold month_shift in E.
  pose proof (shift_iter md n (Z.to_pos (Z.abs n)) y m d Hm) as S. rewrite E in S.
  destruct S as (S1 & S2 & S3 & S4 & S5 & S6).
  rewrite Z2Pos.id in S1 by lia.
  split; [destruct (0 <? n) eqn:En; lia|]. split; [exact S2|]. split; [exact S3|].
  split; [lia|]. intros Hd Ha. rewrite S6; [lia|]. rewrite Ha. reflexivity.
Qed.

(* the model's loop is the spec's loop *)
Lemma month_loop_spec md n p : forall y m d, 1 <= m <= 12 ->
  Pos.iter (month_step md n) (y, m, d) p = Pos.iter (month_shift1 md n) (y, m, d) p.
Proof.
  induction p using Pos.peano_ind; intros y m d Hm.
  - cbn [Pos.iter]. apply month_step_spec; exact Hm.
  - rewrite !Pos.iter_succ, IHp by exact Hm.
    pose proof (shift_iter md n p y m d Hm) as S.
    destruct (Pos.iter (month_shift1 md n) (y, m, d) p) as [[a b] c].
    apply month_step_spec. lia.
Qed.

(* ---------- splitting a shift ---------- *)
Lemma shift1_sign md a b : (0 <? a) = (0 <? b) -> month_shift1 md a = month_shift1 md b.
Proof. intros H. unfold month_shift1. rewrite H. reflexivity. Qed.

Lemma month_shift_split : forall md n k c, 0 < n * k ->
  month_shift md (n + k) c = month_shift md k (month_shift md n c).
Proof.
  intros md n k c H. unfold month_shift.
  assert (S : (0 < n /\ 0 < k) \/ (n < 0 /\ k < 0)) by (apply Z.lt_0_mul in H; tauto).
  rewrite (shift1_sign md (n + k) n) by lia. rewrite (shift1_sign md k n) by lia.
  replace (Z.to_pos (Z.abs (n + k))) with (Z.to_pos (Z.abs k) + Z.to_pos (Z.abs n))%positive.
  - apply Pos.iter_add.
  - rewrite <- Z2Pos.inj_add by lia. f_equal. lia.
Qed.

(* ---------- a point strictly inside its day is its own carry ---------- *)
Open Scope Q_scope.

Definition tod_red (t : tod) : tod :=
  match t with
  | HMS h m s => HMS (Qred h) (Qred m) (Qred s)
  | HM h m => HM (Qred h) (Qred m)
  | HH h => HH (Qred h)
  end.

(* same shape, componentwise equal as rationals *)
Definition tod_eqv (a b : tod) : Prop :=
  match a, b with
  | HMS h m s, HMS h' m' s' => h == h' /\ m == m' /\ s == s'
  | HM h m, HM h' m' => h == h' /\ m == m'
  | HH h, HH h' => h == h'
  | _, _ => False
  end.

Lemma tod_red_eqv t : tod_eqv (tod_red t) t.
Proof. destruct t; cbn [tod_red tod_eqv]; repeat split; apply Qred_correct. Qed.

Definition tod_reduced (t : tod) : Prop := tod_red t = t.

Lemma qred_eq a b : a == b -> Qred a = Qred b.
Proof. apply Qred_complete. Qed.

Lemma qtrunc_int x : isint x -> inject_Z (qtrunc x) == x.
Proof.
  intros [z H]. unfold qtrunc. destruct (Qle_bool 0 x).
  - rewrite (Qfloor_comp _ _ H), Qfloor_Z. symmetry; exact H.
  - rewrite (Qceiling_comp _ _ H), Qceiling_Z. symmetry; exact H.
Qed.

Lemma qfrac_int x : isint x -> qsub x (qz (qtrunc x)) = 0.
Proof.
  intros H. unfold qsub, qz. change 0 with (Qred 0). apply qred_eq.
  rewrite (qtrunc_int x H). ring.
Qed.

Lemma qdivmod_small x k : (0 < k)%Z -> 0 <= x -> x < inject_Z k -> qdivmod x k = (0%Z, Qred x).
Proof.
  intros Hk H0 H1.
  destruct (qdivmod_spec x k Hk _ _ eq_refl) as (A & B & C).
  pose proof (inject_Z_pos k Hk) as Hk'.
  unfold qdivmod. cbv zeta.
  set (q := Qfloor (x / qz k)) in *. set (r := Qred (x - qz q * qz k)) in *.
  assert (Hq : q = 0%Z).
  { clearbody r.
    assert (L : inject_Z (-1) < inject_Z q) by (change (inject_Z (-1)) with (-1); nra).
    assert (U : inject_Z q < inject_Z 1) by (change (inject_Z 1) with 1; nra).
    rewrite <- Zlt_Qlt in L, U. lia. }
  unfold r. rewrite Hq. f_equal. apply qred_eq. unfold qz. ring.
Qed.

Lemma qleb_inv a b : qleb a b = true -> a <= b.
Proof. unfold qleb. apply Qle_bool_iff. Qed.
Lemma qltb_inv a b : qltb a b = true -> a < b.
Proof.
  unfold qltb. intros H. apply negb_true_iff in H. apply Qnot_le_lt. intros L.
  apply Qle_bool_iff in L. congruence.
Qed.
Lemma qin_inv lo x hi : qin lo x hi = true -> inject_Z lo <= x /\ x < inject_Z hi.
Proof.
  unfold qin. intros H. apply andb_prop in H. destruct H as [A B].
  split; [apply qleb_inv in A | apply qltb_inv in B]; assumption.
Qed.
Lemma qeqb_inv a b : qeqb a b = true -> a == b.
Proof. unfold qeqb. apply Qeq_bool_iff. Qed.

Lemma normal_hms_inv h m s : normal_tod (HMS h m s) = true ->
  isint h /\ isint m /\ 0 <= h /\ h < 24 /\ 0 <= m /\ m < 60 /\ 0 <= s /\ s < 60.
Proof.
  unfold normal_tod, valid_tod, tod_hour. intros H.
  apply andb_prop in H. destruct H as [H L]. apply qltb_inv in L.
  apply andb_prop in H. destruct H as [H D]. apply andb_prop in H. destruct H as [Ih Im].
  apply qis_int_iff in Ih, Im. split; [exact Ih|]. split; [exact Im|].
  apply orb_prop in D. destruct D as [D | D].
  - apply andb_prop in D. destruct D as [D D3]. apply andb_prop in D. destruct D as [D1 D2].
    apply qin_inv in D1, D2, D3. qlit. tauto.
  - apply andb_prop in D. destruct D as [D _]. apply andb_prop in D. destruct D as [D _].
    apply qeqb_inv in D. lra.
Qed.
Lemma normal_hm_inv h m : normal_tod (HM h m) = true ->
  isint h /\ 0 <= h /\ h < 24 /\ 0 <= m /\ m < 60.
Proof.
  unfold normal_tod, valid_tod, tod_hour. intros H.
  apply andb_prop in H. destruct H as [H L]. apply qltb_inv in L.
  apply andb_prop in H. destruct H as [Ih D].
  apply qis_int_iff in Ih. split; [exact Ih|].
  apply orb_prop in D. destruct D as [D | D].
  - apply andb_prop in D. destruct D as [D1 D2].
    apply qin_inv in D1, D2. qlit. tauto.
  - apply andb_prop in D. destruct D as [D _]. apply qeqb_inv in D. lra.
Qed.
Lemma normal_hh_inv h : normal_tod (HH h) = true -> 0 <= h /\ h < 24.
Proof.
  unfold normal_tod, valid_tod, tod_hour. intros H.
  apply andb_prop in H. destruct H as [H L]. apply qltb_inv in L.
  apply andb_prop in H. destruct H as [A _]. apply qleb_inv in A. tauto.
Qed.

Lemma isint_red x : isint x -> isint (Qred x).
Proof. apply isint_eq. symmetry. apply Qred_correct. Qed.

Lemma tick_time_normal t : normal_tod t = true -> tick_time t = (tod_red t, 0%Z).
Proof.
  destruct t as [h m s | h m | h]; intros N; unfold tick_time; cbv zeta; cbn [tod_red].
  - destruct (normal_hms_inv h m s N) as (Ih & Im & H1 & H2 & H3 & H4 & H5 & H6).
    rewrite (qfrac_int h Ih).
    assert (E1 : qsub h 0 = Qred h) by (apply qred_eq; ring). rewrite E1.
    assert (E2 : qadd m (qmul 0 (qz 60)) = Qred m).
    { apply qred_eq. rewrite qmul_eq. qlit. ring. }
    rewrite E2. rewrite (qfrac_int (Qred m) (isint_red m Im)).
    assert (E3 : qsub (Qred m) 0 = Qred m) by (apply qred_eq; rewrite Qred_correct; ring). rewrite E3.
    assert (E4 : qadd s (qmul 0 (qz 60)) = Qred s).
    { apply qred_eq. rewrite qmul_eq. qlit. ring. }
    rewrite E4.
    rewrite (qdivmod_small (Qred s) 60) by (try lia; rewrite Qred_correct; assumption).
    assert (E5 : qadd (Qred m) (qz 0) = Qred m) by (apply qred_eq; rewrite Qred_correct; qlit; ring).
    rewrite E5.
    rewrite (qdivmod_small (Qred m) 60) by (try lia; rewrite Qred_correct; assumption).
    assert (E6 : qadd (Qred h) (qz 0) = Qred h) by (apply qred_eq; rewrite Qred_correct; qlit; ring).
    rewrite E6.
    rewrite (qdivmod_small (Qred h) 24) by (try lia; rewrite Qred_correct; assumption).
    rewrite !(qred_eq (Qred _) _ (Qred_correct _)). reflexivity.
  - destruct (normal_hm_inv h m N) as (Ih & H1 & H2 & H3 & H4).
    rewrite (qfrac_int h Ih).
    assert (E1 : qsub h 0 = Qred h) by (apply qred_eq; ring). rewrite E1.
    assert (E2 : qadd m (qmul 0 (qz 60)) = Qred m).
    { apply qred_eq. rewrite qmul_eq. qlit. ring. }
    rewrite E2.
    rewrite (qdivmod_small (Qred m) 60) by (try lia; rewrite Qred_correct; assumption).
    assert (E6 : qadd (Qred h) (qz 0) = Qred h) by (apply qred_eq; rewrite Qred_correct; qlit; ring).
    rewrite E6.
    rewrite (qdivmod_small (Qred h) 24) by (try lia; rewrite Qred_correct; assumption).
    rewrite !(qred_eq (Qred _) _ (Qred_correct _)). reflexivity.
  - destruct (normal_hh_inv h N) as (H1 & H2).
    rewrite (qdivmod_small h 24) by (try lia; assumption). reflexivity.
Qed.

Open Scope Z_scope.

Lemma tick_date_valid_cal md y m d : valid_cal md y m d = true -> tick_date md (Cal y m d) = Cal y m d.
Proof.
  intros V. unfold valid_cal in V. assert (Hm : 1 <= m <= 12) by lia.
  cbn [tick_date]. unfold tick_dom.
  destruct (d <? 1) eqn:E; [lia|].
  rewrite loop_done.
  - rewrite tick_month_id by exact Hm. reflexivity.
  - unfold dom_fwd_cond. rewrite get_days_in_month_spec by exact Hm. lia.
Qed.

Lemma tick_over_normal_cal md y m d t z :
  valid_cal md y m d = true -> normal_tod t = true ->
  tick_over md (mkTp (Cal y m d) t z) = mkTp (Cal y m d) (tod_red t) z.
Proof.
  intros V N. unfold tick_over. cbn [tdate ttod tzone].
  rewrite (tick_time_normal t N). cbn [add_days_raw]. rewrite Z.add_0_r.
  rewrite (tick_date_valid_cal md y m d V). reflexivity.
Qed.

(* ---------- back to the representation the point started in ---------- *)
Definition back (md : mode) (orig : date) (p1 : tp) : option tp :=
  match orig with
  | Cal _ _ _ => Some p1
  | Ord _ _ => match to_ordinal_date md (tdate p1) with
               | Some d' => Some (with_date p1 d') | None => None end
  | Wk _ _ _ => match to_week_date md (tdate p1) with
                | Some d' => Some (with_date p1 d') | None => None end
  end.

Lemma back_spec md orig y m d t z : valid_cal md y m d = true ->
  exists dt, back md orig (mkTp (Cal y m d) t z) = Some (mkTp dt t z) /\
             valid_date md dt = true /\ date_dn md dt = dn_cal md y m d /\
             rep_kind dt = rep_kind orig /\ get_calendar_date md dt = Some (y, m, d).
Proof.
  intros V. destruct (conversions_mutually_inverse md) as (CI & _ & _).
  destruct (CI y m d V) as ((doy & O1 & O2) & (wy & w & wd & W1 & W2)).
  destruct orig as [a b c | a b | a b c]; cbn [back tdate].
  - exists (Cal y m d). repeat split; assumption.
  - unfold to_ordinal_date. cbn [get_ordinal_date]. rewrite O1.
    exists (Ord y doy). unfold with_date; cbn [tdate ttod tzone].
    destruct (proj1 (ord_from_cal_spec md y m d) V) as (doy' & E & Vo & Do).
    rewrite O1 in E. injection E as <-.
    repeat split; assumption.
  - unfold to_week_date. cbn [get_week_date]. rewrite W1.
    exists (Wk wy w wd). unfold with_date; cbn [tdate ttod tzone].
    destruct (week_from_cal_spec md y m d V) as (wy' & w' & wd' & E & Vw & Dw).
    rewrite W1 in E. injection E as <- <- <-.
    repeat split; assumption.
Qed.

(* the calendar form of a valid date *)
Lemma get_calendar_date_spec md dt : valid_date md dt = true ->
  exists y m d, get_calendar_date md dt = Some (y, m, d) /\ valid_cal md y m d = true /\
                dn_cal md y m d = date_dn md dt.
Proof.
  destruct dt as [y m d | y doy | y w d]; cbn [valid_date get_calendar_date date_dn]; intros V.
  - exists y, m, d. auto.
  - destruct (proj1 (cal_from_ord_spec md y doy) V) as (m & d & E & Vc & Dc). exists y, m, d. auto.
  - apply cal_from_week_spec; exact V.
Qed.

Lemma add_months_unfold md p n y m d : n <> 0 ->
  get_calendar_date md (tdate p) = Some (y, m, d) -> 1 <= m <= 12 ->
  add_months md p n =
    let '(y', m', d') := month_shift md n (y, m, d) in
    back md (tdate p) (tick_over md (with_date p (Cal y' m' d'))).
Proof.
  intros Hn E Hm. unfold add_months. destruct (n =? 0) eqn:En; [lia|].
  rewrite E. rewrite month_loop_spec by exact Hm. fold (month_shift md n (y, m, d)).
  destruct (month_shift md n (y, m, d)) as [[y' m'] d']. reflexivity.
Qed.

Lemma normal_tp_parts md p : normal_tp md p = true ->
  valid_date md (tdate p) = true /\ normal_tod (ttod p) = true /\ valid_zone (tzone p) = true.
Proof. unfold normal_tp. intros H. apply andb_prop in H. destruct H as [H H3]. apply andb_prop in H. tauto. Qed.

Lemma shift_valid md n y m d y' m' d' : n <> 0 -> valid_cal md y m d = true ->
  month_shift md n (y, m, d) = (y', m', d') -> valid_cal md y' m' d' = true.
Proof.
  intros Hn V E. unfold valid_cal in V.
  destruct (month_shift_reached md n y m d y' m' d' Hn ltac:(lia) E) as (_ & A & _ & B & _).
  unfold valid_cal. lia.
Qed.

(* add_months on a calendar-date point strictly inside its day: the iterated
   clamping shift; offset and representation untouched, time of day equal up
   to reduction of its fractions *)
Lemma add_months_calendar_tod_red : forall md y m d t z n,
  n <> 0 -> normal_tp md (mkTp (Cal y m d) t z) = true ->
  add_months md (mkTp (Cal y m d) t z) n =
    Some (let '(y', m', d') := month_shift md n (y, m, d) in mkTp (Cal y' m' d') (tod_red t) z).
Proof.
  intros md y m d t z n Hn N.
  destruct (normal_tp_parts _ _ N) as (V & Nt & _). cbn [tdate ttod tzone valid_date] in V, Nt.
  assert (Hm : 1 <= m <= 12) by (unfold valid_cal in V; lia).
  rewrite (add_months_unfold md (mkTp (Cal y m d) t z) n y m d Hn eq_refl Hm).
  destruct (month_shift md n (y, m, d)) as [[y' m'] d'] eqn:E.
  cbn [tdate back]. unfold with_date; cbn [ttod tzone].
  rewrite tick_over_normal_cal; [reflexivity | | exact Nt].
  eapply shift_valid; eassumption.
Qed.

Lemma add_months_calendar_red : forall md y m d t z n,
  n <> 0 -> normal_tp md (mkTp (Cal y m d) t z) = true ->
  exists t', add_months md (mkTp (Cal y m d) t z) n =
    Some (let '(y', m', d') := month_shift md n (y, m, d) in mkTp (Cal y' m' d') t' z) /\
    tod_eqv t' t.
Proof.
  intros md y m d t z n Hn N. exists (tod_red t).
  split; [apply add_months_calendar_tod_red; assumption | apply tod_red_eqv].
Qed.

(* the statement as first written holds when the fractions of the time of day
   are in lowest terms (as the reader and every arithmetic result leave them) *)
Lemma add_months_calendar_reduced : forall md y m d t z n,
  n <> 0 -> normal_tp md (mkTp (Cal y m d) t z) = true -> tod_reduced t ->
  add_months md (mkTp (Cal y m d) t z) n =
    Some (let '(y', m', d') := month_shift md n (y, m, d) in mkTp (Cal y' m' d') t z).
Proof.
  intros md y m d t z n Hn N R. rewrite add_months_calendar_tod_red by assumption.
  unfold tod_reduced in R. rewrite R. reflexivity.
Qed.

(* why the time of day is only preserved up to reduction: the carry re-derives
   every field through Qred, so 2/4 comes back as 1/2 *)
Example add_months_unreduced_tod :
  normal_tp G (mkTp (Cal 2001 1 31) (HMS 12 0 (2 # 4)) (mkZone 0 0)) = true /\
  add_months G (mkTp (Cal 2001 1 31) (HMS 12 0 (2 # 4)) (mkZone 0 0)) 1 =
    Some (mkTp (Cal 2001 2 28) (HMS 12 0 (1 # 2)) (mkZone 0 0)).
Proof. vm_compute. split; reflexivity. Qed.

Lemma add_months_any : forall md p n, n <> 0 -> valid_tp md p = true ->
  exists y m d r, get_calendar_date md (tdate p) = Some (y, m, d) /\
    add_months md p n = Some r /\
    rep_kind (tdate r) = rep_kind (tdate p) /\ tod_kind (ttod r) = tod_kind (ttod p) /\
    tzone r = tzone p /\ normal_tp md r = true /\
    (let '(y', m', d') := month_shift md n (y, m, d) in
     (instant md r == instant md (mkTp (Cal y' m' d') (ttod p) (tzone p)))%Q /\
     (normal_tod (ttod p) = true ->
        tod_eqv (ttod r) (ttod p) /\ get_calendar_date md (tdate r) = Some (y', m', d'))).
Proof.
  intros md p n Hn V.
  destruct (valid_tp_parts md p V) as (Vd & Vt & Vz).
  destruct (get_calendar_date_spec md _ Vd) as (y & m & d & E & Vc & Dc).
  assert (Hm : 1 <= m <= 12) by (unfold valid_cal in Vc; lia).
  exists y, m, d. rewrite (add_months_unfold md p n y m d Hn E Hm).
  destruct (month_shift md n (y, m, d)) as [[y' m'] d'] eqn:Es.
  pose proof (shift_valid md n _ _ _ _ _ _ Hn Vc Es) as Vc'.
  assert (Hm' : 1 <= m' <= 12) by (unfold valid_cal in Vc'; lia).
  set (q := with_date p (Cal y' m' d')).
  destruct (tick_over_spec md q Hm') as (T1 & T2 & T3 & T4 & T5 & T6).
  destruct (tick_over md q) as [dt1 t1 z1] eqn:Et. cbn [tdate ttod tzone] in T2, T3, T4, T5, T6.
  destruct dt1 as [y1 m1 d1 | ? ? | ? ? ?]; try discriminate T4. cbn [valid_date] in T2.
  destruct (back_spec md (tdate p) y1 m1 d1 t1 z1 T2) as (dt & B1 & B2 & B3 & B4 & B5).
  exists (mkTp dt t1 z1). cbn [tdate ttod tzone].
  split; [exact E|]. split; [exact B1|]. split; [exact B4|]. split; [exact T5|].
  split; [exact T6|]. split.
  { unfold normal_tp; cbn [tdate ttod tzone]. rewrite B2, T3. subst z1. unfold q; cbn [with_date tzone].
    rewrite Vz. reflexivity. }
  split.
  - apply (Qeq_trans _ (instant md (mkTp (Cal y1 m1 d1) t1 z1))); [|exact T1].
    unfold instant; cbn [tdate ttod tzone date_dn]. rewrite B3. reflexivity.
  - intros Nt. unfold q, with_date in Et. rewrite tick_over_normal_cal in Et by assumption.
    injection Et as <- <- <- <- <-. split; [apply tod_red_eqv | exact B5].
Qed.

Lemma add_months_zero : forall md p, add_months md p 0 = Some p.
Proof. reflexivity. Qed.

(* ---------- years ---------- *)
Lemma add_years_spec : forall md n,
  (forall y m d, 1 <= m <= 12 ->
     add_years md (Cal y m d) n = Cal (y + n) m (Z.min d (mlen md (y + n) m))) /\
  (forall y doy, add_years md (Ord y doy) n = Ord (y + n) (Z.min doy (ylen md (y + n)))) /\
  (forall y w d, add_years md (Wk y w d) n = Wk (y + n) (Z.min w (weeks_in md (y + n))) d) /\
  (forall dt, valid_date md dt = true -> valid_date md (add_years md dt n) = true /\
              rep_kind (add_years md dt n) = rep_kind dt).
Proof.
  intros md n.
  assert (A1 : forall y m d, 1 <= m <= 12 ->
     add_years md (Cal y m d) n = Cal (y + n) m (Z.min d (mlen md (y + n) m))).
  { intros y m d Hm. cbn [add_years]. rewrite clamp_dom_spec by exact Hm. reflexivity. }
  assert (A2 : forall y doy, add_years md (Ord y doy) n = Ord (y + n) (Z.min doy (ylen md (y + n)))).
  { intros y doy. cbn [add_years]. cbv zeta. rewrite get_days_in_year_spec, min_if. reflexivity. }
  assert (A3 : forall y w d, add_years md (Wk y w d) n = Wk (y + n) (Z.min w (weeks_in md (y + n))) d).
  { intros y w d. cbn [add_years]. cbv zeta. rewrite gwiy, min_if. reflexivity. }
  split; [exact A1|]. split; [exact A2|]. split; [exact A3|].
  intros [y m d | y doy | y w d] V; cbn [valid_date] in V.
  - assert (Hm : 1 <= m <= 12) by (unfold valid_cal in V; lia).
    rewrite (A1 y m d Hm). cbn [valid_date rep_kind]. split; [|reflexivity].
    pose proof (mlen_bounds md (y + n) m Hm). unfold valid_cal in *. lia.
  - rewrite A2. cbn [valid_date rep_kind]. split; [|reflexivity].
    pose proof (ylen_bounds md (y + n)). unfold valid_ord in *. lia.
  - rewrite A3. cbn [valid_date rep_kind]. split; [|reflexivity].
    pose proof (weeks_in_bounds md (y + n)). unfold valid_week in *. lia.
Qed.

(* ---------- order of application ---------- *)
Lemma tp_add_order : forall md p ys mos ds h mi s,
  tp_add md p (DU ys mos ds h mi s) =
  match tp_add md p (DU 0 0 ds h mi s) with
  | None => None
  | Some p4 =>
    match (if mos =? 0 then Some p4 else add_months md p4 mos) with
    | None => None
    | Some p5 => Some (if ys =? 0 then p5 else with_date p5 (add_years md (tdate p5) ys))
    end
  end.
Proof. intros. rewrite tp_add_add4. reflexivity. Qed.

(* ---------- validity of every sum ---------- *)
Lemma tp_add_valid : forall md p d, valid_tp md p = true ->
  exists r, tp_add md p d = Some r /\ valid_tp md r = true /\
            rep_kind (tdate r) = rep_kind (tdate p) /\ tod_kind (ttod r) = tod_kind (ttod p) /\
            tzone r = tzone p.
Proof.
  intros md p d V.
  assert (G : forall ys mos ds h mi s,
    exists r, tp_add md p (DU ys mos ds h mi s) = Some r /\ valid_tp md r = true /\
            rep_kind (tdate r) = rep_kind (tdate p) /\ tod_kind (ttod r) = tod_kind (ttod p) /\
            tzone r = tzone p).
  { intros ys mos ds h mi s. rewrite tp_add_order, tp_add_add4.
    destruct (add4_spec md p ds h mi s V) as [(V4 & _ & K4 & T4 & Z4) _].
    set (p4 := add4 md p ds h mi s) in *.
    assert (M : exists p5, (if mos =? 0 then Some p4 else add_months md p4 mos) = Some p5 /\
                valid_tp md p5 = true /\ rep_kind (tdate p5) = rep_kind (tdate p) /\
                tod_kind (ttod p5) = tod_kind (ttod p) /\ tzone p5 = tzone p).
    { destruct (mos =? 0) eqn:Em.
      - exists p4. repeat split; assumption.
      - destruct (add_months_any md p4 mos ltac:(lia) V4) as (y & m & dd & r & _ & E & K & T & Z & N & _).
        exists r. split; [exact E|]. split; [apply normal_valid; exact N|]. repeat split; congruence. }
    destruct M as (p5 & -> & V5 & K5 & T5 & Z5).
    destruct (ys =? 0) eqn:Ey.
    - exists p5. repeat split; assumption.
    - exists (with_date p5 (add_years md (tdate p5) ys)). split; [reflexivity|].
      destruct (valid_tp_parts md p5 V5) as (Vd & Vt & Vz).
      destruct (add_years_spec md ys) as (_ & _ & _ & AY).
      destruct (AY (tdate p5) Vd) as [AV AK].
      unfold with_date; cbn [tdate ttod tzone]. split.
      + unfold valid_tp; cbn [tdate ttod tzone]. rewrite AV, Vt, Vz. reflexivity.
      + repeat split; congruence. }
  destruct d as [w | ys mos ds h mi s].
  - rewrite tp_add_weeks. apply G.
  - apply G.
Qed.
