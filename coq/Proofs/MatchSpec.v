(* Proofs/MatchSpec.v -- the universal part of the text layer: a form's regex
   matches the text the form denotes and yields exactly the field texts
   (pmatch_render); a sound syntactic test that one form cannot match the
   texts of another (shape_disjoint); which form the ordered searches of the
   parser return (hit / first_match_hit); reflection over the generated
   tables; decoding through get_info and the TimePoint constructor. *)
From Coq Require Import ZArith QArith List Bool String Ascii Lia.
From Iso Require Import Spec.Cal Model.Num Model.Helpers Model.Duration Model.TimePoint
  Model.Forms Model.Parse Spec.FormText.
Import ListNotations.
Local Open Scope string_scope.

(* ------------------------------------------------------------------ *)
(* strings                                                             *)
(* ------------------------------------------------------------------ *)
Lemma sapp_nil_r : forall s : string, s ++ "" = s.
Proof. induction s; simpl; congruence. Qed.
Lemma sapp_assoc : forall a b c : string, (a ++ b) ++ c = a ++ (b ++ c).
Proof. induction a; simpl; intros; congruence. Qed.

Lemma str_prefix_app : forall p s, str_prefix p (p ++ s) = Some s.
Proof. induction p; simpl; intros; [reflexivity|]. rewrite Ascii.eqb_refl. apply IHp. Qed.
Lemma str_prefix_inv : forall p s r, str_prefix p s = Some r -> s = p ++ r.
Proof.
  induction p; simpl; intros s r H.
  - congruence.
  - destruct s as [|b s]; [discriminate|].
    destruct (Ascii.eqb a b) eqn:E; [|discriminate].
    apply Ascii.eqb_eq in E. subst b. f_equal. apply IHp; assumption.
Qed.

Lemma digits_n_inv : forall n s, digits_n n s = true -> String.length s = n /\ all_digits s = true.
Proof. unfold digits_n. intros n s H. apply andb_true_iff in H. destruct H as [H1 H2].
  apply Nat.eqb_eq in H1. split; assumption. Qed.
Lemma digits_n_intro : forall s, all_digits s = true -> digits_n (String.length s) s = true.
Proof. intros. unfold digits_n. rewrite Nat.eqb_refl. assumption. Qed.
Lemma all_digits_app : forall a b, all_digits (a ++ b) = all_digits a && all_digits b.
Proof. induction a; simpl; intros; [reflexivity|]. rewrite IHa, andb_assoc. reflexivity. Qed.

Lemma take_digits_app : forall n d s, digits_n n d = true -> take_digits n (d ++ s) = Some (d, s).
Proof.
  intros n d s H. apply digits_n_inv in H. destruct H as [L A]. revert d L A.
  induction n; intros d L A.
  - destruct d; [reflexivity|discriminate].
  - destruct d as [|c d]; [discriminate|]. simpl in *. apply andb_true_iff in A. destruct A as [A1 A2].
    rewrite A1. rewrite IHn by (try assumption; congruence). reflexivity.
Qed.
Lemma take_digits_inv : forall n s d r, take_digits n s = Some (d, r) -> s = d ++ r /\ digits_n n d = true.
Proof.
  induction n; simpl; intros s d r H.
  - inversion H; subst. split; reflexivity.
  - destruct s as [|c s]; [discriminate|]. destruct (is_digit c) eqn:E; [|discriminate].
    destruct (take_digits n s) as [[d' r']|] eqn:T; [|discriminate]. inversion H; subst.
    apply IHn in T. destruct T as [T1 T2]. subst s. split; [reflexivity|].
    apply digits_n_inv in T2. destruct T2 as [L A]. unfold digits_n. simpl. rewrite L, Nat.eqb_refl, E, A. reflexivity.
Qed.

Lemma span_digits_all : forall d, all_digits d = true -> span_digits d = (d, "").
Proof. induction d; simpl; intros H; [reflexivity|]. apply andb_true_iff in H. destruct H as [H1 H2].
  rewrite H1, IHd by assumption. reflexivity. Qed.
Lemma span_digits_nondigit : forall c s, is_digit c = false -> span_digits (String c s) = ("", String c s).
Proof. intros. simpl. rewrite H. reflexivity. Qed.

Lemma prefixes_desc_head : forall d c, exists more, prefixes_desc (String c d) = (String c d, "") :: more.
Proof.
  induction d; intros c.
  - exists []. reflexivity.
  - destruct (IHd a) as [more E]. cbn [prefixes_desc] in *. rewrite E. simpl. eexists. reflexivity.
Qed.

(* the candidate loop of the unbounded digit run, as a list function *)
Fixpoint try_first {A B} (f : A -> option B) (l : list A) : option B :=
  match l with [] => None | x :: more => match f x with Some e => Some e | None => try_first f more end end.
Lemma try_first_some : forall A B (f : A -> option B) l e, try_first f l = Some e -> exists x, In x l /\ f x = Some e.
Proof. induction l; simpl; intros e H; [discriminate|]. destruct (f a) eqn:E.
  - inversion H; subst. exists a. auto.
  - apply IHl in H. destruct H as [x [I F]]. exists x. auto. Qed.
Lemma pmatch_PDigs : forall nm r s acc,
  pmatch (PDigs nm :: r) s acc =
  try_first (fun ps => pmatch r (snd ps ++ snd (span_digits s)) (snoc acc nm (fst ps))) (prefixes_desc (fst (span_digits s))).
Proof.
  intros. cbn [pmatch]. destruct (span_digits s) as [d rest]. cbn [fst snd].
  induction (prefixes_desc d) as [|[pre suf] l IH]; [reflexivity|].
  cbn [try_first fst snd]. destruct (pmatch r (suf ++ rest) (snoc acc nm pre)); [reflexivity|]. apply IH.
Qed.

(* ------------------------------------------------------------------ *)
(* 1. a form matches its own texts                                     *)
(* ------------------------------------------------------------------ *)
Lemma snoc_app : forall acc nm v (b : env), (snoc acc nm v ++ b = acc ++ (nm, v) :: b)%list.
Proof. intros. unfold snoc. rewrite <- app_assoc. reflexivity. Qed.

Lemma is_sign_inv : forall s, is_sign s = true -> s = "+" \/ s = "-".
Proof. unfold is_sign. intros s H. apply orb_true_iff in H. destruct H as [H|H]; apply String.eqb_eq in H; auto. Qed.

Theorem pmatch_render : forall ts a acc,
  simple ts = true -> wf_assign ts a = true ->
  pmatch ts (render_toks ts a) acc = Some (acc ++ bindings ts a)%list.
Proof.
  induction ts as [|t ts IH]; intros a acc S W.
  - simpl. rewrite app_nil_r. reflexivity.
  - destruct t as [l|nm n|nm|nm|nm l|nm].
    + cbn [pmatch render_toks bindings]. rewrite str_prefix_app. apply IH; assumption.
    + cbn [pmatch render_toks bindings wf_assign] in *. apply andb_true_iff in W. destruct W as [W1 W2].
      rewrite take_digits_app by assumption. rewrite IH by assumption. rewrite snoc_app. reflexivity.
    + cbn [simple] in S. destruct ts; [|discriminate].
      cbn [wf_assign] in W. apply andb_true_iff in W. destruct W as [W1 _].
      unfold digits_plus in W1. apply andb_true_iff in W1. destruct W1 as [N A].
      rewrite pmatch_PDigs. cbn [render_toks bindings]. rewrite sapp_nil_r.
      rewrite span_digits_all by assumption. cbn [fst snd].
      destruct (fld nm a) as [|c d] eqn:F; [discriminate|].
      destruct (prefixes_desc_head d c) as [more E]. rewrite E. cbn [try_first fst snd].
      simpl. unfold snoc. reflexivity.
    + cbn [pmatch render_toks bindings wf_assign] in *. apply andb_true_iff in W. destruct W as [W1 W2].
      apply is_sign_inv in W1. destruct W1 as [E|E]; rewrite E; simpl;
        rewrite IH by assumption; rewrite snoc_app; reflexivity.
    + cbn [pmatch render_toks bindings]. rewrite str_prefix_app. rewrite IH by assumption.
      rewrite snoc_app. reflexivity.
    + discriminate.
Qed.

(* ------------------------------------------------------------------ *)
(* 2. a sound test that one form cannot match another form's texts     *)
(* ------------------------------------------------------------------ *)
Inductive cls := KDig | KSign | KChr (c : ascii).
Definition kmatch (k : cls) (c : ascii) : bool :=
  match k with
  | KDig => is_digit c
  | KSign => Ascii.eqb c "+" || Ascii.eqb c "-"
  | KChr x => Ascii.eqb c x
  end.
Definition chars (s : string) : list cls := map KChr (list_ascii_of_string s).
Definition tok_cls (t : ptok) : option (list cls) :=
  match t with
  | PLit l => Some (chars l)
  | PGrp _ l => Some (chars l)
  | PDig _ n => Some (repeat KDig n)
  | PSign _ => Some [KSign]
  | PDigs _ => None
  | PUnix _ => None
  end.
(* a token list as one character class per position, and whether an
   unbounded digit run follows; None = not of that shape *)
Fixpoint expand (ts : list ptok) : option (list cls * bool) :=
  match ts with
  | [] => Some ([], false)
  | PDigs _ :: r => match r with [] => Some ([], true) | _ :: _ => None end
  | t :: r => match tok_cls t, expand r with
              | Some k, Some (cs, b) => Some ((k ++ cs)%list, b)
              | _, _ => None end
  end.

(* what pmatch accepts, on the expanded shape *)
Fixpoint cmatch (cs : list cls) (t : bool) (s : string) : bool :=
  match cs with
  | [] => if t then existsb (fun ps => at_end (snd ps ++ snd (span_digits s))) (prefixes_desc (fst (span_digits s)))
          else at_end s
  | k :: cs' => match s with String c s' => kmatch k c && cmatch cs' t s' | EmptyString => false end
  end.
(* what render_toks produces, on the expanded shape *)
Fixpoint conf (cs : list cls) (t : bool) (s : string) : bool :=
  match cs with
  | [] => if t then digits_plus s else String.eqb s ""
  | k :: cs' => match s with String c s' => kmatch k c && conf cs' t s' | EmptyString => false end
  end.

Lemma cmatch_chars : forall l cs t s, cmatch (chars l ++ cs)%list t (l ++ s) = cmatch cs t s.
Proof. induction l; intros; [reflexivity|]. unfold chars in *. simpl. rewrite Ascii.eqb_refl. apply IHl. Qed.
Lemma conf_chars : forall l cs t s, conf (chars l ++ cs)%list t (l ++ s) = conf cs t s.
Proof. induction l; intros; [reflexivity|]. unfold chars in *. simpl. rewrite Ascii.eqb_refl. apply IHl. Qed.
Lemma cmatch_digs : forall n d cs t s, digits_n n d = true -> cmatch (repeat KDig n ++ cs)%list t (d ++ s) = cmatch cs t s.
Proof.
  intros n d cs t s H. apply digits_n_inv in H. destruct H as [L A]. revert d L A.
  induction n; intros d L A; destruct d as [|c d]; try discriminate; [reflexivity|].
  simpl in *. apply andb_true_iff in A. destruct A as [A1 A2]. rewrite A1. apply IHn; [congruence|assumption].
Qed.
Lemma conf_digs : forall n d cs t s, digits_n n d = true -> conf (repeat KDig n ++ cs)%list t (d ++ s) = conf cs t s.
Proof.
  intros n d cs t s H. apply digits_n_inv in H. destruct H as [L A]. revert d L A.
  induction n; intros d L A; destruct d as [|c d]; try discriminate; [reflexivity|].
  simpl in *. apply andb_true_iff in A. destruct A as [A1 A2]. rewrite A1. apply IHn; [congruence|assumption].
Qed.

Lemma pmatch_cmatch : forall g s acc e cs t,
  expand g = Some (cs, t) -> pmatch g s acc = Some e -> cmatch cs t s = true.
Proof.
  induction g as [|tk g IH]; intros s acc e cs t X P.
  - simpl in X. inversion X; subst. simpl in *. destruct (at_end s); [reflexivity|discriminate].
  - destruct tk as [l|nm n|nm|nm|nm l|nm].
    + cbn [expand tok_cls] in X. destruct (expand g) as [[cs' b]|]; [|discriminate]. inversion X; subst.
      cbn [pmatch] in P. destruct (str_prefix l s) as [rest|] eqn:SP; [|discriminate].
      apply str_prefix_inv in SP. subst s. rewrite cmatch_chars. eapply IH; [reflexivity|eassumption].
    + cbn [expand tok_cls] in X. destruct (expand g) as [[cs' b]|]; [|discriminate]. inversion X; subst.
      cbn [pmatch] in P. destruct (take_digits n s) as [[d rest]|] eqn:TD; [|discriminate].
      apply take_digits_inv in TD. destruct TD as [E D]. subst s. rewrite cmatch_digs by assumption.
      eapply IH; [reflexivity|eassumption].
    + cbn [expand] in X. destruct g; [|discriminate]. inversion X; subst.
      rewrite pmatch_PDigs in P. apply try_first_some in P. destruct P as [[pre suf] [I F]].
      cbn [cmatch]. apply existsb_exists. exists (pre, suf). split; [assumption|].
      cbn [fst snd pmatch] in *. destruct (at_end (suf ++ snd (span_digits s))); [reflexivity|discriminate].
    + cbn [expand tok_cls] in X. destruct (expand g) as [[cs' b]|]; [|discriminate]. inversion X; subst.
      cbn [pmatch] in P. destruct s as [|c s]; [discriminate|].
      destruct (Ascii.eqb c "+" || Ascii.eqb c "-") eqn:Sg; [|discriminate].
      simpl. rewrite Sg. simpl. eapply IH; [reflexivity|eassumption].
    + cbn [expand tok_cls] in X. destruct (expand g) as [[cs' b]|]; [|discriminate]. inversion X; subst.
      cbn [pmatch] in P. destruct (str_prefix l s) as [rest|] eqn:SP; [|discriminate].
      apply str_prefix_inv in SP. subst s. rewrite cmatch_chars. eapply IH; [reflexivity|eassumption].
    + discriminate.
Qed.

Lemma expand_conf : forall f a, simple f = true -> wf_assign f a = true ->
  exists cs t, expand f = Some (cs, t) /\ conf cs t (render_toks f a) = true.
Proof.
  induction f as [|tk f IH]; intros a S W.
  - exists [], false. split; reflexivity.
  - destruct tk as [l|nm n|nm|nm|nm l|nm].
    + cbn [simple wf_assign] in *. destruct (IH a S W) as [cs [t [X C]]].
      exists (chars l ++ cs)%list, t. cbn [expand tok_cls render_toks]. rewrite X, conf_chars. auto.
    + cbn [simple wf_assign] in *. apply andb_true_iff in W. destruct W as [W1 W2].
      destruct (IH a S W2) as [cs [t [X C]]].
      exists (repeat KDig n ++ cs)%list, t. cbn [expand tok_cls render_toks]. rewrite X, conf_digs by assumption. auto.
    + cbn [simple] in S. destruct f; [|discriminate].
      cbn [wf_assign] in W. apply andb_true_iff in W. destruct W as [W1 _].
      exists [], true. cbn [expand render_toks conf]. rewrite sapp_nil_r. auto.
    + cbn [simple wf_assign] in *. apply andb_true_iff in W. destruct W as [W1 W2].
      destruct (IH a S W2) as [cs [t [X C]]].
      exists (KSign :: cs), t. cbn [expand tok_cls render_toks]. rewrite X. split; [reflexivity|].
      apply is_sign_inv in W1. destruct W1 as [E|E]; rewrite E; simpl; assumption.
    + cbn [simple wf_assign] in *. destruct (IH a S W) as [cs [t [X C]]].
      exists (chars l ++ cs)%list, t. cbn [expand tok_cls render_toks]. rewrite X, conf_chars. auto.
    + discriminate.
Qed.

(* two classes with no character in common *)
Definition kdisj (kg kf : cls) : bool :=
  match kg, kf with
  | KDig, KDig => false
  | KSign, KSign => false
  | KDig, KSign => true
  | KSign, KDig => true
  | KDig, KChr c => negb (is_digit c)
  | KChr c, KDig => negb (is_digit c)
  | KSign, KChr c => negb (Ascii.eqb c "+" || Ascii.eqb c "-")
  | KChr c, KSign => negb (Ascii.eqb c "+" || Ascii.eqb c "-")
  | KChr a, KChr b => negb (Ascii.eqb a b)
  end.
Lemma kdisj_sound : forall kg kf c, kdisj kg kf = true -> kmatch kf c = true -> kmatch kg c = false.
Proof.
  intros kg kf c D M. destruct kg as [| |x]; destruct kf as [| |y]; simpl in *; try discriminate.
  - apply orb_true_iff in M. destruct M as [M|M]; apply Ascii.eqb_eq in M; subst c; reflexivity.
  - apply Ascii.eqb_eq in M. subst y. apply negb_true_iff in D. assumption.
  - destruct (Ascii.eqb c "+") eqn:E1. { apply Ascii.eqb_eq in E1. subst c. discriminate. }
    destruct (Ascii.eqb c "-") eqn:E2. { apply Ascii.eqb_eq in E2. subst c. discriminate. }
    reflexivity.
  - apply Ascii.eqb_eq in M. subst y. apply negb_true_iff in D. assumption.
  - destruct (Ascii.eqb c x) eqn:E; [|reflexivity]. apply Ascii.eqb_eq in E. subst x.
    rewrite M in D. discriminate.
  - destruct (Ascii.eqb c x) eqn:E; [|reflexivity]. apply Ascii.eqb_eq in E. subst x.
    rewrite M in D. discriminate.
  - apply Ascii.eqb_eq in M. subst y. apply negb_true_iff in D. rewrite Ascii.eqb_sym. assumption.
Qed.

Definition nlc : ascii := ascii_of_nat 10.
(* position by position; when one side runs out, what the other demands next *)
Fixpoint sdisj (cg : list cls) (tg : bool) (cf : list cls) (tf : bool) : bool :=
  match cg, cf with
  | kg :: cg', kf :: cf' => kdisj kg kf || sdisj cg' tg cf' tf
  | kg :: _, [] => if tf then kdisj kg KDig else true
  | [], kf :: _ => if tg then kdisj KDig kf else negb (kmatch kf nlc)
  | [], [] => if tg then negb tf else tf
  end.

Lemma at_end_inv : forall s, at_end s = true -> s = "" \/ s = nl.
Proof. unfold at_end. intros s H. apply orb_true_iff in H. destruct H as [H|H]; apply String.eqb_eq in H; auto. Qed.

Lemma sdisj_sound : forall cg tg cf tf s,
  sdisj cg tg cf tf = true -> conf cf tf s = true -> cmatch cg tg s = false.
Proof.
  induction cg as [|kg cg IH]; intros tg cf tf s D C.
  - destruct cf as [|kf cf].
    + cbn [sdisj conf] in *. destruct tg.
      * apply negb_true_iff in D. subst tf. apply String.eqb_eq in C. subst s. reflexivity.
      * subst tf. cbn [cmatch]. unfold digits_plus in C. apply andb_true_iff in C. destruct C as [N A].
        destruct s as [|c s]; [discriminate|]. simpl in A. apply andb_true_iff in A. destruct A as [A1 A2].
        destruct (at_end (String c s)) eqn:AE; [|reflexivity]. apply at_end_inv in AE.
        destruct AE as [AE|AE]; [discriminate|]. unfold nl in AE. inversion AE; subst c. discriminate.
    + cbn [sdisj conf] in *. destruct s as [|c s]; [discriminate|].
      apply andb_true_iff in C. destruct C as [C1 C2]. destruct tg.
      * pose proof (kdisj_sound _ _ _ D C1) as ND. simpl in ND. cbn [cmatch].
        rewrite span_digits_nondigit by assumption. reflexivity.
      * cbn [cmatch]. destruct (at_end (String c s)) eqn:AE; [|reflexivity]. apply at_end_inv in AE.
        destruct AE as [AE|AE]; [discriminate|]. unfold nl in AE. inversion AE; subst c.
        apply negb_true_iff in D. unfold nlc in D. rewrite D in C1. discriminate.
  - destruct cf as [|kf cf].
    + cbn [sdisj conf] in *. destruct tf.
      * unfold digits_plus in C. apply andb_true_iff in C. destruct C as [N A].
        destruct s as [|c s]; [discriminate|]. simpl in A. apply andb_true_iff in A. destruct A as [A1 A2].
        cbn [cmatch]. rewrite (kdisj_sound kg KDig c D A1). reflexivity.
      * apply String.eqb_eq in C. subst s. reflexivity.
    + cbn [sdisj conf] in *. destruct s as [|c s]; [discriminate|].
      apply andb_true_iff in C. destruct C as [C1 C2]. cbn [cmatch].
      apply orb_true_iff in D. destruct D as [D|D].
      * rewrite (kdisj_sound _ _ _ D C1). reflexivity.
      * rewrite (IH _ _ _ _ D C2). apply andb_false_r.
Qed.

Definition shape_disjoint (g f : list ptok) : bool :=
  match expand g, expand f with
  | Some (cg, tg), Some (cf, tf) => sdisj cg tg cf tf
  | _, _ => false
  end.

Theorem shape_disjoint_sound : forall g f a acc,
  shape_disjoint g f = true -> wf_assign f a = true -> simple f = true ->
  pmatch g (render_toks f a) acc = None.
Proof.
  intros g f a acc D W S. unfold shape_disjoint in D.
  destruct (expand g) as [[cg tg]|] eqn:XG; [|discriminate].
  destruct (expand_conf f a S W) as [cf [tf [XF C]]]. rewrite XF in D.
  destruct (pmatch g (render_toks f a) acc) eqn:P; [|reflexivity].
  pose proof (pmatch_cmatch _ _ _ _ _ _ XG P) as M.
  rewrite (sdisj_sound _ _ _ _ _ D C) in M. discriminate.
Qed.

(* ------------------------------------------------------------------ *)
(* 3. ordered search                                                   *)
(* ------------------------------------------------------------------ *)
Definition ptok_eq_dec : forall x y : ptok, {x = y} + {x <> y}.
Proof. decide equality; try apply string_dec; apply Nat.eq_dec. Defined.
Definition dtok_eq_dec : forall x y : dtok, {x = y} + {x <> y}.
Proof. decide equality; try apply string_dec; apply Nat.eq_dec. Defined.
Definition form_eq_dec : forall x y : form, {x = y} + {x <> y}.
Proof. decide equality; try apply string_dec; apply list_eq_dec;
  try apply string_dec; try apply ptok_eq_dec; apply dtok_eq_dec. Defined.
Definition form_eqb (x y : form) : bool := if form_eq_dec x y then true else false.
Lemma form_eqb_eq : forall x y, form_eqb x y = true -> x = y.
Proof. unfold form_eqb. intros x y H. destruct (form_eq_dec x y); [assumption|discriminate]. Qed.

Theorem first_match_unique : forall fs1 f fs2 a,
  Forall (fun g => shape_disjoint (f_parse g) (f_parse f) = true) fs1 ->
  simple (f_parse f) = true -> wf_assign (f_parse f) a = true ->
  first_match (fs1 ++ f :: fs2)%list (render_toks (f_parse f) a) = Some (f, bindings (f_parse f) a).
Proof.
  induction fs1 as [|g fs1 IH]; intros f fs2 a D S W.
  - simpl. rewrite pmatch_render by assumption. reflexivity.
  - inversion D; subst. simpl. rewrite shape_disjoint_sound by assumption. apply IH; assumption.
Qed.

(* the form an ordered search returns on the texts of f: the first form not
   provably disjoint from f, provided it has the same regex as f *)
Fixpoint hit (fs : list form) (f : form) : option form :=
  match fs with
  | [] => None
  | g :: r => if shape_disjoint (f_parse g) (f_parse f) then hit r f
              else if list_eq_dec ptok_eq_dec (f_parse g) (f_parse f) then Some g else None
  end.
Definition reach (fs : list form) (f : form) : bool :=
  match hit fs f with Some g => form_eqb g f | None => false end.

Theorem first_match_hit : forall fs f g a,
  hit fs f = Some g -> simple (f_parse f) = true -> wf_assign (f_parse f) a = true ->
  first_match fs (render_toks (f_parse f) a) = Some (g, bindings (f_parse f) a) /\ f_parse g = f_parse f /\ In g fs.
Proof.
  induction fs as [|h fs IH]; intros f g a H S W; [discriminate|].
  cbn [hit] in H. destruct (shape_disjoint (f_parse h) (f_parse f)) eqn:D.
  - cbn [first_match]. rewrite shape_disjoint_sound by assumption.
    destruct (IH _ _ _ H S W) as [A [B C]]. split; [assumption|]. split; [assumption|right; assumption].
  - destruct (list_eq_dec ptok_eq_dec (f_parse h) (f_parse f)) as [E|E]; [|discriminate].
    inversion H; subst h. cbn [first_match]. rewrite E, pmatch_render by assumption.
    split; [reflexivity|]. split; [reflexivity|left; reflexivity].
Qed.

Theorem first_match_reach : forall fs f a,
  reach fs f = true -> simple (f_parse f) = true -> wf_assign (f_parse f) a = true ->
  first_match fs (render_toks (f_parse f) a) = Some (f, bindings (f_parse f) a).
Proof.
  unfold reach. intros fs f a R S W. destruct (hit fs f) as [g|] eqn:H; [|discriminate].
  apply form_eqb_eq in R. subst g. apply (first_match_hit _ _ _ _ H S W).
Qed.

Lemma first_match_none : forall fs f a,
  forallb (fun g => shape_disjoint (f_parse g) (f_parse f)) fs = true ->
  simple (f_parse f) = true -> wf_assign (f_parse f) a = true ->
  first_match fs (render_toks (f_parse f) a) = None.
Proof.
  induction fs as [|g fs IH]; intros f a D S W; [reflexivity|].
  simpl in D. apply andb_true_iff in D. destruct D as [D1 D2].
  cbn [first_match]. rewrite shape_disjoint_sound by assumption. apply IH; assumption.
Qed.

Lemma first_match_In : forall fs s f e, first_match fs s = Some (f, e) -> In f fs.
Proof.
  induction fs as [|g fs IH]; intros s f e H; [discriminate|].
  cbn [first_match] in H. destruct (pmatch (f_parse g) s []).
  - inversion H; subst. left; reflexivity.
  - right. eapply IH; eassumption.
Qed.

(* ------------------------------------------------------------------ *)
(* 4. the lists the parser searches, and reflection over the tables    *)
(* ------------------------------------------------------------------ *)
From Iso Require Import gen.Grammar Model.DriverText.

(* exactly the lists get_date_info / get_time_info / get_zone_info walk *)
Definition date_search (dfs : list form) (cfg : pcfg) (bad_types : list string) : list form :=
  let tkeys := filter (fun k => negb (mem k bad_types) && (c_trunc cfg || negb (String.eqb k "truncated")))
                      ["complete"; "truncated"; "reduced"] in
  flat_map (fun fk => flat_map (fun tk =>
      filter (fun f => String.eqb (f_format f) fk && String.eqb (f_type f) tk) dfs) tkeys)
    (formats_of cfg).
Definition time_search (tfs : list form) (cfg : pcfg) (bad_formats bad_types : list string) : list form :=
  flat_map (fun fk => if mem fk bad_formats then [] else
      flat_map (fun tk => if mem tk bad_types then [] else
         filter (fun f => String.eqb (f_format f) fk && String.eqb (f_type f) tk) tfs)
        ["complete"; "reduced"; "truncated"])
    (formats_of cfg).
Definition zone_search (zfs : list form) (cfg : pcfg) (bad_formats : list string) : list form :=
  flat_map (fun fk => if mem fk bad_formats then [] else
      filter (fun f => String.eqb (f_format f) fk) zfs) (formats_of cfg).

Lemma get_date_info_search : forall dfs cfg s bad,
  get_date_info dfs cfg s bad = first_match (date_search dfs cfg bad) s.
Proof. reflexivity. Qed.
Lemma get_time_info_search : forall tfs cfg s bf bt,
  get_time_info tfs cfg s bf bt = first_match (time_search tfs cfg bf bt) s.
Proof. reflexivity. Qed.
Lemma get_zone_info_search : forall zfs cfg s bf,
  get_zone_info zfs cfg s bf = first_match (zone_search zfs cfg bf) s.
Proof. reflexivity. Qed.

(* the searches only look at allow_truncated and allow_only_basic *)
Definition cfg_of (ned : Z) (tr ba : bool) : pcfg := mkCfg ned tr ba None false (0, 0)%Z.
Lemma date_search_cfg : forall dfs cfg bad,
  date_search dfs cfg bad = date_search dfs (cfg_of (c_ned cfg) (c_trunc cfg) (c_basic cfg)) bad.
Proof. destruct cfg; reflexivity. Qed.
Lemma time_search_cfg : forall tfs cfg bf bt,
  time_search tfs cfg bf bt = time_search tfs (cfg_of (c_ned cfg) (c_trunc cfg) (c_basic cfg)) bf bt.
Proof. destruct cfg; reflexivity. Qed.
Lemma zone_search_cfg : forall zfs cfg bf,
  zone_search zfs cfg bf = zone_search zfs (cfg_of (c_ned cfg) (c_trunc cfg) (c_basic cfg)) bf.
Proof. destruct cfg; reflexivity. Qed.

Definition ALL_FORMS : list form := (DATE_FORMS_0 ++ DATE_FORMS_2 ++ DATE_FORMS_3 ++ TIME_FORMS ++ ZONE_FORMS)%list.

Theorem translator_ok_grammar_true : translator_ok_grammar = true.
Proof. vm_compute. reflexivity. Qed.

Theorem forms_simple : forallb (fun f => simple (f_parse f)) ALL_FORMS = true.
Proof. vm_compute. reflexivity. Qed.

(* g and f differ at most in the format key *)
Definition same_but_format (g f : form) : bool :=
  String.eqb (f_type g) (f_type f) && String.eqb (f_expr g) (f_expr f) &&
  (if list_eq_dec ptok_eq_dec (f_parse g) (f_parse f) then true else false) &&
  (if list_eq_dec dtok_eq_dec (f_dump g) (f_dump f) then true else false) &&
  (if list_eq_dec string_dec (f_props g) (f_props f) then true else false).
(* the search returns f itself, or -- for an extended-table form -- its
   identical twin of the basic table (same regex, expression, type, template) *)
Definition found (L : list form) (f : form) : bool :=
  match hit L f with
  | Some g => form_eqb g f || (String.eqb (f_format g) "basic" && String.eqb (f_format f) "extended" && same_but_format g f)
  | None => false
  end.

Definition bools : list bool := [false; true].
Definition date_cfgs : list (Z * bool * bool * list string) :=
  flat_map (fun ned => flat_map (fun tr => flat_map (fun ba => map (fun bad => (ned, tr, ba, bad)) [[]; ["reduced"]])
     bools) bools) [0; 2; 3]%Z.
(* texts of these forms are also texts of an earlier truncated form
   (sign "-"): "-CCYY" is read as -YYMM, "-CC"/"-XXCC" as -YY/-YYMM *)
Definition date_exceptions (ned : Z) (tr : bool) (bad : list string) : list string :=
  match bad with
  | [] => if tr then (if (ned =? 0)%Z then ["+XCCYY"; "+XCC"] else if (ned =? 2)%Z then ["+XCC"] else []) else []
  | _ => []
  end.

Theorem reachable_dates :
  forallb (fun c : Z * bool * bool * list string =>
    let '(ned, tr, ba, bad) := c in
    let L := date_search (date_forms_of ned) (cfg_of ned tr ba) bad in
    forallb (fun f => found L f || mem (f_expr f) (date_exceptions ned tr bad)) L) date_cfgs = true.
Proof. vm_compute. reflexivity. Qed.

(* every form outside the exceptions is returned exactly (reach) unless it is
   the extended twin of a basic form *)
Theorem reachable_dates_exact :
  forallb (fun c : Z * bool * bool * list string =>
    let '(ned, tr, ba, bad) := c in
    let L := date_search (date_forms_of ned) (cfg_of ned tr ba) bad in
    forallb (fun f => reach L f || mem (f_expr f) (date_exceptions ned tr bad) ||
                      (String.eqb (f_format f) "extended" && mem (f_expr f) ["CCYY-MM"; "+XCCYY-MM"; "-DDD"])) L) date_cfgs = true.
Proof. vm_compute. reflexivity. Qed.

Definition time_cfgs : list (bool * list string * list string) :=
  flat_map (fun ba => flat_map (fun bf => map (fun bt => (ba, bf, bt)) [[]; ["truncated"]])
     [[]; ["basic"]; ["extended"]]) bools.
Theorem reachable_times :
  forallb (fun c : bool * list string * list string =>
    let '(ba, bf, bt) := c in
    let L := time_search TIME_FORMS (cfg_of 0 false ba) bf bt in
    forallb (fun f => found L f) L) time_cfgs = true.
Proof. vm_compute. reflexivity. Qed.
Theorem reachable_times_exact :
  forallb (fun c : bool * list string * list string =>
    let '(ba, bf, bt) := c in
    let L := time_search TIME_FORMS (cfg_of 0 false ba) bf bt in
    forallb (fun f => reach L f ||
       (String.eqb (f_format f) "extended" &&
        mem (f_expr f) ["hh,ii"; "hh.ii"; "hh"; "-mm"; "--ss"; "-mm,nn"; "--ss,tt"; "-mm.nn"; "--ss.tt"])) L) time_cfgs = true.
Proof. vm_compute. reflexivity. Qed.

Definition zone_cfgs : list (bool * list string) :=
  flat_map (fun ba => map (fun bf => (ba, bf)) [[]; ["basic"]; ["extended"]]) bools.
Theorem reachable_zones :
  forallb (fun c : bool * list string =>
    let '(ba, bf) := c in
    let L := zone_search ZONE_FORMS (cfg_of 0 false ba) bf in
    forallb (fun f => found L f) L) zone_cfgs = true.
Proof. vm_compute. reflexivity. Qed.
Theorem reachable_zones_exact :
  forallb (fun c : bool * list string =>
    let '(ba, bf) := c in
    let L := zone_search ZONE_FORMS (cfg_of 0 false ba) bf in
    forallb (fun f => reach L f || (String.eqb (f_format f) "extended" && mem (f_expr f) ["Z"; "+hh"])) L) zone_cfgs = true.
Proof. vm_compute. reflexivity. Qed.

(* what `found` gives: the match, with the form's own bindings, and a
   returned form that agrees with f on everything but the format key *)
Theorem found_spec : forall L f a,
  found L f = true -> simple (f_parse f) = true -> wf_assign (f_parse f) a = true ->
  exists g, first_match L (render_toks (f_parse f) a) = Some (g, bindings (f_parse f) a) /\
            f_parse g = f_parse f /\ f_expr g = f_expr f /\ f_type g = f_type f /\
            f_dump g = f_dump f /\ f_props g = f_props f /\ In g L /\
            (f_format g = f_format f \/ (f_format g = "basic" /\ f_format f = "extended")).
Proof.
  unfold found. intros L f a F S W. destruct (hit L f) as [g|] eqn:H; [|discriminate].
  destruct (first_match_hit _ _ _ _ H S W) as [A [B C]]. exists g.
  apply orb_true_iff in F. destruct F as [F|F].
  - apply form_eqb_eq in F. subst g. repeat split; auto.
  - unfold same_but_format in F.
    repeat match goal with X : _ && _ = true |- _ => apply andb_true_iff in X; destruct X end.
    repeat match goal with X : String.eqb _ _ = true |- _ => apply String.eqb_eq in X end.
    repeat match goal with X : (if ?d then true else false) = true |- _ => destruct d; [clear X|discriminate X] end.
    repeat split; auto.
Qed.
