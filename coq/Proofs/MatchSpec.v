(* Proofs/MatchSpec.v -- the universal part of the text layer: a form's regex
   matches the text the form denotes and yields exactly the field texts
   (pmatch_render); a sound syntactic test that one form cannot match the
   texts of another (shape_disjoint); which form the ordered searches of the
   parser return (hit / first_match_hit); reflection over the generated
   tables; decoding through get_info and the TimePoint constructor. *)
From Coq Require Import ZArith QArith List Bool String Ascii Lia.
From Iso Require Import Spec.Cal Model.Num Model.Helpers Model.Duration Model.TimePoint
  Model.Forms Model.Parse Spec.FormText.
Import ListNotations.
Local Open Scope string_scope.

(* ------------------------------------------------------------------ *)
(* strings                                                             *)
(* ------------------------------------------------------------------ *)
Lemma sapp_nil_r : forall s : string, s ++ "" = s.
Proof. induction s; simpl; congruence. Qed.
Lemma sapp_assoc : forall a b c : string, (a ++ b) ++ c = a ++ (b ++ c).
Proof. induction a; simpl; intros; congruence. Qed.

Lemma str_prefix_app : forall p s, str_prefix p (p ++ s) = Some s.
Proof. induction p; simpl; intros; [reflexivity|]. rewrite Ascii.eqb_refl. apply IHp. Qed.
Lemma str_prefix_inv : forall p s r, str_prefix p s = Some r -> s = p ++ r.
Proof.
  induction p; simpl; intros s r H.
  - congruence.
  - destruct s as [|b s]; [discriminate|].
    destruct (Ascii.eqb a b) eqn:E; [|discriminate].
    apply Ascii.eqb_eq in E. subst b. f_equal. apply IHp; assumption.
Qed.

Lemma digits_n_inv : forall n s, digits_n n s = true -> String.length s = n /\ all_digits s = true.
Proof. unfold digits_n. intros n s H. apply andb_true_iff in H. destruct H as [H1 H2].
  apply Nat.eqb_eq in H1. split; assumption. Qed.
Lemma digits_n_intro : forall s, all_digits s = true -> digits_n (String.length s) s = true.
Proof. intros. unfold digits_n. rewrite Nat.eqb_refl. assumption. Qed.
Lemma all_digits_app : forall a b, all_digits (a ++ b) = all_digits a && all_digits b.
Proof. induction a; simpl; intros; [reflexivity|]. rewrite IHa, andb_assoc. reflexivity. Qed.

Lemma take_digits_app : forall n d s, digits_n n d = true -> take_digits n (d ++ s) = Some (d, s).
Proof.
  intros n d s H. apply digits_n_inv in H. destruct H as [L A]. revert d L A.
  induction n; intros d L A.
  - destruct d; [reflexivity|discriminate].
  - destruct d as [|c d]; [discriminate|]. simpl in *. apply andb_true_iff in A. destruct A as [A1 A2].
    rewrite A1. rewrite IHn by (try assumption; congruence). reflexivity.
Qed.
Lemma take_digits_inv : forall n s d r, take_digits n s = Some (d, r) -> s = d ++ r /\ digits_n n d = true.
Proof.
  induction n; simpl; intros s d r H.
  - inversion H; subst. split; reflexivity.
  - destruct s as [|c s]; [discriminate|]. destruct (is_digit c) eqn:E; [|discriminate].
    destruct (take_digits n s) as [[d' r']|] eqn:T; [|discriminate]. inversion H; subst.
    apply IHn in T. destruct T as [T1 T2]. subst s. split; [reflexivity|].
    apply digits_n_inv in T2. destruct T2 as [L A]. unfold digits_n. simpl. rewrite L, Nat.eqb_refl, E, A. reflexivity.
Qed.

Lemma span_digits_all : forall d, all_digits d = true -> span_digits d = (d, "").
Proof. induction d; simpl; intros H; [reflexivity|]. apply andb_true_iff in H. destruct H as [H1 H2].
  rewrite H1, IHd by assumption. reflexivity. Qed.
Lemma span_digits_nondigit : forall c s, is_digit c = false -> span_digits (String c s) = ("", String c s).
Proof. intros. simpl. rewrite H. reflexivity. Qed.

Lemma prefixes_desc_head : forall d c, exists more, prefixes_desc (String c d) = (String c d, "") :: more.
Proof.
  induction d; intros c.
  - exists []. reflexivity.
  - destruct (IHd a) as [more E]. cbn [prefixes_desc] in *. rewrite E. simpl. eexists. reflexivity.
Qed.

(* the candidate loop of the unbounded digit run, as a list function *)
Fixpoint try_first {A B} (f : A -> option B) (l : list A) : option B :=
  match l with [] => None | x :: more => match f x with Some e => Some e | None => try_first f more end end.
Lemma try_first_some : forall A B (f : A -> option B) l e, try_first f l = Some e -> exists x, In x l /\ f x = Some e.
Proof. induction l; simpl; intros e H; [discriminate|]. destruct (f a) eqn:E.
  - inversion H; subst. exists a. auto.
  - apply IHl in H. destruct H as [x [I F]]. exists x. auto. Qed.
Lemma pmatch_PDigs : forall nm r s acc,
  pmatch (PDigs nm :: r) s acc =
  try_first (fun ps => pmatch r (snd ps ++ snd (span_digits s)) (snoc acc nm (fst ps))) (prefixes_desc (fst (span_digits s))).
Proof.
  intros. cbn [pmatch]. destruct (span_digits s) as [d rest]. cbn [fst snd].
  induction (prefixes_desc d) as [|[pre suf] l IH]; [reflexivity|].
  cbn [try_first fst snd]. destruct (pmatch r (suf ++ rest) (snoc acc nm pre)); [reflexivity|]. apply IH.
Qed.

(* ------------------------------------------------------------------ *)
(* 1. a form matches its own texts                                     *)
(* ------------------------------------------------------------------ *)
Lemma snoc_app : forall acc nm v (b : env), (snoc acc nm v ++ b = acc ++ (nm, v) :: b)%list.
Proof. intros. unfold snoc. rewrite <- app_assoc. reflexivity. Qed.

Lemma is_sign_inv : forall s, is_sign s = true -> s = "+" \/ s = "-".
Proof. unfold is_sign. intros s H. apply orb_true_iff in H. destruct H as [H|H]; apply String.eqb_eq in H; auto. Qed.

Theorem pmatch_render : forall ts a acc,
  simple ts = true -> wf_assign ts a = true ->
  pmatch ts (render_toks ts a) acc = Some (acc ++ bindings ts a)%list.
Proof.
  induction ts as [|t ts IH]; intros a acc S W.
  - simpl. rewrite app_nil_r. reflexivity.
  - destruct t as [l|nm n|nm|nm|nm l|nm].
    + cbn [pmatch render_toks bindings]. rewrite str_prefix_app. apply IH; assumption.
    + cbn [pmatch render_toks bindings wf_assign] in *. apply andb_true_iff in W. destruct W as [W1 W2].
      rewrite take_digits_app by assumption. rewrite IH by assumption. rewrite snoc_app. reflexivity.
    + cbn [simple] in S. destruct ts; [|discriminate].
      cbn [wf_assign] in W. apply andb_true_iff in W. destruct W as [W1 _].
      unfold digits_plus in W1. apply andb_true_iff in W1. destruct W1 as [N A].
      rewrite pmatch_PDigs. cbn [render_toks bindings]. rewrite sapp_nil_r.
      rewrite span_digits_all by assumption. cbn [fst snd].
      destruct (fld nm a) as [|c d] eqn:F; [discriminate|].
      destruct (prefixes_desc_head d c) as [more E]. rewrite E. cbn [try_first fst snd].
      simpl. unfold snoc. reflexivity.
    + cbn [pmatch render_toks bindings wf_assign] in *. apply andb_true_iff in W. destruct W as [W1 W2].
      apply is_sign_inv in W1. destruct W1 as [E|E]; rewrite E; simpl;
        rewrite IH by assumption; rewrite snoc_app; reflexivity.
    + cbn [pmatch render_toks bindings]. rewrite str_prefix_app. rewrite IH by assumption.
      rewrite snoc_app. reflexivity.
    + discriminate.
Qed.

(* ------------------------------------------------------------------ *)
(* 2. a sound test that one form cannot match another form's texts     *)
(* ------------------------------------------------------------------ *)
Inductive cls := KDig | KSign | KChr (c : ascii).
Definition kmatch (k : cls) (c : ascii) : bool :=
  match k with
  | KDig => is_digit c
  | KSign => Ascii.eqb c "+" || Ascii.eqb c "-"
  | KChr x => Ascii.eqb c x
  end.
Definition chars (s : string) : list cls := map KChr (list_ascii_of_string s).
Definition tok_cls (t : ptok) : option (list cls) :=
  match t with
  | PLit l => Some (chars l)
  | PGrp _ l => Some (chars l)
  | PDig _ n => Some (repeat KDig n)
  | PSign _ => Some [KSign]
  | PDigs _ => None
  | PUnix _ => None
  end.
(* a token list as one character class per position, and whether an
   unbounded digit run follows; None = not of that shape *)
Fixpoint expand (ts : list ptok) : option (list cls * bool) :=
  match ts with
  | [] => Some ([], false)
  | PDigs _ :: r => match r with [] => Some ([], true) | _ :: _ => None end
  | t :: r => match tok_cls t, expand r with
              | Some k, Some (cs, b) => Some ((k ++ cs)%list, b)
              | _, _ => None end
  end.

(* what pmatch accepts, on the expanded shape *)
Fixpoint cmatch (cs : list cls) (t : bool) (s : string) : bool :=
  match cs with
  | [] => if t then existsb (fun ps => at_end (snd ps ++ snd (span_digits s))) (prefixes_desc (fst (span_digits s)))
          else at_end s
  | k :: cs' => match s with String c s' => kmatch k c && cmatch cs' t s' | EmptyString => false end
  end.
(* what render_toks produces, on the expanded shape *)
Fixpoint conf (cs : list cls) (t : bool) (s : string) : bool :=
  match cs with
  | [] => if t then digits_plus s else String.eqb s ""
  | k :: cs' => match s with String c s' => kmatch k c && conf cs' t s' | EmptyString => false end
  end.

Lemma cmatch_chars : forall l cs t s, cmatch (chars l ++ cs)%list t (l ++ s) = cmatch cs t s.
Proof. induction l; intros; [reflexivity|]. unfold chars in *. simpl. rewrite Ascii.eqb_refl. apply IHl. Qed.
Lemma conf_chars : forall l cs t s, conf (chars l ++ cs)%list t (l ++ s) = conf cs t s.
Proof. induction l; intros; [reflexivity|]. unfold chars in *. simpl. rewrite Ascii.eqb_refl. apply IHl. Qed.
Lemma cmatch_digs : forall n d cs t s, digits_n n d = true -> cmatch (repeat KDig n ++ cs)%list t (d ++ s) = cmatch cs t s.
Proof.
  intros n d cs t s H. apply digits_n_inv in H. destruct H as [L A]. revert d L A.
  induction n; intros d L A; destruct d as [|c d]; try discriminate; [reflexivity|].
  simpl in *. apply andb_true_iff in A. destruct A as [A1 A2]. rewrite A1. apply IHn; [congruence|assumption].
Qed.
Lemma conf_digs : forall n d cs t s, digits_n n d = true -> conf (repeat KDig n ++ cs)%list t (d ++ s) = conf cs t s.
Proof.
  intros n d cs t s H. apply digits_n_inv in H. destruct H as [L A]. revert d L A.
  induction n; intros d L A; destruct d as [|c d]; try discriminate; [reflexivity|].
  simpl in *. apply andb_true_iff in A. destruct A as [A1 A2]. rewrite A1. apply IHn; [congruence|assumption].
Qed.

Lemma pmatch_cmatch : forall g s acc e cs t,
  expand g = Some (cs, t) -> pmatch g s acc = Some e -> cmatch cs t s = true.
Proof.
  induction g as [|tk g IH]; intros s acc e cs t X P.
  - simpl in X. inversion X; subst. simpl in *. destruct (at_end s); [reflexivity|discriminate].
  - destruct tk as [l|nm n|nm|nm|nm l|nm].
    + cbn [expand tok_cls] in X. destruct (expand g) as [[cs' b]|]; [|discriminate]. inversion X; subst.
      cbn [pmatch] in P. destruct (str_prefix l s) as [rest|] eqn:SP; [|discriminate].
      apply str_prefix_inv in SP. subst s. rewrite cmatch_chars. eapply IH; [reflexivity|eassumption].
    + cbn [expand tok_cls] in X. destruct (expand g) as [[cs' b]|]; [|discriminate]. inversion X; subst.
      cbn [pmatch] in P. destruct (take_digits n s) as [[d rest]|] eqn:TD; [|discriminate].
      apply take_digits_inv in TD. destruct TD as [E D]. subst s. rewrite cmatch_digs by assumption.
      eapply IH; [reflexivity|eassumption].
    + cbn [expand] in X. destruct g; [|discriminate]. inversion X; subst.
      rewrite pmatch_PDigs in P. apply try_first_some in P. destruct P as [[pre suf] [I F]].
      cbn [cmatch]. apply existsb_exists. exists (pre, suf). split; [assumption|].
      cbn [fst snd pmatch] in *. destruct (at_end (suf ++ snd (span_digits s))); [reflexivity|discriminate].
    + cbn [expand tok_cls] in X. destruct (expand g) as [[cs' b]|]; [|discriminate]. inversion X; subst.
      cbn [pmatch] in P. destruct s as [|c s]; [discriminate|].
      destruct (Ascii.eqb c "+" || Ascii.eqb c "-") eqn:Sg; [|discriminate].
      simpl. rewrite Sg. simpl. eapply IH; [reflexivity|eassumption].
    + cbn [expand tok_cls] in X. destruct (expand g) as [[cs' b]|]; [|discriminate]. inversion X; subst.
      cbn [pmatch] in P. destruct (str_prefix l s) as [rest|] eqn:SP; [|discriminate].
      apply str_prefix_inv in SP. subst s. rewrite cmatch_chars. eapply IH; [reflexivity|eassumption].
    + discriminate.
Qed.

Lemma expand_conf : forall f a, simple f = true -> wf_assign f a = true ->
  exists cs t, expand f = Some (cs, t) /\ conf cs t (render_toks f a) = true.
Proof.
  induction f as [|tk f IH]; intros a S W.
  - exists [], false. split; reflexivity.
  - destruct tk as [l|nm n|nm|nm|nm l|nm].
    + cbn [simple wf_assign] in *. destruct (IH a S W) as [cs [t [X C]]].
      exists (chars l ++ cs)%list, t. cbn [expand tok_cls render_toks]. rewrite X, conf_chars. auto.
    + cbn [simple wf_assign] in *. apply andb_true_iff in W. destruct W as [W1 W2].
      destruct (IH a S W2) as [cs [t [X C]]].
      exists (repeat KDig n ++ cs)%list, t. cbn [expand tok_cls render_toks]. rewrite X, conf_digs by assumption. auto.
    + cbn [simple] in S. destruct f; [|discriminate].
      cbn [wf_assign] in W. apply andb_true_iff in W. destruct W as [W1 _].
      exists [], true. cbn [expand render_toks conf]. rewrite sapp_nil_r. auto.
    + cbn [simple wf_assign] in *. apply andb_true_iff in W. destruct W as [W1 W2].
      destruct (IH a S W2) as [cs [t [X C]]].
      exists (KSign :: cs), t. cbn [expand tok_cls render_toks]. rewrite X. split; [reflexivity|].
      apply is_sign_inv in W1. destruct W1 as [E|E]; rewrite E; simpl; assumption.
    + cbn [simple wf_assign] in *. destruct (IH a S W) as [cs [t [X C]]].
      exists (chars l ++ cs)%list, t. cbn [expand tok_cls render_toks]. rewrite X, conf_chars. auto.
    + discriminate.
Qed.

(* two classes with no character in common *)
Definition kdisj (kg kf : cls) : bool :=
  match kg, kf with
  | KDig, KDig => false
  | KSign, KSign => false
  | KDig, KSign => true
  | KSign, KDig => true
  | KDig, KChr c => negb (is_digit c)
  | KChr c, KDig => negb (is_digit c)
  | KSign, KChr c => negb (Ascii.eqb c "+" || Ascii.eqb c "-")
  | KChr c, KSign => negb (Ascii.eqb c "+" || Ascii.eqb c "-")
  | KChr a, KChr b => negb (Ascii.eqb a b)
  end.
Lemma kdisj_sound : forall kg kf c, kdisj kg kf = true -> kmatch kf c = true -> kmatch kg c = false.
Proof.
  intros kg kf c D M. destruct kg as [| |x]; destruct kf as [| |y]; simpl in *; try discriminate.
  - apply orb_true_iff in M. destruct M as [M|M]; apply Ascii.eqb_eq in M; subst c; reflexivity.
  - apply Ascii.eqb_eq in M. subst y. apply negb_true_iff in D. assumption.
  - destruct (Ascii.eqb c "+") eqn:E1. { apply Ascii.eqb_eq in E1. subst c. discriminate. }
    destruct (Ascii.eqb c "-") eqn:E2. { apply Ascii.eqb_eq in E2. subst c. discriminate. }
    reflexivity.
  - apply Ascii.eqb_eq in M. subst y. apply negb_true_iff in D. assumption.
  - destruct (Ascii.eqb c x) eqn:E; [|reflexivity]. apply Ascii.eqb_eq in E. subst x.
    rewrite M in D. discriminate.
  - destruct (Ascii.eqb c x) eqn:E; [|reflexivity]. apply Ascii.eqb_eq in E. subst x.
    rewrite M in D. discriminate.
  - apply Ascii.eqb_eq in M. subst y. apply negb_true_iff in D. rewrite Ascii.eqb_sym. assumption.
Qed.

Definition nlc : ascii := ascii_of_nat 10.
(* position by position; when one side runs out, what the other demands next *)
Fixpoint sdisj (cg : list cls) (tg : bool) (cf : list cls) (tf : bool) : bool :=
  match cg, cf with
  | kg :: cg', kf :: cf' => kdisj kg kf || sdisj cg' tg cf' tf
  | kg :: _, [] => if tf then kdisj kg KDig else true
  | [], kf :: _ => if tg then kdisj KDig kf else negb (kmatch kf nlc)
  | [], [] => if tg then negb tf else tf
  end.

Lemma at_end_inv : forall s, at_end s = true -> s = "" \/ s = nl.
Proof. unfold at_end. intros s H. apply orb_true_iff in H. destruct H as [H|H]; apply String.eqb_eq in H; auto. Qed.

Lemma sdisj_sound : forall cg tg cf tf s,
  sdisj cg tg cf tf = true -> conf cf tf s = true -> cmatch cg tg s = false.
Proof.
  induction cg as [|kg cg IH]; intros tg cf tf s D C.
  - destruct cf as [|kf cf].
    + cbn [sdisj conf] in *. destruct tg.
      * apply negb_true_iff in D. subst tf. apply String.eqb_eq in C. subst s. reflexivity.
      * subst tf. cbn [cmatch]. unfold digits_plus in C. apply andb_true_iff in C. destruct C as [N A].
        destruct s as [|c s]; [discriminate|]. simpl in A. apply andb_true_iff in A. destruct A as [A1 A2].
        destruct (at_end (String c s)) eqn:AE; [|reflexivity]. apply at_end_inv in AE.
        destruct AE as [AE|AE]; [discriminate|]. unfold nl in AE. inversion AE; subst c. discriminate.
    + cbn [sdisj conf] in *. destruct s as [|c s]; [discriminate|].
      apply andb_true_iff in C. destruct C as [C1 C2]. destruct tg.
      * pose proof (kdisj_sound _ _ _ D C1) as ND. simpl in ND. cbn [cmatch].
        rewrite span_digits_nondigit by assumption. reflexivity.
      * cbn [cmatch]. destruct (at_end (String c s)) eqn:AE; [|reflexivity]. apply at_end_inv in AE.
        destruct AE as [AE|AE]; [discriminate|]. unfold nl in AE. inversion AE; subst c.
        apply negb_true_iff in D. unfold nlc in D. rewrite D in C1. discriminate.
  - destruct cf as [|kf cf].
    + cbn [sdisj conf] in *. destruct tf.
      * unfold digits_plus in C. apply andb_true_iff in C. destruct C as [N A].
        destruct s as [|c s]; [discriminate|]. simpl in A. apply andb_true_iff in A. destruct A as [A1 A2].
        cbn [cmatch]. rewrite (kdisj_sound kg KDig c D A1). reflexivity.
      * apply String.eqb_eq in C. subst s. reflexivity.
    + cbn [sdisj conf] in *. destruct s as [|c s]; [discriminate|].
      apply andb_true_iff in C. destruct C as [C1 C2]. cbn [cmatch].
      apply orb_true_iff in D. destruct D as [D|D].
      * rewrite (kdisj_sound _ _ _ D C1). reflexivity.
      * rewrite (IH _ _ _ _ D C2). apply andb_false_r.
Qed.

Definition shape_disjoint (g f : list ptok) : bool :=
  match expand g, expand f with
  | Some (cg, tg), Some (cf, tf) => sdisj cg tg cf tf
  | _, _ => false
  end.

Theorem shape_disjoint_sound : forall g f a acc,
  shape_disjoint g f = true -> wf_assign f a = true -> simple f = true ->
  pmatch g (render_toks f a) acc = None.
Proof.
  intros g f a acc D W S. unfold shape_disjoint in D.
  destruct (expand g) as [[cg tg]|] eqn:XG; [|discriminate].
  destruct (expand_conf f a S W) as [cf [tf [XF C]]]. rewrite XF in D.
  destruct (pmatch g (render_toks f a) acc) eqn:P; [|reflexivity].
  pose proof (pmatch_cmatch _ _ _ _ _ _ XG P) as M.
  rewrite (sdisj_sound _ _ _ _ _ D C) in M. discriminate.
Qed.

(* ------------------------------------------------------------------ *)
(* 3. ordered search                                                   *)
(* ------------------------------------------------------------------ *)
Definition ptok_eq_dec : forall x y : ptok, {x = y} + {x <> y}.
Proof. decide equality; try apply string_dec; apply Nat.eq_dec. Defined.
Definition dtok_eq_dec : forall x y : dtok, {x = y} + {x <> y}.
Proof. decide equality; try apply string_dec; apply Nat.eq_dec. Defined.
Definition form_eq_dec : forall x y : form, {x = y} + {x <> y}.
Proof. decide equality; try apply string_dec; apply list_eq_dec;
  try apply string_dec; try apply ptok_eq_dec; apply dtok_eq_dec. Defined.
Definition form_eqb (x y : form) : bool := if form_eq_dec x y then true else false.
Lemma form_eqb_eq : forall x y, form_eqb x y = true -> x = y.
Proof. unfold form_eqb. intros x y H. destruct (form_eq_dec x y); [assumption|discriminate]. Qed.

Theorem first_match_unique : forall fs1 f fs2 a,
  Forall (fun g => shape_disjoint (f_parse g) (f_parse f) = true) fs1 ->
  simple (f_parse f) = true -> wf_assign (f_parse f) a = true ->
  first_match (fs1 ++ f :: fs2)%list (render_toks (f_parse f) a) = Some (f, bindings (f_parse f) a).
Proof.
  induction fs1 as [|g fs1 IH]; intros f fs2 a D S W.
  - simpl. rewrite pmatch_render by assumption. reflexivity.
  - inversion D; subst. simpl. rewrite shape_disjoint_sound by assumption. apply IH; assumption.
Qed.

(* the form an ordered search returns on the texts of f: the first form not
   provably disjoint from f, provided it has the same regex as f *)
Fixpoint hit (fs : list form) (f : form) : option form :=
  match fs with
  | [] => None
  | g :: r => if shape_disjoint (f_parse g) (f_parse f) then hit r f
              else if list_eq_dec ptok_eq_dec (f_parse g) (f_parse f) then Some g else None
  end.
Definition reach (fs : list form) (f : form) : bool :=
  match hit fs f with Some g => form_eqb g f | None => false end.

Theorem first_match_hit : forall fs f g a,
  hit fs f = Some g -> simple (f_parse f) = true -> wf_assign (f_parse f) a = true ->
  first_match fs (render_toks (f_parse f) a) = Some (g, bindings (f_parse f) a) /\ f_parse g = f_parse f /\ In g fs.
Proof.
  induction fs as [|h fs IH]; intros f g a H S W; [discriminate|].
  cbn [hit] in H. destruct (shape_disjoint (f_parse h) (f_parse f)) eqn:D.
  - cbn [first_match]. rewrite shape_disjoint_sound by assumption.
    destruct (IH _ _ _ H S W) as [A [B C]]. split; [assumption|]. split; [assumption|right; assumption].
  - destruct (list_eq_dec ptok_eq_dec (f_parse h) (f_parse f)) as [E|E]; [|discriminate].
    inversion H; subst h. cbn [first_match]. rewrite E, pmatch_render by assumption.
    split; [reflexivity|]. split; [reflexivity|left; reflexivity].
Qed.

Theorem first_match_reach : forall fs f a,
  reach fs f = true -> simple (f_parse f) = true -> wf_assign (f_parse f) a = true ->
  first_match fs (render_toks (f_parse f) a) = Some (f, bindings (f_parse f) a).
Proof.
  unfold reach. intros fs f a R S W. destruct (hit fs f) as [g|] eqn:H; [|discriminate].
  apply form_eqb_eq in R. subst g. apply (first_match_hit _ _ _ _ H S W).
Qed.

Lemma first_match_none : forall fs f a,
  forallb (fun g => shape_disjoint (f_parse g) (f_parse f)) fs = true ->
  simple (f_parse f) = true -> wf_assign (f_parse f) a = true ->
  first_match fs (render_toks (f_parse f) a) = None.
Proof.
  induction fs as [|g fs IH]; intros f a D S W; [reflexivity|].
  simpl in D. apply andb_true_iff in D. destruct D as [D1 D2].
  cbn [first_match]. rewrite shape_disjoint_sound by assumption. apply IH; assumption.
Qed.

Lemma first_match_In : forall fs s f e, first_match fs s = Some (f, e) -> In f fs.
Proof.
  induction fs as [|g fs IH]; intros s f e H; [discriminate|].
  cbn [first_match] in H. destruct (pmatch (f_parse g) s []).
  - inversion H; subst. left; reflexivity.
  - right. eapply IH; eassumption.
Qed.

(* ------------------------------------------------------------------ *)
(* 4. the lists the parser searches, and reflection over the tables    *)
(* ------------------------------------------------------------------ *)
From Iso Require Import gen.Grammar Model.DriverText.

(* exactly the lists get_date_info / get_time_info / get_zone_info walk *)
Definition date_search (dfs : list form) (cfg : pcfg) (bad_types : list string) : list form :=
  let tkeys := filter (fun k => negb (mem k bad_types) && (c_trunc cfg || negb (String.eqb k "truncated")))
                      ["complete"; "truncated"; "reduced"] in
  flat_map (fun fk => flat_map (fun tk =>
      filter (fun f => String.eqb (f_format f) fk && String.eqb (f_type f) tk) dfs) tkeys)
    (formats_of cfg).
Definition time_search (tfs : list form) (cfg : pcfg) (bad_formats bad_types : list string) : list form :=
  flat_map (fun fk => if mem fk bad_formats then [] else
      flat_map (fun tk => if mem tk bad_types then [] else
         filter (fun f => String.eqb (f_format f) fk && String.eqb (f_type f) tk) tfs)
        ["complete"; "reduced"; "truncated"])
    (formats_of cfg).
Definition zone_search (zfs : list form) (cfg : pcfg) (bad_formats : list string) : list form :=
  flat_map (fun fk => if mem fk bad_formats then [] else
      filter (fun f => String.eqb (f_format f) fk) zfs) (formats_of cfg).

Lemma get_date_info_search : forall dfs cfg s bad,
  get_date_info dfs cfg s bad = first_match (date_search dfs cfg bad) s.
Proof. reflexivity. Qed.
Lemma get_time_info_search : forall tfs cfg s bf bt,
  get_time_info tfs cfg s bf bt = first_match (time_search tfs cfg bf bt) s.
Proof. reflexivity. Qed.
Lemma get_zone_info_search : forall zfs cfg s bf,
  get_zone_info zfs cfg s bf = first_match (zone_search zfs cfg bf) s.
Proof. reflexivity. Qed.

(* the searches only look at allow_truncated and allow_only_basic *)
Definition cfg_of (ned : Z) (tr ba : bool) : pcfg := mkCfg ned tr ba None false (0, 0)%Z.
Lemma date_search_cfg : forall dfs cfg bad,
  date_search dfs cfg bad = date_search dfs (cfg_of (c_ned cfg) (c_trunc cfg) (c_basic cfg)) bad.
Proof. destruct cfg; reflexivity. Qed.
Lemma time_search_cfg : forall tfs cfg bf bt,
  time_search tfs cfg bf bt = time_search tfs (cfg_of (c_ned cfg) (c_trunc cfg) (c_basic cfg)) bf bt.
Proof. destruct cfg; reflexivity. Qed.
Lemma zone_search_cfg : forall zfs cfg bf,
  zone_search zfs cfg bf = zone_search zfs (cfg_of (c_ned cfg) (c_trunc cfg) (c_basic cfg)) bf.
Proof. destruct cfg; reflexivity. Qed.

Definition ALL_FORMS : list form := (DATE_FORMS_0 ++ DATE_FORMS_2 ++ DATE_FORMS_3 ++ TIME_FORMS ++ ZONE_FORMS)%list.

Theorem translator_ok_grammar_true : translator_ok_grammar = true.
Proof. vm_compute. reflexivity. Qed.

Theorem forms_simple : forallb (fun f => simple (f_parse f)) ALL_FORMS = true.
Proof. vm_compute. reflexivity. Qed.

(* g and f differ at most in the format key *)
Definition same_but_format (g f : form) : bool :=
  String.eqb (f_type g) (f_type f) && String.eqb (f_expr g) (f_expr f) &&
  (if list_eq_dec ptok_eq_dec (f_parse g) (f_parse f) then true else false) &&
  (if list_eq_dec dtok_eq_dec (f_dump g) (f_dump f) then true else false) &&
  (if list_eq_dec string_dec (f_props g) (f_props f) then true else false).
(* the search returns f itself, or -- for an extended-table form -- its
   identical twin of the basic table (same regex, expression, type, template) *)
Definition found (L : list form) (f : form) : bool :=
  match hit L f with
  | Some g => form_eqb g f || (String.eqb (f_format g) "basic" && String.eqb (f_format f) "extended" && same_but_format g f)
  | None => false
  end.

Definition bools : list bool := [false; true].
Definition date_cfgs : list (Z * bool * bool * list string) :=
  flat_map (fun ned => flat_map (fun tr => flat_map (fun ba => map (fun bad => (ned, tr, ba, bad)) [[]; ["reduced"]])
     bools) bools) [0; 2; 3]%Z.
(* texts of these forms are also texts of an earlier truncated form
   (sign "-"): "-CCYY" is read as -YYMM, "-CC"/"-XXCC" as -YY/-YYMM *)
Definition date_exceptions (ned : Z) (tr : bool) (bad : list string) : list string :=
  match bad with
  | [] => if tr then (if (ned =? 0)%Z then ["+XCCYY"; "+XCC"] else if (ned =? 2)%Z then ["+XCC"] else []) else []
  | _ => []
  end.

Theorem reachable_dates :
  forallb (fun c : Z * bool * bool * list string =>
    let '(ned, tr, ba, bad) := c in
    let L := date_search (date_forms_of ned) (cfg_of ned tr ba) bad in
    forallb (fun f => found L f || mem (f_expr f) (date_exceptions ned tr bad)) L) date_cfgs = true.
Proof. vm_compute. reflexivity. Qed.

(* every form outside the exceptions is returned exactly (reach) unless it is
   the extended twin of a basic form *)
Theorem reachable_dates_exact :
  forallb (fun c : Z * bool * bool * list string =>
    let '(ned, tr, ba, bad) := c in
    let L := date_search (date_forms_of ned) (cfg_of ned tr ba) bad in
    forallb (fun f => reach L f || mem (f_expr f) (date_exceptions ned tr bad) ||
                      (String.eqb (f_format f) "extended" && mem (f_expr f) ["CCYY-MM"; "+XCCYY-MM"; "-DDD"])) L) date_cfgs = true.
Proof. vm_compute. reflexivity. Qed.

Definition time_cfgs : list (bool * list string * list string) :=
  flat_map (fun ba => flat_map (fun bf => map (fun bt => (ba, bf, bt)) [[]; ["truncated"]])
     [[]; ["basic"]; ["extended"]]) bools.
Theorem reachable_times :
  forallb (fun c : bool * list string * list string =>
    let '(ba, bf, bt) := c in
    let L := time_search TIME_FORMS (cfg_of 0 false ba) bf bt in
    forallb (fun f => found L f) L) time_cfgs = true.
Proof. vm_compute. reflexivity. Qed.
Theorem reachable_times_exact :
  forallb (fun c : bool * list string * list string =>
    let '(ba, bf, bt) := c in
    let L := time_search TIME_FORMS (cfg_of 0 false ba) bf bt in
    forallb (fun f => reach L f ||
       (String.eqb (f_format f) "extended" &&
        mem (f_expr f) ["hh,ii"; "hh.ii"; "hh"; "-mm"; "--ss"; "-mm,nn"; "--ss,tt"; "-mm.nn"; "--ss.tt"])) L) time_cfgs = true.
Proof. vm_compute. reflexivity. Qed.

Definition zone_cfgs : list (bool * list string) :=
  flat_map (fun ba => map (fun bf => (ba, bf)) [[]; ["basic"]; ["extended"]]) bools.
Theorem reachable_zones :
  forallb (fun c : bool * list string =>
    let '(ba, bf) := c in
    let L := zone_search ZONE_FORMS (cfg_of 0 false ba) bf in
    forallb (fun f => found L f) L) zone_cfgs = true.
Proof. vm_compute. reflexivity. Qed.
Theorem reachable_zones_exact :
  forallb (fun c : bool * list string =>
    let '(ba, bf) := c in
    let L := zone_search ZONE_FORMS (cfg_of 0 false ba) bf in
    forallb (fun f => reach L f || (String.eqb (f_format f) "extended" && mem (f_expr f) ["Z"; "+hh"])) L) zone_cfgs = true.
Proof. vm_compute. reflexivity. Qed.

(* what `found` gives: the match, with the form's own bindings, and a
   returned form that agrees with f on everything but the format key *)
Theorem found_spec : forall L f a,
  found L f = true -> simple (f_parse f) = true -> wf_assign (f_parse f) a = true ->
  exists g, first_match L (render_toks (f_parse f) a) = Some (g, bindings (f_parse f) a) /\
            f_parse g = f_parse f /\ f_expr g = f_expr f /\ f_type g = f_type f /\
            f_dump g = f_dump f /\ f_props g = f_props f /\ In g L /\
            (f_format g = f_format f \/ (f_format g = "basic" /\ f_format f = "extended")).
Proof.
  unfold found. intros L f a F S W. destruct (hit L f) as [g|] eqn:H; [|discriminate].
  destruct (first_match_hit _ _ _ _ H S W) as [A [B C]]. exists g.
  apply orb_true_iff in F. destruct F as [F|F].
  - apply form_eqb_eq in F. subst g. repeat split; auto.
  - unfold same_but_format in F.
    repeat match goal with X : _ && _ = true |- _ => apply andb_true_iff in X; destruct X end.
    repeat match goal with X : String.eqb _ _ = true |- _ => apply String.eqb_eq in X end.
    repeat match goal with X : (if ?d then true else false) = true |- _ => destruct d; [clear X|discriminate X] end.
    repeat split; auto.
Qed.


(* ------------------------------------------------------------------ *)
(* 5. get_info on rendered texts                                       *)
(* ------------------------------------------------------------------ *)
Definition bad_formats_of (fk tk : string) : list string :=
  if String.eqb tk "truncated" then []
  else if String.eqb fk "basic" then ["extended"]
  else if String.eqb fk "extended" then ["basic"] else [].
Definition bad_types_of (de : env) : list string := if has_key "truncated" de then [] else ["truncated"].

Section Info.
Variables dfs tfs zfs : list form.

(* the time/zone splitting step of get_info *)
Definition split_tz (cfg : pcfg) (tz : string) (bf bt : list string) : pres (string * option string) :=
  match ends_with_Z tz with
  | Some t => POk (t, Some "Z")
  | None =>
    if contains_char "+" tz then
      match split_str "+" tz with
      | [t; z] => POk (t, Some ("+" ++ z))
      | _ => PErr EValue
      end
    else if contains_char "-" tz then
      let '(t, z) := rsplit_dash tz in
      match get_time_info tfs cfg t bf bt, get_zone_info zfs cfg ("-" ++ z) bf with
      | Some _, Some _ => POk (t, Some ("-" ++ z))
      | _, _ => POk (tz, None)
      end
    else POk (tz, None)
  end.
(* the zone and time lookups after the split *)
Definition finish (cfg : pcfg) (de : env) (dexpr : string) (bf bt : list string) (t : string) (zs : option string) : pres pinfo :=
  let zres : pres (zinfo * string) :=
    match zs with
    | None => match process_zone cfg [] with POk z => POk (z, "") | PErr x => PErr x end
    | Some ztext =>
      match get_zone_info zfs cfg ztext bf with
      | None => PErr ESyntax
      | Some (zf, ze) => match process_zone cfg ze with POk z => POk (z, f_expr zf) | PErr x => PErr x end
      end
    end in
  match zres with
  | PErr x => PErr x
  | POk (z, zexpr) =>
    match get_time_info tfs cfg t bf bt with
    | None => PErr ESyntax
    | Some (tf, te) => POk (mkInfo de te z (dexpr ++ "T" ++ f_expr tf ++ zexpr))
    end
  end.
Definition date_part (cfg : pcfg) (d : string) : option (string * string * string * env) :=
  if String.eqb d "" && c_trunc cfg then Some ("", "truncated", "", [("truncated", "True")])
  else match get_date_info dfs cfg d ["reduced"] with
       | Some (f, e) => Some (f_format f, f_type f, f_expr f, e)
       | None => None end.

Lemma get_info_unfold : forall cfg s,
  get_info dfs tfs zfs cfg s =
  match split_str "T" s with
  | [d] =>
    match get_date_info dfs cfg d [] with
    | None => PErr ESyntax
    | Some (f, e) => match process_zone cfg [] with POk z => POk (mkInfo e [] z (f_expr f)) | PErr x => PErr x end
    end
  | [d; tz] =>
    match date_part cfg d with
    | None => PErr ESyntax
    | Some (fk, tk, dexpr, de) =>
      match split_tz cfg tz (bad_formats_of fk tk) (bad_types_of de) with
      | PErr x => PErr x
      | POk (t, zs) => finish cfg de dexpr (bad_formats_of fk tk) (bad_types_of de) t zs
      end
    end
  | _ => PErr EValue
  end.
Proof. reflexivity. Qed.
End Info.

(* --- characters of rendered texts --- *)
Lemma contains_char_app : forall c a b, contains_char c (a ++ b) = contains_char c a || contains_char c b.
Proof. induction a; simpl; intros; [reflexivity|]. rewrite IHa, orb_assoc. reflexivity. Qed.
Lemma split_on_nochar : forall c a cur, contains_char c a = false -> split_on c a cur = [cur ++ a].
Proof.
  induction a as [|x a IH]; simpl; intros cur H.
  - rewrite sapp_nil_r. reflexivity.
  - apply orb_false_iff in H. destruct H as [H1 H2]. rewrite H1, IH by assumption.
    rewrite sapp_assoc. reflexivity.
Qed.
Lemma split_on_at : forall c a b cur, contains_char c a = false ->
  split_on c (a ++ String c b) cur = (cur ++ a) :: split_on c b "".
Proof.
  induction a as [|x a IH]; simpl; intros b cur H.
  - rewrite Ascii.eqb_refl, sapp_nil_r. reflexivity.
  - apply orb_false_iff in H. destruct H as [H1 H2]. rewrite H1, IH by assumption.
    rewrite sapp_assoc. reflexivity.
Qed.
Lemma split_two : forall c a b, contains_char c a = false -> contains_char c b = false ->
  split_str c (a ++ String c b) = [a; b].
Proof. intros. unfold split_str. rewrite split_on_at, split_on_nochar by assumption. reflexivity. Qed.

Definition no_char (c : ascii) (ts : list ptok) : bool :=
  forallb (fun t => match t with
                    | PLit l => negb (contains_char c l)
                    | PGrp _ l => negb (contains_char c l)
                    | PDig _ _ => negb (is_digit c)
                    | PDigs _ => negb (is_digit c)
                    | PSign _ => negb (Ascii.eqb c "+" || Ascii.eqb c "-")
                    | PUnix _ => false end) ts.
Lemma digits_no_char : forall c d, is_digit c = false -> all_digits d = true -> contains_char c d = false.
Proof.
  induction d as [|x d IH]; simpl; intros N A; [reflexivity|].
  apply andb_true_iff in A. destruct A as [A1 A2]. rewrite IH by assumption.
  destruct (Ascii.eqb x c) eqn:E; [|reflexivity]. apply Ascii.eqb_eq in E. subst x. congruence.
Qed.
Lemma render_no_char : forall c ts a, no_char c ts = true -> wf_assign ts a = true ->
  contains_char c (render_toks ts a) = false.
Proof.
  induction ts as [|t ts IH]; intros a N W; [reflexivity|].
  cbn [no_char forallb] in N. apply andb_true_iff in N. destruct N as [N1 N2]. fold (no_char c ts) in N2.
  destruct t as [l|nm n|nm|nm|nm l|nm]; cbn [render_toks wf_assign] in *; rewrite contains_char_app.
  - rewrite IH by assumption. apply negb_true_iff in N1. rewrite N1. reflexivity.
  - apply andb_true_iff in W. destruct W as [W1 W2]. rewrite IH by assumption.
    apply negb_true_iff in N1. apply digits_n_inv in W1. rewrite digits_no_char by tauto. reflexivity.
  - apply andb_true_iff in W. destruct W as [W1 W2]. rewrite IH by assumption.
    apply negb_true_iff in N1. unfold digits_plus in W1. apply andb_true_iff in W1.
    rewrite digits_no_char by tauto. reflexivity.
  - apply andb_true_iff in W. destruct W as [W1 W2]. rewrite IH by assumption.
    apply negb_true_iff in N1. apply orb_false_iff in N1. destruct N1 as [P M].
    apply is_sign_inv in W1. destruct W1 as [E|E]; rewrite E; cbn [contains_char]; rewrite Ascii.eqb_sym; [rewrite P|rewrite M]; reflexivity.
  - rewrite IH by assumption. apply negb_true_iff in N1. rewrite N1. reflexivity.
  - discriminate.
Qed.

Lemma ends_with_Z_app : forall t, ends_with_Z (t ++ "Z") = Some t.
Proof.
  induction t as [|c t IH]; [reflexivity|].
  change (String c t ++ "Z") with (String c (t ++ "Z")). cbn [ends_with_Z]. rewrite IH.
  destruct t; reflexivity.
Qed.
Lemma ends_with_Z_contains : forall s x, ends_with_Z s = Some x -> contains_char "Z" s = true.
Proof.
  induction s as [|c s IH]; intros x H; [discriminate|].
  cbn [ends_with_Z] in H. cbn [contains_char]. destruct s as [|c' s'].
  - destruct (Ascii.eqb c "Z"); [reflexivity|discriminate].
  - destruct (ends_with_Z (String c' s')) eqn:E; [|discriminate]. rewrite (IH _ eq_refl). apply orb_true_r.
Qed.
Lemma ends_with_Z_none : forall s, contains_char "Z" s = false -> ends_with_Z s = None.
Proof. intros s H. destruct (ends_with_Z s) eqn:E; [|reflexivity]. apply ends_with_Z_contains in E. congruence. Qed.

Lemma rsplit_dash_app : forall t z, contains_char "-" z = false -> rsplit_dash (t ++ String "-" z) = (t, z).
Proof.
  induction t as [|c t IH]; intros z H.
  - simpl. rewrite H. reflexivity.
  - change (String c t ++ String "-" z) with (String c (t ++ String "-" z)). cbn [rsplit_dash].
    rewrite contains_char_app. simpl contains_char at 2. rewrite orb_true_r. rewrite IH by assumption. reflexivity.
Qed.

Section Info2.
Variables dfs tfs zfs : list form.

Lemma split_tz_Z : forall cfg t bf bt, split_tz tfs zfs cfg (t ++ "Z") bf bt = POk (t, Some "Z").
Proof. intros. unfold split_tz. rewrite ends_with_Z_app. reflexivity. Qed.
Lemma split_tz_none : forall cfg t bf bt,
  contains_char "Z" t = false -> contains_char "+" t = false -> contains_char "-" t = false ->
  split_tz tfs zfs cfg t bf bt = POk (t, None).
Proof. intros. unfold split_tz. rewrite ends_with_Z_none by assumption. rewrite H0, H1. reflexivity. Qed.
Lemma split_tz_plus : forall cfg t z bf bt,
  contains_char "Z" t = false -> contains_char "Z" z = false ->
  contains_char "+" t = false -> contains_char "+" z = false ->
  split_tz tfs zfs cfg (t ++ String "+" z) bf bt = POk (t, Some (String "+" z)).
Proof.
  intros. unfold split_tz. rewrite ends_with_Z_none.
  2:{ rewrite contains_char_app. simpl. rewrite H, H0. reflexivity. }
  rewrite contains_char_app. simpl contains_char at 2. rewrite orb_true_r.
  rewrite split_two by assumption. reflexivity.
Qed.
Lemma split_tz_minus : forall cfg t z bf bt x y,
  contains_char "Z" t = false -> contains_char "Z" z = false ->
  contains_char "+" t = false -> contains_char "+" z = false -> contains_char "-" z = false ->
  get_time_info tfs cfg t bf bt = Some x -> get_zone_info zfs cfg (String "-" z) bf = Some y ->
  split_tz tfs zfs cfg (t ++ String "-" z) bf bt = POk (t, Some (String "-" z)).
Proof.
  intros. unfold split_tz. rewrite ends_with_Z_none.
  2:{ rewrite contains_char_app. simpl. rewrite H, H0. reflexivity. }
  rewrite contains_char_app. simpl contains_char at 2. rewrite H1, H2. simpl orb.
  rewrite contains_char_app. simpl contains_char at 2. rewrite orb_true_r.
  rewrite rsplit_dash_app by assumption. simpl append. rewrite H4, H5. reflexivity.
Qed.

Lemma finish_some : forall cfg de dexpr bf bt t ztext gz ze gt te,
  get_zone_info zfs cfg ztext bf = Some (gz, ze) -> get_time_info tfs cfg t bf bt = Some (gt, te) ->
  finish tfs zfs cfg de dexpr bf bt t (Some ztext) =
  match process_zone cfg ze with
  | POk z => POk (mkInfo de te z (dexpr ++ "T" ++ f_expr gt ++ f_expr gz))
  | PErr x => PErr x end.
Proof. intros. unfold finish. rewrite H. destruct (process_zone cfg ze); [|reflexivity]. rewrite H0. reflexivity. Qed.
Lemma finish_none : forall cfg de dexpr bf bt t gt te,
  get_time_info tfs cfg t bf bt = Some (gt, te) ->
  finish tfs zfs cfg de dexpr bf bt t None =
  match process_zone cfg [] with
  | POk z => POk (mkInfo de te z (dexpr ++ "T" ++ f_expr gt ++ ""))
  | PErr x => PErr x end.
Proof. intros. unfold finish. destruct (process_zone cfg []); [|reflexivity]. rewrite H. reflexivity. Qed.

Lemma get_info_parts : forall cfg d tz fk tk dexpr de t zs,
  contains_char "T" d = false -> contains_char "T" tz = false ->
  date_part dfs cfg d = Some (fk, tk, dexpr, de) ->
  split_tz tfs zfs cfg tz (bad_formats_of fk tk) (bad_types_of de) = POk (t, zs) ->
  get_info dfs tfs zfs cfg (d ++ String "T" tz) = finish tfs zfs cfg de dexpr (bad_formats_of fk tk) (bad_types_of de) t zs.
Proof. intros. rewrite get_info_unfold. rewrite split_two by assumption. rewrite H1, H2. reflexivity. Qed.

Lemma date_part_hit : forall cfg fd gd ad,
  hit (date_search dfs cfg ["reduced"]) fd = Some gd ->
  simple (f_parse fd) = true -> wf_assign (f_parse fd) ad = true ->
  String.eqb (render_toks (f_parse fd) ad) "" && c_trunc cfg = false ->
  date_part dfs cfg (render_toks (f_parse fd) ad) = Some (f_format gd, f_type gd, f_expr gd, bindings (f_parse fd) ad).
Proof.
  intros cfg fd gd ad H S W N. unfold date_part. rewrite N. rewrite get_date_info_search.
  destruct (first_match_hit _ _ _ _ H S W) as [A _]. rewrite A. reflexivity.
Qed.
End Info2.

(* --- side conditions on token lists, all decidable on the tables --- *)
Definition tok_name (t : ptok) : option string :=
  match t with PLit _ => None | PDig nm _ => Some nm | PDigs nm => Some nm | PSign nm => Some nm
             | PGrp nm _ => Some nm | PUnix nm => Some nm end.
Definition binds (k : string) (ts : list ptok) : bool :=
  existsb (fun t => match tok_name t with Some nm => String.eqb k nm | None => false end) ts.
Lemma has_key_bindings : forall k ts a, has_key k (bindings ts a) = binds k ts.
Proof.
  unfold has_key. induction ts as [|t ts IH]; intros a; [reflexivity|].
  destruct t; cbn [bindings binds existsb tok_name lookup_env]; try apply IH;
    (destruct (String.eqb k _); [reflexivity|apply IH]).
Qed.

Fixpoint lit_text (ts : list ptok) : option string :=
  match ts with
  | [] => Some ""
  | PLit l :: r => match lit_text r with Some x => Some (l ++ x) | None => None end
  | PGrp _ l :: r => match lit_text r with Some x => Some (l ++ x) | None => None end
  | _ => None
  end.
Lemma lit_text_render : forall ts s a, lit_text ts = Some s -> render_toks ts a = s.
Proof.
  induction ts as [|t ts IH]; intros s a H.
  - inversion H. reflexivity.
  - destruct t; try discriminate; cbn [lit_text render_toks] in *;
      (destruct (lit_text ts) as [x|]; [|discriminate]); inversion H; rewrite (IH x a eq_refl); reflexivity.
Qed.

Definition nonempty_lead (ts : list ptok) : bool :=
  match ts with
  | PLit l :: _ => negb (String.eqb l "")
  | PGrp _ l :: _ => negb (String.eqb l "")
  | PSign _ :: _ => true
  | PDig _ (S _) :: _ => true
  | PDigs _ :: _ => true
  | _ => false
  end.
Lemma app_nonempty : forall a b : string, String.eqb a "" = false -> String.eqb (a ++ b) "" = false.
Proof. destruct a; simpl; intros; [discriminate|reflexivity]. Qed.
Lemma nonempty_lead_render : forall ts a, nonempty_lead ts = true -> wf_assign ts a = true ->
  String.eqb (render_toks ts a) "" = false.
Proof.
  intros ts a N W. destruct ts as [|t ts]; [discriminate|].
  destruct t as [l|nm n|nm|nm|nm l|nm]; cbn [nonempty_lead render_toks wf_assign] in *; try discriminate;
    apply app_nonempty.
  - apply negb_true_iff in N. assumption.
  - destruct n; [discriminate|]. apply andb_true_iff in W. destruct W as [W1 _].
    apply digits_n_inv in W1. destruct (fld nm a); [destruct W1; discriminate|reflexivity].
  - apply andb_true_iff in W. destruct W as [W1 _]. unfold digits_plus in W1.
    apply andb_true_iff in W1. destruct W1 as [W1 _]. apply negb_true_iff in W1. assumption.
  - apply andb_true_iff in W. destruct W as [W1 _]. apply is_sign_inv in W1. destruct W1 as [E|E]; rewrite E; reflexivity.
  - apply negb_true_iff in N. assumption.
Qed.

Definition ascii_toks (ts : list ptok) : bool :=
  forallb (fun t => match t with PLit l => is_ascii_str l | PGrp _ l => is_ascii_str l | PUnix _ => false | _ => true end) ts.
Lemma is_ascii_app : forall a b, is_ascii_str (a ++ b) = is_ascii_str a && is_ascii_str b.
Proof. unfold is_ascii_str. induction a; simpl; intros; [reflexivity|]. rewrite IHa, andb_assoc. reflexivity. Qed.
Lemma is_digit_ascii : forall c, is_digit c = true -> Nat.ltb (nat_of_ascii c) 128 = true.
Proof. unfold is_digit. intros c H. apply andb_true_iff in H. destruct H as [_ H]. apply Nat.leb_le in H.
  apply Nat.ltb_lt. lia. Qed.
Lemma digits_ascii : forall d, all_digits d = true -> is_ascii_str d = true.
Proof. unfold is_ascii_str. induction d; simpl; intros H; [reflexivity|]. apply andb_true_iff in H. destruct H as [H1 H2].
  rewrite is_digit_ascii, IHd by assumption. reflexivity. Qed.
Lemma render_ascii : forall ts a, ascii_toks ts = true -> wf_assign ts a = true -> is_ascii_str (render_toks ts a) = true.
Proof.
  induction ts as [|t ts IH]; intros a N W; [reflexivity|].
  cbn [ascii_toks forallb] in N. apply andb_true_iff in N. destruct N as [N1 N2]. fold (ascii_toks ts) in N2.
  destruct t as [l|nm n|nm|nm|nm l|nm]; cbn [render_toks wf_assign] in *; rewrite is_ascii_app; try discriminate.
  - rewrite N1, IH by assumption. reflexivity.
  - apply andb_true_iff in W. destruct W as [W1 W2]. apply digits_n_inv in W1.
    rewrite digits_ascii, IH by tauto. reflexivity.
  - apply andb_true_iff in W. destruct W as [W1 W2]. unfold digits_plus in W1. apply andb_true_iff in W1.
    rewrite digits_ascii, IH by tauto. reflexivity.
  - apply andb_true_iff in W. destruct W as [W1 W2]. rewrite IH by assumption.
    apply is_sign_inv in W1. destruct W1 as [E|E]; rewrite E; reflexivity.
  - rewrite N1, IH by assumption. reflexivity.
Qed.

Lemma found_hit : forall L f, found L f = true ->
  exists g, hit L f = Some g /\ f_expr g = f_expr f /\ f_type g = f_type f /\
            (f_format g = f_format f \/ (f_format g = "basic" /\ f_format f = "extended")).
Proof.
  unfold found. intros L f F. destruct (hit L f) as [g|] eqn:H; [|discriminate]. exists g.
  apply orb_true_iff in F. destruct F as [F|F].
  - apply form_eqb_eq in F. subst g. repeat split; auto.
  - unfold same_but_format in F.
    repeat match goal with X : _ && _ = true |- _ => apply andb_true_iff in X; destruct X end.
    repeat match goal with X : String.eqb _ _ = true |- _ => apply String.eqb_eq in X end.
    repeat split; auto.
Qed.

Section Info3.
Variables dfs tfs zfs : list form.

Definition zone_ok (cfg : pcfg) (bf : list string) (fz : form) : bool :=
  simple (f_parse fz) && found (zone_search zfs cfg bf) fz && ascii_toks (f_parse fz) &&
  match f_parse fz with
  | PSign _ :: zr => no_char "T" zr && no_char "Z" zr && no_char "+" zr && no_char "-" zr
  | ts => match lit_text ts with Some s => String.eqb s "Z" | None => false end
  end.

(* the boolean side conditions under which the text of (date form, time form,
   optional zone form) is decoded by get_info to exactly the three forms *)
Definition date_ok (cfg : pcfg) (fd : form) : bool :=
  simple (f_parse fd) && no_char "T" (f_parse fd) && ascii_toks (f_parse fd) &&
  (negb (c_trunc cfg) || nonempty_lead (f_parse fd)) &&
  found (date_search dfs cfg ["reduced"]) fd.
Definition time_ok (cfg : pcfg) (bf bt : list string) (ft : form) : bool :=
  simple (f_parse ft) && no_char "T" (f_parse ft) && ascii_toks (f_parse ft) &&
  found (time_search tfs cfg bf bt) ft && no_char "Z" (f_parse ft) && no_char "+" (f_parse ft).
Definition zpart_ok (cfg : pcfg) (bf : list string) (ft : form) (zo : option form) : bool :=
  match zo with
  | None => no_char "-" (f_parse ft)
  | Some fz => zone_ok cfg bf fz
  end.
Definition trunc_types (fd : form) : list string := if binds "truncated" (f_parse fd) then [] else ["truncated"].
Definition triple_ok (cfg : pcfg) (fd ft : form) (zo : option form) : bool :=
  date_ok cfg fd &&
  match hit (date_search dfs cfg ["reduced"]) fd with
  | None => false
  | Some gd =>
    let bf := bad_formats_of (f_format gd) (f_type gd) in
    time_ok cfg bf (trunc_types fd) ft && zpart_ok cfg bf ft zo
  end.

Definition zo_text (zo : option form) (az : env) : string :=
  match zo with Some fz => render_toks (f_parse fz) az | None => "" end.
Definition zo_bind (zo : option form) (az : env) : env :=
  match zo with Some fz => bindings (f_parse fz) az | None => [] end.
Definition zo_expr (zo : option form) : string := match zo with Some fz => f_expr fz | None => "" end.
Definition zo_wf (zo : option form) (az : env) : bool :=
  match zo with Some fz => wf_assign (f_parse fz) az | None => true end.

Theorem get_info_render : forall cfg fd ft zo ad at_ az,
  triple_ok cfg fd ft zo = true ->
  wf_assign (f_parse fd) ad = true -> wf_assign (f_parse ft) at_ = true -> zo_wf zo az = true ->
  get_info dfs tfs zfs cfg (render_toks (f_parse fd) ad ++ "T" ++ render_toks (f_parse ft) at_ ++ zo_text zo az) =
  match process_zone cfg (zo_bind zo az) with
  | POk z => POk (mkInfo (bindings (f_parse fd) ad) (bindings (f_parse ft) at_) z
                         (f_expr fd ++ "T" ++ f_expr ft ++ zo_expr zo))
  | PErr x => PErr x
  end.
Proof.
  intros cfg fd ft zo ad at_ az OK Wd Wt Wz. unfold triple_ok, date_ok, time_ok, zpart_ok, trunc_types in OK.
  destruct (hit (date_search dfs cfg ["reduced"]) fd) as [gd|] eqn:Hd.
  2:{ rewrite andb_false_r in OK. discriminate. }
  repeat match goal with X : _ && _ = true |- _ => apply andb_true_iff in X; destruct X end.
  match goal with X : found (date_search _ _ _) fd = true |- _ =>
    destruct (found_hit _ _ X) as [gd' [Hd' [Ed [Td _]]]] end.
  rewrite Hd in Hd'. inversion Hd'; subst gd'. clear Hd'.
  match goal with X : found (time_search _ _ _ _) ft = true |- _ =>
    destruct (found_hit _ _ X) as [gt [Ht [Et _]]] end.
  set (bf := bad_formats_of (f_format gd) (f_type gd)) in *.
  assert (N : String.eqb (render_toks (f_parse fd) ad) "" && c_trunc cfg = false).
  { match goal with X : negb (c_trunc cfg) || _ = true |- _ => apply orb_true_iff in X; destruct X as [NT|NL] end.
    - apply negb_true_iff in NT. rewrite NT. apply andb_false_r.
    - rewrite nonempty_lead_render by assumption. reflexivity. }
  pose proof (date_part_hit dfs cfg fd gd ad Hd ltac:(assumption) Wd N) as DP.
  assert (BT : bad_types_of (bindings (f_parse fd) ad) = if binds "truncated" (f_parse fd) then [] else ["truncated"]).
  { unfold bad_types_of. rewrite has_key_bindings. reflexivity. }
  set (bt := if binds "truncated" (f_parse fd) then [] else ["truncated"]) in *.
  destruct (first_match_hit _ _ _ at_ Ht ltac:(assumption) Wt) as [TM _].
  rewrite <- get_time_info_search in TM.
  set (d := render_toks (f_parse fd) ad) in *. set (t := render_toks (f_parse ft) at_) in *.
  assert (CdT : contains_char "T" d = false) by (apply render_no_char; assumption).
  assert (CtT : contains_char "T" t = false) by (apply render_no_char; assumption).
  assert (CtZ : contains_char "Z" t = false) by (apply render_no_char; assumption).
  assert (CtP : contains_char "+" t = false) by (apply render_no_char; assumption).
  change ("T" ++ t ++ zo_text zo az) with (String "T" (t ++ zo_text zo az)).
  rewrite <- Ed, <- Et.
  destruct zo as [fz|].
  - (* a zone form *)
    cbn [zo_text zo_bind zo_expr zo_wf] in *.
    match goal with X : zone_ok _ _ _ = true |- _ => unfold zone_ok in X end.
    repeat match goal with X : _ && _ = true |- _ => apply andb_true_iff in X; destruct X end.
    match goal with X : found (zone_search _ _ _) fz = true |- _ =>
      destruct (found_hit _ _ X) as [gz [Hz [Ez _]]] end.
    destruct (first_match_hit _ _ _ az Hz ltac:(assumption) Wz) as [ZM _].
    rewrite <- get_zone_info_search in ZM. rewrite <- Ez.
    destruct (f_parse fz) as [|tk zr] eqn:FP.
    + (* empty regex: lit_text = "" <> "Z" *) simpl in *. discriminate.
    + destruct tk as [l|nm n|nm|nm|nm l|nm];
        try (match goal with X : match lit_text _ with _ => _ end = true |- _ => cbn [lit_text] in X; discriminate X end).
      * (* literal *)
        match goal with X : match lit_text ?ts with _ => _ end = true |- _ =>
          destruct (lit_text ts) as [s|] eqn:LT; [|discriminate X]; apply String.eqb_eq in X; subst s end.
        rewrite (lit_text_render _ _ az LT) in *.
        erewrite get_info_parts; [| assumption | | exact DP | rewrite BT; apply split_tz_Z ].
        2:{ rewrite contains_char_app, CtT. reflexivity. }
        rewrite BT. erewrite finish_some by eassumption. reflexivity.
      * (* signed *)
        repeat match goal with X : _ && _ = true |- _ => apply andb_true_iff in X; destruct X end.
        cbn [render_toks wf_assign] in *. apply andb_true_iff in Wz. destruct Wz as [Ws Wr].
        set (z := render_toks zr az) in *.
        assert (CzT : contains_char "T" z = false) by (apply render_no_char; assumption).
        assert (CzZ : contains_char "Z" z = false) by (apply render_no_char; assumption).
        assert (CzP : contains_char "+" z = false) by (apply render_no_char; assumption).
        assert (CzM : contains_char "-" z = false) by (apply render_no_char; assumption).
        apply is_sign_inv in Ws. destruct Ws as [Es|Es]; rewrite Es in *;
          change ("+" ++ z) with (String "+" z) in *; change ("-" ++ z) with (String "-" z) in *.
        -- erewrite get_info_parts; [| assumption | | exact DP | rewrite BT; apply split_tz_plus; assumption ].
           2:{ rewrite contains_char_app, CtT. simpl. assumption. }
           rewrite BT. erewrite finish_some by eassumption. reflexivity.
        -- erewrite get_info_parts; [| assumption | | exact DP | rewrite BT; eapply split_tz_minus; eassumption ].
           2:{ rewrite contains_char_app, CtT. simpl. assumption. }
           rewrite BT. erewrite finish_some by eassumption. reflexivity.
      * (* group literal *)
        match goal with X : match lit_text ?ts with _ => _ end = true |- _ =>
          destruct (lit_text ts) as [s|] eqn:LT; [|discriminate X]; apply String.eqb_eq in X; subst s end.
        rewrite (lit_text_render _ _ az LT) in *.
        erewrite get_info_parts; [| assumption | | exact DP | rewrite BT; apply split_tz_Z ].
        2:{ rewrite contains_char_app, CtT. reflexivity. }
        rewrite BT. erewrite finish_some by eassumption. reflexivity.
  - (* no zone *)
    cbn [zo_text zo_bind zo_expr] in *. rewrite sapp_nil_r.
    assert (CtM : contains_char "-" t = false) by (apply render_no_char; assumption).
    erewrite get_info_parts; [| assumption | assumption | exact DP | rewrite BT; apply split_tz_none; assumption ].
    rewrite BT. erewrite finish_none by eassumption. reflexivity.
Qed.
End Info3.


(* --- a date alone --- *)
Theorem get_info_date_only : forall dfs tfs zfs cfg fd ad,
  simple (f_parse fd) = true -> no_char "T" (f_parse fd) = true ->
  found (date_search dfs cfg []) fd = true -> wf_assign (f_parse fd) ad = true ->
  get_info dfs tfs zfs cfg (render_toks (f_parse fd) ad) =
  match process_zone cfg [] with
  | POk z => POk (mkInfo (bindings (f_parse fd) ad) [] z (f_expr fd))
  | PErr x => PErr x end.
Proof.
  intros dfs tfs zfs cfg fd ad S N F W. rewrite get_info_unfold.
  unfold split_str. rewrite split_on_nochar by (apply render_no_char; assumption). cbn [append].
  destruct (found_hit _ _ F) as [g [H [E _]]].
  destruct (first_match_hit _ _ _ ad H S W) as [M _]. rewrite get_date_info_search, M, E. reflexivity.
Qed.

(* --- reflection: every combination the tables offer satisfies triple_ok --- *)
Definition all_cfgs : list pcfg :=
  flat_map (fun ned => flat_map (fun tr => map (fun ba => cfg_of ned tr ba) bools) bools) [0; 2; 3]%Z.
(* zone choices offered after a time form: none (only when the time text has no
   "-", i.e. is not truncated) or any zone form of the allowed formats *)
Definition zone_choices (cfg : pcfg) (bf : list string) (ft : form) : list (option form) :=
  ((if String.eqb (f_type ft) "truncated" then [] else [None]) ++ map Some (zone_search ZONE_FORMS cfg bf))%list.
Definition bf_choices : list (list string) := [[]; ["extended"]; ["basic"]].
Definition bt_choices : list (list string) := [[]; ["truncated"]].
Definition table_triples_ok (cfg : pcfg) : bool :=
  let dfs := date_forms_of (c_ned cfg) in
  let DL := date_search dfs cfg ["reduced"] in
  forallb (fun fd => date_ok dfs cfg fd && match hit DL fd with None => false | Some _ => true end) DL &&
  forallb (fun bf => forallb (fun bt =>
    forallb (fun ft => time_ok TIME_FORMS cfg bf bt ft &&
                       forallb (fun zo => zpart_ok ZONE_FORMS cfg bf ft zo) (zone_choices cfg bf ft))
            (time_search TIME_FORMS cfg bf bt)) bt_choices) bf_choices.
Theorem tables_triples : forallb table_triples_ok all_cfgs = true.
Proof. vm_compute. reflexivity. Qed.

Lemma bad_formats_of_choice : forall fk tk, In (bad_formats_of fk tk) bf_choices.
Proof. intros. unfold bad_formats_of, bf_choices.
  destruct (String.eqb tk "truncated"); [simpl; auto|].
  destruct (String.eqb fk "basic"); [simpl; auto|]. destruct (String.eqb fk "extended"); simpl; auto. Qed.
Lemma trunc_types_choice : forall fd, In (trunc_types fd) bt_choices.
Proof. intros. unfold trunc_types, bt_choices. destruct (binds "truncated" (f_parse fd)); simpl; auto. Qed.

Theorem triple_ok_tables : forall (cfg : pcfg) (fd ft : form) (zo : option form),
  In cfg all_cfgs ->
  let dfs := date_forms_of (c_ned cfg) in
  In fd (date_search dfs cfg ["reduced"]) ->
  exists gd, hit (date_search dfs cfg ["reduced"]) fd = Some gd /\
  let bf := bad_formats_of (f_format gd) (f_type gd) in
  (In ft (time_search TIME_FORMS cfg bf (trunc_types fd)) ->
   In zo (zone_choices cfg bf ft) ->
   triple_ok dfs TIME_FORMS ZONE_FORMS cfg fd ft zo = true).
Proof.
  intros cfg fd ft zo IC dfs ID.
  pose proof tables_triples as T. rewrite forallb_forall in T. specialize (T cfg IC).
  unfold table_triples_ok in T. fold dfs in T. apply andb_true_iff in T. destruct T as [TD TT].
  rewrite forallb_forall in TD. specialize (TD fd ID).
  apply andb_true_iff in TD. destruct TD as [T1 T2].
  destruct (hit (date_search dfs cfg ["reduced"]) fd) as [gd|] eqn:H; [|discriminate].
  exists gd. split; [reflexivity|]. intros bf IT IZ.
  rewrite forallb_forall in TT. specialize (TT bf (bad_formats_of_choice _ _)).
  rewrite forallb_forall in TT. specialize (TT _ (trunc_types_choice fd)).
  rewrite forallb_forall in TT. specialize (TT ft IT). apply andb_true_iff in TT. destruct TT as [T3 T4].
  rewrite forallb_forall in T4. specialize (T4 zo IZ).
  unfold triple_ok. fold dfs. rewrite T1, H. fold bf. rewrite T3, T4. reflexivity.
Qed.

(* --- the whole parser on a rendered text: the constructor is applied to the bindings --- *)
Lemma triple_ok_ascii : forall dfs tfs zfs cfg fd ft zo, triple_ok dfs tfs zfs cfg fd ft zo = true ->
  ascii_toks (f_parse fd) = true /\ ascii_toks (f_parse ft) = true /\
  match zo with Some fz => ascii_toks (f_parse fz) = true | None => True end.
Proof.
  intros dfs tfs zfs cfg fd ft zo OK. unfold triple_ok, date_ok, time_ok, zpart_ok in OK.
  destruct (hit (date_search dfs cfg ["reduced"]) fd); [|rewrite andb_false_r in OK; discriminate].
  repeat match goal with X : _ && _ = true |- _ => apply andb_true_iff in X; destruct X end.
  split; [assumption|]. split; [assumption|]. destruct zo as [fz|]; [|exact I].
  match goal with X : zone_ok _ _ _ _ = true |- _ => unfold zone_ok in X end.
  repeat match goal with X : _ && _ = true |- _ => apply andb_true_iff in X; destruct X end. assumption.
Qed.

Theorem parse_text_render : forall md cfg fd ft zo ad at_ az asp,
  triple_ok (date_forms_of (c_ned cfg)) TIME_FORMS ZONE_FORMS cfg fd ft zo = true ->
  wf_assign (f_parse fd) ad = true -> wf_assign (f_parse ft) at_ = true -> zo_wf zo az = true ->
  parse_text md cfg (render_toks (f_parse fd) ad ++ "T" ++ render_toks (f_parse ft) at_ ++ zo_text zo az) asp =
  match process_zone cfg (zo_bind zo az) with
  | POk z => let e := f_expr fd ++ "T" ++ f_expr ft ++ zo_expr zo in
             create_timepoint md cfg (mkInfo (bindings (f_parse fd) ad) (bindings (f_parse ft) at_) z e)
                              (if asp then e else "") false
  | PErr x => PErr x
  end.
Proof.
  intros md cfg fd ft zo ad at_ az asp OK Wd Wt Wz. unfold parse_text.
  destruct (triple_ok_ascii _ _ _ _ _ _ _ OK) as [A1 [A2 A3]].
  assert (A : is_ascii_str (render_toks (f_parse fd) ad ++ "T" ++ render_toks (f_parse ft) at_ ++ zo_text zo az) = true).
  { rewrite !is_ascii_app. rewrite !render_ascii by assumption.
    destruct zo as [fz|]; cbn [zo_text]; [rewrite render_ascii by assumption|]; reflexivity. }
  rewrite A. cbn [negb]. rewrite (get_info_render _ _ _ _ _ _ _ _ _ _ OK Wd Wt Wz).
  destruct (process_zone cfg (zo_bind zo az)); reflexivity.
Qed.

(* --- numeric values of digit strings --- *)
Definition dnum (s : string) : Z := match read_Z s with Some z => z | None => 0%Z end.
Lemma is_digit_char : forall c d, is_digit c = true -> exists d', DecimalString.uint_of_char c (Some d) = Some d'.
Proof.
  intros c d H. destruct c as [b0 b1 b2 b3 b4 b5 b6 b7].
  destruct b0, b1, b2, b3, b4, b5, b6, b7; cbv in H; try discriminate H; eexists; reflexivity.
Qed.
Lemma uint_digits : forall s, all_digits s = true -> exists u, DecimalString.NilEmpty.uint_of_string s = Some u.
Proof.
  induction s as [|c s IH]; intros H; [eexists; reflexivity|].
  simpl in H. apply andb_true_iff in H. destruct H as [H1 H2]. destruct (IH H2) as [u E].
  cbn [DecimalString.NilEmpty.uint_of_string]. rewrite E. apply is_digit_char. assumption.
Qed.
Lemma read_Z_digits : forall s, digits_plus s = true -> read_Z s = Some (dnum s).
Proof.
  intros s H. unfold dnum. destruct (read_Z s) eqn:E; [reflexivity|]. exfalso.
  unfold digits_plus in H. apply andb_true_iff in H. destruct H as [N A].
  destruct s as [|c s]; [discriminate|]. destruct (uint_digits _ A) as [u U].
  unfold read_Z, DecimalString.NilZero.int_of_string in E.
  assert (M : Ascii.eqb c "-" = false).
  { destruct (Ascii.eqb c "-") eqn:X; [|reflexivity]. apply Ascii.eqb_eq in X. subst c.
    simpl in A. discriminate. }
  rewrite M in E. unfold DecimalString.NilZero.uint_of_string in E. rewrite U in E. discriminate.
Qed.


(* ------------------------------------------------------------------ *)
(* 6. from bindings to numbers: create_timepoint on digit strings      *)
(* ------------------------------------------------------------------ *)
Definition DATE_KEYS : list string :=
  ["year_of_decade"; "year_of_century"; "century"; "expanded_year"; "month_of_year"; "day_of_month";
   "day_of_year"; "week_of_year"; "day_of_week"].
Definition TIME_KEYS : list string :=
  ["hour_of_day"; "hour_of_day_decimal"; "minute_of_hour"; "minute_of_hour_decimal";
   "second_of_minute"; "second_of_minute_decimal"].
Definition ZONE_KEYS : list string := ["time_zone_hour"; "time_zone_minute"].

(* every numeric key is bound to a non-empty digit string *)
Definition digit_env (keys : list string) (e : env) : Prop :=
  forall k s, In k keys -> lookup_env k e = Some s -> digits_plus s = true.
Definition num_keys_ok (keys : list string) (ts : list ptok) : bool :=
  forallb (fun t => match t with
                    | PLit _ => true
                    | PDig nm O => negb (mem nm keys)
                    | PDig _ (S _) => true
                    | PDigs _ => true
                    | PSign nm => negb (mem nm keys)
                    | PGrp nm _ => negb (mem nm keys)
                    | PUnix nm => negb (mem nm keys)
                    end) ts.
Lemma In_mem : forall k keys, In k keys -> mem k keys = true.
Proof. unfold mem. intros k keys H. apply existsb_exists. exists k. split; [assumption|apply String.eqb_refl]. Qed.
Lemma bindings_digit_env : forall keys ts a,
  num_keys_ok keys ts = true -> wf_assign ts a = true -> digit_env keys (bindings ts a).
Proof.
  intros keys ts a. induction ts as [|t ts IH]; intros N W k s K L; [discriminate|].
  cbn [num_keys_ok forallb] in N. apply andb_true_iff in N. destruct N as [N1 N2]. fold (num_keys_ok keys ts) in N2.
  destruct t as [l|nm n|nm|nm|nm l|nm]; cbn [bindings wf_assign lookup_env] in *.
  - eapply IH; eassumption.
  - apply andb_true_iff in W. destruct W as [W1 W2].
    destruct (String.eqb k nm) eqn:E; [|eapply IH; eassumption].
    apply String.eqb_eq in E. subst nm. inversion L; subst s. destruct n.
    + rewrite (In_mem _ _ K) in N1. discriminate.
    + apply digits_n_inv in W1. destruct W1 as [W1 W3]. unfold digits_plus. rewrite W3.
      destruct (fld k a); [discriminate|reflexivity].
  - apply andb_true_iff in W. destruct W as [W1 W2].
    destruct (String.eqb k nm) eqn:E; [|eapply IH; eassumption].
    apply String.eqb_eq in E. subst nm. inversion L; subst s. assumption.
  - apply andb_true_iff in W. destruct W as [W1 W2].
    destruct (String.eqb k nm) eqn:E; [|eapply IH; eassumption].
    apply String.eqb_eq in E. subst nm. rewrite (In_mem _ _ K) in N1. discriminate.
  - destruct (String.eqb k nm) eqn:E; [|eapply IH; eassumption].
    apply String.eqb_eq in E. subst nm. rewrite (In_mem _ _ K) in N1. discriminate.
  - destruct (String.eqb k nm) eqn:E; [|eapply IH; eassumption].
    apply String.eqb_eq in E. subst nm. rewrite (In_mem _ _ K) in N1. discriminate.
Qed.

Definition nz (e : env) (k : string) : option Z := option_map dnum (lookup_env k e).
Definition nq (e : env) (k : string) : option Q := option_map (fun s => qz (dnum s)) (lookup_env k e).
(* "0." ++ s as a rational *)
Definition frac_of (s : string) : Q := Qred (Qmake (dnum s) (Pos.pow 10 (Pos.of_nat (String.length s)))).
Definition ndec (e : env) (k : string) : option Q := option_map frac_of (lookup_env k e).
Definition od (o : option Z) : Z := match o with Some v => v | None => 0%Z end.

Lemma oz_num : forall keys e k, digit_env keys e -> In k keys -> oz e k = POk (nz e k).
Proof. intros keys e k D K. unfold oz, nz, digits_to_Z. destruct (lookup_env k e) as [s|] eqn:L; [|reflexivity].
  rewrite read_Z_digits by (eapply D; eassumption). reflexivity. Qed.
Lemma oq_num : forall keys e k, digit_env keys e -> In k keys -> oq e k = POk (nq e k).
Proof. intros keys e k D K. unfold oq, nq, digits_to_Z. destruct (lookup_env k e) as [s|] eqn:L; [|reflexivity].
  rewrite read_Z_digits by (eapply D; eassumption). reflexivity. Qed.
Lemma odec_num : forall keys e k, digit_env keys e -> In k keys -> odec e k = POk (ndec e k).
Proof. intros keys e k D K. unfold odec, ndec, decimal_of, frac_of. destruct (lookup_env k e) as [s|] eqn:L; [|reflexivity].
  rewrite read_Z_digits by (eapply D; eassumption). reflexivity. Qed.

(* the zone arguments the constructor receives *)
Definition zn_of (z : zinfo) : pres (option (Z * option Z)) :=
  match z with
  | ZNone => POk None
  | ZUtc => POk (Some (0, Some 0))%Z
  | ZVal h m => hz <-- zfield h ;;;
                (match m with
                 | None => POk (Some (hz, None))
                 | Some mv => mz <-- zfield mv ;;; POk (Some (hz, Some mz)) end)
  end.

(* _create_timepoint_from_info with every int() replaced by the number the
   digit string denotes: the constructor call the parser makes *)
Definition point_num (md : mode) (cfg : pcfg) (d t : env) (zn : option (Z * option Z))
           (dump_format : string) (is_duration : bool) : pres ptp :=
  let has := fun k => has_key k d in
  let trunc0 := has "truncated" in
  let tprop0 := if trunc0 then (if has "year_of_century" then "year_of_century"
                                else if has "year_of_decade" then "year_of_decade" else "")
                else if negb (has "century") && has "year_of_century" then "year_of_century" else "" in
  let trunc1 := trunc0 || (negb trunc0 && negb (has "century") && has "year_of_century") in
  let year_present := negb trunc1 || has "year_of_decade" || has "century" || has "year_of_century" ||
                      has "expanded_year" || has "year_sign" in
  let yr := if year_present then
              let y := (od (nz d "year_of_decade") + od (nz d "year_of_century") +
                        100 * od (nz d "century") + 10000 * od (nz d "expanded_year"))%Z in
              let neg := match lookup_env "year_sign" d with Some s => String.eqb s "-" | None => false end in
              Some (if neg then (- y)%Z else y)
            else None in
  let tprop := if has "year_of_decade" && year_present then "year_of_decade" else tprop0 in
  let ned := match lookup_env "expanded_year" d with
             | Some s => if String.eqb s "" then 0%Z else c_ned cfg | None => 0%Z end in
  let trunc := trunc1 || has_key "truncated" t in
  construct md yr (nz d "month_of_year") (nz d "day_of_month") (nz d "day_of_year")
            (nz d "week_of_year") (nz d "day_of_week")
            (nq t "hour_of_day") (ndec t "hour_of_day_decimal")
            (nq t "minute_of_hour") (ndec t "minute_of_hour_decimal")
            (nq t "second_of_minute") (ndec t "second_of_minute_decimal")
            zn trunc tprop ned dump_format is_duration.

Ltac in_keys := unfold DATE_KEYS, TIME_KEYS, ZONE_KEYS; simpl; tauto.

Theorem create_timepoint_num : forall md cfg i fmt dur,
  digit_env DATE_KEYS (i_date i) -> digit_env TIME_KEYS (i_time i) ->
  create_timepoint md cfg i fmt dur =
  (zn <-- zn_of (i_zone i) ;;; point_num md cfg (i_date i) (i_time i) zn fmt dur).
Proof.
  intros md cfg i fmt dur DD DT. unfold create_timepoint, point_num.
  set (d := i_date i) in *. set (t := i_time i) in *.
  rewrite (oz_num _ _ "year_of_decade" DD) by in_keys.
  rewrite (oz_num _ _ "year_of_century" DD) by in_keys.
  rewrite (oz_num _ _ "century" DD) by in_keys.
  rewrite (oz_num _ _ "month_of_year" DD) by in_keys.
  rewrite (oz_num _ _ "day_of_month" DD) by in_keys.
  rewrite (oz_num _ _ "day_of_year" DD) by in_keys.
  rewrite (oz_num _ _ "week_of_year" DD) by in_keys.
  rewrite (oz_num _ _ "day_of_week" DD) by in_keys.
  rewrite (oq_num _ _ "hour_of_day" DT) by in_keys.
  rewrite (oq_num _ _ "minute_of_hour" DT) by in_keys.
  rewrite (oq_num _ _ "second_of_minute" DT) by in_keys.
  rewrite (odec_num _ _ "hour_of_day_decimal" DT) by in_keys.
  rewrite (odec_num _ _ "minute_of_hour_decimal" DT) by in_keys.
  rewrite (odec_num _ _ "second_of_minute_decimal" DT) by in_keys.
  assert (EX : match lookup_env "expanded_year" d with
               | Some s => match digits_to_Z s with Some z => POk z | None => PErr EValue end
               | None => POk 0%Z end = POk (od (nz d "expanded_year"))).
  { unfold nz, digits_to_Z. destruct (lookup_env "expanded_year" d) as [s|] eqn:L; [|reflexivity].
    rewrite read_Z_digits by (eapply DD; [|eassumption]; in_keys). reflexivity. }
  rewrite EX. cbn [pbind].
  match goal with |- context [if ?yp then _ else POk None] => destruct yp end; cbn [pbind];
    unfold zn_of; destruct (i_zone i) as [| |h m]; cbn [pbind]; try reflexivity;
    destruct (zfield h); cbn [pbind]; try reflexivity;
    destruct m as [mv|]; cbn [pbind]; try reflexivity; destruct (zfield mv); reflexivity.
Qed.

(* process_time_zone_info followed by the constructor's zone arguments, numerically *)
Definition zone_num (cfg : pcfg) (ze : env) : pres (option (Z * option Z)) :=
  match ze with
  | [] =>
    match c_assumed cfg with
    | None => if c_unknown cfg then POk None else POk (Some (fst (c_local cfg), Some (snd (c_local cfg))))
    | Some (h, m) => POk (Some (h, Some m))
    end
  | _ =>
    if has_key "time_zone_utc" ze then POk (Some (0, Some 0))%Z
    else match nz ze "time_zone_hour" with
         | None => PErr EValue
         | Some h =>
           let neg := match lookup_env "time_zone_sign" ze with Some s => String.eqb s "-" | None => false end in
           let sg := fun v : Z => if neg then (- v)%Z else v in
           POk (Some (sg h, option_map sg (nz ze "time_zone_minute")))
         end
  end.
Lemma zone_num_ok : forall cfg ze, digit_env ZONE_KEYS ze ->
  (z <-- process_zone cfg ze ;;; zn_of z) = zone_num cfg ze.
Proof.
  intros cfg ze D. unfold process_zone, zone_num. destruct ze as [|b ze'].
  - destruct (c_assumed cfg) as [[h m]|]; [reflexivity|]. destruct (c_unknown cfg); reflexivity.
  - set (ze := b :: ze') in *. destruct (has_key "time_zone_utc" ze); [reflexivity|].
    unfold nz. destruct (lookup_env "time_zone_hour" ze) as [h|] eqn:LH; [|reflexivity].
    assert (RH : read_Z h = Some (dnum h)) by (apply read_Z_digits; eapply D; [|eassumption]; in_keys).
    destruct (lookup_env "time_zone_minute" ze) as [m|] eqn:LM.
    + assert (RM : read_Z m = Some (dnum m)) by (apply read_Z_digits; eapply D; [|eassumption]; in_keys).
      destruct (match lookup_env "time_zone_sign" ze with Some s => String.eqb s "-" | None => false end);
        cbn [neg_field option_map pbind zn_of zfield]; unfold digits_to_Z; rewrite ?RH, ?RM; reflexivity.
    + destruct (match lookup_env "time_zone_sign" ze with Some s => String.eqb s "-" | None => false end);
        cbn [neg_field option_map pbind zn_of zfield]; unfold digits_to_Z; rewrite ?RH; reflexivity.
Qed.

(* the keys the constructor reads are bound to non-empty digit strings by
   every form (the sign-prefixed forms of the 0-expanded-digit table bind
   "expanded_year" to the empty string and are excluded: see C07 notes) *)
Theorem tables_num_keys :
  forallb (fun f => num_keys_ok DATE_KEYS (f_parse f)) (DATE_FORMS_2 ++ DATE_FORMS_3)%list = true /\
  forallb (fun f => num_keys_ok DATE_KEYS (f_parse f) || binds "expanded_year" (f_parse f)) DATE_FORMS_0 = true /\
  forallb (fun f => num_keys_ok TIME_KEYS (f_parse f)) TIME_FORMS = true /\
  forallb (fun f => num_keys_ok ZONE_KEYS (f_parse f)) ZONE_FORMS = true.
Proof. vm_compute. repeat split; reflexivity. Qed.

Definition zo_keys_ok (zo : option form) : bool :=
  match zo with Some fz => num_keys_ok ZONE_KEYS (f_parse fz) | None => true end.

(* END TO END (generic): the parser, on the text of any allowed combination
   of forms, calls the TimePoint constructor with the numbers the digit
   groups denote *)
Theorem parse_text_num : forall md cfg fd ft zo ad at_ az asp,
  triple_ok (date_forms_of (c_ned cfg)) TIME_FORMS ZONE_FORMS cfg fd ft zo = true ->
  num_keys_ok DATE_KEYS (f_parse fd) = true -> num_keys_ok TIME_KEYS (f_parse ft) = true -> zo_keys_ok zo = true ->
  wf_assign (f_parse fd) ad = true -> wf_assign (f_parse ft) at_ = true -> zo_wf zo az = true ->
  parse_text md cfg (render_toks (f_parse fd) ad ++ "T" ++ render_toks (f_parse ft) at_ ++ zo_text zo az) asp =
  (zn <-- zone_num cfg (zo_bind zo az) ;;;
   point_num md cfg (bindings (f_parse fd) ad) (bindings (f_parse ft) at_) zn
             (if asp then f_expr fd ++ "T" ++ f_expr ft ++ zo_expr zo else "") false).
Proof.
  intros md cfg fd ft zo ad at_ az asp OK Kd Kt Kz Wd Wt Wz.
  rewrite (parse_text_render _ _ _ _ _ _ _ _ _ OK Wd Wt Wz).
  rewrite <- zone_num_ok.
  2:{ destruct zo as [fz|]; cbn [zo_bind zo_keys_ok zo_wf] in *; [apply bindings_digit_env; assumption|].
      intros k s _ L. discriminate. }
  destruct (process_zone cfg (zo_bind zo az)) as [z|x]; [|reflexivity]. cbn [pbind].
  cbv zeta. rewrite create_timepoint_num; [reflexivity| |]; cbn [i_date i_time]; apply bindings_digit_env; assumption.
Qed.

Definition F_CAL_EXT : form :=
  mkForm "extended" "complete" "CCYY-MM-DD" [PDig "century" 2; PDig "year_of_century" 2; PLit "-"; PDig "month_of_year" 2; PLit "-"; PDig "day_of_month" 2] [DNum "century" 2; DNum "year_of_century" 2; DLit "-"; DNum "month_of_year" 2; DLit "-"; DNum "day_of_month" 2] ["century"; "year_of_century"; "month_of_year"; "day_of_month"].
Definition F_HMS_EXT : form :=
  mkForm "extended" "complete" "hh:mm:ss" [PDig "hour_of_day" 2; PLit ":"; PDig "minute_of_hour" 2; PLit ":"; PDig "second_of_minute" 2] [DNum "hour_of_day" 2; DLit ":"; DNum "minute_of_hour" 2; DLit ":"; DNum "second_of_minute" 2] ["minute_of_hour"; "hour_of_day"; "second_of_minute"].
Definition F_Z_EXT : form := mkForm "extended" "" "Z" [PGrp "time_zone_utc" "Z"] [DLit "Z"] [].

(* END TO END (flagship instance, explicit text and fields): the extended
   complete calendar date, "T", hh:mm:ss, "Z" *)
Theorem decode_ext_calendar_hms_utc : forall md cc yy mo dd hh mi ss,
  digits_n 2 cc = true -> digits_n 2 yy = true -> digits_n 2 mo = true -> digits_n 2 dd = true ->
  digits_n 2 hh = true -> digits_n 2 mi = true -> digits_n 2 ss = true ->
  parse_text md (default_cfg 2) ((cc ++ yy ++ "-" ++ mo ++ "-" ++ dd) ++ "T" ++ (hh ++ ":" ++ mi ++ ":" ++ ss) ++ "Z") true =
  let p := mkPtp (Some (dnum yy + 100 * dnum cc)%Z) (Some (dnum mo)) (Some (dnum dd)) None None None
                 (Some (qz (dnum hh))) (Some (qz (dnum mi))) (Some (qz (dnum ss))) (Some (mkZone 0 0))
                 false "" 0 "CCYY-MM-DDThh:mm:ssZ" in
  if check_bounds md p then POk p else PErr EBadInput.
Proof.
  intros md cc yy mo dd hh mi ss Hcc Hyy Hmo Hdd Hhh Hmi Hss.
  pose (ad := [("century", cc); ("year_of_century", yy); ("month_of_year", mo); ("day_of_month", dd)]).
  pose (at_ := [("hour_of_day", hh); ("minute_of_hour", mi); ("second_of_minute", ss)]).
  assert (OK : triple_ok (date_forms_of (c_ned (default_cfg 2))) TIME_FORMS ZONE_FORMS (default_cfg 2) F_CAL_EXT F_HMS_EXT (Some F_Z_EXT) = true)
    by (vm_compute; reflexivity).
  assert (Wd : wf_assign (f_parse F_CAL_EXT) ad = true).
  { cbn [wf_assign F_CAL_EXT f_parse ad fld lookup_env String.eqb Ascii.eqb Bool.eqb]. rewrite Hcc, Hyy, Hmo, Hdd. reflexivity. }
  assert (Wt : wf_assign (f_parse F_HMS_EXT) at_ = true).
  { cbn [wf_assign F_HMS_EXT f_parse at_ fld lookup_env String.eqb Ascii.eqb Bool.eqb]. rewrite Hhh, Hmi, Hss. reflexivity. }
  pose proof (parse_text_num md (default_cfg 2) F_CAL_EXT F_HMS_EXT (Some F_Z_EXT) ad at_ [] true OK
     ltac:(vm_compute; reflexivity) ltac:(vm_compute; reflexivity) ltac:(vm_compute; reflexivity) Wd Wt ltac:(reflexivity)) as P.
  cbn [render_toks F_CAL_EXT F_HMS_EXT F_Z_EXT f_parse f_expr ad at_ fld lookup_env String.eqb Ascii.eqb Bool.eqb
       zo_text zo_bind zo_expr bindings] in P.
  rewrite !sapp_nil_r in P. rewrite P. clear P.
  change (zone_num (default_cfg 2) [("time_zone_utc", "Z")]) with (@POk (option (Z * option Z)) (Some (0, Some 0))%Z).
  cbn [pbind]. unfold point_num.
  cbn [has_key lookup_env String.eqb Ascii.eqb Bool.eqb nz nq ndec option_map od negb orb andb append default_cfg c_ned].
  replace (0 + dnum yy + 100 * dnum cc + 10000 * 0)%Z with (dnum yy + 100 * dnum cc)%Z by lia.
  unfold construct. cbn [pbind negb andb orb truthy Z.leb Z.ltb Z.compare Pos.compare Pos.compare_cont Z.opp].
  rewrite !andb_false_r. cbn [negb andb orb].
  reflexivity.
Qed.


(* ------------------------------------------------------------------ *)
(* 7. date forms decoded; basic-only parsers; no basic/extended mixing *)
(* ------------------------------------------------------------------ *)
Theorem get_date_info_render : forall dfs cfg f a bad,
  reach (date_search dfs cfg bad) f = true -> simple (f_parse f) = true -> wf_assign (f_parse f) a = true ->
  get_date_info dfs cfg (render_toks (f_parse f) a) bad = Some (f, bindings (f_parse f) a).
Proof. intros. rewrite get_date_info_search. apply first_match_reach; assumption. Qed.

Theorem complete_dates_reach :
  forallb (fun bad => forallb (fun f => negb (String.eqb (f_type f) "complete") ||
                                        (simple (f_parse f) && reach (date_search DATE_FORMS_2 (default_cfg 2) bad) f))
                              DATE_FORMS_2) [[]; ["reduced"]] = true.
Proof. vm_compute. reflexivity. Qed.

Theorem decode_date_complete : forall f a bad,
  In f DATE_FORMS_2 -> f_type f = "complete" -> In bad [[]; ["reduced"]] ->
  wf_assign (f_parse f) a = true ->
  get_date_info DATE_FORMS_2 (default_cfg 2) (render_toks (f_parse f) a) bad = Some (f, bindings (f_parse f) a).
Proof.
  intros f a bad I T B W. pose proof complete_dates_reach as R.
  rewrite forallb_forall in R. specialize (R bad B). rewrite forallb_forall in R. specialize (R f I).
  rewrite T in R. cbn [String.eqb Ascii.eqb Bool.eqb negb orb] in R.
  apply andb_true_iff in R. destruct R as [S R]. apply get_date_info_render; assumption.
Qed.

(* --- a basic-only parser searches basic forms only --- *)
Lemma date_search_In : forall dfs cfg bad f, In f (date_search dfs cfg bad) ->
  In f dfs /\ In (f_format f) (formats_of cfg).
Proof.
  intros dfs cfg bad f H. unfold date_search in H. apply in_flat_map in H. destruct H as [fk [K H]].
  apply in_flat_map in H. destruct H as [tk [_ H]]. apply filter_In in H. destruct H as [I E].
  apply andb_true_iff in E. destruct E as [E _]. apply String.eqb_eq in E. rewrite E. auto.
Qed.
Lemma time_search_In : forall tfs cfg bf bt f, In f (time_search tfs cfg bf bt) ->
  In f tfs /\ In (f_format f) (formats_of cfg) /\ mem (f_format f) bf = false.
Proof.
  intros tfs cfg bf bt f H. unfold time_search in H. apply in_flat_map in H. destruct H as [fk [K H]].
  destruct (mem fk bf) eqn:M; [destruct H|].
  apply in_flat_map in H. destruct H as [tk [_ H]]. destruct (mem tk bt); [destruct H|].
  apply filter_In in H. destruct H as [I E].
  apply andb_true_iff in E. destruct E as [E _]. apply String.eqb_eq in E. rewrite E. auto.
Qed.
Lemma zone_search_In : forall zfs cfg bf f, In f (zone_search zfs cfg bf) ->
  In f zfs /\ In (f_format f) (formats_of cfg) /\ mem (f_format f) bf = false.
Proof.
  intros zfs cfg bf f H. unfold zone_search in H. apply in_flat_map in H. destruct H as [fk [K H]].
  destruct (mem fk bf) eqn:M; [destruct H|].
  apply filter_In in H. destruct H as [I E]. apply String.eqb_eq in E. rewrite E. auto.
Qed.
Lemma formats_of_basic : forall cfg k, c_basic cfg = true -> In k (formats_of cfg) -> k = "basic".
Proof. unfold formats_of. intros cfg k B H. rewrite B in H. destruct H as [H|[]]. auto. Qed.

Theorem basic_only_searches : forall dfs tfs zfs cfg, c_basic cfg = true ->
  (forall bad f, In f (date_search dfs cfg bad) -> f_format f = "basic") /\
  (forall bf bt f, In f (time_search tfs cfg bf bt) -> f_format f = "basic") /\
  (forall bf f, In f (zone_search zfs cfg bf) -> f_format f = "basic").
Proof.
  intros dfs tfs zfs cfg B. repeat split; intros.
  - apply date_search_In in H. apply (formats_of_basic cfg); tauto.
  - apply time_search_In in H. apply (formats_of_basic cfg); tauto.
  - apply zone_search_In in H. apply (formats_of_basic cfg); tauto.
Qed.

(* fe is extended-only in table L: no basic form of L can match its texts *)
Definition ext_only (L : list form) (fe : form) : bool :=
  forallb (fun g => negb (String.eqb (f_format g) "basic") || shape_disjoint (f_parse g) (f_parse fe)) L.

Lemma ext_only_none : forall L S fe a,
  ext_only L fe = true -> (forall g, In g S -> In g L /\ f_format g = "basic") ->
  simple (f_parse fe) = true -> wf_assign (f_parse fe) a = true ->
  first_match S (render_toks (f_parse fe) a) = None.
Proof.
  intros L S fe a E Sub Si W. apply first_match_none; try assumption.
  apply forallb_forall. intros g I. destruct (Sub g I) as [IL B].
  unfold ext_only in E. rewrite forallb_forall in E. specialize (E g IL). rewrite B in E. exact E.
Qed.

Theorem basic_only_refuses : forall dfs tfs zfs cfg fe a,
  c_basic cfg = true -> simple (f_parse fe) = true -> wf_assign (f_parse fe) a = true ->
  (ext_only dfs fe = true -> forall bad, get_date_info dfs cfg (render_toks (f_parse fe) a) bad = None) /\
  (ext_only tfs fe = true -> forall bf bt, get_time_info tfs cfg (render_toks (f_parse fe) a) bf bt = None) /\
  (ext_only zfs fe = true -> forall bf, get_zone_info zfs cfg (render_toks (f_parse fe) a) bf = None).
Proof.
  intros dfs tfs zfs cfg fe a B S W. destruct (basic_only_searches dfs tfs zfs cfg B) as [PD [PT PZ]].
  repeat split; intros E; intros.
  - rewrite get_date_info_search. apply (ext_only_none dfs); try assumption.
    intros g I. split; [apply (date_search_In _ _ _ _ I)|eapply PD; eassumption].
  - rewrite get_time_info_search. apply (ext_only_none tfs); try assumption.
    intros g I. split; [apply (time_search_In _ _ _ _ _ I)|eapply PT; eassumption].
  - rewrite get_zone_info_search. apply (ext_only_none zfs); try assumption.
    intros g I. split; [apply (zone_search_In _ _ _ _ I)|eapply PZ; eassumption].
Qed.

(* the whole parser refuses a text whose date part is an extended-only date *)
Theorem basic_only_refuses_text : forall dfs tfs zfs cfg fe a rest,
  c_basic cfg = true -> simple (f_parse fe) = true -> wf_assign (f_parse fe) a = true ->
  ext_only dfs fe = true -> no_char "T" (f_parse fe) = true -> nonempty_lead (f_parse fe) = true ->
  contains_char "T" rest = false ->
  get_info dfs tfs zfs cfg (render_toks (f_parse fe) a) = PErr ESyntax /\
  get_info dfs tfs zfs cfg (render_toks (f_parse fe) a ++ String "T" rest) = PErr ESyntax.
Proof.
  intros dfs tfs zfs cfg fe a rest B S W E N NE R.
  destruct (basic_only_refuses dfs tfs zfs cfg fe a B S W) as [RD _]. specialize (RD E).
  assert (C : contains_char "T" (render_toks (f_parse fe) a) = false) by (apply render_no_char; assumption).
  split; rewrite get_info_unfold.
  - unfold split_str. rewrite split_on_nochar by assumption. cbn [append]. rewrite RD. reflexivity.
  - rewrite split_two by assumption. unfold date_part.
    rewrite nonempty_lead_render by assumption. cbn [andb]. rewrite RD. reflexivity.
Qed.

(* reflection: in every table, each extended form is extended-only except the
   listed ones, whose regex also stands in the basic table *)
Definition EXT_TWINS : list string :=
  ["CCYY-MM"; "+XCCYY-MM"; "-DDD"; "hh,ii"; "hh.ii"; "hh"; "-mm"; "--ss"; "-mm,nn"; "--ss,tt"; "-mm.nn"; "--ss.tt"; "Z"; "+hh"].
Theorem tables_ext_only :
  forallb (fun L => forallb (fun f => negb (String.eqb (f_format f) "extended") || ext_only L f || mem (f_expr f) EXT_TWINS) L)
          [DATE_FORMS_0; DATE_FORMS_2; DATE_FORMS_3; TIME_FORMS; ZONE_FORMS] = true.
Proof. vm_compute. reflexivity. Qed.
(* and a basic-only parser reaches every basic form (no exceptions but the
   sign/truncation clash of reachable_dates): reachable_dates, reachable_times,
   reachable_zones with ba = true *)

(* --- basic dates are never combined with extended times --- *)
Lemma formats_of_two : forall cfg k, In k (formats_of cfg) -> k = "basic" \/ k = "extended".
Proof. unfold formats_of. intros cfg k H. destruct (c_basic cfg); simpl in H; intuition. Qed.

Lemma bad_formats_same : forall cfg fk tk k,
  String.eqb tk "truncated" = false -> In fk (formats_of cfg) -> In k (formats_of cfg) ->
  mem k (bad_formats_of fk tk) = false -> k = fk.
Proof.
  intros cfg fk tk k T F K M. unfold bad_formats_of in M. rewrite T in M.
  apply formats_of_two in F. apply formats_of_two in K.
  destruct F as [F|F]; destruct K as [K|K]; subst; try reflexivity; vm_compute in M; discriminate.
Qed.

Theorem no_mix : forall dfs tfs zfs cfg s d tz i,
  split_str "T" s = [d; tz] -> get_info dfs tfs zfs cfg s = POk i ->
  (String.eqb d "" && c_trunc cfg = true) \/
  exists fd de ft zexpr,
    get_date_info dfs cfg d ["reduced"] = Some (fd, de) /\ In ft tfs /\
    i_expr i = f_expr fd ++ "T" ++ f_expr ft ++ zexpr /\ i_date i = de /\
    (String.eqb (f_type fd) "truncated" = false -> f_format ft = f_format fd) /\
    (zexpr = "" \/ exists fz, In fz zfs /\ zexpr = f_expr fz /\
                   (String.eqb (f_type fd) "truncated" = false -> f_format fz = f_format fd)).
Proof.
  intros dfs tfs zfs cfg s d tz i SP G. rewrite get_info_unfold, SP in G. unfold date_part in G.
  destruct (String.eqb d "" && c_trunc cfg) eqn:DT; [left; reflexivity|right].
  destruct (get_date_info dfs cfg d ["reduced"]) as [[fd de]|] eqn:GD; [|discriminate].
  pose proof GD as GD'. rewrite get_date_info_search in GD'. apply first_match_In in GD'.
  apply date_search_In in GD'. destruct GD' as [_ FD].
  destruct (split_tz tfs zfs cfg tz _ _) as [[t zs]|]; [|discriminate].
  unfold finish in G.
  assert (TF : forall tf te, get_time_info tfs cfg t (bad_formats_of (f_format fd) (f_type fd)) (bad_types_of de) = Some (tf, te) ->
               In tf tfs /\ (String.eqb (f_type fd) "truncated" = false -> f_format tf = f_format fd)).
  { intros tf te H. rewrite get_time_info_search in H. apply first_match_In in H. apply time_search_In in H.
    destruct H as [H1 [H2 H3]]. split; [assumption|]. intros T. eapply bad_formats_same; eassumption. }
  destruct zs as [ztext|].
  - destruct (get_zone_info zfs cfg ztext _) as [[zf ze]|] eqn:GZ; [|discriminate].
    destruct (process_zone cfg ze) as [z|]; [|discriminate].
    destruct (get_time_info tfs cfg t _ _) as [[tf te]|] eqn:GT; [|discriminate].
    inversion G; subst i. destruct (TF _ _ eq_refl) as [T1 T2].
    exists fd, de, tf, (f_expr zf). cbn [i_expr i_date]. repeat split; try assumption.
    right. exists zf. rewrite get_zone_info_search in GZ. apply first_match_In in GZ. apply zone_search_In in GZ.
    destruct GZ as [Z1 [Z2 Z3]]. repeat split; try assumption. intros T. eapply bad_formats_same; eassumption.
  - destruct (process_zone cfg []) as [z|]; [|discriminate].
    destruct (get_time_info tfs cfg t _ _) as [[tf te]|] eqn:GT; [|discriminate].
    inversion G; subst i. destruct (TF _ _ eq_refl) as [T1 T2].
    exists fd, de, tf, "". cbn [i_expr i_date]. repeat split; try assumption. left; reflexivity.
Qed.


(* ------------------------------------------------------------------ *)
(* 8. more explicit instances of the generic end-to-end theorem        *)
(* ------------------------------------------------------------------ *)
Definition pick (fk ex : string) (L : list form) : form :=
  match find (fun f => String.eqb (f_format f) fk && String.eqb (f_expr f) ex) L with
  | Some f => f | None => mkForm "" "" "" [] [] [] end.
Definition F_ORDX_BASIC : form := Eval vm_compute in pick "basic" "+XCCYYDDD" DATE_FORMS_2.
Definition F_HM_BASIC : form := Eval vm_compute in pick "basic" "hhmm" TIME_FORMS.
Definition F_WEEK_EXT : form := Eval vm_compute in pick "extended" "CCYY-Www-D" DATE_FORMS_2.
Definition F_HMSD_EXT : form := Eval vm_compute in pick "extended" "hh:mm:ss,tt" TIME_FORMS.
Definition F_ZHM_EXT : form := Eval vm_compute in pick "extended" "+hh:mm" ZONE_FORMS.

Lemma digits_n_nonempty : forall n s, digits_n (S n) s = true -> String.eqb s "" = false.
Proof. intros n s H. apply digits_n_inv in H. destruct s; [destruct H; discriminate|reflexivity]. Qed.

Ltac key_cbn := cbn [wf_assign render_toks bindings f_parse f_expr fld lookup_env has_key String.eqb Ascii.eqb Bool.eqb
                     zo_text zo_bind zo_expr zo_wf nz nq ndec option_map od negb orb andb].
Ltac key_cbn_in H := cbn [wf_assign render_toks bindings f_parse f_expr fld lookup_env has_key String.eqb Ascii.eqb Bool.eqb
                     zo_text zo_bind zo_expr zo_wf nz nq ndec option_map od negb orb andb] in H.

(* signed expanded year, ordinal date, hhmm, no zone: seconds default to 0,
   the zone comes from the configuration (here the default: local = UTC) *)
Theorem decode_basic_ordinal_hm_local : forall md sg xx cc yy ddd hh mi,
  is_sign sg = true -> digits_n 2 xx = true -> digits_n 2 cc = true -> digits_n 2 yy = true ->
  digits_n 3 ddd = true -> digits_n 2 hh = true -> digits_n 2 mi = true ->
  parse_text md (default_cfg 2) ((sg ++ xx ++ cc ++ yy ++ ddd) ++ "T" ++ (hh ++ mi)) true =
  let y := (dnum yy + 100 * dnum cc + 10000 * dnum xx)%Z in
  let p := mkPtp (Some (if String.eqb sg "-" then (- y)%Z else y)) None None (Some (dnum ddd)) None None
                 (Some (qz (dnum hh))) (Some (qz (dnum mi))) (Some 0%Q) (Some (mkZone 0 0))
                 false "" 2 "+XCCYYDDDThhmm" in
  if check_bounds md p then POk p else PErr EBadInput.
Proof.
  intros md sg xx cc yy ddd hh mi Hsg Hxx Hcc Hyy Hddd Hhh Hmi.
  pose (ad := [("year_sign", sg); ("expanded_year", xx); ("century", cc); ("year_of_century", yy); ("day_of_year", ddd)]).
  pose (atm := [("hour_of_day", hh); ("minute_of_hour", mi)]).
  assert (OK : triple_ok (date_forms_of (c_ned (default_cfg 2))) TIME_FORMS ZONE_FORMS (default_cfg 2) F_ORDX_BASIC F_HM_BASIC None = true)
    by (vm_compute; reflexivity).
  assert (Wd : wf_assign (f_parse F_ORDX_BASIC) ad = true).
  { unfold F_ORDX_BASIC, ad. key_cbn. rewrite Hsg, Hxx, Hcc, Hyy, Hddd. reflexivity. }
  assert (Wt : wf_assign (f_parse F_HM_BASIC) atm = true).
  { unfold F_HM_BASIC, atm. key_cbn. rewrite Hhh, Hmi. reflexivity. }
  pose proof (parse_text_num md (default_cfg 2) F_ORDX_BASIC F_HM_BASIC None ad atm [] true OK
     ltac:(vm_compute; reflexivity) ltac:(vm_compute; reflexivity) ltac:(reflexivity) Wd Wt ltac:(reflexivity)) as P.
  unfold F_ORDX_BASIC, F_HM_BASIC, ad, atm in P. key_cbn_in P.
  rewrite !sapp_nil_r in P. rewrite P. clear P. cbn [append].
  change (zone_num (default_cfg 2) []) with (@POk (option (Z * option Z)) (Some (0, Some 0))%Z).
  cbn [pbind]. unfold point_num. key_cbn. rewrite (digits_n_nonempty _ _ Hxx). cbn [default_cfg c_ned].
  replace (0 + dnum yy + 100 * dnum cc + 10000 * dnum xx)%Z with (dnum yy + 100 * dnum cc + 10000 * dnum xx)%Z by lia.
  unfold construct. cbn [pbind negb andb orb truthy Z.leb Z.ltb Z.compare Pos.compare Pos.compare_cont Z.opp].
  reflexivity.
Qed.

(* week date, seconds with a decimal fraction, signed zone in hh:mm: the
   constructor receives the fraction 0.tt and both zone parts with the sign *)
Theorem decode_ext_week_hmsd_zone : forall md cc yy ww d hh mi ss tt sg zh zm,
  digits_n 2 cc = true -> digits_n 2 yy = true -> digits_n 2 ww = true -> digits_n 1 d = true ->
  digits_n 2 hh = true -> digits_n 2 mi = true -> digits_n 2 ss = true -> digits_plus tt = true ->
  is_sign sg = true -> digits_n 2 zh = true -> digits_n 2 zm = true ->
  parse_text md (default_cfg 2)
    ((cc ++ yy ++ "-W" ++ ww ++ "-" ++ d) ++ "T" ++ (hh ++ ":" ++ mi ++ ":" ++ ss ++ "," ++ tt) ++ (sg ++ zh ++ ":" ++ zm)) true =
  let s := fun v : Z => if String.eqb sg "-" then (- v)%Z else v in
  construct md (Some (dnum yy + 100 * dnum cc)%Z) None None None (Some (dnum ww)) (Some (dnum d))
            (Some (qz (dnum hh))) None (Some (qz (dnum mi))) None (Some (qz (dnum ss))) (Some (frac_of tt))
            (Some (s (dnum zh), Some (s (dnum zm)))) false "" 0 "CCYY-Www-DThh:mm:ss,tt+hh:mm" false.
Proof.
  intros md cc yy ww d hh mi ss tt sg zh zm Hcc Hyy Hww Hd Hhh Hmi Hss Htt Hsg Hzh Hzm.
  pose (ad := [("century", cc); ("year_of_century", yy); ("week_of_year", ww); ("day_of_week", d)]).
  pose (atm := [("hour_of_day", hh); ("minute_of_hour", mi); ("second_of_minute", ss); ("second_of_minute_decimal", tt)]).
  pose (az := [("time_zone_sign", sg); ("time_zone_hour", zh); ("time_zone_minute", zm)]).
  assert (OK : triple_ok (date_forms_of (c_ned (default_cfg 2))) TIME_FORMS ZONE_FORMS (default_cfg 2) F_WEEK_EXT F_HMSD_EXT (Some F_ZHM_EXT) = true)
    by (vm_compute; reflexivity).
  assert (Wd : wf_assign (f_parse F_WEEK_EXT) ad = true).
  { unfold F_WEEK_EXT, ad. key_cbn. rewrite Hcc, Hyy, Hww, Hd. reflexivity. }
  assert (Wt : wf_assign (f_parse F_HMSD_EXT) atm = true).
  { unfold F_HMSD_EXT, atm. key_cbn. rewrite Hhh, Hmi, Hss, Htt. reflexivity. }
  assert (Wz : zo_wf (Some F_ZHM_EXT) az = true).
  { unfold F_ZHM_EXT, az. key_cbn. rewrite Hsg, Hzh, Hzm. reflexivity. }
  pose proof (parse_text_num md (default_cfg 2) F_WEEK_EXT F_HMSD_EXT (Some F_ZHM_EXT) ad atm az true OK
     ltac:(vm_compute; reflexivity) ltac:(vm_compute; reflexivity) ltac:(vm_compute; reflexivity) Wd Wt Wz) as P.
  unfold F_WEEK_EXT, F_HMSD_EXT, F_ZHM_EXT, ad, atm, az in P. key_cbn_in P.
  rewrite !sapp_nil_r in P. rewrite P. clear P. cbn [append].
  unfold zone_num, point_num. key_cbn. cbn [pbind].
  replace (0 + dnum yy + 100 * dnum cc + 10000 * 0)%Z with (dnum yy + 100 * dnum cc)%Z by lia.
  reflexivity.
Qed.

(* --- numbers rendered by the dumper's own padding are read back exactly --- *)
From Iso Require Import Model.Dump.
Definition pad_check (w N : nat) : bool :=
  forallb (fun k => let n := Z.of_nat k in digits_n w (pad_num w n) && Z.eqb (dnum (pad_num w n)) n) (seq 0 N).
Lemma pad_num_aux : forall w N n, pad_check w N = true -> (0 <= n < Z.of_nat N)%Z ->
  digits_n w (pad_num w n) = true /\ dnum (pad_num w n) = n.
Proof.
  intros w N n C R. unfold pad_check in C. rewrite forallb_forall in C.
  specialize (C (Z.to_nat n)). rewrite Z2Nat.id in C by lia.
  assert (I : In (Z.to_nat n) (seq 0 N)) by (apply in_seq; lia).
  specialize (C I). cbv zeta in C. apply andb_true_iff in C. destruct C as [C1 C2].
  apply Z.eqb_eq in C2. auto.
Qed.
Theorem pad_num_1 : forall n, (0 <= n < 10)%Z -> digits_n 1 (pad_num 1 n) = true /\ dnum (pad_num 1 n) = n.
Proof. intros. apply (pad_num_aux 1 10); [vm_compute; reflexivity|lia]. Qed.
Theorem pad_num_2 : forall n, (0 <= n < 100)%Z -> digits_n 2 (pad_num 2 n) = true /\ dnum (pad_num 2 n) = n.
Proof. intros. apply (pad_num_aux 2 100); [vm_compute; reflexivity|lia]. Qed.
Theorem pad_num_3 : forall n, (0 <= n < 1000)%Z -> digits_n 3 (pad_num 3 n) = true /\ dnum (pad_num 3 n) = n.
Proof. intros. apply (pad_num_aux 3 1000); [vm_compute; reflexivity|lia]. Qed.

(* the flagship instance on field VALUES: the text is written with two-digit
   zero padding; the parser returns exactly those values (or refuses them when
   they are out of the calendar's bounds) *)
Theorem decode_ext_calendar_hms_utc_values : forall md cen yoc mo d h mi s,
  (0 <= cen < 100)%Z -> (0 <= yoc < 100)%Z -> (0 <= mo < 100)%Z -> (0 <= d < 100)%Z ->
  (0 <= h < 100)%Z -> (0 <= mi < 100)%Z -> (0 <= s < 100)%Z ->
  parse_text md (default_cfg 2)
    ((pad_num 2 cen ++ pad_num 2 yoc ++ "-" ++ pad_num 2 mo ++ "-" ++ pad_num 2 d) ++ "T" ++
     (pad_num 2 h ++ ":" ++ pad_num 2 mi ++ ":" ++ pad_num 2 s) ++ "Z") true =
  let p := mkPtp (Some (yoc + 100 * cen)%Z) (Some mo) (Some d) None None None
                 (Some (qz h)) (Some (qz mi)) (Some (qz s)) (Some (mkZone 0 0))
                 false "" 0 "CCYY-MM-DDThh:mm:ssZ" in
  if check_bounds md p then POk p else PErr EBadInput.
Proof.
  intros md cen yoc mo d h mi s H1 H2 H3 H4 H5 H6 H7.
  destruct (pad_num_2 _ H1) as [D1 N1]. destruct (pad_num_2 _ H2) as [D2 N2]. destruct (pad_num_2 _ H3) as [D3 N3].
  destruct (pad_num_2 _ H4) as [D4 N4]. destruct (pad_num_2 _ H5) as [D5 N5]. destruct (pad_num_2 _ H6) as [D6 N6].
  destruct (pad_num_2 _ H7) as [D7 N7].
  rewrite (decode_ext_calendar_hms_utc md _ _ _ _ _ _ _ D1 D2 D3 D4 D5 D6 D7).
  rewrite N1, N2, N3, N4, N5, N6, N7. reflexivity.
Qed.


(* ------------------------------------------------------------------ *)
(* 9. the generic end-to-end theorem over everything the tables offer  *)
(* ------------------------------------------------------------------ *)
Lemma triple_ok_cfg : forall dfs tfs zfs cfg fd ft zo,
  triple_ok dfs tfs zfs cfg fd ft zo =
  triple_ok dfs tfs zfs (cfg_of (c_ned cfg) (c_trunc cfg) (c_basic cfg)) fd ft zo.
Proof. destruct cfg; reflexivity. Qed.
Lemma cfg_of_in : forall ned tr ba, In ned [0; 2; 3]%Z -> In (cfg_of ned tr ba) all_cfgs.
Proof.
  intros ned tr ba H. unfold all_cfgs. apply in_flat_map. exists ned. split; [assumption|].
  apply in_flat_map. exists tr. split; [destruct tr; simpl; auto|].
  apply in_map. destruct ba; simpl; auto.
Qed.

Theorem decode_tables : forall md cfg fd gd ft zo ad atm az asp,
  In (c_ned cfg) [0; 2; 3]%Z ->
  let dfs := date_forms_of (c_ned cfg) in
  In fd (date_search dfs cfg ["reduced"]) ->
  hit (date_search dfs cfg ["reduced"]) fd = Some gd ->
  let bf := bad_formats_of (f_format gd) (f_type gd) in
  In ft (time_search TIME_FORMS cfg bf (trunc_types fd)) ->
  In zo (zone_choices cfg bf ft) ->
  (c_ned cfg = 0%Z -> binds "expanded_year" (f_parse fd) = false) ->
  wf_assign (f_parse fd) ad = true -> wf_assign (f_parse ft) atm = true -> zo_wf zo az = true ->
  parse_text md cfg (render_toks (f_parse fd) ad ++ "T" ++ render_toks (f_parse ft) atm ++ zo_text zo az) asp =
  (zn <-- zone_num cfg (zo_bind zo az) ;;;
   point_num md cfg (bindings (f_parse fd) ad) (bindings (f_parse ft) atm) zn
             (if asp then f_expr fd ++ "T" ++ f_expr ft ++ zo_expr zo else "") false).
Proof.
  intros md cfg fd gd ft zo ad atm az asp N dfs ID H bf IT IZ EX Wd Wt Wz.
  set (cfg' := cfg_of (c_ned cfg) (c_trunc cfg) (c_basic cfg)).
  assert (IC : In cfg' all_cfgs) by (apply cfg_of_in; assumption).
  assert (OK : triple_ok dfs TIME_FORMS ZONE_FORMS cfg fd ft zo = true).
  { rewrite triple_ok_cfg. fold cfg'.
    destruct (triple_ok_tables cfg' fd ft zo IC) as [gd' [H' T]].
    { unfold cfg'. cbn [c_ned cfg_of]. fold dfs. rewrite <- date_search_cfg. exact ID. }
    unfold cfg' in H'. cbn [c_ned cfg_of] in H'. fold dfs in H'. rewrite <- date_search_cfg in H'.
    rewrite H in H'. inversion H'; subst gd'. unfold cfg' in T. cbn [c_ned cfg_of] in T. fold dfs in T.
    apply T.
    - fold bf. rewrite (time_search_cfg TIME_FORMS cfg) in IT. exact IT.
    - fold bf. unfold zone_choices in *. rewrite (zone_search_cfg ZONE_FORMS cfg) in IZ. exact IZ. }
  destruct tables_num_keys as [K23 [K0 [KT KZ]]].
  apply parse_text_num; try assumption.
  - (* date keys *)
    apply date_search_In in ID. destruct ID as [ID _]. unfold dfs, date_forms_of in ID.
    destruct (c_ned cfg =? 0)%Z eqn:E0.
    + rewrite forallb_forall in K0. specialize (K0 fd ID). apply Z.eqb_eq in E0. rewrite (EX E0), orb_false_r in K0. exact K0.
    + rewrite forallb_forall in K23. apply K23. apply in_or_app.
      destruct (c_ned cfg =? 3)%Z; [right|left]; exact ID.
  - apply time_search_In in IT. destruct IT as [IT _]. rewrite forallb_forall in KT. apply KT. exact IT.
  - destruct zo as [fz|]; [|reflexivity]. cbn [zo_keys_ok]. unfold zone_choices in IZ.
    apply in_app_or in IZ. destruct IZ as [IZ|IZ].
    + destruct (String.eqb (f_type ft) "truncated"); [destruct IZ|]. destruct IZ as [IZ|[]]. discriminate.
    + apply in_map_iff in IZ. destruct IZ as [x [E IZ]]. inversion E; subst x.
      apply zone_search_In in IZ. destruct IZ as [IZ _]. rewrite forallb_forall in KZ. apply KZ. exact IZ.
Qed.
