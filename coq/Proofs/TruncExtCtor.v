(* Proofs/TruncExtCtor.v -- which day designators the constructor of a truncated
   TimePoint accepts (Model/Parse.v check_bounds, no year given): weekday 1..7,
   day of month 1..30 (360-day calendar) or 1..31, day of year 1..360 / 365 /
   366, week of year 1..max_weeks_in_year md = 1..53 (1..52 in the 360-day
   calendar).  The week bound is the one of the fix "bound truncated
   week_of_year by the calendar's longest week-year"; before it the bound was 53
   in every calendar and week 53 of the 360-day calendar (which no year has)
   made add_truncated loop forever.  With the fix the accepted ranges coincide
   with the ranges of the theorems of Props/C20Ext.v. *)
From Coq Require Import QArith List String.
From Iso Require Import Proofs.Tac Spec.Cal Model.Num Model.Helpers Model.TimePoint Model.Parse Proofs.TruncExtCal.
Open Scope Z_scope.

Definition trunc_ptp (dom doy week dow : option Z) : ptp :=
  mkPtp None None dom doy week dow None None None None true "" 0 "".

Lemma max_weeks_is_wmax md : max_weeks_in_year md = wmax md.
Proof. destruct md; reflexivity. Qed.

Lemma trunc_ctor_bounds : forall md dom doy week dow,
  check_bounds md (trunc_ptp dom doy week dow) =
  in_rng dom 1 (mmax md) && in_rng week 1 (wmax md) && in_rng doy 1 (dmax md) && in_rng dow 1 7.
Proof.
  intros md dom doy week dow. unfold check_bounds, trunc_ptp.
  cbn [p_year p_month p_dom p_doy p_week p_dow p_hour p_min p_sec in_rng in_rngq below_q andb].
  assert (E1 : MAX_DAYS_IN_MONTH md = mmax md) by (destruct md; reflexivity).
  assert (E2 : DAYS_IN_YEAR_LEAP md = dmax md) by (destruct md; reflexivity).
  rewrite E1, E2, max_weeks_is_wmax.
  destruct (in_rng dom 1 (mmax md)), (in_rng week 1 (wmax md)), (in_rng doy 1 (dmax md)), (in_rng dow 1 7); reflexivity.
Qed.
Print Assumptions trunc_ctor_bounds.

(* accepted by the constructor <=> inside the ranges the C20Ext theorems assume *)
Lemma ctor_accepts_iff : forall md,
  (forall w d, check_bounds md (trunc_ptp None None (Some w) (Some d)) = true <->
               1 <= d <= 7 /\ 1 <= w <= (match md with D360 => 52 | _ => 53 end)) /\
  (forall d, check_bounds md (trunc_ptp None None None (Some d)) = true <-> 1 <= d <= 7) /\
  (forall d, check_bounds md (trunc_ptp (Some d) None None None) = true <->
             1 <= d <= (match md with D360 => 30 | _ => 31 end)) /\
  (forall d, check_bounds md (trunc_ptp None (Some d) None None) = true <->
             1 <= d <= (match md with D360 => 360 | D365 => 365 | _ => 366 end)).
Proof.
  intros md. repeat split; intros; rewrite trunc_ctor_bounds in *; unfold in_rng, wmax, mmax, dmax in *;
    cbn [andb] in *; destruct md; lia.
Qed.
Print Assumptions ctor_accepts_iff.
