(* Proofs/CliSpec.v -- the command-line model (Model/Cli.v, Model/DriverCli.v)
   composed with the library results: parsing gives valid points (C09, and
   the same for strptime), shifting is the left fold of tp_add (C01/C05),
   --utc re-zones without changing the instant (C06), the printed difference
   is the text of |second - first| with its sign (C02/C04) and reads back as
   an offset that leads from the first to the second (C10 + C04), the
   recurrence listing is iter_take (C12).  Property C19. *)
From Coq Require Import QArith Qround Qabs Lqa String Ascii.
From Iso Require Import Proofs.Tac Spec.Cal Spec.Instant Spec.Series Model.Num Model.Helpers Model.Duration
  Model.TimePoint Model.Forms Model.Parse Model.LocalZone Model.Dump Model.Strftime Model.Recurrence
  Model.DurText Model.DriverText Model.Cli Model.DriverCli gen.Grammar
  Proofs.TickSpec Proofs.DurSpec Proofs.AddSpec Proofs.MonthSpec Proofs.ZoneSpec Proofs.CmpSpec Proofs.SubSpec
  Proofs.ConstructSpec Proofs.DurTextSpec Proofs.RecSpec.
Local Open Scope string_scope.
Local Open Scope Z_scope.

(* ---------- date_parse, stage by stage ---------- *)
Definition F1 : string := "%Y-%m-%dT%H:%M:%S".
Definition F2 : string := "%Y%m%dT%H%M%S".

(* one strptime attempt *)
Definition sp_try (md : mode) (cfg : pcfg) (text f : string) : option (tp * string) :=
  match strptime STRFTIME_TABLE md cfg text f with
  | POk q => match ptp_to_tp q with Some p => Some (p, f) | None => None end
  | PErr _ => None
  end.
Definition via_strptime (md : mode) (cfg : pcfg) (text : string) : option (tp * string) :=
  match sp_try md cfg text F1 with Some x => Some x | None => sp_try md cfg text F2 end.
(* the ISO 8601 parser with dump_as_parsed *)
Definition via_iso (md : mode) (cfg : pcfg) (text : string) : option (tp * string) + cres :=
  match parse_text md cfg text true with
  | POk q => match ptp_to_tp q with Some p => inl (Some (p, p_fmt q)) | None => inr CUnmodelled end
  | PErr EUnmodelled => inr CUnmodelled
  | PErr _ => inr CExit
  end.
Definition parsed_stage (md : mode) (cfg : pcfg) (text : string) : option (tp * string) + cres :=
  match via_strptime md cfg text with Some x => inl (Some x) | None => via_iso md cfg text end.
Definition utc_stage (md : mode) (utc : bool) (x : option (tp * string) + cres) : option (tp * string) + cres :=
  match x with
  | inl (Some (p, f)) =>
    if utc then match to_utc md p with Some q => inl (Some (q, f)) | None => inr CExit end
    else inl (Some (p, f))
  | y => y
  end.

Lemma date_parse_eq md utc local text :
  date_parse md utc local text =
  if negb (is_ascii_str text) || may_be_ctime text then inr CUnmodelled
  else utc_stage md utc (parsed_stage md (cli_cfg utc local) text).
Proof.
  unfold date_parse. destruct (negb (is_ascii_str text) || may_be_ctime text); [reflexivity|].
  unfold utc_stage, parsed_stage, via_strptime, via_iso, sp_try, ISO_STRPTIME_FORMATS, F1, F2.
  destruct (strptime STRFTIME_TABLE md (cli_cfg utc local) text "%Y-%m-%dT%H:%M:%S") as [q|e].
  - destruct (ptp_to_tp q); [reflexivity|].
    destruct (strptime STRFTIME_TABLE md (cli_cfg utc local) text "%Y%m%dT%H%M%S") as [q2|e2]; [|reflexivity].
    destruct (ptp_to_tp q2); reflexivity.
  - destruct (strptime STRFTIME_TABLE md (cli_cfg utc local) text "%Y%m%dT%H%M%S") as [q2|e2]; [|reflexivity].
    destruct (ptp_to_tp q2); reflexivity.
Qed.

Lemma ptp_to_tp_full q p : ptp_to_tp q = Some p -> p_trunc q = false.
Proof. unfold ptp_to_tp. destruct (p_trunc q); [discriminate|reflexivity]. Qed.

Lemma strptime_valid T md cfg text f q p :
  strptime T md cfg text f = POk q -> ptp_to_tp q = Some p -> valid_tp md p = true.
Proof.
  intros H HP. pose proof (ptp_to_tp_full q p HP) as HT.
  assert (K : exists i, create_timepoint md cfg i "" false = POk q).
  { unfold strptime in H.
    match type of H with match ?b with _ => _ end = _ => destruct b as [toks|]; [|discriminate] end.
    destruct (pmatch toks text []) as [e|]; [|discriminate].
    destruct (lookup_env "seconds_since_unix_epoch" e); [discriminate|].
    match type of H with match ?b with _ => _ end = _ => destruct b as [z|x]; [|discriminate] end.
    eexists. exact H. }
  destruct K as [i K].
  destruct (create_timepoint_valid md cfg i "" q K HT) as (p' & E & V).
  rewrite HP in E. injection E as <-. exact V.
Qed.

Lemma sp_try_valid md cfg text f p g : sp_try md cfg text f = Some (p, g) ->
  g = f /\ valid_tp md p = true /\
  exists q, strptime STRFTIME_TABLE md cfg text f = POk q /\ ptp_to_tp q = Some p.
Proof.
  unfold sp_try. destruct (strptime STRFTIME_TABLE md cfg text f) as [q|e] eqn:E; [|discriminate].
  destruct (ptp_to_tp q) as [p'|] eqn:EP; [|discriminate].
  intros H. injection H as <- <-. split; [reflexivity|]. split; [eapply strptime_valid; eassumption|].
  exists q. auto.
Qed.

Lemma construct_fmt md yr month dom doy week dow hour hdec minute mdec sec sdec zn tr tprop ned fmt p :
  construct md yr month dom doy week dow hour hdec minute mdec sec sdec zn tr tprop ned fmt false = POk p ->
  p_fmt p = fmt.
Proof.
  intros H. unfold construct in H.
  apply pbind_inv in H. destruct H as (h1 & _ & H).
  apply pbind_inv in H. destruct H as (m1 & _ & H).
  apply pbind_inv in H. destruct H as (s1 & _ & H).
  match type of H with (if ?c then _ else _) = _ => destruct c; [discriminate H|] end.
  match type of H with (match ?c with pair _ _ => _ end) = _ => destruct c as [[h2 m2] s2] end.
  apply pbind_inv in H. destruct H as (z & _ & H).
  repeat match type of H with (if ?c then _ else _) = _ => destruct c; [discriminate H|] end.
  match type of H with (match ?c with pair _ _ => _ end) = _ => destruct c as [[[a b] c'] d'] end.
  match type of H with (if ?c then _ else _) = _ => destruct c; [|discriminate H] end.
  injection H as <-. reflexivity.
Qed.

Lemma create_timepoint_fmt md cfg i fmt p : create_timepoint md cfg i fmt false = POk p -> p_fmt p = fmt.
Proof.
  intros H. unfold create_timepoint in H. cbv zeta in H.
  do 13 (apply pbind_inv in H; destruct H as (? & _ & H)).
  eapply construct_fmt; exact H.
Qed.

(* "the same notation": the format the ISO path returns is the concatenated
   expression text of the forms that matched (C07: get_info) *)
Lemma parse_text_fmt md cfg text q : parse_text md cfg text true = POk q ->
  exists i, get_info (date_forms_of (c_ned cfg)) TIME_FORMS ZONE_FORMS cfg text = POk i /\ p_fmt q = i_expr i.
Proof.
  unfold parse_text. destruct (negb (is_ascii_str text)); [discriminate|].
  destruct (get_info _ _ _ cfg text) as [i|e]; [|discriminate].
  intros H. exists i. split; [reflexivity|]. eapply create_timepoint_fmt; exact H.
Qed.

(* where a successfully parsed argument came from *)
Definition parse_origin (md : mode) (cfg : pcfg) (text : string) (p0 : tp) (f : string) : Prop :=
  (In f ISO_STRPTIME_FORMATS /\
   exists q, strptime STRFTIME_TABLE md cfg text f = POk q /\ ptp_to_tp q = Some p0) \/
  (via_strptime md cfg text = None /\
   exists q i, parse_text md cfg text true = POk q /\ ptp_to_tp q = Some p0 /\
               get_info (date_forms_of 2) TIME_FORMS ZONE_FORMS cfg text = POk i /\ f = i_expr i).

Lemma parsed_stage_spec md cfg text p0 f : c_ned cfg = 2 ->
  parsed_stage md cfg text = inl (Some (p0, f)) ->
  valid_tp md p0 = true /\ parse_origin md cfg text p0 f.
Proof.
  intros Hned. unfold parsed_stage.
  destruct (via_strptime md cfg text) as [[p' f']|] eqn:EV.
  - intros H. injection H as <- <-. unfold via_strptime in EV.
    destruct (sp_try md cfg text F1) as [[p1 g1]|] eqn:E1.
    + injection EV as -> ->. destruct (sp_try_valid _ _ _ _ _ _ E1) as (-> & V & q & S & P).
      split; [exact V|]. left. split; [left; reflexivity|]. exists q. auto.
    + destruct (sp_try_valid _ _ _ _ _ _ EV) as (-> & V & q & S & P).
      split; [exact V|]. left. split; [right; left; reflexivity|]. exists q. auto.
  - unfold via_iso. destruct (parse_text md cfg text true) as [q|e] eqn:EP.
    + destruct (ptp_to_tp q) as [p'|] eqn:ET; [|discriminate].
      intros H. injection H as <- <-.
      destruct (parse_text_valid md cfg text true q EP (ptp_to_tp_full q p' ET)) as (p'' & E & V).
      rewrite ET in E. injection E as <-.
      destruct (parse_text_fmt md cfg text q EP) as (i & GI & FI). rewrite Hned in GI.
      split; [exact V|]. right. split; [exact EV|]. exists q, i. auto.
    + destruct e; discriminate.
Qed.

Lemma date_parse_spec : forall md utc local text p f,
  date_parse md utc local text = inl (Some (p, f)) ->
  valid_tp md p = true /\ (utc = true -> tzone p = mkZone 0 0) /\
  exists p0, valid_tp md p0 = true /\ parse_origin md (cli_cfg utc local) text p0 f /\
             (instant md p == instant md p0)%Q /\
             (if utc then to_utc md p0 = Some p else p = p0).
Proof.
  intros md utc local text p f. rewrite date_parse_eq.
  destruct (negb (is_ascii_str text) || may_be_ctime text); [discriminate|].
  unfold utc_stage.
  destruct (parsed_stage md (cli_cfg utc local) text) as [[[p0 f0]|]|e] eqn:EP; try discriminate.
  assert (Hn : c_ned (cli_cfg utc local) = 2) by reflexivity.
  destruct (parsed_stage_spec md _ text p0 f0 Hn EP) as [V0 O].
  destruct utc.
  - destruct (to_utc_spec md p0 V0) as (r & E & I & Z & V). rewrite E.
    intros H. injection H as <- <-. split; [exact V|]. split; [intros _; exact Z|].
    exists p0. repeat split; assumption.
  - intros H. injection H as <- <-. split; [exact V0|]. split; [discriminate|].
    exists p0. repeat split; try assumption; reflexivity.
Qed.

(* date_parse never answers "no point" *)
Lemma date_parse_not_none md utc local text : date_parse md utc local text <> inl None.
Proof.
  rewrite date_parse_eq. destruct (negb (is_ascii_str text) || may_be_ctime text); [discriminate|].
  unfold utc_stage, parsed_stage.
  destruct (via_strptime md (cli_cfg utc local) text) as [[p f]|].
  - destruct utc; [destruct (to_utc md p)|]; discriminate.
  - unfold via_iso. destruct (parse_text md (cli_cfg utc local) text true) as [q|e].
    + destruct (ptp_to_tp q) as [p|]; [|discriminate].
      destruct utc; [destruct (to_utc md p)|]; discriminate.
    + destruct e; discriminate.
Qed.

(* an unparsable argument: exactly when both strptime formats and the ISO
   parser refuse it (with a syntax, value or bounds error) *)
Lemma date_parse_exit_iff md local text :
  date_parse md false local text = inr CExit <->
  (negb (is_ascii_str text) || may_be_ctime text = false /\
   via_strptime md (cli_cfg false local) text = None /\
   exists e, parse_text md (cli_cfg false local) text true = PErr e /\ e <> EUnmodelled).
Proof.
  rewrite date_parse_eq. destruct (negb (is_ascii_str text) || may_be_ctime text).
  - split; [discriminate|]. intros [H _]; discriminate.
  - unfold utc_stage, parsed_stage.
    destruct (via_strptime md (cli_cfg false local) text) as [[p f]|].
    + split; [discriminate|]. intros (_ & H & _); discriminate.
    + unfold via_iso. destruct (parse_text md (cli_cfg false local) text true) as [q|e].
      * destruct (ptp_to_tp q); (split; [discriminate|]); intros (_ & _ & e & H & _); discriminate.
      * destruct e; split; intros H; try (discriminate H);
          try (split; [reflexivity|split; [reflexivity|eexists; split; [reflexivity|discriminate]]]);
          try (destruct H as (_ & _ & e' & H & N); injection H as <-;
               first [reflexivity | exfalso; apply N; reflexivity]).
Qed.

(* ---------- offsets ---------- *)
(* the sign and the duration text of an offset *)
Definition off_split (off : string) : bool * string :=
  match off with
  | String "-" r => (true, r)
  | String "+" r => (false, r)
  | _ => (false, off)
  end.
(* the signed duration an offset denotes ("" denotes no shift) *)
Definition off_signed (off : string) : option dur :=
  if String.eqb off "" then Some dzero
  else match dur_parse (snd (off_split off)) with
       | TOk d => Some (if fst (off_split off) then dur_mul d (-1) else d)
       | _ => None
       end.
(* the offset is refused as a duration (OffsetValueError) *)
Definition off_refused (off : string) : Prop :=
  off <> "" /\ (dur_parse (snd (off_split off)) = TSyntax \/ dur_parse (snd (off_split off)) = TValueError \/
                dur_parse (snd (off_split off)) = TBadInput).

Lemma date_shift_eq md p off :
  date_shift md p off =
  if String.eqb off "" then inl (Some p)
  else match dur_parse (snd (off_split off)) with
       | TOk d => match (if fst (off_split off) then tp_sub_dur md p d else tp_add md p d) with
                  | Some q => inl (Some q) | None => inr CExit end
       | TUnmodelled => inr CUnmodelled
       | _ => inr CExit
       end.
Proof.
  unfold date_shift, off_split. destruct (String.eqb off ""); [reflexivity|].
  destruct off as [|c r]; [reflexivity|].
  destruct c as [[] [] [] [] [] [] [] []]; reflexivity.
Qed.

Lemma date_shift_refused md p off : off_refused off -> date_shift md p off = inr CExit.
Proof.
  intros [N H]. rewrite date_shift_eq. apply String.eqb_neq in N. rewrite N.
  destruct H as [H | [H | H]]; rewrite H; reflexivity.
Qed.

Lemma date_shift_signed md p off d : off_signed off = Some d ->
  date_shift md p off = match tp_add md p d with Some q => inl (Some q) | None => inr CExit end.
Proof.
  unfold off_signed. rewrite date_shift_eq. destruct (String.eqb off "").
  - intros H. injection H as <-. rewrite (tp_add_zero md p dzero); reflexivity.
  - destruct (dur_parse (snd (off_split off))) as [x| | | |]; try discriminate.
    intros H. injection H as <-. destruct (fst (off_split off)); [rewrite tp_sub_dur_def|]; reflexivity.
Qed.

(* the left fold of additions *)
Definition shift_all (md : mode) (p : tp) (ds : list dur) : option tp :=
  fold_left (fun acc d => match acc with Some q => tp_add md q d | None => None end) ds (Some p).
Definition sum_len (ds : list dur) : Q := fold_right (fun d acc => (dur_len d + acc)%Q) 0%Q ds.

Definition shift_step (md : mode) (acc : option tp + cres) (o : string) : option tp + cres :=
  match acc with inl (Some q) => date_shift md q o | x => x end.

Lemma cli_shift_eq md utc local text offs pf :
  cli_shift md utc local text offs pf =
  match date_parse md utc local text with
  | inr e => e
  | inl None => CExit
  | inl (Some (p, f)) =>
    match fold_left (shift_step md) offs (inl (Some p)) with
    | inl (Some q) => date_format md q (match pf with Some x => x | None => f end)
    | inl None => CExit
    | inr e => e
    end
  end.
Proof. reflexivity. Qed.

Lemma fold_stuck md offs x : (forall q, x <> inl (Some q)) -> fold_left (shift_step md) offs x = x.
Proof.
  induction offs as [|o r IH]; intros H; [reflexivity|]. cbn [fold_left].
  assert (E : shift_step md x o = x).
  { destruct x as [[q|]|e]; [exfalso; eapply H; reflexivity|reflexivity|reflexivity]. }
  rewrite E. apply IH. exact H.
Qed.

Lemma shift_fold : forall md offs ds p, valid_tp md p = true ->
  Forall2 (fun o d => off_signed o = Some d) offs ds ->
  exists q, shift_all md p ds = Some q /\
    fold_left (shift_step md) offs (inl (Some p)) = inl (Some q) /\
    valid_tp md q = true /\
    rep_kind (tdate q) = rep_kind (tdate p) /\ tod_kind (ttod q) = tod_kind (ttod p) /\ tzone q = tzone p /\
    (Forall (fun d => is_exact d = true) ds -> (instant md q == instant md p + sum_len ds)%Q).
Proof.
  intros md offs ds p V F. revert p V. induction F as [|o d offs ds Hod F IH]; intros p V.
  - exists p. unfold shift_all, sum_len. cbn [fold_left fold_right].
    repeat split; try reflexivity; try assumption. intros _. lra.
  - destruct (tp_add_valid md p d V) as (r & E & Vr & K1 & K2 & K3).
    destruct (IH r Vr) as (q & S & Fo & Vq & Q1 & Q2 & Q3 & QI).
    exists q. unfold shift_all. cbn [fold_left]. rewrite E. fold (shift_all md r ds).
    cbn [shift_step]. rewrite (date_shift_signed md p o d Hod), E.
    split; [exact S|]. split; [exact Fo|]. split; [exact Vq|].
    split; [congruence|]. split; [congruence|]. split; [congruence|].
    intros FE. inversion FE as [|? ? Ed FE']; subst.
    destruct (tp_add_exact_spec md p d V Ed) as (r' & E' & I' & _).
    rewrite E in E'. injection E' as <-.
    rewrite (QI FE'), I'. unfold sum_len. cbn [fold_right]. fold (sum_len ds). lra.
Qed.

(* the first refused offset ends the run *)
Lemma shift_fold_refused : forall md offs1 ds1 off offs2 p, valid_tp md p = true ->
  Forall2 (fun o d => off_signed o = Some d) offs1 ds1 -> off_refused off ->
  fold_left (shift_step md) (offs1 ++ off :: offs2) (inl (Some p)) = inr CExit.
Proof.
  intros md offs1 ds1 off offs2 p V F R.
  destruct (shift_fold md offs1 ds1 p V F) as (q & _ & Fo & _).
  rewrite fold_left_app, Fo. cbn [fold_left shift_step]. rewrite (date_shift_refused md q off R).
  apply fold_stuck. discriminate.
Qed.

Lemma off_signed_minus body d : dur_parse body = TOk d -> is_exact d = true ->
  exists sd, off_signed (String "-" body) = Some sd /\ is_exact sd = true /\ (dur_len sd == - dur_len d)%Q.
Proof.
  intros H E. exists (dur_mul d (-1)). unfold off_signed. cbn [String.eqb off_split fst snd Ascii.eqb].
  change (String.eqb (String "-" body) "") with false. cbv iota. rewrite H.
  split; [reflexivity|]. split; [apply is_exact_mul; exact E|apply dur_len_neg; exact E].
Qed.
Lemma off_signed_plus body d : dur_parse body = TOk d ->
  off_signed (String "+" body) = Some d.
Proof. intros H. unfold off_signed. change (String.eqb (String "+" body) "") with false. cbv iota.
  cbn [off_split fst snd]. rewrite H. reflexivity. Qed.

(* what an offset text denotes *)
Lemma off_signed_cases :
  off_signed "" = Some dzero /\
  (forall body d, dur_parse body = TOk d -> off_signed (String "+" body) = Some d) /\
  (forall body d, dur_parse body = TOk d ->
     off_signed (String "-" body) = Some (dur_mul d (-1)) /\
     (is_exact d = true -> is_exact (dur_mul d (-1)) = true /\ (dur_len (dur_mul d (-1)) == - dur_len d)%Q)) /\
  (forall off d, off <> "" -> off_split off = (false, off) -> dur_parse off = TOk d -> off_signed off = Some d).
Proof.
  split; [reflexivity|]. split; [exact off_signed_plus|]. split.
  - intros body d H. split.
    + unfold off_signed. change (String.eqb (String "-" body) "") with false. cbv iota.
      cbn [off_split fst snd]. rewrite H. reflexivity.
    + intros E. split; [apply is_exact_mul; exact E|apply dur_len_neg; exact E].
  - intros off d N S H. unfold off_signed. apply String.eqb_neq in N. rewrite N, S. cbn [fst snd].
    rewrite H. reflexivity.
Qed.

(* ---------- errors ---------- *)
Lemma cli_errors : forall md utc local,
  (forall text offs pf e, date_parse md utc local text = inr e -> cli_shift md utc local text offs pf = e) /\
  (forall t1 t2, date_parse md false local t1 = inr CExit -> date_parse md false local t2 <> inr CUnmodelled ->
                 cli_diff md local t1 t2 = CExit) /\
  (forall t1 t2, date_parse md false local t2 = inr CExit -> date_parse md false local t1 <> inr CUnmodelled ->
                 cli_diff md local t1 t2 = CExit) /\
  (forall t1 t2, date_parse md false local t1 = inr CUnmodelled \/ date_parse md false local t2 = inr CUnmodelled ->
                 cli_diff md local t1 t2 = CUnmodelled) /\
  (forall text p f offs1 ds1 off offs2 pf,
     date_parse md utc local text = inl (Some (p, f)) ->
     Forall2 (fun o d => off_signed o = Some d) offs1 ds1 -> off_refused off ->
     cli_shift md utc local text (offs1 ++ off :: offs2) pf = CExit).
Proof.
  intros md utc local. split; [|split; [|split; [|split]]].
  - intros text offs pf e H. rewrite cli_shift_eq, H. reflexivity.
  - intros t1 t2 H N. unfold cli_diff. rewrite H.
    destruct (date_parse md false local t2) as [[[p f]|]|[]]; try reflexivity. exfalso; apply N; reflexivity.
  - intros t1 t2 H N. unfold cli_diff. rewrite H.
    destruct (date_parse md false local t1) as [[[p f]|]|[]]; try reflexivity. exfalso; apply N; reflexivity.
  - intros t1 t2 [H | H]; unfold cli_diff; rewrite H.
    + reflexivity.
    + destruct (date_parse md false local t1) as [[[p f]|]|[]]; reflexivity.
  - intros text p f offs1 ds1 off offs2 pf H F R. rewrite cli_shift_eq, H.
    destruct (date_parse_spec md utc local text p f H) as [V _].
    rewrite (shift_fold_refused md offs1 ds1 off offs2 p V F R). reflexivity.
Qed.

(* ---------- shifting ---------- *)
Lemma cli_shift_spec : forall md utc local text p f offs ds pf,
  date_parse md utc local text = inl (Some (p, f)) ->
  Forall2 (fun o d => off_signed o = Some d) offs ds ->
  exists q, shift_all md p ds = Some q /\
    cli_shift md utc local text offs pf = date_format md q (match pf with Some x => x | None => f end) /\
    valid_tp md q = true /\
    rep_kind (tdate q) = rep_kind (tdate p) /\ tod_kind (ttod q) = tod_kind (ttod p) /\ tzone q = tzone p /\
    (Forall (fun d => is_exact d = true) ds -> (instant md q == instant md p + sum_len ds)%Q).
Proof.
  intros md utc local text p f offs ds pf H F.
  destruct (date_parse_spec md utc local text p f H) as [V _].
  destruct (shift_fold md offs ds p V F) as (q & S & Fo & Vq & K1 & K2 & K3 & KI).
  exists q. split; [exact S|]. split; [rewrite cli_shift_eq, H, Fo; reflexivity|].
  repeat split; assumption.
Qed.

(* ---------- differences ---------- *)
Definition diff_out (sign : string) (d : dur) : cres :=
  match dur_str d with
  | TOk s => COut (sign ++ s)
  | TUnmodelled => CUnmodelled
  | _ => CExit
  end.

Lemma qnum_nonneg (x : Q) : (0 <= x)%Q -> 0 <= Qnum x.
Proof. unfold Qle. cbn. lia. Qed.

Lemma diff_core md p1 p2 : valid_tp md p1 = true -> valid_tp md p2 = true ->
  exists dd h m s, let d := DU 0 0 dd h m s in
    ((instant md p2 < instant md p1)%Q ->
       tp_sub md p1 p2 = Some d /\ (dur_len d == instant md p1 - instant md p2)%Q) /\
    ((instant md p1 <= instant md p2)%Q ->
       tp_sub md p2 p1 = Some d /\ (dur_len d == instant md p2 - instant md p1)%Q) /\
    nonneg_dur d = true /\ qis_int h = true /\ qis_int m = true /\
    (0 <= h /\ h < 24 /\ 0 <= m /\ m < 60 /\ 0 <= s /\ s < 60)%Q.
Proof.
  intros V1 V2. destruct (Qlt_le_dec (instant md p2) (instant md p1)) as [L | L].
  - destruct (tp_sub_spec md p1 p2 V1 V2) as (dd & h & m & s & E & Len & P & _ & Ih & Im).
    destruct (P ltac:(lra)) as (Hd & H1 & H2 & H3 & H4 & H5 & H6).
    exists dd, h, m, s. cbv zeta. split; [intros _; split; assumption|]. split; [intros F; exfalso; lra|].
    split; [|repeat split; assumption].
    cbn [nonneg_dur]. pose proof (qnum_nonneg h H1). pose proof (qnum_nonneg m H3). pose proof (qnum_nonneg s H5). lia.
  - destruct (tp_sub_spec md p2 p1 V2 V1) as (dd & h & m & s & E & Len & P & _ & Ih & Im).
    destruct (P L) as (Hd & H1 & H2 & H3 & H4 & H5 & H6).
    exists dd, h, m, s. cbv zeta. split; [intros F; exfalso; lra|]. split; [intros _; split; assumption|].
    split; [|repeat split; assumption].
    cbn [nonneg_dur]. pose proof (qnum_nonneg h H1). pose proof (qnum_nonneg m H3). pose proof (qnum_nonneg s H5). lia.
Qed.

Lemma cli_diff_eq md local t1 t2 p1 f1 p2 f2 :
  date_parse md false local t1 = inl (Some (p1, f1)) -> date_parse md false local t2 = inl (Some (p2, f2)) ->
  cli_diff md local t1 t2 =
  match tp_cmp md p2 p1 with
  | None => CExit
  | Some c => if cmp_op 1 c
              then match tp_sub md p1 p2 with Some dd => diff_out "-" dd | None => CExit end
              else match tp_sub md p2 p1 with Some dd => diff_out "" dd | None => CExit end
  end.
Proof.
  intros H1 H2. unfold cli_diff. rewrite H1, H2. destruct (tp_cmp md p2 p1) as [c|]; [|reflexivity].
  destruct (cmp_op 1 c); reflexivity.
Qed.

Lemma cli_diff_spec : forall md local t1 t2 p1 f1 p2 f2,
  date_parse md false local t1 = inl (Some (p1, f1)) -> date_parse md false local t2 = inl (Some (p2, f2)) ->
  exists dd h m s, let d := DU 0 0 dd h m s in
    ((instant md p2 < instant md p1)%Q ->
       tp_sub md p1 p2 = Some d /\ cli_diff md local t1 t2 = diff_out "-" d) /\
    ((instant md p1 <= instant md p2)%Q ->
       tp_sub md p2 p1 = Some d /\ cli_diff md local t1 t2 = diff_out "" d) /\
    (dur_len d == Qabs (instant md p2 - instant md p1))%Q /\
    nonneg_dur d = true /\ single_signed d = true /\ is_exact d = true /\
    qis_int h = true /\ qis_int m = true /\
    (0 <= h /\ h < 24 /\ 0 <= m /\ m < 60 /\ 0 <= s /\ s < 60)%Q.
Proof.
  intros md local t1 t2 p1 f1 p2 f2 H1 H2.
  destruct (date_parse_spec md false local t1 p1 f1 H1) as [V1 _].
  destruct (date_parse_spec md false local t2 p2 f2 H2) as [V2 _].
  destruct (diff_core md p1 p2 V1 V2) as (dd & h & m & s & A & B & NN & Ih & Im & R).
  exists dd, h, m, s. cbv zeta in *.
  pose proof (tp_cmp_spec md p2 p1 V2 V1) as CM.
  split; [|split; [|split; [|split; [exact NN|split; [|split; [reflexivity|split; [exact Ih|split; [exact Im|exact R]]]]]]]].
  - intros L. destruct (A L) as [E Len]. split; [exact E|].
    rewrite (cli_diff_eq md local t1 t2 p1 f1 p2 f2 H1 H2), CM.
    assert (K : (instant md p2 ?= instant md p1)%Q = Lt) by (apply Qlt_alt; exact L).
    rewrite K. cbn [cmp_op]. rewrite E. reflexivity.
  - intros L. destruct (B L) as [E Len]. split; [exact E|].
    rewrite (cli_diff_eq md local t1 t2 p1 f1 p2 f2 H1 H2), CM.
    assert (K : cmp_op 1 (instant md p2 ?= instant md p1)%Q = false).
    { destruct (instant md p2 ?= instant md p1)%Q eqn:C; try reflexivity.
      apply (proj2 (Qlt_alt _ _)) in C. exfalso. lra. }
    rewrite K, E. reflexivity.
  - destruct (Qlt_le_dec (instant md p2) (instant md p1)) as [L | L].
    + destruct (A L) as [_ Len]. rewrite Len. rewrite Qabs_neg; lra.
    + destruct (B L) as [_ Len]. rewrite Len. rewrite Qabs_pos; lra.
  - unfold single_signed. rewrite NN. reflexivity.
Qed.

Lemma dur_str_P d s : nonneg_dur d = true -> dur_str d = TOk s -> exists r, s = String "P" r.
Proof.
  intros NN. unfold dur_str. destruct (dur_bool d); cbn [negb].
  - rewrite (nonneg_not_fully_negative d NN).
    destruct d as [w | y mo dd h m se]; cbn [dur_str_body].
    + unfold tmap. destruct (int_str w); cbn [tbind]; try discriminate.
      intros H. injection H as <-. eexists. reflexivity.
    + destruct (z_unit y "Y"); cbn [tbind]; try discriminate.
      destruct (z_unit mo "M"); cbn [tbind]; try discriminate.
      destruct (z_unit dd "D"); cbn [tbind]; try discriminate.
      destruct (q_unit h "H"); cbn [tbind]; try discriminate.
      destruct (q_unit m "M"); cbn [tbind]; try discriminate.
      destruct (q_unit se "S"); cbn [tbind]; try discriminate.
      intros H. injection H as <-. eexists. reflexivity.
  - intros H. injection H as <-. eexists. reflexivity.
Qed.

Lemma qeq_cmp (x y : Q) : (x == y)%Q -> (x ?= y)%Q = Eq.
Proof. intros H. apply Qeq_alt. exact H. Qed.

(* what the command prints for two date-times, given back as an offset of the
   first, leads to the instant of the second *)
Lemma cli_diff_add_back : forall md local t1 t2 p1 f1 p2 f2 out,
  date_parse md false local t1 = inl (Some (p1, f1)) -> date_parse md false local t2 = inl (Some (p2, f2)) ->
  cli_diff md local t1 t2 = COut out ->
  exists sd r, off_signed out = Some sd /\ is_exact sd = true /\
    (dur_len sd == instant md p2 - instant md p1)%Q /\
    date_shift md p1 out = inl (Some r) /\ tp_add md p1 sd = Some r /\
    tp_cmp md r p2 = Some Eq /\ (instant md r == instant md p2)%Q /\ valid_tp md r = true /\
    rep_kind (tdate r) = rep_kind (tdate p1) /\ tod_kind (ttod r) = tod_kind (ttod p1) /\ tzone r = tzone p1.
Proof.
  intros md local t1 t2 p1 f1 p2 f2 out H1 H2 HO.
  destruct (date_parse_spec md false local t1 p1 f1 H1) as [V1 _].
  destruct (date_parse_spec md false local t2 p2 f2 H2) as [V2 _].
  destruct (cli_diff_spec md local t1 t2 p1 f1 p2 f2 H1 H2)
    as (dd & h & m & s & A & B & Len & NN & SS & EX & _).
  cbv zeta in *. set (d := DU 0 0 dd h m s) in *.
  assert (FIN : forall sd, off_signed out = Some sd -> is_exact sd = true ->
                 (dur_len sd == instant md p2 - instant md p1)%Q ->
                 exists sd r, off_signed out = Some sd /\ is_exact sd = true /\
                   (dur_len sd == instant md p2 - instant md p1)%Q /\
                   date_shift md p1 out = inl (Some r) /\ tp_add md p1 sd = Some r /\
                   tp_cmp md r p2 = Some Eq /\ (instant md r == instant md p2)%Q /\ valid_tp md r = true /\
                   rep_kind (tdate r) = rep_kind (tdate p1) /\ tod_kind (ttod r) = tod_kind (ttod p1) /\
                   tzone r = tzone p1).
  { intros sd OS Es Ls.
    destruct (tp_add_exact_spec md p1 sd V1 Es) as (r & E & I & K1 & K2 & K3 & Vr).
    exists sd, r. split; [exact OS|]. split; [exact Es|]. split; [exact Ls|].
    split; [rewrite (date_shift_signed md p1 out sd OS), E; reflexivity|]. split; [exact E|].
    assert (IE : (instant md r == instant md p2)%Q) by (rewrite I, Ls; lra).
    split; [rewrite (tp_cmp_spec md r p2 Vr V2), (qeq_cmp _ _ IE); reflexivity|].
    repeat split; assumption. }
  destruct (Qlt_le_dec (instant md p2) (instant md p1)) as [L | L].
  - destruct (A L) as [E CO]. rewrite CO in HO. unfold diff_out in HO.
    destruct (dur_str d) as [txt| | | |] eqn:DS; try discriminate. injection HO as <-.
    destruct (roundtrip_full d txt SS DS) as (d' & P & EQ & _).
    apply dur_eqb_general in EQ. destruct EQ as (E1 & _ & _ & E4).
    assert (Ed' : is_exact d' = true) by (rewrite E1; exact EX).
    destruct (off_signed_minus txt d' P Ed') as (sd & OS & Es & Ls).
    apply (FIN sd); [exact OS|exact Es|].
    rewrite Ls, E4, Len. rewrite Qabs_neg; lra.
  - destruct (B L) as [E CO]. rewrite CO in HO. unfold diff_out in HO.
    destruct (dur_str d) as [txt| | | |] eqn:DS; try discriminate. injection HO as <-.
    destruct (roundtrip_full d txt SS DS) as (d' & P & EQ & _).
    apply dur_eqb_general in EQ. destruct EQ as (E1 & _ & _ & E4).
    assert (Ed' : is_exact d' = true) by (rewrite E1; exact EX).
    destruct (dur_str_P d txt NN DS) as [rest ->].
    apply (FIN d').
    + unfold off_signed. cbn [append]. change (String.eqb (String "P" rest) "") with false. cbv iota.
      change (off_split (String "P" rest)) with (false, String "P" rest). cbn [fst snd].
      cbn [append] in P. rewrite P. reflexivity.
    + exact Ed'.
    + rewrite E4, Len. rewrite Qabs_pos; lra.
Qed.

(* ---------- recurrences ---------- *)
Lemma iter_take_O md r : iter_take md r 0 = [].
Proof.
  unfold iter_take. destruct (r_start r); destruct (zopt_eqb (r_reps r) 1 || dur_falsy (r_dur r));
    try reflexivity; apply iter_from_O.
Qed.

Lemma cli_rec_points_spec : forall md local r n,
  cli_rec_points md local r n = iter_take md r (Z.to_nat n) /\
  (n <= 0 -> cli_rec_points md local r n = []).
Proof.
  intros md local r n. unfold cli_rec_points. destruct (n <=? 0) eqn:E.
  - assert (Z.to_nat n = 0%nat) by lia. rewrite H, iter_take_O. auto.
  - split; [reflexivity|]. intros; lia.
Qed.

(* the series theorems of C12 read off the command line's point list *)
Lemma cli_rec_series : forall md local n,
  (forall s d reps, valid_tp md s = true -> exact_pos d ->
     (match reps with Some k => 2 <= k | None => True end) ->
     exists r, rec_make md reps (Some s) (Some d) None = Ok r /\
       length (cli_rec_points md local r n) = count reps (Z.to_nat n) /\
       series_ok md (cli_rec_points md local r n) (instant md s) (dur_len d) 1 s) /\
  (forall e d, valid_tp md e = true -> exact_pos d ->
     exists r, rec_make md None None (Some d) (Some e) = Ok r /\
       length (cli_rec_points md local r n) = Z.to_nat n /\
       series_ok md (cli_rec_points md local r n) (instant md e) (dur_len d) (-1) e) /\
  (forall e d k, valid_tp md e = true -> exact_pos d -> 2 <= k ->
     exists r, rec_make md (Some k) None (Some d) (Some e) = Ok r /\
       length (cli_rec_points md local r n) = count (Some k) (Z.to_nat n) /\
       series_ok md (cli_rec_points md local r n) (instant md e - inject_Z (k - 1) * dur_len d) (dur_len d) 1 e) /\
  (forall s e reps, valid_tp md s = true -> valid_tp md e = true -> (instant md s < instant md e)%Q ->
     (match reps with Some k => 2 <= k | None => True end) ->
     exists r, rec_make md reps (Some s) None (Some e) = Ok r /\
       length (cli_rec_points md local r n) = count reps (Z.to_nat n) /\
       series_ok md (cli_rec_points md local r n) (instant md s) (instant md e - instant md s) 1 s).
Proof.
  intros md local n. split; [|split; [|split]].
  - intros s d reps V P H.
    destruct (start_duration_series md s d reps (Z.to_nat n) V P H) as (r & E & _ & _ & _ & _ & _ & L & S).
    exists r. rewrite (proj1 (cli_rec_points_spec md local r n)). auto.
  - intros e d V P.
    destruct (duration_end_unbounded_series md e d (Z.to_nat n) V P) as (r & E & _ & _ & _ & L & S).
    exists r. rewrite (proj1 (cli_rec_points_spec md local r n)). auto.
  - intros e d k V P H.
    destruct (duration_end_bounded_series md e d k (Z.to_nat n) V P H) as (r & E & _ & _ & _ & L & S & _).
    exists r. rewrite (proj1 (cli_rec_points_spec md local r n)). auto.
  - intros s e reps Vs Ve I H.
    destruct (start_second_series md s e reps (Z.to_nat n) Vs Ve I H) as (r & E & _ & _ & _ & _ & L & S).
    exists r. rewrite (proj1 (cli_rec_points_spec md local r n)). auto.
Qed.

(* the recurrence text: the parts go through the parsers of C09 / C10 and the
   constructor of C12 *)
Definition rec_ptp_of (md : mode) (local : Z * Z) (t : string) : tp + cres :=
  match parse_text md (cli_cfg false local) t false with
  | POk q => match ptp_to_tp q with Some p => inl p | None => inr CUnmodelled end
  | PErr EUnmodelled => inr CUnmodelled
  | PErr _ => inr CExit end.
Definition rec_dur_of (t : string) : dur + cres :=
  match dur_parse t with TOk d => inl d | TUnmodelled => inr CUnmodelled | _ => inr CExit end.

Lemma rec_ptp_of_valid md local t p : rec_ptp_of md local t = inl p -> valid_tp md p = true.
Proof.
  unfold rec_ptp_of. destruct (parse_text md (cli_cfg false local) t false) as [q|e] eqn:EP.
  - destruct (ptp_to_tp q) as [p'|] eqn:ET; [|discriminate]. intros H. injection H as <-.
    destruct (parse_text_valid md _ t false q EP (ptp_to_tp_full q p' ET)) as (p'' & E & V).
    rewrite ET in E. injection E as <-. exact V.
  - destruct e; discriminate.
Qed.

Lemma rec_of_text_sound : forall md local text r,
  rec_of_text md local text = inl (Some r) ->
  exists reps s d e,
    rec_make md reps s d e = Ok r /\
    (forall p, s = Some p -> valid_tp md p = true) /\ (forall p, e = Some p -> valid_tp md p = true) /\
    ((exists a b, s = Some a /\ d = None /\ e = Some b) \/
     (exists a x, s = Some a /\ d = Some x /\ e = None) \/
     (exists x b, s = None /\ d = Some x /\ e = Some b)).
Proof.
  intros md local text r. unfold rec_of_text.
  destruct (negb (is_ascii_str text)); [discriminate|].
  destruct (split_on "/" text "") as [|r0 [|a [|b [|x l]]]]; try discriminate.
  destruct r0 as [|c nd]; [discriminate|].
  destruct c as [[] [] [] [] [] [] [] []]; try discriminate.
  match goal with |- match ?reps with None => _ | Some n => _ end = _ -> _ => destruct reps as [n|]; [|discriminate] end.
  fold (rec_ptp_of md local a). fold (rec_ptp_of md local b). fold (rec_dur_of a). fold (rec_dur_of b).
  destruct (String.eqb a "" || String.eqb b ""); [discriminate|].
  match goal with |- (if ?c then _ else _) = _ -> _ => destruct c end.
  { destruct (rec_ptp_of md local a) as [s|x] eqn:Ea; [|destruct (rec_ptp_of md local b); discriminate].
    destruct (rec_ptp_of md local b) as [e|x] eqn:Eb; [|discriminate].
    destruct (rec_make md n (Some s) None (Some e)) as [r'|] eqn:EM; [|discriminate].
    intros H. injection H as <-. exists n, (Some s), None, (Some e).
    split; [exact EM|]. split; [intros p H; injection H as <-; eapply rec_ptp_of_valid; exact Ea|].
    split; [intros p H; injection H as <-; eapply rec_ptp_of_valid; exact Eb|].
    left. exists s, e. auto. }
  match goal with |- (if ?c then _ else _) = _ -> _ => destruct c end.
  { destruct (rec_ptp_of md local a) as [s|x] eqn:Ea; [|destruct (rec_dur_of b); discriminate].
    destruct (rec_dur_of b) as [d|x] eqn:Eb; [|discriminate].
    destruct (rec_make md n (Some s) (Some d) None) as [r'|] eqn:EM; [|discriminate].
    intros H. injection H as <-. exists n, (Some s), (Some d), None.
    split; [exact EM|]. split; [intros p H; injection H as <-; eapply rec_ptp_of_valid; exact Ea|].
    split; [discriminate|]. right. left. exists s, d. auto. }
  match goal with |- (if ?c then _ else _) = _ -> _ => destruct c end; [|discriminate].
  destruct (rec_dur_of a) as [d|x] eqn:Ea; [|destruct (rec_ptp_of md local b); discriminate].
  destruct (rec_ptp_of md local b) as [e|x] eqn:Eb; [|discriminate].
  destruct (rec_make md n None (Some d) (Some e)) as [r'|] eqn:EM; [|discriminate].
  intros H. injection H as <-. exists n, None, (Some d), (Some e).
  split; [exact EM|]. split; [discriminate|].
  split; [intros p H; injection H as <-; eapply rec_ptp_of_valid; exact Eb|].
  right. right. exists d, e. auto.
Qed.

(* ---------- when the difference is printed ---------- *)
Lemma small_abs z k : 0 <= z < k -> k <= 60 -> Z.abs z < 10 ^ 15.
Proof. intros H K. assert (B : 60 < 10 ^ 15) by reflexivity. lia. Qed.

Lemma diff_out_int : forall sign dd h m s,
  0 <= dd < 10 ^ 4300 -> qis_int h = true -> qis_int m = true -> qis_int s = true ->
  (0 <= h /\ h < 24 /\ 0 <= m /\ m < 60 /\ 0 <= s /\ s < 60)%Q ->
  exists txt, dur_str (DU 0 0 dd h m s) = TOk txt /\ diff_out sign (DU 0 0 dd h m s) = COut (sign ++ txt).
Proof.
  intros sign dd h m s [Hd0 Hd1] Ih Im Is (H1 & H2 & H3 & H4 & H5 & H6).
  apply qis_int_iff in Ih, Im, Is. destruct Ih as [zh Eh], Im as [zm Em], Is as [zs Es].
  assert (Ah : Z.abs zh < 10 ^ 15).
  { apply (small_abs zh 24); [apply (int_range h zh 0 24 Eh); [exact H1|exact H2]|lia]. }
  assert (Am : Z.abs zm < 10 ^ 15).
  { apply (small_abs zm 60); [apply (int_range m zm 0 60 Em); [exact H3|exact H4]|lia]. }
  assert (As : Z.abs zs < 10 ^ 15).
  { apply (small_abs zs 60); [apply (int_range s zs 0 60 Es); [exact H5|exact H6]|lia]. }
  assert (A0 : Z.abs 0 < 10 ^ 4300) by (change (0 < 10 ^ 4300); apply Z.pow_pos_nonneg; [reflexivity|intro C; discriminate C]).
  assert (Ad : Z.abs dd < 10 ^ 4300) by (rewrite Z.abs_eq; assumption).
  assert (EQ : dur_equiv (DU 0 0 dd h m s) (DU 0 0 dd (inject_Z zh) (inject_Z zm) (inject_Z zs))).
  { cbn [dur_equiv]. repeat split; assumption. }
  pose proof (printable_int_units 0 0 dd zh zm zs A0 A0 Ad Ah Am As) as P.
  unfold printable in P. rewrite <- (dur_str_equiv _ _ EQ) in P.
  unfold diff_out. destruct (dur_str (DU 0 0 dd h m s)) as [txt| | | |]; try discriminate P.
  exists txt. auto.
Qed.

Lemma isint_abs x : isint x -> isint (Qabs x).
Proof.
  intros [z E]. destruct (Qlt_le_dec x 0) as [L | L].
  - exists (- z). rewrite inject_Z_opp, <- E. apply Qabs_neg. lra.
  - exists z. rewrite <- E. apply Qabs_pos. exact L.
Qed.

(* a difference of whole seconds below 10^4300 days is always printed *)
Lemma cli_diff_prints : forall md local t1 t2 p1 f1 p2 f2,
  date_parse md false local t1 = inl (Some (p1, f1)) -> date_parse md false local t2 = inl (Some (p2, f2)) ->
  isint (instant md p2 - instant md p1) ->
  (Qabs (instant md p2 - instant md p1) < inject_Z (86400 * 10 ^ 4300))%Q ->
  exists txt,
    ((instant md p2 < instant md p1)%Q -> cli_diff md local t1 t2 = COut ("-" ++ txt)) /\
    ((instant md p1 <= instant md p2)%Q -> cli_diff md local t1 t2 = COut txt).
Proof.
  intros md local t1 t2 p1 f1 p2 f2 H1 H2 HI HB.
  remember (10 ^ 4300) as X eqn:EX.
  destruct (cli_diff_spec md local t1 t2 p1 f1 p2 f2 H1 H2)
    as (dd & h & m & s & A & B & Len & NN & SS & _ & Ih & Im & R).
  cbv zeta in *. rewrite dur_len_units in Len.
  destruct R as (R1 & R2 & R3 & R4 & R5 & R6).
  assert (Is : qis_int s = true).
  { apply qis_int_iff. apply qis_int_iff in Ih, Im. destruct Ih as [zh Eh], Im as [zm Em].
    destruct (isint_abs _ HI) as [za Ea].
    exists (za - dd * 86400 - zh * 3600 - zm * 60).
    unfold Z.sub. rewrite !inject_Z_plus, !inject_Z_opp, !inject_Z_mult, <- Ea, <- Eh, <- Em.
    rewrite inject_Z_mult in Len.
    change (inject_Z 3600) with 3600%Q. change (inject_Z 60) with 60%Q. lra. }
  assert (Hd : 0 <= dd < X).
  { cbn [nonneg_dur] in NN. split; [lia|].
    assert (K : (dd * 86400 < 86400 * X)%Z); [|lia].
    apply inj_lt. eapply Qle_lt_trans; [|exact HB]. rewrite <- Len.
    assert (0 <= h * 3600 + m * 60 + s)%Q by nra. lra. }
  subst X.
  destruct (diff_out_int "-" dd h m s Hd Ih Im Is (conj R1 (conj R2 (conj R3 (conj R4 (conj R5 R6))))))
    as (txt & DS & O1).
  exists txt. split.
  - intros L. destruct (A L) as [_ ->]. exact O1.
  - intros L. destruct (B L) as [_ ->]. unfold diff_out. rewrite DS. reflexivity.
Qed.
