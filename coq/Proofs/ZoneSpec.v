(* Proofs/ZoneSpec.v -- TimePoint.to_time_zone / to_utc: re-zoning adds the
   difference of the offsets as an exact duration and relabels the zone, so
   the instant is unchanged (property C06). *)
From Coq Require Import QArith Qround Qabs Lqa.
From Iso Require Import Proofs.Tac Spec.Cal Spec.Instant Model.Num Model.Helpers Model.Duration
  Model.TimePoint Proofs.HelpersSpec Proofs.ConvSpec Proofs.TickSpec Proofs.AddSpec.
Open Scope Z_scope.
Open Scope Q_scope.

Lemma zone_diff_exact z zp : is_exact (zone_diff z zp) = true.
Proof. reflexivity. Qed.

Lemma zone_diff_len z zp :
  dur_len (zone_diff z zp) == inject_Z (zone_secs z) - inject_Z (zone_secs zp).
Proof.
  unfold zone_diff. rewrite dur_len_units. unfold zone_secs, qz.
  unfold Z.sub. rewrite !inject_Z_plus, !inject_Z_mult, !inject_Z_opp.
  change (inject_Z 0) with 0. change (inject_Z 0 * 86400) with 0.
  change (inject_Z 3600) with 3600. change (inject_Z 60) with 60. ring.
Qed.

Lemma to_time_zone_spec : forall md p z,
  valid_tp md p = true -> valid_zone z = true ->
  exists r, to_time_zone md p z = Some r /\
            (instant md r == instant md p)%Q /\ tzone r = z /\
            rep_kind (tdate r) = rep_kind (tdate p) /\ tod_kind (ttod r) = tod_kind (ttod p) /\
            valid_tp md r = true.
Proof.
  intros md p z V VZ.
  destruct (tp_add_exact_spec md p (zone_diff z (tzone p)) V (zone_diff_exact _ _))
    as (q & E & I & K1 & K2 & Zq & Vq).
  exists (mkTp (tdate q) (ttod q) z). unfold to_time_zone. rewrite E.
  split; [reflexivity|]. cbn [tdate ttod tzone].
  split; [|split; [reflexivity|split; [exact K1|split; [exact K2|]]]].
  - rewrite zone_diff_len in I. unfold instant in *. cbn [tdate ttod tzone]. rewrite Zq in I.
    unfold qz in *. lra.
  - destruct (valid_tp_parts md q Vq) as (A & B & _).
    unfold valid_tp. cbn [tdate ttod tzone]. rewrite A, B, VZ. reflexivity.
Qed.

Lemma to_utc_spec : forall md p, valid_tp md p = true ->
  exists r, to_utc md p = Some r /\ (instant md r == instant md p)%Q /\ tzone r = mkZone 0 0 /\
            valid_tp md r = true.
Proof.
  intros md p V.
  destruct (to_time_zone_spec md p zone_utc V eq_refl) as (r & E & I & Z & _ & _ & Vr).
  exists r. unfold to_utc. auto.
Qed.

Open Scope Z_scope.
