(* Proofs/DurSpec.v -- duration arithmetic, equality, ordering and hashing
   (property C11) proved of Model/Duration.v. *)
From Coq Require Import QArith Qround Qabs Lqa Lia.
From Iso Require Import Proofs.Tac Spec.Cal Model.Num Model.Helpers Model.Duration.
Open Scope Z_scope.

(* same bodies as in Props/C11.v *)
Definition dur_years (x : dur) : Z := match x with DW _ => 0 | DU y _ _ _ _ _ => y end.
Definition dur_months (x : dur) : Z := match x with DW _ => 0 | DU _ m _ _ _ _ => m end.
Definition rough_len (md : mode) (x : dur) : Q :=
  (inject_Z ((dur_years x * DAYS_IN_YEAR md + dur_months x * 30) * 86400) + dur_len x)%Q.

(* ---------- rationals ---------- *)
Lemma qadd_eq a b : (qadd a b == a + b)%Q. Proof. apply Qred_correct. Qed.
Lemma qmul_eq a b : (qmul a b == a * b)%Q. Proof. apply Qred_correct. Qed.
Lemma qeqb_iff a b : qeqb a b = true <-> (a == b)%Q. Proof. apply Qeq_bool_iff. Qed.

(* push inject_Z to the leaves, drop Qred, name the constants *)
Ltac qnorm :=
  unfold qz, qadd, qsub, qmul in *;
  rewrite ?Qred_correct in *;
  repeat first [rewrite inject_Z_plus in * | rewrite inject_Z_mult in * | rewrite inject_Z_opp in *];
  change (inject_Z 0) with 0%Q in *; change (inject_Z 1) with 1%Q in *;
  change (inject_Z 7) with 7%Q in *; change (inject_Z 30) with 30%Q in *;
  change (inject_Z 60) with 60%Q in *; change (inject_Z 3600) with 3600%Q in *;
  change (inject_Z 86400) with 86400%Q in *; change (inject_Z 604800) with 604800%Q in *.

Lemma qdivmod_day x :
  let '(q, r) := qdivmod x 86400 in
  (x == inject_Z q * 86400 + r /\ 0 <= r /\ r < 86400)%Q.
Proof.
  unfold qdivmod, qz. change (inject_Z 86400) with 86400%Q.
  set (y := (x / 86400)%Q).
  assert (Hx : (x == y * 86400)%Q) by (unfold y; field).
  pose proof (Qfloor_le y) as H1. pose proof (Qlt_floor y) as H2.
  rewrite inject_Z_plus in H2. change (inject_Z 1) with 1%Q in H2.
  rewrite Qred_correct. repeat split; lra.
Qed.

(* ---------- length, years, months of the operations ---------- *)
Lemma dur_len_DW w : (dur_len (DW w) == inject_Z (604800 * w))%Q.
Proof. unfold dur_len, non_nominal_seconds. qnorm. lra. Qed.

Lemma dur_len_DU y mo d h mi s :
  (dur_len (DU y mo d h mi s) ==
   inject_Z (86400 * d) + inject_Z 3600 * h + inject_Z 60 * mi + s)%Q.
Proof. unfold dur_len, non_nominal_seconds. qnorm. lra. Qed.

Lemma dur_len_DU' y mo d h mi s :
  (dur_len (DU y mo d h mi s) == 86400 * inject_Z d + 3600 * h + 60 * mi + s)%Q.
Proof. rewrite dur_len_DU. qnorm. lra. Qed.

Lemma dur_len_DW' w : (dur_len (DW w) == 604800 * inject_Z w)%Q.
Proof. rewrite dur_len_DW. qnorm. lra. Qed.

Lemma dur_len_to_days a : (dur_len (to_days a) == dur_len a)%Q.
Proof.
  destruct a; cbn [to_days]; [|reflexivity].
  rewrite dur_len_DU', dur_len_DW'. qnorm. lra.
Qed.

Lemma is_exact_ym a : is_exact a = (dur_years a =? 0) && (dur_months a =? 0).
Proof. destruct a; reflexivity. Qed.

Lemma dur_add_years a b : dur_years (dur_add a b) = dur_years a + dur_years b.
Proof. destruct a, b; reflexivity. Qed.
Lemma dur_add_months a b : dur_months (dur_add a b) = dur_months a + dur_months b.
Proof. destruct a, b; reflexivity. Qed.
Lemma dur_add_len a b : (dur_len (dur_add a b) == dur_len a + dur_len b)%Q.
Proof.
  destruct a, b; cbn [dur_add to_days];
    rewrite ?dur_len_DU', ?dur_len_DW'; qnorm; lra.
Qed.

Lemma dur_mul_years a n : dur_years (dur_mul a n) = dur_years a * n.
Proof. destruct a; reflexivity. Qed.
Lemma dur_mul_months a n : dur_months (dur_mul a n) = dur_months a * n.
Proof. destruct a; reflexivity. Qed.
Lemma dur_mul_len a n : (dur_len (dur_mul a n) == dur_len a * inject_Z n)%Q.
Proof.
  destruct a; cbn [dur_mul]; rewrite ?dur_len_DU', ?dur_len_DW'; qnorm; ring.
Qed.

(* ---------- C11 statements ---------- *)
Lemma dur_units :
  (forall w, dur_len (DW w) == inject_Z (604800 * w))%Q /\
  (forall y mo d h mi s, dur_len (DU y mo d h mi s) ==
       inject_Z (86400 * d) + inject_Z 3600 * h + inject_Z 60 * mi + s)%Q /\
  dur_eqb (DW 1) (DU 0 0 7 0 0 0) = true /\ dur_eqb (DU 0 0 1 0 0 0) (DU 0 0 0 24 0 0) = true /\
  dur_eqb (DU 0 0 0 1 0 0) (DU 0 0 0 0 60 0) = true /\ dur_eqb (DU 0 0 0 0 1 0) (DU 0 0 0 0 0 60) = true /\
  DAYS_IN_YEAR G = 365 /\ DAYS_IN_YEAR D360 = 360 /\ DAYS_IN_YEAR D365 = 365 /\ DAYS_IN_YEAR D366 = 366.
Proof.
  split; [exact dur_len_DW|]. split; [exact dur_len_DU|].
  repeat split; vm_compute; reflexivity.
Qed.

Lemma dur_add_value : forall a b,
  dur_years (dur_add a b) = dur_years a + dur_years b /\
  dur_months (dur_add a b) = dur_months a + dur_months b /\
  (dur_len (dur_add a b) == dur_len a + dur_len b)%Q.
Proof.
  intros a b. split; [apply dur_add_years|]. split; [apply dur_add_months|apply dur_add_len].
Qed.

Lemma dur_eqb_general : forall a b,
  dur_eqb a b = true <->
  (is_exact a = is_exact b /\ dur_years a = dur_years b /\ dur_months a = dur_months b /\
   (dur_len a == dur_len b)%Q).
Proof.
  intros a b. unfold dur_eqb, dur_len, qeqb.
  generalize (non_nominal_seconds a) (non_nominal_seconds b); intros la lb.
  destruct a as [w1|y1 m1 d1 h1 i1 s1], b as [w2|y2 m2 d2 h2 i2 s2];
    cbn [is_exact to_days get_is_in_weeks dur_years dur_months negb].
  - rewrite Qeq_bool_iff. tauto.
  - destruct (y2 =? 0) eqn:?, (m2 =? 0) eqn:?; cbn [andb]; rewrite ?Qeq_bool_iff;
      intuition (try discriminate; try lia).
  - destruct (y1 =? 0) eqn:?, (m1 =? 0) eqn:?; cbn [andb]; rewrite ?Qeq_bool_iff;
      intuition (try discriminate; try lia).
  - destruct (y1 =? 0) eqn:?, (m1 =? 0) eqn:?, (y2 =? 0) eqn:?, (m2 =? 0) eqn:?;
      destruct (y1 =? y2) eqn:?, (m1 =? m2) eqn:?; cbn [andb]; rewrite ?Qeq_bool_iff;
      intuition (try discriminate; try lia).
Qed.

Lemma dur_eqb_intro a b :
  dur_years a = dur_years b -> dur_months a = dur_months b ->
  (dur_len a == dur_len b)%Q -> dur_eqb a b = true.
Proof.
  intros Hy Hm Hl. apply dur_eqb_general. rewrite !is_exact_ym, Hy, Hm. auto.
Qed.

Lemma dur_add_comm : forall a b, dur_eqb (dur_add a b) (dur_add b a) = true.
Proof.
  intros a b. apply dur_eqb_intro;
    rewrite ?dur_add_years, ?dur_add_months, ?dur_add_len; try lia; lra.
Qed.

Lemma dur_add_assoc : forall a b c,
  dur_eqb (dur_add (dur_add a b) c) (dur_add a (dur_add b c)) = true.
Proof.
  intros a b c. apply dur_eqb_intro;
    rewrite ?dur_add_years, ?dur_add_months, ?dur_add_len; try lia; lra.
Qed.

Lemma dur_len_dzero : (dur_len dzero == 0)%Q.
Proof. reflexivity. Qed.

Lemma dur_add_identity : forall a, dur_eqb (dur_add a dzero) a = true /\ dur_eqb (dur_add dzero a) a = true.
Proof.
  intros a. split; apply dur_eqb_intro;
    rewrite ?dur_add_years, ?dur_add_months, ?dur_add_len, ?dur_len_dzero;
    cbn [dur_years dur_months dzero]; try lia; lra.
Qed.

Lemma qinv_zero h : qeqb (qadd h (qmul h (qz (-1)))) 0 = true.
Proof. apply qeqb_iff. qnorm. change (inject_Z (-1)) with (-1#1)%Q. lra. Qed.

Lemma zinv_zero y : (y + y * -1 =? 0) = true.
Proof. lia. Qed.

Lemma dur_add_inverse : forall a, dur_bool (dur_add a (dur_mul a (-1))) = false.
Proof.
  intros [w|y mo d h mi s]; cbn [dur_mul dur_add to_days dur_bool];
    rewrite ?zinv_zero, ?qinv_zero; reflexivity.
Qed.

Lemma qmul_zero h : qeqb (qmul h (qz 0)) 0 = true.
Proof. apply qeqb_iff. qnorm. lra. Qed.

Lemma zmul_zero y : (y * 0 =? 0) = true.
Proof. lia. Qed.

Lemma dur_mul_fold : forall a n,
  dur_bool (dur_mul a 0) = false /\ dur_eqb (dur_mul a 1) a = true /\
  dur_eqb (dur_mul a (n + 1)) (dur_add (dur_mul a n) a) = true /\
  dur_eqb (dur_mul a (n - 1)) (dur_add (dur_mul a n) (dur_mul a (-1))) = true.
Proof.
  intros a n. split; [|split; [|split]].
  - destruct a; cbn [dur_mul dur_bool]; rewrite ?zmul_zero, ?qmul_zero; reflexivity.
  - apply dur_eqb_intro;
      rewrite ?dur_mul_years, ?dur_mul_months, ?dur_mul_len; try lia. qnorm. lra.
  - apply dur_eqb_intro;
      rewrite ?dur_add_years, ?dur_add_months, ?dur_add_len,
              ?dur_mul_years, ?dur_mul_months, ?dur_mul_len; try lia. qnorm. ring.
  - apply dur_eqb_intro;
      rewrite ?dur_add_years, ?dur_add_months, ?dur_add_len,
              ?dur_mul_years, ?dur_mul_months, ?dur_mul_len; try lia.
    unfold Z.sub. qnorm. ring.
Qed.

Lemma dur_sub_def : forall a b, dur_sub a b = dur_add a (dur_mul b (-1)).
Proof. reflexivity. Qed.

Lemma dur_eqb_equivalence :
  (forall a, dur_eqb a a = true) /\ (forall a b, dur_eqb a b = dur_eqb b a) /\
  (forall a b c, dur_eqb a b = true -> dur_eqb b c = true -> dur_eqb a c = true).
Proof.
  split; [|split].
  - intros a. apply dur_eqb_intro; reflexivity.
  - intros a b. apply Bool.eq_true_iff_eq. rewrite !dur_eqb_general.
    intuition (try congruence; symmetry; assumption).
  - intros a b c. rewrite !dur_eqb_general.
    intros (E1 & Y1 & M1 & L1) (E2 & Y2 & M2 & L2).
    repeat split; try congruence. rewrite L1. exact L2.
Qed.

Lemma dur_eqb_exact : forall a b, is_exact a = true -> is_exact b = true ->
  (dur_eqb a b = true <-> (dur_len a == dur_len b)%Q).
Proof.
  intros a b Ea Eb. rewrite dur_eqb_general.
  rewrite is_exact_ym in Ea, Eb. rewrite is_exact_ym, is_exact_ym.
  intuition lia.
Qed.

Lemma dur_eqb_hash : forall a b, dur_eqb a b = true ->
  let '(y1, m1, s1) := dur_hash_key a in let '(y2, m2, s2) := dur_hash_key b in
  y1 = y2 /\ m1 = m2 /\ (s1 == s2)%Q.
Proof.
  intros a b H. apply dur_eqb_general in H. destruct H as (_ & Y & M & L).
  unfold dur_len in L.
  destruct a, b; cbn [dur_hash_key dur_years dur_months] in *; auto.
Qed.

Lemma days_and_seconds_spec : forall md a,
  let '(d, s) := days_and_seconds md a in
  (0 <= s /\ s < inject_Z 86400 /\ inject_Z (86400 * d) + s == rough_len md a)%Q.
Proof.
  intros md [w|y mo d h mi s]; unfold rough_len.
  - cbn [days_and_seconds dur_years dur_months]. rewrite dur_len_DW'. qnorm. repeat split; lra.
  - cbn [dur_years dur_months]. unfold days_and_seconds.
    pose proof (qdivmod_day (Qred (h * qz 3600 + mi * qz 60 + s))) as H.
    destruct (qdivmod (Qred (h * qz 3600 + mi * qz 60 + s)) 86400) as [dd r].
    destruct H as (H1 & H2 & H3). rewrite dur_len_DU'. qnorm. repeat split; lra.
Qed.

Lemma inj_succ_le d1 d2 : d1 < d2 -> (inject_Z d1 + 1 <= inject_Z d2)%Q.
Proof.
  intros H. change 1%Q with (inject_Z 1). rewrite <- inject_Z_plus, <- Zle_Qle. lia.
Qed.

Lemma ds_ltb_spec d1 s1 d2 s2 :
  (0 <= s1 -> s1 < 86400 -> 0 <= s2 -> s2 < 86400 ->
   (ds_ltb (d1, s1) (d2, s2) = true <->
    86400 * inject_Z d1 + s1 < 86400 * inject_Z d2 + s2))%Q.
Proof.
  intros A1 A2 B1 B2. unfold ds_ltb, qltb. cbn [fst snd].
  destruct (d1 <? d2) eqn:L; [|destruct (d1 =? d2) eqn:E]; cbn [orb andb negb].
  - assert (H : (inject_Z d1 + 1 <= inject_Z d2)%Q).
    { apply inj_succ_le. lia. }
    split; [intros _; lra|reflexivity].
  - assert (d1 = d2) by lia. subst d2.
    destruct (Qle_bool s2 s1) eqn:Q; cbn [negb].
    + apply Qle_bool_iff in Q. split; [discriminate|lra].
    + assert (~ (s2 <= s1)%Q) by (rewrite <- Qle_bool_iff; congruence).
      split; [intros _; lra|reflexivity].
  - assert (H : (inject_Z d2 + 1 <= inject_Z d1)%Q).
    { apply inj_succ_le. lia. }
    split; [discriminate|lra].
Qed.

Lemma dur_order_spec : forall md a b,
  (dur_ltb md a b = true <-> (rough_len md a < rough_len md b)%Q) /\
  (dur_leb md a b = true <-> (rough_len md a <= rough_len md b)%Q) /\
  dur_gtb md a b = dur_ltb md b a /\ dur_geb md a b = dur_leb md b a.
Proof.
  intros md a b.
  cut ((dur_ltb md a b = true <-> (rough_len md a < rough_len md b)%Q) /\
       (dur_leb md a b = true <-> (rough_len md a <= rough_len md b)%Q)).
  { intros [H1 H2]. repeat split; solve [apply H1 | apply H2]. }
  pose proof (days_and_seconds_spec md a) as Ha.
  pose proof (days_and_seconds_spec md b) as Hb.
  unfold dur_ltb, dur_leb, ds_leb.
  destruct (days_and_seconds md a) as [d1 s1], (days_and_seconds md b) as [d2 s2].
  destruct Ha as (A1 & A2 & A3), Hb as (B1 & B2 & B3).
  rewrite <- A3, <- B3. qnorm.
  split.
  - rewrite ds_ltb_spec by assumption. reflexivity.
  - rewrite Bool.negb_true_iff, <- Bool.not_true_iff_false, ds_ltb_spec by assumption.
    split; [intros; lra|intros ? ?; lra].
Qed.

Lemma rough_len_exact md a : is_exact a = true -> (rough_len md a == dur_len a)%Q.
Proof.
  intros E. rewrite is_exact_ym in E. unfold rough_len.
  replace (dur_years a) with 0 by lia. replace (dur_months a) with 0 by lia.
  change (inject_Z ((0 * DAYS_IN_YEAR md + 0 * 30) * 86400)) with 0%Q. lra.
Qed.

Lemma dur_order_exact : forall md a b, is_exact a = true -> is_exact b = true ->
  (dur_ltb md a b = true <-> (dur_len a < dur_len b)%Q) /\
  (dur_leb md a b = true <-> (dur_len a <= dur_len b)%Q).
Proof.
  intros md a b Ea Eb. destruct (dur_order_spec md a b) as (H1 & H2 & _).
  rewrite (rough_len_exact md a Ea), (rough_len_exact md b Eb) in H1, H2. split; assumption.
Qed.
