(* Proofs/HelpersSpec.v -- the model's calendar helpers refine Spec/Cal.v,
   for every year in Z and every mode. *)
From Iso Require Import Proofs.Tac Spec.Cal Model.Helpers.

Lemma get_is_leap_year_spec y : get_is_leap_year y = is_leap y.
Proof.
  unfold get_is_leap_year, is_leap, leap_factors; cbn [fold_left fst snd].
  destruct (y mod 4 =? 0) eqn:E4, (y mod 100 =? 0) eqn:E100, (y mod 400 =? 0) eqn:E400;
    cbn [andb orb negb]; try reflexivity; lia.
Qed.

Lemma get_days_in_year_spec md y : get_days_in_year md y = ylen md y.
Proof.
  unfold get_days_in_year; rewrite get_is_leap_year_spec.
  destruct md; cbn; destruct (is_leap y); reflexivity.
Qed.

Lemma dby_succ md y : dby md (y + 1) = dby md y + ylen md y.
Proof.
  destruct md; cbn [dby ylen]; try lia.
  unfold is_leap.
  destruct (y mod 4 =? 0) eqn:E4, (y mod 100 =? 0) eqn:E100, (y mod 400 =? 0) eqn:E400;
    cbn [andb orb negb]; lia.
Qed.


(* the per-factor correction count of _get_days_in_year_range is the number of
   multiples of the factor in [s, e]; the factor must be a literal for lia *)
Ltac corr_tac :=
  intros Hse; unfold range_corrections, next_multiple;
  repeat match goal with |- context [if ?b then _ else _] => destruct b eqn:? end;
  cbn [andb negb] in *; lia.

Lemma corr4 s e : s < e -> range_corrections s e 4 = e / 4 - (s - 1) / 4.
Proof. corr_tac. Qed.
Lemma corr100 s e : s < e -> range_corrections s e 100 = e / 100 - (s - 1) / 100.
Proof. corr_tac. Qed.
Lemma corr400 s e : s < e -> range_corrections s e 400 = e / 400 - (s - 1) / 400.
Proof. corr_tac. Qed.

Lemma range_spec md s e :
  get_days_in_year_range md s e = if s <=? e then dby md (e + 1) - dby md s else 0.
Proof.
  unfold get_days_in_year_range.
  destruct (s =? e) eqn:Ese.
  - assert (s = e) by lia; subst e. rewrite get_days_in_year_spec, dby_succ.
    destruct (s <=? s) eqn:?; lia.
  - destruct (e <? s) eqn:Ees.
    + destruct (s <=? e) eqn:?; lia.
    + assert (Hse : s < e) by lia.
      destruct (s <=? e) eqn:?; [|lia].
      unfold leap_factors; cbn [fold_left fst snd].
      rewrite (corr4 s e Hse), (corr100 s e Hse), (corr400 s e Hse).
      destruct md; cbn [dby];
        match goal with |- context [DAYS_IN_YEAR_LEAP ?m] =>
          let a := eval vm_compute in (DAYS_IN_YEAR_LEAP m) in
          let b := eval vm_compute in (DAYS_IN_YEAR m) in
          change (DAYS_IN_YEAR_LEAP m) with a; change (DAYS_IN_YEAR m) with b end; lia.
Qed.

(* ---- month tables ---- *)
Lemma year_months_spec md y : year_months md y = months md y.
Proof.
  unfold year_months, months, DAYS_IN_MONTHS_LEAP, DAYS_IN_MONTHS.
  rewrite get_is_leap_year_spec; reflexivity.
Qed.

Lemma get_days_in_month_spec md y m : 1 <= m <= 12 -> get_days_in_month md m y = mlen md y m.
Proof.
  intros _. unfold get_days_in_month, znth, mlen. rewrite year_months_spec; reflexivity.
Qed.

(* case split of a bounded integer into its literal values *)
Ltac cases12 m :=
  let H := fresh in
  assert (H : m = 1 \/ m = 2 \/ m = 3 \/ m = 4 \/ m = 5 \/ m = 6 \/ m = 7 \/ m = 8 \/
              m = 9 \/ m = 10 \/ m = 11 \/ m = 12) by lia;
  repeat (destruct H as [H | H]; [subst m | ]); [..| subst m].

Lemma mode_lengths y :
  (forall m, 1 <= m <= 12 -> mlen D360 y m = 30) /\ ylen D360 y = 360 /\
  ylen D365 y = 365 /\ ylen D366 y = 366 /\ mlen D365 y 2 = 28 /\ mlen D366 y 2 = 29 /\
  ylen G y = (if is_leap y then 366 else 365) /\ mlen G y 2 = (if is_leap y then 29 else 28).
Proof.
  split.
  - intros m Hm. unfold mlen, months. cases12 m; destruct (is_leap y); reflexivity.
  - unfold mlen, months. repeat split; destruct (is_leap y); reflexivity.
Qed.

Lemma year_is_sum_of_months md y :
  ylen md y = cum md y 12 /\
  (forall k, 0 <= k < 12 -> cum md y (k + 1) = cum md y k + mlen md y (k + 1)) /\
  cum md y 0 = 0.
Proof.
  split; [|split].
  - destruct md; cbn [ylen cum]; destruct (is_leap y); reflexivity.
  - intros k Hk.
    assert (H : k = 0 \/ k = 1 \/ k = 2 \/ k = 3 \/ k = 4 \/ k = 5 \/ k = 6 \/ k = 7 \/
                k = 8 \/ k = 9 \/ k = 10 \/ k = 11) by lia.
    unfold mlen, months.
    repeat (destruct H as [H | H]; [subst k | ]); [..| subst k];
      destruct md; cbn [cum]; destruct (is_leap y); reflexivity.
  - destruct md; cbn [cum]; destruct (is_leap y); reflexivity.
Qed.
