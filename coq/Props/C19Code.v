(* Props/C19Code.v -- property C19, tied to the SOURCE of class DateTimeOperator: gen/GenCode11.v holds the
   method bodies that tools/translate_code11.py translated from /repo/metomi/isodatetime/datetimeoper.py on this
   run (Python ast -> Gallina: statements as state transformers over the method's locals, expressions in the
   exception monad over the dynamically typed universe pyval).  The parsers, the dumper, the TimePoint / Duration
   arithmetic and the two datetime fall-backs are the fields of oper_ops; here they are instantiated
   (mops md utc local) with the model's parse_text, strptime, dur_parse, do_dump, strftime, to_utc, tp_add,
   tp_sub_dur, tp_sub, tp_cmp, dur_str (that the real methods behave as these is what the other properties and
   GenCode phases establish).  Every function of Model/Cli.v that Props/C19.v talks about is what the translated
   method computes.  Statements only.
   How results are read (Proofs/GenCode11Ok.v): cres_of: a returned string is COut, an exception is CExit, except
   OpError 2 ("the model of an abstract operation has no answer") which is CUnmodelled; res_point / res_parse
   the same for a returned point / (point, format) pair.
   sp_modelled: the two strptime attempts with the ISO formats neither leave the text model nor give a
   truncated point (the model tries the next format there, the code would stop). *)
From Coq Require Import ZArith QArith List String.
From Iso Require Import Spec.Cal Model.Num Model.Duration Model.TimePoint Model.Parse Model.DurText Model.Cli
  gen.GenCode11 Proofs.CliSpec Proofs.GenCode11Ok.
Import ListNotations.
Open Scope string_scope.
Open Scope Z_scope.

Theorem C19_code_translator_ok : gen.GenCode11.translator_ok_code11 = true.
Proof. exact gen_code11_accepted. Qed.
Print Assumptions C19_code_translator_ok.

(* date_shift: the sign prefix, the duration parse (OffsetValueError), add or subtract = the model's date_shift *)
Theorem C19_code_date_shift : forall md utc local sf p x off,
  res_point (py_date_shift (mops md utc local) sf (VPoint (p, x)) (VStr off)) = date_shift md p off.
Proof. exact gen11_date_shift_model. Qed.
Print Assumptions C19_code_date_shift.

(* ... with the exception that is raised where *)
Theorem C19_code_date_shift_exc : forall md utc local sf p x off,
  py_date_shift (mops md utc local) sf (VPoint (p, x)) (VStr off) = shift_exc md p x off.
Proof. exact gen11_date_shift. Qed.
Print Assumptions C19_code_date_shift_exc.

Theorem C19_code_date_shift_refused : forall md utc local sf p x off, off_refused off ->
  py_date_shift (mops md utc local) sf (VPoint (p, x)) (VStr off) = Raise OffsetValueError.
Proof. exact gen11_date_shift_refused. Qed.
Print Assumptions C19_code_date_shift_refused.

(* date_format (strftime with its datetime fall-back, or the dumper) = the model's date_format *)
Theorem C19_code_date_format : forall md utc local sf p x fmt,
  cres_of (py_date_format (mops md utc local) sf (VStr fmt) (VPoint (p, x))) = date_format md p fmt.
Proof. exact gen11_date_format. Qed.
Print Assumptions C19_code_date_format.

(* date_parse: "ref" / "now", the four strptime formats with the time.strptime fall-back, the ISO 8601 parser
   with dump_as_parsed, to_utc in utc mode = the model's date_parse *)
Theorem C19_code_date_parse : forall md utc local text, sp_modelled md (cli_cfg utc local) text ->
  res_parse (py_date_parse (mops md utc local) (self_of utc) (VStr text)) = date_parse md utc local text.
Proof. exact gen11_date_parse. Qed.
Print Assumptions C19_code_date_parse.

(* date_parse with --parse-format: the text is read by the library's strptime with that format alone and the point
   is converted to UTC exactly in utc mode (every format whose directives are in the strftime table; "ref" and
   "now" are the keywords of the other branch) *)
Theorem C19_code_date_parse_custom : forall md utc local text fmt,
  fmt_supported fmt = true -> String.eqb text "ref" = false -> String.eqb text "now" = false ->
  py_date_parse (mops md utc local) (self_pf utc fmt) (VStr text) =
  match m_tp_strptime md utc local text fmt with
  | Ret p => if utc then match m_to_utc md p with Ret q => Ret (VTuple [VPoint q; VStr fmt]) | Raise e => Raise e end
             else Ret (VTuple [VPoint p; VStr fmt])
  | Raise e => Raise e
  end.
Proof. exact gen11_date_parse_custom. Qed.
Print Assumptions C19_code_date_parse_custom.

(* closed instances through process_time_point_str (expected values: the real command line, e.g.
   `isodatetime --utc --parse-format=%Y%m%dT%H%M%z 20200101T0000+0100 --offset=PT1H`) *)
Example C19_code_ex_custom :
  [cres_of (py_process_time_point_str (mops G true (0, 0)) (self_pf true "%Y%m%dT%H%M%z")
              (VStr "20200101T0000+0100") VNone VNone);
   cres_of (py_process_time_point_str (mops G true (0, 0)) (self_pf true "%Y%m%dT%H%M%z")
              (VStr "20200101T0000+0100") (VList [VStr "PT1H"]) VNone);
   cres_of (py_process_time_point_str (mops G false (0, 0)) (self_pf false "%Y%m%dT%H%M%z")
              (VStr "20200101T0000+0100") (VList [VStr "PT1H"]) VNone);
   cres_of (py_process_time_point_str (mops G true (0, 0)) (self_pf true "%d/%m/%Y_%H")
              (VStr "29/02/2020_23") (VList [VStr "P1D"]) VNone)]
  = [COut "20191231T2300+0000"; COut "20200101T0000+0000"; COut "20200101T0100+0100"; COut "01/03/2020_23"].
Proof. vm_compute. reflexivity. Qed.

(* process_time_point_str = cli_shift *)
Theorem C19_code_process_time_point_str : forall md utc local text offs pf,
  sp_modelled md (cli_cfg utc local) text -> pf <> Some "" ->
  cres_of (py_process_time_point_str (mops md utc local) (self_of utc) (VStr text) (VList (map VStr offs)) (optstr pf))
  = cli_shift md utc local text offs pf.
Proof. exact gen11_process. Qed.
Print Assumptions C19_code_process_time_point_str.

Theorem C19_code_process_no_offsets : forall md utc local text pf,
  sp_modelled md (cli_cfg utc local) text -> pf <> Some "" ->
  cres_of (py_process_time_point_str (mops md utc local) (self_of utc) (VStr text) VNone (optstr pf))
  = cli_shift md utc local text [] pf.
Proof. exact gen11_process_no_offsets. Qed.
Print Assumptions C19_code_process_no_offsets.

(* date_diff: the comparison, which way round the subtraction goes, the sign *)
Theorem C19_code_date_diff : forall md utc local sf p1 x1 p2 x2,
  py_date_diff (mops md utc local) sf (VPoint (p1, x1)) (VPoint (p2, x2)) = diff_exc md p1 p2.
Proof. exact gen11_date_diff. Qed.
Print Assumptions C19_code_date_diff.

(* diff_time_point_strs (no offsets, no print formats) = cli_diff, wherever the model has an answer *)
Theorem C19_code_diff_time_point_strs : forall md local t1 t2,
  sp_modelled md (cli_cfg false local) t1 -> sp_modelled md (cli_cfg false local) t2 ->
  cli_diff md local t1 t2 <> CUnmodelled ->
  cres_of (py_diff_time_point_strs (mops md false local) (self_of false) (VStr t1) (VStr t2) VNone VNone VNone VNone)
  = cli_diff md local t1 t2.
Proof. exact gen11_diff. Qed.
Print Assumptions C19_code_diff_time_point_strs.

(* __init__, for every environment (O_getenv abstract): the attributes; the calendar mode that is set is the
   option when given (non-empty), else $ISODATETIMECALENDAR; the parser is created with assumed_time_zone (0, 0)
   exactly in utc mode (what `mops md utc local` / `cli_cfg utc local` assume); the reference point is the
   option, else $ISODATETIMEREF *)
Theorem C19_code_init : forall (ops : oper_ops xp dur) sf pf utc cal ref,
  str_or_none pf -> str_or_none cal -> str_or_none ref ->
  exists st, py___init__ ops sf pf (VBool utc) cal ref = Ret (VDict st) /\
    dict_get "self.custom_parse_format" st = Some pf /\
    dict_get "self.utc_mode" st = Some (VBool utc) /\
    dict_get "!calendar_mode" st =
      Some (match cal with VStr (String _ _) => cal | _ => getenv_val ops "ISODATETIMECALENDAR" end) /\
    dict_get "self.time_point_parser" st =
      Some (VTuple [VStr "TimePointParser"; VList [];
                    VDict [("assumed_time_zone", if utc then VTuple [VInt 0; VInt 0] else VNone)]]) /\
    dict_get "self.duration_parser" st = Some (VTuple [VStr "DurationParser"; VList []; VDict []]) /\
    dict_get "self.time_point_dumper" st = Some (VTuple [VStr "TimePointDumper"; VList []; VDict []]) /\
    dict_get "self.ref_point_str" st = Some (match ref with VNone => getenv_val ops "ISODATETIMEREF" | _ => ref end).
Proof. exact gen11_init. Qed.
Print Assumptions C19_code_init.

(* the translated code evaluated (closed vm_compute); the expected values are the REAL package's
   (tools/gencode11_example.py, /venv/bin/python, PYTHONPATH=/repo; --check compares) *)
Example C19_code_ex :
  [run_shift G false (0, 0) "2000-01-01T00Z" ["PT30M"] None;
   run_shift G false (0, 0) "2000-01-01T00:00:00" ["PT30M"; "-P1D"] None;
   run_shift G false (5, 30) "20000101T000000" ["P1M"] None;
   run_shift G true (5, 30) "2000-W01-1T06:00+05:30" ["-PT1M"] None;
   run_shift G false (0, 0) "2000-001T12:30,5Z" ["PT1H"] (Some "CCYY-MM-DDThh:mm:ssZ");
   run_shift G false (0, 0) "2000-02-30T00Z" [] None;
   run_shift G false (0, 0) "2000-01-01T00Z" ["PT1H"; "1H"; "PT2H"] None;
   run_shift G false (0, 0) "2000-01-01T00Z" ["+P1D"; ""] (Some "%Y/%m/%d %H");
   run_shift D360 false (0, 0) "2000-02-30T00Z" ["P1D"] None;
   run_shift G true (0, 0) "2000-01-01T00:00:00" ["-P1Y"] None;
   run_shift G false (0, 0) "9999-12-31T23Z" ["PT1H"] None;
   run_diff G (0, 0) "2000-01-01T00Z" "1999-12-31T23:59:59+01";
   run_diff G (0, 0) "2000-01-01T00Z" "2000-03-01T06:00:30,5Z";
   run_diff G (0, 0) "2000-01-01T00Z" "2000-01-01T00Z";
   run_diff G (0, 0) "2000-13-01T00Z" "2000-01-01T00Z";
   run_diff D360 (0, 0) "2000-02-30T00Z" "2000-03-01T00Z"]
  =
  [COut "2000-01-01T00Z";
   COut "1999-12-31T00:30:00";
   COut "20000201T000000";
   COut "2000-W01-1T00:29+00:00";
   COut "2000-01-01T13:30:30Z";
   CExit;
   CExit;
   COut "2000/01/02 00";
   COut "2000-03-01T00Z";
   COut "1999-01-01T00:00:00";
   CExit;
   COut "-PT1H1S";
   COut "P60DT6H30,5S";
   COut "P0Y";
   CExit;
   COut "P1D"].
Proof. vm_compute. reflexivity. Qed.
