(* Props/C07Ext.v -- property C07, extension: the gaps (a), (b) and (e) listed
   before C07_decode_partial in Props/C07.v are closed, (c) and (d) are shown as
   facts of the model, dump_as_parsed is proved for full points, and the
   truncated forms are decoded to their explicit truncated point.
   Statements only; proofs in Proofs/DecodeSpec.v, Proofs/DecodeDumpSpec.v,
   Proofs/DecodeRoundSpec.v and Proofs/DecodeTruncSpec.v.

   Vocabulary (Proofs/DecodeSpec.v, section 0; everything is a closed-form
   function of a form's token list ts and an assignment a of field texts):
     fget k ts a   the text assigned to group k if ts has a group k, else None;
     fval k ts a   its number (dnum), 0 when ts has no such group;
     fval1 k ts a  the same with the start-of-period default 1;
     x_year ts a   fval year_of_century + 100 * fval century + 10000 * fval
                   expanded_year, negated when the year_sign group reads "-";
     x_date ts a   Ord y (day_of_year) when ts has a day_of_year group,
                   Wk y (week_of_year) (fval1 day_of_week) when it has a
                   week_of_year group, Cal y (fval1 month_of_year)
                   (fval1 day_of_month) otherwise -- the representation of the
                   form, omitted lower-order fields = 1;
     x_tod ts a    HH (h + 0.ii) / HM h (m + 0.nn) / HMS h m (s + 0.tt) when the
                   form has a decimal group on the hour / minute / second,
                   HMS h m s otherwise with omitted minute and second = 0
                   (frac_of s = the rational 0.s, exact);
     x_zone cfg zo az   the written zone: (0,0) for "Z", sign applied to hour and
                   minute otherwise (minute 0 for "+hh"); for no zone (zo = None)
                   the assumed offset, else UTC when default_to_unknown, else the
                   local offset c_local cfg;
     x_ned cfg ts  c_ned cfg when the date form has expanded year digits, else 0;
     ptp_of q ned fmt   the parser's result record carrying exactly the fields
                   of the model time point q (year, the date fields of q's
                   representation and None for the others, hour, minute and
                   second as far as q's time-of-day form has them, zone), not
                   truncated, no truncated property, ned expanded digits, dump
                   format fmt.
   Validity is Spec/Instant.valid_tp md q: month 1..12, day within the month of
   that year in mode md; day of year within the year; week within the ISO
   week-year's weeks and weekday 1..7; hour 0..24 with 24 only as 24:00(:00);
   minute and second (with their fraction) in [0,60); zone hours -99..99, zone
   minutes -59..59 with the sign of the hours.  A boolean.
   pstr md cfg s (Proofs/DecodeTruncSpec.v, section 5) = parse s with
   dump_as_parsed, then write the point out with its own dump format (str());
   inb f L = f occurs in the list L; F_... = forms picked from the tables by
   format key and expression text. *)
From Coq Require Import ZArith QArith List Bool String Ascii.
From Iso Require Import Spec.Cal Spec.Instant Model.Num Model.Helpers Model.Duration Model.TimePoint
  Model.Forms Model.Parse Model.Dump Spec.FormText Proofs.MatchSpec gen.Grammar Model.DriverText
  Proofs.RoundTripSpec Proofs.DecodeSpec Proofs.DecodeDumpSpec Proofs.DecodeRoundSpec Proofs.DecodeTruncSpec.
Import ListNotations.
Local Open Scope string_scope.

(* 1. GAP (a) CLOSED.  For every configuration (0, 2 or 3 expanded year digits,
      truncation on/off, basic-only on/off, any zone setting), every COMPLETE
      date form fd the parser searches before "T" (calendar, ordinal, week;
      basic and extended; with or without signed expanded year), every
      non-truncated time form ft its format rule allows (hh, hhmm, hhmmss, each
      with an optional comma or point fraction on the last unit; basic with
      basic, extended with extended), every zone form it allows or none, and all
      well-formed field texts: parse_text on  date "T" time zone  is
        POk (the explicit point)   exactly when that point is a valid time point,
        PErr EBadInput             otherwise
      -- one equation for both directions (the second ties C07 to C09).
      Exclusions that remain: sign-prefixed forms when num_expanded_year_digits
      = 0 (gap (c), a finding), truncated forms (section 4). *)
Theorem C07_decode_full : forall md cfg fd gd ft zo ad atm az asp,
  In (c_ned cfg) [0; 2; 3]%Z ->
  let dfs := date_forms_of (c_ned cfg) in
  In fd (date_search dfs cfg ["reduced"]) -> f_type fd = "complete" ->
  hit (date_search dfs cfg ["reduced"]) fd = Some gd ->
  let bf := bad_formats_of (f_format gd) (f_type gd) in
  In ft (time_search TIME_FORMS cfg bf ["truncated"]) ->
  In zo (zone_choices cfg bf ft) ->
  (c_ned cfg = 0%Z -> binds "expanded_year" (f_parse fd) = false) ->
  wf_assign (f_parse fd) ad = true -> wf_assign (f_parse ft) atm = true -> zo_wf zo az = true ->
  let q := mkTp (x_date (f_parse fd) ad) (x_tod (f_parse ft) atm) (x_zone cfg zo az) in
  parse_text md cfg (render_toks (f_parse fd) ad ++ "T" ++ render_toks (f_parse ft) atm ++ zo_text zo az) asp =
  if valid_tp md q
  then POk (ptp_of q (x_ned cfg (f_parse fd)) (if asp then f_expr fd ++ "T" ++ f_expr ft ++ zo_expr zo else ""))
  else PErr EBadInput.
Proof. exact decode_full. Qed.
Print Assumptions C07_decode_full.

(* the same at the level of the constructor call, for ANY token lists of the
   non-truncated shapes (not only the tables): what C07_decode_partial's
   right-hand side evaluates to *)
Theorem C07_constructor_call : forall md cfg dt tt ad atm zn fmt,
  date_full_shape dt = true -> time_full_shape tt = true ->
  wf_assign dt ad = true -> wf_assign tt atm = true ->
  point_num md cfg (bindings dt ad) (bindings tt atm) zn fmt false =
  let q := mkTp (x_date dt ad) (x_tod tt atm) (zone_of_args zn) in
  if valid_tp md q then POk (ptp_of q (x_ned cfg dt) fmt) else PErr EBadInput.
Proof. exact point_num_full. Qed.
Print Assumptions C07_constructor_call.

(* every non-truncated form of the regenerated tables has those shapes *)
Theorem C07_full_shapes :
  forallb (fun f => negb (not_trunc f) || date_full_shape (f_parse f)) (DATE_FORMS_2 ++ DATE_FORMS_3)%list = true /\
  forallb (fun f => negb (not_trunc f) || date_full_shape (f_parse f) || binds "expanded_year" (f_parse f)) DATE_FORMS_0 = true /\
  forallb (fun f => negb (not_trunc f) || time_full_shape (f_parse f)) TIME_FORMS = true /\
  forallb (fun f => zone_shape (f_parse f)) ZONE_FORMS = true.
Proof. exact tables_full_shapes. Qed.
Print Assumptions C07_full_shapes.

(* 2. GAP (e) CLOSED: a date alone.  Every complete or reduced date form the
      parser searches (CCYYMMDD ... CCYY-MM, CCYY, CC, CCYYWww and their signed
      expanded variants), outside the shadowed forms of C07_reachable: the
      omitted month / day / weekday are 1, the time is 00:00:00 to the second
      (hour, minute and second all present and 0), the zone is the
      configuration's, the dump format is the date expression. *)
Theorem C07_decode_date_full : forall md cfg fd ad asp,
  In (c_ned cfg) [0; 2; 3]%Z ->
  let dfs := date_forms_of (c_ned cfg) in
  In fd (date_search dfs cfg []) -> f_type fd = "complete" \/ f_type fd = "reduced" ->
  mem (f_expr fd) (date_exceptions (c_ned cfg) (c_trunc cfg) []) = false ->
  (c_ned cfg = 0%Z -> binds "expanded_year" (f_parse fd) = false) ->
  wf_assign (f_parse fd) ad = true ->
  let q := mkTp (x_date (f_parse fd) ad) (HMS 0 0 0) (x_zone cfg None []) in
  parse_text md cfg (render_toks (f_parse fd) ad) asp =
  if valid_tp md q then POk (ptp_of q (x_ned cfg (f_parse fd)) (if asp then f_expr fd else "")) else PErr EBadInput.
Proof. exact decode_date_full. Qed.
Print Assumptions C07_decode_date_full.

(* 3. DUMP_AS_PARSED.  Under the hypotheses of C07_decode_full and validity of
      the assigned values: the parser returns a point p whose dump format is the
      concatenated expression text, and writing p out with that format (what
      str(p) does: the dumper with p's number of expanded year digits) gives
      the input text back, with the decimal field -- if the time form has one --
      in the dumper's form: canon f = f without trailing zeros, "0" when f is
      all zeros (canon_env replaces the three decimal fields by their canon).
      Three side conditions, each NECESSARY (C07_dump_as_parsed_refuted, checked
      on the package):
        - a year written with sign "-" is not zero  ("-000000..." is read as year
          0 and written "+000000...");
        - a zone written with sign "-" is not zero  ("-00:00" is written "+00:00");
        - dec_fits: the fraction has at most six digits after removing trailing
          zeros (the dumper prints six, rounding: ",1234567" -> ",123457"). *)
Theorem C07_dump_as_parsed : forall md cfg fd gd ft zo ad atm az,
  In (c_ned cfg) [0; 2; 3]%Z ->
  let dfs := date_forms_of (c_ned cfg) in
  In fd (date_search dfs cfg ["reduced"]) -> f_type fd = "complete" ->
  hit (date_search dfs cfg ["reduced"]) fd = Some gd ->
  let bf := bad_formats_of (f_format gd) (f_type gd) in
  In ft (time_search TIME_FORMS cfg bf ["truncated"]) ->
  In zo (zone_choices cfg bf ft) ->
  (c_ned cfg = 0%Z -> binds "expanded_year" (f_parse fd) = false) ->
  wf_assign (f_parse fd) ad = true -> wf_assign (f_parse ft) atm = true -> zo_wf zo az = true ->
  let q := mkTp (x_date (f_parse fd) ad) (x_tod (f_parse ft) atm) (x_zone cfg zo az) in
  valid_tp md q = true ->
  (fget "year_sign" (f_parse fd) ad = Some "-" -> x_year (f_parse fd) ad <> 0%Z) ->
  (fget "time_zone_sign" (zo_parse zo) az = Some "-" -> x_zone cfg zo az <> mkZone 0 0) ->
  dec_fits (f_parse ft) atm = true ->
  exists p,
    parse_text md cfg (render_toks (f_parse fd) ad ++ "T" ++ render_toks (f_parse ft) atm ++ zo_text zo az) true = POk p /\
    ptp_to_tp p = Some q /\ p_fmt p = f_expr fd ++ "T" ++ f_expr ft ++ zo_expr zo /\
    do_dump md (p_ned p) q (p_fmt p) =
    DOk (render_toks (f_parse fd) ad ++ "T" ++ render_toks (f_parse ft) (canon_env atm) ++ zo_text zo az).
Proof. exact dump_as_parsed. Qed.
Print Assumptions C07_dump_as_parsed.

(* the same for a date alone (complete or reduced form): the input text exactly *)
Theorem C07_dump_date_as_parsed : forall md cfg fd ad,
  In (c_ned cfg) [0; 2; 3]%Z ->
  let dfs := date_forms_of (c_ned cfg) in
  In fd (date_search dfs cfg []) -> f_type fd = "complete" \/ f_type fd = "reduced" ->
  mem (f_expr fd) (date_exceptions (c_ned cfg) (c_trunc cfg) []) = false ->
  (c_ned cfg = 0%Z -> binds "expanded_year" (f_parse fd) = false) ->
  wf_assign (f_parse fd) ad = true ->
  let q := mkTp (x_date (f_parse fd) ad) (HMS 0 0 0) (x_zone cfg None []) in
  valid_tp md q = true ->
  (fget "year_sign" (f_parse fd) ad = Some "-" -> x_year (f_parse fd) ad <> 0%Z) ->
  exists p,
    parse_text md cfg (render_toks (f_parse fd) ad) true = POk p /\
    ptp_to_tp p = Some q /\ p_fmt p = f_expr fd /\
    do_dump md (p_ned p) q (p_fmt p) = DOk (render_toks (f_parse fd) ad).
Proof. exact dump_date_as_parsed. Qed.
Print Assumptions C07_dump_date_as_parsed.

(* every triple of the tables has what the dump needs: the as-parsed format is
   split by the dumper into exactly the three templates, each template
   corresponds token by token to its regex, the group names and widths are the
   expected ones (closed checks over the regenerated tables) *)
Theorem C07_asp_tables :
  forallb (fun n =>
    forallb (fun fd => negb (String.eqb (f_type fd) "complete") || ((n =? 0)%Z && binds "expanded_year" (f_parse fd)) ||
      forallb (fun ft => negb (not_trunc ft) ||
        forallb (fun zo => asp_ok (dump_ned n fd) fd ft zo) all_zos) TIME_FORMS) (date_forms_of n)) [0; 2; 3]%Z = true /\
  forallb (fun n =>
    forallb (fun fd => negb (not_trunc fd) || ((n =? 0)%Z && binds "expanded_year" (f_parse fd)) ||
                       aspd_ok (dump_ned n fd) fd) (date_forms_of n)) [0; 2; 3]%Z = true.
Proof. exact (conj tables_asp tables_aspd). Qed.
Print Assumptions C07_asp_tables.

(* whole-number time forms (no decimal group): the input text EXACTLY; a
   decimal field: up to trailing zeros, precisely *)
Theorem C07_dump_exact : forall ts a,
  forallb (fun t => match t with PDigs _ => false | PUnix _ => false | _ => true end) ts = true ->
  time_names_ok ts = true -> render_toks ts (canon_env a) = render_toks ts a.
Proof. exact canon_env_other. Qed.
Print Assumptions C07_dump_exact.
Theorem C07_canon_spec : forall f,
  (exists k, (f = canon f ++ zeros k) \/ (canon f = "0" /\ f = zeros k)) /\
  (strip_zeros f = f -> f <> "" -> canon f = f).
Proof. exact (fun f => conj (canon_spec f) (canon_id f)). Qed.
Print Assumptions C07_canon_spec.

(* the dumper's decimal string of n + 0.f is canon f when f has at most six
   significant digits *)
Theorem C07_decimal_string : forall n f, (0 <= n)%Z -> digits_plus f = true -> frac6 f = true ->
  decimal_string (qadd (qz n) (frac_of f)) = canon f.
Proof. exact decimal_string_frac. Qed.
Print Assumptions C07_decimal_string.

(* 4. TRUNCATED FORMS (allow_truncated).  t_point cfg dt tt zo ad atm az fmt is the
      explicit truncated point: year = the year-of-century or year-of-decade
      digits if the form has them (truncated property accordingly), else absent;
      month / day of month / day of year / week / weekday = the numbers of the
      groups the form has, absent otherwise (NOTHING is defaulted); hour,
      minute, second likewise, each with its decimal fraction; zone = the
      written offset, or the assumed / local offset of the configuration, or
      unknown (None) when the parser defaults to unknown; truncated flag set; 0
      expanded digits; dump format fmt.  It is returned exactly when the
      constructor's range check accepts it (check_bounds of Model/Parse.v with
      the year possibly absent: month 1..12, day within the month -- of the leap
      year when no year is given --, week 1..max_weeks_in_year, day of year,
      weekday 1..7, hour/minute/second as for full points) and the zone is in
      range.  Every truncated date form searched before "T", every time form
      (truncated or not) and zone the rules then allow; C07_decode_trunc_nozone
      closes GAP (b): a truncated time with no zone (the leading "-" of the
      time goes through the parser's rsplit("-") heuristic, which is shown to
      fall back to "no zone" because neither "" nor "-" is a time).
      NOT covered: the empty truncated date ("T-30"); writing a truncated point
      back (Model/Dump.v models the dumper on full points only). *)
Theorem C07_decode_trunc : forall md cfg fd gd ft zo ad atm az (asp : bool),
  In (c_ned cfg) [0; 2; 3]%Z ->
  let dfs := date_forms_of (c_ned cfg) in
  In fd (date_search dfs cfg ["reduced"]) -> f_type fd = "truncated" ->
  hit (date_search dfs cfg ["reduced"]) fd = Some gd ->
  let bf := bad_formats_of (f_format gd) (f_type gd) in
  In ft (time_search TIME_FORMS cfg bf (trunc_types fd)) ->
  In zo (zone_choices cfg bf ft) ->
  wf_assign (f_parse fd) ad = true -> wf_assign (f_parse ft) atm = true -> zo_wf zo az = true ->
  let p := t_point cfg (f_parse fd) (f_parse ft) zo ad atm az
                   (if asp then f_expr fd ++ "T" ++ f_expr ft ++ zo_expr zo else "") in
  parse_text md cfg (render_toks (f_parse fd) ad ++ "T" ++ render_toks (f_parse ft) atm ++ zo_text zo az) asp =
  if t_zone_ok (t_zone cfg zo az) && check_bounds md p then POk p else PErr EBadInput.
Proof. exact decode_trunc. Qed.
Print Assumptions C07_decode_trunc.

Theorem C07_decode_trunc_nozone : forall md cfg fd gd ft ad atm (asp : bool),
  In (c_ned cfg) [0; 2; 3]%Z ->
  let dfs := date_forms_of (c_ned cfg) in
  In fd (date_search dfs cfg ["reduced"]) -> f_type fd = "truncated" ->
  hit (date_search dfs cfg ["reduced"]) fd = Some gd ->
  let bf := bad_formats_of (f_format gd) (f_type gd) in
  In ft (time_search TIME_FORMS cfg bf (trunc_types fd)) -> f_type ft = "truncated" ->
  wf_assign (f_parse fd) ad = true -> wf_assign (f_parse ft) atm = true ->
  let p := t_point cfg (f_parse fd) (f_parse ft) None ad atm [] (if asp then f_expr fd ++ "T" ++ f_expr ft else "") in
  parse_text md cfg (render_toks (f_parse fd) ad ++ "T" ++ render_toks (f_parse ft) atm) asp =
  if t_zone_ok (t_zone cfg None []) && check_bounds md p then POk p else PErr EBadInput.
Proof. exact decode_trunc_nozone. Qed.
Print Assumptions C07_decode_trunc_nozone.

Theorem C07_decode_trunc_date : forall md cfg fd ad (asp : bool),
  In (c_ned cfg) [0; 2; 3]%Z ->
  let dfs := date_forms_of (c_ned cfg) in
  In fd (date_search dfs cfg []) -> f_type fd = "truncated" ->
  mem (f_expr fd) (date_exceptions (c_ned cfg) (c_trunc cfg) []) = false ->
  wf_assign (f_parse fd) ad = true ->
  let p := t_point cfg (f_parse fd) [] None ad [] [] (if asp then f_expr fd else "") in
  parse_text md cfg (render_toks (f_parse fd) ad) asp =
  if t_zone_ok (t_zone cfg None []) && check_bounds md p then POk p else PErr EBadInput.
Proof. exact decode_trunc_date. Qed.
Print Assumptions C07_decode_trunc_date.

(* the constructor call for ANY token lists of the truncated-date / any-time
   shapes, and the tables have those shapes *)
Theorem C07_constructor_call_trunc : forall md cfg dt tt ad atm zn fmt,
  trunc_date_shape dt = true -> wf_assign dt ad = true ->
  (time_any_shape tt = true /\ wf_assign tt atm = true) ->
  point_num md cfg (bindings dt ad) (bindings tt atm) zn fmt false =
  let p := mkPtp (t_year dt ad) (fnum "month_of_year" dt ad) (fnum "day_of_month" dt ad) (fnum "day_of_year" dt ad)
                 (fnum "week_of_year" dt ad) (fnum "day_of_week" dt ad)
                 (t_unit "hour_of_day" "hour_of_day_decimal" tt atm)
                 (t_unit "minute_of_hour" "minute_of_hour_decimal" tt atm)
                 (t_unit "second_of_minute" "second_of_minute_decimal" tt atm)
                 (zone_opt zn) true (t_prop dt) 0 fmt in
  if t_zone_ok (zone_opt zn) && check_bounds md p then POk p else PErr EBadInput.
Proof. exact point_num_trunc. Qed.
Print Assumptions C07_constructor_call_trunc.
Theorem C07_trunc_shapes :
  (forallb (fun f => not_trunc f || trunc_date_shape (f_parse f)) (DATE_FORMS_0 ++ DATE_FORMS_2 ++ DATE_FORMS_3)%list = true /\
   forallb (fun f => time_any_shape (f_parse f)) TIME_FORMS = true) /\
  (forallb (fun f => not_trunc f || trunc_time_lead (f_parse f)) TIME_FORMS = true /\
   forallb (fun f => match pmatch (f_parse f) "" [] with None => true | Some _ => false end &&
                     match pmatch (f_parse f) "-" [] with None => true | Some _ => false end) TIME_FORMS = true).
Proof. exact (conj tables_trunc_shapes tables_trunc_times). Qed.
Print Assumptions C07_trunc_shapes.

Example C07Ext_trunc_ex :
  let cfgu := mkCfg 2 true false None true (0, 0)%Z in      (* truncation allowed, default to unknown zone *)
  let ad := [("month_of_year", "12"); ("day_of_month", "31")] in
  let atm := [("minute_of_hour", "30"); ("second_of_minute", "15"); ("second_of_minute_decimal", "5")] in
  let az := [("time_zone_sign", "+"); ("time_zone_hour", "05"); ("time_zone_minute", "30")] in
  let L := date_search (date_forms_of 2) cfgu ["reduced"] in
  existsb (form_eqb F_TMD_EXT) L = true /\ hit L F_TMD_EXT = Some F_TMD_EXT /\ f_type F_TMD_EXT = "truncated" /\
  existsb (form_eqb F_TMS_EXT) (time_search TIME_FORMS cfgu (bad_formats_of "extended" "truncated") (trunc_types F_TMD_EXT)) = true /\
  wf_assign (f_parse F_TMD_EXT) ad = true /\ wf_assign (f_parse F_TMS_EXT) atm = true /\
  t_point cfgu (f_parse F_TMD_EXT) (f_parse F_TMS_EXT) (Some F_ZHM_EXT) ad atm az "x" =
    mkPtp None (Some 12%Z) (Some 31%Z) None None None None (Some 30%Q) (Some (31 # 2)%Q) (Some (mkZone 5 30)) true "" 0 "x" /\
  check_bounds G (t_point cfgu (f_parse F_TMD_EXT) (f_parse F_TMS_EXT) (Some F_ZHM_EXT) ad atm az "x") = true /\
  parse_text G cfgu "--12-31T-30:15,5+05:30" true =
    POk (mkPtp None (Some 12%Z) (Some 31%Z) None None None None (Some 30%Q) (Some (31 # 2)%Q) (Some (mkZone 5 30))
               true "" 0 "--MM-DDT-mm:ss,tt+hh:mm") /\
  (* gap (b): truncated time, no zone: unknown under this configuration, local (0,0) under the default one *)
  parse_text G cfgu "--12-31T-30:15,5" true =
    POk (mkPtp None (Some 12%Z) (Some 31%Z) None None None None (Some 30%Q) (Some (31 # 2)%Q) None
               true "" 0 "--MM-DDT-mm:ss,tt") /\
  parse_text G (cfg_of 2 true false) "-0001T-30" true =
    POk (mkPtp (Some 0%Z) (Some 1%Z) None None None None None (Some 30%Q) None (Some (mkZone 0 0))
               true "year_of_century" 0 "-YYMMT-mm") /\
  (* year of century without the "truncated" group: only non-truncated times allowed; nothing defaulted *)
  parse_text G cfgu "85-W10-7T12" true =
    POk (mkPtp (Some 85%Z) None None None (Some 10%Z) (Some 7%Z) (Some 12%Q) None None None
               true "year_of_century" 0 "YY-Www-DThh") /\
  parse_text G cfgu "-5W107" true =
    POk (mkPtp (Some 5%Z) None None None (Some 10%Z) (Some 7%Z) None None None None true "year_of_decade" 0 "-zWwwD") /\
  parse_text G cfgu "-W-3" true =
    POk (mkPtp None None None None None (Some 3%Z) None None None None true "" 0 "-W-D") /\
  (* refused by the range check *)
  parse_text G cfgu "--1331" true = PErr EBadInput /\
  parse_text G cfgu "--0230" true = PErr EBadInput /\
  parse_text D360 cfgu "--0230" false <> PErr EBadInput /\
  parse_text D360 cfgu "-W53" true = PErr EBadInput.
Proof. vm_compute. repeat split; try reflexivity; discriminate. Qed.

(* the three side conditions are necessary, and the remaining gaps as facts of
   the model (all reproduced on the package, see notes/C07EXT_REPORT.md):
   (c) a sign-prefixed form under num_expanded_year_digits = 0 is MATCHED (its
       expanded_year group is empty) and int("") raises a plain ValueError;
   (d) with truncation allowed "-0012" is read as the truncated -YYMM, not as
       the reduced +XCC. *)
Example C07_dump_as_parsed_refuted :
  pstr G (default_cfg 2) "2000-01-01T00:00:00,1234567Z" = Some (DOk "2000-01-01T00:00:00,123457Z") /\
  pstr G (default_cfg 2) "-0000000101T00Z" = Some (DOk "+0000000101T00Z") /\
  pstr G (default_cfg 2) "2000-01-01T00:00-00:00" = Some (DOk "2000-01-01T00:00+00:00") /\
  pstr G (default_cfg 2) "20000101T0000-00" = Some (DOk "20000101T0000+00") /\
  pstr G (default_cfg 2) "2000-01-01T12:30,500+05" = Some (DOk "2000-01-01T12:30,5+05") /\
  pstr G (default_cfg 2) "2000-01-01T12:30,000+05" = Some (DOk "2000-01-01T12:30,0+05") /\
  parse_text G (default_cfg 0) "+20000101T00Z" false = PErr EValue /\
  parse_text G (default_cfg 0) "-2000-001T00Z" false = PErr EValue /\
  parse_text G (default_cfg 0) "+2000" false = PErr EValue /\
  parse_text G (cfg_of 2 true false) "-0012" true =
    POk (mkPtp (Some 0%Z) (Some 12%Z) None None None None None None None (Some (mkZone 0 0)) true "year_of_century" 0 "-YYMM") /\
  parse_text G (cfg_of 2 true false) "+0012" true =
    POk (ptp_of (mkTp (Cal 1200 1 1) (HMS 0 0 0) (mkZone 0 0)) 2 "+XCC") /\
  parse_text G (cfg_of 2 false false) "-0012" true =
    POk (ptp_of (mkTp (Cal (-1200) 1 1) (HMS 0 0 0) (mkZone 0 0)) 2 "+XCC").
Proof. vm_compute. repeat split; reflexivity. Qed.

(* the hypotheses are satisfiable, with non-trivial values; what the two sides
   are on: a week date with decimal seconds and a negative offset under a
   parser with an assumed zone; an impossible week (2021 has 52 weeks); a
   reduced date alone under an assumed +05:30; century alone under
   default-to-unknown; expanded negative year, ordinal, hour fraction, local
   zone -03:00 *)
Example C07Ext_ex :
  let cfg := mkCfg 2 false false (Some (5, 30)%Z) false (0, 0)%Z in
  let ad := [("century", "20"); ("year_of_century", "20"); ("week_of_year", "53"); ("day_of_week", "7")] in
  let atm := [("hour_of_day", "23"); ("minute_of_hour", "59"); ("second_of_minute", "59"); ("second_of_minute_decimal", "50")] in
  let az := [("time_zone_sign", "-"); ("time_zone_hour", "09"); ("time_zone_minute", "30")] in
  let L := date_search (date_forms_of 2) cfg ["reduced"] in
  inb F_WEEK_EXT L = true /\ hit L F_WEEK_EXT = Some F_WEEK_EXT /\
  inb F_HMSD_EXT (time_search TIME_FORMS cfg (bad_formats_of "extended" "complete") ["truncated"]) = true /\
  existsb (fun zo => match zo with Some fz => form_eqb fz F_ZHM_EXT | None => false end)
          (zone_choices cfg (bad_formats_of "extended" "complete") F_HMSD_EXT) = true /\
  wf_assign (f_parse F_WEEK_EXT) ad = true /\ wf_assign (f_parse F_HMSD_EXT) atm = true /\ zo_wf (Some F_ZHM_EXT) az = true /\
  render_toks (f_parse F_WEEK_EXT) ad ++ "T" ++ render_toks (f_parse F_HMSD_EXT) atm ++ zo_text (Some F_ZHM_EXT) az
    = "2020-W53-7T23:59:59,50-09:30" /\
  mkTp (x_date (f_parse F_WEEK_EXT) ad) (x_tod (f_parse F_HMSD_EXT) atm) (x_zone cfg (Some F_ZHM_EXT) az)
    = mkTp (Wk 2020 53 7) (HMS 23 59 (119 # 2)) (mkZone (-9) (-30)) /\
  valid_tp G (mkTp (Wk 2020 53 7) (HMS 23 59 (119 # 2)) (mkZone (-9) (-30))) = true /\
  parse_text G cfg "2020-W53-7T23:59:59,50-09:30" true =
    POk (mkPtp (Some 2020%Z) None None None (Some 53%Z) (Some 7%Z) (Some 23%Q) (Some 59%Q) (Some (119 # 2)%Q)
               (Some (mkZone (-9) (-30))) false "" 0 "CCYY-Www-DThh:mm:ss,tt+hh:mm") /\
  (* dump_as_parsed: the side conditions hold, the text comes back without the trailing zero *)
  dec_fits (f_parse F_HMSD_EXT) atm = true /\
  render_toks (f_parse F_HMSD_EXT) (canon_env atm) = "23:59:59,5" /\
  pstr G cfg "2020-W53-7T23:59:59,50-09:30" = Some (DOk "2020-W53-7T23:59:59,5-09:30") /\
  pstr G cfg "2020-W53-7T23:59:59-09:30" = Some (DOk "2020-W53-7T23:59:59-09:30") /\
  pstr G cfg "1999-12" = Some (DOk "1999-12") /\
  pstr G (mkCfg 3 false false None false (-3, 0)%Z) "-0012344366T12.250" = Some (DOk "-0012344366T12.25") /\
  (* no zone written: the assumed offset *)
  parse_text G cfg "2020-W53-7T23:59" false =
    POk (ptp_of (mkTp (Wk 2020 53 7) (HMS 23 59 0) (mkZone 5 30)) 0 "") /\
  (* an invalid assignment is refused *)
  valid_tp G (mkTp (x_date (f_parse F_WEEK_EXT) [("century", "20"); ("year_of_century", "21"); ("week_of_year", "53"); ("day_of_week", "1")])
                   (HMS 0 0 0) (mkZone 0 0)) = false /\
  parse_text G cfg "2021-W53-1T00:00:00Z" true = PErr EBadInput /\
  valid_tp D360 (mkTp (Cal 2001 2 30) (HMS 24 0 0) (mkZone 0 0)) = true /\
  parse_text D360 cfg "2001-02-30T24:00:00Z" false = POk (ptp_of (mkTp (Cal 2001 2 30) (HMS 24 0 0) (mkZone 0 0)) 0 "") /\
  parse_text G cfg "2001-02-28T24:00:01Z" false = PErr EBadInput /\
  (* a date alone *)
  inb F_YM (date_search (date_forms_of 2) cfg []) = true /\
  mem (f_expr F_YM) (date_exceptions 2 false []) = false /\
  x_date (f_parse F_YM) [("century", "19"); ("year_of_century", "99"); ("month_of_year", "12")] = Cal 1999 12 1 /\
  parse_text G cfg "1999-12" true =
    POk (mkPtp (Some 1999%Z) (Some 12%Z) (Some 1%Z) None None None (Some 0%Q) (Some 0%Q) (Some 0%Q)
               (Some (mkZone 5 30)) false "" 0 "CCYY-MM") /\
  parse_text G (mkCfg 2 false false None true (7, 0)%Z) "19" true =
    POk (ptp_of (mkTp (Cal 1900 1 1) (HMS 0 0 0) (mkZone 0 0)) 0 "CC") /\
  (* expanded negative year, ordinal day, fraction of the hour, local zone *)
  (let cfg3 := mkCfg 3 false false None false (-3, 0)%Z in
   let ad3 := [("year_sign", "-"); ("expanded_year", "001"); ("century", "23"); ("year_of_century", "44"); ("day_of_year", "366")] in
   let at3 := [("hour_of_day", "12"); ("hour_of_day_decimal", "250")] in
   inb F_ORDX3_BASIC (date_search (date_forms_of 3) cfg3 ["reduced"]) = true /\
   wf_assign (f_parse F_ORDX3_BASIC) ad3 = true /\ wf_assign (f_parse F_HD_BASIC) at3 = true /\
   mkTp (x_date (f_parse F_ORDX3_BASIC) ad3) (x_tod (f_parse F_HD_BASIC) at3) (x_zone cfg3 None [])
     = mkTp (Ord (-12344) 366) (HH (49 # 4)) (mkZone (-3) 0) /\
   valid_tp G (mkTp (Ord (-12344) 366) (HH (49 # 4)) (mkZone (-3) 0)) = true /\
   parse_text G cfg3 "-0012344366T12.250" true =
     POk (mkPtp (Some (-12344)%Z) None None (Some 366%Z) None None (Some (49 # 4)%Q) None None
                (Some (mkZone (-3) 0)) false "" 3 "+XCCYYDDDThh.ii")).
Proof. vm_compute. repeat split; reflexivity. Qed.
