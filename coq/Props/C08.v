(* Props/C08.v -- property C08: writing a time point out and reading it back is
   lossless.  Statements only; proofs in Proofs/RoundTripSpec.v.

   Vocabulary.  do_str md ned p is str(p) for a dumper with ned expanded year
   digits; parse_text md (default_cfg ned') s false is a default parser with
   ned' = pcfg_ned ned (2 when ned = 0, the convention of the round-trip check)
   reading s; ptp_to_tp turns its non-truncated result into a model time point.
   str_text ned p is the explicit text: year_text (sign and pad_num (4+ned) |y|
   when ned <> 0, pad_num 4 y otherwise), the date fields by pad_num 2/3/1 in the
   representation of p, "T", the time fields by pad_num 2 and decimal_string,
   "Z" or sign hh ":" mm.  year_ok ned y: 0 <= y <= 9999 (ned = 0),
   |y| < 10^(4+ned) otherwise.  tod_fits6 t: the fractional field of t times
   10^6 is a whole number.  same_point q p: dates =, zones =, time fields ==
   constructor by constructor (tod_eq). *)
From Coq Require Import ZArith QArith Qround List Bool String Ascii.
From Iso Require Import Spec.Cal Spec.Instant Model.Num Model.Helpers Model.Duration Model.TimePoint
  Model.Forms Model.Parse Model.Dump Spec.FormText Proofs.MatchSpec gen.Grammar Model.DriverText
  Proofs.RoundTripSpec.
Import ListNotations.
Local Open Scope string_scope.

(* 1. the shape of str(p), for EVERY point and every ned (validity is not
      needed): the default dump format keeps the year as literal digits, the
      template comes from the generated time/zone tables, each field is zero
      padded.  With ned = 0 a negative year makes str raise OverflowError. *)
Theorem C08_str_shape : forall md ned p, (ned = 0%Z -> (0 <= date_year (tdate p))%Z) ->
  do_str md ned p = DOk (str_text ned p).
Proof. exact str_shape. Qed.
Print Assumptions C08_str_shape.

Theorem C08_str_overflow : forall md p, (date_year (tdate p) < 0)%Z -> do_str md 0 p = DOverflow.
Proof. exact str_overflow. Qed.
Print Assumptions C08_str_overflow.

(* 2. digits: the dumper's zero padding of any width is read back exactly,
      printing the number of a w-digit string gives the string back, a padded
      year is the concatenation of the parser's digit groups *)
Theorem C08_pad_read : forall w n, (1 <= w)%nat -> (0 <= n < 10 ^ Z.of_nat w)%Z ->
  digits_n w (pad_num w n) = true /\ dnum (pad_num w n) = n.
Proof. exact pad_num_w. Qed.
Print Assumptions C08_pad_read.
Theorem C08_pad_of_digits : forall w s, digits_n w s = true -> (1 <= w)%nat -> pad_num w (dnum s) = s.
Proof. exact pad_dnum. Qed.
Print Assumptions C08_pad_of_digits.
Theorem C08_digits_concat : forall a b, all_digits a = true -> all_digits b = true ->
  dnum (a ++ b) = (dnum a * 10 ^ Z.of_nat (String.length b) + dnum b)%Z.
Proof. exact dnum_app. Qed.
Print Assumptions C08_digits_concat.
Theorem C08_year_digits :
  (forall y, (0 <= y < 10000)%Z -> pad_num 4 y = pad_num 2 (y / 100) ++ pad_num 2 (y mod 100)) /\
  (forall k y, In k [2; 3]%nat -> (0 <= y < 10 ^ Z.of_nat (k + 4))%Z ->
     pad_num (k + 4) y = pad_num k (y / 10000) ++ pad_num 2 (y / 100 mod 100) ++ pad_num 2 (y mod 100)).
Proof. exact (conj pad_year4_split pad_year_split). Qed.
Print Assumptions C08_year_digits.

(* 3. decimals: for x >= 0 whose fraction has at most six decimal digits the
      dumper's decimal string is a non-empty digit string (the digits without
      trailing zeros, "0" for a whole number) and reading it back as 0.digits
      gives exactly the fractional part of x *)
Theorem C08_decimal_roundtrip : forall x, (0 <= x)%Q -> fits6 x = true ->
  digits_plus (decimal_string x) = true /\
  (frac_of (decimal_string x) == x - inject_Z (Qfloor x))%Q.
Proof. exact decimal_roundtrip. Qed.
Print Assumptions C08_decimal_roundtrip.

(* 4. THE ROUND TRIP.  For ned in {0,2,3} (the tables the package generates),
      every valid point whose year fits the agreed digits and whose fraction fits
      six decimals -- calendar, ordinal and week dates; hh:mm:ss, hh:mm:ss,tt,
      hh:mm,nn and hh,ii forms; 24:00; Z and every sign hh:mm offset; negative and
      expanded years -- str(p) is str_text, the default parser accepts it, and
      the parsed point has the same date (same representation), the same zone
      and == time fields in the same precision form; it is not truncated and
      carries num_expanded_year_digits = ned. *)
Theorem C08_roundtrip : forall md ned p, In ned [0; 2; 3]%Z ->
  valid_tp md p = true -> year_ok ned (date_year (tdate p)) -> tod_fits6 (ttod p) = true ->
  exists p' q,
    do_str md ned p = DOk (str_text ned p) /\
    parse_text md (default_cfg (pcfg_ned ned)) (str_text ned p) false = POk p' /\
    ptp_to_tp p' = Some q /\ same_point q p /\ p_ned p' = ned /\ p_trunc p' = false.
Proof. exact roundtrip. Qed.
Print Assumptions C08_roundtrip.

(* the parsed value itself: every field *)
Theorem C08_parsed_fields : forall md ned p, In ned [0; 2; 3]%Z ->
  valid_tp md p = true -> year_ok ned (date_year (tdate p)) -> tod_fits6 (ttod p) = true ->
  exists t', tod_eq t' (ttod p) /\
    parse_text md (default_cfg (pcfg_ned ned)) (str_text ned p) false =
    POk (mkPtp (Some (date_year (tdate p))) (d_month (tdate p)) (d_dom (tdate p)) (d_doy (tdate p))
               (d_week (tdate p)) (d_dow (tdate p)) (tod_h t') (tod_m t') (tod_s t') (Some (tzone p))
               false "" ned "").
Proof. exact parse_str_text. Qed.
Print Assumptions C08_parsed_fields.

(* 5. str is a fixpoint: str(parse(str(p))) = str(p), the parsed point being
      printed with the expanded digits it carries *)
Theorem C08_fixpoint : forall md ned p, In ned [0; 2; 3]%Z ->
  valid_tp md p = true -> year_ok ned (date_year (tdate p)) -> tod_fits6 (ttod p) = true ->
  exists s p' q,
    do_str md ned p = DOk s /\
    parse_text md (default_cfg (pcfg_ned ned)) s false = POk p' /\ ptp_to_tp p' = Some q /\
    do_str md (p_ned p') q = DOk s.
Proof. exact str_fixpoint. Qed.
Print Assumptions C08_fixpoint.

(* 6. 24:00:00 is printed as such and read back as such *)
Theorem C08_roundtrip_24 : forall md ned d z, In ned [0; 2; 3]%Z ->
  valid_date md d = true -> valid_zone z = true -> year_ok ned (date_year d) ->
  let p := mkTp d (HMS 24 0 0) z in
  exists p' q,
    do_str md ned p = DOk (date_text (year_text ned (date_year d)) d ++ "T24:00:00" ++ zone_text z) /\
    parse_text md (default_cfg (pcfg_ned ned)) (date_text (year_text ned (date_year d)) d ++ "T24:00:00" ++ zone_text z) false = POk p' /\
    ptp_to_tp p' = Some q /\ same_point q p.
Proof. exact roundtrip_24. Qed.
Print Assumptions C08_roundtrip_24.

(* the hypotheses are satisfiable; what the model computes on a week date with
   a decimal minute and a negative offset, an expanded negative year, and the
   inputs outside the property's hypotheses: a year beyond the agreed digits is
   printed but not read back, a fraction beyond six digits is read back as a
   different number, a negative year with no expanded digits cannot be printed,
   a format mixing a basic date with an extended time is printed but refused *)
Example C08_ex :
  valid_tp G (mkTp (Wk 2020 53 7) (HM 23 (119 # 2)) (mkZone (-9) (-30))) = true /\
  year_ok 0 2020 /\ tod_fits6 (HM 23 (119 # 2)) = true /\
  do_str G 0 (mkTp (Wk 2020 53 7) (HM 23 (119 # 2)) (mkZone (-9) (-30))) = DOk "2020-W53-7T23:59,5-09:30" /\
  option_map ptp_to_tp (match parse_text G (default_cfg 2) "2020-W53-7T23:59,5-09:30" false with POk x => Some x | PErr _ => None end) =
    Some (Some (mkTp (Wk 2020 53 7) (HM 23 (119 # 2)) (mkZone (-9) (-30)))) /\
  do_str G 3 (mkTp (Ord (-12344) 366) (HH 24) (mkZone 0 0)) = DOk "-0012344-366T24,0Z" /\
  option_map ptp_to_tp (match parse_text G (default_cfg 3) "-0012344-366T24,0Z" false with POk x => Some x | PErr _ => None end) =
    Some (Some (mkTp (Ord (-12344) 366) (HH 24) (mkZone 0 0))) /\
  do_str G 0 (mkTp (Cal 10000 1 1) (HMS 0 0 0) (mkZone 0 0)) = DOk "10000-01-01T00:00:00Z" /\
  parse_text G (default_cfg 2) "10000-01-01T00:00:00Z" false = PErr ESyntax /\
  do_str G 0 (mkTp (Cal 2000 1 1) (HMS 0 0 (1 # 3)) (mkZone 0 0)) = DOk "2000-01-01T00:00:00,333333Z" /\
  do_str G 0 (mkTp (Cal (-1) 1 1) (HMS 0 0 0) (mkZone 0 0)) = DOverflow /\
  do_dump G 0 (mkTp (Cal 2000 1 2) (HMS 3 4 5) (mkZone 0 0)) "CCYYMMDDThh:mm:ssZ" = DOk "20000102T03:04:05Z" /\
  parse_text G (default_cfg 2) "20000102T03:04:05Z" false = PErr ESyntax.
Proof. vm_compute. repeat split; try reflexivity; discriminate. Qed.
