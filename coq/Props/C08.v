(* Props/C08.v -- property C08: writing a time point out and reading it back is
   lossless.  Statements only; proofs in Proofs/RoundTripSpec.v.

   Vocabulary.  do_str md ned p is str(p) for a dumper with ned expanded year
   digits; parse_text md (default_cfg ned') s false is a default parser with
   ned' = pcfg_ned ned (2 when ned = 0, the convention of the round-trip check)
   reading s; ptp_to_tp turns its non-truncated result into a model time point.
   str_text ned p is the explicit text: year_text (sign and pad_num (4+ned) |y|
   when ned <> 0, pad_num 4 y otherwise), the date fields by pad_num 2/3/1 in the
   representation of p, "T", the time fields by pad_num 2 and decimal_string,
   "Z" or sign hh ":" mm.  year_ok ned y: 0 <= y <= 9999 (ned = 0),
   |y| < 10^(4+ned) otherwise.  tod_fits6 t: the fractional field of t times
   10^6 is a whole number.  same_point q p: dates =, zones =, time fields ==
   constructor by constructor (tod_eq).

   Custom formats (sections 7-9).  do_dump md ned p fmt is p.dump(fmt) under a
   dumper with ned expanded year digits.  cdate_expr ext xp k is a complete date
   expression of the generated tables: the year "CCYY" (xp = false) or "+XCCYY"
   (xp = true, only with ned <> 0), then for k = 0/1/2 the calendar, ordinal or
   week date, basic "MMDD" "DDD" "WwwD" (ext = false) or extended "-MM-DD" "-DDD"
   "-Www-D" (ext = true).  ctime_expr ext is "hhmmss" / "hh:mm:ss"; czone_expr ext
   is "+hhmm" / "+hh:mm".  hms_whole t: t is an hour:minute:second time of day
   whose second is a whole number.  cust_date md k d is the date the dumper prints
   from: the week date of d for k = 2, the calendar date of a week date d for
   k = 0 or 1, d itself otherwise.  cust_point md k p z is p with that date,
   moved to the zone z by TimePoint.to_time_zone: the point whose fields are
   printed.  year_ok (if xp then ned else 0) y is the dumper's bounds test on the
   printed year y.  zlit ext zk neg a b is the literal zone text: sign, two digits
   of a, and (zk = true) the two digits of b, after ":" when ext = true;
   zlit_zone zk neg a b is the zone it denotes.  tp_cmp md q p = Some Eq is
   q == p of the package (the same instant). *)
From Coq Require Import ZArith QArith Qround List Bool String Ascii.
From Iso Require Import Spec.Cal Spec.Instant Model.Num Model.Helpers Model.Duration Model.TimePoint
  Model.Forms Model.Parse Model.Dump Spec.FormText Proofs.MatchSpec gen.Grammar Model.DriverText
  Proofs.RoundTripSpec.
Import ListNotations.
Local Open Scope string_scope.

(* 1. the shape of str(p), for EVERY point and every ned (validity is not
      needed): the default dump format keeps the year as literal digits, the
      template comes from the generated time/zone tables, each field is zero
      padded.  With ned = 0 a negative year makes str raise OverflowError. *)
Theorem C08_str_shape : forall md ned p, (ned = 0%Z -> (0 <= date_year (tdate p))%Z) ->
  do_str md ned p = DOk (str_text ned p).
Proof. exact str_shape. Qed.
Print Assumptions C08_str_shape.

Theorem C08_str_overflow : forall md p, (date_year (tdate p) < 0)%Z -> do_str md 0 p = DOverflow.
Proof. exact str_overflow. Qed.
Print Assumptions C08_str_overflow.

(* 2. digits: the dumper's zero padding of any width is read back exactly,
      printing the number of a w-digit string gives the string back, a padded
      year is the concatenation of the parser's digit groups *)
Theorem C08_pad_read : forall w n, (1 <= w)%nat -> (0 <= n < 10 ^ Z.of_nat w)%Z ->
  digits_n w (pad_num w n) = true /\ dnum (pad_num w n) = n.
Proof. exact pad_num_w. Qed.
Print Assumptions C08_pad_read.
Theorem C08_pad_of_digits : forall w s, digits_n w s = true -> (1 <= w)%nat -> pad_num w (dnum s) = s.
Proof. exact pad_dnum. Qed.
Print Assumptions C08_pad_of_digits.
Theorem C08_digits_concat : forall a b, all_digits a = true -> all_digits b = true ->
  dnum (a ++ b) = (dnum a * 10 ^ Z.of_nat (String.length b) + dnum b)%Z.
Proof. exact dnum_app. Qed.
Print Assumptions C08_digits_concat.
Theorem C08_year_digits :
  (forall y, (0 <= y < 10000)%Z -> pad_num 4 y = pad_num 2 (y / 100) ++ pad_num 2 (y mod 100)) /\
  (forall k y, In k [2; 3]%nat -> (0 <= y < 10 ^ Z.of_nat (k + 4))%Z ->
     pad_num (k + 4) y = pad_num k (y / 10000) ++ pad_num 2 (y / 100 mod 100) ++ pad_num 2 (y mod 100)).
Proof. exact (conj pad_year4_split pad_year_split). Qed.
Print Assumptions C08_year_digits.

(* 3. decimals: for x >= 0 whose fraction has at most six decimal digits the
      dumper's decimal string is a non-empty digit string (the digits without
      trailing zeros, "0" for a whole number) and reading it back as 0.digits
      gives exactly the fractional part of x *)
Theorem C08_decimal_roundtrip : forall x, (0 <= x)%Q -> fits6 x = true ->
  digits_plus (decimal_string x) = true /\
  (frac_of (decimal_string x) == x - inject_Z (Qfloor x))%Q.
Proof. exact decimal_roundtrip. Qed.
Print Assumptions C08_decimal_roundtrip.

(* 4. THE ROUND TRIP.  For ned in {0,2,3} (the tables the package generates),
      every valid point whose year fits the agreed digits and whose fraction fits
      six decimals -- calendar, ordinal and week dates; hh:mm:ss, hh:mm:ss,tt,
      hh:mm,nn and hh,ii forms; 24:00; Z and every sign hh:mm offset; negative and
      expanded years -- str(p) is str_text, the default parser accepts it, and
      the parsed point has the same date (same representation), the same zone
      and == time fields in the same precision form; it is not truncated and
      carries num_expanded_year_digits = ned. *)
Theorem C08_roundtrip : forall md ned p, In ned [0; 2; 3]%Z ->
  valid_tp md p = true -> year_ok ned (date_year (tdate p)) -> tod_fits6 (ttod p) = true ->
  exists p' q,
    do_str md ned p = DOk (str_text ned p) /\
    parse_text md (default_cfg (pcfg_ned ned)) (str_text ned p) false = POk p' /\
    ptp_to_tp p' = Some q /\ same_point q p /\ p_ned p' = ned /\ p_trunc p' = false.
Proof. exact roundtrip. Qed.
Print Assumptions C08_roundtrip.

(* the parsed value itself: every field *)
Theorem C08_parsed_fields : forall md ned p, In ned [0; 2; 3]%Z ->
  valid_tp md p = true -> year_ok ned (date_year (tdate p)) -> tod_fits6 (ttod p) = true ->
  exists t', tod_eq t' (ttod p) /\
    parse_text md (default_cfg (pcfg_ned ned)) (str_text ned p) false =
    POk (mkPtp (Some (date_year (tdate p))) (d_month (tdate p)) (d_dom (tdate p)) (d_doy (tdate p))
               (d_week (tdate p)) (d_dow (tdate p)) (tod_h t') (tod_m t') (tod_s t') (Some (tzone p))
               false "" ned "").
Proof. exact parse_str_text. Qed.
Print Assumptions C08_parsed_fields.

(* 5. str is a fixpoint: str(parse(str(p))) = str(p), the parsed point being
      printed with the expanded digits it carries *)
Theorem C08_fixpoint : forall md ned p, In ned [0; 2; 3]%Z ->
  valid_tp md p = true -> year_ok ned (date_year (tdate p)) -> tod_fits6 (ttod p) = true ->
  exists s p' q,
    do_str md ned p = DOk s /\
    parse_text md (default_cfg (pcfg_ned ned)) s false = POk p' /\ ptp_to_tp p' = Some q /\
    do_str md (p_ned p') q = DOk s.
Proof. exact str_fixpoint. Qed.
Print Assumptions C08_fixpoint.

(* 6. 24:00:00 is printed as such and read back as such *)
Theorem C08_roundtrip_24 : forall md ned d z, In ned [0; 2; 3]%Z ->
  valid_date md d = true -> valid_zone z = true -> year_ok ned (date_year d) ->
  let p := mkTp d (HMS 24 0 0) z in
  exists p' q,
    do_str md ned p = DOk (date_text (year_text ned (date_year d)) d ++ "T24:00:00" ++ zone_text z) /\
    parse_text md (default_cfg (pcfg_ned ned)) (date_text (year_text ned (date_year d)) d ++ "T24:00:00" ++ zone_text z) false = POk p' /\
    ptp_to_tp p' = Some q /\ same_point q p.
Proof. exact roundtrip_24. Qed.
Print Assumptions C08_roundtrip_24.

(* 7. CUSTOM FORMATS ENDING IN "Z".  For ned in {0,2,3}, every complete date
      expression of the tables (plain year, or expanded year when ned <> 0;
      calendar, ordinal or week date), "T", the time expression to the second in
      the same notation (basic with basic, extended with extended) and "Z": a
      valid point in hh:mm:ss form with whole seconds whose printed year fits is
      dumped to a text that the default parser reads back as a point in UTC that
      compares == with the original.  The printed point r = cust_point md k p UTC
      always exists, is valid and is the same instant (C08_custom_point); when
      its year does not fit, the dumper raises its bounds error.
      NOT covered by sections 7-9 (hence _partial): fractional seconds (the
      formats to the second drop them: see C08_custom_ex), times of day in
      hh:mm or hh form, reduced or truncated time and date expressions, the
      decimal expressions (",tt" ...), formats without a zone designator, the
      hour-only placeholder "+hh" (drops the zone's minutes), strftime-style
      "%" formats (property C17), and formats mixing a basic date with an
      extended time or zone or conversely: those are printed but the parser
      genuinely refuses their text (last two lines of C08_ex). *)
Theorem C08_custom_partial : forall md ned ext xp k p r,
  In ned [0; 2; 3]%Z -> In k [0; 1; 2]%Z -> (xp = true -> ned <> 0%Z) ->
  valid_tp md p = true -> hms_whole (ttod p) = true ->
  cust_point md k p (mkZone 0 0) = Some r -> year_ok (if xp then ned else 0%Z) (date_year (tdate r)) ->
  exists s p' q,
    do_dump md ned p (cdate_expr ext xp k ++ "T" ++ ctime_expr ext ++ "Z") = DOk s /\
    parse_text md (default_cfg (pcfg_ned ned)) s false = POk p' /\
    ptp_to_tp p' = Some q /\ tzone q = mkZone 0 0 /\ tp_cmp md q p = Some Eq.
Proof. exact custom_utc. Qed.
Print Assumptions C08_custom_partial.

(* the same from the dumper's side: whenever the dump succeeds, its text is
   read back as an equal point (no hypothesis on the year) *)
Theorem C08_custom_dumped_partial : forall md ned ext xp k p s,
  In ned [0; 2; 3]%Z -> In k [0; 1; 2]%Z -> (xp = true -> ned <> 0%Z) ->
  valid_tp md p = true -> hms_whole (ttod p) = true ->
  do_dump md ned p (cdate_expr ext xp k ++ "T" ++ ctime_expr ext ++ "Z") = DOk s ->
  exists p' q,
    parse_text md (default_cfg (pcfg_ned ned)) s false = POk p' /\
    ptp_to_tp p' = Some q /\ tzone q = mkZone 0 0 /\ tp_cmp md q p = Some Eq.
Proof. exact custom_utc_dumped. Qed.
Print Assumptions C08_custom_dumped_partial.

(* the printed point exists for every valid p (any hh:mm:ss, hh:mm or hh form),
   and a year outside the digits of the format is refused with the bounds error *)
Theorem C08_custom_point : forall md ned ext xp k p,
  In ned [0; 2; 3]%Z -> In k [0; 1; 2]%Z -> (xp = true -> ned <> 0%Z) -> valid_tp md p = true ->
  exists r, cust_point md k p (mkZone 0 0) = Some r /\ valid_tp md r = true /\ (instant md r == instant md p)%Q /\
            tzone r = mkZone 0 0 /\
            (~ year_ok (if xp then ned else 0%Z) (date_year (tdate r)) ->
             do_dump md ned p (cdate_expr ext xp k ++ "T" ++ ctime_expr ext ++ "Z") = DBounds).
Proof. exact custom_utc_point. Qed.
Print Assumptions C08_custom_point.
Theorem C08_custom_point_any_zone : forall md k p z, valid_tp md p = true -> valid_zone z = true ->
  exists r, cust_point md k p z = Some r /\ valid_tp md r = true /\ (instant md r == instant md p)%Q /\
            tzone r = z /\ tod_kind (ttod r) = tod_kind (ttod p) /\
            (if (k =? 2)%Z then rep_kind (tdate r) = 2%Z else rep_kind (tdate r) <> 2%Z).
Proof. exact cust_point_spec. Qed.
Print Assumptions C08_custom_point_any_zone.

(* 8. CUSTOM FORMATS WITH A LITERAL NUMERIC ZONE in the notation of the date:
      "+0530" "-0530" "+05" with a basic date, "+05:30" "-05:30" "+05" with an
      extended one, hours 00..99, minutes 00..59.  The dumper moves the point
      to that zone and prints the literal; the parser reads the zone back. *)
Theorem C08_literal_zone_text : forall ext zk neg a b,
  zlit ext zk neg a b = (if neg then "-" else "+") ++ pad_num 2 a ++
                        (if zk then (if ext then ":" else "") ++ pad_num 2 b else "").
Proof. exact zlit_text. Qed.
Print Assumptions C08_literal_zone_text.
Theorem C08_custom_literal_zone_partial : forall md ned ext xp k zk neg a b p r,
  In ned [0; 2; 3]%Z -> In k [0; 1; 2]%Z -> (xp = true -> ned <> 0%Z) -> (0 <= a <= 99)%Z -> (0 <= b <= 59)%Z ->
  valid_tp md p = true -> hms_whole (ttod p) = true ->
  cust_point md k p (zlit_zone zk neg a b) = Some r -> year_ok (if xp then ned else 0%Z) (date_year (tdate r)) ->
  exists s p' q,
    do_dump md ned p (cdate_expr ext xp k ++ "T" ++ ctime_expr ext ++ zlit ext zk neg a b) = DOk s /\
    parse_text md (default_cfg (pcfg_ned ned)) s false = POk p' /\
    ptp_to_tp p' = Some q /\ tzone q = zlit_zone zk neg a b /\ tp_cmp md q p = Some Eq.
Proof. exact custom_literal_zone. Qed.
Print Assumptions C08_custom_literal_zone_partial.

(* 9. CUSTOM FORMATS PRINTING THE POINT'S OWN ZONE with the placeholder "+hhmm"
      (basic) or "+hh:mm" (extended): no change of zone, the date is converted
      to the representation of the format, the parsed point has the zone of p *)
Theorem C08_custom_own_zone_partial : forall md ned ext xp k p d,
  In ned [0; 2; 3]%Z -> In k [0; 1; 2]%Z -> (xp = true -> ned <> 0%Z) ->
  valid_tp md p = true -> hms_whole (ttod p) = true ->
  cust_date md k (tdate p) = Some d -> year_ok (if xp then ned else 0%Z) (date_year d) ->
  exists s p' q,
    do_dump md ned p (cdate_expr ext xp k ++ "T" ++ ctime_expr ext ++ czone_expr ext) = DOk s /\
    parse_text md (default_cfg (pcfg_ned ned)) s false = POk p' /\
    ptp_to_tp p' = Some q /\ tzone q = tzone p /\ tp_cmp md q p = Some Eq.
Proof. exact custom_own_zone. Qed.
Print Assumptions C08_custom_own_zone_partial.
Theorem C08_custom_date : forall md k d, valid_date md d = true ->
  exists d', cust_date md k d = Some d' /\ valid_date md d' = true /\ date_dn md d' = date_dn md d /\
             (if (k =? 2)%Z then rep_kind d' = 2%Z else rep_kind d' <> 2%Z).
Proof. exact cust_date_spec. Qed.
Print Assumptions C08_custom_date.

(* the hypotheses are satisfiable; what the model computes on a week date with
   a decimal minute and a negative offset, an expanded negative year, and the
   inputs outside the property's hypotheses: a year beyond the agreed digits is
   printed but not read back, a fraction beyond six digits is read back as a
   different number, a negative year with no expanded digits cannot be printed,
   a format mixing a basic date with an extended time is printed but refused *)
Example C08_ex :
  valid_tp G (mkTp (Wk 2020 53 7) (HM 23 (119 # 2)) (mkZone (-9) (-30))) = true /\
  year_ok 0 2020 /\ tod_fits6 (HM 23 (119 # 2)) = true /\
  do_str G 0 (mkTp (Wk 2020 53 7) (HM 23 (119 # 2)) (mkZone (-9) (-30))) = DOk "2020-W53-7T23:59,5-09:30" /\
  option_map ptp_to_tp (match parse_text G (default_cfg 2) "2020-W53-7T23:59,5-09:30" false with POk x => Some x | PErr _ => None end) =
    Some (Some (mkTp (Wk 2020 53 7) (HM 23 (119 # 2)) (mkZone (-9) (-30)))) /\
  do_str G 3 (mkTp (Ord (-12344) 366) (HH 24) (mkZone 0 0)) = DOk "-0012344-366T24,0Z" /\
  option_map ptp_to_tp (match parse_text G (default_cfg 3) "-0012344-366T24,0Z" false with POk x => Some x | PErr _ => None end) =
    Some (Some (mkTp (Ord (-12344) 366) (HH 24) (mkZone 0 0))) /\
  do_str G 0 (mkTp (Cal 10000 1 1) (HMS 0 0 0) (mkZone 0 0)) = DOk "10000-01-01T00:00:00Z" /\
  parse_text G (default_cfg 2) "10000-01-01T00:00:00Z" false = PErr ESyntax /\
  do_str G 0 (mkTp (Cal 2000 1 1) (HMS 0 0 (1 # 3)) (mkZone 0 0)) = DOk "2000-01-01T00:00:00,333333Z" /\
  do_str G 0 (mkTp (Cal (-1) 1 1) (HMS 0 0 0) (mkZone 0 0)) = DOverflow /\
  do_dump G 0 (mkTp (Cal 2000 1 2) (HMS 3 4 5) (mkZone 0 0)) "CCYYMMDDThh:mm:ssZ" = DOk "20000102T03:04:05Z" /\
  parse_text G (default_cfg 2) "20000102T03:04:05Z" false = PErr ESyntax.
Proof. vm_compute. repeat split; try reflexivity; discriminate. Qed.

(* custom formats: the hypotheses of sections 7-9 are satisfiable (the printed
   point, the text, how the parsed point compares with the original), and what
   lies outside them: a fractional second is dropped (the parsed point is
   earlier), "+hh" drops the zone's minutes, a format without zone designator
   is read back in UTC, a year beyond the format's digits is refused *)
Example C08_custom_ex :
  let p := mkTp (Cal 2000 1 2) (HMS 3 4 5) (mkZone 1 0) in
  let back := fun (ned : Z) (p : tp) (d : dres) =>
    match d with
    | DOk s => match parse_text G (default_cfg (pcfg_ned ned)) s false with
               | POk x => option_map (fun q => tp_cmp G q p) (ptp_to_tp x) | PErr _ => None end
    | _ => None end in
  valid_tp G p = true /\ hms_whole (ttod p) = true /\
  cust_point G 2 p (mkZone 0 0) = Some (mkTp (Wk 1999 52 7) (HMS 2 4 5) (mkZone 0 0)) /\ year_ok 3 1999 /\
  cdate_expr false true 2 ++ "T" ++ ctime_expr false ++ "Z" = "+XCCYYWwwDThhmmssZ" /\
  do_dump G 3 p "+XCCYYWwwDThhmmssZ" = DOk "+0001999W527T020405Z" /\
  back 3%Z p (DOk "+0001999W527T020405Z") = Some (Some Eq) /\
  zlit true true true 5 30 = "-05:30" /\ zlit_zone true true 5 30 = mkZone (-5) (-30) /\
  cust_point G 1 p (mkZone (-5) (-30)) = Some (mkTp (Cal 2000 1 1) (HMS 20 34 5) (mkZone (-5) (-30))) /\ year_ok 0 2000 /\
  do_dump G 0 p (cdate_expr true false 1 ++ "T" ++ ctime_expr true ++ "-05:30") = DOk "2000-001T20:34:05-05:30" /\
  back 0%Z p (DOk "2000-001T20:34:05-05:30") = Some (Some Eq) /\
  cust_date G 0 (Cal 2000 1 2) = Some (Cal 2000 1 2) /\
  do_dump G 0 p (cdate_expr false false 0 ++ "T" ++ ctime_expr false ++ czone_expr false) = DOk "20000102T030405+0100" /\
  back 0%Z p (DOk "20000102T030405+0100") = Some (Some Eq) /\
  (let p1 := mkTp (Cal 2000 1 2) (HMS 3 4 (11 # 2)) (mkZone 0 0) in
   do_dump G 0 p1 "CCYYMMDDThhmmssZ" = DOk "20000102T030405Z" /\ back 0%Z p1 (DOk "20000102T030405Z") = Some (Some Lt)) /\
  (let p2 := mkTp (Cal 2000 1 2) (HMS 3 4 5) (mkZone 5 30) in
   do_dump G 0 p2 "CCYYMMDDThhmmss+hh" = DOk "20000102T030405+05" /\ back 0%Z p2 (DOk "20000102T030405+05") = Some (Some Gt)) /\
  do_dump G 0 p "CCYYMMDDThhmmss" = DOk "20000102T030405" /\ back 0%Z p (DOk "20000102T030405") = Some (Some Gt) /\
  do_dump G 0 (mkTp (Cal 10000 1 2) (HMS 3 4 5) (mkZone 0 0)) "CCYYMMDDThhmmssZ" = DBounds.
Proof. vm_compute. repeat split; try reflexivity; discriminate. Qed.
