(* Props/C15.v -- property C15: the active calendar mode alone determines
   calendar results.  Statements only; every proof is `exact` of a lemma of
   Proofs/CacheSpec.v.  The machine (state, op, step, run, spec_run, pure) is
   Model/Cache.v; the tables are gen/CacheTable.v and gen/CalTables.v,
   regenerated from the source on every run. *)
From Coq Require Import String.
From Iso Require Import Proofs.Tac Spec.Cal Model.Helpers gen.CalTables gen.CacheTable
  Model.Cache Proofs.CacheSpec.
Local Open Scope Z_scope.

(* every lru_cache'd function whose result depends on mode-dependent CALENDAR
   state (transitively through its callees) has CALENDAR.mode in its key at
   every call site; no caller mutates a cached object; the model's key table is
   the generated one; nothing but set_mode writes the singleton *)
Theorem C15_keys_ok :
  cache_table_ok = true /\
  (forall r, In r CACHED ->
     (mode_dependent (row_name r) = true -> row_key_has_mode r = true) /\ row_mutated r = false) /\
  (forall f, keyed_tbl f = negb (fname_eqb f FLeap)) /\
  mode_dependent "data.get_is_leap_year" = false /\
  CALENDAR_EXTERNAL_WRITES = [].
Proof. exact keys_ok. Qed.
Print Assumptions C15_keys_ok.

(* every cache entry equals the pure helper at its key's mode: holds initially,
   preserved by every step (nested machine, flat machine, and any machine
   whose key table omits the mode only for mode-independent functions) *)
Theorem C15_inv :
  inv (store init) /\
  (forall st o, inv (store st) -> inv (store (fst (step st o)))) /\
  (forall st o, inv (store st) -> inv (store (fst (step_flat st o)))) /\
  (forall keyed, keys_sound keyed -> forall st o, inv (store st) -> inv (store (fst (step_with keyed st o)))).
Proof. exact cache_inv. Qed.
Print Assumptions C15_inv.

(* every output of every history equals the pure helper under the mode last set *)
Theorem C15_history :
  (forall ops, snd (run init ops) = spec_run "gregorian" ops) /\
  (forall ops, snd (run_flat init ops) = spec_run "gregorian" ops) /\
  (forall ops i o, nth_error ops i = Some o ->
     nth_error (snd (run init ops)) i
     = Some (snd (spec_step (last_set "gregorian" (firstn i ops)) o))) /\
  (forall ops, cur (fst (run init ops)) = last_set "gregorian" ops).
Proof. exact history. Qed.
Print Assumptions C15_history.

(* ... and equals what a fresh process computes after one set_mode of the current spelling *)
Theorem C15_fresh : forall ops1 ops2,
  let st := fst (run init ops1) in
  let fresh_st := fst (step init (SetMode (cur st))) in
  cur fresh_st = cur st /\ store fresh_st = [] /\
  snd (run st ops2) = snd (run fresh_st ops2) /\
  snd (run st ops2) = spec_run (cur st) ops2.
Proof. exact fresh. Qed.
Print Assumptions C15_fresh.

(* set_mode reads only never-shadowed class constants or attributes assigned
   earlier in the same call: whatever the previous instance state, every
   attribute it assigns ends with the same value *)
Theorem C15_set_mode_fresh :
  set_mode_defuse_ok = true /\
  (forall (V : Type) (F : nat -> list V -> V) (s1 s2 : string -> V),
     (forall x, pure_const set_mode_assigned x = true -> s1 x = s2 x) ->
     forall a, In a set_mode_assigned ->
               run_defuse V F 0 SET_MODE_DEFUSE s1 a = run_defuse V F 0 SET_MODE_DEFUSE s2 a).
Proof. exact set_mode_fresh. Qed.
Print Assumptions C15_set_mode_fresh.

(* 12 x 30; 365 always; 366 always; the Gregorian 4/100/400 rule *)
Theorem C15_lengths : forall y,
  year_months D360 y = m360 /\ year_months D365 y = m365 /\ year_months D366 y = m366 /\
  year_months G y = (if is_leap y then m366 else m365) /\
  (forall m, 1 <= m <= 12 -> get_days_in_month D360 m y = 30) /\
  get_days_in_year D360 y = 360 /\ get_days_in_year D365 y = 365 /\ get_days_in_year D366 y = 366 /\
  get_days_in_month D365 2 y = 28 /\ get_days_in_month D366 2 y = 29 /\
  get_days_in_year G y = (if is_leap y then 366 else 365) /\
  get_days_in_month G 2 y = (if is_leap y then 29 else 28) /\
  (forall md m, 1 <= m <= 12 -> get_days_in_month md m y = mlen md y m) /\
  (forall md, get_days_in_year md y = ylen md y).
Proof. exact lengths. Qed.
Print Assumptions C15_lengths.

Theorem C15_spellings :
  smode "gregorian" = G /\ smode "360day" = D360 /\ smode "360_day" = D360 /\
  smode "365day" = D365 /\ smode "365_day" = D365 /\ smode "366day" = D366 /\ smode "366_day" = D366.
Proof. exact spelling_modes. Qed.
Print Assumptions C15_spellings.

(* if get_days_in_month's key lacked the mode, a two-call history returns a
   stale month length; the real key table does not *)
Theorem C15_unkeyed_refuted :
  let ops := [SetMode "360day"; Call FMlen [2; 2001]; SetMode "gregorian"; Call FMlen [2; 2001]] in
  snd (run_with keyed_without_mlen init ops) = [OOk; OVal [30]; OOk; OVal [30]] /\
  spec_run "gregorian" ops = [OOk; OVal [30]; OOk; OVal [28]] /\
  snd (run init ops) = [OOk; OVal [30]; OOk; OVal [28]] /\
  ~ keys_sound keyed_without_mlen.
Proof. exact unkeyed_refuted. Qed.
Print Assumptions C15_unkeyed_refuted.

(* the hypotheses are satisfiable: a history over CF spellings, upper case, an
   invalid spelling and None, with nested cache fills *)
Example C15_example :
  snd (run init [SetMode "360_day"; Call FWeeks [2001]; Call FYlen [2000]; SetMode "GREGORIAN";
                 Call FWeeks [2001]; Call FYlen [2000]; SetMode "bogus"; SetMode "";
                 Call FOwstart [2001]; SetMode "366day"; Call FMlen [2; 2001]])
  = [OOk; OVal [52]; OVal [360]; OOk; OVal [52]; OVal [366]; OBadMode; OOk;
     OVal [2001; 1]; OOk; OVal [29]]
  /\ List.length (store (fst (run init [SetMode "360_day"; Call FWeeks [2001]]))) = 12%nat.
Proof. vm_compute. split; reflexivity. Qed.
