(* Props/C20Code.v -- property C20 against the SOURCE: the truncated-point addition of class
   TimePoint (data.py: to_hour_minute_second, add_truncated, get_truncated_properties and the
   truncated branch of __add__, both operand orders), translated from the method bodies on every
   run (tools/translate_code6.py -> gen/GenCode6.v, on top of gen/GenCode4.v), computes the
   hand-written model Model/Truncated.v that Props/C20.v and Props/C20Ext.v are about.
   Statements only; proofs in Proofs/GenCode6Ok.v.

   Reading guide.  `rep fl p` is the object state of a non-truncated point p (Proofs/GenCode4Base.v),
   `rep_trunc flt t` that of a truncated point with the fields of the model's `trunc` record t
   (no year, no month, _truncated True, _truncated_property None; zone None = unknown).
   `returns_tp fl m r` = m returns `rep fl q` for a q equal to r up to the representation of
   rationals.  The translated code has one `fuel` for all its `while` loops; `Raise OutOfFuel`
   means a loop was not finished, never a Python outcome.  `trunc_fuel md p t` /
   `add_trunc_fuel md t p` are computed by an instrumented copy of the model (C20_code_model_link:
   erasing the figures gives the model's own add_truncated / tp_add_trunc): the fuel a finished
   run needs, or -- when the model says THang -- the bound of the loop that is still running.
     TOk r  : every fuel >= the need returns r (_ok), and EVERY fuel either runs out or returns r
              (_partial: whatever the real method returns is the model's value);
     TErr   : likewise with ValueError (a date conversion of a non-existent date);
     THang  : with any fuel up to the bound the code runs out of fuel, i.e. the real `while` needs
              more iterations than the model's bound (_hang; known findings F8b hour 24 and F11
              fractional forms are instances, see the Example).
   All theorems: every calendar mode, every full point p with a month in 1..12 (month_ok: true of
   everything TimePoint.__init__ accepts) in any date representation / time form / zone, any
   integers and rationals in its slots, every assignment t of hour/minute/second, day of week,
   day of month, day of year, week of year (any values).  The parameters month_of_year,
   year_of_decade, year_of_century of add_truncated are translated but outside the property and the
   model: the theorems are for these three = None. *)
From Coq Require Import QArith Qround List String.
From Iso Require Import Proofs.Tac Spec.Cal Spec.Instant Spec.NextMatch Model.Num Model.Duration Model.TimePoint
  Model.Truncated gen.GenCode4 gen.GenCode6 Proofs.GenCode4Base Proofs.GenCode4Stmt Proofs.GenCode4Ok
  Proofs.TruncSpec Proofs.GenCode6Ok.
Import ListNotations.
Open Scope Z_scope.

Theorem C20_code_translator_ok : translator_ok_code6 = true.
Proof. exact gen_code6_accepted. Qed.
Print Assumptions C20_code_translator_ok.

(* the fuel figures are read off the model's own run *)
Theorem C20_code_model_link : forall md p t,
  erase (add_truncated_i md p t) = add_truncated md p t /\
  erase (tp_add_trunc_i md t p) = tp_add_trunc md t p.
Proof. exact gen6_model_link. Qed.
Print Assumptions C20_code_model_link.

(* more fuel never changes a result *)
Theorem C20_code_fuel_monotone : forall cal o a1 a2 a3 a4 a5 a6 a7 a8 a9 a10 f f', (f <= f')%nat ->
  py_TimePoint_add_truncated f cal o a1 a2 a3 a4 a5 a6 a7 a8 a9 a10 <> Raise OutOfFuel ->
  py_TimePoint_add_truncated f' cal o a1 a2 a3 a4 a5 a6 a7 a8 a9 a10 =
  py_TimePoint_add_truncated f cal o a1 a2 a3 a4 a5 a6 a7 a8 a9 a10.
Proof. exact gen6_fuel_monotone. Qed.
Print Assumptions C20_code_fuel_monotone.

(* --- the helpers --- *)
Theorem C20_code_to_hour_minute_second : forall md fl p p' fuel, tp_equiv p' p ->
  returns_tp fl (py_TimePoint_to_hour_minute_second fuel (cal_of md) (rep fl p')) (to_hms p).
Proof. exact gen6_to_hour_minute_second. Qed.
Print Assumptions C20_code_to_hour_minute_second.

(* the dict handed to add_truncated: exactly the fields that are set *)
Theorem C20_code_get_truncated_properties : forall fuel cal fl t,
  py_TimePoint_get_truncated_properties fuel cal (rep_trunc fl t) =
  Ok (Some (mkTruncProps None None None (t_week t) (t_doy t) (t_dom t) (t_dow t) (t_hour t) (t_min t) (t_sec t))).
Proof. exact gen6_get_truncated_properties. Qed.
Print Assumptions C20_code_get_truncated_properties.

Theorem C20_code_get_truncated_properties_full : forall fuel cal fl p,
  py_TimePoint_get_truncated_properties fuel cal (rep fl p) = Ok None.
Proof. exact gen6_get_truncated_properties_full. Qed.
Print Assumptions C20_code_get_truncated_properties_full.

(* --- add_truncated --- *)
(* the master statement: code and instrumented model agree for every fuel *)
Theorem C20_code_add_truncated : forall md fl p p' t fuel, tp_equiv p' p -> month_ok p ->
  agrees fl fuel
    (py_TimePoint_add_truncated fuel (cal_of md) (rep fl p') None None None
       (t_week t) (t_doy t) (t_dom t) (t_dow t) (t_hour t) (t_min t) (t_sec t))
    (add_truncated_i md p t).
Proof. exact gen6_add_truncated. Qed.
Print Assumptions C20_code_add_truncated.

(* ... spelled out against Model/Truncated.v *)
Theorem C20_code_add_truncated_ok : forall md fl p p' t fuel, tp_equiv p' p -> month_ok p ->
  forall r, add_truncated md p t = TOk r -> (Z.to_nat (trunc_fuel md p t) <= fuel)%nat ->
  returns_tp fl (py_TimePoint_add_truncated fuel (cal_of md) (rep fl p') None None None
                   (t_week t) (t_doy t) (t_dom t) (t_dow t) (t_hour t) (t_min t) (t_sec t)) r.
Proof. exact gen6_add_truncated_ok. Qed.
Print Assumptions C20_code_add_truncated_ok.

Theorem C20_code_add_truncated_partial : forall md fl p p' t fuel, tp_equiv p' p -> month_ok p ->
  forall r, add_truncated md p t = TOk r ->
  let m := py_TimePoint_add_truncated fuel (cal_of md) (rep fl p') None None None
             (t_week t) (t_doy t) (t_dom t) (t_dow t) (t_hour t) (t_min t) (t_sec t) in
  m = Raise OutOfFuel \/ returns_tp fl m r.
Proof. exact gen6_add_truncated_partial. Qed.
Print Assumptions C20_code_add_truncated_partial.

Theorem C20_code_add_truncated_err : forall md fl p p' t fuel, tp_equiv p' p -> month_ok p ->
  add_truncated md p t = TErr ->
  let m := py_TimePoint_add_truncated fuel (cal_of md) (rep fl p') None None None
             (t_week t) (t_doy t) (t_dom t) (t_dow t) (t_hour t) (t_min t) (t_sec t) in
  ((Z.to_nat (trunc_fuel md p t) <= fuel)%nat -> m = Raise ValueError) /\
  (m = Raise OutOfFuel \/ m = Raise ValueError).
Proof. exact gen6_add_truncated_err. Qed.
Print Assumptions C20_code_add_truncated_err.

Theorem C20_code_add_truncated_hang : forall md fl p p' t fuel, tp_equiv p' p -> month_ok p ->
  add_truncated md p t = THang -> (fuel <= Z.to_nat (trunc_fuel md p t))%nat ->
  py_TimePoint_add_truncated fuel (cal_of md) (rep fl p') None None None
    (t_week t) (t_doy t) (t_dom t) (t_dow t) (t_hour t) (t_min t) (t_sec t) = Raise OutOfFuel.
Proof. exact gen6_add_truncated_hang. Qed.
Print Assumptions C20_code_add_truncated_hang.

(* --- __add__: truncated + full (one unit of fuel for the call itself) --- *)
Theorem C20_code_add_left : forall md fl flt t p p' fuel, tp_equiv p' p -> month_ok p ->
  agrees fl fuel (py_TimePoint___add____TimePoint fuel (cal_of md) (rep_trunc flt t) (rep fl p'))
         (ishift 1 (tp_add_trunc_i md t p)).
Proof. exact gen6_add_trunc_left. Qed.
Print Assumptions C20_code_add_left.

Theorem C20_code_add_left_ok : forall md fl p p' t fuel, tp_equiv p' p -> month_ok p -> forall flt r,
  tp_add_trunc md t p = TOk r -> (Z.to_nat (add_trunc_fuel md t p) + 1 <= fuel)%nat ->
  returns_tp fl (py_TimePoint___add____TimePoint fuel (cal_of md) (rep_trunc flt t) (rep fl p')) r.
Proof. exact gen6_add_left_ok. Qed.
Print Assumptions C20_code_add_left_ok.

Theorem C20_code_add_left_partial : forall md fl p p' t fuel, tp_equiv p' p -> month_ok p -> forall flt r,
  tp_add_trunc md t p = TOk r ->
  let m := py_TimePoint___add____TimePoint fuel (cal_of md) (rep_trunc flt t) (rep fl p') in
  m = Raise OutOfFuel \/ returns_tp fl m r.
Proof. exact gen6_add_left_partial. Qed.
Print Assumptions C20_code_add_left_partial.

Theorem C20_code_add_left_err : forall md fl p p' t fuel, tp_equiv p' p -> month_ok p -> forall flt,
  tp_add_trunc md t p = TErr ->
  let m := py_TimePoint___add____TimePoint fuel (cal_of md) (rep_trunc flt t) (rep fl p') in
  ((Z.to_nat (add_trunc_fuel md t p) + 1 <= fuel)%nat -> m = Raise ValueError) /\
  (m = Raise OutOfFuel \/ m = Raise ValueError).
Proof. exact gen6_add_left_err. Qed.
Print Assumptions C20_code_add_left_err.

Theorem C20_code_add_left_hang : forall md fl p p' t fuel, tp_equiv p' p -> month_ok p -> forall flt,
  tp_add_trunc md t p = THang -> (fuel <= Z.to_nat (add_trunc_fuel md t p) + 1)%nat ->
  py_TimePoint___add____TimePoint fuel (cal_of md) (rep_trunc flt t) (rep fl p') = Raise OutOfFuel.
Proof. exact gen6_add_left_hang. Qed.
Print Assumptions C20_code_add_left_hang.

(* --- __add__: full + truncated (`return other + self`: one more unit of fuel) --- *)
Theorem C20_code_add_right : forall md fl flt t p p' fuel, tp_equiv p' p -> month_ok p ->
  agrees fl fuel (py_TimePoint___add____TimePoint fuel (cal_of md) (rep fl p') (rep_trunc flt t))
         (ishift 1 (ishift 1 (tp_add_trunc_i md t p))).
Proof. exact gen6_add_trunc_right. Qed.
Print Assumptions C20_code_add_right.

Theorem C20_code_add_right_ok : forall md fl p p' t fuel, tp_equiv p' p -> month_ok p -> forall flt r,
  tp_add_trunc md t p = TOk r -> (Z.to_nat (add_trunc_fuel md t p) + 2 <= fuel)%nat ->
  returns_tp fl (py_TimePoint___add____TimePoint fuel (cal_of md) (rep fl p') (rep_trunc flt t)) r.
Proof. exact gen6_add_right_ok. Qed.
Print Assumptions C20_code_add_right_ok.

Theorem C20_code_add_right_partial : forall md fl p p' t fuel, tp_equiv p' p -> month_ok p -> forall flt r,
  tp_add_trunc md t p = TOk r ->
  let m := py_TimePoint___add____TimePoint fuel (cal_of md) (rep fl p') (rep_trunc flt t) in
  m = Raise OutOfFuel \/ returns_tp fl m r.
Proof. exact gen6_add_right_partial. Qed.
Print Assumptions C20_code_add_right_partial.

Theorem C20_code_add_right_err : forall md fl p p' t fuel, tp_equiv p' p -> month_ok p -> forall flt,
  tp_add_trunc md t p = TErr ->
  let m := py_TimePoint___add____TimePoint fuel (cal_of md) (rep fl p') (rep_trunc flt t) in
  ((Z.to_nat (add_trunc_fuel md t p) + 2 <= fuel)%nat -> m = Raise ValueError) /\
  (m = Raise OutOfFuel \/ m = Raise ValueError).
Proof. exact gen6_add_right_err. Qed.
Print Assumptions C20_code_add_right_err.

Theorem C20_code_add_right_hang : forall md fl p p' t fuel, tp_equiv p' p -> month_ok p -> forall flt,
  tp_add_trunc md t p = THang -> (fuel <= Z.to_nat (add_trunc_fuel md t p) + 2)%nat ->
  py_TimePoint___add____TimePoint fuel (cal_of md) (rep fl p') (rep_trunc flt t) = Raise OutOfFuel.
Proof. exact gen6_add_right_hang. Qed.
Print Assumptions C20_code_add_right_hang.

(* --- property C20 of the translated code itself (time fields only; C20_time_only of Props/C20.v
   carried over: the other theorems of Props/C20.v / C20Ext.v transfer the same way, they are
   statements about `tp_add_trunc md t p = TOk r`) --- *)
Theorem C20_code_time_only : forall md fl flt p t fuel,
  valid_tp md p = true -> whole_second p -> time_only t -> t_zone t = None ->
  (Z.to_nat (add_trunc_fuel md t p) + 2 <= fuel)%nat ->
  exists r,
    returns_tp fl (py_TimePoint___add____TimePoint fuel (cal_of md) (rep_trunc flt t) (rep fl p)) r /\
    returns_tp fl (py_TimePoint___add____TimePoint fuel (cal_of md) (rep fl p) (rep_trunc flt t)) r /\
    valid_tp md r = true /\ tzone r = tzone p /\ rep_kind (tdate r) = rep_kind (tdate p) /\
    (let '(n0, s0) := local_ds md p (tzone p) in let '(n, s) := local_ds md r (tzone p) in
     next_match md (mkDay None None None None) (mkTod (qfl (t_hour t)) (qfl (t_min t)) (qfl (t_sec t)))
                n0 (Qfloor s0) 2 = Some (n, Qfloor s) /\ qis_int s = true).
Proof. exact gen6_c20_time_only. Qed.
Print Assumptions C20_code_time_only.

(* the generated definitions on concrete states; every expected value was produced by the real package
   (tools/gencode6_example.py, PYTHONPATH=/repo): truncated + full and full + truncated in two calendar
   modes, all three date representations, a 24:00 point, zones, a truncated point with its own zone;
   rep_trunc is the state the constructor leaves behind for a truncated point;
   both sides of the fuel (1460 day steps to the next day 366); known findings F8b (hour 24) and F11
   (fraction of a second) as loops that are still running after 5000 iterations *)
Example C20_code_ex :
  (* 25 checks in mode gregorian, 25 in 360day, 8 on fuel / known findings / errors *)
  tp_is (py_TimePoint___add____TimePoint 2000 (cal_of G) (mkTimePoint 0 None None None None None None (Some (Qmake 6 1)) None None true None None None (mkTimeZone 0 0 true)) (mkTimePoint 0 (Some 2000) (Some 1) None (Some 1) None None (Some (Qmake 12 1)) (Some (Qmake 0 1)) (Some (Qmake 0 1)) false None None None (mkTimeZone 0 0 false))) (mkTimePoint 0 (Some 2000) (Some 1) None (Some 2) None None (Some (Qmake 6 1)) (Some (Qmake 0 1)) (Some (Qmake 0 1)) false None None None (mkTimeZone 0 0 false)) = true /\
  tp_is (py_TimePoint___add____TimePoint 2000 (cal_of G) (mkTimePoint 0 None None None None None None None (Some (Qmake 30 1)) (Some (Qmake 15 1)) true None None None (mkTimeZone 0 0 true)) (mkTimePoint 0 (Some 2000) (Some 1) None (Some 1) None None (Some (Qmake 12 1)) (Some (Qmake 0 1)) (Some (Qmake 0 1)) false None None None (mkTimeZone 0 0 false))) (mkTimePoint 0 (Some 2000) (Some 1) None (Some 1) None None (Some (Qmake 12 1)) (Some (Qmake 30 1)) (Some (Qmake 15 1)) false None None None (mkTimeZone 0 0 false)) = true /\
  tp_is (py_TimePoint___add____TimePoint 2000 (cal_of G) (mkTimePoint 0 None None None (Some 31) None None None None None true None None None (mkTimeZone 0 0 true)) (mkTimePoint 0 (Some 2000) (Some 1) None (Some 1) None None (Some (Qmake 12 1)) (Some (Qmake 0 1)) (Some (Qmake 0 1)) false None None None (mkTimeZone 0 0 false))) (mkTimePoint 0 (Some 2000) (Some 1) None (Some 31) None None (Some (Qmake 12 1)) (Some (Qmake 0 1)) (Some (Qmake 0 1)) false None None None (mkTimeZone 0 0 false)) = true /\
  tp_is (py_TimePoint___add____TimePoint 2000 (cal_of G) (mkTimePoint 0 None None None None (Some 3) None (Some (Qmake 0 1)) None None true None None None (mkTimeZone 1 0 false)) (mkTimePoint 0 (Some 2000) (Some 1) None (Some 1) None None (Some (Qmake 12 1)) (Some (Qmake 0 1)) (Some (Qmake 0 1)) false None None None (mkTimeZone 0 0 false))) (mkTimePoint 0 (Some 2000) None None None (Some 2) (Some 1) (Some (Qmake 23 1)) (Some (Qmake 0 1)) (Some (Qmake 0 1)) false None None None (mkTimeZone 0 0 false)) = true /\
  tp_is (py_TimePoint___add____TimePoint 2000 (cal_of G) (mkTimePoint 0 None None None None (Some 1) (Some 53) None None None true None None None (mkTimeZone 0 0 true)) (mkTimePoint 0 (Some 2000) (Some 1) None (Some 1) None None (Some (Qmake 12 1)) (Some (Qmake 0 1)) (Some (Qmake 0 1)) false None None None (mkTimeZone 0 0 false))) (mkTimePoint 0 (Some 2004) None None None (Some 1) (Some 53) (Some (Qmake 12 1)) (Some (Qmake 0 1)) (Some (Qmake 0 1)) false None None None (mkTimeZone 0 0 false)) = true /\
  tp_is (py_TimePoint___add____TimePoint 2000 (cal_of G) (mkTimePoint 0 (Some 2000) (Some 1) None (Some 1) None None (Some (Qmake 12 1)) (Some (Qmake 0 1)) (Some (Qmake 0 1)) false None None None (mkTimeZone 0 0 false)) (mkTimePoint 0 None None None None None None (Some (Qmake 6 1)) None None true None None None (mkTimeZone 0 0 true))) (mkTimePoint 0 (Some 2000) (Some 1) None (Some 2) None None (Some (Qmake 6 1)) (Some (Qmake 0 1)) (Some (Qmake 0 1)) false None None None (mkTimeZone 0 0 false)) = true /\
  tp_is (py_TimePoint___add____TimePoint 2000 (cal_of G) (mkTimePoint 0 None None None None None None (Some (Qmake 6 1)) None None true None None None (mkTimeZone 0 0 true)) (mkTimePoint 0 (Some 2001) None (Some 40) None None None (Some (Qmake 23 1)) (Some (Qmake 59 1)) (Some (Qmake 59 1)) false None None None (mkTimeZone 5 30 false))) (mkTimePoint 0 (Some 2001) None (Some 41) None None None (Some (Qmake 6 1)) (Some (Qmake 0 1)) (Some (Qmake 0 1)) false None None None (mkTimeZone 5 30 false)) = true /\
  tp_is (py_TimePoint___add____TimePoint 2000 (cal_of G) (mkTimePoint 0 None None None None None None None (Some (Qmake 30 1)) (Some (Qmake 15 1)) true None None None (mkTimeZone 0 0 true)) (mkTimePoint 0 (Some 2001) None (Some 40) None None None (Some (Qmake 23 1)) (Some (Qmake 59 1)) (Some (Qmake 59 1)) false None None None (mkTimeZone 5 30 false))) (mkTimePoint 0 (Some 2001) None (Some 41) None None None (Some (Qmake 0 1)) (Some (Qmake 30 1)) (Some (Qmake 15 1)) false None None None (mkTimeZone 5 30 false)) = true /\
  tp_is (py_TimePoint___add____TimePoint 2000 (cal_of G) (mkTimePoint 0 None None None (Some 31) None None None None None true None None None (mkTimeZone 0 0 true)) (mkTimePoint 0 (Some 2001) None (Some 40) None None None (Some (Qmake 23 1)) (Some (Qmake 59 1)) (Some (Qmake 59 1)) false None None None (mkTimeZone 5 30 false))) (mkTimePoint 0 (Some 2001) (Some 3) None (Some 31) None None (Some (Qmake 23 1)) (Some (Qmake 59 1)) (Some (Qmake 59 1)) false None None None (mkTimeZone 5 30 false)) = true /\
  tp_is (py_TimePoint___add____TimePoint 2000 (cal_of G) (mkTimePoint 0 None None None None (Some 3) None (Some (Qmake 0 1)) None None true None None None (mkTimeZone 1 0 false)) (mkTimePoint 0 (Some 2001) None (Some 40) None None None (Some (Qmake 23 1)) (Some (Qmake 59 1)) (Some (Qmake 59 1)) false None None None (mkTimeZone 5 30 false))) (mkTimePoint 0 (Some 2001) None None None (Some 3) (Some 7) (Some (Qmake 4 1)) (Some (Qmake 30 1)) (Some (Qmake 0 1)) false None None None (mkTimeZone 5 30 false)) = true /\
  tp_is (py_TimePoint___add____TimePoint 2000 (cal_of G) (mkTimePoint 0 None None None None (Some 1) (Some 53) None None None true None None None (mkTimeZone 0 0 true)) (mkTimePoint 0 (Some 2001) None (Some 40) None None None (Some (Qmake 23 1)) (Some (Qmake 59 1)) (Some (Qmake 59 1)) false None None None (mkTimeZone 5 30 false))) (mkTimePoint 0 (Some 2004) None None None (Some 1) (Some 53) (Some (Qmake 23 1)) (Some (Qmake 59 1)) (Some (Qmake 59 1)) false None None None (mkTimeZone 5 30 false)) = true /\
  tp_is (py_TimePoint___add____TimePoint 2000 (cal_of G) (mkTimePoint 0 (Some 2001) None (Some 40) None None None (Some (Qmake 23 1)) (Some (Qmake 59 1)) (Some (Qmake 59 1)) false None None None (mkTimeZone 5 30 false)) (mkTimePoint 0 None None None None None None (Some (Qmake 6 1)) None None true None None None (mkTimeZone 0 0 true))) (mkTimePoint 0 (Some 2001) None (Some 41) None None None (Some (Qmake 6 1)) (Some (Qmake 0 1)) (Some (Qmake 0 1)) false None None None (mkTimeZone 5 30 false)) = true /\
  tp_is (py_TimePoint___add____TimePoint 2000 (cal_of G) (mkTimePoint 0 None None None None None None (Some (Qmake 6 1)) None None true None None None (mkTimeZone 0 0 true)) (mkTimePoint 0 (Some 2003) None None None (Some 7) (Some 51) (Some (Qmake 24 1)) (Some (Qmake 0 1)) (Some (Qmake 0 1)) false None None None (mkTimeZone (-3) 0 false))) (mkTimePoint 0 (Some 2003) None None None (Some 1) (Some 52) (Some (Qmake 6 1)) (Some (Qmake 0 1)) (Some (Qmake 0 1)) false None None None (mkTimeZone (-3) 0 false)) = true /\
  tp_is (py_TimePoint___add____TimePoint 2000 (cal_of G) (mkTimePoint 0 None None None None None None None (Some (Qmake 30 1)) (Some (Qmake 15 1)) true None None None (mkTimeZone 0 0 true)) (mkTimePoint 0 (Some 2003) None None None (Some 7) (Some 51) (Some (Qmake 24 1)) (Some (Qmake 0 1)) (Some (Qmake 0 1)) false None None None (mkTimeZone (-3) 0 false))) (mkTimePoint 0 (Some 2003) None None None (Some 1) (Some 52) (Some (Qmake 0 1)) (Some (Qmake 30 1)) (Some (Qmake 15 1)) false None None None (mkTimeZone (-3) 0 false)) = true /\
  tp_is (py_TimePoint___add____TimePoint 2000 (cal_of G) (mkTimePoint 0 None None None (Some 31) None None None None None true None None None (mkTimeZone 0 0 true)) (mkTimePoint 0 (Some 2003) None None None (Some 7) (Some 51) (Some (Qmake 24 1)) (Some (Qmake 0 1)) (Some (Qmake 0 1)) false None None None (mkTimeZone (-3) 0 false))) (mkTimePoint 0 (Some 2003) (Some 12) None (Some 31) None None (Some (Qmake 0 1)) (Some (Qmake 0 1)) (Some (Qmake 0 1)) false None None None (mkTimeZone (-3) 0 false)) = true /\
  tp_is (py_TimePoint___add____TimePoint 2000 (cal_of G) (mkTimePoint 0 None None None None (Some 3) None (Some (Qmake 0 1)) None None true None None None (mkTimeZone 1 0 false)) (mkTimePoint 0 (Some 2003) None None None (Some 7) (Some 51) (Some (Qmake 24 1)) (Some (Qmake 0 1)) (Some (Qmake 0 1)) false None None None (mkTimeZone (-3) 0 false))) (mkTimePoint 0 (Some 2003) None None None (Some 2) (Some 52) (Some (Qmake 20 1)) (Some (Qmake 0 1)) (Some (Qmake 0 1)) false None None None (mkTimeZone (-3) 0 false)) = true /\
  tp_is (py_TimePoint___add____TimePoint 2000 (cal_of G) (mkTimePoint 0 None None None None (Some 1) (Some 53) None None None true None None None (mkTimeZone 0 0 true)) (mkTimePoint 0 (Some 2003) None None None (Some 7) (Some 51) (Some (Qmake 24 1)) (Some (Qmake 0 1)) (Some (Qmake 0 1)) false None None None (mkTimeZone (-3) 0 false))) (mkTimePoint 0 (Some 2004) None None None (Some 1) (Some 53) (Some (Qmake 0 1)) (Some (Qmake 0 1)) (Some (Qmake 0 1)) false None None None (mkTimeZone (-3) 0 false)) = true /\
  tp_is (py_TimePoint___add____TimePoint 2000 (cal_of G) (mkTimePoint 0 (Some 2003) None None None (Some 7) (Some 51) (Some (Qmake 24 1)) (Some (Qmake 0 1)) (Some (Qmake 0 1)) false None None None (mkTimeZone (-3) 0 false)) (mkTimePoint 0 None None None None None None (Some (Qmake 6 1)) None None true None None None (mkTimeZone 0 0 true))) (mkTimePoint 0 (Some 2003) None None None (Some 1) (Some 52) (Some (Qmake 6 1)) (Some (Qmake 0 1)) (Some (Qmake 0 1)) false None None None (mkTimeZone (-3) 0 false)) = true /\
  tp_eqb (rep_trunc (mkFlags 0 None None None) (mkTrunc (Some (Qmake 6 1)) None None None None None None None)) (mkTimePoint 0 None None None None None None (Some (Qmake 6 1)) None None true None None None (mkTimeZone 0 0 true)) = true /\
  tp_eqb (rep_trunc (mkFlags 0 None None None) (mkTrunc None (Some (Qmake 30 1)) (Some (Qmake 15 1)) None None None None None)) (mkTimePoint 0 None None None None None None None (Some (Qmake 30 1)) (Some (Qmake 15 1)) true None None None (mkTimeZone 0 0 true)) = true /\
  tp_eqb (rep_trunc (mkFlags 0 None None None) (mkTrunc None None None None (Some 31) None None None)) (mkTimePoint 0 None None None (Some 31) None None None None None true None None None (mkTimeZone 0 0 true)) = true /\
  tp_eqb (rep_trunc (mkFlags 0 None None None) (mkTrunc (Some (Qmake 0 1)) None None (Some 3) None None None (Some (mkZone 1 0)))) (mkTimePoint 0 None None None None (Some 3) None (Some (Qmake 0 1)) None None true None None None (mkTimeZone 1 0 false)) = true /\
  tp_eqb (rep_trunc (mkFlags 0 None None None) (mkTrunc None None None (Some 1) None None (Some 53) None)) (mkTimePoint 0 None None None None (Some 1) (Some 53) None None None true None None None (mkTimeZone 0 0 true)) = true /\
  props_is (py_TimePoint_get_truncated_properties 0 (cal_of G) (mkTimePoint 0 None None None None (Some 3) None (Some (Qmake 0 1)) None None true None None None (mkTimeZone 1 0 false))) (Some (mkTruncProps None None None None None None (Some 3) (Some (Qmake 0 1)) None None)) = true /\
  props_is (py_TimePoint_get_truncated_properties 0 (cal_of G) (mkTimePoint 0 (Some 2000) (Some 1) None (Some 1) None None (Some (Qmake 12 1)) (Some (Qmake 0 1)) (Some (Qmake 0 1)) false None None None (mkTimeZone 0 0 false))) None = true /\
  tp_is (py_TimePoint___add____TimePoint 2000 (cal_of D360) (mkTimePoint 0 None None None None None None (Some (Qmake 6 1)) None None true None None None (mkTimeZone 0 0 true)) (mkTimePoint 0 (Some 2000) (Some 1) None (Some 1) None None (Some (Qmake 12 1)) (Some (Qmake 0 1)) (Some (Qmake 0 1)) false None None None (mkTimeZone 0 0 false))) (mkTimePoint 0 (Some 2000) (Some 1) None (Some 2) None None (Some (Qmake 6 1)) (Some (Qmake 0 1)) (Some (Qmake 0 1)) false None None None (mkTimeZone 0 0 false)) = true /\
  tp_is (py_TimePoint___add____TimePoint 2000 (cal_of D360) (mkTimePoint 0 None None None None None None None (Some (Qmake 30 1)) (Some (Qmake 15 1)) true None None None (mkTimeZone 0 0 true)) (mkTimePoint 0 (Some 2000) (Some 1) None (Some 1) None None (Some (Qmake 12 1)) (Some (Qmake 0 1)) (Some (Qmake 0 1)) false None None None (mkTimeZone 0 0 false))) (mkTimePoint 0 (Some 2000) (Some 1) None (Some 1) None None (Some (Qmake 12 1)) (Some (Qmake 30 1)) (Some (Qmake 15 1)) false None None None (mkTimeZone 0 0 false)) = true /\
  tp_is (py_TimePoint___add____TimePoint 2000 (cal_of D360) (mkTimePoint 0 None None None (Some 30) None None None None None true None None None (mkTimeZone 0 0 true)) (mkTimePoint 0 (Some 2000) (Some 1) None (Some 1) None None (Some (Qmake 12 1)) (Some (Qmake 0 1)) (Some (Qmake 0 1)) false None None None (mkTimeZone 0 0 false))) (mkTimePoint 0 (Some 2000) (Some 1) None (Some 30) None None (Some (Qmake 12 1)) (Some (Qmake 0 1)) (Some (Qmake 0 1)) false None None None (mkTimeZone 0 0 false)) = true /\
  tp_is (py_TimePoint___add____TimePoint 2000 (cal_of D360) (mkTimePoint 0 None None None None (Some 3) None (Some (Qmake 0 1)) None None true None None None (mkTimeZone 1 0 false)) (mkTimePoint 0 (Some 2000) (Some 1) None (Some 1) None None (Some (Qmake 12 1)) (Some (Qmake 0 1)) (Some (Qmake 0 1)) false None None None (mkTimeZone 0 0 false))) (mkTimePoint 0 (Some 2000) None None None (Some 2) (Some 1) (Some (Qmake 23 1)) (Some (Qmake 0 1)) (Some (Qmake 0 1)) false None None None (mkTimeZone 0 0 false)) = true /\
  tp_is (py_TimePoint___add____TimePoint 2000 (cal_of D360) (mkTimePoint 0 None None None None (Some 1) (Some 52) None None None true None None None (mkTimeZone 0 0 true)) (mkTimePoint 0 (Some 2000) (Some 1) None (Some 1) None None (Some (Qmake 12 1)) (Some (Qmake 0 1)) (Some (Qmake 0 1)) false None None None (mkTimeZone 0 0 false))) (mkTimePoint 0 (Some 2001) None None None (Some 1) (Some 52) (Some (Qmake 12 1)) (Some (Qmake 0 1)) (Some (Qmake 0 1)) false None None None (mkTimeZone 0 0 false)) = true /\
  tp_is (py_TimePoint___add____TimePoint 2000 (cal_of D360) (mkTimePoint 0 (Some 2000) (Some 1) None (Some 1) None None (Some (Qmake 12 1)) (Some (Qmake 0 1)) (Some (Qmake 0 1)) false None None None (mkTimeZone 0 0 false)) (mkTimePoint 0 None None None None None None (Some (Qmake 6 1)) None None true None None None (mkTimeZone 0 0 true))) (mkTimePoint 0 (Some 2000) (Some 1) None (Some 2) None None (Some (Qmake 6 1)) (Some (Qmake 0 1)) (Some (Qmake 0 1)) false None None None (mkTimeZone 0 0 false)) = true /\
  tp_is (py_TimePoint___add____TimePoint 2000 (cal_of D360) (mkTimePoint 0 None None None None None None (Some (Qmake 6 1)) None None true None None None (mkTimeZone 0 0 true)) (mkTimePoint 0 (Some 2001) None (Some 40) None None None (Some (Qmake 23 1)) (Some (Qmake 59 1)) (Some (Qmake 59 1)) false None None None (mkTimeZone 5 30 false))) (mkTimePoint 0 (Some 2001) None (Some 41) None None None (Some (Qmake 6 1)) (Some (Qmake 0 1)) (Some (Qmake 0 1)) false None None None (mkTimeZone 5 30 false)) = true /\
  tp_is (py_TimePoint___add____TimePoint 2000 (cal_of D360) (mkTimePoint 0 None None None None None None None (Some (Qmake 30 1)) (Some (Qmake 15 1)) true None None None (mkTimeZone 0 0 true)) (mkTimePoint 0 (Some 2001) None (Some 40) None None None (Some (Qmake 23 1)) (Some (Qmake 59 1)) (Some (Qmake 59 1)) false None None None (mkTimeZone 5 30 false))) (mkTimePoint 0 (Some 2001) None (Some 41) None None None (Some (Qmake 0 1)) (Some (Qmake 30 1)) (Some (Qmake 15 1)) false None None None (mkTimeZone 5 30 false)) = true /\
  tp_is (py_TimePoint___add____TimePoint 2000 (cal_of D360) (mkTimePoint 0 None None None (Some 30) None None None None None true None None None (mkTimeZone 0 0 true)) (mkTimePoint 0 (Some 2001) None (Some 40) None None None (Some (Qmake 23 1)) (Some (Qmake 59 1)) (Some (Qmake 59 1)) false None None None (mkTimeZone 5 30 false))) (mkTimePoint 0 (Some 2001) (Some 2) None (Some 30) None None (Some (Qmake 23 1)) (Some (Qmake 59 1)) (Some (Qmake 59 1)) false None None None (mkTimeZone 5 30 false)) = true /\
  tp_is (py_TimePoint___add____TimePoint 2000 (cal_of D360) (mkTimePoint 0 None None None None (Some 3) None (Some (Qmake 0 1)) None None true None None None (mkTimeZone 1 0 false)) (mkTimePoint 0 (Some 2001) None (Some 40) None None None (Some (Qmake 23 1)) (Some (Qmake 59 1)) (Some (Qmake 59 1)) false None None None (mkTimeZone 5 30 false))) (mkTimePoint 0 (Some 2001) None None None (Some 3) (Some 7) (Some (Qmake 4 1)) (Some (Qmake 30 1)) (Some (Qmake 0 1)) false None None None (mkTimeZone 5 30 false)) = true /\
  tp_is (py_TimePoint___add____TimePoint 2000 (cal_of D360) (mkTimePoint 0 None None None None (Some 1) (Some 52) None None None true None None None (mkTimeZone 0 0 true)) (mkTimePoint 0 (Some 2001) None (Some 40) None None None (Some (Qmake 23 1)) (Some (Qmake 59 1)) (Some (Qmake 59 1)) false None None None (mkTimeZone 5 30 false))) (mkTimePoint 0 (Some 2001) None None None (Some 1) (Some 52) (Some (Qmake 23 1)) (Some (Qmake 59 1)) (Some (Qmake 59 1)) false None None None (mkTimeZone 5 30 false)) = true /\
  tp_is (py_TimePoint___add____TimePoint 2000 (cal_of D360) (mkTimePoint 0 (Some 2001) None (Some 40) None None None (Some (Qmake 23 1)) (Some (Qmake 59 1)) (Some (Qmake 59 1)) false None None None (mkTimeZone 5 30 false)) (mkTimePoint 0 None None None None None None (Some (Qmake 6 1)) None None true None None None (mkTimeZone 0 0 true))) (mkTimePoint 0 (Some 2001) None (Some 41) None None None (Some (Qmake 6 1)) (Some (Qmake 0 1)) (Some (Qmake 0 1)) false None None None (mkTimeZone 5 30 false)) = true /\
  tp_is (py_TimePoint___add____TimePoint 2000 (cal_of D360) (mkTimePoint 0 None None None None None None (Some (Qmake 6 1)) None None true None None None (mkTimeZone 0 0 true)) (mkTimePoint 0 (Some 2003) None None None (Some 7) (Some 51) (Some (Qmake 24 1)) (Some (Qmake 0 1)) (Some (Qmake 0 1)) false None None None (mkTimeZone (-3) 0 false))) (mkTimePoint 0 (Some 2004) None None None (Some 1) (Some 1) (Some (Qmake 6 1)) (Some (Qmake 0 1)) (Some (Qmake 0 1)) false None None None (mkTimeZone (-3) 0 false)) = true /\
  tp_is (py_TimePoint___add____TimePoint 2000 (cal_of D360) (mkTimePoint 0 None None None None None None None (Some (Qmake 30 1)) (Some (Qmake 15 1)) true None None None (mkTimeZone 0 0 true)) (mkTimePoint 0 (Some 2003) None None None (Some 7) (Some 51) (Some (Qmake 24 1)) (Some (Qmake 0 1)) (Some (Qmake 0 1)) false None None None (mkTimeZone (-3) 0 false))) (mkTimePoint 0 (Some 2004) None None None (Some 1) (Some 1) (Some (Qmake 0 1)) (Some (Qmake 30 1)) (Some (Qmake 15 1)) false None None None (mkTimeZone (-3) 0 false)) = true /\
  tp_is (py_TimePoint___add____TimePoint 2000 (cal_of D360) (mkTimePoint 0 None None None (Some 30) None None None None None true None None None (mkTimeZone 0 0 true)) (mkTimePoint 0 (Some 2003) None None None (Some 7) (Some 51) (Some (Qmake 24 1)) (Some (Qmake 0 1)) (Some (Qmake 0 1)) false None None None (mkTimeZone (-3) 0 false))) (mkTimePoint 0 (Some 2003) (Some 12) None (Some 30) None None (Some (Qmake 0 1)) (Some (Qmake 0 1)) (Some (Qmake 0 1)) false None None None (mkTimeZone (-3) 0 false)) = true /\
  tp_is (py_TimePoint___add____TimePoint 2000 (cal_of D360) (mkTimePoint 0 None None None None (Some 3) None (Some (Qmake 0 1)) None None true None None None (mkTimeZone 1 0 false)) (mkTimePoint 0 (Some 2003) None None None (Some 7) (Some 51) (Some (Qmake 24 1)) (Some (Qmake 0 1)) (Some (Qmake 0 1)) false None None None (mkTimeZone (-3) 0 false))) (mkTimePoint 0 (Some 2004) None None None (Some 2) (Some 1) (Some (Qmake 20 1)) (Some (Qmake 0 1)) (Some (Qmake 0 1)) false None None None (mkTimeZone (-3) 0 false)) = true /\
  tp_is (py_TimePoint___add____TimePoint 2000 (cal_of D360) (mkTimePoint 0 None None None None (Some 1) (Some 52) None None None true None None None (mkTimeZone 0 0 true)) (mkTimePoint 0 (Some 2003) None None None (Some 7) (Some 51) (Some (Qmake 24 1)) (Some (Qmake 0 1)) (Some (Qmake 0 1)) false None None None (mkTimeZone (-3) 0 false))) (mkTimePoint 0 (Some 2004) None None None (Some 1) (Some 52) (Some (Qmake 0 1)) (Some (Qmake 0 1)) (Some (Qmake 0 1)) false None None None (mkTimeZone (-3) 0 false)) = true /\
  tp_is (py_TimePoint___add____TimePoint 2000 (cal_of D360) (mkTimePoint 0 (Some 2003) None None None (Some 7) (Some 51) (Some (Qmake 24 1)) (Some (Qmake 0 1)) (Some (Qmake 0 1)) false None None None (mkTimeZone (-3) 0 false)) (mkTimePoint 0 None None None None None None (Some (Qmake 6 1)) None None true None None None (mkTimeZone 0 0 true))) (mkTimePoint 0 (Some 2004) None None None (Some 1) (Some 1) (Some (Qmake 6 1)) (Some (Qmake 0 1)) (Some (Qmake 0 1)) false None None None (mkTimeZone (-3) 0 false)) = true /\
  tp_eqb (rep_trunc (mkFlags 0 None None None) (mkTrunc (Some (Qmake 6 1)) None None None None None None None)) (mkTimePoint 0 None None None None None None (Some (Qmake 6 1)) None None true None None None (mkTimeZone 0 0 true)) = true /\
  tp_eqb (rep_trunc (mkFlags 0 None None None) (mkTrunc None (Some (Qmake 30 1)) (Some (Qmake 15 1)) None None None None None)) (mkTimePoint 0 None None None None None None None (Some (Qmake 30 1)) (Some (Qmake 15 1)) true None None None (mkTimeZone 0 0 true)) = true /\
  tp_eqb (rep_trunc (mkFlags 0 None None None) (mkTrunc None None None None (Some 30) None None None)) (mkTimePoint 0 None None None (Some 30) None None None None None true None None None (mkTimeZone 0 0 true)) = true /\
  tp_eqb (rep_trunc (mkFlags 0 None None None) (mkTrunc (Some (Qmake 0 1)) None None (Some 3) None None None (Some (mkZone 1 0)))) (mkTimePoint 0 None None None None (Some 3) None (Some (Qmake 0 1)) None None true None None None (mkTimeZone 1 0 false)) = true /\
  tp_eqb (rep_trunc (mkFlags 0 None None None) (mkTrunc None None None (Some 1) None None (Some 52) None)) (mkTimePoint 0 None None None None (Some 1) (Some 52) None None None true None None None (mkTimeZone 0 0 true)) = true /\
  props_is (py_TimePoint_get_truncated_properties 0 (cal_of D360) (mkTimePoint 0 None None None None (Some 3) None (Some (Qmake 0 1)) None None true None None None (mkTimeZone 1 0 false))) (Some (mkTruncProps None None None None None None (Some 3) (Some (Qmake 0 1)) None None)) = true /\
  props_is (py_TimePoint_get_truncated_properties 0 (cal_of D360) (mkTimePoint 0 (Some 2000) (Some 1) None (Some 1) None None (Some (Qmake 12 1)) (Some (Qmake 0 1)) (Some (Qmake 0 1)) false None None None (mkTimeZone 0 0 false))) None = true /\
  out_of_fuel (py_TimePoint___add____TimePoint 1400 (cal_of G) (mkTimePoint 0 None None (Some 366) None None None None None None true None None None (mkTimeZone 0 0 true)) (mkTimePoint 0 (Some 2001) None (Some 1) None None None (Some (Qmake 12 1)) (Some (Qmake 0 1)) (Some (Qmake 0 1)) false None None None (mkTimeZone 0 0 false))) = true /\
  tp_is (py_TimePoint___add____TimePoint 1500 (cal_of G) (mkTimePoint 0 None None (Some 366) None None None None None None true None None None (mkTimeZone 0 0 true)) (mkTimePoint 0 (Some 2001) None (Some 1) None None None (Some (Qmake 12 1)) (Some (Qmake 0 1)) (Some (Qmake 0 1)) false None None None (mkTimeZone 0 0 false))) (mkTimePoint 0 (Some 2004) None (Some 366) None None None (Some (Qmake 12 1)) (Some (Qmake 0 1)) (Some (Qmake 0 1)) false None None None (mkTimeZone 0 0 false)) = true /\
  out_of_fuel (py_TimePoint___add____TimePoint 26 (cal_of G) (mkTimePoint 0 None None None None None None (Some (Qmake 24 1)) None None true None None None (mkTimeZone 0 0 true)) (mkTimePoint 0 (Some 2000) (Some 1) None (Some 1) None None (Some (Qmake 5 1)) (Some (Qmake 0 1)) (Some (Qmake 0 1)) false None None None (mkTimeZone 0 0 false))) = true /\
  out_of_fuel (py_TimePoint___add____TimePoint 5000 (cal_of G) (mkTimePoint 0 None None None None None None (Some (Qmake 24 1)) None None true None None None (mkTimeZone 0 0 true)) (mkTimePoint 0 (Some 2000) (Some 1) None (Some 1) None None (Some (Qmake 5 1)) (Some (Qmake 0 1)) (Some (Qmake 0 1)) false None None None (mkTimeZone 0 0 false))) = true /\
  out_of_fuel (py_TimePoint___add____TimePoint 62 (cal_of G) (mkTimePoint 0 None None None None None None None (Some (Qmake 30 1)) None true None None None (mkTimeZone 0 0 true)) (mkTimePoint 0 (Some 2000) (Some 1) None (Some 1) None None (Some (Qmake 5 1)) (Some (Qmake 0 1)) (Some (Qmake 1 2)) false None None None (mkTimeZone 0 0 false))) = true /\
  out_of_fuel (py_TimePoint___add____TimePoint 5000 (cal_of G) (mkTimePoint 0 None None None None None None None (Some (Qmake 30 1)) None true None None None (mkTimeZone 0 0 true)) (mkTimePoint 0 (Some 2000) (Some 1) None (Some 1) None None (Some (Qmake 5 1)) (Some (Qmake 0 1)) (Some (Qmake 1 2)) false None None None (mkTimeZone 0 0 false))) = true /\
  raises_value_error (py_TimePoint___add____TimePoint 10 (cal_of G) (mkTimePoint 0 (Some 2001) None (Some 1) None None None (Some (Qmake 12 1)) (Some (Qmake 0 1)) (Some (Qmake 0 1)) false None None None (mkTimeZone 0 0 false)) (mkTimePoint 0 (Some 2000) (Some 1) None (Some 1) None None (Some (Qmake 5 1)) (Some (Qmake 0 1)) (Some (Qmake 0 1)) false None None None (mkTimeZone 0 0 false))) = true /\
  raises_value_error (py_TimePoint___add____TimePoint 10 (cal_of G) (mkTimePoint 0 None None (Some 366) None None None None None None true None None None (mkTimeZone 0 0 true)) (mkTimePoint 0 None None None None None None None (Some (Qmake 30 1)) None true None None None (mkTimeZone 0 0 true))) = true.
Proof. vm_compute. repeat split; reflexivity. Qed.
