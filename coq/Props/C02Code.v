(* Props/C02Code.v -- property C02 tied to the SOURCE of class TimePoint: the method
   bodies translated from /repo on this run (gen/GenCode4.v; vocabulary and conventions in
   the header of Props/C01Code.v) compute the model functions the theorems of Props/C02.v
   are about, for every fuel at least the model's own loop bounds.  Statements only. *)
From Coq Require Import QArith String.
From Iso Require Import Proofs.Tac Spec.Cal Spec.Instant Model.Num Model.Helpers Model.Duration Model.TimePoint
  gen.CalTables gen.GenCode4 Proofs.GenCode2Ok Proofs.GenCode4Base Proofs.GenCode4Stmt Proofs.GenCode4Stmt2
  Proofs.GenCode4Conv Proofs.GenCode4Cmp Proofs.GenCode4Ok.
From Iso Require gen.GenCode3 Proofs.GenCode3Ok.
Open Scope Z_scope.

Theorem C02_code_translator_ok : gen.GenCode4.translator_ok_code4 = true.
Proof. exact gen_code4_accepted. Qed.
Print Assumptions C02_code_translator_ok.
Theorem C02_code_cmp_lt : forall md fl1 fl2 a a' b b' fuel c,
  tp_equiv a' a -> tp_equiv b' b -> month_ok a -> month_ok b ->
  valid_zone (tzone a) = true -> valid_zone (tzone b) = true ->
  (fl1 = fl2 \/ tp_props_eqb a b = false) ->
  tp_cmp md a b = Some c ->
  (Z.to_nat (cmp_bound md a b) <= fuel)%nat ->
  py_TimePoint__cmp__lt fuel (cal_of md) (rep fl1 a') (rep fl2 b') = Ok (cmp_op 1 c).
Proof. exact gen4_cmp_lt. Qed.
Print Assumptions C02_code_cmp_lt.

Theorem C02_code_cmp : CmpOkZ 0 py_TimePoint__cmp__eq /\ CmpOkZ 2 py_TimePoint__cmp__le /\
  CmpOkZ 3 py_TimePoint__cmp__gt /\ CmpOkZ 4 py_TimePoint__cmp__ge.
Proof. exact (conj gen4_cmp_eq (conj gen4_cmp_le (conj gen4_cmp_gt gen4_cmp_ge))). Qed.
Print Assumptions C02_code_cmp.

Theorem C02_code_hash_key : forall md fl p p' fuel k,
  tp_equiv p' p -> month_ok p -> tp_hash_key md p = Some k ->
  (Z.to_nat (hash_bound md p) <= fuel)%nat ->
  exists y m d h mi s,
    py_TimePoint___hash__ fuel (cal_of md) (rep fl p') = Ok (Some y, Some m, Some d, Some h, Some mi, Some s) /\
    let '(y0, m0, d0, (h0, mi0, s0)) := k in
    y = y0 /\ m = m0 /\ d = d0 /\ (h == h0 /\ mi == mi0 /\ s == s0)%Q.
Proof. exact gen4_hash_key. Qed.
Print Assumptions C02_code_hash_key.
