(* Props/C11.v -- property C11: duration arithmetic, equality, ordering and
   hashing are coherent.  Statements only.  Components: years/months/days/weeks
   in Z, hours/minutes/seconds arbitrary rationals (so integer identities are
   exact).  TimeZone (a subclass that hashes differently) is not a `dur`. *)
From Coq Require Import QArith.
From Iso Require Import Proofs.Tac Spec.Cal Model.Num Model.Helpers Model.Duration Proofs.DurSpec Proofs.TablesOk.
Open Scope Z_scope.

(* the value the property's "==" talks about *)
Definition dur_years (x : dur) : Z := match x with DW _ => 0 | DU y _ _ _ _ _ => y end.
Definition dur_months (x : dur) : Z := match x with DW _ => 0 | DU _ m _ _ _ _ => m end.
(* a year counted as the mode's common-year length, a month as 30 days *)
Definition rough_len (md : mode) (x : dur) : Q :=
  (inject_Z ((dur_years x * DAYS_IN_YEAR md + dur_months x * 30) * 86400) + dur_len x)%Q.

(* the unit sizes the model is written with are the ones class Calendar declares on this run *)
Theorem C11_constants :
  gen.CalTables.SECONDS_IN_MINUTE = 60 /\ gen.CalTables.MINUTES_IN_HOUR = 60 /\ gen.CalTables.HOURS_IN_DAY = 24 /\
  gen.CalTables.DAYS_IN_WEEK = 7 /\ gen.CalTables.ROUGH_DAYS_IN_MONTH = 30 /\ gen.CalTables.MAX_WEEKS_IN_YEAR = 53.
Proof. exact Proofs.TablesOk.unit_constants_ok. Qed.
Print Assumptions C11_constants.

Theorem C11_units :
  (forall w, dur_len (DW w) == inject_Z (604800 * w))%Q /\
  (forall y mo d h mi s, dur_len (DU y mo d h mi s) ==
       inject_Z (86400 * d) + inject_Z 3600 * h + inject_Z 60 * mi + s)%Q /\
  dur_eqb (DW 1) (DU 0 0 7 0 0 0) = true /\ dur_eqb (DU 0 0 1 0 0 0) (DU 0 0 0 24 0 0) = true /\
  dur_eqb (DU 0 0 0 1 0 0) (DU 0 0 0 0 60 0) = true /\ dur_eqb (DU 0 0 0 0 1 0) (DU 0 0 0 0 0 60) = true /\
  DAYS_IN_YEAR G = 365 /\ DAYS_IN_YEAR D360 = 360 /\ DAYS_IN_YEAR D365 = 365 /\ DAYS_IN_YEAR D366 = 366.
Proof. exact dur_units. Qed.
Print Assumptions C11_units.

(* addition: value of the sum, commutative, associative, identity, inverse *)
Theorem C11_add_value : forall a b,
  dur_years (dur_add a b) = dur_years a + dur_years b /\
  dur_months (dur_add a b) = dur_months a + dur_months b /\
  (dur_len (dur_add a b) == dur_len a + dur_len b)%Q.
Proof. exact dur_add_value. Qed.
Print Assumptions C11_add_value.

Theorem C11_add_comm : forall a b, dur_eqb (dur_add a b) (dur_add b a) = true.
Proof. exact dur_add_comm. Qed.
Print Assumptions C11_add_comm.

Theorem C11_add_assoc : forall a b c,
  dur_eqb (dur_add (dur_add a b) c) (dur_add a (dur_add b c)) = true.
Proof. exact dur_add_assoc. Qed.
Print Assumptions C11_add_assoc.

Theorem C11_add_identity : forall a, dur_eqb (dur_add a dzero) a = true /\ dur_eqb (dur_add dzero a) a = true.
Proof. exact dur_add_identity. Qed.
Print Assumptions C11_add_identity.

Theorem C11_add_inverse : forall a, dur_bool (dur_add a (dur_mul a (-1))) = false.
Proof. exact dur_add_inverse. Qed.
Print Assumptions C11_add_inverse.

(* n * d is n-fold addition; subtraction is addition of the negation *)
Theorem C11_mul : forall a n,
  dur_bool (dur_mul a 0) = false /\ dur_eqb (dur_mul a 1) a = true /\
  dur_eqb (dur_mul a (n + 1)) (dur_add (dur_mul a n) a) = true /\
  dur_eqb (dur_mul a (n - 1)) (dur_add (dur_mul a n) (dur_mul a (-1))) = true.
Proof. exact dur_mul_fold. Qed.
Print Assumptions C11_mul.

Theorem C11_sub : forall a b, dur_sub a b = dur_add a (dur_mul b (-1)).
Proof. exact dur_sub_def. Qed.
Print Assumptions C11_sub.

(* equality: an equivalence; exact durations are equal iff their lengths are;
   nominal ones iff years, months and exact remainder all match *)
Theorem C11_eq_equivalence :
  (forall a, dur_eqb a a = true) /\ (forall a b, dur_eqb a b = dur_eqb b a) /\
  (forall a b c, dur_eqb a b = true -> dur_eqb b c = true -> dur_eqb a c = true).
Proof. exact dur_eqb_equivalence. Qed.
Print Assumptions C11_eq_equivalence.

Theorem C11_eq_exact : forall a b, is_exact a = true -> is_exact b = true ->
  (dur_eqb a b = true <-> (dur_len a == dur_len b)%Q).
Proof. exact dur_eqb_exact. Qed.
Print Assumptions C11_eq_exact.

Theorem C11_eq_general : forall a b,
  dur_eqb a b = true <->
  (is_exact a = is_exact b /\ dur_years a = dur_years b /\ dur_months a = dur_months b /\
   (dur_len a == dur_len b)%Q).
Proof. exact dur_eqb_general. Qed.
Print Assumptions C11_eq_general.

Theorem C11_eq_hash : forall a b, dur_eqb a b = true ->
  let '(y1, m1, s1) := dur_hash_key a in let '(y2, m2, s2) := dur_hash_key b in
  y1 = y2 /\ m1 = m2 /\ (s1 == s2)%Q.
Proof. exact dur_eqb_hash. Qed.
Print Assumptions C11_eq_hash.

(* ordering: (days, seconds) is a normal form of the rough length, and the four
   operators are the order of the rough length *)
Theorem C11_days_seconds : forall md a,
  let '(d, s) := days_and_seconds md a in
  (0 <= s /\ s < inject_Z 86400 /\ inject_Z (86400 * d) + s == rough_len md a)%Q.
Proof. exact days_and_seconds_spec. Qed.
Print Assumptions C11_days_seconds.

Theorem C11_order : forall md a b,
  (dur_ltb md a b = true <-> (rough_len md a < rough_len md b)%Q) /\
  (dur_leb md a b = true <-> (rough_len md a <= rough_len md b)%Q) /\
  dur_gtb md a b = dur_ltb md b a /\ dur_geb md a b = dur_leb md b a.
Proof. exact dur_order_spec. Qed.
Print Assumptions C11_order.

Theorem C11_order_exact : forall md a b, is_exact a = true -> is_exact b = true ->
  (dur_ltb md a b = true <-> (dur_len a < dur_len b)%Q) /\
  (dur_leb md a b = true <-> (dur_len a <= dur_len b)%Q).
Proof. exact dur_order_exact. Qed.
Print Assumptions C11_order_exact.

Example C11_ex :
  dur_eqb (DW 2) (DU 0 0 13 23 59 60) = true /\ is_exact (DU 0 0 13 23 59 60) = true /\
  dur_eqb (DU 1 0 0 0 0 0) (DU 0 12 0 0 0 0) = false /\
  dur_ltb G (DU 0 11 0 0 0 0) (DU 1 0 0 0 0 0) = true /\
  dur_leb D360 (DU 1 0 0 0 0 0) (DU 0 12 0 0 0 0) = true.
Proof. vm_compute. repeat split; reflexivity. Qed.
