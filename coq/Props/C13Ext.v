(* Props/C13Ext.v -- property C13, the cases Props/C13.v leaves open:
   (A) the REVERSE series of the unbounded duration/end notation (no start
       point: iteration runs end, end-d, end-2d, ...), in closed form;
   (B) ANY interval that steps -- years and months included, alone or mixed
       with exact units -- in the direction of iteration, stated against
       iteration itself (iter_take md r k = the first k points __iter__ yields).
   Statements only.

   On finding F4 (Props/C12.v, C12_bounded_nominal_refuted): the stored end of a
   bounded series with a month/year interval is start + d*(n-1), which need not
   be the point n-1 single steps reach.  The theorems of part (B) hold whatever
   the stored end is (wf_any only asks it to be a valid point), because the
   queries and iteration consult the same bounds; only C13_next_iter_bounded,
   which speaks of "the last index n-1", assumes explicitly that the stored end
   is the instant of the (n-1)-th iterated point. *)
From Coq Require Import QArith Qround List.
From Iso Require Import Proofs.Tac Spec.Cal Spec.Instant Spec.Series Model.Num Model.Duration Model.TimePoint
  Model.Recurrence Proofs.DurSpec Proofs.RecSpec Proofs.RecQueryExtSpec.
Import ListNotations.
Open Scope Z_scope.

(* ====================================================================== *)
(* (A) reverse series, exact interval of positive length                   *)
(* ====================================================================== *)

(* no start, an end, no repetition count: what the unbounded duration/end
   notation constructs (C13_rev_make) *)
Definition wf_rev (md : mode) (r : recur) (e : tp) (d : dur) : Prop :=
  r_start r = None /\ r_end r = Some e /\ r_dur r = Some d /\ r_reps r = None /\
  valid_tp md e = true /\ exact_pos d.

Theorem C13_rev_make : forall md e d, valid_tp md e = true -> exact_pos d ->
  exists r, rec_make md None None (Some d) (Some e) = Ok r /\ wf_rev md r e d.
Proof. exact wf_rev_make. Qed.
Print Assumptions C13_rev_make.

(* get_is_valid: true exactly for probes at the instant of end - i*d, i >= 0,
   whatever representation or offset the probe is written in *)
Theorem C13_valid_rev : forall md r e d t fuel b, wf_rev md r e d -> valid_tp md t = true ->
  get_is_valid md r t fuel = Some b ->
  (b = true <-> exists i, 0 <= i /\ (instant md t == instant md e - inject_Z i * dur_len d)%Q).
Proof. exact get_is_valid_rev. Qed.
Print Assumptions C13_valid_rev.

(* ... and the scan answers once the fuel exceeds the number of members down to the probe *)
Theorem C13_valid_rev_total : forall md r e d t fuel, wf_rev md r e d -> valid_tp md t = true ->
  (inject_Z (Z.of_nat fuel) * dur_len d > instant md e - instant md t + dur_len d)%Q ->
  exists b, get_is_valid md r t fuel = Some b.
Proof. exact get_is_valid_rev_total. Qed.
Print Assumptions C13_valid_rev_total.

(* r[i] is the i-th iterated point, at end - i*d; every index >= 0 exists *)
Theorem C13_getitem_rev : forall md r e d i, wf_rev md r e d ->
  (0 <= i -> exists p, rec_getitem md r i = Some p /\
      (instant md p == instant md e - inject_Z i * dur_len d)%Q /\ valid_tp md p = true /\
      nth_error (iter_take md r (S (Z.to_nat i))) (Z.to_nat i) = Some p) /\
  (i < 0 -> rec_getitem md r i = None).
Proof. exact getitem_rev. Qed.
Print Assumptions C13_getitem_rev.

(* get_prev / get_next of ANY valid point t: the bounds test has no lower limit
   (no start point), so get_prev always answers t - d unless that is later
   than the end; get_next answers t + d unless that is later than the end *)
Theorem C13_next_prev_rev : forall md r e d t, wf_rev md r e d -> valid_tp md t = true ->
  (match get_prev md r (Some t) with
   | Some q => (instant md q == instant md t - dur_len d)%Q /\ valid_tp md q = true /\
               (instant md q <= instant md e)%Q
   | None => (instant md e < instant md t - dur_len d)%Q
   end) /\
  (match get_next md r (Some t) with
   | Some q => (instant md q == instant md t + dur_len d)%Q /\ valid_tp md q = true /\
               (instant md q <= instant md e)%Q
   | None => (instant md e < instant md t + dur_len d)%Q
   end).
Proof. exact next_prev_rev. Qed.
Print Assumptions C13_next_prev_rev.

(* ... hence, from the member number i (counted in the order of iteration):
   get_prev is the member i+1 (the next one iterated, earlier in time), get_next
   the member i-1 (later in time), None at the end point itself.  This agrees
   with "move to the adjacent member"; no counterexample. *)
Theorem C13_next_prev_rev_member : forall md r e d t i, wf_rev md r e d -> valid_tp md t = true ->
  0 <= i -> (instant md t == instant md e - inject_Z i * dur_len d)%Q ->
  (exists q, get_prev md r (Some t) = Some q /\ valid_tp md q = true /\
     (instant md q == instant md e - inject_Z (i + 1) * dur_len d)%Q) /\
  (0 < i -> exists q, get_next md r (Some t) = Some q /\ valid_tp md q = true /\
     (instant md q == instant md e - inject_Z (i - 1) * dur_len d)%Q) /\
  (i = 0 -> get_next md r (Some t) = None).
Proof. exact next_prev_rev_member. Qed.
Print Assumptions C13_next_prev_rev_member.

(* get_first_after on a reverse series: the property text ("the earliest
   member strictly later than p") is NOT met.  The code reads the absent start
   point; the model returns its "raised" value for every fuel although a later
   member (here the end itself) exists.  On the real package:
   R/PT6H/2002-05-05T01:00Z . get_first_after(2002-05-04T13:00Z) raises TypeError,
   and R/P1M/... returns None for the same probe.  Reported as a finding. *)
Theorem C13_first_after_rev_refuted :
  exists md r e d t, wf_rev md r e d /\ valid_tp md t = true /\
    (instant md t < instant md e)%Q /\ get_is_valid md r e 5 = Some true /\
    forall fuel, get_first_after md r t fuel = None.
Proof. exact first_after_rev_refuted. Qed.
Print Assumptions C13_first_after_rev_refuted.

(* ====================================================================== *)
(* (B) any interval that steps, against iteration                          *)
(* ====================================================================== *)

(* years and months >= 0, the exact part (dur_len ignores years and months) of
   length >= 0, not all zero.  Wider than "every component >= 0" (C13_nonneg_units)
   and than exact_pos. *)
Definition step_dur (d : dur) : Prop :=
  0 <= dur_years d /\ 0 <= dur_months d /\ (0 <= dur_len d)%Q /\
  (0 < dur_years d \/ 0 < dur_months d \/ (0 < dur_len d)%Q).

Definition nonneg_units (d : dur) : Prop :=
  match d with
  | DW w => 0 < w
  | DU y mo ds h mi s =>
    0 <= y /\ 0 <= mo /\ 0 <= ds /\ (0 <= h)%Q /\ (0 <= mi)%Q /\ (0 <= s)%Q /\
    (0 < y \/ 0 < mo \/ 0 < ds \/ (0 < h)%Q \/ (0 < mi)%Q \/ (0 < s)%Q)
  end.

Theorem C13_nonneg_units : forall d, nonneg_units d -> step_dur d.
Proof. exact nonneg_units_step. Qed.
Print Assumptions C13_nonneg_units.

(* the least distance one step covers: the length of an exact interval; for a
   month/year interval at least a day more than its exact part *)
Definition min_step (d : dur) : Q :=
  if is_exact d then dur_len d else (dur_len d + 86400)%Q.

(* a recurrence with an anchor a (its start; its end when it has no start), an
   interval that steps and valid ends in order.  The stored end of a bounded series is
   NOT assumed to be where n-1 steps lead (finding F4). *)
Definition wf_any (md : mode) (r : recur) (a : tp) (d : dur) : Prop :=
  r_dur r = Some d /\ step_dur d /\ valid_tp md a = true /\
  match r_start r, r_end r, r_reps r with
  | Some s, None, None => a = s
  | Some s, Some e, Some n => a = s /\ 2 <= n /\ valid_tp md e = true /\ (instant md s <= instant md e)%Q
  | None, Some e, None => a = e
  | _, _, _ => False
  end.

(* the start/duration and duration/end notations with such an interval and more
   than one repetition construct exactly these *)
Theorem C13_make_any : forall md reps s e d r, step_dur d -> opt_valid md s -> opt_valid md e ->
  rec_make md reps s (Some d) e = Ok r -> reps <> Some 1 ->
  exists a, wf_any md r a d /\ r_reps r = reps /\
    match s, e with
    | Some s0, None => r_start r = Some s0 /\ a = s0
    | None, Some e0 => r_end r = Some e0 /\ (reps = None -> r_start r = None /\ a = e0)
    | _, _ => False
    end.
Proof. exact rec_make_any. Qed.
Print Assumptions C13_make_any.

(* one step from any valid point: exists, valid, written alike, at least
   min_step later (earlier when subtracted) *)
Theorem C13_step_later : forall md p d, valid_tp md p = true -> step_dur d ->
  (0 < min_step d)%Q /\
  (exists q, tp_add md p d = Some q /\ valid_tp md q = true /\ same_shape q p /\
     (instant md p + min_step d <= instant md q)%Q) /\
  (exists q, tp_sub_dur md p d = Some q /\ valid_tp md q = true /\ same_shape q p /\
     (instant md q + min_step d <= instant md p)%Q).
Proof. exact step_both. Qed.
Print Assumptions C13_step_later.

(* consecutive iterated points: strictly increasing for a series with a start,
   strictly decreasing for the reverse series, by at least min_step *)
Theorem C13_iter_increasing : forall md r a d k i p q, wf_any md r a d ->
  nth_error (iter_take md r k) i = Some p -> nth_error (iter_take md r k) (S i) = Some q ->
  valid_tp md p = true /\ valid_tp md q = true /\ (0 < min_step d)%Q /\
  match r_start r with
  | Some _ => (instant md p + min_step d <= instant md q)%Q
  | None => (instant md q + min_step d <= instant md p)%Q
  end.
Proof. exact iter_increasing_any. Qed.
Print Assumptions C13_iter_increasing.

(* get_is_valid: true exactly when iteration yields a point at the probe's instant *)
Theorem C13_valid_iter : forall md r a d t fuel b, wf_any md r a d -> valid_tp md t = true ->
  get_is_valid md r t fuel = Some b ->
  (b = true <-> exists k i p, nth_error (iter_take md r k) i = Some p /\
                              (instant md p == instant md t)%Q).
Proof. exact get_is_valid_any. Qed.
Print Assumptions C13_valid_iter.

(* how far the scan may have to go: to the stored end (bounded), to the probe
   (unbounded with a start), from the end down to the probe (reverse) *)
Definition any_dist (md : mode) (r : recur) (a t : tp) : Q :=
  match r_start r with
  | Some _ => (match r_end r with Some e => instant md e | None => instant md t end) - instant md a
  | None => instant md a - instant md t
  end.

(* ... and with that much fuel the scan answers *)
Theorem C13_valid_iter_total : forall md r a d t fuel, wf_any md r a d -> valid_tp md t = true ->
  (0 < fuel)%nat -> (inject_Z (Z.of_nat fuel) * min_step d > any_dist md r a t + min_step d)%Q ->
  exists b, get_is_valid md r t fuel = Some b.
Proof. exact get_is_valid_total_any. Qed.
Print Assumptions C13_valid_iter_total.

(* r[i] is the i-th iterated point however many points are taken (any recurrence at all) *)
Theorem C13_getitem_iter : forall md r i,
  (forall k, 0 <= i -> (Z.to_nat i < k)%nat ->
     rec_getitem md r i = nth_error (iter_take md r k) (Z.to_nat i)) /\
  (i < 0 -> rec_getitem md r i = None).
Proof. exact getitem_iter_both. Qed.
Print Assumptions C13_getitem_iter.

(* from the i-th iterated point, the query in the direction of iteration
   (get_next with a start point, get_prev on a reverse series) returns the
   (i+1)-th iterated point, and None exactly when iteration stops there.
   For any recurrence that is a single point or has a non-zero interval. *)
Theorem C13_next_iter : forall md r k i p,
  (r_dur r = None \/ dur_falsy (r_dur r) = false) ->
  nth_error (iter_take md r k) i = Some p ->
  match r_start r with Some _ => get_next md r (Some p) | None => get_prev md r (Some p) end =
  nth_error (iter_take md r (S (S i))) (S i).
Proof. exact next_iter_any. Qed.
Print Assumptions C13_next_iter.

(* a bounded series whose stored end IS the instant of the (n-1)-th iterated
   point (the hypothesis finding F4 can falsify for month/year intervals): it
   has exactly the indices 0..n-1, get_next moves i -> i+1 below n-1 and returns
   None at n-1 *)
Theorem C13_next_iter_bounded : forall md r a d n e l, wf_any md r a d ->
  r_start r = Some a -> r_reps r = Some n -> r_end r = Some e ->
  nth_error (iter_take md r (Z.to_nat n)) (Z.to_nat (n - 1)) = Some l ->
  (instant md l == instant md e)%Q ->
  forall k i p, nth_error (iter_take md r k) i = Some p ->
    Z.of_nat i <= n - 1 /\
    (Z.of_nat i < n - 1 -> exists q, get_next md r (Some p) = Some q /\
        nth_error (iter_take md r (Z.to_nat n)) (S i) = Some q /\
        (instant md p < instant md q)%Q) /\
    (Z.of_nat i = n - 1 -> get_next md r (Some p) = None).
Proof. exact next_iter_bounded. Qed.
Print Assumptions C13_next_iter_bounded.

(* get_first_after on a series with a start and a month/year interval (the
   code scans with get_next): the earliest iterated point strictly later than
   the probe -- the first point when the probe precedes the series -- and None
   exactly when no iterated point is later.  (Exact intervals take the
   closed-form branch: Props/C13.v, C13_first_after.) *)
Definition later_min_iter (md : mode) (r : recur) (t : tp) (res : option tp) : Prop :=
  match res with
  | Some q => (exists k i, nth_error (iter_take md r k) i = Some q) /\ (instant md t < instant md q)%Q /\
              forall k i p, nth_error (iter_take md r k) i = Some p -> (instant md t < instant md p)%Q ->
                            (instant md q <= instant md p)%Q
  | None => forall k i p, nth_error (iter_take md r k) i = Some p -> (instant md p <= instant md t)%Q
  end.

Theorem C13_first_after_iter : forall md r a d t fuel res, wf_any md r a d -> r_start r = Some a ->
  is_exact d = false -> valid_tp md t = true ->
  get_first_after md r t fuel = Some res ->
  later_min_iter md r t res /\ ((instant md t < instant md a)%Q -> res = Some a).
Proof. exact first_after_any. Qed.
Print Assumptions C13_first_after_iter.

Theorem C13_first_after_iter_total : forall md r a d t fuel, wf_any md r a d -> r_start r = Some a ->
  is_exact d = false -> valid_tp md t = true -> (0 < fuel)%nat ->
  (inject_Z (Z.of_nat fuel) * min_step d > instant md t - instant md a + min_step d)%Q ->
  exists res, get_first_after md r t fuel = Some res.
Proof. exact first_after_total_any. Qed.
Print Assumptions C13_first_after_iter_total.

(* ====================================================================== *)
(* the hypotheses are satisfiable, with non-trivial values                 *)
(* ====================================================================== *)

(* (A) R/PT6H/2002-05-05T01:00Z: wf_rev holds; a member written as an ordinal
   date at +02:00 is valid, a point half an interval off is not; r[2]; the
   neighbours of r[2] and of the end *)
Example C13Ext_ex_rev :
  let e := mkTp (Cal 2002 5 5) (HMS 1 0 0) (mkZone 0 0) in
  let d := DU 0 0 0 6 0 0 in
  match rec_make G None None (Some d) (Some e) with
  | Ok r =>
    (r_start r, r_end r, r_reps r, valid_tp G e, is_exact d, qltb 0 (dur_len d)) =
      (None, Some e, None, true, true, true) /\
    (get_is_valid G r (mkTp (Ord 2002 124) (HMS 15 0 0) (mkZone 2 0)) 10,
     get_is_valid G r (mkTp (Ord 2002 124) (HMS 12 0 0) (mkZone 2 0)) 10,
     rec_getitem G r 2,
     get_prev G r (rec_getitem G r 2), get_next G r (rec_getitem G r 2), get_next G r (Some e)) =
    (Some true, Some false,
     Some (mkTp (Cal 2002 5 4) (HMS 13 0 0) (mkZone 0 0)),
     Some (mkTp (Cal 2002 5 4) (HMS 7 0 0) (mkZone 0 0)),
     Some (mkTp (Cal 2002 5 4) (HMS 19 0 0) (mkZone 0 0)), None)
  | Err => False
  end.
Proof. vm_compute. split; reflexivity. Qed.

Example C13Ext_ex_wf_rev :
  wf_rev G (mkRec None None (Some (DU 0 0 0 6 0 0)) (Some (mkTp (Cal 2002 5 5) (HMS 1 0 0) (mkZone 0 0))) None 4)
    (mkTp (Cal 2002 5 5) (HMS 1 0 0) (mkZone 0 0)) (DU 0 0 0 6 0 0).
Proof. repeat split; vm_compute; reflexivity. Qed.

(* (B) month intervals from a month end, the three shapes of wf_any:
   R/2001-01-31T00Z/P1M iterates 01-31, 02-28, 03-28, ...;
   R3/2001-01-29T00Z/P1M1D stores the end 03-28 (start + P2M2D), but iteration
   yields only 01-29 and 02-28 (finding F4): the stored end is not an iterated
   point and get_is_valid says so, r[2] does not exist, and get_next of the
   second point is None because iteration stops there;
   R/P1M/2001-03-31T00Z iterates 03-31, 02-28, 01-28, ... backwards *)
Example C13Ext_ex_nominal :
  let s := mkTp (Cal 2001 1 31) (HMS 0 0 0) (mkZone 0 0) in
  let s' := mkTp (Cal 2001 1 29) (HMS 0 0 0) (mkZone 0 0) in
  let e := mkTp (Cal 2001 3 31) (HMS 0 0 0) (mkZone 0 0) in
  let d := DU 0 1 0 0 0 0 in
  let at28 := mkTp (Ord 2001 87) (HMS 1 0 0) (mkZone 1 0) in   (* 2001-03-28T00Z *)
  let feb28 := mkTp (Cal 2001 2 28) (HMS 0 0 0) (mkZone 0 0) in
  match rec_make G None (Some s) (Some d) None, rec_make G (Some 3) (Some s') (Some (DU 0 1 1 0 0 0)) None,
        rec_make G None None (Some d) (Some e) with
  | Ok r1, Ok r2, Ok r3 =>
    (iter_take G r1 4, get_is_valid G r1 at28 10, get_is_valid G r1 e 10, get_first_after G r1 at28 10) =
      ([s; feb28; mkTp (Cal 2001 3 28) (HMS 0 0 0) (mkZone 0 0);
        mkTp (Cal 2001 4 28) (HMS 0 0 0) (mkZone 0 0)], Some true, Some false,
       Some (Some (mkTp (Cal 2001 4 28) (HMS 0 0 0) (mkZone 0 0)))) /\
    (r_end r2, iter_take G r2 5, get_is_valid G r2 at28 10, get_is_valid G r2 feb28 10,
     get_next G r2 (rec_getitem G r2 0), get_next G r2 (rec_getitem G r2 1), rec_getitem G r2 2) =
      (Some (mkTp (Cal 2001 3 28) (HMS 0 0 0) (mkZone 0 0)), [s'; feb28],
       Some false, Some true, Some feb28, None, None) /\
    (r_start r3, iter_take G r3 3, get_is_valid G r3 (mkTp (Cal 2001 1 28) (HMS 0 0 0) (mkZone 0 0)) 10,
     get_is_valid G r3 s 10, get_prev G r3 (rec_getitem G r3 1)) =
      (None, [e; feb28; mkTp (Cal 2001 1 28) (HMS 0 0 0) (mkZone 0 0)],
       Some true, Some false, Some (mkTp (Cal 2001 1 28) (HMS 0 0 0) (mkZone 0 0)))
  | _, _, _ => False
  end.
Proof. vm_compute. repeat split; reflexivity. Qed.

Example C13Ext_ex_wf_any :
  let s := mkTp (Cal 2001 1 31) (HMS 0 0 0) (mkZone 0 0) in
  let e := mkTp (Cal 2001 3 31) (HMS 0 0 0) (mkZone 0 0) in
  let d := DU 1 1 2 0 (1 # 2) 0 in
  nonneg_units d /\
  wf_any G (mkRec None (Some s) (Some d) None None 3) s d /\
  wf_any G (mkRec (Some 3) (Some s) (Some d) (Some e) None 3) s d /\
  wf_any G (mkRec None None (Some d) (Some e) None 4) e d.
Proof.
  cbv zeta. split; [|split; [|split]].
  - repeat split; try (left; reflexivity); vm_compute; try reflexivity; discriminate.
  - repeat split; try (left; reflexivity); vm_compute; try reflexivity; discriminate.
  - repeat split; try (left; reflexivity); vm_compute; try reflexivity; discriminate.
  - repeat split; try (left; reflexivity); vm_compute; try reflexivity; discriminate.
Qed.

(* the hypothesis of C13_next_iter_bounded is met by a mid-month start:
   R3/2001-01-15T00Z/P1M stores the end 03-15 and its third point is 03-15 *)
Example C13Ext_ex_bounded :
  let s := mkTp (Cal 2001 1 15) (HMS 0 0 0) (mkZone 0 0) in
  match rec_make G (Some 3) (Some s) (Some (DU 0 1 0 0 0 0)) None with
  | Ok r => (r_end r, nth_error (iter_take G r 3) 2, get_next G r (rec_getitem G r 2)) =
            (Some (mkTp (Cal 2001 3 15) (HMS 0 0 0) (mkZone 0 0)),
             Some (mkTp (Cal 2001 3 15) (HMS 0 0 0) (mkZone 0 0)), None)
  | Err => False
  end.
Proof. vm_compute. reflexivity. Qed.
