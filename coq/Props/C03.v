(* Props/C03.v -- property C03: calendar, ordinal and ISO-week dates are
   faithful views of one day.  Statements only; every proof is `exact` of a
   lemma of Proofs/.  All statements are for every mode and every year in Z. *)
From Iso Require Import Proofs.Tac Spec.Cal Model.Helpers Proofs.TablesOk Proofs.HelpersSpec Proofs.ConvSpec gen.GenCode Proofs.GenCodeOk.

(* --- queries agree with the proleptic definition --- *)
Theorem C03_tables : gen.CalTables.translator_ok_cal = true /\
  gen.CalTables.DAYS_IN_MONTHS_360 = m360 /\ gen.CalTables.DAYS_IN_MONTHS_365 = m365 /\
  gen.CalTables.DAYS_IN_MONTHS_366 = m366 /\ gen.CalTables.LEAP_YEAR_FACTOR_TRUTHS = leap_factors /\
  forallb mode_row_ok gen.CalTables.MODES = true.
Proof. exact tables_all_ok. Qed.
Print Assumptions C03_tables.

(* the bodies of the pure integer helpers, TRANSLATED from data.py on this run
   (tools/translate_code.py -> gen/GenCode.v), are equal to the hand-written model
   functions the theorems below are about: a source change to one of these
   functions changes the generated definition and breaks this obligation *)
Theorem C03_code : gen.GenCode.translator_ok_code = true /\
  (forall y, py_get_is_leap_year y = get_is_leap_year y) /\
  (forall md y, py__get_days_in_year (DAYS_IN_YEAR md) (DAYS_IN_YEAR_LEAP md) y = get_days_in_year md y) /\
  (forall md m y, py__get_days_in_month (DAYS_IN_MONTHS md) (DAYS_IN_MONTHS_LEAP md) m y = get_days_in_month md m y) /\
  (forall md s e, py__get_days_in_year_range (DAYS_IN_YEAR md) (DAYS_IN_YEAR_LEAP md) s e = get_days_in_year_range md s e) /\
  (forall md y, py__get_days_since_1_ad (DAYS_IN_YEAR md) (DAYS_IN_YEAR_LEAP md) y = get_days_since_1_ad md y).
Proof. exact (conj gen_code_accepted (conj gen_get_is_leap_year_eq (conj gen__get_days_in_year_eq
  (conj gen__get_days_in_month_eq (conj gen__get_days_in_year_range_eq gen__get_days_since_1_ad_eq))))). Qed.
Print Assumptions C03_code.

Theorem C03_leap : forall y, get_is_leap_year y = is_leap y.
Proof. exact get_is_leap_year_spec. Qed.
Print Assumptions C03_leap.

Theorem C03_ylen : forall md y, get_days_in_year md y = ylen md y.
Proof. exact get_days_in_year_spec. Qed.
Print Assumptions C03_ylen.

Theorem C03_mlen : forall md y m, 1 <= m <= 12 -> get_days_in_month md m y = mlen md y m.
Proof. exact get_days_in_month_spec. Qed.
Print Assumptions C03_mlen.

(* month lengths are those of the mode: 12 x 30; 365 always; 366 always; Gregorian rule *)
Theorem C03_mode_lengths : forall y,
  (forall m, 1 <= m <= 12 -> mlen D360 y m = 30) /\ ylen D360 y = 360 /\
  ylen D365 y = 365 /\ ylen D366 y = 366 /\ mlen D365 y 2 = 28 /\ mlen D366 y 2 = 29 /\
  ylen G y = (if is_leap y then 366 else 365) /\ mlen G y 2 = (if is_leap y then 29 else 28).
Proof. exact mode_lengths. Qed.
Print Assumptions C03_mode_lengths.

Theorem C03_year_is_sum_of_months : forall md y,
  ylen md y = cum md y 12 /\ (forall k, 0 <= k < 12 -> cum md y (k + 1) = cum md y k + mlen md y (k + 1)) /\ cum md y 0 = 0.
Proof. exact year_is_sum_of_months. Qed.
Print Assumptions C03_year_is_sum_of_months.

Theorem C03_range : forall md s e,
  get_days_in_year_range md s e = if s <=? e then dby md (e + 1) - dby md s else 0.
Proof. exact range_spec. Qed.
Print Assumptions C03_range.

Theorem C03_dby_step : forall md y, dby md (y + 1) = dby md y + ylen md y.
Proof. exact dby_succ. Qed.
Print Assumptions C03_dby_step.

(* --- weekdays and week years --- *)
Theorem C03_weekday_continuous : forall md n,
  1 <= weekday md n <= 7 /\ weekday md (n + 1) = weekday md n mod 7 + 1.
Proof. exact weekday_continuous. Qed.
Print Assumptions C03_weekday_continuous.

Theorem C03_wys_monday : forall md wy,
  weekday md (wys md wy) = 1 /\ dn_cal md wy 1 4 - 6 <= wys md wy <= dn_cal md wy 1 4.
Proof. exact wys_monday. Qed.
Print Assumptions C03_wys_monday.

Theorem C03_week_date_weekday : forall md wy w d, 1 <= d <= 7 -> weekday md (dn_week md wy w d) = d.
Proof. exact week_date_weekday. Qed.
Print Assumptions C03_week_date_weekday.

Theorem C03_week_start : forall md y sy sm sd,
  week_date_start md y = (sy, sm, sd) ->
  valid_cal md sy sm sd = true /\ dn_cal md sy sm sd = wys md y.
Proof. exact week_date_start_spec. Qed.
Print Assumptions C03_week_start.

Theorem C03_weeks : forall md y, get_weeks_in_year md y = weeks_in md y /\ 51 <= weeks_in md y <= 53.
Proof. exact get_weeks_in_year_spec. Qed.
Print Assumptions C03_weeks.

(* --- the six conversions: total on valid dates, reject invalid ones, keep the day --- *)
Theorem C03_cal_to_ord : forall md y m d,
  (valid_cal md y m d = true ->
     exists doy, ord_from_cal md y m d = Some (y, doy) /\ valid_ord md y doy = true /\
                 dn_ord md y doy = dn_cal md y m d) /\
  (valid_cal md y m d = false -> ord_from_cal md y m d = None).
Proof. exact ord_from_cal_spec. Qed.
Print Assumptions C03_cal_to_ord.

Theorem C03_ord_to_cal : forall md y doy,
  (valid_ord md y doy = true ->
     exists m d, cal_from_ord md y doy = Some (y, m, d) /\ valid_cal md y m d = true /\
                 dn_cal md y m d = dn_ord md y doy) /\
  (valid_ord md y doy = false -> cal_from_ord md y doy = None).
Proof. exact cal_from_ord_spec. Qed.
Print Assumptions C03_ord_to_cal.

Theorem C03_cal_to_week : forall md y m d, valid_cal md y m d = true ->
  exists wy w wd, week_from_cal md y m d = Some (wy, w, wd) /\ valid_week md wy w wd = true /\
                  dn_week md wy w wd = dn_cal md y m d.
Proof. exact week_from_cal_spec. Qed.
Print Assumptions C03_cal_to_week.

Theorem C03_week_to_cal : forall md wy w wd, valid_week md wy w wd = true ->
  exists y m d, cal_from_week md wy w wd = Some (y, m, d) /\ valid_cal md y m d = true /\
                dn_cal md y m d = dn_week md wy w wd.
Proof. exact cal_from_week_spec. Qed.
Print Assumptions C03_week_to_cal.

Theorem C03_ord_to_week : forall md y doy, valid_ord md y doy = true ->
  exists wy w wd, week_from_ord md y doy = Some (wy, w, wd) /\ valid_week md wy w wd = true /\
                  dn_week md wy w wd = dn_ord md y doy.
Proof. exact week_from_ord_spec. Qed.
Print Assumptions C03_ord_to_week.

Theorem C03_week_to_ord : forall md wy w wd, valid_week md wy w wd = true ->
  exists y doy, ord_from_week md wy w wd = Some (y, doy) /\ valid_ord md y doy = true /\
                dn_ord md y doy = dn_week md wy w wd.
Proof. exact ord_from_week_spec. Qed.
Print Assumptions C03_week_to_ord.

(* --- a day has exactly one valid name of each kind: lossless, mutually inverse --- *)
Theorem C03_dn_cal_inj : forall md y m d y' m' d',
  valid_cal md y m d = true -> valid_cal md y' m' d' = true ->
  dn_cal md y m d = dn_cal md y' m' d' -> (y, m, d) = (y', m', d').
Proof. exact dn_cal_inj. Qed.
Print Assumptions C03_dn_cal_inj.

Theorem C03_dn_ord_inj : forall md y doy y' doy',
  valid_ord md y doy = true -> valid_ord md y' doy' = true ->
  dn_ord md y doy = dn_ord md y' doy' -> (y, doy) = (y', doy').
Proof. exact dn_ord_inj. Qed.
Print Assumptions C03_dn_ord_inj.

Theorem C03_dn_week_inj : forall md wy w d wy' w' d',
  valid_week md wy w d = true -> valid_week md wy' w' d' = true ->
  dn_week md wy w d = dn_week md wy' w' d' -> (wy, w, d) = (wy', w', d').
Proof. exact dn_week_inj. Qed.
Print Assumptions C03_dn_week_inj.

Theorem C03_roundtrips : forall md,
  (forall y m d, valid_cal md y m d = true ->
     (exists doy, ord_from_cal md y m d = Some (y, doy) /\ cal_from_ord md y doy = Some (y, m, d)) /\
     (exists wy w wd, week_from_cal md y m d = Some (wy, w, wd) /\ cal_from_week md wy w wd = Some (y, m, d))) /\
  (forall y doy, valid_ord md y doy = true ->
     (exists m d, cal_from_ord md y doy = Some (y, m, d) /\ ord_from_cal md y m d = Some (y, doy)) /\
     (exists wy w wd, week_from_ord md y doy = Some (wy, w, wd) /\ ord_from_week md wy w wd = Some (y, doy))) /\
  (forall wy w wd, valid_week md wy w wd = true ->
     (exists y m d, cal_from_week md wy w wd = Some (y, m, d) /\ week_from_cal md y m d = Some (wy, w, wd)) /\
     (exists y doy, ord_from_week md wy w wd = Some (y, doy) /\ week_from_ord md y doy = Some (wy, w, wd))).
Proof. exact conversions_mutually_inverse. Qed.
Print Assumptions C03_roundtrips.

(* non-vacuity: the hypotheses are met by real dates, incl. year 0 and negative years *)
Example C03_ex_valid :
  valid_cal G 2000 2 29 = true /\ valid_ord G (-4) 366 = true /\ valid_week G 2009 53 7 = true /\
  valid_cal D360 0 2 30 = true /\ valid_week D360 2001 52 7 = true /\
  week_from_cal G 2008 12 29 = Some (2009, 1, 1) /\ cal_from_week G (-1) 1 1 = Some (-1, 1, 4).
Proof. vm_compute. repeat split; reflexivity. Qed.
