(* Props/C14Code.v -- property C14 tied to the SOURCE of class TimeRecurrence:
   __add__, __sub__, __eq__, the tuple __hash__ hashes and __str__ as translated
   from /repo on this run (gen/GenCode5.v, see the header of Props/C12Code.v for
   the vocabulary) compute the model functions the theorems of Props/C14.v and
   C14Text.v are about.  Statements only. *)
From Coq Require Import ZArith QArith List String.
From Iso Require Import Spec.Cal Spec.Instant Model.Num Model.Duration Model.TimePoint Model.Recurrence
  Model.RecText gen.GenCode5 Proofs.RecSpec Proofs.GenCode5Ok.
Import ListNotations.
Open Scope Z_scope.

Theorem C14_code_translator_ok : gen.GenCode5.translator_ok_code5 = true.
Proof. exact gen_code5_accepted. Qed.
Print Assumptions C14_code_translator_ok.

Theorem C14_code_add : forall md r d, (r_fmt r = 1 \/ r_fmt r = 3 \/ r_fmt r = 4) -> add_law md r d ->
  sim_res (fun o r' => o = rep r') (py___add__ (mops md) (rep r) d) (rec_add md r d).
Proof. exact gen5_add. Qed.
Print Assumptions C14_code_add.

Theorem C14_code_sub : forall md r d, (r_fmt r = 1 \/ r_fmt r = 3 \/ r_fmt r = 4) ->
  add_law md r (dur_mul d (-1)) ->
  sim_res (fun o r' => o = rep r') (py___sub__ (mops md) (rep r) d) (rec_sub md r d).
Proof. exact gen5_sub. Qed.
Print Assumptions C14_code_sub.

Theorem C14_code_eq : forall md a b,
  conflate false (py___eq__ (mops md) (rep a) (rep b)) (rec_eqb md a b).
Proof. exact gen5_eq. Qed.
Print Assumptions C14_code_eq.

Theorem C14_code_hash_key : forall md r, hash_rel (py___hash__ (mops md) (rep r)) (rec_hash_key md r).
Proof. exact gen5_hash. Qed.
Print Assumptions C14_code_hash_key.

Theorem C14_code_str : forall md r, str_rel (py___str__ (mops md) (rep r)) (rec_str md r).
Proof. exact gen5_str. Qed.
Print Assumptions C14_code_str.
