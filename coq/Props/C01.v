(* Props/C01.v -- property C01: adding an exact duration translates the
   instant exactly.  Statements only; proofs are `exact` of lemmas of Proofs/.
   Quantifiers: every mode, every valid time point (any representation, time
   form incl. 24:00 and fractional forms in the ideal rational semantics, any
   offset, any year in Z), every exact duration (components of either sign). *)
From Coq Require Import QArith.
From Iso Require Import Proofs.Tac Spec.Cal Spec.Instant Model.Num Model.Duration Model.TimePoint
  Proofs.TickSpec Proofs.AddSpec Proofs.TablesOk.
Open Scope Z_scope.

(* the unit sizes and month tables the carries are written with are the ones class Calendar declares on this run *)
Theorem C01_constants :
  gen.CalTables.SECONDS_IN_MINUTE = 60 /\ gen.CalTables.MINUTES_IN_HOUR = 60 /\ gen.CalTables.HOURS_IN_DAY = 24 /\
  gen.CalTables.DAYS_IN_WEEK = 7 /\ gen.CalTables.ROUGH_DAYS_IN_MONTH = 30 /\ gen.CalTables.MAX_WEEKS_IN_YEAR = 53.
Proof. exact Proofs.TablesOk.unit_constants_ok. Qed.
Print Assumptions C01_constants.

Theorem C01_tables : gen.CalTables.translator_ok_cal = true /\
  gen.CalTables.DAYS_IN_MONTHS_360 = m360 /\ gen.CalTables.DAYS_IN_MONTHS_365 = m365 /\
  gen.CalTables.DAYS_IN_MONTHS_366 = m366 /\ gen.CalTables.LEAP_YEAR_FACTOR_TRUTHS = Model.Helpers.leap_factors /\
  forallb Proofs.TablesOk.mode_row_ok gen.CalTables.MODES = true.
Proof. exact Proofs.TablesOk.tables_all_ok. Qed.
Print Assumptions C01_tables.

(* one application of _tick_over: same instant, normalised fields, same shape *)
Theorem C01_tick_over : forall md p,
  (match tdate p with Cal _ m _ => 1 <= m <= 12 | _ => True end) ->
  (instant md (tick_over md p) == instant md p)%Q /\
  valid_date md (tdate (tick_over md p)) = true /\
  normal_tod (ttod (tick_over md p)) = true /\
  rep_kind (tdate (tick_over md p)) = rep_kind (tdate p) /\
  tod_kind (ttod (tick_over md p)) = tod_kind (ttod p) /\
  tzone (tick_over md p) = tzone p.
Proof. exact tick_over_spec. Qed.
Print Assumptions C01_tick_over.

(* p + d exists, denotes instant p + len d, keeps representation, precision form and offset *)
Theorem C01_instant : forall md p d,
  valid_tp md p = true -> is_exact d = true ->
  exists r, tp_add md p d = Some r /\
            (instant md r == instant md p + dur_len d)%Q /\
            rep_kind (tdate r) = rep_kind (tdate p) /\
            tod_kind (ttod r) = tod_kind (ttod p) /\
            tzone r = tzone p /\
            valid_tp md r = true.
Proof. exact tp_add_exact_spec. Qed.
Print Assumptions C01_instant.

(* every field inside its legal range with 0<=h<24 as soon as the duration has a non-zero component *)
Theorem C01_normal : forall md p d r,
  valid_tp md p = true -> is_exact d = true -> dur_bool d = true ->
  tp_add md p d = Some r -> normal_tp md r = true.
Proof. exact tp_add_exact_normal. Qed.
Print Assumptions C01_normal.

(* the empty duration leaves the point alone *)
Theorem C01_zero : forall md p d, is_exact d = true -> dur_bool d = false -> tp_add md p d = Some p.
Proof. exact tp_add_zero. Qed.
Print Assumptions C01_zero.

(* p - d is p + (-d) *)
Theorem C01_sub : forall md p d, tp_sub_dur md p d = tp_add md p (dur_mul d (-1)).
Proof. exact tp_sub_dur_def. Qed.
Print Assumptions C01_sub.

Theorem C01_neg_len : forall d, is_exact d = true -> (dur_len (dur_mul d (-1)) == - dur_len d)%Q.
Proof. exact dur_len_neg. Qed.
Print Assumptions C01_neg_len.

(* non-vacuity: a leap-day crossing, a week-53 crossing, year 0 backwards, an ordinal year end *)
Example C01_ex :
  valid_tp G (mkTp (Cal 2000 2 28) (HMS 23 59 59) (mkZone 5 30)) = true /\
  tp_add G (mkTp (Cal 2000 2 28) (HMS 23 59 59) (mkZone 5 30)) (DU 0 0 0 0 0 1)
    = Some (mkTp (Cal 2000 2 29) (HMS 0 0 0) (mkZone 5 30)) /\
  tp_add G (mkTp (Wk 2009 53 7) (HM 23 (119#2)) (mkZone 0 0)) (DU 0 0 0 0 1 0)
    = Some (mkTp (Wk 2010 1 1) (HM 0 (1#2)) (mkZone 0 0)) /\
  tp_add G (mkTp (Cal 0 1 1) (HMS 0 0 0) (mkZone 0 0)) (DU 0 0 0 0 0 (-1))
    = Some (mkTp (Cal (-1) 12 31) (HMS 23 59 59) (mkZone 0 0)) /\
  tp_add G (mkTp (Ord 2004 366) (HMS 0 0 0) (mkZone 0 0)) (DW 1)
    = Some (mkTp (Ord 2005 7) (HMS 0 0 0) (mkZone 0 0)).
Proof. vm_compute. repeat split; reflexivity. Qed.
