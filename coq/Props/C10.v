(* Props/C10.v -- property C10: durations survive a round trip through text.
   Statements only; definitions and proofs are in Proofs/DurTextSpec.v, the
   executable model (dur_str = Duration.__str__, dur_parse =
   DurationParser.parse) in Model/DurText.v.

   Vocabulary:
     single_signed d  all non-zero components of d have one sign;
     printable d      the model's printer is defined on d: int components
                      within CPython's 4300-digit str/int limit, hours /
                      minutes / seconds integers or finite decimals of at most
                      15 significant digits and not below 1e-4 (the domain on
                      which str(float)/float(str) are exact; see DurText.v);
     dur_equiv a b    same form, equal ints, equal rationals (component-wise);
     dur_eqb          Duration.__eq__ (Model/Duration.v);
     render ...       [-]P[nY][nM][nD][T[nH][nM][nS]] from digit strings, time
                      values digits[<,|.>digits]; render_weeks: [-]PnW;
     alt_cal/alt_ord  P[YYYY]-[MM]-[DD]T[hh]:[mm]:[ss], P[YYYY]-[DDD]T..., and
                      their basic forms. *)
From Coq Require Import ZArith QArith String Ascii.
From Iso Require Import Proofs.Tac Model.Num Model.Duration Model.DurText gen.DurGrammar Proofs.DurTextSpec.
Open Scope string_scope.
Open Scope Z_scope.

(* the hand-written matcher was written for exactly the patterns the package
   compiles now (regenerated on every run into gen/DurGrammar.v) *)
Theorem C10_grammar_tied :
  translator_ok_durtext = true /\
  DURATION_PATTERNS_X = EXPECTED_DURATION_PATTERNS_X /\
  DURATION_FLAGS = EXPECTED_DURATION_FLAGS /\
  ALT_DATE_REGEXES = EXPECTED_ALT_DATE_REGEXES /\
  ALT_TIME_REGEXES = EXPECTED_ALT_TIME_REGEXES /\
  ALT_DATE_ALPHABET = EXPECTED_ALT_DATE_ALPHABET /\
  ALT_TIME_ALPHABET = EXPECTED_ALT_TIME_ALPHABET /\
  ALT_ZONE_ALPHABET = EXPECTED_ALT_ZONE_ALPHABET.
Proof. exact (conj durtext_translator_ok durtext_grammar_tied). Qed.
Print Assumptions C10_grammar_tied.

(* parse(str(d)) == d *)
Theorem C10_roundtrip : forall d, single_signed d = true -> printable d = true ->
  exists s d', dur_str d = TOk s /\ dur_parse s = TOk d' /\ dur_eqb d' d = true.
Proof. exact C10_roundtrip_lemma. Qed.
Print Assumptions C10_roundtrip.

(* str is a fixpoint: str(parse(str(d))) = str(d) *)
Theorem C10_fixpoint : forall d, single_signed d = true -> printable d = true ->
  exists s d', dur_str d = TOk s /\ dur_parse s = TOk d' /\ dur_str d' = TOk s.
Proof. exact C10_fixpoint_lemma. Qed.
Print Assumptions C10_fixpoint.

(* stronger than ==: every component comes back (a non-empty duration keeps
   its form, ints are equal, hours/minutes/seconds are equal rationals) *)
Theorem C10_components : forall d, single_signed d = true -> printable d = true -> dur_bool d = true ->
  exists s d', dur_str d = TOk s /\ dur_parse s = TOk d' /\ dur_equiv d' d.
Proof. exact C10_components_lemma. Qed.
Print Assumptions C10_components.

(* all four facts about one and the same parse result *)
Theorem C10_roundtrip_full : forall d s, single_signed d = true -> dur_str d = TOk s ->
  exists d', dur_parse s = TOk d' /\ dur_eqb d' d = true /\ dur_str d' = TOk s /\
             (dur_bool d = true -> dur_equiv d' d).
Proof. exact roundtrip_full. Qed.
Print Assumptions C10_roundtrip_full.

(* an explicit part of the printable domain: integer components.  Together
   with C10_roundtrip_full this is the integer case in closed form; finite
   decimals are covered by C10_roundtrip/C10_fixpoint through `printable`. *)
Theorem C10_printable_int : forall y mo d h mi s,
  Z.abs y < 10 ^ 4300 -> Z.abs mo < 10 ^ 4300 -> Z.abs d < 10 ^ 4300 ->
  Z.abs h < 10 ^ 15 -> Z.abs mi < 10 ^ 15 -> Z.abs s < 10 ^ 15 ->
  printable (DU y mo d (inject_Z h) (inject_Z mi) (inject_Z s)) = true.
Proof. exact printable_int_units. Qed.
Print Assumptions C10_printable_int.

Theorem C10_roundtrip_int : forall y mo d h mi s,
  let x := DU y mo d (inject_Z h) (inject_Z mi) (inject_Z s) in
  Z.abs y < 10 ^ 4300 -> Z.abs mo < 10 ^ 4300 -> Z.abs d < 10 ^ 4300 ->
  Z.abs h < 10 ^ 15 -> Z.abs mi < 10 ^ 15 -> Z.abs s < 10 ^ 15 ->
  single_signed x = true ->
  exists t x', dur_str x = TOk t /\ dur_parse t = TOk x' /\ dur_eqb x' x = true /\ dur_str x' = TOk t.
Proof. exact roundtrip_int_units. Qed.
Print Assumptions C10_roundtrip_int.

Theorem C10_roundtrip_weeks : forall w, Z.abs w < 10 ^ 4300 ->
  exists t x', dur_str (DW w) = TOk t /\ dur_parse t = TOk x' /\ dur_eqb x' (DW w) = true /\ dur_str x' = TOk t.
Proof. exact roundtrip_weeks. Qed.
Print Assumptions C10_roundtrip_weeks.

(* designator faithfulness: each designator maps to its unit (M before T is
   months, after T minutes), the sign factor multiplies every component, comma
   and point decimals denote the same value, absent groups are zero *)
Theorem C10_designators : forall neg oy omo od t oh omi os,
  int_ok oy = true -> int_ok omo = true -> int_ok od = true ->
  num_ok oh = true -> num_ok omi = true -> num_ok os = true ->
  (t = false -> oh = None /\ omi = None /\ os = None) ->
  dur_parse (render neg oy omo od t oh omi os) =
  TOk (dur_make (oval oy * sgz neg) (oval omo * sgz neg) 0 (oval od * sgz neg)
                (qmul (onum_val oh) (qz (sgz neg))) (qmul (onum_val omi) (qz (sgz neg)))
                (qmul (onum_val os) (qz (sgz neg)))).
Proof. exact parse_render. Qed.
Print Assumptions C10_designators.

Theorem C10_weeks : forall neg ds, int_ok (Some ds) = true ->
  dur_parse (render_weeks neg ds) = TOk (dur_make 0 0 (dec_val ds * sgz neg) 0 0 0 0).
Proof. exact parse_render_weeks. Qed.
Print Assumptions C10_weeks.

(* the value of a digit string is positional, and show_Z is its inverse *)
Theorem C10_digits : forall z, 0 <= z ->
  all_digits (show_Z z) = true /\ str_nonempty (show_Z z) = true /\ dec_val (show_Z z) = z.
Proof. exact show_Z_nonneg. Qed.
Print Assumptions C10_digits.

(* the date-time-like spelling denotes the same duration as its designator
   spelling (calendar and ordinal dates, extended and basic) *)
Theorem C10_alt : forall ext Y M D h mi s,
  field_ok 4 Y = true -> field_ok 2 M = true -> field_ok 2 D = true ->
  field_ok 2 h = true -> field_ok 2 mi = true -> field_ok 2 s = true ->
  dur_parse (alt_cal ext Y M D h mi s) = TOk (alt_value Y M D h mi s) /\
  exists d2,
    dur_parse (render false (Some Y) (Some M) (Some D) true (Some (DInt h)) (Some (DInt mi)) (Some (DInt s))) = TOk d2 /\
    dur_equiv (alt_value Y M D h mi s) d2 /\ dur_eqb (alt_value Y M D h mi s) d2 = true.
Proof. exact alt_calendar_spelling. Qed.
Print Assumptions C10_alt.

Theorem C10_alt_ordinal : forall ext Y DDD h mi s,
  field_ok 4 Y = true -> field_ok 3 DDD = true ->
  field_ok 2 h = true -> field_ok 2 mi = true -> field_ok 2 s = true ->
  dur_parse (alt_ord ext Y DDD h mi s) = TOk (alt_value Y "0" DDD h mi s) /\
  exists d2,
    dur_parse (render false (Some Y) None (Some DDD) true (Some (DInt h)) (Some (DInt mi)) (Some (DInt s))) = TOk d2 /\
    dur_equiv (alt_value Y "0" DDD h mi s) d2 /\ dur_eqb (alt_value Y "0" DDD h mi s) d2 = true.
Proof. exact alt_ordinal_spelling. Qed.
Print Assumptions C10_alt_ordinal.

(* hypotheses are satisfiable, outputs are the expected texts *)
Example C10_witness :
  single_signed (DU 1 2 3 4 (3 # 2) (12345678 # 1000)) = true /\
  printable (DU 1 2 3 4 (3 # 2) (12345678 # 1000)) = true /\
  dur_str (DU 1 2 3 4 (3 # 2) (12345678 # 1000)) = TOk "P1Y2M3DT4H1,5M12345,678S" /\
  dur_str (DU 0 0 (-3) 0 0 (-1 # 4)) = TOk "-P3DT0,25S" /\
  single_signed (DU 0 0 (-3) 0 0 (-1 # 4)) = true /\
  dur_str (DW (-2)) = TOk "-P2W" /\ dur_str (DW 0) = TOk "P0Y" /\
  dur_parse "PT1H2H3M" = TValueError /\
  dur_parse "-P1Y2M3DT4,5H" = TOk (DU (-1) (-2) (-3) (-9 # 2) 0 0) /\
  int_ok (Some "0012") = true /\ num_ok (Some (DDec "1" true "50")) = true /\
  field_ok 4 "0001" = true /\ field_ok 2 "02" = true /\ field_ok 3 "002" = true /\
  dur_parse (alt_cal true "0001" "02" "03" "04" "05" "06") = TOk (DU 1 2 3 4 5 6) /\
  dur_parse (alt_ord false "0001" "002" "04" "05" "06") = TOk (DU 1 0 2 4 5 6).
Proof. vm_compute. repeat split; reflexivity. Qed.
