(* Props/C07.v -- property C07: the parser decodes every documented date-time
   form to exactly its fields.  Statements only; proofs in Proofs/MatchSpec.v.

   Vocabulary (Spec/FormText.v): a form's compiled regex is a token list
   (f_parse f); an assignment a gives each named group its text;
   render_toks ts a is the text the form denotes, wf_assign ts a says every
   field has the shape its group demands (n digits / one or more digits /
   a sign), bindings ts a is the (group, text) list in group order.
   The tables DATE_FORMS_0/2/3, TIME_FORMS, ZONE_FORMS are regenerated from the
   package on every run; every theorem about them below is a closed vm_compute
   re-checked against whatever they contain. *)
From Coq Require Import ZArith QArith List Bool String Ascii.
From Iso Require Import Spec.Cal Model.Num Model.Helpers Model.Duration Model.TimePoint
  Model.Forms Model.Parse Model.Dump Spec.FormText Proofs.MatchSpec gen.Grammar Model.DriverText.
Import ListNotations.
Local Open Scope string_scope.

(* 1. a form's regex matches every text the form denotes and captures exactly
      the field texts *)
Theorem C07_match_render : forall ts a acc,
  simple ts = true -> wf_assign ts a = true ->
  pmatch ts (render_toks ts a) acc = Some (acc ++ bindings ts a)%list.
Proof. exact pmatch_render. Qed.
Print Assumptions C07_match_render.

(* 2. the syntactic incompatibility test is sound: a form g that is
      shape_disjoint from f matches none of f's texts *)
Theorem C07_shape_disjoint : forall g f a acc,
  shape_disjoint g f = true -> wf_assign f a = true -> simple f = true ->
  pmatch g (render_toks f a) acc = None.
Proof. exact shape_disjoint_sound. Qed.
Print Assumptions C07_shape_disjoint.

(* 3. an ordered search returns f on f's texts when every earlier form is
      disjoint from f; boolean version: hit / reach *)
Theorem C07_first_match : forall fs1 f fs2 a,
  Forall (fun g => shape_disjoint (f_parse g) (f_parse f) = true) fs1 ->
  simple (f_parse f) = true -> wf_assign (f_parse f) a = true ->
  first_match (fs1 ++ f :: fs2)%list (render_toks (f_parse f) a) = Some (f, bindings (f_parse f) a).
Proof. exact first_match_unique. Qed.
Print Assumptions C07_first_match.

Theorem C07_first_match_hit : forall fs f g a,
  hit fs f = Some g -> simple (f_parse f) = true -> wf_assign (f_parse f) a = true ->
  first_match fs (render_toks (f_parse f) a) = Some (g, bindings (f_parse f) a) /\ f_parse g = f_parse f /\ In g fs.
Proof. exact first_match_hit. Qed.
Print Assumptions C07_first_match_hit.

(* 4. every form of the five tables is `simple` (no %s group, an unbounded
      digit run only at the end), so 1-3 apply to all of them *)
Theorem C07_forms_simple : forallb (fun f => simple (f_parse f)) ALL_FORMS = true.
Proof. exact forms_simple. Qed.
Print Assumptions C07_forms_simple.

(* 5. reachability.  For every configuration (num_expanded_year_digits in
      {0,2,3}, allow_truncated, allow_only_basic), every bad_types the parser
      uses ([] and ["reduced"]) and every (bad_formats, bad_types) of the time
      and zone searches, each searched form is `found`: on its own texts the
      search returns the form itself or -- for a form of the extended table whose
      regex also stands in the basic table -- that identical twin (same regex,
      expression, type, dump template; see C07_found_spec).
      EXCEPTIONS (date search, allow_truncated on, reduced forms searched):
        "+XCCYY" and "+XCC" with 0 expanded digits, "+XCC" with 2: with sign "-"
        their texts are texts of the earlier truncated forms -YYMM / -YY.
      Twins (search returns the basic copy): dates CCYY-MM, +XCCYY-MM, -DDD;
        times hh,ii hh.ii hh -mm --ss -mm,nn --ss,tt -mm.nn --ss.tt; zones Z, +hh
        (C07_reachable_exact lists them). *)
Theorem C07_reachable :
  forallb (fun c : Z * bool * bool * list string =>
    let '(ned, tr, ba, bad) := c in
    let L := date_search (date_forms_of ned) (cfg_of ned tr ba) bad in
    forallb (fun f => found L f || mem (f_expr f) (date_exceptions ned tr bad)) L) date_cfgs = true /\
  forallb (fun c : bool * list string * list string =>
    let '(ba, bf, bt) := c in
    let L := time_search TIME_FORMS (cfg_of 0 false ba) bf bt in
    forallb (fun f => found L f) L) time_cfgs = true /\
  forallb (fun c : bool * list string =>
    let '(ba, bf) := c in
    let L := zone_search ZONE_FORMS (cfg_of 0 false ba) bf in
    forallb (fun f => found L f) L) zone_cfgs = true.
Proof. exact (conj reachable_dates (conj reachable_times reachable_zones)). Qed.
Print Assumptions C07_reachable.

Theorem C07_reachable_exact :
  forallb (fun c : Z * bool * bool * list string =>
    let '(ned, tr, ba, bad) := c in
    let L := date_search (date_forms_of ned) (cfg_of ned tr ba) bad in
    forallb (fun f => reach L f || mem (f_expr f) (date_exceptions ned tr bad) ||
                      (String.eqb (f_format f) "extended" && mem (f_expr f) ["CCYY-MM"; "+XCCYY-MM"; "-DDD"])) L) date_cfgs = true /\
  forallb (fun c : bool * list string * list string =>
    let '(ba, bf, bt) := c in
    let L := time_search TIME_FORMS (cfg_of 0 false ba) bf bt in
    forallb (fun f => reach L f ||
       (String.eqb (f_format f) "extended" &&
        mem (f_expr f) ["hh,ii"; "hh.ii"; "hh"; "-mm"; "--ss"; "-mm,nn"; "--ss,tt"; "-mm.nn"; "--ss.tt"])) L) time_cfgs = true /\
  forallb (fun c : bool * list string =>
    let '(ba, bf) := c in
    let L := zone_search ZONE_FORMS (cfg_of 0 false ba) bf in
    forallb (fun f => reach L f || (String.eqb (f_format f) "extended" && mem (f_expr f) ["Z"; "+hh"])) L) zone_cfgs = true.
Proof. exact (conj reachable_dates_exact (conj reachable_times_exact reachable_zones_exact)). Qed.
Print Assumptions C07_reachable_exact.

(* the searched lists are the ones the parser walks, and depend on the
   configuration only through allow_truncated / allow_only_basic *)
Theorem C07_searches : forall dfs tfs zfs cfg s bad bf bt,
  get_date_info dfs cfg s bad = first_match (date_search dfs cfg bad) s /\
  get_time_info tfs cfg s bf bt = first_match (time_search tfs cfg bf bt) s /\
  get_zone_info zfs cfg s bf = first_match (zone_search zfs cfg bf) s /\
  date_search dfs cfg bad = date_search dfs (cfg_of (c_ned cfg) (c_trunc cfg) (c_basic cfg)) bad /\
  time_search tfs cfg bf bt = time_search tfs (cfg_of (c_ned cfg) (c_trunc cfg) (c_basic cfg)) bf bt /\
  zone_search zfs cfg bf = zone_search zfs (cfg_of (c_ned cfg) (c_trunc cfg) (c_basic cfg)) bf.
Proof.
  exact (fun dfs tfs zfs cfg s bad bf bt =>
    conj (get_date_info_search dfs cfg s bad) (conj (get_time_info_search tfs cfg s bf bt)
    (conj (get_zone_info_search zfs cfg s bf) (conj (date_search_cfg dfs cfg bad)
    (conj (time_search_cfg tfs cfg bf bt) (zone_search_cfg zfs cfg bf)))))).
Qed.
Print Assumptions C07_searches.

Theorem C07_found_spec : forall L f a,
  found L f = true -> simple (f_parse f) = true -> wf_assign (f_parse f) a = true ->
  exists g, first_match L (render_toks (f_parse f) a) = Some (g, bindings (f_parse f) a) /\
            f_parse g = f_parse f /\ f_expr g = f_expr f /\ f_type g = f_type f /\
            f_dump g = f_dump f /\ f_props g = f_props f /\ In g L /\
            (f_format g = f_format f \/ (f_format g = "basic" /\ f_format f = "extended")).
Proof. exact found_spec. Qed.
Print Assumptions C07_found_spec.

(* 6. every complete date form of the default table is decoded to itself and
      its field texts, whether or not reduced forms are searched *)
Theorem C07_decode_date : forall f a bad,
  In f DATE_FORMS_2 -> f_type f = "complete" -> In bad [[]; ["reduced"]] ->
  wf_assign (f_parse f) a = true ->
  get_date_info DATE_FORMS_2 (default_cfg 2) (render_toks (f_parse f) a) bad = Some (f, bindings (f_parse f) a).
Proof. exact decode_date_complete. Qed.
Print Assumptions C07_decode_date.

(* a date alone (no "T"): any found form, any configuration *)
Theorem C07_decode_date_only : forall dfs tfs zfs cfg fd ad,
  simple (f_parse fd) = true -> no_char "T" (f_parse fd) = true ->
  found (date_search dfs cfg []) fd = true -> wf_assign (f_parse fd) ad = true ->
  get_info dfs tfs zfs cfg (render_toks (f_parse fd) ad) =
  match process_zone cfg [] with
  | POk z => POk (mkInfo (bindings (f_parse fd) ad) [] z (f_expr fd))
  | PErr x => PErr x end.
Proof. exact get_info_date_only. Qed.
Print Assumptions C07_decode_date_only.

(* 7. END TO END, generic.  For every configuration (0, 2 or 3 expanded year
      digits; truncation on/off; basic-only on/off; any assumed/unknown/local
      zone setting), every date form fd the parser searches before a "T", every
      time form ft its format rule then allows, every zone form it then allows
      (or no zone when ft is not truncated), and all well-formed field texts:
      parse_text on  date "T" time zone  is the TimePoint constructor applied to
      the NUMBERS the digit groups denote (point_num: year = year_of_decade +
      year_of_century + 100 century + 10000 expanded_year with the sign; each
      other argument the number of its group, nq/ndec for the time parts and
      their decimal fractions), the zone arguments zone_num (Z -> (0,0); sign
      applied to hour and minute; a missing zone resolved by the configuration),
      and the dump format the concatenated expression texts (dump_as_parsed).
      _partial: what is missing for the property's full claim --
        (a) the conclusion stops at the constructor call; its evaluation to a
            TimePoint value (defaults, bounds) is done for instances only
            (C07_decode_calendar, C07_decode_ordinal_local below);
        (b) a truncated time with NO zone after "T" is not covered (its "-" goes
            through the parser's rsplit heuristic);
        (c) sign-prefixed forms with num_expanded_year_digits = 0 are excluded:
            their empty "expanded_year" group makes int("") fail (ValueError),
            a finding about the implementation;
        (d) the three date-search exceptions of C07_reachable;
        (e) a date alone is covered at get_info level only (C07_decode_date_only). *)
Theorem C07_decode_partial : forall md cfg fd gd ft zo ad atm az asp,
  In (c_ned cfg) [0; 2; 3]%Z ->
  let dfs := date_forms_of (c_ned cfg) in
  In fd (date_search dfs cfg ["reduced"]) ->
  hit (date_search dfs cfg ["reduced"]) fd = Some gd ->
  let bf := bad_formats_of (f_format gd) (f_type gd) in
  In ft (time_search TIME_FORMS cfg bf (trunc_types fd)) ->
  In zo (zone_choices cfg bf ft) ->
  (c_ned cfg = 0%Z -> binds "expanded_year" (f_parse fd) = false) ->
  wf_assign (f_parse fd) ad = true -> wf_assign (f_parse ft) atm = true -> zo_wf zo az = true ->
  parse_text md cfg (render_toks (f_parse fd) ad ++ "T" ++ render_toks (f_parse ft) atm ++ zo_text zo az) asp =
  (zn <-- zone_num cfg (zo_bind zo az) ;;;
   point_num md cfg (bindings (f_parse fd) ad) (bindings (f_parse ft) atm) zn
             (if asp then f_expr fd ++ "T" ++ f_expr ft ++ zo_expr zo else "") false).
Proof. exact decode_tables. Qed.
Print Assumptions C07_decode_partial.

(* the same at the level of get_info, for arbitrary tables: under the boolean
   side conditions triple_ok the three forms and their bindings are returned *)
Theorem C07_decode_info : forall dfs tfs zfs cfg fd ft zo ad atm az,
  triple_ok dfs tfs zfs cfg fd ft zo = true ->
  wf_assign (f_parse fd) ad = true -> wf_assign (f_parse ft) atm = true -> zo_wf zo az = true ->
  get_info dfs tfs zfs cfg (render_toks (f_parse fd) ad ++ "T" ++ render_toks (f_parse ft) atm ++ zo_text zo az) =
  match process_zone cfg (zo_bind zo az) with
  | POk z => POk (mkInfo (bindings (f_parse fd) ad) (bindings (f_parse ft) atm) z
                         (f_expr fd ++ "T" ++ f_expr ft ++ zo_expr zo))
  | PErr x => PErr x
  end.
Proof. exact get_info_render. Qed.
Print Assumptions C07_decode_info.

(* END TO END, explicit: CCYY-MM-DD "T" hh:mm:ss "Z" with arbitrary two-digit
   texts, and with field VALUES written by the dumper's own padding: the result
   carries exactly those values, UTC, not truncated, dump format the expression
   text -- or is refused exactly when the package's bound check refuses the
   values.  _partial: one form triple of the property's family. *)
Theorem C07_decode_calendar_partial : forall md cc yy mo dd hh mi ss,
  digits_n 2 cc = true -> digits_n 2 yy = true -> digits_n 2 mo = true -> digits_n 2 dd = true ->
  digits_n 2 hh = true -> digits_n 2 mi = true -> digits_n 2 ss = true ->
  parse_text md (default_cfg 2) ((cc ++ yy ++ "-" ++ mo ++ "-" ++ dd) ++ "T" ++ (hh ++ ":" ++ mi ++ ":" ++ ss) ++ "Z") true =
  let p := mkPtp (Some (dnum yy + 100 * dnum cc)%Z) (Some (dnum mo)) (Some (dnum dd)) None None None
                 (Some (qz (dnum hh))) (Some (qz (dnum mi))) (Some (qz (dnum ss))) (Some (mkZone 0 0))
                 false "" 0 "CCYY-MM-DDThh:mm:ssZ" in
  if check_bounds md p then POk p else PErr EBadInput.
Proof. exact decode_ext_calendar_hms_utc. Qed.
Print Assumptions C07_decode_calendar_partial.

Theorem C07_decode_values_partial : forall md cen yoc mo d h mi s,
  (0 <= cen < 100)%Z -> (0 <= yoc < 100)%Z -> (0 <= mo < 100)%Z -> (0 <= d < 100)%Z ->
  (0 <= h < 100)%Z -> (0 <= mi < 100)%Z -> (0 <= s < 100)%Z ->
  parse_text md (default_cfg 2)
    ((pad_num 2 cen ++ pad_num 2 yoc ++ "-" ++ pad_num 2 mo ++ "-" ++ pad_num 2 d) ++ "T" ++
     (pad_num 2 h ++ ":" ++ pad_num 2 mi ++ ":" ++ pad_num 2 s) ++ "Z") true =
  let p := mkPtp (Some (yoc + 100 * cen)%Z) (Some mo) (Some d) None None None
                 (Some (qz h)) (Some (qz mi)) (Some (qz s)) (Some (mkZone 0 0))
                 false "" 0 "CCYY-MM-DDThh:mm:ssZ" in
  if check_bounds md p then POk p else PErr EBadInput.
Proof. exact decode_ext_calendar_hms_utc_values. Qed.
Print Assumptions C07_decode_values_partial.

(* signed expanded year, ordinal date, hhmm, no zone: the omitted seconds
   default to 0 and the missing zone is the configuration's (local = UTC) *)
Theorem C07_decode_ordinal_local_partial : forall md sg xx cc yy ddd hh mi,
  is_sign sg = true -> digits_n 2 xx = true -> digits_n 2 cc = true -> digits_n 2 yy = true ->
  digits_n 3 ddd = true -> digits_n 2 hh = true -> digits_n 2 mi = true ->
  parse_text md (default_cfg 2) ((sg ++ xx ++ cc ++ yy ++ ddd) ++ "T" ++ (hh ++ mi)) true =
  let y := (dnum yy + 100 * dnum cc + 10000 * dnum xx)%Z in
  let p := mkPtp (Some (if String.eqb sg "-" then (- y)%Z else y)) None None (Some (dnum ddd)) None None
                 (Some (qz (dnum hh))) (Some (qz (dnum mi))) (Some 0%Q) (Some (mkZone 0 0))
                 false "" 2 "+XCCYYDDDThhmm" in
  if check_bounds md p then POk p else PErr EBadInput.
Proof. exact decode_basic_ordinal_hm_local. Qed.
Print Assumptions C07_decode_ordinal_local_partial.

(* week date, decimal seconds by comma, signed hh:mm zone: the constructor call *)
Theorem C07_decode_week_decimal_zone_partial : forall md cc yy ww d hh mi ss tt sg zh zm,
  digits_n 2 cc = true -> digits_n 2 yy = true -> digits_n 2 ww = true -> digits_n 1 d = true ->
  digits_n 2 hh = true -> digits_n 2 mi = true -> digits_n 2 ss = true -> digits_plus tt = true ->
  is_sign sg = true -> digits_n 2 zh = true -> digits_n 2 zm = true ->
  parse_text md (default_cfg 2)
    ((cc ++ yy ++ "-W" ++ ww ++ "-" ++ d) ++ "T" ++ (hh ++ ":" ++ mi ++ ":" ++ ss ++ "," ++ tt) ++ (sg ++ zh ++ ":" ++ zm)) true =
  let s := fun v : Z => if String.eqb sg "-" then (- v)%Z else v in
  construct md (Some (dnum yy + 100 * dnum cc)%Z) None None None (Some (dnum ww)) (Some (dnum d))
            (Some (qz (dnum hh))) None (Some (qz (dnum mi))) None (Some (qz (dnum ss))) (Some (frac_of tt))
            (Some (s (dnum zh), Some (s (dnum zm)))) false "" 0 "CCYY-Www-DThh:mm:ss,tt+hh:mm" false.
Proof. exact decode_ext_week_hmsd_zone. Qed.
Print Assumptions C07_decode_week_decimal_zone_partial.

(* numbers and texts: a non-empty digit string reads as dnum; the dumper's
   zero padding of width 1, 2, 3 is read back exactly *)
Theorem C07_read_digits : forall s, digits_plus s = true -> read_Z s = Some (dnum s).
Proof. exact read_Z_digits. Qed.
Print Assumptions C07_read_digits.
Theorem C07_pad_read :
  (forall n, (0 <= n < 10)%Z -> digits_n 1 (pad_num 1 n) = true /\ dnum (pad_num 1 n) = n) /\
  (forall n, (0 <= n < 100)%Z -> digits_n 2 (pad_num 2 n) = true /\ dnum (pad_num 2 n) = n) /\
  (forall n, (0 <= n < 1000)%Z -> digits_n 3 (pad_num 3 n) = true /\ dnum (pad_num 3 n) = n).
Proof. exact (conj pad_num_1 (conj pad_num_2 pad_num_3)). Qed.
Print Assumptions C07_pad_read.

(* 8. a basic-only parser searches basic forms only, so each of its three
      searches refuses every text of an extended-only form (one no basic form of
      the table can match); in the tables every extended form is extended-only
      except the twins EXT_TWINS whose regex also stands in the basic table.
      That it ACCEPTS every basic form is C07_reachable with ba = true. *)
Theorem C07_basic_only : forall dfs tfs zfs cfg, c_basic cfg = true ->
  ((forall bad f, In f (date_search dfs cfg bad) -> f_format f = "basic") /\
   (forall bf bt f, In f (time_search tfs cfg bf bt) -> f_format f = "basic") /\
   (forall bf f, In f (zone_search zfs cfg bf) -> f_format f = "basic")) /\
  forall fe a, simple (f_parse fe) = true -> wf_assign (f_parse fe) a = true ->
  (ext_only dfs fe = true -> forall bad, get_date_info dfs cfg (render_toks (f_parse fe) a) bad = None) /\
  (ext_only tfs fe = true -> forall bf bt, get_time_info tfs cfg (render_toks (f_parse fe) a) bf bt = None) /\
  (ext_only zfs fe = true -> forall bf, get_zone_info zfs cfg (render_toks (f_parse fe) a) bf = None).
Proof.
  exact (fun dfs tfs zfs cfg B =>
    conj (basic_only_searches dfs tfs zfs cfg B)
         (fun fe a S W => basic_only_refuses dfs tfs zfs cfg fe a B S W)).
Qed.
Print Assumptions C07_basic_only.

Theorem C07_basic_only_tables :
  forallb (fun L => forallb (fun f => negb (String.eqb (f_format f) "extended") || ext_only L f || mem (f_expr f) EXT_TWINS) L)
          [DATE_FORMS_0; DATE_FORMS_2; DATE_FORMS_3; TIME_FORMS; ZONE_FORMS] = true.
Proof. exact tables_ext_only. Qed.
Print Assumptions C07_basic_only_tables.

(* whole texts: an extended-only DATE, alone or followed by "T"..., is a
   syntax error for a basic-only parser.  _partial: a basic date followed by an
   extended-only time or zone is refused by the searches (C07_basic_only) but
   the whole-text error is not derived (time/zone splitting heuristics). *)
Theorem C07_basic_only_text_partial : forall dfs tfs zfs cfg fe a rest,
  c_basic cfg = true -> simple (f_parse fe) = true -> wf_assign (f_parse fe) a = true ->
  ext_only dfs fe = true -> no_char "T" (f_parse fe) = true -> nonempty_lead (f_parse fe) = true ->
  contains_char "T" rest = false ->
  get_info dfs tfs zfs cfg (render_toks (f_parse fe) a) = PErr ESyntax /\
  get_info dfs tfs zfs cfg (render_toks (f_parse fe) a ++ String "T" rest) = PErr ESyntax.
Proof. exact basic_only_refuses_text. Qed.
Print Assumptions C07_basic_only_text_partial.

(* 9. no mixing: whenever get_info accepts  d "T" tz  (and d is not the empty
      truncated date), the time form -- and the zone form if any -- it reports
      has the format key of the date form unless the date form is truncated *)
Theorem C07_no_mix : forall dfs tfs zfs cfg s d tz i,
  split_str "T" s = [d; tz] -> get_info dfs tfs zfs cfg s = POk i ->
  (String.eqb d "" && c_trunc cfg = true) \/
  exists fd de ft zexpr,
    get_date_info dfs cfg d ["reduced"] = Some (fd, de) /\ In ft tfs /\
    i_expr i = f_expr fd ++ "T" ++ f_expr ft ++ zexpr /\ i_date i = de /\
    (String.eqb (f_type fd) "truncated" = false -> f_format ft = f_format fd) /\
    (zexpr = "" \/ exists fz, In fz zfs /\ zexpr = f_expr fz /\
                   (String.eqb (f_type fd) "truncated" = false -> f_format fz = f_format fd)).
Proof. exact no_mix. Qed.
Print Assumptions C07_no_mix.

(* the hypotheses are satisfiable, and what the model computes on four texts *)
Example C07_ex :
  triple_ok DATE_FORMS_2 TIME_FORMS ZONE_FORMS (default_cfg 2) F_CAL_EXT F_HMS_EXT (Some F_Z_EXT) = true /\
  wf_assign (f_parse F_CAL_EXT) [("century", "20"); ("year_of_century", "00"); ("month_of_year", "01"); ("day_of_month", "02")] = true /\
  parse_text G (default_cfg 2) "2000-01-02T03:04:05Z" true =
    POk (mkPtp (Some 2000%Z) (Some 1%Z) (Some 2%Z) None None None (Some 3%Q) (Some 4%Q) (Some 5%Q)
               (Some (mkZone 0 0)) false "" 0 "CCYY-MM-DDThh:mm:ssZ") /\
  parse_text G (default_cfg 2) "+0020000102T03,5-0130" true =
    POk (mkPtp (Some 2000%Z) (Some 1%Z) (Some 2%Z) None None None (Some (7 # 2)%Q) None None
               (Some (mkZone (-1) (-30))) false "" 2 "+XCCYYMMDDThh,ii+hhmm") /\
  parse_text G (cfg_of 2 true false) "-0001T-30" true =
    POk (mkPtp (Some 0%Z) (Some 1%Z) None None None None None (Some 30%Q) None
               (Some (mkZone 0 0)) true "year_of_century" 0 "-YYMMT-mm") /\
  parse_text G (cfg_of 2 false true) "2000-01-02T03:04:05Z" true = PErr ESyntax /\
  parse_text G (default_cfg 2) "20000102T03:04:05Z" true = PErr ESyntax.
Proof. vm_compute. repeat split; reflexivity. Qed.
