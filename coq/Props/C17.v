(* Props/C17.v -- property C17: strftime matches POSIX for the supported
   directives (%Y %m %d %j %H %M %S %F %X %z %s and literal text), strptime
   inverts it, and any other %-letter directive is refused with the library's
   ValueError-derived StrftimeSyntaxError.  Statements only; proofs in
   Proofs/StrftimeSpec.v.

   Vocabulary.  Spec/Posix.v: `civil` (year, month, day, day of year, hour,
   minute, whole second, offset, Unix time), `posix_dir c d` = the text POSIX
   prints for directive d, `posix c items` = the text of a split format
   (literals copied), `civil_of md p` = the civil reading of a valid time
   point, defined from the instant, the offset and the inverse day-number
   functions only.  Model/Strftime.v: split_format (items FLit / FDir),
   strftime, strptime.  Proofs/StrftimeSpec.v: POSIX_SHAPES (the eleven
   directives in the package's own template language), SUPPORTED (its keys),
   supported_fmt / parse_fmt / full_fmt / date_dirs_ok / uses / stray_pct
   (decidable conditions on a split format), whole_second, parsed_call,
   parsed_point, cfg_zone.
   STRFTIME_TABLE is regenerated from the package on every run; it enters the
   theorems only through the closed vm_compute reflection C17_table.

   What is partial.  strftime (C17_strftime) is stated at full strength for
   all eleven directives, %s included: the package prints floor(seconds since
   the epoch), which is POSIX time_t for every valid point, before the epoch
   too.  The strptime theorems (5-7, suffix _partial) exclude formats
   containing %s (the model answers EUnmodelled: the package parses that group
   with float()) and speak of the canonical POSIX text only; 7 is stated for
   whole-second points. *)
From Coq Require Import ZArith QArith Qround List Bool String Ascii.
From Iso Require Import Proofs.Tac Spec.Cal Spec.Instant Spec.NextMatch Spec.Posix
  Model.Num Model.Helpers Model.Duration Model.TimePoint Model.Forms Model.Parse Model.LocalZone
  Model.Dump Model.Strftime Model.DriverText gen.Grammar Proofs.MatchSpec Proofs.ConstructSpec
  Proofs.StrftimeSpec.
Import ListNotations.
Local Open Scope string_scope.
Open Scope Z_scope.

(* 1. the generated table: every row has the POSIX shape of its directive
      (dump template, properties read, regex), every one of the eleven
      directives has a row, and the translator recognised every shape *)
Theorem C17_table : table_ok STRFTIME_TABLE = true /\ translator_ok_grammar = true.
Proof. exact table_reflect. Qed.
Print Assumptions C17_table.

Theorem C17_table_lookup : forall d, lookup_dir d STRFTIME_TABLE = lookup_dir d POSIX_SHAPES.
Proof. exact table_lookup. Qed.
Print Assumptions C17_table_lookup.

Theorem C17_table_exact :
  length STRFTIME_TABLE = 11%nat /\
  SUPPORTED = ["%Y"; "%m"; "%d"; "%j"; "%H"; "%M"; "%S"; "%F"; "%X"; "%z"; "%s"] /\
  forallb (fun row => mem (fst row) SUPPORTED) STRFTIME_TABLE = true /\
  forallb (fun d => mem d (map fst STRFTIME_TABLE)) SUPPORTED = true.
Proof. exact table_exact. Qed.
Print Assumptions C17_table_exact.

(* 2. refusal: a '%' followed by a word character that is not one of the
      eleven, anywhere in the format, makes strftime raise StrftimeSyntaxError
      (DSyntax) and strptime likewise (ESyntax), whatever the point or text *)
Theorem C17_unsupported : forall ned md cfg p text a c b,
  is_word c = true -> mem (String "%" (String c "")) SUPPORTED = false ->
  let fmt := a ++ String "%" (String c b) in
  strftime ned STRFTIME_TABLE md p fmt = DSyntax /\
  strptime STRFTIME_TABLE md cfg text fmt = PErr ESyntax.
Proof. exact unsupported_refused. Qed.
Print Assumptions C17_unsupported.

(* 3. civil_of is the civil reading: a valid calendar date and the same day as
      an ordinal date, a time of day, the point's own offset, and together
      they are the whole local second of the instant; Unix time is rounded down *)
Theorem C17_civil : forall md p c, civil_of md p = Some c ->
  valid_cal md (cy c) (cm c) (cd c) = true /\ valid_ord md (cy c) (cdoy c) = true /\
  dn_ord md (cy c) (cdoy c) = dn_cal md (cy c) (cm c) (cd c) /\
  0 <= ch c < 24 /\ 0 <= cmi c < 60 /\ 0 <= cs c < 60 /\
  czh c = zh (tzone p) /\ czm c = zm (tzone p) /\ valid_zone (mkZone (czh c) (czm c)) = true /\
  Qfloor (local_secs md p) = 86400 * dn_cal md (cy c) (cm c) (cd c) + 3600 * ch c + 60 * cmi c + cs c /\
  cunix c = Qfloor (instant md p - epoch_instant md).
Proof. exact civil_of_spec. Qed.
Print Assumptions C17_civil.

(* 4. strftime prints the POSIX text.  Any valid point: calendar, ordinal or
      week date; hh:mm:ss, hh:mm,nn or hh,ii time (fractions allowed, %S prints
      the whole second); 24:00; any offset; any calendar mode; any number of
      expanded year digits of the dumper; %s on either side of the epoch (the
      package rounds down, as time_t does).  Hypotheses: civil year in
      0..9999, every directive one of the eleven (otherwise C17_unsupported),
      no stray '%' left in literal text (the model does not cover Python's
      %-formatting of it). *)
Theorem C17_strftime : forall ned md p fmt c,
  valid_tp md p = true -> civil_of md p = Some c -> 0 <= cy c <= 9999 ->
  supported_fmt (split_format fmt "") = true -> stray_pct (split_format fmt "") = false ->
  exists s, strftime ned STRFTIME_TABLE md p fmt = DOk s /\ posix c (split_format fmt "") = Some s.
Proof. exact strftime_posix. Qed.
Print Assumptions C17_strftime.

(* 5. strptime on the POSIX text of ANY civil date-time with a year in
      0..9999, for ANY format made of the directives other than %s and of
      arbitrary literal text (digits and signs included: every group has a
      fixed width): it is exactly this call of the TimePoint constructor --
      omitted fields are passed as absent, the zone falls back on the parser
      configuration.
      _partial: formats containing %s are not covered (the model answers
      EUnmodelled for them: the package parses that group with float()), and
      the text must be the canonical POSIX text of the format (what strftime
      prints), not an arbitrary matching text. *)
Theorem C17_strptime_call_partial : forall md cfg c fmt s,
  civil_ranges md c -> parse_fmt (split_format fmt "") = true -> posix c (split_format fmt "") = Some s ->
  strptime STRFTIME_TABLE md cfg s fmt = parsed_call md cfg c (split_format fmt "").
Proof. exact strptime_posix. Qed.
Print Assumptions C17_strptime_call_partial.

(* 6. the defaulting rule, as the value of that constructor call: when the
      format does not mix %j with %m/%d/%F (the constructor refuses the mix),
      the result is the valid point parsed_point: year 0 without %Y/%F, month 1
      and day 1 without %m / %d, 00 for each missing time directive, and the
      configuration's zone (assumed zone, else UTC for an "unknown" default,
      else the local zone) without %z.  _partial: as for 5. *)
Theorem C17_strptime_defaults_partial : forall md cfg c fmt s,
  civil_ranges md c -> parse_fmt (split_format fmt "") = true -> date_dirs_ok (split_format fmt "") = true ->
  (uses ["%z"] (split_format fmt "") = false -> valid_zone (cfg_zone cfg) = true) ->
  posix c (split_format fmt "") = Some s ->
  exists pp, strptime STRFTIME_TABLE md cfg s fmt = POk pp /\
             ptp_to_tp pp = Some (parsed_point cfg c (split_format fmt "")) /\
             valid_tp md (parsed_point cfg c (split_format fmt "")) = true.
Proof. exact strptime_defaults. Qed.
Print Assumptions C17_strptime_defaults_partial.

(* 7. strptime inverts strftime: for every full format (year, then month and
      day or day of year, hour, minute, second and %z, in any order, each
      through its own directive or %F / %X, with any literal text between),
      every valid whole-second point with a civil year in 0..9999, in any
      representation, offset, mode and parser configuration, the text
      strftime prints is parsed back to a point that compares equal.
      _partial: formats containing %s are excluded (see 5); for a point with a
      fractional second the recovered point is the whole second below it, which
      is not stated here. *)
Theorem C17_strptime_partial : forall ned md cfg p fmt c,
  valid_tp md p = true -> civil_of md p = Some c -> 0 <= cy c <= 9999 -> whole_second md p ->
  full_fmt (split_format fmt "") = true -> stray_pct (split_format fmt "") = false ->
  exists s pp q, strftime ned STRFTIME_TABLE md p fmt = DOk s /\
                 strptime STRFTIME_TABLE md cfg s fmt = POk pp /\
                 ptp_to_tp pp = Some q /\ tp_cmp md q p = Some Eq.
Proof. exact strftime_strptime_roundtrip. Qed.
Print Assumptions C17_strptime_partial.

(* Examples (closed vm_compute): a week date printed in calendar years with
   day of year, offset and Unix time; a 24:00 point in a negative offset
   printed as 00:00 of the next day and parsed back to an equal point; the two
   instance families are full formats; the hypotheses are satisfiable; the
   defaulting rule on "%m-%d"; a stray '%' and an unsupported directive; and
   an instance a truncating %s (str(int(...)), "59 0") would fail: half a
   second before the epoch, 1969-12-31T23:59:59,5Z (p_before_epoch), "%S %s"
   is "59 -1", the POSIX text. *)
Definition ex_week : tp := mkTp (Wk 2009 1 1) (HMS 0 0 0) (mkZone 0 0).
Definition ex_24 : tp := mkTp (Cal 2008 12 31) (HMS 24 0 0) (mkZone (-5) (-30)).
Example C17_ex :
  strftime 2 STRFTIME_TABLE G ex_week "%Y-%m-%d %j %H:%M:%S %z %s" = DOk "2008-12-29 364 00:00:00 +0000 1230508800" /\
  (match civil_of G ex_week with
   | Some c => posix c (split_format "%Y-%m-%d %j %H:%M:%S %z %s" "") | None => None end)
    = Some "2008-12-29 364 00:00:00 +0000 1230508800" /\
  strftime 2 STRFTIME_TABLE G ex_24 "%FT%X%z (%j) %s" = DOk "2009-01-01T00:00:00-0530 (001) 1230787800" /\
  (match strptime STRFTIME_TABLE G (default_cfg 2) "2009-01-01T00:00:00-0530" "%FT%X%z" with
   | POk pp => match ptp_to_tp pp with Some q => tp_cmp G q ex_24 | None => None end
   | PErr _ => None end) = Some Eq /\
  strptime STRFTIME_TABLE G (default_cfg 2) "2008-12-29 00:00:00 +0000" "%Y-%m-%d %H:%M:%S %z" =
    POk (mkPtp (Some 2008) (Some 12) (Some 29) None None None (Some 0%Q) (Some 0%Q) (Some 0%Q)
               (Some (mkZone 0 0)) false "" 0 "") /\
  strptime STRFTIME_TABLE G (default_cfg 2) "12-29" "%m-%d" =
    POk (mkPtp (Some 0) (Some 12) (Some 29) None None None (Some 0%Q) (Some 0%Q) (Some 0%Q)
               (Some (mkZone 0 0)) false "" 0 "") /\
  strptime STRFTIME_TABLE G (default_cfg 2) "2008-12-29 364 00:00:00 +0000 1230508800"
           "%Y-%m-%d %j %H:%M:%S %z %s" = PErr EUnmodelled /\
  full_fmt (split_format "%Y-%m-%dT%H:%M:%S%z" "") = true /\ full_fmt (split_format "%F %X %z" "") = true /\
  full_fmt (split_format "%Y%jT%H%M%S%z" "") = true /\
  valid_tp G ex_week = true /\ valid_tp G ex_24 = true /\
  (match civil_of G ex_24 with Some c => (0 <=? cy c) && (cy c <=? 9999) | None => false end) = true /\
  supported_fmt (split_format "%FT%X%z (%j) %s" "") = true /\ stray_pct (split_format "%FT%X%z (%j) %s" "") = false /\
  strftime 2 STRFTIME_TABLE G ex_week "100%" = DUnmodelled /\
  strftime 2 STRFTIME_TABLE G ex_week "%y" = DSyntax /\
  strftime 2 STRFTIME_TABLE G (mkTp (Cal 10000 1 1) (HMS 0 0 0) (mkZone 0 0)) "%Y" = DBounds /\
  p_before_epoch = mkTp (Cal 1969 12 31) (HMS 23 59 (119 # 2)) (mkZone 0 0) /\
  valid_tp G p_before_epoch = true /\
  strftime 2 STRFTIME_TABLE G p_before_epoch "%S %s" = DOk "59 -1" /\
  (match civil_of G p_before_epoch with
   | Some c => posix c (split_format "%S %s" "") | None => None end) = Some "59 -1".
Proof. vm_compute. repeat split; reflexivity. Qed.
