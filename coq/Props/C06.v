(* Props/C06.v -- property C06: changing the UTC offset never changes the
   instant.  Statements only.  (The dump-with-literal-zone part of the property
   is stated in Props/C08.v with the dumper model.) *)
From Coq Require Import QArith.
From Iso Require Import Proofs.Tac Spec.Cal Spec.Instant Model.Num Model.Duration Model.TimePoint
  Proofs.ZoneSpec Proofs.CmpSpec Proofs.SubSpec.
Open Scope Z_scope.

Theorem C06_to_time_zone : forall md p z,
  valid_tp md p = true -> valid_zone z = true ->
  exists r, to_time_zone md p z = Some r /\
            (instant md r == instant md p)%Q /\ tzone r = z /\
            rep_kind (tdate r) = rep_kind (tdate p) /\ tod_kind (ttod r) = tod_kind (ttod p) /\
            valid_tp md r = true.
Proof. exact to_time_zone_spec. Qed.
Print Assumptions C06_to_time_zone.

Theorem C06_to_utc : forall md p, valid_tp md p = true ->
  exists r, to_utc md p = Some r /\ (instant md r == instant md p)%Q /\ tzone r = mkZone 0 0 /\
            valid_tp md r = true.
Proof. exact to_utc_spec. Qed.
Print Assumptions C06_to_utc.

(* the re-zoned value compares equal to, hashes equal to and has zero difference from the original *)
Theorem C06_equal_hash_diff : forall md p z r,
  valid_tp md p = true -> valid_zone z = true -> to_time_zone md p z = Some r ->
  tp_cmp md p r = Some Eq /\ tp_cmp md r p = Some Eq /\
  (exists k1 k2, tp_hash_key md p = Some k1 /\ tp_hash_key md r = Some k2 /\ hash_key_equiv k1 k2) /\
  (exists d, tp_sub md p r = Some d /\ dur_bool d = false).
Proof. exact rezone_equal_hash_diff. Qed.
Print Assumptions C06_equal_hash_diff.

Example C06_ex :
  to_time_zone G (mkTp (Ord 2004 366) (HMS 23 30 0) (mkZone 0 0)) (mkZone 0 30)
    = Some (mkTp (Ord 2005 1) (HMS 0 0 0) (mkZone 0 30)) /\
  to_time_zone G (mkTp (Wk 2009 53 7) (HM 12 (1#2)) (mkZone (-99) (-59))) (mkZone 99 59)
    = Some (mkTp (Wk 2010 2 1) (HM 19 (117#2)) (mkZone 99 59)) /\
  valid_zone (mkZone 0 (-30)) = true /\ valid_zone (mkZone 1 (-30)) = false.
Proof. vm_compute. repeat split; reflexivity. Qed.
