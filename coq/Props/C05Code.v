(* Props/C05Code.v -- property C05 tied to the SOURCE of class TimePoint: the method
   bodies translated from /repo on this run (gen/GenCode4.v; vocabulary and conventions in
   the header of Props/C01Code.v) compute the model functions the theorems of Props/C05.v
   are about, for every fuel at least the model's own loop bounds.  Statements only. *)
From Coq Require Import QArith String.
From Iso Require Import Proofs.Tac Spec.Cal Spec.Instant Model.Num Model.Helpers Model.Duration Model.TimePoint
  gen.CalTables gen.GenCode4 Proofs.GenCode2Ok Proofs.GenCode4Base Proofs.GenCode4Stmt Proofs.GenCode4Stmt2
  Proofs.GenCode4Conv Proofs.GenCode4Cmp Proofs.GenCode4Ok.
From Iso Require gen.GenCode3 Proofs.GenCode3Ok.
Open Scope Z_scope.

Theorem C05_code_translator_ok : gen.GenCode4.translator_ok_code4 = true.
Proof. exact gen_code4_accepted. Qed.
Print Assumptions C05_code_translator_ok.
Theorem C05_code_add_months : forall md fl p p' n fuel q,
  tp_equiv p' p -> month_ok p -> add_months md p n = Some q ->
  (Z.to_nat (add_months_bound md p n) <= fuel)%nat ->
  returns_tp fl (py_TimePoint_add_months fuel (cal_of md) (rep fl p') n) q.
Proof. exact gen4_add_months. Qed.
Print Assumptions C05_code_add_months.
