(* Props/C01Code.v -- property C01 (and what C02/C04/C05/C06 share with it), tied to the
   SOURCE of class TimePoint: gen/GenCode4.v holds the method bodies that
   tools/translate_code4.py translated from /repo/metomi/isodatetime/data.py on this
   run (Python ast -> Gallina over the object-state record pyTimePoint, exception
   monad `exc`, loops as for_flow / while_flow with fuel).  Every model function of
   Model/TimePoint.v that the properties talk about is proved to be what the
   translated method computes on every state `rep fl p` (p : tp a non-truncated time
   point as __init__ leaves it, fl the carried presentation flags), for every fuel
   >= the model's own loop bounds -- i.e. the Python loops terminate with the
   model's result.  Statements only.
   Convention: date slots / int parameters are Z, the time slots exact rationals
   (DESIGN.md section 3); rational results are compared with Qeq (tp_equiv: the
   model reduces fractions, the code does not).  Truncated points are out of scope. *)
From Coq Require Import QArith String.
From Iso Require Import Proofs.Tac Spec.Cal Spec.Instant Model.Num Model.Helpers Model.Duration Model.TimePoint
  gen.CalTables gen.GenCode4 Proofs.GenCode2Ok Proofs.GenCode4Base Proofs.GenCode4Stmt Proofs.GenCode4Stmt2
  Proofs.GenCode4Conv Proofs.GenCode4Cmp Proofs.GenCode4Ok.
From Iso Require gen.GenCode3 Proofs.GenCode3Ok.
Open Scope Z_scope.

Theorem C01_code_translator_ok : gen.GenCode4.translator_ok_code4 = true.
Proof. exact gen_code4_accepted. Qed.
Print Assumptions C01_code_translator_ok.

(* the object states of the theorems are exactly those that denote a `tp` *)
Theorem C01_code_state :
  (forall fl p, abs4 (rep fl p) = Some p /\ flags_of (rep fl p) = fl) /\
  (forall o p, abs4 o = Some p -> o = rep (flags_of o) p).
Proof. exact gen4_state. Qed.
Print Assumptions C01_code_state.

(* the CALENDAR attributes as Calendar.set_mode computes them (its right-hand sides,
   translated in gen/CalTables.v / gen/GenCode2.v) in mode md *)
Theorem C01_code_calendar : forall md,
  c_DAYS_IN_YEAR (cal_of md) = DAYS_IN_YEAR md /\
  c_DAYS_IN_YEAR_LEAP (cal_of md) = DAYS_IN_YEAR_LEAP md /\
  c_DAYS_IN_MONTHS (cal_of md) = DAYS_IN_MONTHS md /\
  c_DAYS_IN_MONTHS_LEAP (cal_of md) = DAYS_IN_MONTHS_LEAP md /\
  c_INDEXED_DAYS_IN_MONTHS (cal_of md) = idx_months md /\
  c_INDEXED_DAYS_IN_MONTHS_LEAP (cal_of md) = idx_months_leap md /\
  c_MONTHS_IN_YEAR (cal_of md) = 12 /\
  c_SECONDS_IN_HOUR (cal_of md) = 3600 /\
  c_SECONDS_IN_DAY (cal_of md) = 86400 /\
  c_ROUGH_DAYS_IN_YEAR (cal_of md) = DAYS_IN_YEAR md.
Proof. exact cal_of_values. Qed.
Print Assumptions C01_code_calendar.

(* ---- (1) the carry logic ---- *)
(* _tick_over_day_of_month: the day-by-day walk over iter_months_days (for/else, break,
   while over the years, return from the inner loop) ends, within the model's bound,
   where the model's month-by-month walk tick_dom ends *)
Theorem C01_code_tick_over_day_of_month : forall md o y m d fuel,
  s_year o = Some y -> s_month_of_year o = Some m -> s_day_of_month o = Some d ->
  1 <= m <= 12 -> (Z.to_nat (Z.abs d / 28 + 2) <= fuel)%nat ->
  py_TimePoint__tick_over_day_of_month fuel (cal_of md) o =
  Ok (let '(y', m', d') := tick_dom md (y, m, d) in set_cal o y' m' d').
Proof. exact gen4_dom. Qed.
Print Assumptions C01_code_tick_over_day_of_month.

(* _tick_over = tick_over md: seconds -> minutes -> hours -> days, weekday / week /
   week-year, ordinal year carry, month walk, month-of-year loops *)
Theorem C01_code_tick_over : forall md fl p p' fuel,
  tp_equiv p' p -> month_ok p -> (Z.to_nat (tick_bound md p) <= fuel)%nat ->
  returns_tp fl (py_TimePoint__tick_over fuel (cal_of md) (rep fl p')) (tick_over md p).
Proof. exact gen4_tick_over. Qed.
Print Assumptions C01_code_tick_over.

(* ---- (2) + / - a Duration ---- *)
Theorem C01_code_copy : forall fuel cal o, py_TimePoint__copy fuel cal o = Ok o.
Proof. exact gen4_copy. Qed.
Print Assumptions C01_code_copy.

Theorem C01_code_add : forall md fl p p' od x fuel q,
  tp_equiv p' p -> dur_denotes od x -> month_ok p -> tp_add md p x = Some q ->
  (Z.to_nat (tp_add_bound md p x) <= fuel)%nat ->
  returns_tp fl (py_TimePoint___add____Duration fuel (cal_of md) (rep fl p') od) q.
Proof. exact gen4_add. Qed.
Print Assumptions C01_code_add.

Theorem C01_code_sub_duration : forall md fl p p' od x fuel q,
  tp_equiv p' p -> dur_denotes od x -> month_ok p -> tp_sub_dur md p x = Some q ->
  (Z.to_nat (tp_add_bound md p (dur_mul x (-1))) <= fuel)%nat ->
  returns_tp fl (py_TimePoint___sub____Duration fuel (cal_of md) (rep fl p') od) q.
Proof. exact gen4_sub_dur. Qed.
Print Assumptions C01_code_sub_duration.

(* the C01 law itself, of the translated __add__: an exact duration moves the instant by its length *)
Theorem C01_code_add_instant : forall md fl p d od fuel,
  valid_tp md p = true -> is_exact d = true -> dur_denotes od d ->
  (Z.to_nat (tp_add_bound md p d) <= fuel)%nat ->
  exists q, py_TimePoint___add____Duration fuel (cal_of md) (rep fl p) od = Ok (rep fl q) /\
            (instant md q == instant md p + dur_len d)%Q /\
            rep_kind (tdate q) = rep_kind (tdate p) /\ tod_kind (ttod q) = tod_kind (ttod p) /\
            tzone q = tzone p.
Proof. exact gen4_add_instant. Qed.
Print Assumptions C01_code_add_instant.

(* ---- (4) months, conversions (model None <-> the code raises ValueError) ---- *)
Theorem C01_code_add_months : forall md fl p p' n fuel q,
  tp_equiv p' p -> month_ok p -> add_months md p n = Some q ->
  (Z.to_nat (add_months_bound md p n) <= fuel)%nat ->
  returns_tp fl (py_TimePoint_add_months fuel (cal_of md) (rep fl p') n) q.
Proof. exact gen4_add_months. Qed.
Print Assumptions C01_code_add_months.

Theorem C01_code_get_calendar_date : forall md fl p fuel,
  py_TimePoint_get_calendar_date fuel (cal_of md) (rep fl p) =
  match get_calendar_date md (tdate p) with Some r => Ok (opt3 r) | None => Raise ValueError end.
Proof. exact gen4_get_calendar_date. Qed.
Print Assumptions C01_code_get_calendar_date.

Theorem C01_code_get_ordinal_date : forall md fl p fuel,
  py_TimePoint_get_ordinal_date fuel (cal_of md) (rep fl p) =
  match get_ordinal_date md (tdate p) with Some r => Ok (opt2 r) | None => Raise ValueError end.
Proof. exact gen4_get_ordinal_date. Qed.
Print Assumptions C01_code_get_ordinal_date.

Theorem C01_code_get_week_date : forall md fl p fuel,
  py_TimePoint_get_week_date fuel (cal_of md) (rep fl p) =
  match get_week_date md (tdate p) with Some r => Ok (opt3 r) | None => Raise ValueError end.
Proof. exact gen4_get_week_date. Qed.
Print Assumptions C01_code_get_week_date.

Theorem C01_code_to_calendar_date : forall md fl p fuel,
  py_TimePoint_to_calendar_date fuel (cal_of md) (rep fl p) =
  match to_calendar_date md (tdate p) with Some d => Ok (rep fl (with_date p d)) | None => Raise ValueError end.
Proof. exact gen4_to_calendar_date. Qed.
Print Assumptions C01_code_to_calendar_date.

Theorem C01_code_to_ordinal_date : forall md fl p fuel,
  py_TimePoint_to_ordinal_date fuel (cal_of md) (rep fl p) =
  match to_ordinal_date md (tdate p) with Some d => Ok (rep fl (with_date p d)) | None => Raise ValueError end.
Proof. exact gen4_to_ordinal_date. Qed.
Print Assumptions C01_code_to_ordinal_date.

Theorem C01_code_to_week_date : forall md fl p fuel,
  py_TimePoint_to_week_date fuel (cal_of md) (rep fl p) =
  match to_week_date md (tdate p) with Some d => Ok (rep fl (with_date p d)) | None => Raise ValueError end.
Proof. exact gen4_to_week_date. Qed.
Print Assumptions C01_code_to_week_date.

(* ---- (3) zones, _normalised, hash key, comparison, difference ---- *)
Theorem C01_code_to_time_zone : forall md fl p p' z fuel q,
  tp_equiv p' p -> month_ok p -> to_time_zone md p z = Some q ->
  (Z.to_nat (tp_add_bound md p (zone_diff z (tzone p))) <= fuel)%nat ->
  returns_tp fl (py_TimePoint_to_time_zone fuel (cal_of md) (rep fl p') (rep_zone z)) q.
Proof. exact gen4_to_time_zone. Qed.
Print Assumptions C01_code_to_time_zone.

Theorem C01_code_to_utc : forall md fl p p' fuel q,
  tp_equiv p' p -> month_ok p -> to_utc md p = Some q ->
  (Z.to_nat (tp_add_bound md p (zone_diff zone_utc (tzone p))) <= fuel)%nat ->
  returns_tp fl (py_TimePoint_to_utc fuel (cal_of md) (rep fl p')) q.
Proof. exact gen4_to_utc. Qed.
Print Assumptions C01_code_to_utc.

Theorem C01_code_normalised : forall md fl p p' fuel,
  tp_equiv p' p -> month_ok p ->
  (Z.to_nat (if qeqb (tod_hour (ttod p)) 24 then tick_bound md p else 0) <= fuel)%nat ->
  returns_tp fl (py_TimePoint__normalised fuel (cal_of md) (rep fl p')) (normalised md p).
Proof. exact gen4_normalised. Qed.
Print Assumptions C01_code_normalised.

Theorem C01_code_get_hour_minute_second : forall md fl p p' fuel,
  tp_equiv p' p ->
  exists h m s, py_TimePoint_get_hour_minute_second fuel (cal_of md) (rep fl p') = Ok (Some h, Some m, Some s) /\
    let '(h0, m0, s0) := get_hour_minute_second (ttod p) in (h == h0 /\ m == m0 /\ s == s0)%Q.
Proof. exact gen4_get_hms. Qed.
Print Assumptions C01_code_get_hour_minute_second.

Theorem C01_code_get_second_of_day : forall md fl p p' fuel,
  tp_equiv p' p ->
  exists s, py_TimePoint_get_second_of_day fuel (cal_of md) (rep fl p') = Ok s /\
    (s == get_second_of_day (ttod p))%Q.
Proof. exact gen4_second_of_day. Qed.
Print Assumptions C01_code_get_second_of_day.

(* the tuple handed to hash() *)
Theorem C01_code_hash_key : forall md fl p p' fuel k,
  tp_equiv p' p -> month_ok p -> tp_hash_key md p = Some k ->
  (Z.to_nat (hash_bound md p) <= fuel)%nat ->
  exists y m d h mi s,
    py_TimePoint___hash__ fuel (cal_of md) (rep fl p') = Ok (Some y, Some m, Some d, Some h, Some mi, Some s) /\
    let '(y0, m0, d0, (h0, mi0, s0)) := k in
    y = y0 /\ m = m0 /\ d = d0 /\ (h == h0 /\ mi == mi0 /\ s == s0)%Q.
Proof. exact gen4_hash_key. Qed.
Print Assumptions C01_code_hash_key.

(* _cmp for "eq" "lt" "le" "gt" "ge" (cmp_op 0..4); CmpOkZ: both zones inside TimeZone's bounds,
   and the same presentation flags on both sides or points whose model properties differ *)
Theorem C01_code_cmp_lt : forall md fl1 fl2 a a' b b' fuel c,
  tp_equiv a' a -> tp_equiv b' b -> month_ok a -> month_ok b ->
  valid_zone (tzone a) = true -> valid_zone (tzone b) = true ->
  (fl1 = fl2 \/ tp_props_eqb a b = false) ->
  tp_cmp md a b = Some c ->
  (Z.to_nat (cmp_bound md a b) <= fuel)%nat ->
  py_TimePoint__cmp__lt fuel (cal_of md) (rep fl1 a') (rep fl2 b') = Ok (cmp_op 1 c).
Proof. exact gen4_cmp_lt. Qed.
Print Assumptions C01_code_cmp_lt.

Theorem C01_code_cmp : CmpOkZ 0 py_TimePoint__cmp__eq /\ CmpOkZ 2 py_TimePoint__cmp__le /\
  CmpOkZ 3 py_TimePoint__cmp__gt /\ CmpOkZ 4 py_TimePoint__cmp__ge.
Proof. exact (conj gen4_cmp_eq (conj gen4_cmp_le (conj gen4_cmp_gt gen4_cmp_ge))). Qed.
Print Assumptions C01_code_cmp.

(* without valid zones the statement is false: +01:00 and +00:60 are equal as Durations (the
   code's get_props comparison), different for the model *)
Theorem C01_code_cmp_needs_valid_zones : ~ CmpOk 1 py_TimePoint__cmp__lt.
Proof. exact gen4_cmp_refuted_without_valid_zones. Qed.
Print Assumptions C01_code_cmp_needs_valid_zones.

Theorem C01_code_sub_timepoint : forall md fl1 fl2 a a' b b' fuel d,
  tp_equiv a' a -> tp_equiv b' b -> valid_tp md a = true -> valid_tp md b = true ->
  (fl1 = fl2 \/ tp_props_eqb a b = false) ->
  tp_sub md a b = Some d ->
  (Z.to_nat (Z.max (cmp_bound md a b) (cmp_bound md b a)) + 2 <= fuel)%nat ->
  exists od, py_TimePoint___sub____TimePoint fuel (cal_of md) (rep fl1 a') (rep fl2 b') = Ok od /\
             dur_denotes od d.
Proof. exact gen4_sub_tp. Qed.
Print Assumptions C01_code_sub_timepoint.

(* the generated definitions evaluated on concrete states (closed vm_compute); every expected
   value was produced by the real package (/venv/bin/python, PYTHONPATH=/repo): 60 checks in
   modes gregorian and 360day (all three date forms, the HMS / HM / H time forms, carries
   out of range in every unit, leap day / week 53 / year end crossings, zones, 24:00), and the
   fuel: 100 iterations do not finish an 80000-day ordinal borrow, 300 do *)
Example C01_code_ex :
  let fuel := 60%nat in
  tp_is (py_TimePoint__tick_over fuel (cal_of G) (mkTimePoint 0 (Some 2001) (Some 3) None (Some (-400)) None None (Some (Qmake 25 1)) (Some (Qmake 61 1)) (Some (Qmake 7 2)) false None None None (mkTimeZone 0 0 false))) (mkTimePoint 0 (Some 2000) (Some 1) None (Some 26) None None (Some (Qmake 2 1)) (Some (Qmake 1 1)) (Some (Qmake 7 2)) false None None None (mkTimeZone 0 0 false)) = true /\
  tp_is (py_TimePoint__tick_over fuel (cal_of G) (mkTimePoint 0 (Some 2000) None (Some (-800)) None None None (Some (Qmake (-49) 2)) None None false None None None (mkTimeZone 0 0 false))) (mkTimePoint 0 (Some 1997) None (Some 293) None None None (Some (Qmake 47 2)) None None false None None None (mkTimeZone 0 0 false)) = true /\
  tp_is (py_TimePoint__tick_over fuel (cal_of G) (mkTimePoint 0 (Some 2004) None None None (Some 30) (Some 60) (Some (Qmake 23 1)) (Some (Qmake 4001 4)) None false None None None (mkTimeZone 0 0 false))) (mkTimePoint 0 (Some 2005) None None None (Some 3) (Some 11) (Some (Qmake 15 1)) (Some (Qmake 161 4)) None false None None None (mkTimeZone 0 0 false)) = true /\
  tp_is (py_TimePoint__tick_over_day_of_month fuel (cal_of G) (mkTimePoint 0 (Some 2024) (Some 2) None (Some 800) None None (Some (Qmake 0 1)) (Some (Qmake 0 1)) (Some (Qmake 0 1)) false None None None (mkTimeZone 0 0 false))) (mkTimePoint 0 (Some 2026) (Some 4) None (Some 10) None None (Some (Qmake 0 1)) (Some (Qmake 0 1)) (Some (Qmake 0 1)) false None None None (mkTimeZone 0 0 false)) = true /\
  tp_is (py_TimePoint__tick_over_day_of_month fuel (cal_of G) (mkTimePoint 0 (Some 2024) (Some 3) None (Some (-366)) None None (Some (Qmake 0 1)) (Some (Qmake 0 1)) (Some (Qmake 0 1)) false None None None (mkTimeZone 0 0 false))) (mkTimePoint 0 (Some 2023) (Some 2) None (Some 28) None None (Some (Qmake 0 1)) (Some (Qmake 0 1)) (Some (Qmake 0 1)) false None None None (mkTimeZone 0 0 false)) = true /\
  tp_is (py_TimePoint___add____Duration fuel (cal_of G) (mkTimePoint 0 (Some 2000) (Some 1) None (Some 30) None None (Some (Qmake 23 1)) (Some (Qmake 59 1)) (Some (Qmake 59 1)) false None None None (mkTimeZone 5 30 false)) (GenCode3.mkDuration (Some 1) (Some 1) None (Some 1) (Some (Qmake 1 1)) (Some (Qmake 1 1)) (Some (Qmake 3 2)))) (mkTimePoint 0 (Some 2001) (Some 3) None (Some 1) None None (Some (Qmake 1 1)) (Some (Qmake 1 1)) (Some (Qmake 1 2)) false None None None (mkTimeZone 5 30 false)) = true /\
  tp_is (py_TimePoint___sub____Duration fuel (cal_of G) (mkTimePoint 0 (Some 2000) (Some 1) None (Some 30) None None (Some (Qmake 23 1)) (Some (Qmake 59 1)) (Some (Qmake 59 1)) false None None None (mkTimeZone 5 30 false)) (GenCode3.mkDuration (Some 1) (Some 1) None (Some 1) (Some (Qmake 1 1)) (Some (Qmake 1 1)) (Some (Qmake 3 2)))) (mkTimePoint 0 (Some 1998) (Some 12) None (Some 29) None None (Some (Qmake 22 1)) (Some (Qmake 58 1)) (Some (Qmake 115 2)) false None None None (mkTimeZone 5 30 false)) = true /\
  tp_is (py_TimePoint___add____Duration fuel (cal_of G) (mkTimePoint 0 (Some 2000) (Some 1) None (Some 30) None None (Some (Qmake 23 1)) (Some (Qmake 59 1)) (Some (Qmake 59 1)) false None None None (mkTimeZone 5 30 false)) (GenCode3.mkDuration None None (Some (-5)) None None None None)) (mkTimePoint 0 (Some 1999) (Some 12) None (Some 26) None None (Some (Qmake 23 1)) (Some (Qmake 59 1)) (Some (Qmake 59 1)) false None None None (mkTimeZone 5 30 false)) = true /\
  tp_is (py_TimePoint___add____Duration fuel (cal_of G) (mkTimePoint 0 (Some 2024) None (Some 360) None None None (Some (Qmake 25 2)) None None false None None None (mkTimeZone 0 0 false)) (GenCode3.mkDuration (Some 1) (Some 0) None (Some 0) (Some (Qmake 0 1)) (Some (Qmake 0 1)) (Some (Qmake (-45000) 1)))) (mkTimePoint 0 (Some 2025) None (Some 360) None None None (Some (Qmake 0 1)) None None false None None None (mkTimeZone 0 0 false)) = true /\
  tp_is (py_TimePoint___add____Duration fuel (cal_of G) (mkTimePoint 0 (Some 2020) None None None (Some 7) (Some 51) (Some (Qmake 8 1)) (Some (Qmake 30 1)) (Some (Qmake 0 1)) false None None None (mkTimeZone 0 0 false)) (GenCode3.mkDuration (Some 1) (Some (-13)) None (Some 10) (Some (Qmake 0 1)) (Some (Qmake 0 1)) (Some (Qmake 0 1)))) (mkTimePoint 0 (Some 2020) None None None (Some 5) (Some 48) (Some (Qmake 8 1)) (Some (Qmake 30 1)) (Some (Qmake 0 1)) false None None None (mkTimeZone 0 0 false)) = true /\
  tp_is (py_TimePoint_add_months fuel (cal_of G) (mkTimePoint 0 (Some 2000) (Some 1) None (Some 30) None None (Some (Qmake 23 1)) (Some (Qmake 59 1)) (Some (Qmake 59 1)) false None None None (mkTimeZone 5 30 false)) (-11)) (mkTimePoint 0 (Some 1999) (Some 2) None (Some 28) None None (Some (Qmake 23 1)) (Some (Qmake 59 1)) (Some (Qmake 59 1)) false None None None (mkTimeZone 5 30 false)) = true /\
  tp_is (py_TimePoint_to_week_date fuel (cal_of G) (mkTimePoint 0 (Some 2000) (Some 1) None (Some 30) None None (Some (Qmake 23 1)) (Some (Qmake 59 1)) (Some (Qmake 59 1)) false None None None (mkTimeZone 5 30 false))) (mkTimePoint 0 (Some 2000) None None None (Some 7) (Some 4) (Some (Qmake 23 1)) (Some (Qmake 59 1)) (Some (Qmake 59 1)) false None None None (mkTimeZone 5 30 false)) = true /\
  tp_is (py_TimePoint_to_ordinal_date fuel (cal_of G) (mkTimePoint 0 (Some 2020) None None None (Some 7) (Some 51) (Some (Qmake 8 1)) (Some (Qmake 30 1)) (Some (Qmake 0 1)) false None None None (mkTimeZone 0 0 false))) (mkTimePoint 0 (Some 2020) None (Some 355) None None None (Some (Qmake 8 1)) (Some (Qmake 30 1)) (Some (Qmake 0 1)) false None None None (mkTimeZone 0 0 false)) = true /\
  zs_is (py_TimePoint_get_calendar_date fuel (cal_of G) (mkTimePoint 0 (Some 2024) None (Some 360) None None None (Some (Qmake 25 2)) None None false None None None (mkTimeZone 0 0 false))) [2024; 12; 25] = true /\
  tp_is (py_TimePoint_to_time_zone fuel (cal_of G) (mkTimePoint 0 (Some 2000) (Some 1) None (Some 30) None None (Some (Qmake 23 1)) (Some (Qmake 59 1)) (Some (Qmake 59 1)) false None None None (mkTimeZone 5 30 false)) (mkTimeZone (-11) (-30) false)) (mkTimePoint 0 (Some 2000) (Some 1) None (Some 30) None None (Some (Qmake 6 1)) (Some (Qmake 59 1)) (Some (Qmake 59 1)) false None None None (mkTimeZone (-11) (-30) false)) = true /\
  tp_is (py_TimePoint_to_utc fuel (cal_of G) (mkTimePoint 0 (Some 2000) (Some 1) None (Some 30) None None (Some (Qmake 23 1)) (Some (Qmake 59 1)) (Some (Qmake 59 1)) false None None None (mkTimeZone 5 30 false))) (mkTimePoint 0 (Some 2000) (Some 1) None (Some 30) None None (Some (Qmake 18 1)) (Some (Qmake 29 1)) (Some (Qmake 59 1)) false None None None (mkTimeZone 0 0 false)) = true /\
  tp_is (py_TimePoint__normalised fuel (cal_of G) (mkTimePoint 0 (Some 1999) (Some 12) None (Some 30) None None (Some (Qmake 24 1)) (Some (Qmake 0 1)) (Some (Qmake 0 1)) false None None None (mkTimeZone 0 0 false))) (mkTimePoint 0 (Some 1999) (Some 12) None (Some 31) None None (Some (Qmake 0 1)) (Some (Qmake 0 1)) (Some (Qmake 0 1)) false None None None (mkTimeZone 0 0 false)) = true /\
  hash_is (py_TimePoint___hash__ fuel (cal_of G) (mkTimePoint 0 (Some 1999) (Some 12) None (Some 30) None None (Some (Qmake 24 1)) (Some (Qmake 0 1)) (Some (Qmake 0 1)) false None None None (mkTimeZone 0 0 false))) [1999; 12; 31] [(Qmake 0 1); (Qmake 0 1); (Qmake 0 1)] = true /\
  b_is (py_TimePoint__cmp__eq fuel (cal_of G) (mkTimePoint 0 (Some 1999) (Some 12) None (Some 30) None None (Some (Qmake 24 1)) (Some (Qmake 0 1)) (Some (Qmake 0 1)) false None None None (mkTimeZone 0 0 false)) (mkTimePoint 0 (Some 2000) None (Some 1) None None None (Some (Qmake 0 1)) (Some (Qmake 0 1)) (Some (Qmake 0 1)) false None None None (mkTimeZone 0 0 false))) false = true /\
  b_is (py_TimePoint__cmp__eq fuel (cal_of G) (mkTimePoint 0 (Some 2000) (Some 1) None (Some 30) None None (Some (Qmake 23 1)) (Some (Qmake 59 1)) (Some (Qmake 59 1)) false None None None (mkTimeZone 5 30 false)) (mkTimePoint 0 (Some 2000) None (Some 1) None None None (Some (Qmake 0 1)) (Some (Qmake 0 1)) (Some (Qmake 0 1)) false None None None (mkTimeZone 0 0 false))) false = true /\
  b_is (py_TimePoint__cmp__lt fuel (cal_of G) (mkTimePoint 0 (Some 1999) (Some 12) None (Some 30) None None (Some (Qmake 24 1)) (Some (Qmake 0 1)) (Some (Qmake 0 1)) false None None None (mkTimeZone 0 0 false)) (mkTimePoint 0 (Some 2000) None (Some 1) None None None (Some (Qmake 0 1)) (Some (Qmake 0 1)) (Some (Qmake 0 1)) false None None None (mkTimeZone 0 0 false))) true = true /\
  b_is (py_TimePoint__cmp__lt fuel (cal_of G) (mkTimePoint 0 (Some 2000) (Some 1) None (Some 30) None None (Some (Qmake 23 1)) (Some (Qmake 59 1)) (Some (Qmake 59 1)) false None None None (mkTimeZone 5 30 false)) (mkTimePoint 0 (Some 2000) None (Some 1) None None None (Some (Qmake 0 1)) (Some (Qmake 0 1)) (Some (Qmake 0 1)) false None None None (mkTimeZone 0 0 false))) false = true /\
  b_is (py_TimePoint__cmp__le fuel (cal_of G) (mkTimePoint 0 (Some 1999) (Some 12) None (Some 30) None None (Some (Qmake 24 1)) (Some (Qmake 0 1)) (Some (Qmake 0 1)) false None None None (mkTimeZone 0 0 false)) (mkTimePoint 0 (Some 2000) None (Some 1) None None None (Some (Qmake 0 1)) (Some (Qmake 0 1)) (Some (Qmake 0 1)) false None None None (mkTimeZone 0 0 false))) true = true /\
  b_is (py_TimePoint__cmp__le fuel (cal_of G) (mkTimePoint 0 (Some 2000) (Some 1) None (Some 30) None None (Some (Qmake 23 1)) (Some (Qmake 59 1)) (Some (Qmake 59 1)) false None None None (mkTimeZone 5 30 false)) (mkTimePoint 0 (Some 2000) None (Some 1) None None None (Some (Qmake 0 1)) (Some (Qmake 0 1)) (Some (Qmake 0 1)) false None None None (mkTimeZone 0 0 false))) false = true /\
  b_is (py_TimePoint__cmp__gt fuel (cal_of G) (mkTimePoint 0 (Some 1999) (Some 12) None (Some 30) None None (Some (Qmake 24 1)) (Some (Qmake 0 1)) (Some (Qmake 0 1)) false None None None (mkTimeZone 0 0 false)) (mkTimePoint 0 (Some 2000) None (Some 1) None None None (Some (Qmake 0 1)) (Some (Qmake 0 1)) (Some (Qmake 0 1)) false None None None (mkTimeZone 0 0 false))) false = true /\
  b_is (py_TimePoint__cmp__gt fuel (cal_of G) (mkTimePoint 0 (Some 2000) (Some 1) None (Some 30) None None (Some (Qmake 23 1)) (Some (Qmake 59 1)) (Some (Qmake 59 1)) false None None None (mkTimeZone 5 30 false)) (mkTimePoint 0 (Some 2000) None (Some 1) None None None (Some (Qmake 0 1)) (Some (Qmake 0 1)) (Some (Qmake 0 1)) false None None None (mkTimeZone 0 0 false))) true = true /\
  b_is (py_TimePoint__cmp__ge fuel (cal_of G) (mkTimePoint 0 (Some 1999) (Some 12) None (Some 30) None None (Some (Qmake 24 1)) (Some (Qmake 0 1)) (Some (Qmake 0 1)) false None None None (mkTimeZone 0 0 false)) (mkTimePoint 0 (Some 2000) None (Some 1) None None None (Some (Qmake 0 1)) (Some (Qmake 0 1)) (Some (Qmake 0 1)) false None None None (mkTimeZone 0 0 false))) false = true /\
  b_is (py_TimePoint__cmp__ge fuel (cal_of G) (mkTimePoint 0 (Some 2000) (Some 1) None (Some 30) None None (Some (Qmake 23 1)) (Some (Qmake 59 1)) (Some (Qmake 59 1)) false None None None (mkTimeZone 5 30 false)) (mkTimePoint 0 (Some 2000) None (Some 1) None None None (Some (Qmake 0 1)) (Some (Qmake 0 1)) (Some (Qmake 0 1)) false None None None (mkTimeZone 0 0 false))) true = true /\
  dur_is (py_TimePoint___sub____TimePoint fuel (cal_of G) (mkTimePoint 0 (Some 2000) (Some 1) None (Some 30) None None (Some (Qmake 23 1)) (Some (Qmake 59 1)) (Some (Qmake 59 1)) false None None None (mkTimeZone 5 30 false)) (mkTimePoint 0 (Some 2020) None None None (Some 7) (Some 51) (Some (Qmake 8 1)) (Some (Qmake 30 1)) (Some (Qmake 0 1)) false None None None (mkTimeZone 0 0 false))) (GenCode3.mkDuration (Some 0) (Some 0) None (Some (-7629)) (Some (Qmake (-14) 1)) (Some (Qmake 0 1)) (Some (Qmake (-1) 1))) = true /\
  dur_is (py_TimePoint___sub____TimePoint fuel (cal_of G) (mkTimePoint 0 (Some 2020) None None None (Some 7) (Some 51) (Some (Qmake 8 1)) (Some (Qmake 30 1)) (Some (Qmake 0 1)) false None None None (mkTimeZone 0 0 false)) (mkTimePoint 0 (Some 2000) (Some 1) None (Some 30) None None (Some (Qmake 23 1)) (Some (Qmake 59 1)) (Some (Qmake 59 1)) false None None None (mkTimeZone 5 30 false))) (GenCode3.mkDuration (Some 0) (Some 0) None (Some 7629) (Some (Qmake 14 1)) (Some (Qmake 0 1)) (Some (Qmake 1 1))) = true /\
  tp_is (py_TimePoint__tick_over fuel (cal_of D360) (mkTimePoint 0 (Some 2001) (Some 3) None (Some (-400)) None None (Some (Qmake 25 1)) (Some (Qmake 61 1)) (Some (Qmake 7 2)) false None None None (mkTimeZone 0 0 false))) (mkTimePoint 0 (Some 2000) (Some 1) None (Some 21) None None (Some (Qmake 2 1)) (Some (Qmake 1 1)) (Some (Qmake 7 2)) false None None None (mkTimeZone 0 0 false)) = true /\
  tp_is (py_TimePoint__tick_over fuel (cal_of D360) (mkTimePoint 0 (Some 2000) None (Some (-800)) None None None (Some (Qmake (-49) 2)) None None false None None None (mkTimeZone 0 0 false))) (mkTimePoint 0 (Some 1997) None (Some 278) None None None (Some (Qmake 47 2)) None None false None None None (mkTimeZone 0 0 false)) = true /\
  tp_is (py_TimePoint__tick_over fuel (cal_of D360) (mkTimePoint 0 (Some 2004) None None None (Some 30) (Some 60) (Some (Qmake 23 1)) (Some (Qmake 4001 4)) None false None None None (mkTimeZone 0 0 false))) (mkTimePoint 0 (Some 2005) None None None (Some 3) (Some 12) (Some (Qmake 15 1)) (Some (Qmake 161 4)) None false None None None (mkTimeZone 0 0 false)) = true /\
  tp_is (py_TimePoint__tick_over_day_of_month fuel (cal_of D360) (mkTimePoint 0 (Some 2024) (Some 2) None (Some 800) None None (Some (Qmake 0 1)) (Some (Qmake 0 1)) (Some (Qmake 0 1)) false None None None (mkTimeZone 0 0 false))) (mkTimePoint 0 (Some 2026) (Some 4) None (Some 20) None None (Some (Qmake 0 1)) (Some (Qmake 0 1)) (Some (Qmake 0 1)) false None None None (mkTimeZone 0 0 false)) = true /\
  tp_is (py_TimePoint__tick_over_day_of_month fuel (cal_of D360) (mkTimePoint 0 (Some 2024) (Some 3) None (Some (-366)) None None (Some (Qmake 0 1)) (Some (Qmake 0 1)) (Some (Qmake 0 1)) false None None None (mkTimeZone 0 0 false))) (mkTimePoint 0 (Some 2023) (Some 2) None (Some 24) None None (Some (Qmake 0 1)) (Some (Qmake 0 1)) (Some (Qmake 0 1)) false None None None (mkTimeZone 0 0 false)) = true /\
  tp_is (py_TimePoint___add____Duration fuel (cal_of D360) (mkTimePoint 0 (Some 2000) (Some 1) None (Some 30) None None (Some (Qmake 23 1)) (Some (Qmake 59 1)) (Some (Qmake 59 1)) false None None None (mkTimeZone 5 30 false)) (GenCode3.mkDuration (Some 1) (Some 1) None (Some 1) (Some (Qmake 1 1)) (Some (Qmake 1 1)) (Some (Qmake 3 2)))) (mkTimePoint 0 (Some 2001) (Some 3) None (Some 2) None None (Some (Qmake 1 1)) (Some (Qmake 1 1)) (Some (Qmake 1 2)) false None None None (mkTimeZone 5 30 false)) = true /\
  tp_is (py_TimePoint___sub____Duration fuel (cal_of D360) (mkTimePoint 0 (Some 2000) (Some 1) None (Some 30) None None (Some (Qmake 23 1)) (Some (Qmake 59 1)) (Some (Qmake 59 1)) false None None None (mkTimeZone 5 30 false)) (GenCode3.mkDuration (Some 1) (Some 1) None (Some 1) (Some (Qmake 1 1)) (Some (Qmake 1 1)) (Some (Qmake 3 2)))) (mkTimePoint 0 (Some 1998) (Some 12) None (Some 29) None None (Some (Qmake 22 1)) (Some (Qmake 58 1)) (Some (Qmake 115 2)) false None None None (mkTimeZone 5 30 false)) = true /\
  tp_is (py_TimePoint___add____Duration fuel (cal_of D360) (mkTimePoint 0 (Some 2000) (Some 1) None (Some 30) None None (Some (Qmake 23 1)) (Some (Qmake 59 1)) (Some (Qmake 59 1)) false None None None (mkTimeZone 5 30 false)) (GenCode3.mkDuration None None (Some (-5)) None None None None)) (mkTimePoint 0 (Some 1999) (Some 12) None (Some 25) None None (Some (Qmake 23 1)) (Some (Qmake 59 1)) (Some (Qmake 59 1)) false None None None (mkTimeZone 5 30 false)) = true /\
  tp_is (py_TimePoint___add____Duration fuel (cal_of D360) (mkTimePoint 0 (Some 2024) None (Some 360) None None None (Some (Qmake 25 2)) None None false None None None (mkTimeZone 0 0 false)) (GenCode3.mkDuration (Some 1) (Some 0) None (Some 0) (Some (Qmake 0 1)) (Some (Qmake 0 1)) (Some (Qmake (-45000) 1)))) (mkTimePoint 0 (Some 2025) None (Some 360) None None None (Some (Qmake 0 1)) None None false None None None (mkTimeZone 0 0 false)) = true /\
  tp_is (py_TimePoint___add____Duration fuel (cal_of D360) (mkTimePoint 0 (Some 2020) None None None (Some 7) (Some 51) (Some (Qmake 8 1)) (Some (Qmake 30 1)) (Some (Qmake 0 1)) false None None None (mkTimeZone 0 0 false)) (GenCode3.mkDuration (Some 1) (Some (-13)) None (Some 10) (Some (Qmake 0 1)) (Some (Qmake 0 1)) (Some (Qmake 0 1)))) (mkTimePoint 0 (Some 2020) None None None (Some 5) (Some 48) (Some (Qmake 8 1)) (Some (Qmake 30 1)) (Some (Qmake 0 1)) false None None None (mkTimeZone 0 0 false)) = true /\
  tp_is (py_TimePoint_add_months fuel (cal_of D360) (mkTimePoint 0 (Some 2000) (Some 1) None (Some 30) None None (Some (Qmake 23 1)) (Some (Qmake 59 1)) (Some (Qmake 59 1)) false None None None (mkTimeZone 5 30 false)) (-11)) (mkTimePoint 0 (Some 1999) (Some 2) None (Some 30) None None (Some (Qmake 23 1)) (Some (Qmake 59 1)) (Some (Qmake 59 1)) false None None None (mkTimeZone 5 30 false)) = true /\
  tp_is (py_TimePoint_to_week_date fuel (cal_of D360) (mkTimePoint 0 (Some 2000) (Some 1) None (Some 30) None None (Some (Qmake 23 1)) (Some (Qmake 59 1)) (Some (Qmake 59 1)) false None None None (mkTimeZone 5 30 false))) (mkTimePoint 0 (Some 2000) None None None (Some 7) (Some 4) (Some (Qmake 23 1)) (Some (Qmake 59 1)) (Some (Qmake 59 1)) false None None None (mkTimeZone 5 30 false)) = true /\
  tp_is (py_TimePoint_to_ordinal_date fuel (cal_of D360) (mkTimePoint 0 (Some 2020) None None None (Some 7) (Some 51) (Some (Qmake 8 1)) (Some (Qmake 30 1)) (Some (Qmake 0 1)) false None None None (mkTimeZone 0 0 false))) (mkTimePoint 0 (Some 2020) None (Some 355) None None None (Some (Qmake 8 1)) (Some (Qmake 30 1)) (Some (Qmake 0 1)) false None None None (mkTimeZone 0 0 false)) = true /\
  zs_is (py_TimePoint_get_calendar_date fuel (cal_of D360) (mkTimePoint 0 (Some 2024) None (Some 360) None None None (Some (Qmake 25 2)) None None false None None None (mkTimeZone 0 0 false))) [2024; 12; 30] = true /\
  tp_is (py_TimePoint_to_time_zone fuel (cal_of D360) (mkTimePoint 0 (Some 2000) (Some 1) None (Some 30) None None (Some (Qmake 23 1)) (Some (Qmake 59 1)) (Some (Qmake 59 1)) false None None None (mkTimeZone 5 30 false)) (mkTimeZone (-11) (-30) false)) (mkTimePoint 0 (Some 2000) (Some 1) None (Some 30) None None (Some (Qmake 6 1)) (Some (Qmake 59 1)) (Some (Qmake 59 1)) false None None None (mkTimeZone (-11) (-30) false)) = true /\
  tp_is (py_TimePoint_to_utc fuel (cal_of D360) (mkTimePoint 0 (Some 2000) (Some 1) None (Some 30) None None (Some (Qmake 23 1)) (Some (Qmake 59 1)) (Some (Qmake 59 1)) false None None None (mkTimeZone 5 30 false))) (mkTimePoint 0 (Some 2000) (Some 1) None (Some 30) None None (Some (Qmake 18 1)) (Some (Qmake 29 1)) (Some (Qmake 59 1)) false None None None (mkTimeZone 0 0 false)) = true /\
  tp_is (py_TimePoint__normalised fuel (cal_of D360) (mkTimePoint 0 (Some 1999) (Some 12) None (Some 30) None None (Some (Qmake 24 1)) (Some (Qmake 0 1)) (Some (Qmake 0 1)) false None None None (mkTimeZone 0 0 false))) (mkTimePoint 0 (Some 2000) (Some 1) None (Some 1) None None (Some (Qmake 0 1)) (Some (Qmake 0 1)) (Some (Qmake 0 1)) false None None None (mkTimeZone 0 0 false)) = true /\
  hash_is (py_TimePoint___hash__ fuel (cal_of D360) (mkTimePoint 0 (Some 1999) (Some 12) None (Some 30) None None (Some (Qmake 24 1)) (Some (Qmake 0 1)) (Some (Qmake 0 1)) false None None None (mkTimeZone 0 0 false))) [2000; 1; 1] [(Qmake 0 1); (Qmake 0 1); (Qmake 0 1)] = true /\
  b_is (py_TimePoint__cmp__eq fuel (cal_of D360) (mkTimePoint 0 (Some 1999) (Some 12) None (Some 30) None None (Some (Qmake 24 1)) (Some (Qmake 0 1)) (Some (Qmake 0 1)) false None None None (mkTimeZone 0 0 false)) (mkTimePoint 0 (Some 2000) None (Some 1) None None None (Some (Qmake 0 1)) (Some (Qmake 0 1)) (Some (Qmake 0 1)) false None None None (mkTimeZone 0 0 false))) true = true /\
  b_is (py_TimePoint__cmp__eq fuel (cal_of D360) (mkTimePoint 0 (Some 2000) (Some 1) None (Some 30) None None (Some (Qmake 23 1)) (Some (Qmake 59 1)) (Some (Qmake 59 1)) false None None None (mkTimeZone 5 30 false)) (mkTimePoint 0 (Some 2000) None (Some 1) None None None (Some (Qmake 0 1)) (Some (Qmake 0 1)) (Some (Qmake 0 1)) false None None None (mkTimeZone 0 0 false))) false = true /\
  b_is (py_TimePoint__cmp__lt fuel (cal_of D360) (mkTimePoint 0 (Some 1999) (Some 12) None (Some 30) None None (Some (Qmake 24 1)) (Some (Qmake 0 1)) (Some (Qmake 0 1)) false None None None (mkTimeZone 0 0 false)) (mkTimePoint 0 (Some 2000) None (Some 1) None None None (Some (Qmake 0 1)) (Some (Qmake 0 1)) (Some (Qmake 0 1)) false None None None (mkTimeZone 0 0 false))) false = true /\
  b_is (py_TimePoint__cmp__lt fuel (cal_of D360) (mkTimePoint 0 (Some 2000) (Some 1) None (Some 30) None None (Some (Qmake 23 1)) (Some (Qmake 59 1)) (Some (Qmake 59 1)) false None None None (mkTimeZone 5 30 false)) (mkTimePoint 0 (Some 2000) None (Some 1) None None None (Some (Qmake 0 1)) (Some (Qmake 0 1)) (Some (Qmake 0 1)) false None None None (mkTimeZone 0 0 false))) false = true /\
  b_is (py_TimePoint__cmp__le fuel (cal_of D360) (mkTimePoint 0 (Some 1999) (Some 12) None (Some 30) None None (Some (Qmake 24 1)) (Some (Qmake 0 1)) (Some (Qmake 0 1)) false None None None (mkTimeZone 0 0 false)) (mkTimePoint 0 (Some 2000) None (Some 1) None None None (Some (Qmake 0 1)) (Some (Qmake 0 1)) (Some (Qmake 0 1)) false None None None (mkTimeZone 0 0 false))) true = true /\
  b_is (py_TimePoint__cmp__le fuel (cal_of D360) (mkTimePoint 0 (Some 2000) (Some 1) None (Some 30) None None (Some (Qmake 23 1)) (Some (Qmake 59 1)) (Some (Qmake 59 1)) false None None None (mkTimeZone 5 30 false)) (mkTimePoint 0 (Some 2000) None (Some 1) None None None (Some (Qmake 0 1)) (Some (Qmake 0 1)) (Some (Qmake 0 1)) false None None None (mkTimeZone 0 0 false))) false = true /\
  b_is (py_TimePoint__cmp__gt fuel (cal_of D360) (mkTimePoint 0 (Some 1999) (Some 12) None (Some 30) None None (Some (Qmake 24 1)) (Some (Qmake 0 1)) (Some (Qmake 0 1)) false None None None (mkTimeZone 0 0 false)) (mkTimePoint 0 (Some 2000) None (Some 1) None None None (Some (Qmake 0 1)) (Some (Qmake 0 1)) (Some (Qmake 0 1)) false None None None (mkTimeZone 0 0 false))) false = true /\
  b_is (py_TimePoint__cmp__gt fuel (cal_of D360) (mkTimePoint 0 (Some 2000) (Some 1) None (Some 30) None None (Some (Qmake 23 1)) (Some (Qmake 59 1)) (Some (Qmake 59 1)) false None None None (mkTimeZone 5 30 false)) (mkTimePoint 0 (Some 2000) None (Some 1) None None None (Some (Qmake 0 1)) (Some (Qmake 0 1)) (Some (Qmake 0 1)) false None None None (mkTimeZone 0 0 false))) true = true /\
  b_is (py_TimePoint__cmp__ge fuel (cal_of D360) (mkTimePoint 0 (Some 1999) (Some 12) None (Some 30) None None (Some (Qmake 24 1)) (Some (Qmake 0 1)) (Some (Qmake 0 1)) false None None None (mkTimeZone 0 0 false)) (mkTimePoint 0 (Some 2000) None (Some 1) None None None (Some (Qmake 0 1)) (Some (Qmake 0 1)) (Some (Qmake 0 1)) false None None None (mkTimeZone 0 0 false))) true = true /\
  b_is (py_TimePoint__cmp__ge fuel (cal_of D360) (mkTimePoint 0 (Some 2000) (Some 1) None (Some 30) None None (Some (Qmake 23 1)) (Some (Qmake 59 1)) (Some (Qmake 59 1)) false None None None (mkTimeZone 5 30 false)) (mkTimePoint 0 (Some 2000) None (Some 1) None None None (Some (Qmake 0 1)) (Some (Qmake 0 1)) (Some (Qmake 0 1)) false None None None (mkTimeZone 0 0 false))) true = true /\
  dur_is (py_TimePoint___sub____TimePoint fuel (cal_of D360) (mkTimePoint 0 (Some 2000) (Some 1) None (Some 30) None None (Some (Qmake 23 1)) (Some (Qmake 59 1)) (Some (Qmake 59 1)) false None None None (mkTimeZone 5 30 false)) (mkTimePoint 0 (Some 2020) None None None (Some 7) (Some 51) (Some (Qmake 8 1)) (Some (Qmake 30 1)) (Some (Qmake 0 1)) false None None None (mkTimeZone 0 0 false))) (GenCode3.mkDuration (Some 0) (Some 0) None (Some (-7524)) (Some (Qmake (-14) 1)) (Some (Qmake 0 1)) (Some (Qmake (-1) 1))) = true /\
  dur_is (py_TimePoint___sub____TimePoint fuel (cal_of D360) (mkTimePoint 0 (Some 2020) None None None (Some 7) (Some 51) (Some (Qmake 8 1)) (Some (Qmake 30 1)) (Some (Qmake 0 1)) false None None None (mkTimeZone 0 0 false)) (mkTimePoint 0 (Some 2000) (Some 1) None (Some 30) None None (Some (Qmake 23 1)) (Some (Qmake 59 1)) (Some (Qmake 59 1)) false None None None (mkTimeZone 5 30 false))) (GenCode3.mkDuration (Some 0) (Some 0) None (Some 7524) (Some (Qmake 14 1)) (Some (Qmake 0 1)) (Some (Qmake 1 1))) = true /\
  out_of_fuel (py_TimePoint__tick_over 100 (cal_of G) (mkTimePoint 0 (Some 2001) None (Some (-80000)) None None None (Some (Qmake 1 1)) (Some (Qmake 0 1)) (Some (Qmake 0 1)) false None None None (mkTimeZone 0 0 false))) = true /\
  tp_is (py_TimePoint__tick_over 300 (cal_of G) (mkTimePoint 0 (Some 2001) None (Some (-80000)) None None None (Some (Qmake 1 1)) (Some (Qmake 0 1)) (Some (Qmake 0 1)) false None None None (mkTimeZone 0 0 false)))
    (mkTimePoint 0 (Some 1781) None (Some 353) None None None (Some (Qmake 1 1)) (Some (Qmake 0 1)) (Some (Qmake 0 1)) false None None None (mkTimeZone 0 0 false)) = true.
Proof. vm_compute. repeat split; reflexivity. Qed.
