(* Props/C14.v -- property C14: recurrences are values: shifting, equality,
   hashing.  Statements only.  (The text round trip is stated with the parser
   model in Props/C14.v's companion section once Model/Parse is in place.) *)
From Coq Require Import QArith List.
From Iso Require Import Proofs.Tac Spec.Cal Spec.Instant Spec.Series Model.Num Model.Duration Model.TimePoint
  Model.Recurrence Proofs.RecSpec Proofs.RecShiftSpec.
Import ListNotations.
Open Scope Z_scope.

Definition opt_instant_shift (md : mode) (a b : option tp) (x : Q) : Prop :=
  match a, b with
  | Some p, Some q => (instant md q == instant md p + x)%Q /\ valid_tp md q = true /\
                      rep_kind (tdate q) = rep_kind (tdate p) /\ tzone q = tzone p
  | None, None => True
  | _, _ => False
  end.

(* the weaker form used for the end anchor: a single-point start/second-point
   recurrence whose two points spell one instant differently keeps only the
   start's spelling when shifted *)
Definition opt_instant_shift_w (md : mode) (a b : option tp) (x : Q) : Prop :=
  match a, b with
  | Some p, Some q => (instant md q == instant md p + x)%Q /\ valid_tp md q = true
  | None, None => True
  | _, _ => False
  end.

(* a recurrence produced by the constructor from valid points, exact interval *)
Definition made (md : mode) (r : recur) : Prop :=
  (r_start r <> None \/ r_end r <> None) /\
  exists reps s d e, rec_make md reps s d e = Ok r /\
    (match s with Some p => valid_tp md p = true | None => True end) /\
    (match e with Some p => valid_tp md p = true | None => True end) /\
    (match d with Some x => is_exact x = true | None => True end).

(* r + x for an exact x: same repetitions and interval, anchors moved by len x *)
Theorem C14_shift : forall md r x, made md r -> is_exact x = true ->
  exists r', rec_add md r x = Ok r' /\
    r_reps r' = r_reps r /\ opt_dur_eqb (r_dur r') (r_dur r) = true /\
    opt_instant_shift md (r_start r) (r_start r') (dur_len x) /\
    opt_instant_shift_w md (r_end r) (r_end r') (dur_len x).
Proof. exact rec_add_spec_w. Qed.
Print Assumptions C14_shift.

(* hence every point of the series moves by exactly len x *)
Theorem C14_shift_points : forall md r x r' k i p, made md r -> is_exact x = true ->
  rec_add md r x = Ok r' -> nth_error (iter_take md r k) i = Some p ->
  exists q, nth_error (iter_take md r' k) i = Some q /\ (instant md q == instant md p + dur_len x)%Q.
Proof. exact rec_add_points. Qed.
Print Assumptions C14_shift_points.

(* (r + x) - x == r *)
Theorem C14_shift_back : forall md r x r1, made md r -> is_exact x = true ->
  rec_add md r x = Ok r1 -> exists r2, rec_sub md r1 x = Ok r2 /\ rec_eqb md r2 r = true.
Proof. exact rec_add_sub. Qed.
Print Assumptions C14_shift_back.

(* equality is component-wise; recurrences differing in one component are unequal *)
Theorem C14_eq : forall md a b,
  rec_eqb md a b = true <->
  (opt_z_eqb (r_reps a) (r_reps b) = true /\ opt_tp_eqb md (r_start a) (r_start b) = true /\
   opt_tp_eqb md (r_end a) (r_end b) = true /\ opt_dur_eqb (r_dur a) (r_dur b) = true).
Proof. exact rec_eqb_spec. Qed.
Print Assumptions C14_eq.

(* equal recurrences with exact intervals iterate the same instants *)
Theorem C14_eq_iter : forall md a b k i p, made md a -> made md b -> rec_eqb md a b = true ->
  nth_error (iter_take md a k) i = Some p ->
  exists q, nth_error (iter_take md b k) i = Some q /\ (instant md q == instant md p)%Q.
Proof. exact rec_eqb_iter. Qed.
Print Assumptions C14_eq_iter.

Example C14_ex :
  match rec_make G (Some 1) None (Some (DU 0 0 1 0 0 0)) (Some (mkTp (Cal 2002 5 4) (HMS 23 0 0) (mkZone 0 0))) with
  | Ok r => match rec_add G r (DU 0 0 1 0 0 0) with Ok r' => iter_take G r' 12 | Err => [] end
  | Err => []
  end = [mkTp (Cal 2002 5 5) (HMS 23 0 0) (mkZone 0 0)].
Proof. vm_compute. reflexivity. Qed.
