(* Props/C11Code.v -- property C11, tied to the SOURCE of class Duration:
   gen/GenCode3.v holds the method bodies that tools/translate_code3.py
   translated from /repo/metomi/isodatetime/data.py on this run (Python ast ->
   Gallina over the object-state record pyDuration, exception monad `exc`);
   every model function that Props/C11.v talks about is proved equal to the
   translated method on every state `rep x`, x : dur.  Statements only.
   Convention: int slots/parameters are Z, the hours/minutes/seconds slots
   exact rationals (DESIGN.md section 3); rational results are compared with
   Qeq (the model reduces fractions, the code does not). *)
From Coq Require Import QArith String.
From Iso Require Import Proofs.Tac Spec.Cal Model.Num Model.Helpers Model.Duration
  gen.CalTables gen.GenCode3 Proofs.TablesOk Proofs.DurSpec Proofs.GenCode3Ok.
Open Scope Z_scope.

Theorem C11_code_translator_ok : gen.GenCode3.translator_ok_code3 = true.
Proof. exact gen_code3_accepted. Qed.
Print Assumptions C11_code_translator_ok.

(* the object states of the theorems are exactly those that denote a `dur` *)
Theorem C11_code_state :
  (forall x, abs3 (rep x) = Some x) /\ (forall o x, abs3 o = Some x -> o = rep x).
Proof. exact (conj abs3_rep rep_abs3). Qed.
Print Assumptions C11_code_state.

(* CALENDAR.SECONDS_IN_HOUR / SECONDS_IN_DAY / ROUGH_DAYS_IN_YEAR as Calendar.set_mode
   computes them (its right-hand sides, translated in gen/CalTables.v) in mode md *)
Theorem C11_code_calendar : forall md,
  cSIH md = 3600 /\ cSID md = 86400 /\ cRDY md = DAYS_IN_YEAR md.
Proof. exact cal_values. Qed.
Print Assumptions C11_code_calendar.

(* ---- observers ---- *)
Theorem C11_code_get_is_in_weeks : forall x,
  py_Duration_get_is_in_weeks (rep x) = Ok (get_is_in_weeks x).
Proof. exact gen3_get_is_in_weeks. Qed.
Print Assumptions C11_code_get_is_in_weeks.

Theorem C11_code_is_exact : forall x, py_Duration_is_exact (rep x) = Ok (is_exact x).
Proof. exact gen3_is_exact. Qed.
Print Assumptions C11_code_is_exact.

Theorem C11_code_get_non_nominal_seconds : forall md x, exists q,
  py_Duration__get_non_nominal_seconds (cSIH md) (cSID md) (rep x) = Ok q /\
  (q == non_nominal_seconds x)%Q.
Proof. exact gen3_non_nominal_seconds. Qed.
Print Assumptions C11_code_get_non_nominal_seconds.

Theorem C11_code_get_days_and_seconds : forall md x, exists d s,
  py_Duration_get_days_and_seconds (cSIH md) (cSID md) (cRDY md) (rep x) = Ok (d, s) /\
  d = fst (days_and_seconds md x) /\ (s == snd (days_and_seconds md x))%Q.
Proof. exact gen3_get_days_and_seconds. Qed.
Print Assumptions C11_code_get_days_and_seconds.

Theorem C11_code_get_seconds : forall md x, exists q,
  py_Duration_get_seconds (cSIH md) (cSID md) (cRDY md) (rep x) = Ok q /\
  (q == get_seconds md x)%Q.
Proof. exact gen3_get_seconds. Qed.
Print Assumptions C11_code_get_seconds.

(* ---- equality, hash key, orderings ---- *)
Theorem C11_code_eq : forall md a b,
  py_Duration___eq__ (cSIH md) (cSID md) (rep a) (rep b) = Ok (dur_eqb a b).
Proof. exact gen3_eq. Qed.
Print Assumptions C11_code_eq.

Theorem C11_code_hash_key : forall md x, exists y m q,
  py_Duration___hash__ (cSIH md) (cSID md) (rep x) = Ok (y, m, q) /\
  y = Some (fst (fst (dur_hash_key x))) /\ m = Some (snd (fst (dur_hash_key x))) /\
  (q == snd (dur_hash_key x))%Q.
Proof. exact gen3_hash_key. Qed.
Print Assumptions C11_code_hash_key.

Theorem C11_code_lt : forall md a b,
  py_Duration___lt__ (cSIH md) (cSID md) (cRDY md) (rep a) (rep b) = Ok (dur_ltb md a b).
Proof. exact gen3_lt. Qed.
Print Assumptions C11_code_lt.

Theorem C11_code_le : forall md a b,
  py_Duration___le__ (cSIH md) (cSID md) (cRDY md) (rep a) (rep b) = Ok (dur_leb md a b).
Proof. exact gen3_le. Qed.
Print Assumptions C11_code_le.

Theorem C11_code_gt : forall md a b,
  py_Duration___gt__ (cSIH md) (cSID md) (cRDY md) (rep a) (rep b) = Ok (dur_gtb md a b).
Proof. exact gen3_gt. Qed.
Print Assumptions C11_code_gt.

Theorem C11_code_ge : forall md a b,
  py_Duration___ge__ (cSIH md) (cSID md) (cRDY md) (rep a) (rep b) = Ok (dur_geb md a b).
Proof. exact gen3_ge. Qed.
Print Assumptions C11_code_ge.

(* ---- arithmetic: copy-then-update methods return an object denoting the model's result ---- *)
Theorem C11_code_copy : forall o, py_Duration__copy o = Ok o.
Proof. exact gen3_copy. Qed.
Print Assumptions C11_code_copy.

Theorem C11_code_to_days : forall x, py_Duration_to_days (rep x) = Ok (rep (to_days x)).
Proof. exact gen3_to_days. Qed.
Print Assumptions C11_code_to_days.

Theorem C11_code_mul : forall x n, returns_dur (py_Duration___mul__ (rep x) n) (dur_mul x n).
Proof. exact gen3_mul. Qed.
Print Assumptions C11_code_mul.

Theorem C11_code_rmul : forall x n, returns_dur (py_Duration___rmul__ (rep x) n) (dur_mul x n).
Proof. exact gen3_rmul. Qed.
Print Assumptions C11_code_rmul.

Theorem C11_code_add : forall a b, returns_dur (py_Duration___add__ (rep a) (rep b)) (dur_add a b).
Proof. exact gen3_add. Qed.
Print Assumptions C11_code_add.

Theorem C11_code_sub : forall a b, returns_dur (py_Duration___sub__ (rep a) (rep b)) (dur_sub a b).
Proof. exact gen3_sub. Qed.
Print Assumptions C11_code_sub.

Theorem C11_code_abs : forall x, returns_dur (py_Duration___abs__ (rep x)) (dur_abs x).
Proof. exact gen3_abs. Qed.
Print Assumptions C11_code_abs.

Theorem C11_code_floordiv : forall x n, n <> 0 ->
  returns_dur (py_Duration___floordiv__ (rep x) n) (dur_floordiv x n).
Proof. exact gen3_floordiv. Qed.
Print Assumptions C11_code_floordiv.

Theorem C11_code_floordiv_zero : forall x,
  exists e, py_Duration___floordiv__ (rep x) 0 = Raise e /\ e = ZeroDivisionError.
Proof. exact gen3_floordiv_zero. Qed.
Print Assumptions C11_code_floordiv_zero.

Theorem C11_code_bool : forall x, py_Duration___bool__ (rep x) = Ok (dur_bool x).
Proof. exact gen3_bool. Qed.
Print Assumptions C11_code_bool.

(* Duration(years=y, months=mo, weeks=w, days=d, hours=h, minutes=mi, seconds=s) *)
Theorem C11_code_init : forall y mo w d h mi s,
  py_Duration___init___days_hours_minutes_months_seconds_weeks_years d h mi mo s w y =
  Ok (rep (dur_make y mo w d h mi s)).
Proof. exact gen3_init. Qed.
Print Assumptions C11_code_init.

Theorem C11_code_to_weeks : forall x,
  py_Duration_to_weeks (rep x) =
  Ok (rep (match x with DW _ => x | DU _ _ d _ _ _ => dur_make 0 0 (d / 7) 0 0 0 0 end)).
Proof. exact gen3_to_weeks. Qed.
Print Assumptions C11_code_to_weeks.

(* ---- C11 laws stated of the translated code itself ---- *)
Theorem C11_code_eq_hash : forall md a b,
  py_Duration___eq__ (cSIH md) (cSID md) (rep a) (rep b) = Ok true ->
  exists y m q1 q2,
    py_Duration___hash__ (cSIH md) (cSID md) (rep a) = Ok (y, m, q1) /\
    py_Duration___hash__ (cSIH md) (cSID md) (rep b) = Ok (y, m, q2) /\ (q1 == q2)%Q.
Proof. exact gen3_eq_hash. Qed.
Print Assumptions C11_code_eq_hash.

Theorem C11_code_add_comm : forall md a b, exists o1 o2,
  py_Duration___add__ (rep a) (rep b) = Ok o1 /\ py_Duration___add__ (rep b) (rep a) = Ok o2 /\
  py_Duration___eq__ (cSIH md) (cSID md) o1 o2 = Ok true.
Proof. exact gen3_add_comm. Qed.
Print Assumptions C11_code_add_comm.

Theorem C11_code_sub_self : forall a, exists o,
  py_Duration___sub__ (rep a) (rep a) = Ok o /\ py_Duration___bool__ o = Ok false.
Proof. exact gen3_sub_self. Qed.
Print Assumptions C11_code_sub_self.

(* ---- the generated code evaluated = values returned by the real package
   (/venv/bin/python, PYTHONPATH=/repo; modes gregorian and 360day) ---- *)
Definition q_is (m : exc Q) (q : Q) : bool :=
  match m with Ok a => Qeq_bool a q | Raise _ => false end.
Definition ds_is (m : exc (Z * Q)) (d : Z) (s : Q) : bool :=
  match m with Ok (a, b) => (a =? d) && Qeq_bool b s | Raise _ => false end.
Definition b_is (m : exc bool) (b : bool) : bool :=
  match m with Ok a => Bool.eqb a b | Raise _ => false end.
Definition dur_same (a b : dur) : bool :=
  match a, b with
  | DW w, DW w' => w =? w'
  | DU y mo d h mi s, DU y' mo' d' h' mi' s' =>
    (y =? y') && (mo =? mo') && (d =? d') && Qeq_bool h h' && Qeq_bool mi mi' && Qeq_bool s s'
  | _, _ => false
  end.
Definition obj_is (m : exc pyDuration) (x : dur) : bool :=
  match m with
  | Ok o => match abs3 o with Some r => dur_same r x | None => false end
  | Raise _ => false
  end.
Definition raises {A : Type} (m : exc A) (e : pyexn) : bool :=
  match m, e with
  | Raise TypeError, TypeError => true
  | Raise ZeroDivisionError, ZeroDivisionError => true
  | _, _ => false
  end.

Definition ex_d1 : dur := DU 1 2 3 4 5 6.              (* P1Y2M3DT4H5M6S *)
Definition ex_d2 : dur := DW 2.                        (* P2W *)
Definition ex_d3 : dur := DU 0 0 13 23 59 60.          (* P13DT23H59M60S *)
Definition ex_d4 : dur := DU 0 0 0 (-51 # 2) (1 # 4) 0. (* Duration(hours=-25.5, minutes=0.25) *)
(* Duration(years=None): unit form with _years = None, not a `dur` *)
Definition ex_bad : pyDuration :=
  mkDuration None (Some 0) None (Some 0) (Some 0%Q) (Some 0%Q) (Some 0%Q).

Example C11_code_ex :
  let ds md := py_Duration_get_days_and_seconds (cSIH md) (cSID md) (cRDY md) in
  let secs md := py_Duration_get_seconds (cSIH md) (cSID md) (cRDY md) in
  let nns md := py_Duration__get_non_nominal_seconds (cSIH md) (cSID md) in
  let eq md := py_Duration___eq__ (cSIH md) (cSID md) in
  let lt md := py_Duration___lt__ (cSIH md) (cSID md) (cRDY md) in
  let le md := py_Duration___le__ (cSIH md) (cSID md) (cRDY md) in
  let gt md := py_Duration___gt__ (cSIH md) (cSID md) (cRDY md) in
  let ge md := py_Duration___ge__ (cSIH md) (cSID md) (cRDY md) in
  (* get_days_and_seconds / get_seconds / _get_non_nominal_seconds *)
  ds_is (ds G (rep ex_d1)) 428 14706 = true /\ ds_is (ds D360 (rep ex_d1)) 423 14706 = true /\
  ds_is (ds G (rep ex_d2)) 14 0 = true /\ ds_is (ds G (rep ex_d3)) 14 0 = true /\
  ds_is (ds G (rep ex_d4)) (-2) 81015 = true /\
  q_is (secs G (rep ex_d1)) 36993906 = true /\ q_is (secs D360 (rep ex_d1)) 36561906 = true /\
  q_is (secs G (rep ex_d4)) (-91785) = true /\
  q_is (nns G (rep ex_d1)) 273906 = true /\ q_is (nns G (rep ex_d2)) 1209600 = true /\
  b_is (py_Duration_is_exact (rep ex_d1)) false = true /\ b_is (py_Duration_is_exact (rep ex_d3)) true = true /\
  (* == and the hash key *)
  b_is (eq G (rep ex_d2) (rep ex_d3)) true = true /\ b_is (eq G (rep ex_d1) (rep ex_d3)) false = true /\
  b_is (eq G (rep ex_d1) (rep ex_d2)) false = true /\
  b_is (eq G (rep (DU 0 1 0 0 0 0)) (rep (DW 1))) false = true /\
  match py_Duration___hash__ (cSIH G) (cSID G) (rep ex_d2), py_Duration___hash__ (cSIH G) (cSID G) (rep ex_d3) with
  | Ok (Some 0, Some 0, q1), Ok (Some 0, Some 0, q2) => Qeq_bool q1 1209600 && Qeq_bool q2 1209600
  | _, _ => false
  end = true /\
  (* orderings *)
  b_is (lt G (rep ex_d1) (rep ex_d2)) false = true /\ b_is (le G (rep ex_d2) (rep ex_d3)) true = true /\
  b_is (lt G (rep ex_d2) (rep ex_d3)) false = true /\ b_is (gt G (rep ex_d1) (rep ex_d4)) true = true /\
  b_is (ge G (rep ex_d4) (rep ex_d2)) false = true /\ b_is (ge G (rep ex_d3) (rep ex_d2)) true = true /\
  b_is (le G (rep (DU 1 0 0 0 0 0)) (rep (DU 0 12 0 0 0 0))) false = true /\
  b_is (le D360 (rep (DU 1 0 0 0 0 0)) (rep (DU 0 12 0 0 0 0))) true = true /\
  b_is (lt G (rep (DU 0 11 0 0 0 0)) (rep (DU 1 0 0 0 0 0))) true = true /\
  b_is (gt D360 (rep (DU 1 0 0 0 0 0)) (rep (DU 0 12 0 0 0 0))) false = true /\
  (* + - * abs // to_days to_weeks *)
  obj_is (py_Duration___add__ (rep ex_d1) (rep ex_d2)) (DU 1 2 17 4 5 6) = true /\
  obj_is (py_Duration___add__ (rep ex_d2) (rep ex_d2)) (DW 4) = true /\
  obj_is (py_Duration___add__ (rep ex_d2) (rep ex_d4)) (DU 0 0 14 (-51 # 2) (1 # 4) 0) = true /\
  obj_is (py_Duration___mul__ (rep ex_d2) 3) (DW 6) = true /\
  obj_is (py_Duration___mul__ (rep ex_d4) (-2)) (DU 0 0 0 51 (-1 # 2) 0) = true /\
  obj_is (py_Duration___rmul__ (rep ex_d1) 3) (DU 3 6 9 12 15 18) = true /\
  obj_is (py_Duration___sub__ (rep ex_d1) (rep ex_d3)) (DU 1 2 (-10) (-19) (-54) (-54)) = true /\
  obj_is (py_Duration___sub__ (rep ex_d2) (rep ex_d2)) (DW 0) = true /\
  obj_is (py_Duration___abs__ (rep ex_d4)) (DU 0 0 0 (51 # 2) (1 # 4) 0) = true /\
  obj_is (py_Duration___floordiv__ (rep ex_d4) 2) (DU 0 0 0 (-13) 0 0) = true /\
  obj_is (py_Duration___floordiv__ (rep ex_d1) (-2)) (DU (-1) (-1) (-2) (-2) (-3) (-3)) = true /\
  obj_is (py_Duration___floordiv__ (rep ex_d2) 3) (DW 0) = true /\
  obj_is (py_Duration_to_days (rep ex_d2)) (DU 0 0 14 0 0 0) = true /\
  obj_is (py_Duration_to_weeks (rep ex_d3)) (DW 1) = true /\
  obj_is (py_Duration_to_weeks (rep ex_d4)) (DU 0 0 0 0 0 0) = true /\
  b_is (py_Duration___bool__ (rep ex_d1)) true = true /\ b_is (py_Duration___bool__ (rep (DW 0))) false = true /\
  (* the constructor: Duration(weeks=3), (weeks=3, days=1), (weeks=0), (years=1, weeks=2, hours=0.5) *)
  obj_is (py_Duration___init___days_hours_minutes_months_seconds_weeks_years 0 0 0 0 0 3 0) (DW 3) = true /\
  obj_is (py_Duration___init___days_hours_minutes_months_seconds_weeks_years 1 0 0 0 0 3 0) (DU 0 0 22 0 0 0) = true /\
  obj_is (py_Duration___init___days_hours_minutes_months_seconds_weeks_years 0 0 0 0 0 0 0) (DU 0 0 0 0 0 0) = true /\
  obj_is (py_Duration___init___days_hours_minutes_months_seconds_weeks_years 0 (1 # 2) 0 0 0 2 1) (DU 1 0 14 (1 # 2) 0 0) = true /\
  (* exceptions: Duration(years=None).get_days_and_seconds() raises TypeError, d // 0 ZeroDivisionError;
     Duration(years=None) == Duration(years=None) is True, Duration(years=None, months=1) == P2W is False *)
  raises (ds G ex_bad) TypeError = true /\
  raises (py_Duration___floordiv__ (rep ex_d1) 0) ZeroDivisionError = true /\
  b_is (eq G ex_bad ex_bad) true = true /\
  b_is (eq G (set_months ex_bad (Some 1)) (rep ex_d2)) false = true.
Proof. vm_compute. repeat split; reflexivity. Qed.
