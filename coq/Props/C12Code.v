(* Props/C12Code.v -- properties C12 / C13 / C14, tied to the SOURCE of class
   TimeRecurrence: gen/GenCode5.v holds the method bodies that
   tools/translate_code5.py translated from /repo/metomi/isodatetime/data.py on
   this run (Python ast -> Gallina over the object-state record pyRec, exception
   monad exc, generators as traces, every loop under fuel).  The TimePoint and
   Duration operations the methods call are the fields of rec_ops; here they are
   instantiated (mops md) with the model's tp_add, tp_sub_dur, tp_sub, tp_cmp,
   tp_hash_key, dur_mul, dur_sub, dur_eqb, dur_ltb, dur_bool, is_exact,
   get_seconds, dur_make, dur_hash_key, and the text models do_str, dur_str,
   int_str (that the real TimePoint / Duration methods behave as these model
   functions is what C01-C06, C11 and the other GenCode phases establish).
   Every model function of Model/Recurrence.v and Model/RecText.v that
   Props/C12.v, C13.v, C14.v talk about is proved to be what the translated
   method computes on every state rep r (min_point / max_point None, as the
   parser leaves them).  Statements only.
   How results are compared (definitions in Proofs/GenCode5Ok.v):
     sim_res   Ret o ~ Ok r with o = rep r; Raise _ ~ Err
     conflate d   Ret a -> a = model; Raise _ -> model = d (the model folds the exception into d)
     scan_rel d   Ret a -> model = Some a; NoFuel -> model = None;
                  Raise _ -> model = None or model = Some d (an exception of a step, folded) *)
From Coq Require Import ZArith QArith List String.
From Iso Require Import Spec.Cal Spec.Instant Model.Num Model.Duration Model.TimePoint Model.Recurrence
  Model.RecText gen.GenCode5 Proofs.RecSpec Proofs.GenCode5Ok.
Import ListNotations.
Open Scope Z_scope.

Theorem C12_code_translator_ok : gen.GenCode5.translator_ok_code5 = true.
Proof. exact gen_code5_accepted. Qed.
Print Assumptions C12_code_translator_ok.

(* the states of the theorems denote the model's records; rec_make only produces such records *)
Theorem C12_code_state :
  (forall r, wf_rec r -> abs5 (rep r) = Some r) /\
  (forall md reps s d e r, rec_make md reps s d e = Ok r -> wf_rec r).
Proof. exact (conj abs5_rep rec_make_wf). Qed.
Print Assumptions C12_code_state.

(* ---- priority 1: __init__ (all branches) = rec_make, _get_is_in_bounds = in_bounds ---- *)
(* cmp_law: `end < start` as the code asks it agrees with the model's three-way comparison of
   start with end; it holds for valid points (C12_code_init_valid) *)
Theorem C12_code_init : forall md reps s d e, cmp_law md s e ->
  sim_res (fun o r => o = rep r) (py___init__ (mops md) reps s d e None None) (rec_make md reps s d e).
Proof. exact gen5_init. Qed.
Print Assumptions C12_code_init.

Theorem C12_code_init_valid : forall md reps s d e, opt_valid md s -> opt_valid md e ->
  sim_res (fun o r => o = rep r) (py___init__ (mops md) reps s d e None None) (rec_make md reps s d e).
Proof. exact gen5_init_valid. Qed.
Print Assumptions C12_code_init_valid.

Theorem C12_code_in_bounds : forall md r p,
  py__get_is_in_bounds (mops md) (rep r) p = lift (in_bounds md r p).
Proof. exact gen5_in_bounds. Qed.
Print Assumptions C12_code_in_bounds.

(* ---- priority 2: get_next, get_prev, __iter__, __getitem__ ---- *)
Theorem C12_code_get_next : forall md r p,
  conflate None (py_get_next (mops md) (rep r) p) (get_next md r p).
Proof. exact gen5_get_next. Qed.
Print Assumptions C12_code_get_next.

Theorem C12_code_get_prev : forall md r p,
  conflate None (py_get_prev (mops md) (rep r) p) (get_prev md r p).
Proof. exact gen5_get_prev. Qed.
Print Assumptions C12_code_get_prev.

(* the generator: the first k values it yields, for every k and every fuel >= k *)
Theorem C12_code_iter : forall md r k f, (k <= f)%nat ->
  firstn k (tr_yields (py___iter__ (mops md) (rep r) f)) = map Some (iter_take md r k).
Proof. exact gen5_iter. Qed.
Print Assumptions C12_code_iter.

(* ... and its whole trace (how it ends included) in canonical form *)
Theorem C12_code_iter_canon : forall md r f, f <> O ->
  py___iter__ (mops md) (rep r) f = canon_iter md r f.
Proof. exact gen5_iter_canon. Qed.
Print Assumptions C12_code_iter_canon.

Theorem C12_code_getitem : forall md r i f, (Z.to_nat i < f)%nat ->
  getitem_rel (py___getitem__ (mops md) (rep r) i f) (rec_getitem md r i).
Proof. exact gen5_getitem. Qed.
Print Assumptions C12_code_getitem.

(* ---- priority 3: get_is_valid, get_first_after ---- *)
Theorem C12_code_get_is_valid : forall md r t f, f <> O ->
  scan_rel false (py_get_is_valid (mops md) (rep r) t f) (get_is_valid md r t f).
Proof. exact gen5_get_is_valid. Qed.
Print Assumptions C12_code_get_is_valid.

Theorem C12_code_get_first_after : forall md r t f, r_start r <> None ->
  scan_rel None (py_get_first_after (mops md) (rep r) t f) (get_first_after md r t f).
Proof. exact gen5_get_first_after. Qed.
Print Assumptions C12_code_get_first_after.

(* outside the model's get_first_after (no start point): the code never returns a point *)
Theorem C12_code_get_first_after_nostart : forall md r t f, r_start r = None ->
  match py_get_first_after (mops md) (rep r) t f with Ret q => q = None | _ => True end /\
  get_first_after md r t f = None.
Proof. exact gen5_get_first_after_nostart. Qed.
Print Assumptions C12_code_get_first_after_nostart.

(* ---- priority 4: __add__, __sub__, __eq__, the tuple __hash__ hashes, __str__ ---- *)
Theorem C12_code_add : forall md r d, (r_fmt r = 1 \/ r_fmt r = 3 \/ r_fmt r = 4) -> add_law md r d ->
  sim_res (fun o r' => o = rep r') (py___add__ (mops md) (rep r) d) (rec_add md r d).
Proof. exact gen5_add. Qed.
Print Assumptions C12_code_add.

Theorem C12_code_sub : forall md r d, (r_fmt r = 1 \/ r_fmt r = 3 \/ r_fmt r = 4) ->
  add_law md r (dur_mul d (-1)) ->
  sim_res (fun o r' => o = rep r') (py___sub__ (mops md) (rep r) d) (rec_sub md r d).
Proof. exact gen5_sub. Qed.
Print Assumptions C12_code_sub.

Theorem C12_code_add_law_valid : forall md r d,
  (forall s', opt_add md (r_start r) d = Some s' -> opt_valid md s') ->
  (forall e', opt_add md (r_second r) d = Some e' -> opt_valid md e') -> add_law md r d.
Proof. exact add_law_valid. Qed.
Print Assumptions C12_code_add_law_valid.

Theorem C12_code_eq : forall md a b,
  conflate false (py___eq__ (mops md) (rep a) (rep b)) (rec_eqb md a b).
Proof. exact gen5_eq. Qed.
Print Assumptions C12_code_eq.

Theorem C12_code_hash_key : forall md r, hash_rel (py___hash__ (mops md) (rep r)) (rec_hash_key md r).
Proof. exact gen5_hash. Qed.
Print Assumptions C12_code_hash_key.

Theorem C12_code_str : forall md r, str_rel (py___str__ (mops md) (rep r)) (rec_str md r).
Proof. exact gen5_str. Qed.
Print Assumptions C12_code_str.

(* The generated definitions, evaluated on concrete recurrences (Proofs/GenCode5Ok.ex_results: every
   branch of __init__, the three notations, both calendars, iteration in both directions, all the
   queries, + - == hash str, the exceptions), against the values the REAL package returns for the
   same calls (tools/gencode5_example.py, PYTHONPATH=/repo; `--check` compares this list). *)
Example C12_code_ex : ex_results =
  [ "3|2000-01-01T00:00:00Z|P1D|2000-01-03T00:00:00Z|unset|3";
    "3|2000-01-01T00:00:00Z|P1D|2000-01-03T00:00:00Z|2000-01-02T00:00:00Z|1";
    "3|2000-01-29T00:00:00Z|P1M|2000-03-31T00:00:00Z|unset|4";
    "None|2000-01-01T00:00:00Z|P1M|None|unset|3";
    "raise BadInputError";
    "raise BadInputError";
    "raise BadInputError";
    "1|2000-01-01T00:00:00Z|None|2000-01-01T00:00:00Z|unset|3";
    "raise BadInputError";
    "1|2000-01-01T00:00:00Z|None|2000-01-01T00:00:00Z|2000-01-01T00:00:00Z|1";
    "3|2000-02-30T00:00:00Z|P1M|2000-04-30T00:00:00Z|unset|3";
    "2000-01-01T00:00:00Z,2000-01-02T00:00:00Z,2000-01-03T00:00:00Z";
    "2000-01-01T00:00:00Z,2000-02-01T00:00:00Z,2000-03-01T00:00:00Z,2000-04-01T00:00:00Z";
    "2000-01-29T00:00:00Z,2000-02-29T00:00:00Z,2000-03-29T00:00:00Z";
    "2000-01-01T00:00:00Z,2000-01-02T00:00:00Z,2000-01-03T00:00:00Z";
    "2000-01-03T00:00:00Z";
    "raise IndexError";
    "raise IndexError";
    "2001-02-01T00:00:00Z";
    "2000-01-03T00:00:00Z";
    "None";
    "None";
    "None";
    "True";
    "False";
    "False";
    "True";
    "False";
    "True";
    "False";
    "True";
    "True";
    "2000-01-03T00:00:00Z";
    "2000-01-01T00:00:00Z";
    "None";
    "2000-02-01T00:00:00Z";
    "None";
    "raise TypeError";
    "3|2000-01-01T12:00:00Z|P1D|2000-01-03T12:00:00Z|unset|3";
    "3|2000-02-01T00:00:00Z|P1D|2000-02-03T00:00:00Z|2000-02-02T00:00:00Z|1";
    "3|2000-01-29T00:00:00Z|P1M|2000-03-30T00:00:00Z|unset|4";
    "1|2000-01-02T00:00:00Z|None|2000-01-02T00:00:00Z|2000-01-02T00:00:00Z|1";
    "True";
    "True";
    "False";
    "3;2000 1 1 0 0 0;2000 1 3 0 0 0;0 0 86400;None;None";
    "None;None;2000 3 31 0 0 0;0 1 0;None;None";
    "R3/2000-01-01T00:00:00Z/P1D";
    "R3/2000-01-01T00:00:00Z/2000-01-02T00:00:00Z";
    "R3/P1M/2000-03-31T00:00:00Z";
    "R/P1M/2000-03-31T00:00:00Z";
    "R1/2000-01-01T00:00:00Z/P0Y" ]%string.
Proof. vm_compute. reflexivity. Qed.
