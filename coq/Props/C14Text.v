(* Props/C14Text.v -- property C14, second half: equal recurrences have equal
   hashes, and the text of a recurrence read back by the recurrence parser is
   an equal recurrence with the same points.  Statements only; the proofs are
   in Proofs/RecTextSpec.v (and Proofs/RecTextCongr.v), the executable model of
   TimeRecurrence.__str__ / __hash__ in Model/RecText.v, the parser
   (TimeRecurrenceParser.parse: split on "/", time point parser, duration
   parser, constructor) in Model/DriverCli.v (rec_of_text).

   Vocabulary.
     rec_str md r        str(r): RtOk text | RtOverflow | RtValue | RtUnmodelled
     rec_of_text md local t   the parser on t, `local` being what the system's
                         local time zone is (only used for texts without zone)
     rec_hash_key md r   the tuple __hash__ hashes, each point by the tuple its
                         own __hash__ hashes (tp_hash_key, C02), the duration by
                         its own (dur_hash_key, C11); None = hashing raised
     rec_key_equiv       repetitions =, start and end keys hash_key_equiv (C02)
                         or both None, duration keys as in C11_eq_hash or both
                         None, min/max None
     made md r           r came out of the constructor from valid points and an
                         exact interval (as in Props/C14.v)
     opt_valid md o      o is None or a valid point
     reps_text o         "R/" or "R" ++ decimal digits of n ++ "/"
     str_text 0 p        the text of a point (C08_str_shape)
     reps_fit o          o is None or has at most 4300 decimal digits (beyond
                         which CPython's str(int) raises ValueError)
     pt_ok md p          valid, year in 0..9999, fraction of at most 6 digits:
                         the domain of C08_roundtrip for plain years
     du_given d          single_signed d and printable d: the domain of C10
     shape_ok s d e      exactly one of (s,e) (s,d) (d,e) is given
     reps_ok o           None, or 1 <= n < 10^4300
     same_point q p      equal dates, equal zones, == time fields (C08) *)
From Coq Require Import ZArith QArith List String.
From Iso Require Import Spec.Cal Spec.Instant Model.Num Model.Duration Model.TimePoint Model.Recurrence
  Model.DurText Model.Cli Model.DriverCli Model.RecText
  Proofs.CmpSpec Proofs.RecSpec Proofs.RecShiftSpec Proofs.RoundTripSpec Proofs.DurTextSpec
  Proofs.RecTextCongr Proofs.RecTextSpec.
Import ListNotations.
Local Open Scope string_scope.

(* 1. EQUAL RECURRENCES HAVE EQUAL HASHES.  Needed: the start and end points of
      both recurrences (where present) are valid time points -- nothing about
      the interval.  For recurrences out of the constructor (made) that is
      automatic. *)
Theorem C14_hash_valid : forall md a b,
  opt_valid md (r_start a) -> opt_valid md (r_end a) -> opt_valid md (r_start b) -> opt_valid md (r_end b) ->
  rec_eqb md a b = true ->
  exists ka kb, rec_hash_key md a = Some ka /\ rec_hash_key md b = Some kb /\ rec_key_equiv ka kb.
Proof. exact rec_hash_valid. Qed.
Print Assumptions C14_hash_valid.

Theorem C14_hash : forall md a b, made md a -> made md b -> rec_eqb md a b = true ->
  exists ka kb, rec_hash_key md a = Some ka /\ rec_hash_key md b = Some kb /\ rec_key_equiv ka kb.
Proof. exact rec_hash_made. Qed.
Print Assumptions C14_hash.

(* 2. THE TEXT of the three notations.  The prefix, the points as C08 prints
      them, the interval as C10 prints it ("P0Y" when there is none).  In the
      first notation the interval text is computed and not used: it only must
      not raise. *)
Theorem C14_text_shape :
  (forall md r s e x,
     r_fmt r = 1%Z -> r_start r = Some s -> r_second r = Some e -> reps_fit (r_reps r) ->
     duration_text_unused (r_dur r) = RtOk x ->
     (0 <= date_year (tdate s))%Z -> (0 <= date_year (tdate e))%Z ->
     rec_str md r = RtOk (reps_text (r_reps r) ++ str_text 0 s ++ "/" ++ str_text 0 e)) /\
  (forall md r s ds,
     r_fmt r = 3%Z -> r_start r = Some s -> reps_fit (r_reps r) ->
     duration_text (r_dur r) = RtOk ds -> (0 <= date_year (tdate s))%Z ->
     rec_str md r = RtOk (reps_text (r_reps r) ++ str_text 0 s ++ "/" ++ ds)) /\
  (forall md r e ds,
     r_fmt r = 4%Z -> r_end r = Some e -> reps_fit (r_reps r) ->
     duration_text (r_dur r) = RtOk ds -> (0 <= date_year (tdate e))%Z ->
     rec_str md r = RtOk (reps_text (r_reps r) ++ ds ++ "/" ++ str_text 0 e)).
Proof. exact (conj rec_str_fmt1 (conj rec_str_fmt3 rec_str_fmt4)). Qed.
Print Assumptions C14_text_shape.

(* 3. THE ROUND TRIP, at full strength: any calendar mode, any local zone,
      exact and nominal intervals, weeks, zero intervals, one repetition,
      bounded and unbounded, all three notations, calendar / ordinal / week
      dates, every time-of-day form incl. 24:00 and decimals, every offset.
      The re-parsed recurrence compares == with the original and iterates, for
      every k, a list of the same length whose points are pairwise the
      same_point as the original's: same date in the same representation,
      same zone, same precision form, == fields.  (It is not always the same
      record: when the two points of the first notation are one instant written
      twice, the original keeps the second spelling as its end and the
      re-parsed one does not; and the parser reduces fractions.) *)
Theorem C14_text_roundtrip : forall md local reps s d e r,
  rec_make md reps s d e = Ok r ->
  shape_ok s d e -> reps_ok reps -> opt_pt_ok md s -> opt_pt_ok md e -> opt_du_given d ->
  exists t r', rec_str md r = RtOk t /\ rec_of_text md local t = inl (Some r') /\ rec_eqb md r r' = true /\
               forall k, Forall2 same_point (iter_take md r' k) (iter_take md r k).
Proof. exact text_roundtrip_given. Qed.
Print Assumptions C14_text_roundtrip.

(* what the last clause says index by index *)
Theorem C14_same_points_meaning : forall (l1 l2 : list tp), Forall2 same_point l1 l2 ->
  List.length l1 = List.length l2 /\
  forall i q, nth_error l1 i = Some q -> exists p, nth_error l2 i = Some p /\ same_point q p.
Proof. exact forall2_points. Qed.
Print Assumptions C14_same_points_meaning.

(* the arithmetic underneath: points that are the same_point and intervals
   that are dur_equiv are interchangeable in the constructor and the iterator *)
Theorem C14_spelling_irrelevant : forall md reps s s' d d' e e',
  orel same_point s s' -> orel dur_equiv d d' -> orel same_point e e' ->
  res_rel rec_equiv (rec_make md reps s d e) (rec_make md reps s' d' e') /\
  (forall r r' k, rec_equiv r r' -> Forall2 same_point (iter_take md r k) (iter_take md r' k)) /\
  (forall r r', rec_equiv r r' -> rec_eqb md r r' = true).
Proof. exact spelling_irrelevant. Qed.
Print Assumptions C14_spelling_irrelevant.

(* the hypotheses are satisfiable, and what the model computes: a bounded
   recurrence with a nominal interval from a week date with a decimal minute
   and a negative offset, read back under a local zone of +05:30; one instant
   written twice in the first notation (the re-parsed end differs, the hash
   does not); and the repetition count at which CPython's str(int) gives up *)
Example C14_text_ex :
  let p := mkTp (Wk 2020 53 7) (HM 23 (119 # 2)) (mkZone (-9) (-30)) in
  let d := DU 0 1 2 0 0 (1 # 2) in
  let p3 := mkTp (Wk 2021 9 7) (HM 23 (3571 # 60)) (mkZone (-9) (-30)) in
  let r := mkRec (Some 3%Z) (Some p) (Some d) (Some p3) None 3 in
  let s1 := mkTp (Cal 2000 1 1) (HMS 6 0 0) (mkZone 0 0) in
  let e1 := mkTp (Ord 2000 1) (HM 11 30) (mkZone 5 30) in
  let r1 := mkRec (Some 1%Z) (Some s1) None (Some e1) (Some e1) 1 in
  let r1' := mkRec (Some 1%Z) (Some s1) None (Some s1) (Some s1) 1 in
  valid_tp G p = true /\ tod_fits6 (ttod p) = true /\ single_signed d = true /\ printable d = true /\
  rec_make G (Some 3%Z) (Some p) (Some d) None = Ok r /\
  rec_str G r = RtOk "R3/2020-W53-7T23:59,5-09:30/P1M2DT0,5S" /\
  rec_of_text G (5, 30)%Z "R3/2020-W53-7T23:59,5-09:30/P1M2DT0,5S" = inl (Some r) /\
  rec_eqb G r r = true /\
  iter_take G r 5 = [p; mkTp (Wk 2021 5 5) (HM 23 (7141 # 120)) (mkZone (-9) (-30)); p3] /\
  rec_hash_key G r = Some (mkRecKey (Some 3%Z) (Some (2021%Z, 1%Z, 4%Z, (9%Q, 29%Q, 30%Q)))
                                     (Some (2021%Z, 3%Z, 8%Z, (9%Q, 29%Q, 31%Q)))
                                     (Some (0%Z, 1%Z, (345601 # 2)%Q)) None None) /\
  rec_make G None (Some s1) None (Some e1) = Ok r1 /\
  rec_str G r1 = RtOk "R1/2000-01-01T06:00:00Z/2000-001T11:30,0+05:30" /\
  rec_of_text G (0, 0)%Z "R1/2000-01-01T06:00:00Z/2000-001T11:30,0+05:30" = inl (Some r1') /\
  rec_eqb G r1 r1' = true /\ iter_take G r1' 5 = [s1] /\ iter_take G r1 5 = [s1] /\
  rec_hash_key G r1 = rec_hash_key G r1' /\
  rec_str G (mkRec (Some (10 ^ 4299)%Z) (Some s1) (Some (DU 1 0 0 0 0 0)) None None 3) <> RtValue /\
  rec_str G (mkRec (Some (10 ^ 4300)%Z) (Some s1) (Some (DU 1 0 0 0 0 0)) None None 3) = RtValue.
Proof. vm_compute. repeat split; try reflexivity; discriminate. Qed.
