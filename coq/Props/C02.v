(* Props/C02.v -- property C02: comparison and hashing of time points follow
   the timeline.  Statements only. *)
From Coq Require Import QArith.
From Iso Require Import Proofs.Tac Spec.Cal Spec.Instant Model.Num Model.Duration Model.TimePoint
  Proofs.ZoneSpec Proofs.CmpSpec Proofs.SubSpec.
Open Scope Z_scope.

(* the three-way outcome of _cmp is the order of the instants, for any mix of
   representations, offsets and precision forms incl. 24:00 *)
Theorem C02_cmp : forall md a b, valid_tp md a = true -> valid_tp md b = true ->
  tp_cmp md a b = Some (instant md a ?= instant md b)%Q.
Proof. exact tp_cmp_spec. Qed.
Print Assumptions C02_cmp.

(* the six operators (0 eq, 1 lt, 2 le, 3 gt, 4 ge, 5 ne) *)
Theorem C02_operators : forall md a b c, valid_tp md a = true -> valid_tp md b = true ->
  tp_cmp md a b = Some c ->
  (cmp_op 0 c = true <-> (instant md a == instant md b)%Q) /\
  (cmp_op 1 c = true <-> (instant md a < instant md b)%Q) /\
  (cmp_op 2 c = true <-> (instant md a <= instant md b)%Q) /\
  (cmp_op 3 c = true <-> (instant md b < instant md a)%Q) /\
  (cmp_op 4 c = true <-> (instant md b <= instant md a)%Q) /\
  (cmp_op 5 c = true <-> ~ (instant md a == instant md b)%Q).
Proof. exact tp_cmp_operators. Qed.
Print Assumptions C02_operators.

(* exactly one of <, ==, > ; == and != complementary; <= and >= the unions *)
Theorem C02_coherent : forall c,
  (cmp_op 1 c = true /\ cmp_op 0 c = false /\ cmp_op 3 c = false \/
   cmp_op 1 c = false /\ cmp_op 0 c = true /\ cmp_op 3 c = false \/
   cmp_op 1 c = false /\ cmp_op 0 c = false /\ cmp_op 3 c = true) /\
  cmp_op 5 c = negb (cmp_op 0 c) /\
  cmp_op 2 c = cmp_op 1 c || cmp_op 0 c /\ cmp_op 4 c = cmp_op 3 c || cmp_op 0 c.
Proof. exact cmp_op_coherent. Qed.
Print Assumptions C02_coherent.

(* symmetry and transitivity *)
Theorem C02_symmetric : forall md a b c, valid_tp md a = true -> valid_tp md b = true ->
  tp_cmp md a b = Some c -> tp_cmp md b a = Some (CompOpp c).
Proof. exact tp_cmp_sym. Qed.
Print Assumptions C02_symmetric.

Theorem C02_transitive : forall md a b c,
  valid_tp md a = true -> valid_tp md b = true -> valid_tp md c = true ->
  (tp_cmp md a b = Some Lt \/ tp_cmp md a b = Some Eq) ->
  (tp_cmp md b c = Some Lt \/ tp_cmp md b c = Some Eq) ->
  (tp_cmp md a c = Some Lt \/ tp_cmp md a c = Some Eq) /\
  (tp_cmp md a b = Some Lt \/ tp_cmp md b c = Some Lt -> tp_cmp md a c = Some Lt).
Proof. exact tp_cmp_trans. Qed.
Print Assumptions C02_transitive.

(* equal time points hash equally *)
Theorem C02_hash : forall md a b, valid_tp md a = true -> valid_tp md b = true ->
  tp_cmp md a b = Some Eq ->
  exists k1 k2, tp_hash_key md a = Some k1 /\ tp_hash_key md b = Some k2 /\ hash_key_equiv k1 k2.
Proof. exact tp_eq_hash. Qed.
Print Assumptions C02_hash.

(* the sign of a - b agrees with the comparison *)
Theorem C02_sub_sign : forall md a b, valid_tp md a = true -> valid_tp md b = true ->
  exists d, tp_sub md a b = Some d /\ (dur_len d ?= 0)%Q = (instant md a ?= instant md b)%Q.
Proof. exact tp_sub_sign. Qed.
Print Assumptions C02_sub_sign.

Example C02_ex :
  tp_cmp G (mkTp (Cal 2000 12 31) (HMS 24 0 0) (mkZone 0 0)) (mkTp (Wk 2001 1 1) (HH 1) (mkZone 1 0)) = Some Eq /\
  tp_cmp G (mkTp (Ord 0 1) (HMS 0 0 0) (mkZone 0 0)) (mkTp (Cal (-1) 12 31) (HM 23 (119#2)) (mkZone 0 0)) = Some Gt /\
  valid_tp G (mkTp (Cal 2000 12 31) (HMS 24 0 0) (mkZone 0 0)) = true.
Proof. vm_compute. repeat split; reflexivity. Qed.
