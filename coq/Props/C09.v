(* Props/C09.v -- property C09: impossible dates and malformed text are
   rejected, cleanly.  Statements only.  The parsers are total functions
   string -> result by construction of the model; what is proved is that they
   never return an invalid object and that construction accepts exactly the
   valid field tuples. *)
From Coq Require Import QArith List String.
From Iso Require Import Proofs.Tac Spec.Cal Spec.Instant Model.Num Model.Helpers Model.Duration Model.TimePoint
  Model.Forms Model.Parse Model.DriverText gen.Grammar Proofs.ConstructSpec.
Import ListNotations.
Open Scope Z_scope.

(* whole-number time fields in range, 24 only as 24:00(:00) *)
Definition tod_ints (h mi s : option Q) : bool :=
  let iq := fun (o : option Q) => match o with Some x => qis_int x | None => true end in
  iq h && iq mi && iq s.
Definition tod_fields_ok (h mi s : option Q) : bool :=
  in_rngq h 0 24 &&
  (if match h with Some x => qeqb x 24 | None => false end
   then in_rngq mi 0 0 && in_rngq s 0 0 else below_q mi 0 60 && below_q s 0 60).
Definition zone_fields_ok (zn : option (Z * option Z)) : bool :=
  match zn with
  | None => true
  | Some (zh, zmo) => valid_zone (mkZone zh (match zmo with Some m => m | None => 0 end))
  end.

(* calendar-date construction: accepted exactly when the date is a real day of
   the mode and the time and zone fields are in range *)
Theorem C09_calendar_iff : forall md y m d h mi s zn, tod_ints h mi s = true ->
  (exists p, construct md (Some y) (Some m) (Some d) None None None h None mi None s None zn false "" 0 "" false = POk p)
  <-> (valid_cal md y m d = true /\ tod_fields_ok h mi s = true /\ zone_fields_ok zn = true).
Proof. exact construct_calendar_iff. Qed.
Print Assumptions C09_calendar_iff.

Theorem C09_ordinal_iff : forall md y doy h mi s zn, tod_ints h mi s = true ->
  (exists p, construct md (Some y) None None (Some doy) None None h None mi None s None zn false "" 0 "" false = POk p)
  <-> (valid_ord md y doy = true /\ tod_fields_ok h mi s = true /\ zone_fields_ok zn = true).
Proof. exact construct_ordinal_iff. Qed.
Print Assumptions C09_ordinal_iff.

Theorem C09_week_iff : forall md y w dow h mi s zn, tod_ints h mi s = true ->
  (exists p, construct md (Some y) None None None (Some w) (Some dow) h None mi None s None zn false "" 0 "" false = POk p)
  <-> (valid_week md y w dow = true /\ tod_fields_ok h mi s = true /\ zone_fields_ok zn = true).
Proof. exact construct_week_iff. Qed.
Print Assumptions C09_week_iff.

(* whatever the text and the configuration, the time-point parser returns a
   valid point or one of its four error kinds; a returned full point is valid *)
Theorem C09_parse_valid : forall md cfg text asp p,
  parse_text md cfg text asp = POk p -> p_trunc p = false ->
  exists q, ptp_to_tp p = Some q /\ valid_tp md q = true.
Proof. exact parse_text_valid. Qed.
Print Assumptions C09_parse_valid.

(* impossible dates are refused through every text notation that reaches the constructor *)
Theorem C09_parse_refuses : forall md cfg text asp p q,
  parse_text md cfg text asp = POk p -> ptp_to_tp p = Some q -> valid_date md (tdate q) = true.
Proof. exact parse_text_date_valid. Qed.
Print Assumptions C09_parse_refuses.

Example C09_ex :
  parse_text G (default_cfg 2) "2000-02-30" false = PErr EBadInput /\
  parse_text G (default_cfg 2) "2001-02-29T00Z" false = PErr EBadInput /\
  parse_text D360 (default_cfg 2) "2001-02-30T00Z" false <> PErr EBadInput /\
  parse_text G (default_cfg 2) "2000-01-01T24:01Z" false = PErr EBadInput /\
  parse_text G (default_cfg 2) "1T2T3" false = PErr EValue /\
  parse_text G (default_cfg 2) "2000-01-01T12:00+00:60" false = PErr EBadInput.
Proof. vm_compute. repeat split; try reflexivity; discriminate. Qed.
