(* Props/C20Ext.v -- property C20, the shapes Props/C20.v left to the oracle:
   week number with weekday (incl. week 53), day of month 29-31, day of year
   361-366, truncated points carrying their own UTC offset, both operand orders.
   Statements only; proofs in Proofs/TruncExtSpec.v (calendar facts in
   Proofs/TruncExtCal.v, constructor bounds in Proofs/TruncExtCtor.v, closed
   witnesses and the operand dispatch in Proofs/TruncExtLimits.v).

   Reading guide.  `tp_add_trunc md t p` is the model of `t + p` / `p + t`
   (Model/Truncated.v); `TOk r` = returned r, `THang` = a stepping loop was still
   running at the model's bound (the real loop has no bound).  `local_ds md p z`
   = (local day number, local second of day) of p read in offset z.
   `next_match md days tod n0 s0 3000` (Spec/NextMatch.v, shown to be the least
   match by C20_next_match_least) = the lexicographically least (day, second)
   >= (n0, s0) within 3000 days whose day satisfies `days` and whose second of
   day has the given fields with lower fields zero (second kept if no field).
   All theorems are for every calendar mode, every valid full point p in any of
   the three date representations and any offset (24:00:00 included). *)
From Coq Require Import QArith Qround List String.
From Iso Require Import Proofs.Tac Spec.Cal Spec.Instant Spec.NextMatch Model.Num Model.Duration Model.TimePoint
  Model.Truncated Model.TruncOrder Model.Parse Proofs.NextMatchSpec Proofs.TruncSpec Proofs.TruncExtCal
  Proofs.TruncExtCtor Proofs.TruncExtSpec Proofs.TruncExtLimits Props.C20.
Import ListNotations.
Open Scope Z_scope.

(* --- shapes of the truncated point t --- *)
Definition no_time (t : trunc) : Prop := t_hour t = None /\ t_min t = None /\ t_sec t = None.
(* an hour (0..23), optionally minute and second (whole numbers 0..59) *)
Definition with_hour (t : trunc) : Prop :=
  t_hour t <> None /\ field_ok (t_hour t) 24 /\ field_ok (t_min t) 60 /\ field_ok (t_sec t) 60.
(* week w with weekday d; w up to the greatest week number of the calendar
   (53; 52 in the 360-day calendar, whose years have 51 or 52 weeks) -- exactly
   the values the constructor accepts (C20_constructor_covered) *)
Definition week_weekday (md : mode) (t : trunc) (w d : Z) : Prop :=
  1 <= d <= 7 /\ 1 <= w <= (match md with D360 => 52 | _ => 53 end) /\
  t_dow t = Some d /\ t_week t = Some w /\ t_dom t = None /\ t_doy t = None.
(* exactly one of weekday / day of month / day of year, over the whole range the
   constructor of a truncated point accepts (see C20_constructor_bounds) *)
Definition one_day_full (md : mode) (t : trunc) : Prop :=
  (exists d, 1 <= d <= 7 /\ t_dow t = Some d /\ t_dom t = None /\ t_doy t = None /\ t_week t = None) \/
  (exists d, 1 <= d <= (match md with D360 => 30 | _ => 31 end) /\
             t_dom t = Some d /\ t_dow t = None /\ t_doy t = None /\ t_week t = None) \/
  (exists d, 1 <= d <= (match md with D360 => 360 | D365 => 365 | _ => 366 end) /\
             t_doy t = Some d /\ t_dow t = None /\ t_dom t = None /\ t_week t = None).
Definition day_designator (md : mode) (t : trunc) : Prop :=
  one_day_full md t \/ exists w d, week_weekday md t w d.

(* ====================================================================== *)
(* 1. week number with weekday (week 53 included), zone of t unknown       *)
(* ====================================================================== *)
(* no time field: the result exists (no Hang: the loop bounds 8 and 1500 of the
   model suffice), is valid, in p's offset, lies on the LEAST day >= p's local
   day whose ISO week number is w and weekday d, keeps the time of day, and
   adding t again returns it unchanged *)
Theorem C20_week_weekday_least : forall md p t w d,
  valid_tp md p = true -> no_time t -> t_zone t = None -> week_weekday md t w d ->
  exists r, tp_add_trunc md t p = TOk r /\ valid_tp md r = true /\ tzone r = tzone p /\
    (let '(n0, s0) := local_ds md p (tzone p) in let '(n, s) := local_ds md r (tzone p) in
     next_match md (mkDay (Some d) None None (Some w)) (mkTod None None None) n0 (Qfloor s0) 3000
       = Some (n, Qfloor s)) /\
    tp_add_trunc md t r = TOk r.
Proof. exact add_trunc_week_weekday_least. Qed.
Print Assumptions C20_week_weekday_least.

(* with an hour (minute, second optional), whole-second p: the least date-time *)
Theorem C20_week_weekday_time_least : forall md p t w d,
  valid_tp md p = true -> whole_second p -> with_hour t -> t_zone t = None -> week_weekday md t w d ->
  exists r, tp_add_trunc md t p = TOk r /\ valid_tp md r = true /\ tzone r = tzone p /\
    (let '(n0, s0) := local_ds md p (tzone p) in let '(n, s) := local_ds md r (tzone p) in
     next_match md (mkDay (Some d) None None (Some w)) (mkTod (qfl (t_hour t)) (qfl (t_min t)) (qfl (t_sec t)))
                n0 (Qfloor s0) 3000 = Some (n, Qfloor s) /\ qis_int s = true) /\
    tp_add_trunc md t r = TOk r.
Proof. exact add_trunc_week_weekday_time_least. Qed.
Print Assumptions C20_week_weekday_time_least.

(* a week number ALONE (not one of the property's shapes; the code supports it):
   the weekday of p's local day is kept, i.e. the result is the least day >= p
   with week number w AND p's weekday -- in general not the first day of week w
   that is >= p (see C20Ext_limits) *)
Theorem C20_week_only : forall md p t w,
  valid_tp md p = true -> no_time t -> t_zone t = None ->
  t_week t = Some w -> t_dow t = None -> t_dom t = None -> t_doy t = None ->
  1 <= w <= (match md with D360 => 52 | _ => 53 end) ->
  exists r, tp_add_trunc md t p = TOk r /\ valid_tp md r = true /\ tzone r = tzone p /\
    (let '(n0, s0) := local_ds md p (tzone p) in let '(n, s) := local_ds md r (tzone p) in
     next_match md (mkDay (Some (weekday md n0)) None None (Some w)) (mkTod None None None) n0 (Qfloor s0) 3000
       = Some (n, Qfloor s)) /\
    tp_add_trunc md t r = TOk r.
Proof. exact add_trunc_week_only. Qed.
Print Assumptions C20_week_only.

(* HISTORY / unreachable input: week 53 with a weekday in the 360-day calendar.
   Found by this proof effort as a genuine hang of the package (the constructor
   accepted week <= 53 in every calendar, no 360-day year has more than 52
   weeks, the `while new._week_of_year != 53` loop never ended); fixed in /repo
   ("fix: bound truncated week_of_year by the calendar's longest week-year":
   MAX_WEEKS_IN_YEAR = 53/52/53/53).  Now: the constructor refuses it for every
   weekday (first part), so add_truncated never sees it; second part records what
   add_truncated would do with it for EVERY valid p: still looping at the bound. *)
Theorem C20_week53_360day_unreachable :
  (forall d, check_bounds D360 (trunc_ptp None None (Some 53) (Some d)) = false) /\
  (forall p t d, valid_tp D360 p = true -> no_time t -> t_zone t = None ->
     1 <= d <= 7 -> t_dow t = Some d /\ t_week t = Some 53 /\ t_dom t = None /\ t_doy t = None ->
     tp_add_trunc D360 t p = THang).
Proof. exact week53_360_unreachable. Qed.
Print Assumptions C20_week53_360day_unreachable.

(* what TimePoint(truncated=True, ...) accepts for the day designators *)
Theorem C20_constructor_bounds : forall md dom doy week dow,
  check_bounds md (trunc_ptp dom doy week dow) =
  in_rng dom 1 (match md with D360 => 30 | _ => 31 end) &&
  in_rng week 1 (match md with D360 => 52 | _ => 53 end) &&
  in_rng doy 1 (match md with D360 => 360 | D365 => 365 | _ => 366 end) && in_rng dow 1 7.
Proof. exact trunc_ctor_bounds. Qed.
Print Assumptions C20_constructor_bounds.

(* COVERAGE: the constructor accepts a designator value exactly when it lies in
   the range the theorems of this file assume -- every truncated week+weekday,
   weekday, day of month and day of year that can be constructed is covered by
   C20_week_weekday_least / C20_late_day_least (and their _time_ / own_zone forms) *)
Theorem C20_constructor_covered : forall md,
  (forall w d, check_bounds md (trunc_ptp None None (Some w) (Some d)) = true <->
               1 <= d <= 7 /\ 1 <= w <= (match md with D360 => 52 | _ => 53 end)) /\
  (forall d, check_bounds md (trunc_ptp None None None (Some d)) = true <-> 1 <= d <= 7) /\
  (forall d, check_bounds md (trunc_ptp (Some d) None None None) = true <->
             1 <= d <= (match md with D360 => 30 | _ => 31 end)) /\
  (forall d, check_bounds md (trunc_ptp None (Some d) None None) = true <->
             1 <= d <= (match md with D360 => 360 | D365 => 365 | _ => 366 end)).
Proof. exact ctor_accepts_iff. Qed.
Print Assumptions C20_constructor_covered.

(* ====================================================================== *)
(* 2. one day designator over its whole range: day of month 29-31 (months    *)
(*    lacking the day are skipped), day of year 361-366 (366: the next leap   *)
(*    year, up to 8 years ahead), zone of t unknown                          *)
(* ====================================================================== *)
Theorem C20_late_day_least : forall md p t,
  valid_tp md p = true -> no_time t -> t_zone t = None -> one_day_full md t ->
  exists r, tp_add_trunc md t p = TOk r /\ valid_tp md r = true /\ tzone r = tzone p /\
    (let '(n0, s0) := local_ds md p (tzone p) in let '(n, s) := local_ds md r (tzone p) in
     next_match md (mkDay (t_dow t) (t_dom t) (t_doy t) None) (mkTod None None None) n0 (Qfloor s0) 3000
       = Some (n, Qfloor s)) /\
    tp_add_trunc md t r = TOk r.
Proof. exact add_trunc_full_day_least. Qed.
Print Assumptions C20_late_day_least.

Theorem C20_late_day_time_least : forall md p t,
  valid_tp md p = true -> whole_second p -> with_hour t -> t_zone t = None -> one_day_full md t ->
  exists r, tp_add_trunc md t p = TOk r /\ valid_tp md r = true /\ tzone r = tzone p /\
    (let '(n0, s0) := local_ds md p (tzone p) in let '(n, s) := local_ds md r (tzone p) in
     next_match md (mkDay (t_dow t) (t_dom t) (t_doy t) None) (mkTod (qfl (t_hour t)) (qfl (t_min t)) (qfl (t_sec t)))
                n0 (Qfloor s0) 3000 = Some (n, Qfloor s) /\ qis_int s = true) /\
    tp_add_trunc md t r = TOk r.
Proof. exact add_trunc_full_day_time_least. Qed.
Print Assumptions C20_late_day_time_least.

(* ====================================================================== *)
(* 3. t carries its own UTC offset z: the fields are read in z (p is        *)
(*    re-zoned to z, t added, the result re-zoned to p's offset); the        *)
(*    result is in p's offset, valid, the least match in z's local time,     *)
(*    and adding t again returns it unchanged                                *)
(* ====================================================================== *)
Theorem C20_own_zone : forall md p t z,
  valid_tp md p = true -> whole_second p -> time_only t -> t_zone t = Some z -> valid_zone z = true ->
  exists r, tp_add_trunc md t p = TOk r /\ valid_tp md r = true /\ tzone r = tzone p /\
    (let '(n0, s0) := local_ds md p z in let '(n, s) := local_ds md r z in
     next_match md (mkDay None None None None) (mkTod (qfl (t_hour t)) (qfl (t_min t)) (qfl (t_sec t)))
                n0 (Qfloor s0) 2 = Some (n, Qfloor s) /\ qis_int s = true) /\
    tp_add_trunc md t r = TOk r.
Proof. exact add_trunc_own_zone_time. Qed.
Print Assumptions C20_own_zone.

Theorem C20_own_zone_day : forall md p t z,
  valid_tp md p = true -> no_time t -> day_designator md t -> t_zone t = Some z -> valid_zone z = true ->
  exists r, tp_add_trunc md t p = TOk r /\ valid_tp md r = true /\ tzone r = tzone p /\
    (let '(n0, s0) := local_ds md p z in let '(n, s) := local_ds md r z in
     next_match md (mkDay (t_dow t) (t_dom t) (t_doy t) (t_week t)) (mkTod None None None) n0 (Qfloor s0) 3000
       = Some (n, Qfloor s)) /\
    tp_add_trunc md t r = TOk r.
Proof. exact add_trunc_own_zone_day. Qed.
Print Assumptions C20_own_zone_day.

Theorem C20_own_zone_day_time : forall md p t z,
  valid_tp md p = true -> whole_second p -> with_hour t -> day_designator md t ->
  t_zone t = Some z -> valid_zone z = true ->
  exists r, tp_add_trunc md t p = TOk r /\ valid_tp md r = true /\ tzone r = tzone p /\
    (let '(n0, s0) := local_ds md p z in let '(n, s) := local_ds md r z in
     next_match md (mkDay (t_dow t) (t_dom t) (t_doy t) (t_week t))
                (mkTod (qfl (t_hour t)) (qfl (t_min t)) (qfl (t_sec t)))
                n0 (Qfloor s0) 3000 = Some (n, Qfloor s) /\ qis_int s = true) /\
    tp_add_trunc md t r = TOk r.
Proof. exact add_trunc_own_zone_day_time. Qed.
Print Assumptions C20_own_zone_day_time.

(* ====================================================================== *)
(* 4. both operand orders: `p + t` is `return t + p` in TimePoint.__add__   *)
(* ====================================================================== *)
Theorem C20_operand_order : forall md t p,
  tp_add_points md (Full p) (Trunc t) = tp_add_points md (Trunc t) (Full p) /\
  tp_add_points md (Trunc t) (Full p) = Some (tp_add_trunc md t p).
Proof. exact operand_order. Qed.
Print Assumptions C20_operand_order.

(* ====================================================================== *)
(* limits, by closed computation                                            *)
(* ====================================================================== *)
Definition tr (h : option Q) dow dom doy wk z : trunc := mkTrunc h None None dow dom doy wk z.
Definition at12 (d : date) : tp := mkTp d (HMS 12 0 0) (mkZone 0 0).

(* values the constructor REFUSES (so never reach add_truncated; the model's
   loop would not end): day 31 and day-of-year 361 in the 360-day calendar,
   day-of-year 366 in the 365-day calendar, and (since the fix) week 53 in the
   360-day calendar.  Last lines: a bare week number keeps p's weekday
   (Saturday), the first day of week 10 is five days earlier. *)
Theorem C20Ext_limits :
  tp_add_trunc D360 (tr None None (Some 31) None None None) (at12 (Cal 2000 1 1)) = THang /\
  check_bounds D360 (trunc_ptp (Some 31) None None None) = false /\
  tp_add_trunc D360 (tr None None None (Some 361) None None) (at12 (Cal 2000 1 1)) = THang /\
  check_bounds D360 (trunc_ptp None (Some 361) None None) = false /\
  tp_add_trunc D365 (tr None None None (Some 366) None None) (at12 (Cal 2000 1 1)) = THang /\
  check_bounds D365 (trunc_ptp None (Some 366) None None) = false /\
  tp_add_trunc D360 (tr None (Some 1) None None (Some 53) None) (at12 (Cal 2000 1 1)) = THang /\
  check_bounds D360 (trunc_ptp None None (Some 53) (Some 1)) = false /\
  tp_add_trunc G (tr None None None None (Some 10) None) (at12 (Cal 2000 1 1)) = TOk (at12 (Wk 2000 10 6)) /\
  next_match G (mkDay None None None (Some 10)) (mkTod None None None) 730485 43200 3000 = Some (730550, 43200) /\
  next_match G (mkDay (Some 6) None None (Some 10)) (mkTod None None None) 730485 43200 3000 = Some (730555, 43200).
Proof. exact ext_limits. Qed.
Print Assumptions C20Ext_limits.

(* the hypotheses are satisfiable, with non-trivial values (all reproduced on the
   real package): week 53 five years ahead; the same with an hour; day 31
   skipping April; day 29 skipping February 2001; day 366 seven years ahead
   (1900 is no leap year); the greatest week of the 360-day calendar; T06+05:00
   read in +05:00; day 31 at 06:00 read in -08:00 from a +05:30 point *)
Example C20Ext_ex :
  tp_add_trunc G (tr None (Some 5) None None (Some 53) None) (mkTp (Cal 2021 1 2) (HMS 0 0 0) (mkZone 0 0))
    = TOk (mkTp (Wk 2026 53 5) (HMS 0 0 0) (mkZone 0 0)) /\
  next_match G (mkDay (Some 5) None None (Some 53)) (mkTod None None None) 738157 0 3000 = Some (740347, 0) /\
  tp_add_trunc G (tr (Some 6%Q) (Some 5) None None (Some 53) None) (mkTp (Cal 2021 1 1) (HMS 7 0 0) (mkZone 0 0))
    = TOk (mkTp (Wk 2026 53 5) (HMS 6 0 0) (mkZone 0 0)) /\
  next_match G (mkDay (Some 5) None None (Some 53)) (mkTod (Some 6) None None) 738156 25200 3000
    = Some (740347, 21600) /\
  tp_add_trunc G (tr None None (Some 31) None None None) (mkTp (Cal 2001 4 1) (HMS 0 0 0) (mkZone 0 0))
    = TOk (mkTp (Cal 2001 5 31) (HMS 0 0 0) (mkZone 0 0)) /\
  tp_add_trunc G (tr None None (Some 29) None None None) (mkTp (Cal 2001 1 30) (HMS 0 0 0) (mkZone 0 0))
    = TOk (mkTp (Cal 2001 3 29) (HMS 0 0 0) (mkZone 0 0)) /\
  tp_add_trunc G (tr None None None (Some 366) None None) (mkTp (Ord 1897 1) (HMS 3 0 0) (mkZone 0 0))
    = TOk (mkTp (Ord 1904 366) (HMS 3 0 0) (mkZone 0 0)) /\
  tp_add_trunc D360 (tr None (Some 1) None None (Some 52) None) (at12 (Cal 2000 1 1)) = TOk (at12 (Wk 2001 52 1)) /\
  tp_add_trunc G (tr (Some 6%Q) None None None None (Some (mkZone 5 0))) (mkTp (Cal 2021 1 1) (HMS 7 0 0) (mkZone 0 0))
    = TOk (mkTp (Cal 2021 1 2) (HMS 1 0 0) (mkZone 0 0)) /\
  tp_add_trunc G (tr (Some 6%Q) None (Some 31) None None (Some (mkZone (-8) 0)))
                 (mkTp (Cal 2001 4 30) (HMS 23 30 15) (mkZone 5 30))
    = TOk (mkTp (Cal 2001 5 31) (HMS 19 30 0) (mkZone 5 30)) /\
  local_ds G (mkTp (Cal 2001 4 30) (HMS 23 30 15) (mkZone 5 30)) (mkZone (-8) 0) = (730970, 36015%Q) /\
  local_ds G (mkTp (Cal 2001 5 31) (HMS 19 30 0) (mkZone 5 30)) (mkZone (-8) 0) = (731001, 21600%Q) /\
  next_match G (mkDay None (Some 31) None None) (mkTod (Some 6) None None) 730970 36015 3000 = Some (731001, 21600).
Proof. vm_compute. repeat split; reflexivity. Qed.
