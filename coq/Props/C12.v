(* Props/C12.v -- property C12: a recurrence iterates exactly the series it
   denotes.  Statements only.  min_point/max_point are None (the parser never
   sets them).  iter_take md r k = the first k points __iter__ yields. *)
From Coq Require Import QArith List.
From Iso Require Import Proofs.Tac Spec.Cal Spec.Instant Spec.Series Model.Num Model.Duration Model.TimePoint
  Model.Recurrence Proofs.RecSpec.
Import ListNotations.
Open Scope Z_scope.

(* start/duration notation, exact interval of positive length, unbounded or n >= 2 *)
Theorem C12_start_duration : forall md s d reps k,
  valid_tp md s = true -> exact_pos d -> (match reps with Some n => 2 <= n | None => True end) ->
  exists r, rec_make md reps (Some s) (Some d) None = Ok r /\
    r_start r = Some s /\ r_reps r = reps /\ r_dur r = Some d /\ r_fmt r = 3 /\
    (match reps, r_end r with
     | Some n, Some e => (instant md e == instant md s + inject_Z (n - 1) * dur_len d)%Q
     | None, None => True | _, _ => False end) /\
    length (iter_take md r k) = count reps k /\
    series_ok md (iter_take md r k) (instant md s) (dur_len d) 1 s.
Proof. exact start_duration_series. Qed.
Print Assumptions C12_start_duration.

(* duration/end notation, unbounded: end, end-d, end-2d, ... *)
Theorem C12_duration_end_unbounded : forall md e d k,
  valid_tp md e = true -> exact_pos d ->
  exists r, rec_make md None None (Some d) (Some e) = Ok r /\
    r_start r = None /\ r_end r = Some e /\ r_fmt r = 4 /\
    length (iter_take md r k) = k /\
    series_ok md (iter_take md r k) (instant md e) (dur_len d) (-1) e.
Proof. exact duration_end_unbounded_series. Qed.
Print Assumptions C12_duration_end_unbounded.

(* duration/end notation, n >= 2: n increasing points, the last one the given end *)
Theorem C12_duration_end_bounded : forall md e d n k,
  valid_tp md e = true -> exact_pos d -> 2 <= n ->
  exists r, rec_make md (Some n) None (Some d) (Some e) = Ok r /\
    r_end r = Some e /\ r_reps r = Some n /\ r_fmt r = 4 /\
    length (iter_take md r k) = count (Some n) k /\
    series_ok md (iter_take md r k) (instant md e - inject_Z (n - 1) * dur_len d) (dur_len d) 1 e /\
    (forall p, nth_error (iter_take md r k) (Z.to_nat (n - 1)) = Some p -> (instant md p == instant md e)%Q).
Proof. exact duration_end_bounded_series. Qed.
Print Assumptions C12_duration_end_bounded.

(* start/second-point notation: the interval is the difference of the two points *)
Theorem C12_start_second : forall md s e reps k,
  valid_tp md s = true -> valid_tp md e = true -> (instant md s < instant md e)%Q ->
  (match reps with Some n => 2 <= n | None => True end) ->
  exists r, rec_make md reps (Some s) None (Some e) = Ok r /\
    r_start r = Some s /\ r_reps r = reps /\ r_fmt r = 1 /\
    (exists d, r_dur r = Some d /\ is_exact d = true /\ (dur_len d == instant md e - instant md s)%Q) /\
    length (iter_take md r k) = count reps k /\
    series_ok md (iter_take md r k) (instant md s) (instant md e - instant md s) 1 s.
Proof. exact start_second_series. Qed.
Print Assumptions C12_start_second.

(* one repetition or a zero interval yields exactly the anchor *)
Theorem C12_single : forall md a d reps k,
  valid_tp md a = true -> is_exact d = true -> (0 <= dur_len d)%Q ->
  (reps = Some 1 \/ ((dur_len d == 0)%Q /\ match reps with Some n => 1 <= n | None => True end)) ->
  (exists r, rec_make md reps (Some a) (Some d) None = Ok r /\ iter_take md r (S k) = [a]) /\
  (exists r, rec_make md reps None (Some d) (Some a) = Ok r /\ iter_take md r (S k) = [a]) /\
  (exists r, rec_make md (Some 1) (Some a) None (Some a) = Ok r /\ iter_take md r (S k) = [a]).
Proof. exact single_point_series. Qed.
Print Assumptions C12_single.

(* the three notations of one finite exact series are equal (hence, by the
   theorems above, iterate the same instants) *)
Theorem C12_notations_equal : forall md s d n e r1 r3 r4,
  valid_tp md s = true -> exact_pos d -> 2 <= n ->
  tp_add md s d = Some e ->
  rec_make md (Some n) (Some s) None (Some e) = Ok r1 ->
  rec_make md (Some n) (Some s) (Some d) None = Ok r3 ->
  (forall last, r_end r3 = Some last -> rec_make md (Some n) None (Some d) (Some last) = Ok r4) ->
  rec_eqb md r1 r3 = true /\ rec_eqb md r3 r4 = true /\ rec_eqb md r1 r4 = true.
Proof. exact notations_equal. Qed.
Print Assumptions C12_notations_equal.

(* any interval, nominal included: each point is the previous one plus (minus,
   when iterating backwards from an end) the interval *)
Theorem C12_step : forall md r k i p q d,
  r_dur r = Some d -> nth_error (iter_take md r k) i = Some p ->
  nth_error (iter_take md r k) (S i) = Some q ->
  Some q = (match r_start r with Some _ => tp_add md p d | None => tp_sub_dur md p d end).
Proof. exact iter_step. Qed.
Print Assumptions C12_step.

(* the full-strength statement (n points including the anchor) is false for
   bounded recurrences with nominal intervals: known finding F4 *)
Theorem C12_bounded_nominal_refuted :
  exists md n s d r, rec_make md (Some n) (Some s) (Some d) None = Ok r /\ valid_tp md s = true /\
    2 <= n /\ dur_ltb md d dzero = false /\ (length (iter_take md r 12) < Z.to_nat n)%nat /\
  exists e r', rec_make md (Some 2) None (Some (DU 0 1 2 0 0 0)) (Some e) = Ok r' /\ valid_tp md e = true /\
    length (iter_take md r' 12) = 1%nat.
Proof. exact bounded_nominal_refuted. Qed.
Print Assumptions C12_bounded_nominal_refuted.

Example C12_ex :
  match rec_make G (Some 3) (Some (mkTp (Cal 2002 5 4) (HMS 23 0 0) (mkZone 0 0))) (Some (DU 0 0 0 1 0 0)) None with
  | Ok r => iter_take G r 12
  | Err => []
  end = [mkTp (Cal 2002 5 4) (HMS 23 0 0) (mkZone 0 0); mkTp (Cal 2002 5 5) (HMS 0 0 0) (mkZone 0 0);
         mkTp (Cal 2002 5 5) (HMS 1 0 0) (mkZone 0 0)] /\
  is_exact (DU 0 0 0 1 0 0) = true /\ qltb 0 (dur_len (DU 0 0 0 1 0 0)) = true.
Proof. vm_compute. repeat split. Qed.
