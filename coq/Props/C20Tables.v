(* Props/C20Tables.v -- the calendar constants property C20 is stated with are
   the ones Calendar.set_mode derives on this run: the right-hand sides of its
   integer attributes are translated from the source (the sm_ definitions of gen/CalTables.v)
   and evaluated on the month tables of each mode.  Statements only. *)
From Coq Require Import ZArith List.
From Iso Require Import gen.CalTables Spec.Cal Model.Helpers Proofs.TablesOk.
Open Scope Z_scope.

Theorem C20_set_mode : forall md,
  let dim := DAYS_IN_MONTHS md in let diml := DAYS_IN_MONTHS_LEAP md in
  sm_DAYS_IN_YEAR dim diml = DAYS_IN_YEAR md /\
  sm_DAYS_IN_YEAR_LEAP dim diml = DAYS_IN_YEAR_LEAP md /\
  sm_ROUGH_DAYS_IN_YEAR dim diml = DAYS_IN_YEAR md /\
  sm_MAX_DAYS_IN_MONTH dim diml = MAX_DAYS_IN_MONTH md /\
  sm_MAX_WEEKS_IN_YEAR dim diml = max_weeks_in_year md /\
  sm_MONTHS_IN_YEAR dim diml = 12 /\
  sm_SECONDS_IN_HOUR dim diml = 3600 /\
  sm_SECONDS_IN_DAY dim diml = 86400.
Proof. exact set_mode_derived_ok. Qed.
Print Assumptions C20_set_mode.

(* the bound on a truncated week number (after fix F15): the longest week-year of each calendar *)
Theorem C20_week_bound :
  max_weeks_in_year G = 53 /\ max_weeks_in_year D360 = 52 /\
  max_weeks_in_year D365 = 53 /\ max_weeks_in_year D366 = 53.
Proof. exact max_weeks_values. Qed.
Print Assumptions C20_week_bound.
