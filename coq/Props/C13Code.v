(* Props/C13Code.v -- property C13 tied to the SOURCE of class TimeRecurrence:
   the query methods translated from /repo on this run (gen/GenCode5.v, see the
   header of Props/C12Code.v for the vocabulary) compute the model functions
   the theorems of Props/C13.v and C13Ext.v are about.  Statements only. *)
From Coq Require Import ZArith QArith List String.
From Iso Require Import Spec.Cal Spec.Instant Model.Num Model.Duration Model.TimePoint Model.Recurrence
  Model.RecText gen.GenCode5 Proofs.RecSpec Proofs.GenCode5Ok.
Import ListNotations.
Open Scope Z_scope.

Theorem C13_code_translator_ok : gen.GenCode5.translator_ok_code5 = true.
Proof. exact gen_code5_accepted. Qed.
Print Assumptions C13_code_translator_ok.

Theorem C13_code_in_bounds : forall md r p,
  py__get_is_in_bounds (mops md) (rep r) p = lift (in_bounds md r p).
Proof. exact gen5_in_bounds. Qed.
Print Assumptions C13_code_in_bounds.

Theorem C13_code_get_is_valid : forall md r t f, f <> O ->
  scan_rel false (py_get_is_valid (mops md) (rep r) t f) (get_is_valid md r t f).
Proof. exact gen5_get_is_valid. Qed.
Print Assumptions C13_code_get_is_valid.

Theorem C13_code_get_first_after : forall md r t f, r_start r <> None ->
  scan_rel None (py_get_first_after (mops md) (rep r) t f) (get_first_after md r t f).
Proof. exact gen5_get_first_after. Qed.
Print Assumptions C13_code_get_first_after.
