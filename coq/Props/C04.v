(* Props/C04.v -- property C04: subtracting time points inverts addition.
   Statements only. *)
From Coq Require Import QArith.
From Iso Require Import Proofs.Tac Spec.Cal Spec.Instant Model.Num Model.Duration Model.TimePoint
  Proofs.ZoneSpec Proofs.CmpSpec Proofs.SubSpec.
Open Scope Z_scope.

(* a - b is an exact duration in days/h/m/s whose length is the signed distance,
   normalised with one sign throughout *)
Theorem C04_len : forall md a b, valid_tp md a = true -> valid_tp md b = true ->
  exists dd h m s, tp_sub md a b = Some (DU 0 0 dd h m s) /\
    (dur_len (DU 0 0 dd h m s) == instant md a - instant md b)%Q /\
    ((instant md b <= instant md a)%Q ->
       0 <= dd /\ (0 <= h /\ h < 24 /\ 0 <= m /\ m < 60 /\ 0 <= s /\ s < 60)%Q) /\
    ((instant md a < instant md b)%Q ->
       dd <= 0 /\ (-(24) < h /\ h <= 0 /\ -(60) < m /\ m <= 0 /\ -(60) < s /\ s <= 0)%Q) /\
    qis_int h = true /\ qis_int m = true.
Proof. exact tp_sub_spec. Qed.
Print Assumptions C04_len.

Theorem C04_anti : forall md a b d1 d2, valid_tp md a = true -> valid_tp md b = true ->
  tp_sub md a b = Some d1 -> tp_sub md b a = Some d2 -> dur_eqb d1 (dur_mul d2 (-1)) = true.
Proof. exact tp_sub_anti. Qed.
Print Assumptions C04_anti.

(* b + (a - b) is a (same instant, written in b's representation and offset) *)
Theorem C04_add_back : forall md a b d, valid_tp md a = true -> valid_tp md b = true ->
  tp_sub md a b = Some d ->
  exists r, tp_add md b d = Some r /\ tp_cmp md r a = Some Eq /\
            rep_kind (tdate r) = rep_kind (tdate b) /\ tzone r = tzone b.
Proof. exact tp_sub_add_back. Qed.
Print Assumptions C04_add_back.

(* (p + d) - p == d for every exact d *)
Theorem C04_sub_add : forall md p d r, valid_tp md p = true -> is_exact d = true ->
  tp_add md p d = Some r -> exists d', tp_sub md r p = Some d' /\ dur_eqb d' d = true.
Proof. exact tp_add_sub. Qed.
Print Assumptions C04_sub_add.

Example C04_ex :
  tp_sub G (mkTp (Cal 2001 1 1) (HMS 0 0 0) (mkZone 0 0)) (mkTp (Ord 1999 365) (HMS 23 59 59) (mkZone 0 0))
    = Some (DU 0 0 366 0 0 1) /\
  tp_sub G (mkTp (Wk 1999 52 5) (HMS 23 59 59) (mkZone 5 30)) (mkTp (Cal 2000 12 31) (HMS 24 0 0) (mkZone 0 0))
    = Some (DU 0 0 (-366) (-5) (-30) (-1)).
Proof. vm_compute. repeat split; reflexivity. Qed.
