(* Props/C05.v -- property C05: month and year arithmetic follows calendar
   rules with end-of-period clamping.  Statements only. *)
From Coq Require Import QArith.
From Iso Require Import Proofs.Tac Spec.Cal Spec.Instant Spec.Months Model.Num Model.Helpers Model.Duration
  Model.TimePoint Proofs.MonthSpec.
Open Scope Z_scope.

(* where n single clamping steps land *)
Theorem C05_month_reached : forall md n y m d y' m' d', n <> 0 -> 1 <= m <= 12 ->
  month_shift md n (y, m, d) = (y', m', d') ->
  12 * y' + m' = 12 * y + m + n /\ 1 <= m' <= 12 /\ d' <= d /\
  (1 <= d <= mlen md y m -> 1 <= d' <= mlen md y' m') /\
  (d <= mlen md y' m' -> Z.abs n = 1 -> d' = d).
Proof. exact month_shift_reached. Qed.
Print Assumptions C05_month_reached.

(* n + k months is n months then k months (same direction) *)
Theorem C05_months_split : forall md n k c, 0 < n * k ->
  month_shift md (n + k) c = month_shift md k (month_shift md n c).
Proof. exact month_shift_split. Qed.
Print Assumptions C05_months_split.

(* add_months on a calendar-date point strictly inside its day: exactly the
   iterated clamping shift; time of day (up to the representation of the same
   rational), offset and representation untouched *)
Theorem C05_months_calendar : forall md y m d t z n,
  n <> 0 -> normal_tp md (mkTp (Cal y m d) t z) = true ->
  exists t', add_months md (mkTp (Cal y m d) t z) n =
    Some (let '(y', m', d') := month_shift md n (y, m, d) in mkTp (Cal y' m' d') t' z) /\
    tod_eqv t' t.
Proof. exact add_months_calendar_red. Qed.
Print Assumptions C05_months_calendar.

(* any representation, any valid point (incl. 24:00): via the calendar form and back *)
Theorem C05_months_any : forall md p n, n <> 0 -> valid_tp md p = true ->
  exists y m d r, get_calendar_date md (tdate p) = Some (y, m, d) /\
    add_months md p n = Some r /\
    rep_kind (tdate r) = rep_kind (tdate p) /\ tod_kind (ttod r) = tod_kind (ttod p) /\
    tzone r = tzone p /\ normal_tp md r = true /\
    (let '(y', m', d') := month_shift md n (y, m, d) in
     (instant md r == instant md (mkTp (Cal y' m' d') (ttod p) (tzone p)))%Q /\
     (normal_tod (ttod p) = true ->
        tod_eqv (ttod r) (ttod p) /\ get_calendar_date md (tdate r) = Some (y', m', d'))).
Proof. exact add_months_any. Qed.
Print Assumptions C05_months_any.

Theorem C05_months_zero : forall md p, add_months md p 0 = Some p.
Proof. exact add_months_zero. Qed.
Print Assumptions C05_months_zero.

(* years: keep month and day (29 Feb -> 28 Feb), ordinal day (366 -> 365), or
   week and weekday (week 53 -> the year's last week) *)
Theorem C05_years : forall md n,
  (forall y m d, 1 <= m <= 12 ->
     add_years md (Cal y m d) n = Cal (y + n) m (Z.min d (mlen md (y + n) m))) /\
  (forall y doy, add_years md (Ord y doy) n = Ord (y + n) (Z.min doy (ylen md (y + n)))) /\
  (forall y w d, add_years md (Wk y w d) n = Wk (y + n) (Z.min w (weeks_in md (y + n))) d) /\
  (forall dt, valid_date md dt = true -> valid_date md (add_years md dt n) = true /\
              rep_kind (add_years md dt n) = rep_kind dt).
Proof. exact add_years_spec. Qed.
Print Assumptions C05_years.

(* a mixed duration applies its exact part first, then months, then years *)
Theorem C05_order : forall md p ys mos ds h mi s,
  tp_add md p (DU ys mos ds h mi s) =
  match tp_add md p (DU 0 0 ds h mi s) with
  | None => None
  | Some p4 =>
    match (if mos =? 0 then Some p4 else add_months md p4 mos) with
    | None => None
    | Some p5 => Some (if ys =? 0 then p5 else with_date p5 (add_years md (tdate p5) ys))
    end
  end.
Proof. exact tp_add_order. Qed.
Print Assumptions C05_order.

(* the result of adding any duration to a valid point is a valid point of the same shape *)
Theorem C05_valid : forall md p d, valid_tp md p = true ->
  exists r, tp_add md p d = Some r /\ valid_tp md r = true /\
            rep_kind (tdate r) = rep_kind (tdate p) /\ tod_kind (ttod r) = tod_kind (ttod p) /\
            tzone r = tzone p.
Proof. exact tp_add_valid. Qed.
Print Assumptions C05_valid.

Example C05_ex :
  month_shift G 1 (2001, 1, 31) = (2001, 2, 28) /\ month_shift G 2 (2001, 1, 31) = (2001, 3, 28) /\
  month_shift G (-1) (2000, 3, 31) = (2000, 2, 29) /\ month_shift D360 13 (2000, 12, 30) = (2002, 1, 30) /\
  tp_add G (mkTp (Cal 2000 2 29) (HMS 12 0 0) (mkZone 0 0)) (DU 1 0 0 0 0 0)
    = Some (mkTp (Cal 2001 2 28) (HMS 12 0 0) (mkZone 0 0)) /\
  tp_add G (mkTp (Wk 2009 53 7) (HMS 0 0 0) (mkZone 0 0)) (DU 1 0 0 0 0 0)
    = Some (mkTp (Wk 2010 52 7) (HMS 0 0 0) (mkZone 0 0)) /\
  tp_add G (mkTp (Ord 2004 366) (HMS 0 0 0) (mkZone 0 0)) (DU (-1) 0 0 0 0 0)
    = Some (mkTp (Ord 2003 365) (HMS 0 0 0) (mkZone 0 0)) /\
  tp_add G (mkTp (Ord 2001 31) (HMS 0 0 0) (mkZone 0 0)) (DU 0 1 0 0 0 0)
    = Some (mkTp (Ord 2001 59) (HMS 0 0 0) (mkZone 0 0)).
Proof. vm_compute. repeat split; reflexivity. Qed.
