(* Props/C20.v -- property C20: adding a truncated time point finds the next
   matching date-time.  Statements only.

   The specification (Spec/NextMatch.v) is an executable search; the first
   group of theorems shows that it really is "the least matching date-time not
   earlier than p" (so that it can serve as the oracle); the second group ties
   the model of add_truncated to it.  This file: time fields only
   (C20_time_only), one day designator alone (C20_day_least) or with an hour
   (C20_day_time_least) for the values every month/year has.  Props/C20Ext.v
   extends it to week+weekday (incl. week 53), day 29-31, day-of-year 361-366,
   truncated points with their own zone, and both operand orders; known
   finding F10 shows least-ness is false when a day designator meets
   minute/second fields without an hour. *)
From Coq Require Import QArith Qround List.
From Iso Require Import Proofs.Tac Spec.Cal Spec.Instant Spec.NextMatch Model.Num Model.Duration Model.TimePoint
  Model.Truncated Proofs.NextMatchSpec Proofs.TruncSpec.
Import ListNotations.
Open Scope Z_scope.

(* --- the specification is well defined --- *)
Theorem C20_date_of_day_number : forall md n,
  (let '(y, doy) := ord_of_dn md n in valid_ord md y doy = true /\ dn_ord md y doy = n) /\
  (let '(y, m, d) := cal_of_dn md n in valid_cal md y m d = true /\ dn_cal md y m d = n) /\
  (let '(wy, w, d) := week_of_dn md n in valid_week md wy w d = true /\ dn_week md wy w d = n).
Proof. exact date_of_dn_spec. Qed.
Print Assumptions C20_date_of_day_number.

Definition lex_le (a b : Z * Z) : Prop := fst a < fst b \/ (fst a = fst b /\ snd a <= snd b).

(* next_match returns a match at or after the start, and nothing that matches lies in between *)
Theorem C20_next_match_least : forall md d t n0 sod0 horizon n x,
  0 < horizon -> 0 <= sod0 < 86400 ->
  next_match md d t n0 sod0 horizon = Some (n, x) ->
  lex_le (n0, sod0) (n, x) /\ day_matches md d n = true /\
  (if has_time t then sod_matches t x = true /\ 0 <= x < 86400 else x = sod0) /\
  (forall n' x', lex_le (n0, sod0) (n', x') -> n' <= n0 + horizon -> 0 <= x' < 86400 ->
     day_matches md d n' = true -> (if has_time t then sod_matches t x' = true else x' = sod0) ->
     lex_le (n, x) (n', x')).
Proof. exact next_match_least. Qed.
Print Assumptions C20_next_match_least.

(* --- the model against the specification --- *)
(* whole-second full point written hh:mm:ss *)
Definition whole_second (p : tp) : Prop :=
  match ttod p with HMS h m s => qis_int s = true | _ => False end.
Definition field_ok (o : option Q) (hi : Z) : Prop :=
  match o with Some v => qis_int v = true /\ (0 <= v)%Q /\ (v < inject_Z hi)%Q | None => True end.
Definition time_only (t : trunc) : Prop :=
  t_dow t = None /\ t_dom t = None /\ t_doy t = None /\ t_week t = None /\
  field_ok (t_hour t) 24 /\ field_ok (t_min t) 60 /\ field_ok (t_sec t) 60 /\
  (t_hour t <> None \/ t_min t <> None \/ t_sec t <> None).
Definition qfl (o : option Q) : option Z := match o with Some x => Some (Qfloor x) | None => None end.
Definition local_ds (md : mode) (p : tp) (z : zone) : Z * Q :=
  let x := (instant md p + inject_Z (zone_secs z))%Q in
  let n := Qfloor (x / inject_Z 86400) in (n, Qred (x - inject_Z (86400 * n))).

(* time fields only, zone of t unknown: the result is the least match, in p's
   offset, valid, and adding t again changes nothing *)
Theorem C20_time_only : forall md p t, valid_tp md p = true -> whole_second p -> time_only t -> t_zone t = None ->
  exists r, tp_add_trunc md t p = TOk r /\ valid_tp md r = true /\ tzone r = tzone p /\
    rep_kind (tdate r) = rep_kind (tdate p) /\
    (let '(n0, s0) := local_ds md p (tzone p) in let '(n, s) := local_ds md r (tzone p) in
     next_match md (mkDay None None None None) (mkTod (qfl (t_hour t)) (qfl (t_min t)) (qfl (t_sec t)))
                n0 (Qfloor s0) 2 = Some (n, Qfloor s) /\ qis_int s = true) /\
    tp_add_trunc md t r = TOk r.
Proof. exact add_trunc_time_only. Qed.
Print Assumptions C20_time_only.

(* one day designator, no time field: termination, match, not earlier, same time of day *)
Definition day_only (md : mode) (t : trunc) : Prop :=
  t_hour t = None /\ t_min t = None /\ t_sec t = None /\ t_zone t = None /\
  ((exists d, 1 <= d <= 7 /\ t_dow t = Some d /\ t_dom t = None /\ t_doy t = None /\ t_week t = None) \/
   (exists d, 1 <= d <= 28 /\ t_dom t = Some d /\ t_dow t = None /\ t_doy t = None /\ t_week t = None) \/
   (exists d, 1 <= d <= 360 /\ t_doy t = Some d /\ t_dow t = None /\ t_dom t = None /\ t_week t = None)).
Theorem C20_day_partial : forall md p t, normal_tp md p = true -> day_only md t ->
  exists r, tp_add_trunc md t p = TOk r /\ valid_tp md r = true /\ tzone r = tzone p /\
    (instant md p <= instant md r)%Q /\
    (let '(n, _) := local_ds md r (tzone p) in
     day_matches md (mkDay (t_dow t) (t_dom t) (t_doy t) None) n = true) /\
    tod_secs (ttod r) == tod_secs (ttod p).
Proof. exact add_trunc_day_partial. Qed.
Print Assumptions C20_day_partial.

(* hour 24 never matches: the stepping loop runs to its bound (known finding F8b),
   and an hour-less day+minute target is not least (known finding F10) *)
Theorem C20_refuted :
  tp_add_trunc G (mkTrunc (Some 24%Q) None None None None None None None)
               (mkTp (Cal 2000 1 1) (HMS 5 0 0) (mkZone 0 0)) = THang /\
  tp_add_trunc G (mkTrunc None (Some 39%Q) None None (Some 1) None None None)
               (mkTp (Cal 2009 2 28) (HMS 12 0 0) (mkZone 0 0))
    = TOk (mkTp (Cal 2009 3 1) (HMS 12 39 0) (mkZone 0 0)) /\
  next_match G (mkDay None (Some 1) None None) (mkTod None (Some 39) None) 733831 43200 3000 = Some (733832, 2340).
Proof. exact trunc_refuted. Qed.
Print Assumptions C20_refuted.

Example C20_ex :
  tp_add_trunc G (mkTrunc (Some 6%Q) None None None None None None None)
               (mkTp (Cal 2000 1 1) (HMS 12 0 0) (mkZone 0 0))
    = TOk (mkTp (Cal 2000 1 2) (HMS 6 0 0) (mkZone 0 0)) /\
  tp_add_trunc G (mkTrunc None None None None None (Some 366) None None)
               (mkTp (Ord 2001 1) (HMS 12 0 0) (mkZone 0 0))
    = TOk (mkTp (Ord 2004 366) (HMS 12 0 0) (mkZone 0 0)).
Proof. vm_compute. split; reflexivity. Qed.

(* --- least-ness with a day designator: the two shapes where it holds --- *)
From Iso Require Import Proofs.TruncLeastSpec.

(* one day designator, no time field: the day reached is the LEAST matching day
   not earlier than p's local day (the second of day is kept) *)
Theorem C20_day_least : forall md p t, normal_tp md p = true -> day_only md t ->
  exists r, tp_add_trunc md t p = TOk r /\ valid_tp md r = true /\ tzone r = tzone p /\
    (let '(n0, s0) := local_ds md p (tzone p) in let '(n, s) := local_ds md r (tzone p) in
     next_match md (mkDay (t_dow t) (t_dom t) (t_doy t) None) (mkTod None None None) n0 (Qfloor s0) 3000
       = Some (n, Qfloor s)).
Proof. exact add_trunc_day_least. Qed.
Print Assumptions C20_day_least.

(* one day designator together with an hour (minute, second optional), zone of
   t unknown: the result is the least match, valid, in p's offset, and adding t
   again changes nothing *)
Definition day_time (md : mode) (t : trunc) : Prop :=
  t_hour t <> None /\ field_ok (t_hour t) 24 /\ field_ok (t_min t) 60 /\ field_ok (t_sec t) 60 /\ t_zone t = None /\
  ((exists d, 1 <= d <= 7 /\ t_dow t = Some d /\ t_dom t = None /\ t_doy t = None /\ t_week t = None) \/
   (exists d, 1 <= d <= 28 /\ t_dom t = Some d /\ t_dow t = None /\ t_doy t = None /\ t_week t = None) \/
   (exists d, 1 <= d <= 360 /\ t_doy t = Some d /\ t_dow t = None /\ t_dom t = None /\ t_week t = None)).
Theorem C20_day_time_least : forall md p t, valid_tp md p = true -> whole_second p -> day_time md t ->
  exists r, tp_add_trunc md t p = TOk r /\ valid_tp md r = true /\ tzone r = tzone p /\
    (let '(n0, s0) := local_ds md p (tzone p) in let '(n, s) := local_ds md r (tzone p) in
     next_match md (mkDay (t_dow t) (t_dom t) (t_doy t) None)
                (mkTod (qfl (t_hour t)) (qfl (t_min t)) (qfl (t_sec t)))
                n0 (Qfloor s0) 3000 = Some (n, Qfloor s) /\ qis_int s = true) /\
    tp_add_trunc md t r = TOk r.
Proof. exact add_trunc_day_time_least. Qed.
Print Assumptions C20_day_time_least.

Example C20_least_ex :
  tp_add_trunc G (mkTrunc (Some 12%Q) (Some 39%Q) None None (Some 1) None None None)
               (mkTp (Cal 2009 2 28) (HMS 13 0 0) (mkZone 0 0))
    = TOk (mkTp (Cal 2009 3 1) (HMS 12 39 0) (mkZone 0 0)) /\
  next_match G (mkDay None (Some 1) None None) (mkTod (Some 12) (Some 39) None) 733831 46800 3000
    = Some (733832, 45540) /\
  tp_add_trunc G (mkTrunc None None None (Some 1) None None None None)
               (mkTp (Cal 2009 2 28) (HMS 13 0 0) (mkZone 0 0))
    = TOk (mkTp (Wk 2009 10 1) (HMS 13 0 0) (mkZone 0 0)) /\
  next_match G (mkDay (Some 1) None None None) (mkTod None None None) 733831 46800 3000 = Some (733833, 46800).
Proof. vm_compute. repeat split; reflexivity. Qed.
