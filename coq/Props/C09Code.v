(* Props/C09Code.v -- property C09 ("impossible dates, times and zones are refused") of the CODE:
   TimePoint.__init__, TimePoint._check_bounds and TimeZone.__init__ as translated from their
   bodies in data.py on every run (gen/GenCode7.v, tools/translate_code7.py), proved equal to the
   hand-written model of the constructor (Model/Parse.v: construct, check_bounds; Spec/Instant.v:
   valid_zone) that Props/C09.v is stated about.  Statements only; proofs in Proofs/GenCode7Ok.v.
   See notes/GENCODE7_REPORT.md. *)
From Coq Require Import QArith List String.
Set Warnings "-notation-overridden".
From Iso Require Import Proofs.Tac Spec.Cal Spec.Instant Model.Num Model.Helpers Model.Duration Model.TimePoint
  Model.Parse Model.DriverText gen.GenCode4 gen.GenCode7 Proofs.GenCode2Ok Proofs.GenCode4Base Proofs.ConstructSpec
  Proofs.GenCode7Ok.
From Iso Require Model.Truncated Model.Driver.
Set Warnings "+notation-overridden".
Import ListNotations.
Open Scope Z_scope.

(* the three entry points were inside the translated subset on this run *)
Theorem C09_code_translator_ok : translator_ok_code7 = true.
Proof. exact gen_code7_accepted. Qed.
Print Assumptions C09_code_translator_ok.

(* the CALENDAR attributes the code reads, as Calendar.set_mode computes them (its right-hand sides
   are gen/CalTables.v's sm_X definitions), are the constants the model is written with *)
Theorem C09_code_calendar : forall md,
  c7_DAYS_IN_YEAR (cal7_of md) = DAYS_IN_YEAR md /\
  c7_DAYS_IN_YEAR_LEAP (cal7_of md) = DAYS_IN_YEAR_LEAP md /\
  c7_DAYS_IN_MONTHS (cal7_of md) = DAYS_IN_MONTHS md /\
  c7_DAYS_IN_MONTHS_LEAP (cal7_of md) = DAYS_IN_MONTHS_LEAP md /\
  c7_INDEXED_DAYS_IN_MONTHS (cal7_of md) = idx_months md /\
  c7_INDEXED_DAYS_IN_MONTHS_LEAP (cal7_of md) = idx_months_leap md /\
  c7_MONTHS_IN_YEAR (cal7_of md) = 12 /\
  c7_SECONDS_IN_HOUR (cal7_of md) = 3600 /\
  c7_SECONDS_IN_DAY (cal7_of md) = 86400 /\
  c7_ROUGH_DAYS_IN_YEAR (cal7_of md) = DAYS_IN_YEAR md /\
  c7_MAX_DAYS_IN_MONTH (cal7_of md) = MAX_DAYS_IN_MONTH md /\
  c7_MAX_WEEKS_IN_YEAR (cal7_of md) = max_weeks_in_year md.
Proof. exact cal7_values. Qed.
Print Assumptions C09_code_calendar.

(* (1) _check_bounds (with _bounds_checker and the calendar helpers of phases 1-2) on ANY object state:
   returns exactly when the model's check_bounds accepts the parsed point the state denotes,
   BadInputError otherwise -- year-None branches and the 24:00 rule included *)
Theorem C09_code_check_bounds : forall md o,
  py_TimePoint__check_bounds (cal7_of md) o =
  if check_bounds md (abs7 o) then Ok tt else Raise BadInputError.
Proof. exact gen7_check_bounds. Qed.
Print Assumptions C09_code_check_bounds.

(* ... and on a truncated point without year and month it is the Driver-level trunc_bounds_ok *)
Theorem C09_code_check_bounds_truncated : forall md o, s_year o = None -> s_month_of_year o = None ->
  py_TimePoint__check_bounds (cal7_of md) o =
  if Driver.trunc_bounds_ok md (trunc_of o) then Ok tt else Raise BadInputError.
Proof. exact gen7_check_bounds_trunc. Qed.
Print Assumptions C09_code_check_bounds_truncated.

(* (2) TimeZone.__init__(hours, minutes, unknown): accepted exactly when the zone is Spec-valid
   (a missing component is 0); the state it leaves *)
Theorem C09_code_time_zone_init : forall md zho zmo u,
  py_TimeZone___init__ (cal7_of md) zho zmo u =
  if valid_zone (tz_args zho zmo)
  then Ok (mkTimeZone (zh (tz_args zho zmo)) (zm (tz_args zho zmo)) u)
  else Raise BadInputError.
Proof. exact gen7_tz_init. Qed.
Print Assumptions C09_code_time_zone_init.

(* (3) TimePoint.__init__ on the keyword arguments the model's `construct` takes (whole-number time
   fields: ints or integral floats; a valid truncated_property): the state it leaves is the model's
   point (holds7: slot by slot, the time slots up to ==), BadInputError exactly where the model says
   EBadInput, and no other outcome *)
Theorem C09_code_init :
  forall md ned yr mo wk doy dom dow hour hdec minute mdec sec sdec zho zmo fmt tr tdf tprop dur,
  oq_int hour = true -> oq_int minute = true -> oq_int sec = true -> tprop_ok tprop = true ->
  init_rel (py_TimePoint___init__ (cal7_of md) ned yr mo wk doy dom dow hour hdec minute mdec sec sdec zho zmo
              fmt tr tdf tprop dur)
           (construct md yr mo dom doy wk dow hour hdec minute mdec sec sdec (zn_of zho zmo) tr (ostr tprop) ned
              (ostr fmt) dur) ned tprop tdf fmt.
Proof. exact gen7_init. Qed.
Print Assumptions C09_code_init.

Theorem C09_code_init_dichotomy :
  forall md ned yr mo wk doy dom dow hour hdec minute mdec sec sdec zho zmo fmt tr tdf tprop dur,
  oq_int hour = true -> oq_int minute = true -> oq_int sec = true -> tprop_ok tprop = true ->
  let c := py_TimePoint___init__ (cal7_of md) ned yr mo wk doy dom dow hour hdec minute mdec sec sdec zho zmo
             fmt tr tdf tprop dur in
  let m := construct md yr mo dom doy wk dow hour hdec minute mdec sec sdec (zn_of zho zmo) tr (ostr tprop) ned
             (ostr fmt) dur in
  (exists o p, c = Ok o /\ m = POk p /\ holds7 o p ned tprop tdf fmt) \/
  (c = Raise BadInputError /\ m = PErr EBadInput).
Proof. exact gen7_init_dichotomy. Qed.
Print Assumptions C09_code_init_dichotomy.

(* outside the model's domain the code answers for itself: a time field that is not a whole number
   (hour_of_day=1.5) and a truncated_property other than the two names are refused *)
Theorem C09_code_init_non_integer :
  forall md ned yr mo wk doy dom dow hour hdec minute mdec sec sdec zho zmo fmt tr tdf tprop dur,
  oq_int hour && oq_int minute && oq_int sec = false -> tprop_ok tprop = true ->
  py_TimePoint___init__ (cal7_of md) ned yr mo wk doy dom dow hour hdec minute mdec sec sdec zho zmo
    fmt tr tdf tprop dur = Raise BadInputError.
Proof. exact gen7_init_nonint. Qed.
Print Assumptions C09_code_init_non_integer.

Theorem C09_code_init_bad_truncated_property :
  forall md ned yr mo wk doy dom dow hour hdec minute mdec sec sdec zho zmo fmt tr tdf tprop dur,
  tprop_ok tprop = false ->
  py_TimePoint___init__ (cal7_of md) ned yr mo wk doy dom dow hour hdec minute mdec sec sdec zho zmo
    fmt tr tdf tprop dur = Raise BadInputError.
Proof. exact gen7_init_bad_tprop. Qed.
Print Assumptions C09_code_init_bad_truncated_property.

(* what phase 4 (Props/C01Code.v) takes for granted: a full constructor call that returns leaves
   `rep` of a VALID time point (up to the representation of the rationals) *)
Theorem C09_code_init_leaves_rep :
  forall md ned yr mo wk doy dom dow hour hdec minute mdec sec sdec zho zmo fmt tdf tprop o,
  oq_int hour = true -> oq_int minute = true -> oq_int sec = true -> tprop_ok tprop = true ->
  py_TimePoint___init__ (cal7_of md) ned yr mo wk doy dom dow hour hdec minute mdec sec sdec zho zmo
    fmt false tdf tprop false = Ok o ->
  exists q q', valid_tp md q = true /\ tp_equiv q' q /\ o = rep (mkFlags ned tprop tdf fmt) q'.
Proof. exact gen7_init_rep. Qed.
Print Assumptions C09_code_init_leaves_rep.

(* property C09 of the code itself: the constructor accepts exactly the Spec-valid field
   combinations and raises BadInputError otherwise (Props/C09.v's three `iff`s through C09_code_init) *)
Theorem C09_code_calendar_iff : forall md y m d h mi s zho zmo tdf,
  tod_ints h mi s = true ->
  let c := py_TimePoint___init__ (cal7_of md) 0 (Some y) (Some m) None None (Some d) None h None mi None s None
             zho zmo None false tdf None false in
  if valid_cal md y m d && tod_fields_ok h mi s && zone_fields_ok (zn_of zho zmo)
  then exists o, c = Ok o else c = Raise BadInputError.
Proof. exact gen7_calendar. Qed.
Print Assumptions C09_code_calendar_iff.

Theorem C09_code_ordinal_iff : forall md y doy h mi s zho zmo tdf,
  tod_ints h mi s = true ->
  let c := py_TimePoint___init__ (cal7_of md) 0 (Some y) None None (Some doy) None None h None mi None s None
             zho zmo None false tdf None false in
  if valid_ord md y doy && tod_fields_ok h mi s && zone_fields_ok (zn_of zho zmo)
  then exists o, c = Ok o else c = Raise BadInputError.
Proof. exact gen7_ordinal. Qed.
Print Assumptions C09_code_ordinal_iff.

Theorem C09_code_week_iff : forall md y w dw h mi s zho zmo tdf,
  tod_ints h mi s = true ->
  let c := py_TimePoint___init__ (cal7_of md) 0 (Some y) None (Some w) None None (Some dw) h None mi None s None
             zho zmo None false tdf None false in
  if valid_week md y w dw && tod_fields_ok h mi s && zone_fields_ok (zn_of zho zmo)
  then exists o, c = Ok o else c = Raise BadInputError.
Proof. exact gen7_week. Qed.
Print Assumptions C09_code_week_iff.

(* the generated definitions evaluated on concrete arguments; every expected value was produced by the
   real package (tools/gencode7_diff.py --example, /venv/bin/python with PYTHONPATH=/repo):
   leaves7 c o: c returns and leaves the state o; raises_bad c: BadInputError; _check_bounds on states
   with poked slots; 30 February, 29 February 2001, 31 January in the 360-day calendar, day 366, week 53,
   24:00 / 24:01 / 24:00:01, decimals with and without their unit, hour_of_day=1.5, zones, conflicts,
   year 0, truncated points (week 53 in the 360-day calendar, day 31 without a month), is_duration *)
Example C09_code_ex :
  leaves7 (py_TimePoint___init__ (cal7_of G) 0 (Some 2000) (Some 2) None None (Some 29) None (Some (Qmake 12 1)) None (Some (Qmake 30 1)) None (Some (Qmake 15 1)) None (Some 1) (Some 30) None false None None false) (mkTimePoint 0 (Some 2000) (Some 2) None (Some 29) None None (Some (Qmake 12 1)) (Some (Qmake 30 1)) (Some (Qmake 15 1)) false None None None (mkTimeZone 1 30 false)) = true /\
  raises_bad (py_TimePoint___init__ (cal7_of G) 0 (Some 2000) (Some 2) None None (Some 30) None None None None None None None None None None false None None false) = true /\
  raises_bad (py_TimePoint___init__ (cal7_of G) 0 (Some 2001) (Some 2) None None (Some 29) None (Some (Qmake 0 1)) None None None None None None None None false None None false) = true /\
  leaves7 (py_TimePoint___init__ (cal7_of D360) 0 (Some 2001) (Some 2) None None (Some 30) None (Some (Qmake 0 1)) None None None None None None None None false None None false) (mkTimePoint 0 (Some 2001) (Some 2) None (Some 30) None None (Some (Qmake 0 1)) (Some (Qmake 0 1)) (Some (Qmake 0 1)) false None None None (mkTimeZone 0 0 false)) = true /\
  raises_bad (py_TimePoint___init__ (cal7_of D360) 0 (Some 2001) (Some 1) None None (Some 31) None None None None None None None None None None false None None false) = true /\
  leaves7 (py_TimePoint___init__ (cal7_of G) 0 (Some 2000) None None (Some 366) None None None None None None None None None None None false None None false) (mkTimePoint 0 (Some 2000) None (Some 366) None None None (Some (Qmake 0 1)) (Some (Qmake 0 1)) (Some (Qmake 0 1)) false None None None (mkTimeZone 0 0 false)) = true /\
  raises_bad (py_TimePoint___init__ (cal7_of G) 0 (Some 2001) None None (Some 366) None None None None None None None None None None None false None None false) = true /\
  raises_bad (py_TimePoint___init__ (cal7_of D360) 0 (Some 2001) None None (Some 361) None None None None None None None None None None None false None None false) = true /\
  leaves7 (py_TimePoint___init__ (cal7_of G) 0 (Some 2004) None (Some 53) None None (Some 7) None None None None None None None None None false None None false) (mkTimePoint 0 (Some 2004) None None None (Some 7) (Some 53) (Some (Qmake 0 1)) (Some (Qmake 0 1)) (Some (Qmake 0 1)) false None None None (mkTimeZone 0 0 false)) = true /\
  raises_bad (py_TimePoint___init__ (cal7_of G) 0 (Some 2005) None (Some 53) None None (Some 1) None None None None None None None None None false None None false) = true /\
  leaves7 (py_TimePoint___init__ (cal7_of G) 0 (Some 2000) None (Some 10) None None None None None None None None None None None None false None None false) (mkTimePoint 0 (Some 2000) None None None (Some 1) (Some 10) (Some (Qmake 0 1)) (Some (Qmake 0 1)) (Some (Qmake 0 1)) false None None None (mkTimeZone 0 0 false)) = true /\
  leaves7 (py_TimePoint___init__ (cal7_of G) 0 (Some 2000) None None None None None None None None None None None None None None false None None false) (mkTimePoint 0 (Some 2000) (Some 1) None (Some 1) None None (Some (Qmake 0 1)) (Some (Qmake 0 1)) (Some (Qmake 0 1)) false None None None (mkTimeZone 0 0 false)) = true /\
  leaves7 (py_TimePoint___init__ (cal7_of G) 0 (Some 2000) (Some 1) None None (Some 1) None (Some (Qmake 24 1)) None None None None None None None None false None None false) (mkTimePoint 0 (Some 2000) (Some 1) None (Some 1) None None (Some (Qmake 24 1)) (Some (Qmake 0 1)) (Some (Qmake 0 1)) false None None None (mkTimeZone 0 0 false)) = true /\
  raises_bad (py_TimePoint___init__ (cal7_of G) 0 (Some 2000) (Some 1) None None (Some 1) None (Some (Qmake 24 1)) None (Some (Qmake 1 1)) None None None None None None false None None false) = true /\
  raises_bad (py_TimePoint___init__ (cal7_of G) 0 (Some 2000) (Some 1) None None (Some 1) None (Some (Qmake 24 1)) None (Some (Qmake 0 1)) None (Some (Qmake 1 1)) None None None None false None None false) = true /\
  raises_bad (py_TimePoint___init__ (cal7_of G) 0 (Some 2000) (Some 1) None None (Some 1) None (Some (Qmake 23 1)) None (Some (Qmake 60 1)) None None None None None None false None None false) = true /\
  leaves7 (py_TimePoint___init__ (cal7_of G) 0 (Some 2000) (Some 1) None None (Some 1) None (Some (Qmake 12 1)) (Some (Qmake 1 2)) None None None None None None None false None None false) (mkTimePoint 0 (Some 2000) (Some 1) None (Some 1) None None (Some (Qmake 25 2)) None None false None None None (mkTimeZone 0 0 false)) = true /\
  raises_bad (py_TimePoint___init__ (cal7_of G) 0 (Some 2000) (Some 1) None None (Some 1) None (Some (Qmake 12 1)) (Some (Qmake 1 2)) (Some (Qmake 3 1)) None None None None None None false None None false) = true /\
  raises_bad (py_TimePoint___init__ (cal7_of G) 0 (Some 2000) (Some 1) None None (Some 1) None None (Some (Qmake 1 2)) None None None None None None None false None None false) = true /\
  raises_bad (py_TimePoint___init__ (cal7_of G) 0 (Some 2000) (Some 1) None None (Some 1) None (Some (Qmake 12 1)) (Some (Qmake 1 1)) None None None None None None None false None None false) = true /\
  leaves7 (py_TimePoint___init__ (cal7_of G) 0 (Some 2000) (Some 1) None None (Some 1) None (Some (Qmake 12 1)) None (Some (Qmake 30 1)) (Some (Qmake 1 4)) None None None None None false None None false) (mkTimePoint 0 (Some 2000) (Some 1) None (Some 1) None None (Some (Qmake 12 1)) (Some (Qmake 121 4)) None false None None None (mkTimeZone 0 0 false)) = true /\
  leaves7 (py_TimePoint___init__ (cal7_of G) 0 (Some 2000) (Some 1) None None (Some 1) None (Some (Qmake 12 1)) None (Some (Qmake 30 1)) None (Some (Qmake 59 1)) (Some (Qmake 3 4)) None None None false None None false) (mkTimePoint 0 (Some 2000) (Some 1) None (Some 1) None None (Some (Qmake 12 1)) (Some (Qmake 30 1)) (Some (Qmake 239 4)) false None None None (mkTimeZone 0 0 false)) = true /\
  raises_bad (py_TimePoint___init__ (cal7_of G) 0 (Some 2000) (Some 1) None None (Some 1) None (Some (Qmake 3 2)) None None None None None None None None false None None false) = true /\
  leaves7 (py_TimePoint___init__ (cal7_of G) 0 (Some 2000) (Some 1) None None (Some 1) None (Some (Qmake 12 1)) None (Some (Qmake 30 1)) None None None None None None false None None false) (mkTimePoint 0 (Some 2000) (Some 1) None (Some 1) None None (Some (Qmake 12 1)) (Some (Qmake 30 1)) (Some (Qmake 0 1)) false None None None (mkTimeZone 0 0 false)) = true /\
  raises_bad (py_TimePoint___init__ (cal7_of G) 0 (Some 2000) (Some 1) None None (Some 1) None None None None None None None (Some 0) (Some 60) None false None None false) = true /\
  raises_bad (py_TimePoint___init__ (cal7_of G) 0 (Some 2000) (Some 1) None None (Some 1) None None None None None None None (Some (-5)) (Some 30) None false None None false) = true /\
  leaves7 (py_TimePoint___init__ (cal7_of G) 0 (Some 2000) (Some 1) None None (Some 1) None None None None None None None (Some (-5)) (Some (-30)) None false None None false) (mkTimePoint 0 (Some 2000) (Some 1) None (Some 1) None None (Some (Qmake 0 1)) (Some (Qmake 0 1)) (Some (Qmake 0 1)) false None None None (mkTimeZone (-5) (-30) false)) = true /\
  raises_bad (py_TimePoint___init__ (cal7_of G) 0 (Some 2000) (Some 1) None None (Some 1) None None None None None None None (Some 100) None None false None None false) = true /\
  leaves7 (py_TimePoint___init__ (cal7_of G) 0 (Some 2000) (Some 1) None None (Some 1) None None None None None None None None (Some (-45)) None false None None false) (mkTimePoint 0 (Some 2000) (Some 1) None (Some 1) None None (Some (Qmake 0 1)) (Some (Qmake 0 1)) (Some (Qmake 0 1)) false None None None (mkTimeZone 0 (-45) false)) = true /\
  raises_bad (py_TimePoint___init__ (cal7_of G) 0 (Some 2000) (Some 1) None (Some 3) None None None None None None None None None None None false None None false) = true /\
  raises_bad (py_TimePoint___init__ (cal7_of G) 0 (Some 2000) (Some 1) (Some 3) None None None None None None None None None None None None false None None false) = true /\
  raises_bad (py_TimePoint___init__ (cal7_of G) 0 (Some 2000) None (Some 3) (Some 3) None None None None None None None None None None None false None None false) = true /\
  raises_bad (py_TimePoint___init__ (cal7_of G) 0 (Some 2000) (Some 0) None (Some 3) None None None None None None None None None None None false None None false) = true /\
  raises_bad (py_TimePoint___init__ (cal7_of G) 0 (Some 2000) (Some 0) None None None None None None None None None None None None None false None None false) = true /\
  raises_bad (py_TimePoint___init__ (cal7_of G) 0 None (Some 3) None None (Some 4) None None None None None None None None None None false None None false) = true /\
  leaves7 (py_TimePoint___init__ (cal7_of G) 0 (Some 0) (Some 2) None None (Some 29) None None None None None None None None None None false None None false) (mkTimePoint 0 (Some 0) (Some 2) None (Some 29) None None (Some (Qmake 0 1)) (Some (Qmake 0 1)) (Some (Qmake 0 1)) false None None None (mkTimeZone 0 0 false)) = true /\
  raises_bad (py_TimePoint___init__ (cal7_of G) 2 (Some (-1)) (Some 2) None None (Some 29) None None None None None None None None None None false None None false) = true /\
  raises_bad (py_TimePoint___init__ (cal7_of G) 0 None (Some 2) None None (Some 30) None None None None None None None None None None true None None false) = true /\
  leaves7 (py_TimePoint___init__ (cal7_of G) 0 None (Some 2) None None (Some 29) None None None None None None None None None None true None (Some "year_of_decade"%string) false) (mkTimePoint 0 None (Some 2) None (Some 29) None None None None None true (Some "year_of_decade"%string) None None (mkTimeZone 0 0 true)) = true /\
  raises_bad (py_TimePoint___init__ (cal7_of D360) 0 None None None None (Some 31) None None None None None None None None None None true None None false) = true /\
  leaves7 (py_TimePoint___init__ (cal7_of D360) 0 None None None None (Some 30) None None None None None None None (Some 0) None None true None None false) (mkTimePoint 0 None None None (Some 30) None None None None None true None None None (mkTimeZone 0 0 false)) = true /\
  raises_bad (py_TimePoint___init__ (cal7_of D360) 0 None None (Some 53) None None None None None None None None None None None None true None None false) = true /\
  leaves7 (py_TimePoint___init__ (cal7_of G) 0 None None (Some 53) None None (Some 7) (Some (Qmake 5 1)) None None None None None None None None true None None false) (mkTimePoint 0 None None None None (Some 7) (Some 53) (Some (Qmake 5 1)) None None true None None None (mkTimeZone 0 0 true)) = true /\
  leaves7 (py_TimePoint___init__ (cal7_of G) 0 None None None (Some 366) None None None None (Some (Qmake 4 1)) None None None None None None true None None false) (mkTimePoint 0 None None (Some 366) None None None None (Some (Qmake 4 1)) None true None None None (mkTimeZone 0 0 true)) = true /\
  raises_bad (py_TimePoint___init__ (cal7_of G) 0 (Some 2001) None None (Some 366) None None None None None None None None None None None true None None false) = true /\
  raises_bad (py_TimePoint___init__ (cal7_of G) 0 None None None None (Some 3) None None None None None None None None None None true None (Some "year_of_millennium"%string) false) = true /\
  leaves7 (py_TimePoint___init__ (cal7_of G) 0 (Some 2000) (Some 13) None None (Some 40) None None None None None None None None None None false None None true) (mkTimePoint 0 (Some 2000) (Some 13) None (Some 40) None None (Some (Qmake 0 1)) (Some (Qmake 0 1)) (Some (Qmake 0 1)) false None None None (mkTimeZone 0 0 false)) = true /\
  leaves7 (py_TimePoint___init__ (cal7_of G) 0 (Some 2000) None None None None None None None None None None None None None (Some "CCYY"%string) false (Some "-YY"%string) None false) (mkTimePoint 0 (Some 2000) (Some 1) None (Some 1) None None (Some (Qmake 0 1)) (Some (Qmake 0 1)) (Some (Qmake 0 1)) false None (Some "-YY"%string) (Some "CCYY"%string) (mkTimeZone 0 0 false)) = true /\
  leaves_tz (py_TimeZone___init__ (cal7_of G) None None true) (mkTimeZone 0 0 true) = true /\
  leaves_tz (py_TimeZone___init__ (cal7_of G) (Some 5) (Some 30) false) (mkTimeZone 5 30 false) = true /\
  raises_bad (py_TimeZone___init__ (cal7_of G) (Some 5) (Some (-30)) false) = true /\
  raises_bad (py_TimeZone___init__ (cal7_of G) (Some (-5)) (Some 30) false) = true /\
  leaves_tz (py_TimeZone___init__ (cal7_of G) (Some 0) (Some (-59)) false) (mkTimeZone 0 (-59) false) = true /\
  leaves_tz (py_TimeZone___init__ (cal7_of G) (Some 99) (Some 59) false) (mkTimeZone 99 59 false) = true /\
  raises_bad (py_TimeZone___init__ (cal7_of G) (Some (-100)) (Some 0) false) = true /\
  raises_bad (py_TimeZone___init__ (cal7_of G) None (Some 60) false) = true /\
  returns_none (py_TimePoint__check_bounds (cal7_of G) (mkTimePoint 0 None (Some 2) None (Some 29) None None (Some (Qmake 0 1)) (Some (Qmake 0 1)) (Some (Qmake 0 1)) false None None None (mkTimeZone 0 0 false))) = true /\
  raises_bad (py_TimePoint__check_bounds (cal7_of G) (mkTimePoint 0 None (Some 2) None (Some 30) None None (Some (Qmake 0 1)) (Some (Qmake 0 1)) (Some (Qmake 0 1)) false None None None (mkTimeZone 0 0 false))) = true /\
  returns_none (py_TimePoint__check_bounds (cal7_of G) (mkTimePoint 0 None None None (Some 31) None None (Some (Qmake 0 1)) (Some (Qmake 0 1)) (Some (Qmake 0 1)) false None None None (mkTimeZone 0 0 false))) = true /\
  raises_bad (py_TimePoint__check_bounds (cal7_of D360) (mkTimePoint 0 None None None (Some 31) None None (Some (Qmake 0 1)) (Some (Qmake 0 1)) (Some (Qmake 0 1)) false None None None (mkTimeZone 0 0 false))) = true /\
  returns_none (py_TimePoint__check_bounds (cal7_of D360) (mkTimePoint 0 None (Some 1) (Some 360) (Some 1) None (Some 52) (Some (Qmake 0 1)) (Some (Qmake 0 1)) (Some (Qmake 0 1)) false None None None (mkTimeZone 0 0 false))) = true /\
  raises_bad (py_TimePoint__check_bounds (cal7_of D360) (mkTimePoint 0 None (Some 1) None (Some 1) None (Some 53) (Some (Qmake 0 1)) (Some (Qmake 0 1)) (Some (Qmake 0 1)) false None None None (mkTimeZone 0 0 false))) = true /\
  raises_bad (py_TimePoint__check_bounds (cal7_of G) (mkTimePoint 0 (Some 0) (Some 1) None (Some 1) None (Some 53) (Some (Qmake 0 1)) (Some (Qmake 0 1)) (Some (Qmake 0 1)) false None None None (mkTimeZone 0 0 false))) = true /\
  returns_none (py_TimePoint__check_bounds (cal7_of G) (mkTimePoint 0 (Some 0) (Some 1) (Some 366) (Some 1) None (Some 52) (Some (Qmake 0 1)) (Some (Qmake 0 1)) (Some (Qmake 0 1)) false None None None (mkTimeZone 0 0 false))) = true /\
  returns_none (py_TimePoint__check_bounds (cal7_of G) (mkTimePoint 0 (Some 2000) (Some 1) None (Some 1) None None (Some (Qmake 24 1)) (Some (Qmake 0 1)) (Some (Qmake 0 1)) false None None None (mkTimeZone 0 0 false))) = true /\
  raises_bad (py_TimePoint__check_bounds (cal7_of G) (mkTimePoint 0 (Some 2000) (Some 1) None (Some 1) None None (Some (Qmake 24 1)) (Some (Qmake 0 1)) (Some (Qmake 1 2)) false None None None (mkTimeZone 0 0 false))) = true /\
  returns_none (py_TimePoint__check_bounds (cal7_of G) (mkTimePoint 0 (Some 2000) (Some 1) None (Some 1) None None (Some (Qmake 24 1)) None None false None None None (mkTimeZone 0 0 false))) = true /\
  returns_none (py_TimePoint__check_bounds (cal7_of G) (mkTimePoint 0 (Some 2000) (Some 1) None (Some 1) None None (Some (Qmake 47 2)) (Some (Qmake 239 4)) None false None None None (mkTimeZone 0 0 false))) = true /\
  raises_bad (py_TimePoint__check_bounds (cal7_of G) (mkTimePoint 0 (Some 2000) (Some 1) None (Some 1) None None None (Some (Qmake 60 1)) None false None None None (mkTimeZone 0 0 false))) = true /\
  raises_bad (py_TimePoint__check_bounds (cal7_of G) (mkTimePoint 0 (Some 2000) (Some 1) None (Some 1) None None (Some (Qmake (-1) 2)) (Some (Qmake 0 1)) (Some (Qmake 0 1)) false None None None (mkTimeZone 0 0 false))) = true /\
  raises_bad (py_TimePoint__check_bounds (cal7_of G) (mkTimePoint 0 (Some 2000) (Some 1) None (Some 1) (Some 8) None (Some (Qmake 0 1)) (Some (Qmake 0 1)) (Some (Qmake 0 1)) false None None None (mkTimeZone 0 0 false))) = true.
Proof. vm_compute. repeat split; reflexivity. Qed.
