(* Props/C19.v -- property C19: the command line prints exactly what the
   library computes.  Statements only; definitions and proofs are in
   Proofs/CliSpec.v, the executable model in Model/Cli.v and Model/DriverCli.v.

   SCOPE.  The model starts after argument parsing: cli_shift (one date-time,
   offsets, optional print format, --utc), cli_diff (two date-times),
   cli_rec_points / rec_of_text (a recurrence and --max).  OUTSIDE the model,
   hence outside every theorem below: argparse itself, reading items from
   stdin, `now` and --ref, the time.strptime fallback for the two ctime-like
   formats (such texts give CUnmodelled), --as-total (float division of the
   same duration), the environment variables, --calendar other than through the
   mode argument md, and the translation of CExit into the process exit status
   and message.  The model is a total function by construction: "never a
   traceback" is represented by every failure being the value CExit
   (C19_errors says which failures).

   Vocabulary (Proofs/CliSpec.v):
     parse_origin md cfg text p0 f   how date_parse obtained p0 and its print
                     format f: either f is one of the two ISO strptime formats
                     and strptime returned p0, or both were refused and the
                     ISO 8601 parser returned p0 with f = the concatenated
                     expression text of the matched forms (get_info's i_expr;
                     the forms themselves are characterised in C07_decode_info);
     off_split / off_signed off      the sign and the signed duration an offset
                     text denotes (C19_offsets); off_refused: its duration text
                     is refused by DurationParser (syntax / value / bad input);
     shift_all md p ds               left fold of tp_add over ds from p;
     sum_len ds                      sum of the lengths of the exact durations;
     diff_out sign d                 sign ++ str(d), or the printer's failure.  *)
From Coq Require Import QArith Qabs String Ascii List.
From Iso Require Import Proofs.Tac Spec.Cal Spec.Instant Spec.Series Model.Num Model.Helpers Model.Duration
  Model.TimePoint Model.Forms Model.Parse Model.Dump Model.Strftime Model.Recurrence Model.DurText
  Model.DriverText Model.Cli Model.DriverCli gen.Grammar Proofs.TickSpec Proofs.DurTextSpec Proofs.CliSpec.
Import ListNotations.
Local Open Scope string_scope.
Local Open Scope Z_scope.

(* 1. failures.  An argument the parsers refuse makes every sub-command end
      with CExit (the match order of cli_diff: an unmodelled other argument wins);
      the first refused offset ends the run with CExit *)
Theorem C19_errors : forall md utc local,
  (forall text offs pf e, date_parse md utc local text = inr e -> cli_shift md utc local text offs pf = e) /\
  (forall t1 t2, date_parse md false local t1 = inr CExit -> date_parse md false local t2 <> inr CUnmodelled ->
                 cli_diff md local t1 t2 = CExit) /\
  (forall t1 t2, date_parse md false local t2 = inr CExit -> date_parse md false local t1 <> inr CUnmodelled ->
                 cli_diff md local t1 t2 = CExit) /\
  (forall t1 t2, date_parse md false local t1 = inr CUnmodelled \/ date_parse md false local t2 = inr CUnmodelled ->
                 cli_diff md local t1 t2 = CUnmodelled) /\
  (forall text p f offs1 ds1 off offs2 pf,
     date_parse md utc local text = inl (Some (p, f)) ->
     Forall2 (fun o d => off_signed o = Some d) offs1 ds1 -> off_refused off ->
     cli_shift md utc local text (offs1 ++ off :: offs2) pf = CExit).
Proof. exact cli_errors. Qed.
Print Assumptions C19_errors.

(* which texts are refused: neither ISO strptime format matches and the ISO
   8601 parser raises one of its own errors *)
Theorem C19_exit_iff : forall md local text,
  date_parse md false local text = inr CExit <->
  (negb (is_ascii_str text) || may_be_ctime text = false /\
   via_strptime md (cli_cfg false local) text = None /\
   exists e, parse_text md (cli_cfg false local) text true = PErr e /\ e <> EUnmodelled).
Proof. exact date_parse_exit_iff. Qed.
Print Assumptions C19_exit_iff.

Theorem C19_parse_total : forall md utc local text, date_parse md utc local text <> inl None.
Proof. exact date_parse_not_none. Qed.
Print Assumptions C19_parse_total.

(* 2. a parsed argument is a valid time point (both the strptime and the ISO
      path); with --utc it is the same instant written in UTC; the print format
      is the notation it was written in *)
Theorem C19_parse_valid : forall md utc local text p f,
  date_parse md utc local text = inl (Some (p, f)) ->
  valid_tp md p = true /\ (utc = true -> tzone p = mkZone 0 0) /\
  exists p0, valid_tp md p0 = true /\ parse_origin md (cli_cfg utc local) text p0 f /\
             (instant md p == instant md p0)%Q /\
             (if utc then to_utc md p0 = Some p else p = p0).
Proof. exact date_parse_spec. Qed.
Print Assumptions C19_parse_valid.

(* the format of the ISO path is the dump format of the parsed point, which is
   the expression text get_info returned (dump_as_parsed) *)
Theorem C19_same_notation : forall md cfg text q, parse_text md cfg text true = POk q ->
  exists i, get_info (date_forms_of (c_ned cfg)) TIME_FORMS ZONE_FORMS cfg text = POk i /\ p_fmt q = i_expr i.
Proof. exact parse_text_fmt. Qed.
Print Assumptions C19_same_notation.

(* 3. offsets *)
Theorem C19_offsets :
  off_signed "" = Some dzero /\
  (forall body d, dur_parse body = TOk d -> off_signed (String "+" body) = Some d) /\
  (forall body d, dur_parse body = TOk d ->
     off_signed (String "-" body) = Some (dur_mul d (-1)) /\
     (is_exact d = true -> is_exact (dur_mul d (-1)) = true /\ (dur_len (dur_mul d (-1)) == - dur_len d)%Q)) /\
  (forall off d, off <> "" -> off_split off = (false, off) -> dur_parse off = TOk d -> off_signed off = Some d).
Proof. exact off_signed_cases. Qed.
Print Assumptions C19_offsets.

(* 4. shifting and printing.  The output is the dump, in the notation of the
      argument (pf = None) or in the given print format (pf = Some x), of the
      point q reached by adding the signed offsets one after the other; q is a
      valid point written like the argument (representation, precision form,
      offset); for exact offsets its instant is the argument's plus the sum of
      the signed lengths.  (Nominal offsets: validity and shape only here; their
      calendar rules are C05_months_any / C05_years / C05_order.) *)
Theorem C19_shift : forall md utc local text p f offs ds pf,
  date_parse md utc local text = inl (Some (p, f)) ->
  Forall2 (fun o d => off_signed o = Some d) offs ds ->
  exists q, shift_all md p ds = Some q /\
    cli_shift md utc local text offs pf = date_format md q (match pf with Some x => x | None => f end) /\
    valid_tp md q = true /\
    rep_kind (tdate q) = rep_kind (tdate p) /\ tod_kind (ttod q) = tod_kind (ttod p) /\ tzone q = tzone p /\
    (Forall (fun d => is_exact d = true) ds -> (instant md q == instant md p + sum_len ds)%Q).
Proof. exact cli_shift_spec. Qed.
Print Assumptions C19_shift.

Theorem C19_print_format : forall md utc local text p f offs ds x,
  date_parse md utc local text = inl (Some (p, f)) ->
  Forall2 (fun o d => off_signed o = Some d) offs ds ->
  exists q, shift_all md p ds = Some q /\ cli_shift md utc local text offs (Some x) = date_format md q x.
Proof.
  exact (fun md utc local text p f offs ds x H F =>
    match cli_shift_spec md utc local text p f offs ds (Some x) H F with
    | ex_intro _ q (conj A (conj B _)) => ex_intro _ q (conj A B)
    end).
Qed.
Print Assumptions C19_print_format.

(* 5. two date-times.  The output is sign ++ str(d): d = |second - first| as an
      exact non-negative days/h/m/s duration (hours and minutes whole, all in
      range), the sign "-" exactly when the second is earlier *)
Theorem C19_diff : forall md local t1 t2 p1 f1 p2 f2,
  date_parse md false local t1 = inl (Some (p1, f1)) -> date_parse md false local t2 = inl (Some (p2, f2)) ->
  exists dd h m s, let d := DU 0 0 dd h m s in
    ((instant md p2 < instant md p1)%Q ->
       tp_sub md p1 p2 = Some d /\ cli_diff md local t1 t2 = diff_out "-" d) /\
    ((instant md p1 <= instant md p2)%Q ->
       tp_sub md p2 p1 = Some d /\ cli_diff md local t1 t2 = diff_out "" d) /\
    (dur_len d == Qabs (instant md p2 - instant md p1))%Q /\
    nonneg_dur d = true /\ single_signed d = true /\ is_exact d = true /\
    qis_int h = true /\ qis_int m = true /\
    (0 <= h /\ h < 24 /\ 0 <= m /\ m < 60 /\ 0 <= s /\ s < 60)%Q.
Proof. exact cli_diff_spec. Qed.
Print Assumptions C19_diff.

(* whatever is printed, given back as --offset of the first argument, leads to
   the instant of the second: the text reads as a signed exact duration of
   length second - first (C10's round trip), and first + it compares equal to
   the second (C04), written like the first *)
Theorem C19_diff_add_back : forall md local t1 t2 p1 f1 p2 f2 out,
  date_parse md false local t1 = inl (Some (p1, f1)) -> date_parse md false local t2 = inl (Some (p2, f2)) ->
  cli_diff md local t1 t2 = COut out ->
  exists sd r, off_signed out = Some sd /\ is_exact sd = true /\
    (dur_len sd == instant md p2 - instant md p1)%Q /\
    date_shift md p1 out = inl (Some r) /\ tp_add md p1 sd = Some r /\
    tp_cmp md r p2 = Some Eq /\ (instant md r == instant md p2)%Q /\ valid_tp md r = true /\
    rep_kind (tdate r) = rep_kind (tdate p1) /\ tod_kind (ttod r) = tod_kind (ttod p1) /\ tzone r = tzone p1.
Proof. exact cli_diff_add_back. Qed.
Print Assumptions C19_diff_add_back.

(* and something IS printed whenever the two instants differ by whole seconds
   (below 10^4300 days, CPython's int-to-str limit); differences with a
   fractional second are printed when str(float) is exact on it -- the
   `printable` domain of C10 -- and are CUnmodelled otherwise *)
Theorem C19_diff_prints : forall md local t1 t2 p1 f1 p2 f2,
  date_parse md false local t1 = inl (Some (p1, f1)) -> date_parse md false local t2 = inl (Some (p2, f2)) ->
  isint (instant md p2 - instant md p1) ->
  (Qabs (instant md p2 - instant md p1) < inject_Z (86400 * 10 ^ 4300))%Q ->
  exists txt,
    ((instant md p2 < instant md p1)%Q -> cli_diff md local t1 t2 = COut ("-" ++ txt)) /\
    ((instant md p1 <= instant md p2)%Q -> cli_diff md local t1 t2 = COut txt).
Proof. exact cli_diff_prints. Qed.
Print Assumptions C19_diff_prints.

(* 6. recurrences: --max=N lists the first N points the iterator yields, none
      for N <= 0; with C12 these are the first min(N, repetitions) members of
      the series, in order, for the three notations with exact intervals *)
Theorem C19_recurrence : forall md local r n,
  cli_rec_points md local r n = iter_take md r (Z.to_nat n) /\
  (n <= 0 -> cli_rec_points md local r n = []).
Proof. exact cli_rec_points_spec. Qed.
Print Assumptions C19_recurrence.

Theorem C19_recurrence_series : forall md local n,
  (forall s d reps, valid_tp md s = true -> exact_pos d ->
     (match reps with Some k => 2 <= k | None => True end) ->
     exists r, rec_make md reps (Some s) (Some d) None = Ok r /\
       length (cli_rec_points md local r n) = count reps (Z.to_nat n) /\
       series_ok md (cli_rec_points md local r n) (instant md s) (dur_len d) 1 s) /\
  (forall e d, valid_tp md e = true -> exact_pos d ->
     exists r, rec_make md None None (Some d) (Some e) = Ok r /\
       length (cli_rec_points md local r n) = Z.to_nat n /\
       series_ok md (cli_rec_points md local r n) (instant md e) (dur_len d) (-1) e) /\
  (forall e d k, valid_tp md e = true -> exact_pos d -> 2 <= k ->
     exists r, rec_make md (Some k) None (Some d) (Some e) = Ok r /\
       length (cli_rec_points md local r n) = count (Some k) (Z.to_nat n) /\
       series_ok md (cli_rec_points md local r n) (instant md e - inject_Z (k - 1) * dur_len d) (dur_len d) 1 e) /\
  (forall s e reps, valid_tp md s = true -> valid_tp md e = true -> (instant md s < instant md e)%Q ->
     (match reps with Some k => 2 <= k | None => True end) ->
     exists r, rec_make md reps (Some s) None (Some e) = Ok r /\
       length (cli_rec_points md local r n) = count reps (Z.to_nat n) /\
       series_ok md (cli_rec_points md local r n) (instant md s) (instant md e - instant md s) 1 s).
Proof. exact cli_rec_series. Qed.
Print Assumptions C19_recurrence_series.

(* the recurrence text R[n]/a/b reaches the constructor of C12 with valid
   points, in exactly one of the three notations.
   _partial: the numeric values of the parts are those of the text parsers
   (C07/C10); texts with another number of "/" are CUnmodelled; bounded
   recurrences with nominal intervals inherit finding F4
   (C12_bounded_nominal_refuted) *)
Theorem C19_recurrence_text_partial : forall md local text r,
  rec_of_text md local text = inl (Some r) ->
  exists reps s d e,
    rec_make md reps s d e = Ok r /\
    (forall p, s = Some p -> valid_tp md p = true) /\ (forall p, e = Some p -> valid_tp md p = true) /\
    ((exists a b, s = Some a /\ d = None /\ e = Some b) \/
     (exists a x, s = Some a /\ d = Some x /\ e = None) \/
     (exists x b, s = None /\ d = Some x /\ e = Some b)).
Proof. exact rec_of_text_sound. Qed.
Print Assumptions C19_recurrence_text_partial.

(* hypotheses are satisfiable; outputs are the expected texts.  The first line
   is a WITNESS AGAINST reading "printed shifted ... in the same notation" as
   "the printed text denotes the shifted point": a notation without minutes
   hides a 30-minute shift (the command line and the library agree on it). *)
Example C19_witness :
  cli_shift G false (0, 0) "2000-01-01T00Z" ["PT30M"] None = COut "2000-01-01T00Z" /\
  cli_shift G false (0, 0) "2000-01-01T00:00:00" ["PT30M"; "-P1D"] None = COut "1999-12-31T00:30:00" /\
  cli_shift G false (5, 30) "20000101T000000" ["P1M"] None = COut "20000201T000000" /\
  cli_shift G true (5, 30) "2000-W01-1T06:00+05:30" ["-PT1M"] None = COut "2000-W01-1T00:29+00:00" /\
  cli_shift G false (0, 0) "2000-001T12:30,5Z" ["PT1H"] (Some "CCYY-MM-DDThh:mm:ssZ") = COut "2000-01-01T13:30:30Z" /\
  cli_shift G false (0, 0) "2000-02-30T00Z" [] None = CExit /\
  cli_shift G false (0, 0) "2000-01-01T00Z" ["PT1H"; "1H"; "PT2H"] None = CExit /\
  dur_parse "1H" = TSyntax /\ off_signed "-P1D" = Some (DU 0 0 (-1) 0 0 0) /\
  cli_diff G (0, 0) "2000-01-01T00Z" "1999-12-31T23:59:59+01" = COut "-PT1H1S" /\
  cli_diff G (0, 0) "2000-01-01T00Z" "2000-03-01T06:00:30,5Z" = COut "P60DT6H30,5S" /\
  cli_diff G (0, 0) "2000-01-01T00Z" "2000-01-01T00Z" = COut "P0Y" /\
  cli_diff G (0, 0) "2000-13-01T00Z" "2000-01-01T00Z" = CExit /\
  cli_diff G (0, 0) "2000-01-01T00:00:00Z" "2000-01-01T00:00:00,00001Z" = CUnmodelled /\
  date_shift G (mkTp (Cal 2000 1 1) (HH 0) (mkZone 0 0)) "-PT1H1S"
    = inl (Some (mkTp (Cal 1999 12 31) (HH (82799 # 3600)) (mkZone 0 0))) /\
  match rec_of_text G (0, 0) "R3/2000-01-01T00Z/P1D" with
  | inl (Some r) => (cli_rec_points G (0, 0) r 0, cli_rec_points G (0, 0) r 10)
  | _ => ([], [])
  end = ([], [mkTp (Cal 2000 1 1) (HMS 0 0 0) (mkZone 0 0); mkTp (Cal 2000 1 2) (HMS 0 0 0) (mkZone 0 0);
              mkTp (Cal 2000 1 3) (HMS 0 0 0) (mkZone 0 0)]).
Proof. vm_compute. repeat split; try reflexivity; discriminate. Qed.
