(* Props/C03Code.v -- the day-walking calendar helpers of data.py (the loops over
   iter_months_days that return from inside the loop), tied to their source
   text: gen/GenCode2.v holds their bodies as translated from /repo on this run
   (tools/translate_code2.py); each is equal to the month-granularity model
   function of Model/Helpers.v that property C03 is proved about.  Statements
   only.  `res`: Ret v | Abn RaiseValueError (raise ValueError) | Abn RetNone
   (the def fell off its end: None) | ...; idx_months md is
   CALENDAR.INDEXED_DAYS_IN_MONTHS as Calendar.set_mode builds it (right-hand
   side translated from the source) from the month tables of mode md. *)
From Coq Require Import String.
From Iso Require Import Proofs.Tac Spec.Cal Model.Helpers gen.CalTables gen.GenCode gen.GenCode2
  Proofs.GenCode2Ok.
Open Scope Z_scope.

Theorem C03_code2_translator_ok : translator_ok_code2 = true.
Proof. exact gen_code2_accepted. Qed.
Print Assumptions C03_code2_translator_ok.

(* Calendar.set_mode: INDEXED_DAYS_IN_MONTHS[_LEAP] number the months from 1 *)
Theorem C03_code2_set_mode_indexed : forall md,
  idx_months md = py_enumerate 1 (DAYS_IN_MONTHS md) /\
  idx_months_leap md = py_enumerate 1 (DAYS_IN_MONTHS_LEAP md).
Proof. exact gen_set_mode_indexed_eq. Qed.
Print Assumptions C03_code2_set_mode_indexed.

(* iter_months_days(year) / iter_months_days(year, in_reverse=True), i.e.
   _iter_months_days(is_leap, None, None, mode, False / True): every (month, day)
   of the year's month table in calendar order / in reverse order *)
Theorem C03_code2_iter_months_days : forall md y,
  py_iter_months_days__zNNF (idx_months md) (idx_months_leap md) y = days_from 1 (year_months md y).
Proof. exact gen_iter_months_days_eq. Qed.
Print Assumptions C03_code2_iter_months_days.

Theorem C03_code2_iter_months_days_reverse : forall md y,
  py_iter_months_days__zNNT (idx_months md) (idx_months_leap md) y = rev (days_from 1 (year_months md y)).
Proof. exact gen_iter_months_days_rev_eq. Qed.
Print Assumptions C03_code2_iter_months_days_reverse.

(* get_calendar_date_from_ordinal_date: for EVERY year and day-of-year; the source
   raises ValueError exactly where the model answers None *)
Theorem C03_code2_get_calendar_date_from_ordinal_date : forall md y doy,
  py_get_calendar_date_from_ordinal_date (idx_months md) (idx_months_leap md) y doy =
  match cal_from_ord md y doy with Some r => Ret r | None => Abn RaiseValueError end.
Proof. exact gen_get_calendar_date_from_ordinal_date_eq. Qed.
Print Assumptions C03_code2_get_calendar_date_from_ordinal_date.

(* ... and on its domain 1 <= doy <= days in year it returns a date of that year *)
Theorem C03_code2_get_calendar_date_from_ordinal_date_domain : forall md y doy,
  valid_ord md y doy = true -> exists m d,
  py_get_calendar_date_from_ordinal_date (idx_months md) (idx_months_leap md) y doy = Ret (y, m, d) /\
  valid_cal md y m d = true /\ dn_cal md y m d = dn_ord md y doy.
Proof. exact gen_get_calendar_date_from_ordinal_date_domain. Qed.
Print Assumptions C03_code2_get_calendar_date_from_ordinal_date_domain.

(* get_ordinal_date_from_calendar_date: for every year, month, day *)
Theorem C03_code2_get_ordinal_date_from_calendar_date : forall md y m d,
  py_get_ordinal_date_from_calendar_date (idx_months md) (idx_months_leap md) y m d =
  match ord_from_cal md y m d with Some r => Ret r | None => Abn RaiseValueError end.
Proof. exact gen_get_ordinal_date_from_calendar_date_eq. Qed.
Print Assumptions C03_code2_get_ordinal_date_from_calendar_date.

Theorem C03_code2_get_ordinal_date_from_calendar_date_domain : forall md y m d,
  valid_cal md y m d = true -> exists doy,
  py_get_ordinal_date_from_calendar_date (idx_months md) (idx_months_leap md) y m d = Ret (y, doy) /\
  valid_ord md y doy = true /\ dn_ord md y doy = dn_cal md y m d.
Proof. exact gen_get_ordinal_date_from_calendar_date_domain. Qed.
Print Assumptions C03_code2_get_ordinal_date_from_calendar_date_domain.

(* _get_calendar_date_week_date_start, the WHOLE body including its final loop
   (phase 1 stopped before it): for every year it returns -- it never falls off
   its end -- and returns the model's date *)
Theorem C03_code2__get_calendar_date_week_date_start : forall md y,
  py__get_calendar_date_week_date_start (DAYS_IN_YEAR md) (DAYS_IN_YEAR_LEAP md)
    (idx_months md) (idx_months_leap md) y = Ret (week_date_start md y).
Proof. exact gen__get_calendar_date_week_date_start_eq. Qed.
Print Assumptions C03_code2__get_calendar_date_week_date_start.

Theorem C03_code2_get_calendar_date_week_date_start : forall md y,
  py_get_calendar_date_week_date_start (DAYS_IN_YEAR md) (DAYS_IN_YEAR_LEAP md)
    (idx_months md) (idx_months_leap md) y = Ret (week_date_start md y).
Proof. exact gen_get_calendar_date_week_date_start_eq. Qed.
Print Assumptions C03_code2_get_calendar_date_week_date_start.

(* _get_ordinal_date_week_date_start: equal to the model (None = fell off the end) ... *)
Theorem C03_code2__get_ordinal_date_week_date_start_opt : forall md y,
  py__get_ordinal_date_week_date_start (DAYS_IN_YEAR md) (DAYS_IN_YEAR_LEAP md)
    (idx_months md) (idx_months_leap md) y =
  match ord_week_date_start md y with Some r => Ret r | None => Abn RetNone end.
Proof. exact gen__get_ordinal_date_week_date_start_opt. Qed.
Print Assumptions C03_code2__get_ordinal_date_week_date_start_opt.

(* ... and for every year the loop does return *)
Theorem C03_code2__get_ordinal_date_week_date_start : forall md y,
  exists r, ord_week_date_start md y = Some r /\
  py__get_ordinal_date_week_date_start (DAYS_IN_YEAR md) (DAYS_IN_YEAR_LEAP md)
    (idx_months md) (idx_months_leap md) y = Ret r.
Proof. exact gen__get_ordinal_date_week_date_start_eq. Qed.
Print Assumptions C03_code2__get_ordinal_date_week_date_start.

Theorem C03_code2_get_ordinal_date_week_date_start : forall md y,
  exists r, ord_week_date_start md y = Some r /\
  py_get_ordinal_date_week_date_start (DAYS_IN_YEAR md) (DAYS_IN_YEAR_LEAP md)
    (idx_months md) (idx_months_leap md) y = Ret r.
Proof. exact gen_get_ordinal_date_week_date_start_eq. Qed.
Print Assumptions C03_code2_get_ordinal_date_week_date_start.

(* _get_weeks_in_year: for every year (no TypeError from unpacking None) *)
Theorem C03_code2__get_weeks_in_year : forall md y,
  py__get_weeks_in_year (DAYS_IN_YEAR md) (DAYS_IN_YEAR_LEAP md)
    (idx_months md) (idx_months_leap md) y = Ret (get_weeks_in_year md y).
Proof. exact gen__get_weeks_in_year_eq. Qed.
Print Assumptions C03_code2__get_weeks_in_year.

Theorem C03_code2_get_weeks_in_year : forall md y,
  py_get_weeks_in_year (DAYS_IN_YEAR md) (DAYS_IN_YEAR_LEAP md)
    (idx_months md) (idx_months_leap md) y = Ret (get_weeks_in_year md y).
Proof. exact gen_get_weeks_in_year_eq. Qed.
Print Assumptions C03_code2_get_weeks_in_year.

(* the four week-date conversions: for EVERY argument triple/pair (also week 0,
   day-of-week 9, month 13 ...); the source raises ValueError exactly where the
   model answers None; no other abnormal outcome (None result, TypeError) occurs *)
Theorem C03_code2_get_calendar_date_from_week_date : forall md y w d,
  py_get_calendar_date_from_week_date (DAYS_IN_YEAR md) (DAYS_IN_YEAR_LEAP md)
    (idx_months md) (idx_months_leap md) y w d =
  match cal_from_week md y w d with Some r => Ret r | None => Abn RaiseValueError end.
Proof. exact gen_get_calendar_date_from_week_date_eq. Qed.
Print Assumptions C03_code2_get_calendar_date_from_week_date.

Theorem C03_code2_get_week_date_from_calendar_date : forall md y m d,
  py_get_week_date_from_calendar_date (DAYS_IN_YEAR md) (DAYS_IN_YEAR_LEAP md)
    (idx_months md) (idx_months_leap md) y m d =
  match week_from_cal md y m d with Some r => Ret r | None => Abn RaiseValueError end.
Proof. exact gen_get_week_date_from_calendar_date_eq. Qed.
Print Assumptions C03_code2_get_week_date_from_calendar_date.

Theorem C03_code2_get_ordinal_date_from_week_date : forall md y w d,
  py_get_ordinal_date_from_week_date (DAYS_IN_YEAR md) (DAYS_IN_YEAR_LEAP md)
    (idx_months md) (idx_months_leap md) y w d =
  match ord_from_week md y w d with Some r => Ret r | None => Abn RaiseValueError end.
Proof. exact gen_get_ordinal_date_from_week_date_eq. Qed.
Print Assumptions C03_code2_get_ordinal_date_from_week_date.

Theorem C03_code2_get_week_date_from_ordinal_date : forall md y doy,
  py_get_week_date_from_ordinal_date (DAYS_IN_YEAR md) (DAYS_IN_YEAR_LEAP md)
    (idx_months md) (idx_months_leap md) y doy =
  match week_from_ord md y doy with Some r => Ret r | None => Abn RaiseValueError end.
Proof. exact gen_get_week_date_from_ordinal_date_eq. Qed.
Print Assumptions C03_code2_get_week_date_from_ordinal_date.

(* on their domains they return, and the result is the same day (Spec/Cal.v day numbers) *)
Theorem C03_code2_get_week_date_from_calendar_date_domain : forall md y m d,
  valid_cal md y m d = true -> exists wy w wd,
  py_get_week_date_from_calendar_date (DAYS_IN_YEAR md) (DAYS_IN_YEAR_LEAP md)
    (idx_months md) (idx_months_leap md) y m d = Ret (wy, w, wd) /\
  valid_week md wy w wd = true /\ dn_week md wy w wd = dn_cal md y m d.
Proof. exact gen_get_week_date_from_calendar_date_domain. Qed.
Print Assumptions C03_code2_get_week_date_from_calendar_date_domain.

Theorem C03_code2_get_calendar_date_from_week_date_domain : forall md wy w wd,
  valid_week md wy w wd = true -> exists y m d,
  py_get_calendar_date_from_week_date (DAYS_IN_YEAR md) (DAYS_IN_YEAR_LEAP md)
    (idx_months md) (idx_months_leap md) wy w wd = Ret (y, m, d) /\
  valid_cal md y m d = true /\ dn_cal md y m d = dn_week md wy w wd.
Proof. exact gen_get_calendar_date_from_week_date_domain. Qed.
Print Assumptions C03_code2_get_calendar_date_from_week_date_domain.

Theorem C03_code2_get_ordinal_date_from_week_date_domain : forall md wy w wd,
  valid_week md wy w wd = true -> exists y doy,
  py_get_ordinal_date_from_week_date (DAYS_IN_YEAR md) (DAYS_IN_YEAR_LEAP md)
    (idx_months md) (idx_months_leap md) wy w wd = Ret (y, doy) /\
  valid_ord md y doy = true /\ dn_ord md y doy = dn_week md wy w wd.
Proof. exact gen_get_ordinal_date_from_week_date_domain. Qed.
Print Assumptions C03_code2_get_ordinal_date_from_week_date_domain.

Theorem C03_code2_get_week_date_from_ordinal_date_domain : forall md y doy,
  valid_ord md y doy = true -> exists wy w wd,
  py_get_week_date_from_ordinal_date (DAYS_IN_YEAR md) (DAYS_IN_YEAR_LEAP md)
    (idx_months md) (idx_months_leap md) y doy = Ret (wy, w, wd) /\
  valid_week md wy w wd = true /\ dn_week md wy w wd = dn_ord md y doy.
Proof. exact gen_get_week_date_from_ordinal_date_domain. Qed.
Print Assumptions C03_code2_get_week_date_from_ordinal_date_domain.

(* the translation of `for .. in L: .. return ..` is the loop: its defining
   equation (run the body on the first item; a return ends the loop) *)
Theorem C03_code2_for_ret_unroll : forall (R S E : Type) (body : S -> E -> R + S) x l s,
  for_ret [] body s = inr s /\
  for_ret (x :: l) body s = match body s x with inl r => inl r | inr s' => for_ret l body s' end.
Proof. intros. split; [apply for_ret_nil | apply for_ret_cons]. Qed.
Print Assumptions C03_code2_for_ret_unroll.

Theorem C03_code2_divisors_nonzero : 0 < DAYS_IN_WEEK.
Proof. exact gen_code2_divisors_nonzero. Qed.
Print Assumptions C03_code2_divisors_nonzero.

(* the generated definitions evaluated inside coqc give what the package returned
   for the same arguments (values taken from /repo with PYTHONPATH=/repo, all four
   calendar modes; ValueError = Abn RaiseValueError); c1 / c2 f md: the generated f applied to
   the CALENDAR attributes of mode md (2 resp. 4 of them) *)
Example C03_code2_ex :
  firstn 3 (idx_months_leap G) = [(1, 31); (2, 29); (3, 31)] /\
  firstn 3 (idx_months_leap D360) = [(1, 30); (2, 30); (3, 30)] /\
  firstn 2 (c1 py_iter_months_days__zNNF G 2023) = [(1, 1); (1, 2)] /\
  firstn 3 (c1 py_iter_months_days__zNNT G 2024) = [(12, 31); (12, 30); (12, 29)] /\
  length (c1 py_iter_months_days__zNNF G 2024) = 366%nat /\
  length (c1 py_iter_months_days__zNNF D360 2024) = 360%nat /\
  c1 py_iter_months_days__zzzF G 2024 12 30 = [(12, 30); (12, 31)] /\
  c1 py_iter_months_days__zzzF D360 2024 12 30 = [(12, 30)] /\
  c1 py_iter_months_days__zzzF G 2024 12 32 = [] /\
  c1 py_get_calendar_date_from_ordinal_date G 2024 60 = Ret (2024, 2, 29) /\
  c1 py_get_calendar_date_from_ordinal_date G 2023 365 = Ret (2023, 12, 31) /\
  c1 py_get_calendar_date_from_ordinal_date G 2023 366 = Abn RaiseValueError /\
  c1 py_get_calendar_date_from_ordinal_date G 2023 0 = Abn RaiseValueError /\
  c1 py_get_calendar_date_from_ordinal_date D360 2024 60 = Ret (2024, 2, 30) /\
  c1 py_get_calendar_date_from_ordinal_date D360 2024 361 = Abn RaiseValueError /\
  c1 py_get_calendar_date_from_ordinal_date D365 2024 60 = Ret (2024, 3, 1) /\
  c1 py_get_calendar_date_from_ordinal_date D366 2023 366 = Ret (2023, 12, 31) /\
  c1 py_get_ordinal_date_from_calendar_date G 2024 12 31 = Ret (2024, 366) /\
  c1 py_get_ordinal_date_from_calendar_date G 2023 2 29 = Abn RaiseValueError /\
  c1 py_get_ordinal_date_from_calendar_date G 2024 13 1 = Abn RaiseValueError /\
  c1 py_get_ordinal_date_from_calendar_date G 2024 0 1 = Abn RaiseValueError /\
  c1 py_get_ordinal_date_from_calendar_date D360 2024 12 31 = Abn RaiseValueError /\
  c1 py_get_ordinal_date_from_calendar_date D360 2023 2 29 = Ret (2023, 59) /\
  c1 py_get_ordinal_date_from_calendar_date D365 2024 3 1 = Ret (2024, 60) /\
  c1 py_get_ordinal_date_from_calendar_date D366 2023 2 29 = Ret (2023, 60) /\
  c2 py_get_calendar_date_week_date_start G 2000 = Ret (2000, 1, 3) /\
  c2 py_get_calendar_date_week_date_start G 2020 = Ret (2019, 12, 30) /\
  c2 py_get_calendar_date_week_date_start G 2021 = Ret (2021, 1, 4) /\
  c2 py_get_calendar_date_week_date_start G 1999 = Ret (1999, 1, 4) /\
  c2 py_get_calendar_date_week_date_start G 2026 = Ret (2025, 12, 29) /\
  c2 py_get_calendar_date_week_date_start G (-4) = Ret (-4, 1, 1) /\
  c2 py_get_calendar_date_week_date_start D360 2020 = Ret (2019, 12, 29) /\
  c2 py_get_calendar_date_week_date_start D360 1999 = Ret (1998, 12, 29) /\
  c2 py_get_calendar_date_week_date_start D365 (-4) = Ret (-5, 12, 29) /\
  c2 py_get_calendar_date_week_date_start D366 2026 = Ret (2025, 12, 31) /\
  c2 py_get_ordinal_date_week_date_start G 2020 = Ret (2019, 364) /\
  c2 py_get_ordinal_date_week_date_start G 2021 = Ret (2021, 4) /\
  c2 py_get_ordinal_date_week_date_start D360 2020 = Ret (2019, 359) /\
  c2 py_get_ordinal_date_week_date_start D366 (-4) = Ret (-5, 366) /\
  c2 py_get_weeks_in_year G 2020 = Ret 53 /\ c2 py_get_weeks_in_year G 2021 = Ret 52 /\
  c2 py_get_weeks_in_year G 2026 = Ret 53 /\ c2 py_get_weeks_in_year D360 2020 = Ret 52 /\
  c2 py_get_weeks_in_year D360 2021 = Ret 51 /\ c2 py_get_weeks_in_year D365 (-4) = Ret 53 /\
  c2 py_get_weeks_in_year D366 1999 = Ret 53 /\
  c2 py_get_calendar_date_from_week_date G 2020 53 7 = Ret (2021, 1, 3) /\
  c2 py_get_calendar_date_from_week_date G 2020 1 1 = Ret (2019, 12, 30) /\
  c2 py_get_calendar_date_from_week_date G 2021 60 1 = Ret (2022, 2, 21) /\
  c2 py_get_calendar_date_from_week_date G 2021 200 1 = Abn RaiseValueError /\
  c2 py_get_calendar_date_from_week_date G 2021 0 1 = Abn RaiseValueError /\
  c2 py_get_calendar_date_from_week_date D360 2020 53 7 = Ret (2021, 1, 9) /\
  c2 py_get_calendar_date_from_week_date D366 2021 52 7 = Ret (2021, 12, 31) /\
  c2 py_get_week_date_from_calendar_date G 2021 1 3 = Ret (2020, 53, 7) /\
  c2 py_get_week_date_from_calendar_date G 2019 12 30 = Ret (2020, 1, 1) /\
  c2 py_get_week_date_from_calendar_date G 2024 2 30 = Abn RaiseValueError /\
  c2 py_get_week_date_from_calendar_date D360 2024 2 30 = Ret (2024, 9, 4) /\
  c2 py_get_week_date_from_calendar_date D365 2019 12 30 = Ret (2019, 53, 3) /\
  c2 py_get_ordinal_date_from_week_date G 2020 53 7 = Ret (2021, 3) /\
  c2 py_get_ordinal_date_from_week_date D366 2020 53 7 = Ret (2021, 2) /\
  c2 py_get_week_date_from_ordinal_date G 2021 3 = Ret (2020, 53, 7) /\
  c2 py_get_week_date_from_ordinal_date G 2021 400 = Abn RaiseValueError /\
  c2 py_get_week_date_from_ordinal_date D360 2021 3 = Ret (2021, 1, 1).
Proof. vm_compute. repeat split; reflexivity. Qed.
