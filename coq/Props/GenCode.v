(* Props/GenCode.v -- the obligations tying the hand-written model of the
   simple pure helpers to their source text: gen/GenCode.v holds the bodies
   of these functions as translated from /repo on this run; each is equal to
   the model function for all arguments.  Statements only.
   (Cited from Props/C03.v -- calendar helpers -- and Props/C18.v -- local
   time zone.) *)
From Coq Require Import String.
From Iso Require Import Proofs.Tac Spec.Cal Model.Helpers Model.LocalZone
  gen.CalTables gen.GenCode Proofs.GenCodeOk.
Open Scope Z_scope.

Theorem GEN_translator_ok : translator_ok_code = true.
Proof. exact gen_code_accepted. Qed.
Print Assumptions GEN_translator_ok.

(* ---- data.py ---- *)
Theorem GEN_get_is_leap_year : forall y, py_get_is_leap_year y = get_is_leap_year y.
Proof. exact gen_get_is_leap_year_eq. Qed.
Print Assumptions GEN_get_is_leap_year.

Theorem GEN__get_days_in_year : forall md y,
  py__get_days_in_year (DAYS_IN_YEAR md) (DAYS_IN_YEAR_LEAP md) y = get_days_in_year md y.
Proof. exact gen__get_days_in_year_eq. Qed.
Print Assumptions GEN__get_days_in_year.

Theorem GEN_get_days_in_year : forall md y,
  py_get_days_in_year (DAYS_IN_YEAR md) (DAYS_IN_YEAR_LEAP md) y = get_days_in_year md y.
Proof. exact gen_get_days_in_year_eq. Qed.
Print Assumptions GEN_get_days_in_year.

Theorem GEN__get_days_in_month : forall md m y,
  py__get_days_in_month (DAYS_IN_MONTHS md) (DAYS_IN_MONTHS_LEAP md) m y = get_days_in_month md m y.
Proof. exact gen__get_days_in_month_eq. Qed.
Print Assumptions GEN__get_days_in_month.

Theorem GEN__get_days_in_month_leap : forall md m,
  py__get_days_in_month__leap (DAYS_IN_MONTHS_LEAP md) m = get_days_in_month_leap md m.
Proof. exact gen__get_days_in_month_leap_eq. Qed.
Print Assumptions GEN__get_days_in_month_leap.

Theorem GEN__get_days_in_month_none : forall md m,
  py__get_days_in_month__none (DAYS_IN_MONTHS md) m = znth (DAYS_IN_MONTHS md) (m - 1).
Proof. exact gen__get_days_in_month_none_eq. Qed.
Print Assumptions GEN__get_days_in_month_none.

Theorem GEN__get_days_in_year_range : forall md s e,
  py__get_days_in_year_range (DAYS_IN_YEAR md) (DAYS_IN_YEAR_LEAP md) s e =
  get_days_in_year_range md s e.
Proof. exact gen__get_days_in_year_range_eq. Qed.
Print Assumptions GEN__get_days_in_year_range.

Theorem GEN_get_days_in_year_range : forall md s e,
  py_get_days_in_year_range (DAYS_IN_YEAR md) (DAYS_IN_YEAR_LEAP md) s e =
  get_days_in_year_range md s e.
Proof. exact gen_get_days_in_year_range_eq. Qed.
Print Assumptions GEN_get_days_in_year_range.

Theorem GEN__get_days_since_1_ad : forall md y,
  py__get_days_since_1_ad (DAYS_IN_YEAR md) (DAYS_IN_YEAR_LEAP md) y = get_days_since_1_ad md y.
Proof. exact gen__get_days_since_1_ad_eq. Qed.
Print Assumptions GEN__get_days_since_1_ad.

(* _get_calendar_date_week_date_start, up to its final loop (the statement named
   by GEN_week_date_start_cut) *)
Theorem GEN_week_date_start_cut :
  py__get_calendar_date_week_date_start__prefix_cut =
  "for month, day in iter_months_days(year - 1, in_reverse=True):"%string.
Proof. exact gen_week_date_start_cut. Qed.
Print Assumptions GEN_week_date_start_cut.

Theorem GEN_week_date_start_prefix : forall md y,
  match py__get_calendar_date_week_date_start__prefix (DAYS_IN_YEAR md) (DAYS_IN_YEAR_LEAP md) y with
  | inl r => week_date_start md y = r
  | inr dow => 1 < dow <= 4 /\
      week_date_start md y = (y - 1, 12, znth (year_months md (y - 1)) 11 - (dow - 2))
  end.
Proof. exact gen_week_date_start_prefix_eq. Qed.
Print Assumptions GEN_week_date_start_prefix.

(* ---- timezone.py ---- *)
Theorem GEN_get_local_time_zone : forall tz alt dl isdst,
  py_get_local_time_zone tz alt dl isdst = get_local_time_zone tz alt dl isdst.
Proof. exact gen_get_local_time_zone_eq. Qed.
Print Assumptions GEN_get_local_time_zone.

Theorem GEN_split_offset : forall off, py_get_local_time_zone (- off) 0 0 0 = split_offset off.
Proof. exact gen_split_offset_eq. Qed.
Print Assumptions GEN_split_offset.

Theorem GEN_utc_offset_seconds : forall tz alt dl isdst,
  py_get_local_time_zone tz alt dl isdst =
  py_get_local_time_zone (- utc_offset_seconds tz alt dl isdst) 0 0 0.
Proof. exact gen_utc_offset_seconds_eq. Qed.
Print Assumptions GEN_utc_offset_seconds.

(* ---- the translation of the one `while` shape is exact; no divisor is 0 ---- *)
Theorem GEN_while_unroll : forall cond B, (forall x, cond x = true -> x < B) -> forall x,
  while_inc (Z.to_nat (B - x)) cond x =
  if cond x then while_inc (Z.to_nat (B - (x + 1))) cond (x + 1) else x.
Proof. exact while_inc_unroll. Qed.
Print Assumptions GEN_while_unroll.

Theorem GEN_while_exit : forall cond B, (forall x, cond x = true -> x < B) -> forall x,
  cond (while_inc (Z.to_nat (B - x)) cond x) = false.
Proof. exact while_inc_exit. Qed.
Print Assumptions GEN_while_exit.

Theorem GEN_divisors_nonzero :
  forallb (fun ft : Z * bool => 0 <? fst ft) LEAP_YEAR_FACTOR_TRUTHS = true /\
  0 < DAYS_IN_WEEK /\ forall off, (if off <? 0 then -1 else 1) * 60 <> 0.
Proof. exact gen_divisors_nonzero. Qed.
Print Assumptions GEN_divisors_nonzero.

(* the generated definitions evaluated inside coqc give what the package
   returned for the same arguments (values taken from /repo, gregorian and
   360day) *)
Example GEN_ex :
  py_get_is_leap_year 1900 = false /\ py_get_is_leap_year 2000 = true /\
  py__get_days_in_year_range (DAYS_IN_YEAR G) (DAYS_IN_YEAR_LEAP G) 1897 2405 = 185908 /\
  py__get_days_in_year_range (DAYS_IN_YEAR D360) (DAYS_IN_YEAR_LEAP D360) 1897 2405 = 183240 /\
  py__get_days_in_year_range (DAYS_IN_YEAR G) (DAYS_IN_YEAR_LEAP G) (-5) (-5) = 365 /\
  py__get_days_in_year_range (DAYS_IN_YEAR G) (DAYS_IN_YEAR_LEAP G) 7 3 = 0 /\
  py__get_days_since_1_ad (DAYS_IN_YEAR G) (DAYS_IN_YEAR_LEAP G) 2024 = 739251 /\
  py__get_days_since_1_ad (DAYS_IN_YEAR D360) (DAYS_IN_YEAR_LEAP D360) 2024 = 728640 /\
  py__get_days_in_month (DAYS_IN_MONTHS G) (DAYS_IN_MONTHS_LEAP G) 2 2024 = 29 /\
  py__get_days_in_month__leap (DAYS_IN_MONTHS_LEAP G) 2 = 29 /\
  py__get_days_in_month__none (DAYS_IN_MONTHS G) 2 = 28 /\
  py__get_calendar_date_week_date_start__prefix (DAYS_IN_YEAR G) (DAYS_IN_YEAR_LEAP G) 2021 = inl (2021, 1, 4) /\
  py__get_calendar_date_week_date_start__prefix (DAYS_IN_YEAR G) (DAYS_IN_YEAR_LEAP G) 1999 = inl (1999, 1, 4) /\
  py__get_calendar_date_week_date_start__prefix (DAYS_IN_YEAR G) (DAYS_IN_YEAR_LEAP G) 2020 = inr 3 /\
  week_date_start G 2020 = (2019, 12, 30) /\
  py__get_calendar_date_week_date_start__prefix (DAYS_IN_YEAR D360) (DAYS_IN_YEAR_LEAP D360) 2021 = inl (2021, 1, 3) /\
  py_get_local_time_zone 12600 9000 1 1 = (-2, -30) /\
  py_get_local_time_zone (-20700) (-20700) 0 0 = (5, 45) /\
  py_get_local_time_zone 0 (-3600) 1 0 = (0, 0) /\
  py_get_local_time_zone 18000 14400 1 1 = (-4, 0).
Proof. vm_compute. repeat split; reflexivity. Qed.
