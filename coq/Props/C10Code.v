(* Props/C10Code.v -- property C10, code level: the BODIES of Duration.__str__
   (data.py) and DurationParser.parse (parsers.py), re-read and translated into
   gen/GenCode10.v on every run, against the model of Model/DurText.v that the
   theorems of Props/C10.v are about.  Statements only; definitions and proofs
   in Proofs/GenCode10Ok.v; see notes/GENCODE10_REPORT.md.

   Vocabulary:
     rep x              the object state Duration.__init__ leaves for the model value x (phase 3);
     str_Duration ops n the translated __str__, the nested str(abs(self)) resolved n levels deep;
     agrees m c         c is the outcome m of the model (TOk s -> Ok (VStr s), TValueError -> Raise
                        ValueError, ...); nothing is claimed when m = TUnmodelled (a float outside the
                        finite decimals of at most 15 significant digits: the model's own guard);
     dagrees m c        the same for a parsed duration: TOk d -> c = Ok (VDur (rep r)) with r equal
                        to d up to the representation of the three rationals; TValueError -> ValueError
                        (or NotTranslated when an EARLIER group was outside the float domain);
     designator_groups  the groups of the first of the three DURATION_REGEXES that matches
                        (regex.search on the patterns of gen/DurGrammar.v = the model's matcher);
     strip_sign         the leading "-" of the package's negative extension. *)
From Coq Require Import ZArith QArith String Ascii List.
From Iso Require Import Model.Num Model.Forms Model.Parse Model.Duration Model.DurText gen.DurGrammar
  Proofs.DurTextSpec.
From Iso Require gen.GenCode3 Proofs.GenCode3Ok Spec.Cal.
From Iso Require Import gen.GenCode10 Proofs.GenCode10Ok.
Import ListNotations.
Open Scope string_scope.
Open Scope Z_scope.

Theorem C10_code_translator_ok : translator_ok_code10 = true.
Proof. exact gen_code10_accepted. Qed.
Print Assumptions C10_code_translator_ok.

(* Duration.__str__ = dur_str: "P0Y" for a falsy duration, the leading "-" of a fully negative one
   (through abs and a second run of the method), the weeks form, years .. seconds with the T
   separator, integer-valued floats printed as ints, decimal comma *)
Theorem C10_code_str : forall ops n x, agrees (dur_str x) (str_Duration ops (S (S n)) (rep x)).
Proof. exact gen10_str. Qed.
Print Assumptions C10_code_str.

Theorem C10_code_str_ok : forall ops n x s,
  dur_str x = TOk s -> str_Duration ops (S (S n)) (rep x) = Ok (VStr s).
Proof. exact gen10_str_ok. Qed.
Print Assumptions C10_code_str_ok.

Theorem C10_code_str_valueerror : forall ops n x,
  dur_str x = TValueError -> str_Duration ops (S (S n)) (rep x) = Raise ValueError.
Proof. exact gen10_str_valueerror. Qed.
Print Assumptions C10_code_str_valueerror.

(* one run of the method, given what str() does on the absolute value *)
Theorem C10_code_str_step : forall ops x, (fully_negative x = true -> ops_ok ops) ->
  agrees (dur_str x) (py_Duration___str__ ops (VDur (rep x))).
Proof. exact gen10_str_step. Qed.
Print Assumptions C10_code_str_step.

(* DurationParser.parse on ASCII texts one of the designator regexes matches = dur_parse:
   the sign, the search in the order of DURATION_REGEXES, int() / float() of each group with
   "," -> ".", the multiplication by the sign, the Duration constructor (phase 3's __init__) *)
Theorem C10_code_parse_designators : forall ops expr g,
  str_all is_ascii7 expr = true -> designator_groups (snd (strip_sign expr)) = Some g ->
  dur_parse expr = convert (fst (strip_sign expr)) g /\
  dagrees (dur_parse expr) (py_DurationParser_parse ops VParser (VStr expr)).
Proof. exact gen10_parse_designators. Qed.
Print Assumptions C10_code_parse_designators.

(* no designator regex matches, and a sign or no leading P: ISO8601SyntaxError *)
Theorem C10_code_parse_syntax : forall ops expr,
  str_all is_ascii7 expr = true -> designator_groups (snd (strip_sign expr)) = None ->
  (uncons "P" (snd (strip_sign expr)) = None \/ fst (strip_sign expr) = -1) ->
  dur_parse expr = TSyntax /\ py_DurationParser_parse ops VParser (VStr expr) = Raise ISO8601SyntaxError.
Proof. exact gen10_parse_syntax. Qed.
Print Assumptions C10_code_parse_syntax.

(* CUT: no designator regex matches -> the code is its last segment (the date-time-like alternative
   notation through parse_timepoint_expression); that segment is translated, not proved *)
Theorem C10_code_parse_fallback_cut : forall ops expr,
  designator_groups (snd (strip_sign expr)) = None ->
  py_DurationParser_parse ops VParser (VStr expr) =
  py_DurationParser_parse__A1 ops VParser (VStr (snd (strip_sign expr))) (VInt (fst (strip_sign expr))).
Proof. exact gen10_parse_fallback_cut. Qed.
Print Assumptions C10_code_parse_fallback_cut.

(* the translated methods evaluated (closed vm_compute) = the real package
   (/venv/bin/python, PYTHONPATH=/repo: str(Duration(..)) and tools/impl.py's sh_dur of
   DurationParser().parse(text)); the alternative notation runs through phase 8's translated
   TimePointParser.parse *)
Example C10_code_ex :
  run_str (DU 1 2 3 4 5 6) = "P1Y2M3DT4H5M6S" /\
  run_str (DW (-1)) = "-P1W" /\
  run_str (DW 3) = "P3W" /\
  run_str (DU 0 0 0 0 0 0) = "P0Y" /\
  run_str (DU 0 0 0 0 0 (3#2)) = "PT1,5S" /\
  run_str (DU 0 0 0 (-3#2) 2 0) = "PT-1,5H2M" /\
  run_str (DU 0 0 0 36 0 0) = "PT36H" /\
  run_str (DU 0 0 (-1) (-3#2) 0 0) = "-P1DT1,5H" /\
  run_str (DU 0 0 5 0 0 0) = "P5D" /\
  run_str (DU 0 (-2) 0 0 0 (1#4)) = "P-2MT0,25S" /\
  run_str (DU 0 0 0 0 0 (1001#1000)) = "PT1,001S" /\
  run_parse Spec.Cal.G "P1Y2M3DT4H5M6S" = "DU 1 2 3 4 5 6" /\
  run_parse Spec.Cal.G "-P2W" = "DW -2" /\
  run_parse Spec.Cal.G "PT1,5S" = "DU 0 0 0 0 0 3/2" /\
  run_parse Spec.Cal.G "PT0.25H" = "DU 0 0 0 1/4 0 0" /\
  run_parse Spec.Cal.G "P1Y" = "DU 1 0 0 0 0 0" /\
  run_parse Spec.Cal.G "PT1.5.5S" = "ERR value" /\
  run_parse Spec.Cal.G "P2000-01-02T03:04:05" = "DU 2000 1 2 3 4 5" /\
  run_parse Spec.Cal.G "P20000102T030405" = "DU 2000 1 2 3 4 5" /\
  run_parse Spec.Cal.G "P2000-002T03:04:05" = "DU 2000 0 2 3 4 5" /\
  run_parse Spec.Cal.G "P2000W011T000000" = "ERR syntax" /\
  run_parse Spec.Cal.G "-P2000-01-02T03:04:05" = "ERR syntax" /\
  run_parse Spec.Cal.G "X" = "ERR syntax" /\
  run_parse Spec.Cal.G "P" = "DU 0 0 0 0 0 0" /\
  run_parse Spec.Cal.G "PT" = "DU 0 0 0 0 0 0" /\
  run_parse Spec.Cal.G "-P1DT2,5M" = "DU 0 0 -1 0 -5/2 0" /\
  run_parse Spec.Cal.G "P3W" = "DW 3" /\
  run_parse Spec.Cal.G "P1Y1W" = "ERR syntax" /\
  run_parse Spec.Cal.G "P0001-00-00T00:00:00" = "DU 1 0 0 0 0 0" /\
  (* float("1e3") is outside the model's float(str) domain (the package answers 1000 seconds) *)
  run_parse Spec.Cal.G "PT1e3S" = "UNMODELLED".
Proof. vm_compute. repeat split. Qed.
Print Assumptions C10_code_ex.
