(* Props/C16.v -- property C16: time points, durations, zones and recurrences
   are immutable values.  Statements only (proofs: Proofs/EffectSpec.v).

   Model: a heap of objects (Spec/Heap.v), the write-effect IR of every method
   of the four classes regenerated from /repo (gen/Effects.v), its big-step
   semantics `exec` and the checker `check` (Model/EffectSem.v).  A public
   operation (`op_step`) is any public method of the table run on any existing
   receiver with arbitrary existing arguments; a `history` is any sequence of
   public operations.  `extends h h'` says h' = h ++ new objects: every object
   of h keeps exactly its slots. *)
From Coq Require Import List String Bool Arith.
From Iso Require Import Spec.EffectIR Spec.Heap Model.EffectSem gen.Effects Proofs.EffectSpec.
Import ListNotations.

(* the table generated from the current source passes the checker *)
Theorem C16_table_ok : translator_ok_effects = true /\ check Effects.table = true.
Proof. exact effects_table_ok. Qed.
Print Assumptions C16_table_ok.

(* the frame theorem, for any table that passes: no execution of a public
   method writes an object that existed before the call *)
Theorem C16_analysis_sound : forall T, check T = true ->
  forall ent recv h e1 h1 s1,
    In ent T -> is_public (e_name ent) = true ->
    exec T (e_body ent) (env0 recv) h e1 h1 s1 ->
    forall l, l < List.length h -> nth_error h1 l = nth_error h l.
Proof. exact analysis_sound. Qed.
Print Assumptions C16_analysis_sound.

(* histories: after every step of every sequence of public operations, the
   heap is an extension of the heap after every earlier step *)
Theorem C16_histories : forall h0 hs, history Effects.table h0 hs ->
  forall i j hi hj, i <= j ->
    nth_error (h0 :: hs) i = Some hi -> nth_error (h0 :: hs) j = Some hj ->
    extends hi hj.
Proof. exact (histories_sound Effects.table (proj2 effects_table_ok)). Qed.
Print Assumptions C16_histories.

(* hence every value that existed after step i, re-inspected after any later
   step j, shows the same tree of slots to any depth (its observable state,
   string form and hash are functions of that tree): no operand or earlier
   result changes, and no two values share state that a later operation could
   use to alter one through the other *)
Theorem C16_observations : forall h0 hs, wf_heap h0 -> history Effects.table h0 hs ->
  forall i j hi hj v n, i <= j ->
    nth_error (h0 :: hs) i = Some hi -> nth_error (h0 :: hs) j = Some hj ->
    valid hi v -> observe n hj v = observe n hi v.
Proof. exact (histories_observe Effects.table (proj2 effects_table_ok)). Qed.
Print Assumptions C16_observations.

(* without the check the statement fails: a public method that writes its
   receiver is rejected by `check` and does change an existing object *)
Theorem C16_check_is_needed :
  check bad_table = false /\ op_step bad_table [[VPrim 1]] [[VPrim 2]].
Proof. exact frame_needs_check. Qed.
Print Assumptions C16_check_is_needed.

(* the hypotheses are satisfiable: the generated table has public and private
   methods, and admits a history from a well-formed non-empty heap *)
Example C16_nonvacuous :
  (existsb (fun ent => (is_public (e_name ent) && String.eqb (e_name ent) "to_time_zone")%bool) Effects.table = true /\
   existsb (fun ent => negb (is_public (e_name ent))) Effects.table = true /\
   Nat.leb 100 (List.length Effects.table) = true) /\
  (check Effects.table = true /\ wf_heap ex_heap /\
   exists hs, hs <> [] /\ history Effects.table ex_heap hs).
Proof. exact (conj effects_nonvacuous effects_history_example). Qed.
Print Assumptions C16_nonvacuous.
