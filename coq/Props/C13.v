(* Props/C13.v -- property C13: recurrence queries agree with iteration.
   Statements only; recurrences as in C12 (exact interval of positive length
   unless said otherwise), probes in any representation or offset. *)
From Coq Require Import QArith Qround List.
From Iso Require Import Proofs.Tac Spec.Cal Spec.Instant Spec.Series Model.Num Model.Duration Model.TimePoint
  Model.Recurrence Proofs.RecSpec Proofs.RecQuerySpec.
Import ListNotations.
Open Scope Z_scope.

(* a recurrence with a start, an exact positive interval and, when bounded, its
   end at start + (n-1) * interval: what C12's constructors produce *)
Definition wf_fwd (md : mode) (r : recur) (s : tp) (d : dur) : Prop :=
  r_start r = Some s /\ r_dur r = Some d /\ valid_tp md s = true /\ exact_pos d /\
  match r_reps r, r_end r with
  | Some n, Some e => 2 <= n /\ valid_tp md e = true /\
                      (instant md e == instant md s + inject_Z (n - 1) * dur_len d)%Q
  | None, None => True
  | _, _ => False
  end.

(* index range of the series *)
Definition in_range (r : recur) (i : Z) : Prop :=
  0 <= i /\ match r_reps r with Some n => i < n | None => True end.

(* bounds test = the instant lies between the series' ends *)
Theorem C13_in_bounds : forall md r s d t, wf_fwd md r s d -> valid_tp md t = true ->
  exists b, in_bounds md r (Some t) = Some b /\
    (b = true <-> (instant md s <= instant md t)%Q /\
                  match r_end r with Some e => (instant md t <= instant md e)%Q | None => True end).
Proof. exact in_bounds_spec. Qed.
Print Assumptions C13_in_bounds.

(* get_is_valid: true exactly for probes at the instant of a member *)
Theorem C13_valid : forall md r s d t fuel b, wf_fwd md r s d -> valid_tp md t = true ->
  get_is_valid md r t fuel = Some b ->
  (b = true <-> exists i, in_range r i /\ (instant md t == instant md s + inject_Z i * dur_len d)%Q).
Proof. exact get_is_valid_spec. Qed.
Print Assumptions C13_valid.

(* ... and the scan answers as soon as the fuel exceeds the number of members up to the probe *)
Theorem C13_valid_total : forall md r s d t fuel, wf_fwd md r s d -> valid_tp md t = true ->
  (match r_reps r with
   | Some n => n < Z.of_nat fuel
   | None => (inject_Z (Z.of_nat fuel) * dur_len d > instant md t - instant md s + dur_len d + dur_len d)%Q
   end) ->
  exists b, get_is_valid md r t fuel = Some b.
Proof. exact get_is_valid_total. Qed.
Print Assumptions C13_valid_total.

(* r[i] is the i-th iterated point *)
Theorem C13_getitem : forall md r s d i, wf_fwd md r s d -> 0 <= i ->
  (in_range r i -> exists p, rec_getitem md r i = Some p /\
      (instant md p == instant md s + inject_Z i * dur_len d)%Q /\
      nth_error (iter_take md r (S (Z.to_nat i))) (Z.to_nat i) = Some p) /\
  (~ in_range r i -> rec_getitem md r i = None).
Proof. exact getitem_spec. Qed.
Print Assumptions C13_getitem.

(* get_next / get_prev: the adjacent member, None past the ends *)
Theorem C13_next_prev : forall md r s d t, wf_fwd md r s d -> valid_tp md t = true ->
  (instant md s <= instant md t)%Q ->
  (match get_next md r (Some t) with
   | Some q => (instant md q == instant md t + dur_len d)%Q /\ valid_tp md q = true /\
               match r_end r with Some e => (instant md q <= instant md e)%Q | None => True end
   | None => match r_end r with Some e => (instant md e < instant md t + dur_len d)%Q | None => False end
   end) /\
  (match get_prev md r (Some t) with
   | Some q => (instant md q == instant md t - dur_len d)%Q /\ valid_tp md q = true /\
               (instant md s <= instant md q)%Q
   | None => (instant md t - dur_len d < instant md s)%Q \/
             match r_end r with Some e => (instant md e < instant md t - dur_len d)%Q | None => False end
   end).
Proof. exact next_prev_spec. Qed.
Print Assumptions C13_next_prev.

(* get_first_after for whole-second intervals and probes *)
Theorem C13_first_after : forall md r s d t fuel, wf_fwd md r s d -> valid_tp md t = true ->
  qis_int (dur_len d) = true -> qis_int (instant md t - instant md s) = true ->
  let later := (instant md s + inject_Z (Qfloor ((instant md t - instant md s) / dur_len d) + 1) * dur_len d)%Q in
  match get_first_after md r t fuel with
  | Some (Some q) =>
    ((instant md t < instant md s)%Q /\ q = s) \/
    ((instant md s <= instant md t)%Q /\ (instant md q == later)%Q /\ (instant md t < instant md q)%Q /\
     match r_end r with Some e => (instant md q <= instant md e)%Q | None => True end)
  | Some None =>
    match r_end r with
    | Some e => (instant md s <= instant md t)%Q /\ (instant md e < later)%Q
    | None => False end
  | None => False
  end.
Proof. exact first_after_spec. Qed.
Print Assumptions C13_first_after.

Example C13_ex :
  match rec_make G (Some 3) (Some (mkTp (Cal 2002 5 4) (HMS 23 0 0) (mkZone 0 0))) (Some (DU 0 0 0 1 0 0)) None with
  | Ok r =>
    (get_first_after G r (mkTp (Cal 2002 5 5) (HMS 1 0 0) (mkZone 0 0)) 10,
     get_first_after G r (mkTp (Ord 2002 125) (HMS 1 30 0) (mkZone 1 0)) 10,
     get_is_valid G r (mkTp (Ord 2002 125) (HMS 1 0 0) (mkZone 1 0)) 10)
  | Err => (None, None, None)
  end = (Some None, Some (Some (mkTp (Ord 2002 125) (HMS 2 0 0) (mkZone 1 0))), Some true).
Proof. vm_compute. reflexivity. Qed.
