(* Props/C06Code.v -- property C06 tied to the SOURCE of class TimePoint: the method
   bodies translated from /repo on this run (gen/GenCode4.v; vocabulary and conventions in
   the header of Props/C01Code.v) compute the model functions the theorems of Props/C06.v
   are about, for every fuel at least the model's own loop bounds.  Statements only. *)
From Coq Require Import QArith String.
From Iso Require Import Proofs.Tac Spec.Cal Spec.Instant Model.Num Model.Helpers Model.Duration Model.TimePoint
  gen.CalTables gen.GenCode4 Proofs.GenCode2Ok Proofs.GenCode4Base Proofs.GenCode4Stmt Proofs.GenCode4Stmt2
  Proofs.GenCode4Conv Proofs.GenCode4Cmp Proofs.GenCode4Ok.
From Iso Require gen.GenCode3 Proofs.GenCode3Ok.
Open Scope Z_scope.

Theorem C06_code_translator_ok : gen.GenCode4.translator_ok_code4 = true.
Proof. exact gen_code4_accepted. Qed.
Print Assumptions C06_code_translator_ok.
Theorem C06_code_to_time_zone : forall md fl p p' z fuel q,
  tp_equiv p' p -> month_ok p -> to_time_zone md p z = Some q ->
  (Z.to_nat (tp_add_bound md p (zone_diff z (tzone p))) <= fuel)%nat ->
  returns_tp fl (py_TimePoint_to_time_zone fuel (cal_of md) (rep fl p') (rep_zone z)) q.
Proof. exact gen4_to_time_zone. Qed.
Print Assumptions C06_code_to_time_zone.

Theorem C06_code_to_utc : forall md fl p p' fuel q,
  tp_equiv p' p -> month_ok p -> to_utc md p = Some q ->
  (Z.to_nat (tp_add_bound md p (zone_diff zone_utc (tzone p))) <= fuel)%nat ->
  returns_tp fl (py_TimePoint_to_utc fuel (cal_of md) (rep fl p')) q.
Proof. exact gen4_to_utc. Qed.
Print Assumptions C06_code_to_utc.
